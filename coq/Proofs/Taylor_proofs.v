(* Theorems about Model/Taylor.v.

   Part 1 (all dimensions d, all Lmax): the index tables are a bijection between power indices
           and exponent vectors of degree <= Lmax, graded by degree, and directmult is the index
           of the product monomial.
   Part 2 (all d, all Lmax, all ordered rings K, all K-modules): evaluation is additive and
           homogeneous and commutes with sumcoeff / negcoeff / scale / any linear map of the
           coefficients (ldot, rdot, __getitem__) / truncation, and is multiplicative for
           coeffproductcoeff through any bilinear map when l_a + l_b <= Lmax.
   Part 3 (class constant Lmax = 4, d = 3 and d = 2; finite case analysis + ring): the projector
           tables preserve the value on the unit sphere (reduce / collect / separate),
           constructexpansion gives the power series, rotatedirections/rotatecoeff is the exact
           change of variables.
   Part 4 (any ring, not necessarily commutative): the Neumann-series identities behind inversecoeff. *)
From Coq Require Import List Arith ZArith Bool Lia Ring Permutation.
From Onsager Require Import Base.OrdRing Base.Instances Model.Taylor.
Import ListNotations.
Local Open Scope nat_scope.

(* ================================================================== Part 1: index tables == *)
Lemma expo_eqb_eq a b : expo_eqb a b = true <-> a = b.
Proof.
  revert b; induction a as [|x a IH]; intros [|y b]; cbn [expo_eqb]; split; intro H;
    try reflexivity; try discriminate.
  - apply andb_true_iff in H. destruct H as [H1 H2]. apply Nat.eqb_eq in H1. apply IH in H2. subst; reflexivity.
  - inversion H; subst. apply andb_true_iff. split; [apply Nat.eqb_refl | apply IH; reflexivity].
Qed.

Lemma expo_eqb_refl a : expo_eqb a a = true.
Proof. apply expo_eqb_eq; reflexivity. Qed.

Lemma index_of_Some e l i dflt : index_of e l = Some i -> i < length l /\ nth i l dflt = e.
Proof.
  revert i; induction l as [|x l IH]; intros i H; cbn [index_of] in H; [discriminate|].
  destruct (expo_eqb e x) eqn:Ex.
  - inversion H; subst. apply expo_eqb_eq in Ex. subst. cbn. split; [lia | reflexivity].
  - destruct (index_of e l) as [j|] eqn:Ej; cbn in H; [|discriminate]. inversion H; subst.
    destruct (IH j eq_refl) as [H1 H2]. cbn. split; [lia | exact H2].
Qed.

Lemma index_of_In e l : In e l -> exists i, index_of e l = Some i.
Proof.
  induction l as [|x l IH]; intro H; [destruct H|]. cbn [index_of].
  destruct (expo_eqb e x) eqn:Ex; [eexists; reflexivity|].
  destruct H as [H|H]; [subst; rewrite expo_eqb_refl in Ex; discriminate|].
  destruct (IH H) as [i Hi]. rewrite Hi. eexists; reflexivity.
Qed.

Lemma index_of_None e l : index_of e l = None -> ~ In e l.
Proof. intros H Hin. destruct (index_of_In e l Hin) as [i Hi]. congruence. Qed.

Lemma index_of_nth l i dflt : NoDup l -> i < length l -> index_of (nth i l dflt) l = Some i.
Proof.
  intros Hnd Hi. assert (Hin : In (nth i l dflt) l) by (apply nth_In; exact Hi).
  destruct (index_of_In _ _ Hin) as [j Hj]. rewrite Hj. f_equal.
  destruct (index_of_Some _ _ _ dflt Hj) as [Hj1 Hj2].
  apply (proj1 (NoDup_nth l dflt) Hnd); assumption.
Qed.

Lemma index_of_app_l e l r : In e l -> index_of e (l ++ r) = index_of e l.
Proof.
  induction l as [|x l IH]; intro H; [destruct H|]. cbn [index_of app].
  destruct (expo_eqb e x) eqn:Ex; [reflexivity|].
  destruct H as [H|H]; [subst; rewrite expo_eqb_refl in Ex; discriminate|].
  rewrite IH by exact H. reflexivity.
Qed.

Lemma NoDup_app_intro {A} (l1 l2 : list A) :
  NoDup l1 -> NoDup l2 -> (forall x, In x l1 -> ~ In x l2) -> NoDup (l1 ++ l2).
Proof.
  induction l1 as [|a l1 IH]; intros H1 H2 H; cbn; [exact H2|].
  inversion H1; subst. constructor.
  - intro Hin. apply in_app_or in Hin. destruct Hin as [Hin|Hin]; [contradiction|].
    apply (H a); [left; reflexivity | exact Hin].
  - apply IH; [assumption | assumption | intros x Hx; apply H; right; exact Hx].
Qed.

Lemma NoDup_flat_map_intro {A B} (f : A -> list B) (l : list A) :
  NoDup l -> (forall x, In x l -> NoDup (f x)) ->
  (forall x y b, In x l -> In y l -> In b (f x) -> In b (f y) -> x = y) ->
  NoDup (flat_map f l).
Proof.
  induction l as [|a l IH]; intros Hl Hf Hd; cbn [flat_map]; [constructor|].
  inversion Hl; subst. apply NoDup_app_intro.
  - apply Hf; left; reflexivity.
  - apply IH; [assumption | intros x Hx; apply Hf; right; exact Hx |
               intros x y b Hx Hy; apply Hd; right; assumption].
  - intros b Hb Hb2. apply in_flat_map in Hb2. destruct Hb2 as [y [Hy Hby]].
    assert (a = y) by (apply (Hd a y b); [left; reflexivity | right; exact Hy | exact Hb | exact Hby]).
    subst. contradiction.
Qed.

Lemma comps_spec d : forall l e, In e (comps d l) <-> length e = d /\ list_sum e = l.
Proof.
  induction d as [|d IH]; intros l e.
  - cbn [comps]. destruct l as [|l]; split.
    + intros [H|[]]; subst; split; reflexivity.
    + intros [H1 H2]. destruct e; [left; reflexivity | discriminate H1].
    + intros [].
    + intros [H1 H2]. destruct e; [discriminate H2 | discriminate H1].
  - cbn [comps]. rewrite in_flat_map. split.
    + intros [n1 [Hn1 He]]. apply in_seq in Hn1. apply in_map_iff in He. destruct He as [e' [He' Hin]].
      subst e. apply IH in Hin. destruct Hin as [H1 H2]. split; [cbn; lia | change (n1 + list_sum e' = l); lia].
    + intros [H1 H2]. destruct e as [|n1 e']; [discriminate|]. change (n1 + list_sum e' = l) in H2. cbn in H1.
      exists n1. split; [apply in_seq; lia|]. apply in_map_iff. exists e'. split; [reflexivity|].
      apply IH. split; lia.
Qed.

Lemma comps_NoDup d : forall l, NoDup (comps d l).
Proof.
  induction d as [|d IH]; intro l.
  - cbn. destruct l; [constructor; [intros []|constructor] | constructor].
  - cbn [comps]. apply NoDup_flat_map_intro.
    + apply seq_NoDup.
    + intros n1 _. apply FinFun.Injective_map_NoDup; [|apply IH]. intros a b H; inversion H; reflexivity.
    + intros x y b _ _ Hx Hy. apply in_map_iff in Hx. apply in_map_iff in Hy.
      destruct Hx as [e1 [E1 _]]. destruct Hy as [e2 [E2 _]]. subst b. inversion E2; reflexivity.
Qed.

Lemma enum_spec d L e : In e (enum d L) <-> length e = d /\ deg e <= L.
Proof.
  unfold enum, deg. rewrite in_flat_map. split.
  - intros [l [Hl He]]. apply in_seq in Hl. apply comps_spec in He. lia.
  - intros [H1 H2]. exists (list_sum e). split; [apply in_seq; lia | apply comps_spec; split; [exact H1 | reflexivity]].
Qed.

Lemma enum_NoDup d L : NoDup (enum d L).
Proof.
  unfold enum. apply NoDup_flat_map_intro.
  - apply seq_NoDup.
  - intros; apply comps_NoDup.
  - intros x y b _ _ Hx Hy. apply comps_spec in Hx. apply comps_spec in Hy. lia.
Qed.

Lemma enum_prefix d l L : l <= L ->
  exists r, enum d L = enum d l ++ r /\ forall e, In e r -> l < deg e.
Proof.
  intro H. exists (flat_map (comps d) (seq (S l) (L - l))). split.
  - unfold enum. rewrite <- flat_map_app. f_equal.
    replace (S L) with (S l + (L - l)) by lia. rewrite seq_app. reflexivity.
  - intros e He. apply in_flat_map in He. destruct He as [k [Hk He]]. apply in_seq in Hk.
    apply comps_spec in He. unfold deg. lia.
Qed.

Lemma powlrange_mono d l L : l <= L -> powlrange d l <= powlrange d L.
Proof.
  intro H. destruct (enum_prefix d l L H) as [r [E _]]. unfold powlrange. rewrite E, app_length. lia.
Qed.

Lemma enum_length_e d L e : In e (enum d L) -> length e = d.
Proof. intro H. apply enum_spec in H. tauto. Qed.

Lemma ind2pow_in d L p : p < Npower d L -> In (ind2pow d L p) (enum d L).
Proof. intro H. apply nth_In. exact H. Qed.

Lemma ind2pow_length d L p : length (ind2pow d L p) = d.
Proof.
  unfold ind2pow. destruct (Nat.lt_ge_cases p (length (enum d L))) as [H|H].
  - apply (enum_length_e d L). apply nth_In. exact H.
  - rewrite nth_overflow by exact H. apply repeat_length.
Qed.

(* pow2ind o ind2pow = id *)
Theorem pow2ind_ind2pow d L p : p < Npower d L -> pow2ind d L (ind2pow d L p) = Z.of_nat p.
Proof.
  intro H. unfold pow2ind, ind2pow. rewrite index_of_nth; [reflexivity | apply enum_NoDup | exact H].
Qed.

(* ind2pow o pow2ind = id on the exponents of degree <= Lmax, and -1 elsewhere *)
Theorem ind2pow_pow2ind d L e : length e = d -> deg e <= L ->
  exists p, pow2ind d L e = Z.of_nat p /\ p < Npower d L /\ ind2pow d L p = e.
Proof.
  intros H1 H2. assert (Hin : In e (enum d L)) by (apply enum_spec; split; assumption).
  destruct (index_of_In _ _ Hin) as [i Hi]. exists i. unfold pow2ind. rewrite Hi.
  destruct (index_of_Some _ _ _ (repeat 0 d) Hi) as [Ha Hb]. split; [reflexivity|]. split; assumption.
Qed.

Theorem pow2ind_outside d L e : L < deg e -> pow2ind d L e = (-1)%Z.
Proof.
  intro H. unfold pow2ind. destruct (index_of e (enum d L)) as [i|] eqn:Ei; [|reflexivity].
  destruct (index_of_Some _ _ _ (repeat 0 d) Ei) as [Ha Hb].
  assert (Hin : In e (enum d L)) by (rewrite <- Hb; apply nth_In; exact Ha).
  apply enum_spec in Hin. lia.
Qed.

(* the index ranges are graded by degree: p < powlrange l  <->  deg (ind2pow p) <= l *)
Theorem powlrange_spec d L l p : l <= L -> p < Npower d L ->
  (p < powlrange d l <-> deg (ind2pow d L p) <= l).
Proof.
  intros Hl Hp. destruct (enum_prefix d l L Hl) as [r [E Hr]]. unfold powlrange, ind2pow. split.
  - intro H. rewrite E. rewrite app_nth1 by exact H.
    assert (Hin : In (nth p (enum d l) (repeat 0 d)) (enum d l)) by (apply nth_In; exact H).
    apply enum_spec in Hin. tauto.
  - intro H. set (e := nth p (enum d L) (repeat 0 d)) in *.
    assert (Hin : In e (enum d l)).
    { apply enum_spec. split; [|exact H]. apply (enum_length_e d L). apply nth_In. exact Hp. }
    destruct (index_of_In _ _ Hin) as [i Hi].
    destruct (index_of_Some _ _ _ (repeat 0 d) Hi) as [Ha Hb].
    assert (i = p).
    { apply (proj1 (NoDup_nth (enum d L) (repeat 0 d)) (enum_NoDup d L)).
      - rewrite E, app_length. lia.
      - exact Hp.
      - rewrite E at 1. rewrite app_nth1 by exact Ha. exact Hb. }
    subst. exact Ha.
Qed.

Lemma ind2pow_prefix d L l p : l <= L -> p < powlrange d l -> ind2pow d L p = ind2pow d l p.
Proof.
  intros Hl Hp. destruct (enum_prefix d l L Hl) as [r [E _]]. unfold ind2pow. rewrite E.
  apply app_nth1. exact Hp.
Qed.

Lemma eadd_length a b : length a = length b -> length (eadd a b) = length a.
Proof.
  revert b; induction a as [|x a IH]; intros [|y b] H; cbn in *; try reflexivity; try discriminate.
  f_equal. apply IH. lia.
Qed.

Lemma eadd_deg a b : length a = length b -> deg (eadd a b) = deg a + deg b.
Proof.
  unfold deg. revert b; induction a as [|x a IH]; intros [|y b] H; cbn [eadd]; try reflexivity; try discriminate.
  change (x + y + list_sum (eadd a b) = x + list_sum a + (y + list_sum b)).
  rewrite IH by (cbn in H; lia). lia.
Qed.

(* directmult[p0][p1] is the index of the product monomial, inside the block range of the summed
   degree; -1 (never a valid index) exactly when the degree would exceed Lmax *)
Theorem directmult_spec d L p0 p1 :
  p0 < Npower d L -> p1 < Npower d L ->
  deg (ind2pow d L p0) + deg (ind2pow d L p1) <= L ->
  exists q, directmult d L p0 p1 = Z.of_nat q /\ q < Npower d L /\
            ind2pow d L q = eadd (ind2pow d L p0) (ind2pow d L p1) /\
            q < powlrange d (deg (ind2pow d L p0) + deg (ind2pow d L p1)).
Proof.
  intros H0 H1 Hd. unfold directmult.
  assert (Hlen : length (ind2pow d L p0) = length (ind2pow d L p1)) by (rewrite !ind2pow_length; reflexivity).
  rewrite eadd_deg by exact Hlen.
  destruct (Nat.leb_spec (deg (ind2pow d L p0) + deg (ind2pow d L p1)) L) as [_|Hc]; [|lia].
  destruct (ind2pow_pow2ind d L (eadd (ind2pow d L p0) (ind2pow d L p1))) as [q [Hq1 [Hq2 Hq3]]].
  - rewrite eadd_length by exact Hlen. apply ind2pow_length.
  - rewrite eadd_deg by exact Hlen. exact Hd.
  - exists q. split; [exact Hq1|]. split; [exact Hq2|]. split; [exact Hq3|].
    apply (proj2 (powlrange_spec d L _ q Hd Hq2)). rewrite Hq3. rewrite eadd_deg by exact Hlen. lia.
Qed.

Theorem directmult_outside d L p0 p1 :
  L < deg (ind2pow d L p0) + deg (ind2pow d L p1) -> directmult d L p0 p1 = (-1)%Z.
Proof.
  intro H. unfold directmult.
  rewrite eadd_deg by (rewrite !ind2pow_length; reflexivity).
  destruct (Nat.leb_spec (deg (ind2pow d L p0) + deg (ind2pow d L p1)) L); [lia | reflexivity].
Qed.

(* ================================================================== Part 2: evaluation ==== *)
Section ModuleFacts.
Variable K : ordring.
Add Ring KrT : (r_ring K).
Variable V : kmod K.
Hypothesis HV : modlaws K V.

Lemma madd_0_r (u : V) : madd V u (m0 V) = u.
Proof. rewrite (madd_comm K V HV). apply (madd_0_l K V HV). Qed.

Lemma msmul_m0 k : msmul V k (m0 V) = m0 V.
Proof.
  rewrite <- (msmul_0 K V HV (m0 V)) at 1. rewrite <- (msmul_mul K V HV).
  replace (rmul K k (r0 K)) with (r0 K) by ring. apply (msmul_0 K V HV).
Qed.

Lemma madd_swap4 (a b c e : V) : madd V (madd V a b) (madd V c e) = madd V (madd V a c) (madd V b e).
Proof.
  rewrite <- (madd_assoc K V HV a b). rewrite (madd_assoc K V HV b c e). rewrite (madd_comm K V HV b c).
  rewrite <- (madd_assoc K V HV c b e). rewrite (madd_assoc K V HV a c). reflexivity.
Qed.

Lemma mneg_r (u : V) : madd V u (mneg K V u) = m0 V.
Proof.
  unfold mneg. rewrite <- (msmul_1 K V HV u) at 1. rewrite <- (msmul_add_l K V HV).
  replace (radd K (r1 K) (ropp K (r1 K))) with (r0 K) by ring. apply (msmul_0 K V HV).
Qed.

Lemma msmul_comm j k (u : V) : msmul V j (msmul V k u) = msmul V k (msmul V j u).
Proof. rewrite <- !(msmul_mul K V HV). f_equal. ring. Qed.

Lemma msum_app (l1 l2 : list V) : msum K V (l1 ++ l2) = madd V (msum K V l1) (msum K V l2).
Proof.
  induction l1 as [|a l1 IH]; cbn [msum app]; [symmetry; apply (madd_0_l K V HV)|].
  rewrite IH. apply (madd_assoc K V HV).
Qed.

Lemma msum_perm (l l' : list V) : Permutation l l' -> msum K V l = msum K V l'.
Proof.
  induction 1 as [| x l l' _ IH | x y l | l l' l'' _ IH1 _ IH2]; cbn [msum].
  - reflexivity.
  - rewrite IH; reflexivity.
  - rewrite !(madd_assoc K V HV). rewrite (madd_comm K V HV y x). reflexivity.
  - rewrite IH1; exact IH2.
Qed.

Lemma msum_smul {T} k (f : T -> V) l : msmul V k (msum K V (map f l)) = msum K V (map (fun a => msmul V k (f a)) l).
Proof.
  induction l as [|a l IH]; cbn [msum map]; [apply msmul_m0|].
  rewrite (msmul_add_r K V HV). rewrite IH. reflexivity.
Qed.

Lemma msum_madd {T} (f g : T -> V) l :
  msum K V (map (fun a => madd V (f a) (g a)) l) = madd V (msum K V (map f l)) (msum K V (map g l)).
Proof.
  induction l as [|a l IH]; cbn [msum map]; [symmetry; apply (madd_0_l K V HV)|].
  rewrite IH. apply madd_swap4.
Qed.

Lemma msum_zero {T} (l : list T) : msum K V (map (fun _ => m0 V) l) = m0 V.
Proof. induction l as [|a l IH]; cbn [msum map]; [reflexivity|]. rewrite IH. apply (madd_0_l K V HV). Qed.

Lemma msum_ext {T} (f g : T -> V) l : (forall a, In a l -> f a = g a) -> msum K V (map f l) = msum K V (map g l).
Proof. intro H. f_equal. apply map_ext_in. exact H. Qed.

(* scalar sums acting on a module element *)
Lemma sumf_smul {T} (f : T -> K) (l : list T) (u : V) :
  msmul V (sumf f l) u = msum K V (map (fun a => msmul V (f a) u) l).
Proof.
  induction l as [|a l IH]; cbn [sumf msum map]; [apply (msmul_0 K V HV)|].
  rewrite (msmul_add_l K V HV). rewrite IH. reflexivity.
Qed.

(* ---- evl ---- *)
Lemma evl_nil_r es xs : evl K V es xs [] = m0 V.
Proof. unfold evl. destruct es; reflexivity. Qed.

Lemma evl_nil_l xs c : evl K V [] xs c = m0 V.
Proof. reflexivity. Qed.

Lemma evl_cons e es xs v c :
  evl K V (e :: es) xs (v :: c) = madd V (msmul V (mono xs e) v) (evl K V es xs c).
Proof. reflexivity. Qed.

Lemma evl_vadd es xs : forall u v, evl K V es xs (vadd K V u v) = madd V (evl K V es xs u) (evl K V es xs v).
Proof.
  induction es as [|e es IH]; intros u v.
  - rewrite !evl_nil_l. symmetry. apply (madd_0_l K V HV).
  - destruct u as [|a u]; [cbn [vadd]; rewrite evl_nil_r; symmetry; apply (madd_0_l K V HV)|].
    destruct v as [|b v]; [cbn [vadd]; rewrite evl_nil_r; symmetry; apply madd_0_r|].
    cbn [vadd]. rewrite !evl_cons. rewrite IH. rewrite (msmul_add_r K V HV). apply madd_swap4.
Qed.

Lemma evl_map_smul es xs k : forall c, evl K V es xs (map (msmul V k) c) = msmul V k (evl K V es xs c).
Proof.
  induction es as [|e es IH]; intro c.
  - rewrite !evl_nil_l. symmetry. apply msmul_m0.
  - destruct c as [|v c]; [cbn [map]; rewrite evl_nil_r; symmetry; apply msmul_m0|].
    cbn [map]. rewrite !evl_cons. rewrite IH. rewrite (msmul_add_r K V HV). f_equal. apply msmul_comm.
Qed.

Lemma evl_repeat0 es xs k : evl K V es xs (repeat (m0 V) k) = m0 V.
Proof.
  revert k; induction es as [|e es IH]; intro k; [reflexivity|].
  destruct k; [cbn [repeat]; apply evl_nil_r|]. cbn [repeat]. rewrite evl_cons, IH, msmul_m0. apply (madd_0_l K V HV).
Qed.

Lemma vadd_length (u v : list V) : length (vadd K V u v) = Nat.max (length u) (length v).
Proof.
  revert v; induction u as [|a u IH]; intros [|b v]; cbn [vadd length Nat.max]; try reflexivity.
  rewrite IH. reflexivity.
Qed.

(* enumerate-style evaluation *)
Lemma evl_enumerate_gen xs dflt : forall (c : list V) es k, length c <= length es ->
  evl K V es xs c =
  msum K V (map (fun pv => msmul V (mono xs (nth (fst pv - k) es dflt)) (snd pv)) (combine (seq k (length c)) c)).
Proof.
  induction c as [|v c IH]; intros es k Hlen; [apply evl_nil_r|].
  destruct es as [|e es]; [cbn in Hlen; lia|].
  rewrite evl_cons. cbn [length seq combine map msum fst snd]. rewrite Nat.sub_diag. cbn [nth].
  f_equal. rewrite (IH es (S k)) by (cbn in Hlen; lia).
  apply msum_ext. intros [p w] Hin. cbn [fst snd].
  apply in_combine_l in Hin. apply in_seq in Hin.
  replace (p - k) with (S (p - S k)) by lia. reflexivity.
Qed.

Lemma evl_enumerate d L xs (c : list V) : length c <= Npower d L ->
  evl K V (enum d L) xs c =
  msum K V (map (fun pv => msmul V (mono xs (ind2pow d L (fst pv))) (snd pv)) (combine (seq 0 (length c)) c)).
Proof.
  intro H. rewrite (evl_enumerate_gen xs (repeat 0 d) c (enum d L) 0 H).
  apply msum_ext. intros [p w] _. cbn [fst snd]. rewrite Nat.sub_0_r. reflexivity.
Qed.

End ModuleFacts.

Section EvalOne.
Variable K : ordring.
Add Ring KrT2 : (r_ring K).
Variables d L : nat.
Variable V : kmod K.
Hypothesis HV : modlaws K V.
Notation E := (E K d L V). Notation Eentry := (Eentry K d L V).
Notation entry := (entry V). Notation expansion := (expansion V).
Implicit Types (a b c : expansion) (t : entry) (rad : Z -> K) (xs : list K).

Lemma E_nil rad xs : E rad xs [] = m0 V.
Proof. reflexivity. Qed.

Lemma E_cons rad xs t a : E rad xs (t :: a) = madd V (Eentry rad xs t) (E rad xs a).
Proof. reflexivity. Qed.

Lemma E_app rad xs a b : E rad xs (a ++ b) = madd V (E rad xs a) (E rad xs b).
Proof. unfold Taylor.E. rewrite map_app. apply (msum_app K V HV). Qed.

Lemma E_perm rad xs a b : Permutation a b -> E rad xs a = E rad xs b.
Proof. intro H. unfold Taylor.E. apply (msum_perm K V HV). apply Permutation_map. exact H. Qed.

Lemma insert_sorted_perm t a : Permutation (insert_sorted K V t a) (t :: a).
Proof.
  induction a as [|s a IH]; cbn [insert_sorted]; [apply Permutation_refl|].
  destruct (key_le K V s t); [|apply Permutation_refl].
  eapply Permutation_trans; [apply perm_skip; exact IH | apply perm_swap].
Qed.

Lemma sortx_perm a : Permutation (sortx K V a) a.
Proof.
  unfold sortx.
  assert (G : forall a acc, Permutation (fold_left (fun acc t => insert_sorted K V t acc) a acc) (acc ++ a)).
  { clear a. induction a as [|t a IH]; intro acc; cbn [fold_left].
    - rewrite app_nil_r. apply Permutation_refl.
    - eapply Permutation_trans; [apply IH|].
      eapply Permutation_trans; [apply Permutation_app_tail; apply insert_sorted_perm|].
      cbn [app]. apply Permutation_middle. }
  apply (G a []).
Qed.

(* sorting does not change the value *)
Lemma E_sortx rad xs a : E rad xs (sortx K V a) = E rad xs a.
Proof. apply E_perm. apply sortx_perm. Qed.

(* scalarproductcoeff with a scalar *)
Theorem E_scale rad xs k a : E rad xs (scale K V k a) = msmul V k (E rad xs a).
Proof.
  induction a as [|[[n l] c] a IH]; [symmetry; apply (msmul_m0 K V HV)|].
  cbn [scale map]. rewrite !E_cons. fold (scale K V k a). rewrite IH. rewrite (msmul_add_r K V HV). f_equal.
  cbn [Taylor.Eentry]. rewrite (evl_map_smul K V HV). apply (msmul_comm K V HV).
Qed.

Lemma E_merge_into rad xs c t : E rad xs (merge_into K V c t) = madd V (E rad xs c) (Eentry rad xs t).
Proof.
  destruct t as [[bn bl] bpow].
  induction c as [|[[cn cl] cpow] c IH]; cbn [merge_into].
  - rewrite E_cons, !E_nil. apply (madd_comm K V HV).
  - destruct (Z.eqb_spec cn bn) as [Heq|Hne].
    + subst cn. destruct (Nat.ltb cl bl); rewrite !E_cons; cbn [Taylor.Eentry]; rewrite (evl_vadd K V HV);
        rewrite (msmul_add_r K V HV).
      * rewrite (madd_comm K V HV (msmul V (rad bn) (evl K V (enum d L) xs bpow))).
        rewrite <- !(madd_assoc K V HV). f_equal. apply (madd_comm K V HV).
      * rewrite <- !(madd_assoc K V HV). f_equal. apply (madd_comm K V HV).
    + rewrite !E_cons. rewrite IH. apply (madd_assoc K V HV).
Qed.

Lemma E_fold_merge rad xs bs : forall c, E rad xs (fold_left (merge_into K V) bs c) = madd V (E rad xs c) (E rad xs bs).
Proof.
  induction bs as [|t bs IH]; intro c; cbn [fold_left].
  - rewrite E_nil. symmetry. apply (madd_0_r K V HV).
  - rewrite IH. rewrite E_merge_into. rewrite E_cons. symmetry. apply (madd_assoc K V HV).
Qed.

(* sumcoeff(a, b, alpha, beta) evaluates to alpha E(a) + beta E(b): sum, difference (beta = -1), in-place variants *)
Theorem E_sumcoeff rad xs alpha a beta b :
  E rad xs (sumcoeff K V alpha a beta b) = madd V (msmul V alpha (E rad xs a)) (msmul V beta (E rad xs b)).
Proof.
  unfold sumcoeff. destruct b as [|tb b].
  - rewrite E_scale, E_nil, (msmul_m0 K V HV). symmetry. apply (madd_0_r K V HV).
  - destruct a as [|ta a].
    + rewrite E_scale, E_nil, (msmul_m0 K V HV). symmetry. apply (madd_0_l K V HV).
    + rewrite E_sortx, E_fold_merge, !E_scale. reflexivity.
Qed.

Theorem E_negcoeff rad xs a : E rad xs (negcoeff K V a) = mneg K V (E rad xs a).
Proof.
  assert (H : negcoeff K V a = scale K V (ropp K (r1 K)) a) by reflexivity.
  rewrite H. apply E_scale.
Qed.

(* truncatecoeff keeps exactly the orders n <= Nmax *)
Theorem E_truncate rad xs Nmax a :
  E rad xs (truncate K V Nmax a) = E (fun n => if (n <=? Nmax)%Z then rad n else r0 K) xs a.
Proof.
  induction a as [|[[n l] c] a IH]; [reflexivity|].
  cbn [truncate filter]. fold (truncate K V Nmax a). rewrite (E_cons _ _ _ a). cbn [Taylor.Eentry].
  destruct (n <=? Nmax)%Z.
  - rewrite E_cons. rewrite IH. reflexivity.
  - rewrite IH. rewrite (msmul_0 K V HV). symmetry. apply (madd_0_l K V HV).
Qed.

(* evaluation is additive over concatenation / homogeneous in the radial function *)
Lemma E_rad_ext rad rad' xs a : (forall n, rad n = rad' n) -> E rad xs a = E rad' xs a.
Proof.
  intro H. unfold Taylor.E. apply (msum_ext K V). intros [[n l] c] _. cbn [Taylor.Eentry]. rewrite H. reflexivity.
Qed.

Lemma wfb_sound a : wfb K d L V a = true -> wf K d L V a.
Proof.
  unfold wfb, wf. intro H. apply Forall_forall. intros [[n l] c] Hin. rewrite forallb_forall in H.
  specialize (H _ Hin). cbn in H. apply andb_true_iff in H. destruct H as [H1 H2].
  apply Nat.leb_le in H1. apply Nat.eqb_eq in H2. split; assumption.
Qed.
End EvalOne.

(* ---- linear maps of the coefficients: ldot, rdot, __getitem__, scalar multiples ---- *)
Section EvalLinear.
Variable K : ordring.
Variables d L : nat.
Variables V W : kmod K.
Hypothesis HV : modlaws K V.
Hypothesis HW : modlaws K W.
Variable f : V -> W.
Hypothesis Hf : linear K V W f.

Lemma linear_0 : f (m0 V) = m0 W.
Proof.
  destruct Hf as [_ Hs]. rewrite <- (msmul_0 K V HV (m0 V)). rewrite Hs. apply (msmul_0 K W HW).
Qed.

Lemma linear_msum {T} (g : T -> V) l : f (msum K V (map g l)) = msum K W (map (fun a => f (g a)) l).
Proof.
  induction l as [|a l IH]; cbn [msum map]; [apply linear_0|].
  destruct Hf as [Ha _]. rewrite Ha. rewrite IH. reflexivity.
Qed.

Lemma evl_map_linear es xs : forall c, evl K W es xs (map f c) = f (evl K V es xs c).
Proof.
  induction es as [|e es IH]; intro c; [symmetry; apply linear_0|].
  destruct c as [|v c]; [cbn [map]; rewrite !evl_nil_r; symmetry; apply linear_0|].
  cbn [map]. rewrite !evl_cons. rewrite IH. destruct Hf as [Ha Hs]. rewrite Ha, Hs. reflexivity.
Qed.

(* tensorproductcoeff (ldot / rdot), __getitem__ (slice), multiplication by a constant: any linear f *)
Theorem E_mapcoeff rad xs a : E K d L W rad xs (mapcoeff K V W f a) = f (E K d L V rad xs a).
Proof.
  induction a as [|[[n l] c] a IH]; [symmetry; apply linear_0|].
  cbn [mapcoeff map]. fold (mapcoeff K V W f a). rewrite (E_cons K d L W), (E_cons K d L V). rewrite IH.
  destruct Hf as [Ha Hs]. rewrite Ha. f_equal. cbn [Eentry]. rewrite evl_map_linear. rewrite Hs. reflexivity.
Qed.
End EvalLinear.

(* ---- product of expansions ---- *)
Section MonoFacts.
Variable K : ordring.
Add Ring KrT3 : (r_ring K).

Lemma rpow_add (x : K) m n : rpow x (m + n) = rmul K (rpow x m) (rpow x n).
Proof. induction m as [|m IH]; cbn [rpow Nat.add]; [ring | rewrite IH; ring]. Qed.

Lemma rpow_1 n : rpow (r1 K) n = r1 K.
Proof. induction n as [|n IH]; cbn [rpow]; [reflexivity | rewrite IH; ring]. Qed.

Lemma rpow_mul (x y : K) n : rpow (rmul K x y) n = rmul K (rpow x n) (rpow y n).
Proof. induction n as [|n IH]; cbn [rpow]; [ring | rewrite IH; ring]. Qed.

Lemma mono_eadd (xs : list K) : forall a b, length a = length b ->
  mono xs (eadd a b) = rmul K (mono xs a) (mono xs b).
Proof.
  induction xs as [|x xs IH]; intros a b H.
  - destruct a, b; cbn; ring.
  - destruct a as [|m a], b as [|n b]; cbn [eadd mono]; try (cbn in H; discriminate); [ring|].
    rewrite IH by (cbn in H; lia). rewrite rpow_add. ring.
Qed.
End MonoFacts.

Section EvalProduct.
Variable K : ordring.
Add Ring KrT4 : (r_ring K).
Variables d L : nat.
Variables A B C : kmod K.
Hypothesis HA : modlaws K A.
Hypothesis HB : modlaws K B.
Hypothesis HC : modlaws K C.
Variable mul : A -> B -> C.
Hypothesis Hmul : bilinear K A B C mul.

Lemma mul_0_l v : mul (m0 A) v = m0 C.
Proof.
  destruct Hmul as [_ [_ [Hs _]]]. rewrite <- (msmul_0 K A HA (m0 A)). rewrite Hs. apply (msmul_0 K C HC).
Qed.
Lemma mul_0_r u : mul u (m0 B) = m0 C.
Proof.
  destruct Hmul as [_ [_ [_ Hs]]]. rewrite <- (msmul_0 K B HB (m0 B)). rewrite Hs. apply (msmul_0 K C HC).
Qed.

Lemma mul_msum_l {T} (g : T -> A) l v : mul (msum K A (map g l)) v = msum K C (map (fun a => mul (g a) v) l).
Proof.
  induction l as [|a l IH]; cbn [msum map]; [apply mul_0_l|].
  destruct Hmul as [Ha _]. rewrite Ha, IH. reflexivity.
Qed.
Lemma mul_msum_r {T} (g : T -> B) l u : mul u (msum K B (map g l)) = msum K C (map (fun a => mul u (g a)) l).
Proof.
  induction l as [|a l IH]; cbn [msum map]; [apply mul_0_r|].
  destruct Hmul as [_ [Ha _]]. rewrite Ha, IH. reflexivity.
Qed.

Lemma vupd_length (acc : list C) i x : length (vupd K C acc i x) = length acc.
Proof.
  revert i; induction acc as [|a acc IH]; intros i; [reflexivity|].
  destruct i; cbn [vupd length]; [reflexivity | rewrite IH; reflexivity].
Qed.

Lemma evl_vupd xs dflt : forall es (acc : list C) i x, i < length acc -> i < length es ->
  evl K C es xs (vupd K C acc i x) = madd C (evl K C es xs acc) (msmul C (mono xs (nth i es dflt)) x).
Proof.
  induction es as [|e es IH]; intros acc i x H1 H2; [cbn in H2; lia|].
  destruct acc as [|a acc]; [cbn in H1; lia|].
  destruct i as [|i]; cbn [vupd nth]; rewrite !evl_cons.
  - rewrite (msmul_add_r K C HC). rewrite <- !(madd_assoc K C HC). f_equal. apply (madd_comm K C HC).
  - rewrite IH by (cbn in H1, H2; lia). apply (madd_assoc K C HC).
Qed.

Lemma zindex_nat len q : zindex len (Z.of_nat q) = q.
Proof.
  unfold zindex. destruct (Z.ltb_spec (Z.of_nat q) 0); [lia | apply Nat2Z.id].
Qed.

(* one accumulation step cpow[directmult[pa,pb]] += apow[pa] * bpow[pb] *)
Lemma vupd_step xs al bl pa pb (acc : list C) x :
  al + bl <= L -> pa < powlrange d al -> pb < powlrange d bl -> length acc = powlrange d (al + bl) ->
  evl K C (enum d L) xs (vupd K C acc (zindex (length acc) (directmult d L pa pb)) x) =
  madd C (evl K C (enum d L) xs acc)
         (msmul C (rmul K (mono xs (ind2pow d L pa)) (mono xs (ind2pow d L pb))) x).
Proof.
  intros Hl Hpa Hpb Hacc.
  assert (Ha : pa < Npower d L) by (pose proof (powlrange_mono d al L ltac:(lia)); unfold Npower, powlrange in *; lia).
  assert (Hb : pb < Npower d L) by (pose proof (powlrange_mono d bl L ltac:(lia)); unfold Npower, powlrange in *; lia).
  assert (Hda : deg (ind2pow d L pa) <= al) by (apply (powlrange_spec d L al pa); [lia | exact Ha | exact Hpa]).
  assert (Hdb : deg (ind2pow d L pb) <= bl) by (apply (powlrange_spec d L bl pb); [lia | exact Hb | exact Hpb]).
  destruct (directmult_spec d L pa pb Ha Hb ltac:(lia)) as [q [Hq1 [Hq2 [Hq3 Hq4]]]].
  rewrite Hq1, zindex_nat.
  assert (Hq5 : q < length acc).
  { rewrite Hacc. pose proof (powlrange_mono d (deg (ind2pow d L pa) + deg (ind2pow d L pb)) (al + bl) ltac:(lia)). lia. }
  rewrite (evl_vupd xs (repeat 0 d)) by (try exact Hq5; exact Hq2).
  f_equal. f_equal. fold (ind2pow d L q). rewrite Hq3. apply mono_eadd. rewrite !ind2pow_length. reflexivity.
Qed.

Lemma inner_fold xs al bl pa (va : A) :
  al + bl <= L -> pa < powlrange d al ->
  forall (lb : list (nat * B)) (acc : list C),
  (forall pv, In pv lb -> fst pv < powlrange d bl) -> length acc = powlrange d (al + bl) ->
  let r := fold_left (fun acc pb => vupd K C acc (zindex (length acc) (directmult d L pa (fst pb))) (mul va (snd pb))) lb acc in
  length r = powlrange d (al + bl) /\
  evl K C (enum d L) xs r =
  madd C (evl K C (enum d L) xs acc)
         (msum K C (map (fun pb => msmul C (rmul K (mono xs (ind2pow d L pa)) (mono xs (ind2pow d L (fst pb)))) (mul va (snd pb))) lb)).
Proof.
  intros Hl Hpa. induction lb as [|[pb vb] lb IH]; intros acc Hin Hacc; cbn [fold_left map msum].
  - split; [exact Hacc | symmetry; apply (madd_0_r K C HC)].
  - cbn [fst snd].
    assert (Hpb : pb < powlrange d bl) by (apply (Hin (pb, vb)); left; reflexivity).
    destruct (IH (vupd K C acc (zindex (length acc) (directmult d L pa pb)) (mul va vb))) as [H1 H2].
    + intros pv Hpv. apply Hin. right. exact Hpv.
    + rewrite vupd_length. exact Hacc.
    + split; [exact H1|]. rewrite H2. rewrite (vupd_step xs al bl) by assumption.
      symmetry. apply (madd_assoc K C HC).
Qed.

Lemma outer_fold xs al bl (lb : list (nat * B)) :
  al + bl <= L -> (forall pv, In pv lb -> fst pv < powlrange d bl) ->
  forall (la : list (nat * A)) (acc : list C),
  (forall pv, In pv la -> fst pv < powlrange d al) -> length acc = powlrange d (al + bl) ->
  let r := fold_left (fun acc pa =>
             fold_left (fun acc pb => vupd K C acc (zindex (length acc) (directmult d L (fst pa) (fst pb))) (mul (snd pa) (snd pb))) lb acc)
             la acc in
  length r = powlrange d (al + bl) /\
  evl K C (enum d L) xs r =
  madd C (evl K C (enum d L) xs acc)
    (msum K C (map (fun pa => msum K C (map (fun pb =>
        msmul C (rmul K (mono xs (ind2pow d L (fst pa))) (mono xs (ind2pow d L (fst pb)))) (mul (snd pa) (snd pb))) lb)) la)).
Proof.
  intros Hl Hlb. induction la as [|[pa va] la IH]; intros acc Hin Hacc; cbn [fold_left map msum].
  - split; [exact Hacc | symmetry; apply (madd_0_r K C HC)].
  - cbn [fst snd].
    assert (Hpa : pa < powlrange d al) by (apply (Hin (pa, va)); left; reflexivity).
    destruct (inner_fold xs al bl pa va Hl Hpa lb acc Hlb Hacc) as [H1 H2].
    destruct (IH _ (fun pv Hpv => Hin pv (or_intror Hpv)) H1) as [H3 H4].
    split; [exact H3|]. rewrite H4, H2. symmetry. apply (madd_assoc K C HC).
Qed.

Lemma enumerate_bound {T} (c : list T) n : length c = n -> forall pv, In pv (enumerate c) -> fst pv < n.
Proof.
  intros H [p v] Hin. unfold enumerate in Hin. apply in_combine_l in Hin. apply in_seq in Hin. cbn [fst]. lia.
Qed.

(* value of one pair product *)
Lemma Eentry_prod rad xs (ea : entry A) (eb : entry B) :
  (forall m n, rad (m + n)%Z = rmul K (rad m) (rad n)) ->
  wf_entry K d L A ea -> wf_entry K d L B eb -> snd (fst ea) + snd (fst eb) <= L ->
  Eentry K d L C rad xs (prod_entry K d L A B C mul ea eb) =
  mul (Eentry K d L A rad xs ea) (Eentry K d L B rad xs eb) /\
  wf_entry K d L C (prod_entry K d L A B C mul ea eb).
Proof.
  destruct ea as [[an al] apow]. destruct eb as [[bn bl] bpow]. cbn [fst snd].
  intros Hrad [Hal Hla] [Hbl Hlb] Hl.
  unfold prod_entry. rewrite (Nat.min_l (al + bl) L Hl).
  destruct (outer_fold xs al bl (enumerate bpow) Hl (enumerate_bound bpow _ Hlb)
              (enumerate apow) (repeat (m0 C) (powlrange d (al + bl)))
              (enumerate_bound apow _ Hla) (repeat_length _ _)) as [H1 H2].
  split; [|split; [exact Hl | exact H1]].
  cbn [Eentry]. rewrite H2. rewrite (evl_repeat0 K C HC). rewrite (madd_0_l K C HC).
  assert (Hna : length apow <= Npower d L) by (rewrite Hla; apply powlrange_mono; exact Hal).
  assert (Hnb : length bpow <= Npower d L) by (rewrite Hlb; apply powlrange_mono; exact Hbl).
  rewrite (evl_enumerate K A d L xs apow Hna), (evl_enumerate K B d L xs bpow Hnb).
  destruct Hmul as [_ [_ [Hsl Hsr]]].
  rewrite Hsl, Hsr. rewrite <- (msmul_mul K C HC). rewrite <- Hrad. f_equal.
  rewrite mul_msum_l. unfold enumerate. apply (msum_ext K C). intros [pa va] _. cbn [fst snd].
  rewrite mul_msum_r. apply (msum_ext K C). intros [pb vb] _. cbn [fst snd].
  rewrite Hsl, Hsr. rewrite <- (msmul_mul K C HC). reflexivity.
Qed.

(* coeffproductcoeff: E(a b) = E(a) E(b) whenever every combined angular order stays within Lmax *)
Theorem E_coeffproduct rad xs (a : expansion A) (b : expansion B) :
  (forall m n, rad (m + n)%Z = rmul K (rad m) (rad n)) ->
  wf K d L A a -> wf K d L B b ->
  (forall ea eb, In ea a -> In eb b -> snd (fst ea) + snd (fst eb) <= L) ->
  E K d L C rad xs (coeffproduct K d L A B C mul a b) =
  mul (E K d L A rad xs a) (E K d L B rad xs b).
Proof.
  intros Hrad Hwa Hwb Hl.
  assert (G : E K d L C rad xs (flat_map (fun ea => map (fun eb => prod_entry K d L A B C mul ea eb) b) a) =
              mul (E K d L A rad xs a) (E K d L B rad xs b)).
  { unfold wf in Hwa. rewrite Forall_forall in Hwa.
    induction a as [|ea a IH]; [cbn; symmetry; apply mul_0_l|].
    cbn [flat_map]. rewrite (E_app K d L C HC). rewrite IH.
    2:{ intros t Ht. apply Hwa. right. exact Ht. }
    2:{ intros t u Ht Hu. apply Hl; [right; exact Ht | exact Hu]. }
    rewrite (E_cons K d L A). destruct Hmul as [Ha _]. rewrite Ha. f_equal.
    assert (Hea : wf_entry K d L A ea) by (apply Hwa; left; reflexivity).
    assert (Hlb : forall eb, In eb b -> snd (fst ea) + snd (fst eb) <= L) by (intros eb Hb; apply Hl; [left; reflexivity | exact Hb]).
    clear IH Hl Hwa. unfold wf in Hwb. rewrite Forall_forall in Hwb.
    induction b as [|eb b IHb]; [cbn; symmetry; apply mul_0_r|].
    cbn [map]. rewrite (E_cons K d L C), (E_cons K d L B).
    destruct Hmul as [_ [Hb _]]. rewrite Hb. rewrite IHb.
    2:{ intros t Ht. apply Hwb. right. exact Ht. }
    2:{ intros t Ht. apply Hlb. right. exact Ht. }
    f_equal. apply Eentry_prod; [exact Hrad | exact Hea | apply Hwb; left; reflexivity | apply Hlb; left; reflexivity]. }
  unfold coeffproduct. destruct a as [|ta a]; [cbn; symmetry; apply mul_0_l|].
  destruct b as [|tb b]; [cbn; symmetry; apply mul_0_r|].
  rewrite (E_sortx K d L C HC), (E_fold_merge K d L C HC), (E_nil K d L C). rewrite (madd_0_l K C HC). exact G.
Qed.
End EvalProduct.

(* ---- the coefficient spaces used by the correspondence are lawful: K itself, K^n, matrices ---- *)
Section Instances.
Variable K : ordring.
Add Ring KrT5 : (r_ring K).

Lemma selfmod_laws : modlaws K (selfmod K).
Proof.
  constructor; cbn; intros; try ring.
  apply (reqb_spec K).
Qed.

Lemma pget_ptab n : forall f i, pget K n (ptab K n f) i = if Nat.ltb i n then f i else r0 K.
Proof.
  induction n as [|n IH]; intros f i; cbn [pget ptab]; [reflexivity|].
  destruct i as [|i]; cbn [fst snd]; [reflexivity|]. rewrite IH.
  change (Nat.ltb (S i) (S n)) with (Nat.ltb i n). reflexivity.
Qed.

Lemma pget_over n : forall (u : pw K n) i, n <= i -> pget K n u i = r0 K.
Proof.
  induction n as [|n IH]; intros u i H; cbn [pget]; [reflexivity|].
  destruct i as [|i]; [lia|]. apply IH. lia.
Qed.

Lemma pw_ext n : forall (u v : pw K n), (forall i, i < n -> pget K n u i = pget K n v i) -> u = v.
Proof.
  induction n as [|n IH]; intros u v H.
  - destruct u, v. reflexivity.
  - destruct u as [a u], v as [b v]. f_equal.
    + apply (H 0). lia.
    + apply IH. intros i Hi. apply (H (S i)). lia.
Qed.

Lemma pget_padd n (u v : pw K n) i : pget K n (padd K n u v) i = radd K (pget K n u i) (pget K n v i).
Proof.
  unfold padd. rewrite pget_ptab. destruct (Nat.ltb_spec i n); [reflexivity|].
  rewrite !pget_over by lia. ring.
Qed.

Lemma pget_psmul n k (u : pw K n) i : pget K n (psmul K n k u) i = rmul K k (pget K n u i).
Proof.
  unfold psmul. rewrite pget_ptab. destruct (Nat.ltb_spec i n); [reflexivity|].
  rewrite !pget_over by lia. ring.
Qed.

Lemma pget_pzero n i : pget K n (pzero K n) i = r0 K.
Proof. unfold pzero. rewrite pget_ptab. destruct (Nat.ltb i n); reflexivity. Qed.

Lemma pzerob_spec n : forall u : pw K n, pzerob K n u = true <-> u = pzero K n.
Proof.
  induction n as [|n IH]; intro u.
  - destruct u. cbn. split; reflexivity.
  - destruct u as [a u]. cbn [pzerob fst snd]. unfold pzero. cbn [ptab]. fold (pzero K n).
    rewrite andb_true_iff. rewrite (reqb_spec K). rewrite IH. split.
    + intros [H1 H2]. subst. reflexivity.
    + intro H. inversion H. split; reflexivity.
Qed.

Lemma pwmod_laws n : modlaws K (pwmod K n).
Proof.
  constructor; cbn [pwmod mcar m0 madd msmul mzerob]; intros;
    try (apply pw_ext; intros i Hi; repeat (rewrite ?pget_padd, ?pget_psmul, ?pget_pzero); ring).
  apply pzerob_spec.
Qed.

Lemma pget_matmul r m c a b idx : idx < r * c ->
  pget K (r * c) (matmul K r m c a b) idx =
  sumf (fun k => rmul K (pget K _ a (Nat.div idx c * m + k)) (pget K _ b (k * c + Nat.modulo idx c))) (seq 0 m).
Proof.
  intro H. unfold matmul. rewrite pget_ptab. destruct (Nat.ltb_spec idx (r * c)); [reflexivity | lia].
Qed.

(* matrix product (any shapes) is bilinear: ldot, rdot and products of matrix-valued expansions *)
Lemma matmul_bilinear r m c :
  bilinear K (pwmod K (r * m)) (pwmod K (m * c)) (pwmod K (r * c)) (matmul K r m c).
Proof.
  unfold bilinear. cbn [pwmod mcar madd msmul].
  repeat split; intros; apply pw_ext; intros i Hi;
    rewrite ?pget_padd, ?pget_psmul, !pget_matmul by exact Hi;
    rewrite <- ?sumf_add, <- ?sumf_scal; apply sumf_ext; intros kk _;
    rewrite ?pget_padd, ?pget_psmul; ring.
Qed.

Lemma matmul_linear_l r m c (b : pw K (m * c)) :
  linear K (pwmod K (r * m)) (pwmod K (r * c)) (fun a => matmul K r m c a b).
Proof. destruct (matmul_bilinear r m c) as [H1 [_ [H3 _]]]. split; intros; [apply H1 | apply H3]. Qed.

Lemma matmul_linear_r r m c (a : pw K (r * m)) :
  linear K (pwmod K (m * c)) (pwmod K (r * c)) (fun b => matmul K r m c a b).
Proof. destruct (matmul_bilinear r m c) as [_ [H2 [_ H4]]]. split; intros; [apply H2 | apply H4]. Qed.

(* scalar-valued expansion times matrix-valued expansion *)
Lemma pwscal_bilinear n : bilinear K (pwmod K 1) (pwmod K n) (pwmod K n) (pwscal K n).
Proof.
  unfold bilinear, pwscal. cbn [pwmod mcar madd msmul].
  repeat split; intros; apply pw_ext; intros i Hi.
  - destruct u as [u0 []], u' as [u1 []]. cbn [padd ptab pget fst snd]. rewrite pget_padd, !pget_psmul. ring.
  - rewrite !pget_psmul, !pget_padd, !pget_psmul. ring.
  - destruct u as [u0 []]. cbn [psmul ptab pget fst snd]. rewrite !pget_psmul. ring.
  - rewrite !pget_psmul. ring.
Qed.

(* __getitem__ / reshape: selecting entries is linear *)
Lemma pselect_linear n m idx : linear K (pwmod K n) (pwmod K m) (pselect K n m idx).
Proof.
  unfold linear, pselect. cbn [pwmod mcar madd msmul]. split; intros; apply pw_ext; intros i Hi;
    rewrite ?pget_padd, ?pget_psmul, !pget_ptab; destruct (Nat.ltb i m); rewrite ?pget_padd, ?pget_psmul; ring.
Qed.
End Instances.

(* ================================================================== Part 3: class constant == *)
(* ---- generic helpers ---- *)
Section Helpers.
Variable K : ordring.
Add Ring KrT6 : (r_ring K).

Lemma sumf_const0 {T} (l : list T) (f : T -> K) : (forall a, In a l -> f a = r0 K) -> sumf f l = r0 K.
Proof.
  induction l as [|a l IH]; intro H; cbn [sumf]; [reflexivity|].
  rewrite H by (left; reflexivity). rewrite IH by (intros b Hb; apply H; right; exact Hb). ring.
Qed.

Lemma sumf_nth_combine (f : nat -> K) : forall m l k,
  sumf (fun p => rmul K (f p) (nth (p - k) l (r0 K))) (seq k m) =
  sumf (fun pr => rmul K (f (fst pr)) (snd pr)) (combine (seq k m) l).
Proof.
  induction m as [|m IH]; intros l k; [reflexivity|].
  destruct l as [|a l].
  - cbn [combine sumf]. apply sumf_const0. intros p _. destruct (p - k); cbn; ring.
  - cbn [seq combine sumf fst snd]. rewrite Nat.sub_diag. cbn [nth]. f_equal.
    rewrite <- (IH l (S k)). apply sumf_ext. intros p Hp. apply in_seq in Hp.
    replace (p - k) with (S (p - S k)) by lia. reflexivity.
Qed.

Lemma sumf_nth_combine0 (f : nat -> K) m l :
  sumf (fun p => rmul K (f p) (nth p l (r0 K))) (seq 0 m) =
  sumf (fun pr => rmul K (f (fst pr)) (snd pr)) (combine (seq 0 m) l).
Proof.
  rewrite <- (sumf_nth_combine f m l 0). apply sumf_ext. intros p _. rewrite Nat.sub_0_r. reflexivity.
Qed.

Lemma nth_map_seq {T} (f : nat -> T) m n dflt : n < m -> nth n (map f (seq 0 m)) dflt = f n.
Proof.
  intro H. rewrite (nth_indep _ dflt (f 0)) by (rewrite map_length, seq_length; exact H).
  rewrite (map_nth f (seq 0 m) 0 n). rewrite seq_nth by exact H. reflexivity.
Qed.

Lemma combine_seq_map {T} (F : nat -> T) k m :
  combine (seq k m) (map F (seq k m)) = map (fun p => (p, F p)) (seq k m).
Proof. revert k; induction m as [|m IH]; intro k; cbn; [reflexivity | rewrite IH; reflexivity]. Qed.

Lemma in_enumerate {T} (c : list T) p v dflt :
  In (p, v) (combine (seq 0 (length c)) c) -> p < length c /\ v = nth p c dflt.
Proof.
  assert (G : forall (c : list T) k p v, In (p, v) (combine (seq k (length c)) c) -> k <= p < k + length c /\ v = nth (p - k) c dflt).
  { clear. induction c as [|a c IH]; intros k p v H; [destruct H|].
    cbn [length seq combine] in H. destruct H as [H|H].
    - inversion H; subst. rewrite Nat.sub_diag. cbn. split; [lia | reflexivity].
    - apply IH in H. destruct H as [H1 H2]. split; [cbn; lia|].
      replace (p - k) with (S (p - S k)) by lia. exact H2. }
  intro H. apply G in H. rewrite Nat.sub_0_r in H. destruct H as [H1 H2]. split; [lia | exact H2].
Qed.

Variable V : kmod K.
Hypothesis HV : modlaws K V.

Lemma msum_swap {S T} (f : S -> T -> V) (la : list S) (lb : list T) :
  msum K V (map (fun a => msum K V (map (fun b => f a b) lb)) la) =
  msum K V (map (fun b => msum K V (map (fun a => f a b) la)) lb).
Proof.
  induction la as [|a la IH]; cbn [map msum].
  - symmetry. apply (msum_zero K V HV).
  - rewrite IH. symmetry. apply (msum_madd K V HV).
Qed.

(* weighted sum over the enumeration = sum over power indices *)
Lemma wsum_enumerate_gen (g : expo -> K) dflt : forall (c : list V) es k, length c <= length es ->
  msum K V (map (fun ev => msmul V (g (fst ev)) (snd ev)) (combine es c)) =
  msum K V (map (fun pv => msmul V (g (nth (fst pv - k) es dflt)) (snd pv)) (combine (seq k (length c)) c)).
Proof.
  induction c as [|v c IH]; intros es k Hlen; [destruct es; reflexivity|].
  destruct es as [|e es]; [cbn in Hlen; lia|].
  cbn [length seq combine map msum fst snd]. rewrite Nat.sub_diag. cbn [nth].
  f_equal. rewrite (IH es (S k)) by (cbn in Hlen; lia).
  apply (msum_ext K V). intros [p w] Hin. cbn [fst snd].
  apply in_combine_l in Hin. apply in_seq in Hin.
  replace (p - k) with (S (p - S k)) by lia. reflexivity.
Qed.

Lemma wsum_enumerate d L (g : expo -> K) (c : list V) : length c <= Npower d L ->
  msum K V (map (fun ev => msmul V (g (fst ev)) (snd ev)) (combine (enum d L) c)) =
  msum K V (map (fun pv => msmul V (g (ind2pow d L (fst pv))) (snd pv)) (combine (seq 0 (length c)) c)).
Proof.
  intro H. rewrite (wsum_enumerate_gen g (repeat 0 d) c (enum d L) 0 H).
  apply (msum_ext K V). intros [p w] _. cbn [fst snd]. rewrite Nat.sub_0_r. reflexivity.
Qed.

(* a linear combination of the coefficients, evaluated: exchange the two sums *)
Lemma wsum_lincomb (w : nat -> K) (M : nat -> nat -> K) (c : list V) m :
  msum K V (map (fun p => msmul V (w p)
                   (msum K V (map (fun pc => msmul V (M (fst pc) p) (snd pc)) (combine (seq 0 (length c)) c))))
                (seq 0 m)) =
  msum K V (map (fun pc => msmul V (sumf (fun p => rmul K (w p) (M (fst pc) p)) (seq 0 m)) (snd pc))
                (combine (seq 0 (length c)) c)).
Proof.
  transitivity (msum K V (map (fun p => msum K V (map (fun pc => msmul V (rmul K (w p) (M (fst pc) p)) (snd pc))
                                                     (combine (seq 0 (length c)) c))) (seq 0 m))).
  - apply (msum_ext K V). intros p _. rewrite (msum_smul K V HV). apply (msum_ext K V). intros pc _.
    rewrite (msmul_mul K V HV). reflexivity.
  - rewrite msum_swap. apply (msum_ext K V). intros pc _. rewrite (sumf_smul K V HV). reflexivity.
Qed.
End Helpers.

(* ---- change of variables ---- *)
(* the polynomial identity behind one row of npowtrans: the row of the old power oldp in the
   order-n table, read as a homogeneous polynomial in the new variables xs, is the old monomial
   (times the implicit power of q.q) evaluated at q = A xs *)
Definition rotid_stmt (K : ordring) d L (A : list (list K)) (xs : list K) n oldp : Prop :=
  sumf (fun pr => rmul K (rmul K (mono xs (ind2pow d L (fst pr)))
                                 (rpow (dot xs xs) (Nat.div (n - deg (ind2pow d L (fst pr))) 2))) (snd pr))
       (combine (seq 0 (powlrange d n)) (rot_tabrow K d L A n oldp))
  = rmul K (mono (matvec A xs) (ind2pow d L oldp))
           (rpow (dot (matvec A xs) (matvec A xs)) (Nat.div (n - deg (ind2pow d L oldp)) 2)).

Section RotateGeneric.
Variable K : ordring.
Add Ring KrT7 : (r_ring K).
Variables d L : nat.
Variable V : kmod K.
Hypothesis HV : modlaws K V.
Variable A : list (list K).
Variable xs : list K.
Hypothesis Hid : forall n oldp, n <= L -> oldp < powlrange d n ->
  Nat.even (n - deg (ind2pow d L oldp)) = true -> rotid_stmt K d L A xs n oldp.

Lemma evh_enumerate ys n (c : list V) : length c <= Npower d L ->
  evh K d L V ys n c =
  msum K V (map (fun pv => msmul V (rmul K (mono ys (ind2pow d L (fst pv)))
                                          (rpow (dot ys ys) (Nat.div (n - deg (ind2pow d L (fst pv))) 2))) (snd pv))
                (combine (seq 0 (length c)) c)).
Proof.
  intro H. unfold evh.
  apply (wsum_enumerate K V d L (fun e => rmul K (mono ys e) (rpow (dot ys ys) (Nat.div (n - deg e) 2))) c H).
Qed.

Theorem rotate_entry_correct (t : entry V) :
  parity_ok_entry K d L V t -> length (snd t) = powlrange d (snd (fst t)) ->
  exists c', rotate_entry K d L V (rotatedirections K d L A) t =
             Some (fst (fst t), Z.to_nat (fst (fst t)), c') /\
             length c' = powlrange d (Z.to_nat (fst (fst t))) /\
             evh K d L V xs (Z.to_nat (fst (fst t))) c' = evh K d L V (matvec A xs) (Z.to_nat (fst (fst t))) (snd t).
Proof.
  destruct t as [[n l] c]. cbn [fst snd]. intros [Hn0 [HnL [Hln Hpar]]] Hlen.
  set (nn := Z.to_nat n) in *.
  assert (HnnL : nn <= L) by (unfold nn; lia).
  unfold rotate_entry. fold nn.
  destruct (Z.ltb_spec n 0) as [Hc|_]; [lia|].
  destruct (Z.ltb_spec (Z.of_nat L) n) as [Hc|_]; [lia|].
  destruct (Nat.ltb_spec nn l) as [Hc|_]; [lia|]. cbn [orb].
  eexists. split; [reflexivity|]. split; [rewrite map_length, seq_length; reflexivity|].
  assert (Hc1 : length c <= powlrange d nn) by (rewrite Hlen; apply powlrange_mono; exact Hln).
  assert (Hc2 : powlrange d nn <= Npower d L) by (apply powlrange_mono; exact HnnL).
  rewrite (evh_enumerate (matvec A xs) nn c) by lia.
  rewrite evh_enumerate by (rewrite map_length, seq_length; exact Hc2).
  rewrite map_length, seq_length. rewrite combine_seq_map. rewrite map_map. cbn [fst snd].
  rewrite (wsum_lincomb K V HV
             (fun p => rmul K (mono xs (ind2pow d L p)) (rpow (dot xs xs) (Nat.div (nn - deg (ind2pow d L p)) 2)))
             (fun oldp p => nth p (nth oldp (nth nn (rotatedirections K d L A) []) []) (r0 K)) c (powlrange d nn)).
  apply (msum_ext K V). intros [oldp v] Hin. cbn [fst snd].
  destruct (in_enumerate c oldp v (m0 V) Hin) as [Hp Hv].
  destruct (Nat.even (nn - deg (ind2pow d L oldp))) eqn:He.
  - f_equal. unfold rotatedirections.
    rewrite (nth_map_seq _ (S L) nn) by lia. rewrite (nth_map_seq _ (Npower d L) oldp) by lia.
    rewrite sumf_nth_combine0. apply (Hid nn oldp HnnL ltac:(lia) He).
  - rewrite Hv. rewrite (Hpar oldp Hp He). rewrite !(msmul_m0 K V HV). reflexivity.
Qed.

(* rotatecoeff / Taylor.rotate / irotate: the rotated expansion at xs equals the original at A xs *)
Theorem rotatecoeff_correct (a : expansion V) :
  Forall (parity_ok_entry K d L V) a -> wf K d L V a ->
  exists a', rotatecoeff K d L V (rotatedirections K d L A) a = Some a' /\
             wf K d L V a' /\
             Eh K d L V xs a' = Eh K d L V (matvec A xs) a.
Proof.
  induction a as [|t a IH]; intros Hp Hw.
  - exists []. split; [reflexivity|]. split; [constructor | reflexivity].
  - inversion Hp as [|? ? Hpt Hpa]; subst. inversion Hw as [|? ? Hwt Hwa]; subst.
    destruct (IH Hpa Hwa) as [a' [Ha1 [Ha2 Ha3]]].
    assert (Hlen : length (snd t) = powlrange d (snd (fst t))) by (destruct t as [[n l] c]; destruct Hwt; assumption).
    destruct (rotate_entry_correct t Hpt Hlen) as [c' [Hc1 [Hc2 Hc3]]].
    exists ((fst (fst t), Z.to_nat (fst (fst t)), c') :: a'). cbn [rotatecoeff]. rewrite Hc1, Ha1.
    split; [reflexivity|]. split.
    + constructor; [|exact Ha2]. split; [|exact Hc2].
      destruct t as [[n l] c]. cbn [fst snd]. destruct Hpt as [? [? _]]. lia.
    + unfold Eh. cbn [map msum]. fold (Eh K d L V xs a'). fold (Eh K d L V (matvec A xs) a).
      rewrite Ha3. f_equal. destruct t as [[n l] c]. cbn [fst snd] in *. exact Hc3.
Qed.
End RotateGeneric.

(* ---- the finite identities, proved over a ring given by its raw components so that
        vm_compute keeps the ring operations as atoms ---- *)
Section Raw.
Variable R : Type.
Variables (rO rI : R) (pl ml mn : R -> R -> R) (op : R -> R) (le : R -> R -> Prop) (eqb leb : R -> R -> bool).
Hypothesis Rth : ring_theory rO rI pl ml mn op (@eq R).
Hypothesis h1 : forall a, le a a.
Hypothesis h2 : forall a b c, le a b -> le b c -> le a c.
Hypothesis h3 : forall a b c, le a b -> le (pl a c) (pl b c).
Hypothesis h4 : forall a b, le rO a -> le rO b -> le rO (ml a b).
Hypothesis h5 : forall a, le rO (ml a a).
Hypothesis h6 : forall a b, eqb a b = true <-> a = b.
Hypothesis h7 : forall a b, leb a b = true <-> le a b.
Definition KK : ordring := Build_ordring R rO rI pl ml mn op le eqb leb Rth h1 h2 h3 h4 h5 h6 h7.
Add Ring KrRaw : Rth.

Lemma rotid3_raw (a00 a01 a02 a10 a11 a12 a20 a21 a22 x y z : R) n oldp :
  Nat.leb n 4 = true -> Nat.ltb oldp (powlrange 3 n) = true ->
  Nat.even (n - deg (ind2pow 3 4 oldp)) = true ->
  rotid_stmt KK 3 4 [[a00;a01;a02];[a10;a11;a12];[a20;a21;a22]] [x;y;z] n oldp.
Proof.
  intros Hn Hp He.
  do 5 (destruct n as [|n]; [
    do 35 (destruct oldp as [|oldp]; [
      first [ (vm_compute in Hp; discriminate Hp) | (vm_compute in He; discriminate He)
            | (unfold rotid_stmt; vm_compute; ring) ] | ]);
    vm_compute in Hp; discriminate Hp | ]).
  vm_compute in Hn. discriminate Hn.
Qed.

Lemma rotid2_raw (a00 a01 a10 a11 x y : R) n oldp :
  Nat.leb n 4 = true -> Nat.ltb oldp (powlrange 2 n) = true ->
  Nat.even (n - deg (ind2pow 2 4 oldp)) = true ->
  rotid_stmt KK 2 4 [[a00;a01];[a10;a11]] [x;y] n oldp.
Proof.
  intros Hn Hp He.
  do 5 (destruct n as [|n]; [
    do 15 (destruct oldp as [|oldp]; [
      first [ (vm_compute in Hp; discriminate Hp) | (vm_compute in He; discriminate He)
            | (unfold rotid_stmt; vm_compute; ring) ] | ]);
    vm_compute in Hp; discriminate Hp | ]).
  vm_compute in Hn. discriminate Hn.
Qed.
End Raw.

Lemma rotid3 (K : ordring) (A : list (list K)) (xs : list K) n oldp :
  length xs = 3 -> length A = 3 -> Forall (fun r => length r = 3) A ->
  n <= 4 -> oldp < powlrange 3 n -> Nat.even (n - deg (ind2pow 3 4 oldp)) = true ->
  rotid_stmt K 3 4 A xs n oldp.
Proof.
  intros Hx HA HF Hn Hp He.
  destruct xs as [|x [|y [|z [|? ?]]]]; try discriminate Hx.
  destruct A as [|r0 [|r1 [|r2 [|? ?]]]]; try discriminate HA.
  inversion HF as [|? ? H0 HF1]; subst. inversion HF1 as [|? ? H1 HF2]; subst. inversion HF2 as [|? ? H2 _]; subst.
  destruct r0 as [|a00 [|a01 [|a02 [|? ?]]]]; try discriminate H0.
  destruct r1 as [|a10 [|a11 [|a12 [|? ?]]]]; try discriminate H1.
  destruct r2 as [|a20 [|a21 [|a22 [|? ?]]]]; try discriminate H2.
  destruct K as [R rO rI pl ml mn op le eqb leb Rth g1 g2 g3 g4 g5 g6 g7].
  apply (rotid3_raw R rO rI pl ml mn op le eqb leb Rth g1 g2 g3 g4 g5 g6 g7);
    [apply Nat.leb_le; exact Hn | apply Nat.ltb_lt; exact Hp | exact He].
Qed.

Lemma rotid2 (K : ordring) (A : list (list K)) (xs : list K) n oldp :
  length xs = 2 -> length A = 2 -> Forall (fun r => length r = 2) A ->
  n <= 4 -> oldp < powlrange 2 n -> Nat.even (n - deg (ind2pow 2 4 oldp)) = true ->
  rotid_stmt K 2 4 A xs n oldp.
Proof.
  intros Hx HA HF Hn Hp He.
  destruct xs as [|x [|y [|? ?]]]; try discriminate Hx.
  destruct A as [|r0 [|r1 [|? ?]]]; try discriminate HA.
  inversion HF as [|? ? H0 HF1]; subst. inversion HF1 as [|? ? H1 _]; subst.
  destruct r0 as [|a00 [|a01 [|? ?]]]; try discriminate H0.
  destruct r1 as [|a10 [|a11 [|? ?]]]; try discriminate H1.
  destruct K as [R rO rI pl ml mn op le eqb leb Rth g1 g2 g3 g4 g5 g6 g7].
  apply (rotid2_raw R rO rI pl ml mn op le eqb leb Rth g1 g2 g3 g4 g5 g6 g7);
    [apply Nat.leb_le; exact Hn | apply Nat.ltb_lt; exact Hp | exact He].
Qed.

(* Taylor3D / Taylor2D (Lmax = 4): for EVERY 3x3 (2x2) matrix A -- invertible or not, orthogonal or
   not -- every ordered ring, every coefficient space and every parity-consistent expansion *)
Theorem rotate3D_exact (K : ordring) (V : kmod K) (HV : modlaws K V) (A : list (list K)) (xs : list K) (a : expansion V) :
  length xs = 3 -> length A = 3 -> Forall (fun r => length r = 3) A ->
  Forall (parity_ok_entry K 3 4 V) a -> wf K 3 4 V a ->
  exists a', rotatecoeff K 3 4 V (rotatedirections K 3 4 A) a = Some a' /\ wf K 3 4 V a' /\
             Eh K 3 4 V xs a' = Eh K 3 4 V (matvec A xs) a.
Proof.
  intros Hx HA HF. apply (rotatecoeff_correct K 3 4 V HV A xs).
  intros n oldp. apply rotid3; assumption.
Qed.

Theorem rotate2D_exact (K : ordring) (V : kmod K) (HV : modlaws K V) (A : list (list K)) (xs : list K) (a : expansion V) :
  length xs = 2 -> length A = 2 -> Forall (fun r => length r = 2) A ->
  Forall (parity_ok_entry K 2 4 V) a -> wf K 2 4 V a ->
  exists a', rotatecoeff K 2 4 V (rotatedirections K 2 4 A) a = Some a' /\ wf K 2 4 V a' /\
             Eh K 2 4 V xs a' = Eh K 2 4 V (matvec A xs) a.
Proof.
  intros Hx HA HF. apply (rotatecoeff_correct K 2 4 V HV A xs).
  intros n oldp. apply rotid2; assumption.
Qed.

(* ---- reduce / collect / separate ---- *)
Lemma firstn_seq_own k : forall a m, firstn k (seq a m) = seq a (Nat.min k m).
Proof.
  induction k as [|k IH]; intros a m; [reflexivity|].
  destruct m as [|m]; [reflexivity|]. cbn [seq firstn Nat.min]. rewrite IH. reflexivity.
Qed.

Section ProjGeneric.
Variable K : ordring.
Add Ring KrT8 : (r_ring K).
Variables d L : nat.
Variable V : kmod K.
Hypothesis HV : modlaws K V.
Variable xs : list K.
Notation en := (enum d L).
Notation evl := (evl K V).

Definition lenok (c : list V) : Prop := exists l, l <= L /\ length c = powlrange d l.
Definition lenok_entry (t : entry V) : Prop := lenok (snd t).

Lemma wf_lenok a : wf K d L V a -> Forall lenok_entry a.
Proof.
  unfold wf. apply Forall_impl. intros [[n l] c] [H1 H2]. exists l. split; assumption.
Qed.

Lemma lenok_vadd u v : lenok u -> lenok v -> lenok (vadd K V u v).
Proof.
  intros [l1 [H1 E1]] [l2 [H2 E2]]. exists (Nat.max l1 l2). split; [lia|].
  rewrite vadd_length, E1, E2.
  destruct (Nat.le_ge_cases l1 l2) as [H|H].
  - rewrite (Nat.max_r l1 l2 H). pose proof (powlrange_mono d l1 l2 H). lia.
  - rewrite (Nat.max_l l1 l2 H). pose proof (powlrange_mono d l2 l1 H). lia.
Qed.

Lemma allzero_spec c : allzero K V c = true -> forall v, In v c -> v = m0 V.
Proof.
  unfold allzero. intros H v Hv. rewrite forallb_forall in H. apply (mzerob_spec K V HV). apply H. exact Hv.
Qed.

Lemma evl_allzero es c : allzero K V c = true -> evl es xs c = m0 V.
Proof.
  intro H. pose proof (allzero_spec c H) as Hz. clear H. revert c Hz.
  induction es as [|e es IH]; intros c Hz; [reflexivity|].
  destruct c as [|v c]; [apply evl_nil_r|]. rewrite evl_cons.
  rewrite (Hz v) by (left; reflexivity). rewrite (msmul_m0 K V HV).
  rewrite IH by (intros w Hw; apply Hz; right; exact Hw). apply (madd_0_l K V HV).
Qed.

Lemma evl_app_zero es : forall u z, allzero K V z = true -> evl es xs (u ++ z) = evl es xs u.
Proof.
  induction es as [|e es IH]; intros u z Hz; [reflexivity|].
  destruct u as [|a u].
  - cbn [app]. rewrite evl_nil_r. apply evl_allzero. exact Hz.
  - cbn [app]. rewrite !evl_cons. rewrite IH by exact Hz. reflexivity.
Qed.

Lemma evl_lowest_l c : forall l, evl en xs (firstn (powlrange d (lowest_l K d V c l)) c) = evl en xs (firstn (powlrange d l) c).
Proof.
  induction l as [|l IH]; cbn [lowest_l]; [reflexivity|].
  destruct (allzero K V (skipn (powlrange d l) (firstn (powlrange d (S l)) c))) eqn:Hz; [|reflexivity].
  rewrite IH.
  transitivity (evl en xs (firstn (powlrange d l) (firstn (powlrange d (S l)) c) ++
                           skipn (powlrange d l) (firstn (powlrange d (S l)) c))).
  - rewrite evl_app_zero by exact Hz. rewrite firstn_firstn.
    rewrite Nat.min_l by (apply powlrange_mono; lia). reflexivity.
  - rewrite firstn_skipn. reflexivity.
Qed.

Lemma lowest_l_le c : forall l, lowest_l K d V c l <= l.
Proof.
  induction l as [|l IH]; cbn [lowest_l]; [lia|].
  destruct (allzero K V _); lia.
Qed.

(* evaluation of a projected coefficient vector, keeping the first k rows *)
Lemma evl_firstn_applyproj (P : list (list K)) (c : list V) k : k <= length c -> length c <= Npower d L ->
  evl en xs (firstn k (applyproj K V P c)) =
  msum K V (map (fun pc => msmul V (sumf (fun p => rmul K (mono xs (ind2pow d L p)) (nth (fst pc) (nth p P []) (r0 K))) (seq 0 k)) (snd pc))
                (combine (seq 0 (length c)) c)).
Proof.
  intros Hk Hc. unfold applyproj. rewrite firstn_map, firstn_seq_own. rewrite Nat.min_l by exact Hk.
  rewrite evl_enumerate by (rewrite map_length, seq_length; lia).
  rewrite map_length, seq_length. rewrite combine_seq_map. rewrite map_map. cbn [fst snd].
  apply (wsum_lincomb K V HV (fun p => mono xs (ind2pow d L p)) (fun p' p => nth p' (nth p P []) (r0 K)) c k).
Qed.

Lemma evl_applyproj (P : list (list K)) (c : list V) : length c <= Npower d L ->
  evl en xs (applyproj K V P c) =
  msum K V (map (fun pc => msmul V (sumf (fun p => rmul K (mono xs (ind2pow d L p)) (nth (fst pc) (nth p P []) (r0 K))) (seq 0 (length c))) (snd pc))
                (combine (seq 0 (length c)) c)).
Proof.
  intro Hc. rewrite <- (evl_firstn_applyproj P c (length c) (le_n _) Hc).
  rewrite firstn_all2; [reflexivity|]. unfold applyproj. rewrite map_length, seq_length. lia.
Qed.

Lemma applyproj_length P c : length (applyproj K V P c) = length c.
Proof. unfold applyproj. rewrite map_length, seq_length. reflexivity. Qed.

(* --- the all-l projector --- *)
Variable Pall : list (list K).
Hypothesis Hharm : forall l p', l <= L -> p' < powlrange d l ->
  sumf (fun p => rmul K (mono xs (ind2pow d L p)) (nth p' (nth p Pall []) (r0 K))) (seq 0 (powlrange d l)) =
  mono xs (ind2pow d L p').

Lemma evl_project c : lenok c -> evl en xs (applyproj K V Pall c) = evl en xs c.
Proof.
  intros [l [Hl Hlen]].
  assert (Hc : length c <= Npower d L) by (rewrite Hlen; apply powlrange_mono; exact Hl).
  rewrite evl_applyproj by exact Hc. rewrite evl_enumerate by exact Hc.
  apply (msum_ext K V). intros [p' v] Hin. cbn [fst snd].
  destruct (in_enumerate c p' v (m0 V) Hin) as [Hp _].
  rewrite Hlen. rewrite (Hharm l p' Hl) by lia. reflexivity.
Qed.

Theorem E_reducecoeff rad a : wf K d L V a ->
  E K d L V rad xs (reducecoeff K d V Pall a) = E K d L V rad xs a /\ wf K d L V (reducecoeff K d V Pall a).
Proof.
  induction a as [|[[n l] c] a IH]; intro Hw; [split; [reflexivity | constructor]|].
  inversion Hw as [|? ? Ht Ha]; subst. destruct (IH Ha) as [IH1 IH2].
  cbn [reducecoeff flat_map]. fold (reducecoeff K d V Pall a).
  rewrite (E_app K d L V HV), (E_cons K d L V), IH1.
  destruct Ht as [Hl Hlen].
  assert (Hpr : evl en xs (applyproj K V Pall c) = evl en xs c) by (apply evl_project; exists l; split; assumption).
  destruct (allzero K V (applyproj K V Pall c)) eqn:Hz.
  - split; [|exact IH2]. cbn [app]. rewrite (E_nil K d L V), (madd_0_l K V HV).
    cbn [Eentry]. rewrite <- Hpr. rewrite (evl_allzero _ _ Hz). rewrite (msmul_m0 K V HV).
    symmetry. apply (madd_0_l K V HV).
  - pose proof (lowest_l_le (applyproj K V Pall c) l) as Hlm.
    split.
    + f_equal. rewrite (E_cons K d L V), (E_nil K d L V), (madd_0_r K V HV). cbn [Eentry]. f_equal.
      rewrite evl_lowest_l. rewrite <- Hpr.
      rewrite firstn_all2 by (rewrite applyproj_length, Hlen; lia). reflexivity.
    + cbn [app]. constructor; [|exact IH2]. split; [lia|].
      rewrite firstn_length, applyproj_length, Hlen. apply Nat.min_l. apply powlrange_mono. exact Hlm.
Qed.

Theorem E_collect_go rad : forall rest cur, lenok_entry cur -> Forall lenok_entry rest ->
  E K d L V rad xs (collect_go K V Pall cur rest) = E K d L V rad xs (cur :: rest).
Proof.
  induction rest as [|[[n2 l2] c2] rest IH]; intros [[n l] c] Hc Hr; cbn [collect_go].
  - unfold lenok_entry in Hc. cbn [snd] in Hc.
    destruct (allzero K V (applyproj K V Pall c)) eqn:Hz; [|reflexivity].
    rewrite (E_cons K d L V), !(E_nil K d L V). cbn [Eentry].
    rewrite <- (evl_project c Hc), (evl_allzero _ _ Hz), (msmul_m0 K V HV). symmetry. apply (madd_0_l K V HV).
  - unfold lenok_entry in Hc. cbn [snd] in Hc. inversion Hr as [|? ? Hc2 Hr']; subst.
    pose proof (evl_project c Hc) as Hpr.
    destruct (allzero K V (applyproj K V Pall c)) eqn:Hz.
    + rewrite IH by assumption. rewrite (E_cons K d L V rad xs (n, l, c)). cbn [Eentry].
      rewrite <- Hpr, (evl_allzero _ _ Hz), (msmul_m0 K V HV). symmetry. apply (madd_0_l K V HV).
    + destruct (Z.eqb_spec n n2) as [He|Hne].
      * subst n2. rewrite IH.
        2:{ unfold lenok_entry. cbn [snd]. apply lenok_vadd; [exact Hc2|].
            destruct Hc as [l1 [H1 H2]]. exists l1. split; [exact H1 | rewrite applyproj_length; exact H2]. }
        2:{ exact Hr'. }
        rewrite !(E_cons K d L V). cbn [Eentry]. rewrite (evl_vadd K V HV), Hpr, (msmul_add_r K V HV).
        rewrite (madd_comm K V HV (msmul V (rad n) (evl en xs c2))). symmetry. apply (madd_assoc K V HV).
      * rewrite (E_cons K d L V). rewrite IH by assumption. rewrite (E_cons K d L V rad xs (n, l, c)).
        cbn [Eentry]. rewrite Hpr. reflexivity.
Qed.

Theorem E_collectcoeff rad a : Forall lenok_entry a ->
  E K d L V rad xs (collectcoeff K V Pall a) = E K d L V rad xs a.
Proof.
  intro Hw. unfold collectcoeff.
  assert (Hs : Forall lenok_entry (sortx K V a)).
  { eapply Permutation_Forall; [apply Permutation_sym; apply sortx_perm | exact Hw]. }
  rewrite <- (E_sortx K d L V HV rad xs a).
  destruct (sortx K V a) as [|t rest]; [reflexivity|].
  inversion Hs; subst. apply E_collect_go; assumption.
Qed.

(* Taylor.reduce() *)
Theorem E_reduce rad a : wf K d L V a -> E K d L V rad xs (reduce K d V Pall a) = E K d L V rad xs a.
Proof.
  intro Hw. unfold reduce. destruct (E_reducecoeff rad a Hw) as [H1 H2].
  rewrite E_collectcoeff by (apply wf_lenok; exact H2). exact H1.
Qed.

(* --- the per-l projectors --- *)
Variable Pl : nat -> list (list K).
Hypothesis Hsep : forall l p', l <= L -> p' < powlrange d l ->
  radd K (sumf (fun l0 => sumf (fun p => rmul K (mono xs (ind2pow d L p)) (nth p' (nth p (Pl l0) []) (r0 K)))
                               (seq 0 (powlrange d l0))) (seq 0 l))
         (sumf (fun p => rmul K (mono xs (ind2pow d L p)) (nth p' (nth p (Pl l) []) (r0 K))) (seq 0 (powlrange d l)))
  = mono xs (ind2pow d L p').

Lemma msum_sumf_coeff {S T} (ls : list S) (lc : list (T * V)) (kf : S -> T -> K) :
  msum K V (map (fun s => msum K V (map (fun pc => msmul V (kf s (fst pc)) (snd pc)) lc)) ls) =
  msum K V (map (fun pc => msmul V (sumf (fun s => kf s (fst pc)) ls) (snd pc)) lc).
Proof.
  rewrite (msum_swap K V HV). apply (msum_ext K V). intros pc _. rewrite (sumf_smul K V HV). reflexivity.
Qed.

Lemma E_extra rad n c : forall ls,
  E K d L V rad xs (flat_map (fun l0 => if allzero K V (firstn (powlrange d l0) (applyproj K V (Pl l0) c)) then []
                                        else [(n, l0, firstn (powlrange d l0) (applyproj K V (Pl l0) c))]) ls) =
  msmul V (rad n) (msum K V (map (fun l0 => evl en xs (firstn (powlrange d l0) (applyproj K V (Pl l0) c))) ls)).
Proof.
  induction ls as [|l0 ls IH]; cbn [flat_map map msum].
  - rewrite (E_nil K d L V). symmetry. apply (msmul_m0 K V HV).
  - rewrite (E_app K d L V HV), IH. rewrite (msmul_add_r K V HV). f_equal.
    destruct (allzero K V (firstn (powlrange d l0) (applyproj K V (Pl l0) c))) eqn:Hz.
    + rewrite (E_nil K d L V), (evl_allzero _ _ Hz). symmetry. apply (msmul_m0 K V HV).
    + rewrite (E_cons K d L V), (E_nil K d L V), (madd_0_r K V HV). reflexivity.
Qed.

Theorem E_separatecoeff rad a : wf K d L V a ->
  E K d L V rad xs (separatecoeff K d V Pl a) = E K d L V rad xs a.
Proof.
  intro Hw. unfold separatecoeff. cbv zeta. rewrite (E_sortx K d L V HV), (E_app K d L V HV).
  induction a as [|[[n l] c] a IH]; [cbn; apply (madd_0_l K V HV)|].
  inversion Hw as [|? ? Ht Ha]; subst. specialize (IH Ha). destruct Ht as [Hl Hlen].
  cbn [flat_map]. rewrite !(E_app K d L V HV). rewrite (madd_swap4 K V HV). rewrite IH.
  rewrite (E_cons K d L V rad xs (n, l, c)). f_equal.
  rewrite (E_extra rad n c (seq 0 l)).
  assert (Hc : length c <= Npower d L) by (rewrite Hlen; apply powlrange_mono; exact Hl).
  assert (Hk : E K d L V rad xs (if allzero K V (applyproj K V (Pl l) c) then [] else [(n, l, applyproj K V (Pl l) c)]) =
               msmul V (rad n) (evl en xs (applyproj K V (Pl l) c))).
  { destruct (allzero K V (applyproj K V (Pl l) c)) eqn:Hz.
    - rewrite (E_nil K d L V), (evl_allzero _ _ Hz). symmetry. apply (msmul_m0 K V HV).
    - rewrite (E_cons K d L V), (E_nil K d L V), (madd_0_r K V HV). reflexivity. }
  match goal with |- madd V ?x ?y = _ =>
    replace x with (msmul V (rad n) (evl en xs (applyproj K V (Pl l) c))) by (symmetry; exact Hk) end.
  rewrite <- (msmul_add_r K V HV). cbn [Eentry]. f_equal.
  rewrite evl_applyproj by exact Hc.
  rewrite (msum_ext K V _ (fun l0 => msum K V (map (fun pc => msmul V
             (sumf (fun p => rmul K (mono xs (ind2pow d L p)) (nth (fst pc) (nth p (Pl l0) []) (r0 K))) (seq 0 (powlrange d l0))) (snd pc))
             (combine (seq 0 (length c)) c))) (seq 0 l)).
  2:{ intros l0 Hl0. apply in_seq in Hl0. apply evl_firstn_applyproj; [|exact Hc].
      rewrite Hlen. apply powlrange_mono. lia. }
  rewrite (msum_sumf_coeff (seq 0 l) (combine (seq 0 (length c)) c)
             (fun l0 p' => sumf (fun p => rmul K (mono xs (ind2pow d L p)) (nth p' (nth p (Pl l0) []) (r0 K))) (seq 0 (powlrange d l0)))).
  rewrite (madd_comm K V HV). rewrite <- (msum_madd K V HV).
  rewrite evl_enumerate by exact Hc.
  apply (msum_ext K V). intros [p' v] Hin. cbn [fst snd].
  destruct (in_enumerate c p' v (m0 V) Hin) as [Hp _].
  rewrite <- (msmul_add_l K V HV). f_equal. rewrite Hlen. apply Hsep; [exact Hl | lia].
Qed.
End ProjGeneric.

(* ---- the projector tables of the class (Lmax = 4) ---- *)
(* certificates: D * (column p' of Lproj[-1] as a polynomial) - D * monomial p' = (x.x - 1) * Qcert[p'],
   found by polynomial division outside Coq, CHECKED here by ring *)
Definition Qcert3 : list (list Z) := [
  [0; 0; 0; 0; 0; 0; 0; 0; 0; 0];
  [0; 0; 0; 0; 0; 0; 0; 0; 0; 0];
  [0; 0; 0; 0; 0; 0; 0; 0; 0; 0];
  [0; 0; 0; 0; 0; 0; 0; 0; 0; 0];
  [0; 0; 0; 0; 0; 0; 0; 0; 0; 0];
  [0; 0; 0; 0; 0; 0; 0; 0; 0; 0];
  [(-420); 0; 0; 0; 0; 0; 0; 0; 0; 0];
  [0; 0; 0; 0; 0; 0; 0; 0; 0; 0];
  [0; 0; 0; 0; 0; 0; 0; 0; 0; 0];
  [(-420); 0; 0; 0; 0; 0; 0; 0; 0; 0];
  [0; 0; 0; 0; 0; 0; 0; 0; 0; 0];
  [0; 0; 0; 0; 0; 0; 0; 0; 0; 0];
  [0; (-420); 0; 0; 0; 0; 0; 0; 0; 0];
  [0; 0; (-630); 0; 0; 0; 0; 0; 0; 0];
  [0; 0; 0; 0; 0; 0; 0; 0; 0; 0];
  [0; 0; 0; 0; 0; 0; 0; 0; 0; 0];
  [0; 0; 0; (-210); 0; 0; 0; 0; 0; 0];
  [0; (-420); 0; 0; 0; 0; 0; 0; 0; 0];
  [0; 0; (-210); 0; 0; 0; 0; 0; 0; 0];
  [0; 0; 0; (-630); 0; 0; 0; 0; 0; 0];
  [0; 0; 0; 0; 0; 0; 0; 0; 0; 0];
  [0; 0; 0; 0; 0; 0; 0; 0; 0; 0];
  [0; 0; 0; 0; (-420); 0; 0; 0; 0; 0];
  [0; 0; 0; 0; 0; (-630); 0; 0; 0; 0];
  [(-315); 0; 0; 0; 315; 0; (-735); 0; 0; 105];
  [0; 0; 0; 0; 0; 0; 0; 0; 0; 0];
  [0; 0; 0; 0; 0; 0; 0; 0; 0; 0];
  [0; 0; 0; 0; 0; 0; 0; (-210); 0; 0];
  [0; 0; 0; 0; 0; 0; 0; 0; (-420); 0];
  [0; 0; 0; 0; (-420); 0; 0; 0; 0; 0];
  [0; 0; 0; 0; 0; (-210); 0; 0; 0; 0];
  [(-105); 0; 0; 0; 105; 0; (-105); 0; 0; (-105)];
  [0; 0; 0; 0; 0; 0; 0; (-630); 0; 0];
  [0; 0; 0; 0; 0; 0; 0; 0; (-420); 0];
  [(-315); 0; 0; 0; 315; 0; 105; 0; 0; (-735)]
]%Z.
Definition Qcert2 : list (list Z) := [
  [0; 0; 0; 0; 0; 0];
  [0; 0; 0; 0; 0; 0];
  [0; 0; 0; 0; 0; 0];
  [(-4); 0; 0; 0; 0; 0];
  [0; 0; 0; 0; 0; 0];
  [(-4); 0; 0; 0; 0; 0];
  [0; (-6); 0; 0; 0; 0];
  [0; 0; (-2); 0; 0; 0];
  [0; (-2); 0; 0; 0; 0];
  [0; 0; (-6); 0; 0; 0];
  [(-3); 0; 0; (-7); 0; 1];
  [0; 0; 0; 0; (-4); 0];
  [(-1); 0; 0; (-1); 0; (-1)];
  [0; 0; 0; 0; (-4); 0];
  [(-3); 0; 0; 1; 0; (-7)]
]%Z.

Definition harm_stmt (K : ordring) d (Qc : list (list Z)) (xs : list K) l p' : Prop :=
  sumf (fun p => rmul K (mono xs (ind2pow d 4 p)) (zinj (nth p' (nth p (LprojZall d 4) []) 0%Z))) (seq 0 (powlrange d l))
  = radd K (rmul K (zinj (Dden d)) (mono xs (ind2pow d 4 p')))
           (rmul K (rsub K (dot xs xs) (r1 K))
                   (sumf (fun p => rmul K (mono xs (ind2pow d 4 p)) (zinj (nth p (nth p' Qc []) 0%Z))) (seq 0 (powlrange d 2)))).

Definition sep_stmt (K : ordring) d (Qc : list (list Z)) (xs : list K) l p' : Prop :=
  radd K (sumf (fun l0 => sumf (fun p => rmul K (mono xs (ind2pow d 4 p)) (zinj (nth p' (nth p (LprojZ d l0) []) 0%Z)))
                               (seq 0 (powlrange d l0))) (seq 0 l))
         (sumf (fun p => rmul K (mono xs (ind2pow d 4 p)) (zinj (nth p' (nth p (LprojZ d l) []) 0%Z))) (seq 0 (powlrange d l)))
  = radd K (rmul K (zinj (Dden d)) (mono xs (ind2pow d 4 p')))
           (rmul K (rsub K (dot xs xs) (r1 K))
                   (sumf (fun p => rmul K (mono xs (ind2pow d 4 p)) (zinj (nth p (nth p' Qc []) 0%Z))) (seq 0 (powlrange d 2)))).

(* constructexpansion / TaylorExpandJumps: the multinomial theorem up to order 4 *)
Definition multinom_stmt (K : ordring) d (v xs : list K) n : Prop :=
  sumf (fun p => rmul K (mono xs (ind2pow d 4 p)) (rmul K (zinj (powercoeff d 4 n p)) (mono v (ind2pow d 4 p))))
       (seq 0 (powlrange d n))
  = rpow (dot v xs) n.

Section Raw2.
Variable R : Type.
Variables (rO rI : R) (pl ml mn : R -> R -> R) (op : R -> R) (le : R -> R -> Prop) (eqb leb : R -> R -> bool).
Hypothesis Rth : ring_theory rO rI pl ml mn op (@eq R).
Hypothesis h1 : forall a, le a a.
Hypothesis h2 : forall a b c, le a b -> le b c -> le a c.
Hypothesis h3 : forall a b c, le a b -> le (pl a c) (pl b c).
Hypothesis h4 : forall a b, le rO a -> le rO b -> le rO (ml a b).
Hypothesis h5 : forall a, le rO (ml a a).
Hypothesis h6 : forall a b, eqb a b = true <-> a = b.
Hypothesis h7 : forall a b, leb a b = true <-> le a b.
Let KK2 : ordring := Build_ordring R rO rI pl ml mn op le eqb leb Rth h1 h2 h3 h4 h5 h6 h7.
Add Ring KrRaw2 : Rth.

Lemma harm3_raw (x y z : R) l p' : Nat.leb l 4 = true -> Nat.ltb p' (powlrange 3 l) = true ->
  harm_stmt KK2 3 Qcert3 [x;y;z] l p'.
Proof.
  intros Hl Hp.
  do 5 (destruct l as [|l]; [
    do 35 (destruct p' as [|p']; [
      first [ (vm_compute in Hp; discriminate Hp) | (unfold harm_stmt; vm_compute; ring) ] | ]);
    vm_compute in Hp; discriminate Hp | ]).
  vm_compute in Hl. discriminate Hl.
Qed.

Lemma sep3_raw (x y z : R) l p' : Nat.leb l 4 = true -> Nat.ltb p' (powlrange 3 l) = true ->
  sep_stmt KK2 3 Qcert3 [x;y;z] l p'.
Proof.
  intros Hl Hp.
  do 5 (destruct l as [|l]; [
    do 35 (destruct p' as [|p']; [
      first [ (vm_compute in Hp; discriminate Hp) | (unfold sep_stmt; vm_compute; ring) ] | ]);
    vm_compute in Hp; discriminate Hp | ]).
  vm_compute in Hl. discriminate Hl.
Qed.

Lemma harm2_raw (x y : R) l p' : Nat.leb l 4 = true -> Nat.ltb p' (powlrange 2 l) = true ->
  harm_stmt KK2 2 Qcert2 [x;y] l p'.
Proof.
  intros Hl Hp.
  do 5 (destruct l as [|l]; [
    do 15 (destruct p' as [|p']; [
      first [ (vm_compute in Hp; discriminate Hp) | (unfold harm_stmt; vm_compute; ring) ] | ]);
    vm_compute in Hp; discriminate Hp | ]).
  vm_compute in Hl. discriminate Hl.
Qed.

Lemma sep2_raw (x y : R) l p' : Nat.leb l 4 = true -> Nat.ltb p' (powlrange 2 l) = true ->
  sep_stmt KK2 2 Qcert2 [x;y] l p'.
Proof.
  intros Hl Hp.
  do 5 (destruct l as [|l]; [
    do 15 (destruct p' as [|p']; [
      first [ (vm_compute in Hp; discriminate Hp) | (unfold sep_stmt; vm_compute; ring) ] | ]);
    vm_compute in Hp; discriminate Hp | ]).
  vm_compute in Hl. discriminate Hl.
Qed.

Lemma multinom3_raw (v0 v1 v2 x y z : R) n : Nat.leb n 4 = true -> multinom_stmt KK2 3 [v0;v1;v2] [x;y;z] n.
Proof.
  intro Hn. do 5 (destruct n as [|n]; [unfold multinom_stmt; vm_compute; ring|]). vm_compute in Hn. discriminate Hn.
Qed.

Lemma multinom2_raw (v0 v1 x y : R) n : Nat.leb n 4 = true -> multinom_stmt KK2 2 [v0;v1] [x;y] n.
Proof.
  intro Hn. do 5 (destruct n as [|n]; [unfold multinom_stmt; vm_compute; ring|]). vm_compute in Hn. discriminate Hn.
Qed.
End Raw2.

Section ProjInst.
Variable K : ordring.
Add Ring KrT9 : (r_ring K).

Lemma nth_mapmap (g : Z -> K) (T : list (list Z)) p p' : g 0%Z = r0 K ->
  nth p' (nth p (map (map g) T) []) (r0 K) = g (nth p' (nth p T []) 0%Z).
Proof.
  intro Hg. change (@nil K) with (map g []). rewrite (map_nth (map g) T [] p).
  rewrite <- (map_nth g (nth p T []) 0%Z p'). f_equal. symmetry. exact Hg.
Qed.

Lemma harm_transfer d Qc xs dinv l p' :
  harm_stmt K d Qc xs l p' -> dot xs xs = r1 K -> rmul K (zinj (Dden d)) dinv = r1 K ->
  sumf (fun p => rmul K (mono xs (ind2pow d 4 p)) (nth p' (nth p (LprojKall K d 4 dinv) []) (r0 K))) (seq 0 (powlrange d l))
  = mono xs (ind2pow d 4 p').
Proof.
  intros H Hs Hd. unfold harm_stmt in H. rewrite Hs in H.
  transitivity (rmul K dinv (sumf (fun p => rmul K (mono xs (ind2pow d 4 p)) (zinj (nth p' (nth p (LprojZall d 4) []) 0%Z))) (seq 0 (powlrange d l)))).
  - rewrite <- sumf_scal. apply sumf_ext. intros p _. unfold LprojKall.
    rewrite (nth_mapmap (fun z => rmul K (zinj z) dinv)) by (cbn; ring). ring.
  - rewrite H. transitivity (rmul K (rmul K (zinj (Dden d)) dinv) (mono xs (ind2pow d 4 p'))); [ring|]. rewrite Hd. ring.
Qed.

Lemma sep_transfer d Qc xs dinv l p' :
  sep_stmt K d Qc xs l p' -> dot xs xs = r1 K -> rmul K (zinj (Dden d)) dinv = r1 K ->
  radd K (sumf (fun l0 => sumf (fun p => rmul K (mono xs (ind2pow d 4 p)) (nth p' (nth p (LprojK K d dinv l0) []) (r0 K)))
                               (seq 0 (powlrange d l0))) (seq 0 l))
         (sumf (fun p => rmul K (mono xs (ind2pow d 4 p)) (nth p' (nth p (LprojK K d dinv l) []) (r0 K))) (seq 0 (powlrange d l)))
  = mono xs (ind2pow d 4 p').
Proof.
  intros H Hs Hd. unfold sep_stmt in H. rewrite Hs in H.
  assert (G : forall l0 m, sumf (fun p => rmul K (mono xs (ind2pow d 4 p)) (nth p' (nth p (LprojK K d dinv l0) []) (r0 K))) (seq 0 m)
                         = rmul K dinv (sumf (fun p => rmul K (mono xs (ind2pow d 4 p)) (zinj (nth p' (nth p (LprojZ d l0) []) 0%Z))) (seq 0 m))).
  { intros l0 m. rewrite <- sumf_scal. apply sumf_ext. intros p _. unfold LprojK.
    rewrite (nth_mapmap (fun z => rmul K (zinj z) dinv)) by (cbn; ring). ring. }
  rewrite G. rewrite (sumf_ext K _ (fun l0 => rmul K dinv (sumf (fun p => rmul K (mono xs (ind2pow d 4 p)) (zinj (nth p' (nth p (LprojZ d l0) []) 0%Z))) (seq 0 (powlrange d l0)))))
    by (intros l0 _; apply G).
  rewrite sumf_scal.
  match goal with |- radd K (rmul K dinv ?a) (rmul K dinv ?b) = _ => transitivity (rmul K dinv (radd K a b)); [ring|] end.
  rewrite H. transitivity (rmul K (rmul K (zinj (Dden d)) dinv) (mono xs (ind2pow d 4 p'))); [ring|]. rewrite Hd. ring.
Qed.
End ProjInst.

Lemma harm3 (K : ordring) (xs : list K) l p' : length xs = 3 -> l <= 4 -> p' < powlrange 3 l -> harm_stmt K 3 Qcert3 xs l p'.
Proof.
  intros Hx Hl Hp. destruct xs as [|x [|y [|z [|? ?]]]]; try discriminate Hx.
  destruct K as [R rO rI pl ml mn op le eqb leb Rth g1 g2 g3 g4 g5 g6 g7].
  apply (harm3_raw R rO rI pl ml mn op le eqb leb Rth g1 g2 g3 g4 g5 g6 g7); [apply Nat.leb_le; exact Hl | apply Nat.ltb_lt; exact Hp].
Qed.
Lemma sep3 (K : ordring) (xs : list K) l p' : length xs = 3 -> l <= 4 -> p' < powlrange 3 l -> sep_stmt K 3 Qcert3 xs l p'.
Proof.
  intros Hx Hl Hp. destruct xs as [|x [|y [|z [|? ?]]]]; try discriminate Hx.
  destruct K as [R rO rI pl ml mn op le eqb leb Rth g1 g2 g3 g4 g5 g6 g7].
  apply (sep3_raw R rO rI pl ml mn op le eqb leb Rth g1 g2 g3 g4 g5 g6 g7); [apply Nat.leb_le; exact Hl | apply Nat.ltb_lt; exact Hp].
Qed.
Lemma harm2 (K : ordring) (xs : list K) l p' : length xs = 2 -> l <= 4 -> p' < powlrange 2 l -> harm_stmt K 2 Qcert2 xs l p'.
Proof.
  intros Hx Hl Hp. destruct xs as [|x [|y [|? ?]]]; try discriminate Hx.
  destruct K as [R rO rI pl ml mn op le eqb leb Rth g1 g2 g3 g4 g5 g6 g7].
  apply (harm2_raw R rO rI pl ml mn op le eqb leb Rth g1 g2 g3 g4 g5 g6 g7); [apply Nat.leb_le; exact Hl | apply Nat.ltb_lt; exact Hp].
Qed.
Lemma sep2 (K : ordring) (xs : list K) l p' : length xs = 2 -> l <= 4 -> p' < powlrange 2 l -> sep_stmt K 2 Qcert2 xs l p'.
Proof.
  intros Hx Hl Hp. destruct xs as [|x [|y [|? ?]]]; try discriminate Hx.
  destruct K as [R rO rI pl ml mn op le eqb leb Rth g1 g2 g3 g4 g5 g6 g7].
  apply (sep2_raw R rO rI pl ml mn op le eqb leb Rth g1 g2 g3 g4 g5 g6 g7); [apply Nat.leb_le; exact Hl | apply Nat.ltb_lt; exact Hp].
Qed.
Lemma multinom3 (K : ordring) (v xs : list K) n : length v = 3 -> length xs = 3 -> n <= 4 -> multinom_stmt K 3 v xs n.
Proof.
  intros Hv Hx Hn. destruct xs as [|x [|y [|z [|? ?]]]]; try discriminate Hx.
  destruct v as [|v0 [|v1 [|v2 [|? ?]]]]; try discriminate Hv.
  destruct K as [R rO rI pl ml mn op le eqb leb Rth g1 g2 g3 g4 g5 g6 g7].
  apply (multinom3_raw R rO rI pl ml mn op le eqb leb Rth g1 g2 g3 g4 g5 g6 g7). apply Nat.leb_le; exact Hn.
Qed.
Lemma multinom2 (K : ordring) (v xs : list K) n : length v = 2 -> length xs = 2 -> n <= 4 -> multinom_stmt K 2 v xs n.
Proof.
  intros Hv Hx Hn. destruct xs as [|x [|y [|? ?]]]; try discriminate Hx.
  destruct v as [|v0 [|v1 [|? ?]]]; try discriminate Hv.
  destruct K as [R rO rI pl ml mn op le eqb leb Rth g1 g2 g3 g4 g5 g6 g7].
  apply (multinom2_raw R rO rI pl ml mn op le eqb leb Rth g1 g2 g3 g4 g5 g6 g7). apply Nat.leb_le; exact Hn.
Qed.

(* Taylor3D.reduce / reducecoeff / collectcoeff / separate, Taylor2D likewise: on the unit sphere (circle), in every
   ordered ring in which the common denominator of the tables (840, resp. 8) is invertible *)
Section ReduceTheorems.
Variable K : ordring.
Variable V : kmod K.
Hypothesis HV : modlaws K V.
Variable dinv : K.
Variable xs : list K.
Hypothesis Hunit : dot xs xs = r1 K.

Theorem reduce3D_exact rad a : length xs = 3 -> rmul K (zinj (Dden 3)) dinv = r1 K -> wf K 3 4 V a ->
  E K 3 4 V rad xs (reducecoeff K 3 V (LprojKall K 3 4 dinv) a) = E K 3 4 V rad xs a /\
  E K 3 4 V rad xs (collectcoeff K V (LprojKall K 3 4 dinv) a) = E K 3 4 V rad xs a /\
  E K 3 4 V rad xs (reduce K 3 V (LprojKall K 3 4 dinv) a) = E K 3 4 V rad xs a /\
  E K 3 4 V rad xs (separatecoeff K 3 V (LprojK K 3 dinv) a) = E K 3 4 V rad xs a.
Proof.
  intros Hx Hd Hw.
  assert (H1 : forall l p', l <= 4 -> p' < powlrange 3 l ->
     sumf (fun p => rmul K (mono xs (ind2pow 3 4 p)) (nth p' (nth p (LprojKall K 3 4 dinv) []) (r0 K))) (seq 0 (powlrange 3 l)) = mono xs (ind2pow 3 4 p')).
  { intros l p' Hl Hp. apply (harm_transfer K 3 Qcert3); [apply harm3; assumption | exact Hunit | exact Hd]. }
  split; [apply (E_reducecoeff K 3 4 V HV xs _ H1 rad a Hw)|].
  split; [apply (E_collectcoeff K 3 4 V HV xs _ H1 rad a); apply wf_lenok; exact Hw|].
  split; [apply (E_reduce K 3 4 V HV xs _ H1 rad a Hw)|].
  apply (E_separatecoeff K 3 4 V HV xs (LprojK K 3 dinv)); [|exact Hw].
  intros l p' Hl Hp. apply (sep_transfer K 3 Qcert3); [apply sep3; assumption | exact Hunit | exact Hd].
Qed.

Theorem reduce2D_exact rad a : length xs = 2 -> rmul K (zinj (Dden 2)) dinv = r1 K -> wf K 2 4 V a ->
  E K 2 4 V rad xs (reducecoeff K 2 V (LprojKall K 2 4 dinv) a) = E K 2 4 V rad xs a /\
  E K 2 4 V rad xs (collectcoeff K V (LprojKall K 2 4 dinv) a) = E K 2 4 V rad xs a /\
  E K 2 4 V rad xs (reduce K 2 V (LprojKall K 2 4 dinv) a) = E K 2 4 V rad xs a /\
  E K 2 4 V rad xs (separatecoeff K 2 V (LprojK K 2 dinv) a) = E K 2 4 V rad xs a.
Proof.
  intros Hx Hd Hw.
  assert (H1 : forall l p', l <= 4 -> p' < powlrange 2 l ->
     sumf (fun p => rmul K (mono xs (ind2pow 2 4 p)) (nth p' (nth p (LprojKall K 2 4 dinv) []) (r0 K))) (seq 0 (powlrange 2 l)) = mono xs (ind2pow 2 4 p')).
  { intros l p' Hl Hp. apply (harm_transfer K 2 Qcert2); [apply harm2; assumption | exact Hunit | exact Hd]. }
  split; [apply (E_reducecoeff K 2 4 V HV xs _ H1 rad a Hw)|].
  split; [apply (E_collectcoeff K 2 4 V HV xs _ H1 rad a); apply wf_lenok; exact Hw|].
  split; [apply (E_reduce K 2 4 V HV xs _ H1 rad a Hw)|].
  apply (E_separatecoeff K 2 4 V HV xs (LprojK K 2 dinv)); [|exact Hw].
  intros l p' Hl Hp. apply (sep_transfer K 2 Qcert2); [apply sep2; assumption | exact Hunit | exact Hd].
Qed.
End ReduceTheorems.

(* ---- constructexpansion (and GFcalc.TaylorExpandJumps, which repeats its loop) ---- *)
Section Construct.
Variable K : ordring.
Add Ring KrT10 : (r_ring K).
Variable d : nat.
Variable V : kmod K.
Hypothesis HV : modlaws K V.
Variable xs : list K.
Hypothesis Hmult : forall v n, length v = d -> n <= 4 -> multinom_stmt K d v xs n.

Lemma evl_fold_vadd {T} (F : T -> list V) es : forall (l : list T) (acc : list V),
  evl K V es xs (fold_left (fun acc t => vadd K V acc (F t)) l acc) =
  madd V (evl K V es xs acc) (msum K V (map (fun t => evl K V es xs (F t)) l)).
Proof.
  induction l as [|t l IH]; intro acc; cbn [fold_left map msum].
  - symmetry. apply (madd_0_r K V HV).
  - rewrite IH. rewrite (evl_vadd K V HV). symmetry. apply (madd_assoc K V HV).
Qed.

(* the expansion built from (coefficient, direction) pairs evaluates to the direct power series
   sum_n rad(n) pre_n sum_(C,v) (v . xs)^n C *)
Theorem E_construct rad (basis : list (V * list K)) N pre :
  N <= 4 -> (forall cv, In cv basis -> length (snd cv) = d) ->
  E K d 4 V rad xs (construct K d 4 V basis N pre) =
  msum K V (map (fun n => msmul V (rad (Z.of_nat n))
                  (msum K V (map (fun cv => msmul V (rmul K (pre n) (rpow (dot (snd cv) xs) n)) (fst cv)) basis)))
                (seq 0 (S N))).
Proof.
  intros HN Hb. unfold construct, E. rewrite map_map. apply (msum_ext K V). intros n Hn. apply in_seq in Hn.
  cbn [Eentry]. f_equal. rewrite evl_fold_vadd. rewrite (evl_repeat0 K V HV), (madd_0_l K V HV).
  apply (msum_ext K V). intros [co v] Hin. cbn [fst snd].
  assert (Hlen : powlrange d n <= Npower d 4) by (apply powlrange_mono; lia).
  rewrite evl_enumerate by (rewrite map_length, seq_length; exact Hlen).
  rewrite map_length, seq_length. rewrite combine_seq_map, map_map. cbn [fst snd].
  rewrite <- (Hmult v n (Hb _ Hin) ltac:(lia)). unfold multinom_stmt.
  rewrite <- sumf_scal. rewrite (sumf_smul K V HV). apply (msum_ext K V). intros p _.
  rewrite <- (msmul_mul K V HV). f_equal. ring.
Qed.
End Construct.

(* ---- the homogeneous reading Eh agrees with the evaluation E at u = r * (unit vector) ---- *)
Section HomogeneousReading.
Variable K : ordring.
Add Ring KrT11 : (r_ring K).
Variables d L : nat.
Variable V : kmod K.
Hypothesis HV : modlaws K V.

Lemma mono_scale (r : K) : forall (xs : list K) (e : expo), length e = length xs ->
  mono (map (rmul K r) xs) e = rmul K (rpow r (deg e)) (mono xs e).
Proof.
  induction xs as [|x xs IH]; intros e H.
  - destruct e; [cbn; ring | discriminate H].
  - destruct e as [|n e]; [discriminate H|]. cbn [map mono]. rewrite IH by (cbn in H; lia).
    change (deg (n :: e)) with (n + deg e). rewrite rpow_add, rpow_mul. ring.
Qed.

Lemma dot_scale (r : K) : forall xs ys : list K, dot (map (rmul K r) xs) (map (rmul K r) ys) = rmul K (rmul K r r) (dot xs ys).
Proof.
  unfold dot. induction xs as [|x xs IH]; intros ys; [cbn; ring|].
  destruct ys as [|y ys]; [cbn; ring|]. cbn [map combine sumf fst snd]. rewrite IH. ring.
Qed.

Lemma rpow_rpow (r : K) m n : rpow (rpow r m) n = rpow r (m * n).
Proof.
  induction n as [|n IH]; cbn [rpow]; [rewrite Nat.mul_0_r; reflexivity|].
  rewrite IH. rewrite <- rpow_add. f_equal. lia.
Qed.

Theorem Eh_unit (r : K) (xs : list K) (a : expansion V) :
  length xs = d -> dot xs xs = r1 K ->
  Forall (parity_ok_entry K d L V) a -> wf K d L V a ->
  Eh K d L V (map (rmul K r) xs) a = E K d L V (fun n => rpow r (Z.to_nat n)) xs a.
Proof.
  intros Hx Hu Hp Hw. induction a as [|[[n l] c] a IH]; [reflexivity|].
  pose proof (Forall_inv Hp) as Hpt. pose proof (Forall_inv_tail Hp) as Hpa.
  pose proof (Forall_inv Hw) as Hwt. pose proof (Forall_inv_tail Hw) as Hwa.
  unfold Eh, E. cbn [map msum]. fold (Eh K d L V (map (rmul K r) xs) a). fold (E K d L V (fun n => rpow r (Z.to_nat n)) xs a).
  rewrite (IH Hpa Hwa). f_equal. cbn [Eentry].
  destruct Hpt as [Hn0 [HnL [Hln Hpar]]]. destruct Hwt as [Hl Hlen].
  set (nn := Z.to_nat n) in *.
  assert (Hc : length c <= Npower d L) by (rewrite Hlen; apply powlrange_mono; exact Hl).
  rewrite (evh_enumerate K d L V (map (rmul K r) xs) nn c Hc). rewrite (evl_enumerate K V d L xs c Hc).
  rewrite (msum_smul K V HV). apply (msum_ext K V). intros [p v] Hin. cbn [fst snd].
  destruct (in_enumerate c p v (m0 V) Hin) as [Hpl Hv].
  destruct (Nat.even (nn - deg (ind2pow d L p))) eqn:He.
  - rewrite <- (msmul_mul K V HV). f_equal.
    assert (Hdeg : deg (ind2pow d L p) <= l).
    { apply (powlrange_spec d L l p Hl); [lia | rewrite <- Hlen; exact Hpl]. }
    rewrite mono_scale by (rewrite ind2pow_length; symmetry; exact Hx).
    rewrite dot_scale, Hu.
    replace (rmul K (rmul K r r) (r1 K)) with (rpow r 2) by (cbn; ring).
    rewrite rpow_rpow.
    apply Nat.even_spec in He. destruct He as [m Hm].
    replace (Nat.div (nn - deg (ind2pow d L p)) 2) with m by (rewrite Hm, Nat.mul_comm, Nat.div_mul; lia).
    replace (rpow r nn) with (rpow r (deg (ind2pow d L p) + 2 * m)) by (f_equal; lia).
    rewrite rpow_add. ring.
  - rewrite Hv, (Hpar p Hpl He). rewrite !(msmul_m0 K V HV). reflexivity.
Qed.
End HomogeneousReading.

(* ================================================================== Part 4: Neumann series == *)
(* any unital ring, NOT assumed commutative (square matrices): *)
Section Neumann.
Variable M : Type.
Variables (zero one : M) (add mul : M -> M -> M) (neg : M -> M).
Hypothesis add_assoc : forall x y z, add x (add y z) = add (add x y) z.
Hypothesis add_comm : forall x y, add x y = add y x.
Hypothesis add_0_l : forall x, add zero x = x.
Hypothesis add_neg : forall x, add x (neg x) = zero.
Hypothesis mul_assoc : forall x y z, mul x (mul y z) = mul (mul x y) z.
Hypothesis mul_1_l : forall x, mul one x = x.
Hypothesis mul_1_r : forall x, mul x one = x.
Hypothesis distr_l : forall x y z, mul (add x y) z = add (mul x z) (mul y z).
Hypothesis distr_r : forall x y z, mul x (add y z) = add (mul x y) (mul x z).

Lemma nm_add_0_r x : add x zero = x.
Proof. rewrite add_comm. apply add_0_l. Qed.

Lemma nm_cancel x y z : add x y = add x z -> y = z.
Proof.
  intro H. rewrite <- (add_0_l y), <- (add_0_l z). rewrite <- (add_neg x). rewrite (add_comm x (neg x)).
  rewrite <- !add_assoc. rewrite H. reflexivity.
Qed.

Lemma nm_mul_0_l x : mul zero x = zero.
Proof.
  apply (nm_cancel (mul zero x)). rewrite <- distr_l. rewrite add_0_l. rewrite nm_add_0_r. reflexivity.
Qed.

Lemma nm_mul_0_r x : mul x zero = zero.
Proof.
  apply (nm_cancel (mul x zero)). rewrite <- distr_r. rewrite add_0_l. rewrite nm_add_0_r. reflexivity.
Qed.

Lemma nm_neg_mul_l x y : mul (neg x) y = neg (mul x y).
Proof.
  apply (nm_cancel (mul x y)). rewrite <- distr_l. rewrite !add_neg. apply nm_mul_0_l.
Qed.

Lemma nm_neg_mul_r x y : mul x (neg y) = neg (mul x y).
Proof.
  apply (nm_cancel (mul x y)). rewrite <- distr_r. rewrite !add_neg. apply nm_mul_0_r.
Qed.

Fixpoint npow (T : M) (i : nat) : M := match i with O => one | S i' => mul (npow T i') T end.
Fixpoint npowsum (T : M) (k : nat) : M := match k with O => one | S k' => add (npowsum T k') (npow T (S k')) end.
(* what inversecoeff accumulates: sum_{i<=k} T^i Ainv,  T = -(Ainv B) *)
Fixpoint nseries (T Ainv : M) (k : nat) : M :=
  match k with O => Ainv | S k' => add (nseries T Ainv k') (mul (npow T (S k')) Ainv) end.

Lemma nseries_factor T Ainv k : nseries T Ainv k = mul (npowsum T k) Ainv.
Proof.
  induction k as [|k IH]; cbn [nseries npowsum]; [symmetry; apply mul_1_l|].
  rewrite IH. rewrite distr_l. reflexivity.
Qed.

Lemma npow_comm T i : mul T (npow T i) = mul (npow T i) T.
Proof.
  induction i as [|i IH]; cbn [npow]; [rewrite mul_1_l, mul_1_r; reflexivity|].
  rewrite mul_assoc. rewrite IH. reflexivity.
Qed.

Lemma telescope_r T k : mul (npowsum T k) (add one (neg T)) = add one (neg (npow T (S k))).
Proof.
  induction k as [|k IH].
  - cbn [npowsum npow]. rewrite !mul_1_l. reflexivity.
  - cbn [npowsum]. rewrite distr_l. rewrite IH.
    rewrite distr_r. rewrite mul_1_r. rewrite nm_neg_mul_r.
    change (mul (npow T (S k)) T) with (npow T (S (S k))).
    rewrite <- add_assoc. f_equal. rewrite add_assoc.
    rewrite (add_comm (neg (npow T (S k)))). rewrite add_neg. apply add_0_l.
Qed.

Lemma telescope_l T k : mul (add one (neg T)) (npowsum T k) = add one (neg (npow T (S k))).
Proof.
  induction k as [|k IH].
  - cbn [npowsum npow]. rewrite mul_1_r, mul_1_l. reflexivity.
  - cbn [npowsum]. rewrite distr_r. rewrite IH.
    rewrite distr_l. rewrite mul_1_l. rewrite nm_neg_mul_l. rewrite npow_comm.
    change (mul (npow T (S k)) T) with (npow T (S (S k))).
    rewrite <- add_assoc. f_equal. rewrite add_assoc.
    rewrite (add_comm (neg (npow T (S k)))). rewrite add_neg. apply add_0_l.
Qed.

(* (sum_{i<=k} (-Ainv B)^i Ainv) (A + B) = 1 - (-Ainv B)^(k+1) *)
Theorem neumann_left A B Ainv k : mul Ainv A = one ->
  mul (nseries (neg (mul Ainv B)) Ainv k) (add A B) = add one (neg (npow (neg (mul Ainv B)) (S k))).
Proof.
  intro HA. rewrite nseries_factor. rewrite <- mul_assoc. rewrite distr_r. rewrite HA.
  rewrite <- telescope_r. f_equal. f_equal.
  apply (nm_cancel (neg (mul Ainv B))). rewrite add_neg. rewrite add_comm. rewrite add_neg. reflexivity.
Qed.

Lemma npow_shift A' B' i : mul (npow (neg (mul A' B')) i) A' = mul A' (npow (neg (mul B' A')) i).
Proof.
  induction i as [|i IH]; cbn [npow]; [rewrite mul_1_l, mul_1_r; reflexivity|].
  assert (H : mul (neg (mul A' B')) A' = mul A' (neg (mul B' A'))).
  { rewrite nm_neg_mul_l, nm_neg_mul_r, mul_assoc. reflexivity. }
  rewrite <- mul_assoc. rewrite H. rewrite mul_assoc. rewrite IH. rewrite <- mul_assoc. reflexivity.
Qed.

Lemma nseries_shift A' B' k : nseries (neg (mul A' B')) A' k = mul A' (npowsum (neg (mul B' A')) k).
Proof.
  induction k as [|k IH]; cbn [nseries npowsum]; [symmetry; apply mul_1_r|].
  rewrite IH. rewrite npow_shift. rewrite <- distr_r. reflexivity.
Qed.

(* it is a right inverse to the same order: (A + B) (sum_{i<=k} (-Ainv B)^i Ainv) = 1 - (-B Ainv)^(k+1) *)
Theorem neumann_right A B Ainv k : mul A Ainv = one ->
  mul (add A B) (nseries (neg (mul Ainv B)) Ainv k) = add one (neg (npow (neg (mul B Ainv)) (S k))).
Proof.
  intro HA. rewrite nseries_shift. rewrite mul_assoc. rewrite distr_l. rewrite HA.
  rewrite <- telescope_l. f_equal. f_equal.
  apply (nm_cancel (neg (mul B Ainv))). rewrite add_neg. rewrite add_comm. rewrite add_neg. reflexivity.
Qed.
End Neumann.

(* ================================================================== non-vacuity ============ *)
Lemma selfmul_bilinear (K : ordring) : bilinear K (selfmod K) (selfmod K) (selfmod K) (rmul K).
Proof.
  pose proof (r_ring K) as Rt. unfold bilinear. cbn.
  repeat split; intros.
  - apply (Rdistr_l Rt).
  - rewrite (Rmul_comm Rt u (radd K v v')), (Rdistr_l Rt), (Rmul_comm Rt v u), (Rmul_comm Rt v' u). reflexivity.
  - symmetry. apply (Rmul_assoc Rt).
  - rewrite (Rmul_assoc Rt u k v), (Rmul_comm Rt u k), <- (Rmul_assoc Rt k u v). reflexivity.
Qed.

Local Open Scope Z_scope.
Definition exZ := selfmod Zring.
Definition ex_rad (n : Z) : Z := 3 ^ n.   (* multiplicative on n >= 0 *)
(* a = 2 + r (x - 3z) + r^2 (xy + 5),  b = r (y + z) + r^2 (4 x^2 - yz)   (3-D, Lmax = 4) *)
Definition ex_a : expansion exZ := [(0, 0%nat, [2]); (1, 1%nat, [0; -3; 0; 1]); (2, 2%nat, [5; 0; 0; 0; 0; 0; 0; 0; 1; 0])].
Definition ex_b : expansion exZ := [(1, 1%nat, [0; 1; 1; 0]); (2, 2%nat, [0; 0; 0; 0; 0; -1; 0; 0; 0; 4])].
Definition ex_xs : list Z := [2; -1; 3].

Example ex_tables : pow2ind 3 4 [1;1;2]%nat = 26 /\ ind2pow 3 4 32 = [3;0;1]%nat /\ directmult 3 4 3 8 = 18 /\
                    directmult 3 4 20 1 = -1 /\ powlrange 3 4 = 35%nat /\ powlrange 2 4 = 15%nat.
Proof. vm_compute. repeat split. Qed.

Example ex_product :
  wfb Zring 3 4 exZ ex_a = true /\ wfb Zring 3 4 exZ ex_b = true /\
  E Zring 3 4 exZ ex_rad ex_xs (coeffproduct Zring 3 4 exZ exZ exZ Z.mul ex_a ex_b) =
  E Zring 3 4 exZ ex_rad ex_xs ex_a * E Zring 3 4 exZ ex_rad ex_xs ex_b /\
  E Zring 3 4 exZ ex_rad ex_xs ex_a * E Zring 3 4 exZ ex_rad ex_xs ex_b = 1416 /\
  length (coeffproduct Zring 3 4 exZ exZ exZ Z.mul ex_a ex_b) = 4%nat.
Proof. vm_compute. repeat split. Qed.

Example ex_sum :
  E Zring 3 4 exZ ex_rad ex_xs (sumcoeff Zring exZ 2 ex_a (-3) ex_b) =
  2 * E Zring 3 4 exZ ex_rad ex_xs ex_a + (-3) * E Zring 3 4 exZ ex_rad ex_xs ex_b /\
  E Zring 3 4 exZ ex_rad ex_xs (sumcoeff Zring exZ 2 ex_a (-3) ex_b) <> 0.
Proof. vm_compute. split; [reflexivity | discriminate]. Qed.

(* the hypothesis l_a + l_b <= Lmax of the product theorem cannot be dropped: beyond it the faithful
   model (directmult = -1 used as a numpy index, i.e. the last slot) gives a different value *)
Definition ex_c : expansion exZ := [(3, 3%nat, [0;0;0;0;0;0;0;0;0;0;0;0;0;0;0;0;0;0;0;1])].   (* r^3 x^3 *)
Example ex_product_overflow :
  wfb Zring 3 4 exZ ex_c = true /\
  E Zring 3 4 exZ ex_rad ex_xs (coeffproduct Zring 3 4 exZ exZ exZ Z.mul ex_c ex_c) <>
  E Zring 3 4 exZ ex_rad ex_xs ex_c * E Zring 3 4 exZ ex_rad ex_xs ex_c.
Proof. vm_compute. split; [reflexivity | discriminate]. Qed.

(* rotation: a non-orthogonal, non-symmetric A; a parity-consistent expansion including reduced
   (lower-degree) powers: r^2 (3 + xy),  r^3 (x - 2 y z^2 ... ) *)
Definition ex_A : list (list Z) := [[1; 2; 0]; [-1; 1; 3]; [2; 0; 1]].
Definition ex_r : expansion exZ :=
  [(2, 2%nat, [3; 0; 0; 0; 0; 0; 0; 0; 1; 0]);
   (3, 3%nat, [0; 0; 0; 1; 0; 0; 0; 0; 0; 0; 0; -2; 0; 0; 0; 0; 0; 0; 0; 5]);
   (4, 0%nat, [7])].
Example ex_rotate :
  forallb (parity_okb_entry Zring 3 4 exZ) ex_r = true /\
  match rotatecoeff Zring 3 4 exZ (rotatedirections Zring 3 4 ex_A) ex_r with
  | Some a' => Eh Zring 3 4 exZ ex_xs a' = Eh Zring 3 4 exZ (matvec (K:=Zring) ex_A ex_xs) ex_r /\ Eh Zring 3 4 exZ ex_xs a' = 50242
  | None => False
  end.
Proof. vm_compute. repeat split. Qed.

Example ex_neumann_Z :   (* A = 1, Ainv = 1, B = 5, k = 3 over Z: (1 - 5 + 25 - 125)(1 + 5) = 1 - 625 *)
  nseries Z 1 Z.add Z.mul (- (1 * 5)) 1 3 * (1 + 5) = 1 + - (npow Z 1 Z.mul (- (1 * 5)) 4).
Proof. vm_compute. reflexivity. Qed.
Local Close Scope Z_scope.

Theorem construct3D_series (K : ordring) (V : kmod K) (HV : modlaws K V) rad (xs : list K) (basis : list (V * list K)) N pre :
  length xs = 3 -> N <= 4 -> (forall cv, In cv basis -> length (snd cv) = 3) ->
  E K 3 4 V rad xs (construct K 3 4 V basis N pre) =
  msum K V (map (fun n => msmul V (rad (Z.of_nat n))
                  (msum K V (map (fun cv => msmul V (rmul K (pre n) (rpow (dot (snd cv) xs) n)) (fst cv)) basis)))
                (seq 0 (S N))).
Proof.
  intros Hx HN Hb. apply (E_construct K 3 V HV xs); [|exact HN | exact Hb].
  intros v n Hv Hn. apply multinom3; assumption.
Qed.

Theorem construct2D_series (K : ordring) (V : kmod K) (HV : modlaws K V) rad (xs : list K) (basis : list (V * list K)) N pre :
  length xs = 2 -> N <= 4 -> (forall cv, In cv basis -> length (snd cv) = 2) ->
  E K 2 4 V rad xs (construct K 2 4 V basis N pre) =
  msum K V (map (fun n => msmul V (rad (Z.of_nat n))
                  (msum K V (map (fun cv => msmul V (rmul K (pre n) (rpow (dot (snd cv) xs) n)) (fst cv)) basis)))
                (seq 0 (S N))).
Proof.
  intros Hx HN Hb. apply (E_construct K 2 V HV xs); [|exact HN | exact Hb].
  intros v n Hv Hn. apply multinom2; assumption.
Qed.

Theorem product_order_hypothesis_needed :
  exists (a : expansion (selfmod Zring)) (xs : list Z) (rad : Z -> Z),
    wf Zring 3 4 (selfmod Zring) a /\ (forall m n, (0 <= m)%Z -> (0 <= n)%Z -> rad (m + n)%Z = (rad m * rad n)%Z) /\
    E Zring 3 4 (selfmod Zring) rad xs (coeffproduct Zring 3 4 (selfmod Zring) (selfmod Zring) (selfmod Zring) Z.mul a a) <>
    (E Zring 3 4 (selfmod Zring) rad xs a * E Zring 3 4 (selfmod Zring) rad xs a)%Z.
Proof.
  exists ex_c, ex_xs, ex_rad. split; [apply wfb_sound; vm_compute; reflexivity|]. split.
  - intros m n Hm Hn. unfold ex_rad. apply Z.pow_add_r; assumption.
  - exact (proj2 ex_product_overflow).
Qed.

(* reduce / separate on a rational unit vector, K = Qc, dinv = 1/840 *)
Definition exQ := selfmod Qcring.
Definition q (a : Z) (b : positive) : Qcanon.Qc := Qcanon.Q2Qc (QArith_base.Qmake a b).
Definition exq_xs : list Qcring := [q 2 7; q 3 7; q 6 7].
Definition exq_a : expansion exQ :=
  [(2%Z, 2, [q 1 1; q 0 1; q 0 1; q 0 1; q 3 1; q 0 1; q (-2) 1; q 0 1; q 1 2; q 5 1]);
   (2%Z, 1, [q 0 1; q 1 1; q 0 1; q (-4) 1]);
   (4%Z, 4, repeat (q 0 1) 20 ++ [q 1 1; q 0 1; q 0 1; q 0 1; q 2 1; q 0 1; q 0 1; q 0 1; q 0 1; q 0 1; q 0 1; q 0 1; q 0 1; q 0 1; q (-3) 1])].
Example ex_reduce :
  let rad : Z -> Qcring := fun n : Z => q n 1 in
  let dinv : Qcring := q 1 840 in
  let P := LprojKall Qcring 3 4 dinv in
  reqb Qcring (dot (K:=Qcring) exq_xs exq_xs) (q 1 1) = true /\
  reqb Qcring (rmul Qcring (zinj (Dden 3)) dinv) (q 1 1) = true /\
  wfb Qcring 3 4 exQ exq_a = true /\
  reqb Qcring (E Qcring 3 4 exQ rad exq_xs (reduce Qcring 3 exQ P exq_a)) (E Qcring 3 4 exQ rad exq_xs exq_a) = true /\
  reqb Qcring (E Qcring 3 4 exQ rad exq_xs (separatecoeff Qcring 3 exQ (LprojK Qcring 3 dinv) (reduce Qcring 3 exQ P exq_a)))
              (E Qcring 3 4 exQ rad exq_xs exq_a) = true /\
  reqb Qcring (E Qcring 3 4 exQ rad exq_xs exq_a) (q 0 1) = false /\
  length (reduce Qcring 3 exQ P exq_a) = 2 /\
  length (separatecoeff Qcring 3 exQ (LprojK Qcring 3 dinv) (reduce Qcring 3 exQ P exq_a)) = 5.
Proof. vm_compute. repeat split. Qed.
