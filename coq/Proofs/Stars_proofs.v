(* Proofs about Model/Stars.v (C24): the shell-by-shell enumeration is sound, complete and
   duplicate free for every jump list and every N; S(N1)+S(N2) = S(N1+N2); diffgenerate
   contains exactly the endpoint differences; soundness of the star / index / lookup checkers. *)
From Coq Require Import List ZArith Bool Arith Lia Wf_nat FinFun.
From Onsager Require Import Model.Stars.
Import ListNotations.

(* ---- equality tests --------------------------------------------------------------------- *)
Lemma veqb_spec a b : veqb a b = true <-> a = b.
Proof.
  destruct a as [[a1 a2] a3], b as [[b1 b2] b3]; unfold veqb.
  destruct (Z.eqb_spec a1 b1), (Z.eqb_spec a2 b2), (Z.eqb_spec a3 b3);
    split; intro H; try discriminate; try reflexivity; try (inversion H; congruence); subst; reflexivity.
Qed.

Lemma ps_eqb_spec a b : ps_eqb a b = true <-> a = b.
Proof.
  destruct a as [ai aj aR], b as [bi bj bR]; unfold ps_eqb; cbn [pi pj pR].
  destruct (Nat.eqb_spec ai bi), (Nat.eqb_spec aj bj); try (split; [discriminate | intro H; inversion H; congruence]).
  rewrite veqb_spec. split; intro H; [subst; reflexivity | inversion H; reflexivity].
Qed.

Lemma ps_eqb_refl a : ps_eqb a a = true.
Proof. apply ps_eqb_spec; reflexivity. Qed.

Lemma mem_spec s l : mem s l = true <-> In s l.
Proof.
  induction l as [|a l IH]; cbn [mem In]; [split; [discriminate | tauto]|].
  destruct (ps_eqb s a) eqn:E.
  - apply ps_eqb_spec in E; subst; tauto.
  - rewrite IH. split; [tauto|]. intros [H|H]; [|exact H]. subst. rewrite ps_eqb_refl in E; discriminate.
Qed.

Lemma mem_false s l : mem s l = false <-> ~ In s l.
Proof. rewrite <- mem_spec. destruct (mem s l); split; congruence. Qed.

Lemma memn_spec x l : memn x l = true <-> In x l.
Proof.
  induction l as [|a l IH]; cbn [memn In]; [split; [discriminate | tauto]|].
  destruct (Nat.eqb_spec x a); [subst; tauto|]. rewrite IH. split; [tauto|]. intros [H|H]; [congruence | exact H].
Qed.

(* ---- dedup_into ---------------------------------------------------------------------------- *)
Lemma dedup_into_In l : forall acc x, In x (dedup_into acc l) <-> In x acc \/ In x l.
Proof.
  induction l as [|s l IH]; intros acc x; cbn [dedup_into In]; [tauto|].
  rewrite IH. destruct (mem s acc) eqn:E.
  - apply mem_spec in E. split; [tauto|]. intros [H|[H|H]]; [tauto | subst; tauto | tauto].
  - cbn [In]. split.
    + intros [[H|H]|H]; [subst; tauto | tauto | tauto].
    + intros [H|[H|H]]; [tauto | subst; tauto | tauto].
Qed.

Lemma dedup_into_NoDup l : forall acc, NoDup acc -> NoDup (dedup_into acc l).
Proof.
  induction l as [|s l IH]; intros acc H; cbn [dedup_into]; [exact H|].
  apply IH. destruct (mem s acc) eqn:E; [exact H|]. constructor; [apply mem_false; exact E | exact H].
Qed.

Lemma nodupb_spec l : nodupb l = true -> NoDup l.
Proof.
  induction l as [|a l IH]; cbn [nodupb]; intro H; [constructor|].
  destruct (mem a l) eqn:E; [discriminate|]. constructor; [apply mem_false; exact E | apply IH; exact H].
Qed.

Lemma subsetb_spec a b : subsetb a b = true <-> incl a b.
Proof.
  unfold subsetb. rewrite forallb_forall. unfold incl.
  split; intros H s Hs; [apply mem_spec | apply mem_spec]; apply H; exact Hs.
Qed.

Lemma sameb_spec a b : sameb a b = true <-> (forall s, In s a <-> In s b).
Proof.
  unfold sameb. rewrite andb_true_iff, !subsetb_spec. unfold incl. split.
  - intros [H1 H2] s; split; [apply H1 | apply H2].
  - intro H; split; intros s Hs; apply H; exact Hs.
Qed.

(* ---- vector / pair-state algebra ---------------------------------------------------------- *)
Lemma vadd_zero_l v : vadd vzero v = v.
Proof. destruct v as [[a b] c]; unfold vadd, vzero; f_equal. Qed.
Lemma vadd_zero_r v : vadd v vzero = v.
Proof. destruct v as [[a b] c]; unfold vadd, vzero. rewrite !Z.add_0_r. reflexivity. Qed.
Lemma vadd_assoc a b c : vadd (vadd a b) c = vadd a (vadd b c).
Proof.
  destruct a as [[a1 a2] a3], b as [[b1 b2] b3], c as [[c1 c2] c3]; unfold vadd.
  rewrite !Z.add_assoc. reflexivity.
Qed.

Lemma padd_assoc a b c : padd (padd a b) c = padd a (padd b c).
Proof. unfold padd; cbn [pi pj pR]. rewrite vadd_assoc. reflexivity. Qed.

Lemma iszero_spec s : iszero s = true <-> pi s = pj s /\ pR s = vzero.
Proof.
  unfold iszero. destruct (Nat.eqb_spec (pi s) (pj s)).
  - rewrite veqb_spec. tauto.
  - split; [discriminate | tauto].
Qed.

Lemma padd_zero_l p q : iszero p = true -> pj p = pi q -> padd p q = q.
Proof.
  intros Hz Hm. apply iszero_spec in Hz. destruct Hz as [Hi HR].
  destruct q as [qi qj qR]. unfold padd; cbn [pi pj pR] in *. rewrite HR, vadd_zero_l. f_equal. congruence.
Qed.

Lemma padd_zero_r p q : iszero q = true -> pj p = pi q -> padd p q = p.
Proof.
  intros Hz Hm. apply iszero_spec in Hz. destruct Hz as [Hi HR].
  destruct p as [pi0 pj0 pR0]. unfold padd; cbn [pi pj pR] in *. rewrite HR, vadd_zero_r. f_equal. congruence.
Qed.

Lemma iszero_zero i : iszero (zero i) = true.
Proof. apply iszero_spec; split; reflexivity. Qed.

(* ---- step / next ---------------------------------------------------------------------------- *)
Lemma step_spec jumps sh s :
  In s (step jumps sh) <->
  exists s1 s2, In s1 sh /\ In s2 jumps /\ pj s1 = pi s2 /\ s = padd s1 s2 /\ iszero s = false.
Proof.
  unfold step. rewrite in_flat_map. split.
  - intros [s1 [H1 H]]. apply in_flat_map in H. destruct H as [s2 [H2 H]].
    destruct (Nat.eqb_spec (pj s1) (pi s2)) as [E|E]; [|destruct H].
    cbv zeta in H. destruct (iszero (padd s1 s2)) eqn:Z; [destruct H|].
    destruct H as [H|[]]. subst s. exists s1, s2. tauto.
  - intros [s1 [s2 [H1 [H2 [E [Hs Z]]]]]]. exists s1. split; [exact H1|].
    apply in_flat_map. exists s2. split; [exact H2|].
    destruct (Nat.eqb_spec (pj s1) (pi s2)); [|contradiction]. cbv zeta. subst s. rewrite Z. left; reflexivity.
Qed.

Lemma next_spec jumps sh s :
  In s (next jumps sh) <->
  exists s1 s2, In s1 sh /\ In s2 jumps /\ pj s1 = pi s2 /\ s = padd s1 s2 /\ iszero s = false.
Proof. unfold next. rewrite dedup_into_In. rewrite step_spec. cbn [In]. tauto. Qed.

Lemma next_NoDup jumps sh : NoDup (next jumps sh).
Proof. apply dedup_into_NoDup; constructor. Qed.

(* ---- paths ------------------------------------------------------------------------------------ *)
Section Reach.
Variable jumps : list ps.
Hypothesis jumps_nz : forall j, In j jumps -> iszero j = false.

Lemma path_pos k s : path jumps k s -> 1 <= k.
Proof. induction 1; lia. Qed.

Lemma spath_pos k s : spath jumps k s -> 1 <= k.
Proof. induction 1; lia. Qed.

Lemma path_inv k s : path jumps k s ->
  (k = 1 /\ In s jumps) \/
  (exists k' s' j, k = S k' /\ path jumps k' s' /\ In j jumps /\ pj s' = pi j /\ s = padd s' j).
Proof.
  destruct 1 as [j Hj | k s j Hp Hj E]; [left; tauto|].
  right. exists k, s, j. tauto.
Qed.

Lemma spath_path k s : spath jumps k s -> path jumps k s /\ iszero s = false.
Proof.
  induction 1 as [j Hj Hz | k s j Hs [IH1 IH2] Hj E Hz].
  - split; [constructor; exact Hj | exact Hz].
  - split; [constructor; assumption | exact Hz].
Qed.

(* a path through a zero state can be shortened: paths through zero add nothing *)
Lemma path_spath k s : path jumps k s -> iszero s = false ->
  exists k', 1 <= k' <= k /\ spath jumps k' s.
Proof.
  induction 1 as [j Hj | k s j Hp IH Hj E]; intro Hz.
  - exists 1. split; [lia | constructor; assumption].
  - destruct (iszero s) eqn:Zs.
    + rewrite (padd_zero_l s j Zs E). exists 1. pose proof (path_pos _ _ Hp). split; [lia|].
      constructor; [exact Hj | apply jumps_nz; exact Hj].
    + destruct (IH eq_refl) as [k' [Hk Hs]]. exists (S k'). split; [lia|]. constructor; assumption.
Qed.

Lemma spath_inv_S k s : 1 <= k -> spath jumps (S k) s ->
  exists s' j, spath jumps k s' /\ In j jumps /\ pj s' = pi j /\ s = padd s' j /\ iszero s = false.
Proof.
  intros Hk H. inversion H as [j Hj Hz Ek Es | k0 s' j Hs Hj E Hz Ek Es]; subst.
  - lia.
  - exists s', j. tauto.
Qed.

Lemma next_spath last k : 1 <= k -> (forall s, In s last <-> spath jumps k s) ->
  forall s, In s (next jumps last) <-> spath jumps (S k) s.
Proof.
  intros Hk Hl s. rewrite next_spec. split.
  - intros [s1 [s2 [H1 [H2 [E [Hs Hz]]]]]]. subst s. apply Hl in H1. constructor; assumption.
  - intro H. destruct (spath_inv_S k s Hk H) as [s' [j [H1 [H2 [E [Hs Hz]]]]]].
    exists s', j. rewrite Hl. tauto.
Qed.

Lemma grow_spec n : forall k last acc, 1 <= k -> (forall s, In s last <-> spath jumps k s) ->
  forall s, In s (grow jumps n last acc) <-> In s acc \/ exists m, k < m <= k + n /\ spath jumps m s.
Proof.
  induction n as [|n IH]; intros k last acc Hk Hl s; cbn [grow].
  - split; [tauto|]. intros [H|[m [Hm _]]]; [exact H | lia].
  - cbv zeta. rewrite (IH (S k) (next jumps last)); [| lia | apply next_spath; assumption].
    rewrite dedup_into_In. rewrite (next_spath last k Hk Hl s). split.
    + intros [[H|H]|[m [Hm H]]]; [tauto | right; exists (S k); split; [lia | exact H] | right; exists m; split; [lia | exact H]].
    + intros [H|[m [Hm H]]]; [tauto|].
      destruct (Nat.eq_dec m (S k)) as [->|Ne]; [tauto|]. right. exists m. split; [lia | exact H].
Qed.

Lemma grow_NoDup n : forall last acc, NoDup acc -> NoDup (grow jumps n last acc).
Proof.
  induction n as [|n IH]; intros last acc H; cbn [grow]; [exact H|].
  apply IH. apply dedup_into_NoDup. exact H.
Qed.

Lemma shell1_spec s : In s (dedup_into [] jumps) <-> spath jumps 1 s.
Proof.
  rewrite dedup_into_In. cbn [In]. split.
  - intros [[]|H]. constructor; [exact H | apply jumps_nz; exact H].
  - intro H. right. inversion H as [j Hj Hz Ek Es | k0 s' j Hs Hj E Hz Ek Es]; subst; [exact Hj|].
    apply spath_pos in Hs. lia.
Qed.

Lemma states_spec nsites N origin s :
  In s (states jumps nsites N origin) <->
  (exists m, 1 <= m <= N /\ spath jumps m s) \/ (origin = true /\ exists i, i < nsites /\ s = zero i).
Proof.
  assert (Ho : In s (origins nsites) <-> exists i, i < nsites /\ s = zero i).
  { unfold origins. rewrite in_map_iff. split.
    - intros [i [E Hi]]. apply in_seq in Hi. exists i. split; [lia | congruence].
    - intros [i [Hi E]]. exists i. split; [congruence | apply in_seq; lia]. }
  destruct N as [|n]; cbn [states].
  - destruct origin.
    + rewrite Ho. split; [intro H; right; tauto|]. intros [[m [Hm _]]|[_ H]]; [lia | exact H].
    + cbn [In]. split; [tauto|]. intros [[m [Hm _]]|[H _]]; [lia | discriminate].
  - cbv zeta. rewrite (grow_spec n 1 _ _ (le_n 1) shell1_spec). rewrite dedup_into_In, shell1_spec.
    split.
    + intros [[H|H]|[m [Hm H]]].
      * left. exists 1. split; [lia | exact H].
      * destruct origin; [right; split; [reflexivity | apply Ho; exact H] | destruct H].
      * left. exists m. split; [lia | exact H].
    + intros [[m [Hm H]]|[Eo H]].
      * destruct (Nat.eq_dec m 1) as [->|Ne]; [tauto|]. right. exists m. split; [lia | exact H].
      * subst origin. left. right. apply Ho. exact H.
Qed.

(* soundness and completeness of the enumeration, for every N *)
Theorem reach_path N s :
  In s (reach jumps N) <-> iszero s = false /\ exists k, 1 <= k <= N /\ path jumps k s.
Proof.
  unfold reach. rewrite states_spec. split.
  - intros [[m [Hm H]]|[H _]]; [|discriminate].
    apply spath_path in H. destruct H as [Hp Hz]. split; [exact Hz|]. exists m. tauto.
  - intros [Hz [k [Hk Hp]]]. left. destruct (path_spath k s Hp Hz) as [k' [Hk' Hs]].
    exists k'. split; [lia | exact Hs].
Qed.

Theorem states_path nsites N origin s :
  In s (states jumps nsites N origin) <->
  (iszero s = false /\ exists k, 1 <= k <= N /\ path jumps k s) \/
  (origin = true /\ exists i, i < nsites /\ s = zero i).
Proof.
  rewrite <- reach_path. unfold reach. rewrite !states_spec. split.
  - intros [H|H]; [left; left; exact H | right; exact H].
  - intros [[H|[H _]]|H]; [left; exact H | discriminate | right; exact H].
Qed.

Theorem states_NoDup nsites N origin : NoDup (states jumps nsites N origin).
Proof.
  destruct N as [|n]; cbn [states].
  - destruct origin; [|constructor]. unfold origins.
    apply FinFun.Injective_map_NoDup; [|apply seq_NoDup]. intros a b H. inversion H. reflexivity.
  - cbv zeta. apply grow_NoDup. apply dedup_into_NoDup. apply dedup_into_NoDup. constructor.
Qed.

Lemma reach_mono N M s : N <= M -> In s (reach jumps N) -> In s (reach jumps M).
Proof.
  intros H. rewrite !reach_path. intros [Hz [k [Hk Hp]]]. split; [exact Hz|]. exists k. split; [lia | exact Hp].
Qed.

(* ---- concatenation and splitting of paths ---------------------------------------------- *)
Lemma path_app k1 p : path jumps k1 p -> forall k2 q, path jumps k2 q -> pj p = pi q ->
  path jumps (k1 + k2) (padd p q).
Proof.
  intros Hp k2 q Hq. induction Hq as [j Hj | k s j Hs IH Hj E]; intro Hm.
  - replace (k1 + 1) with (S k1) by lia. constructor; assumption.
  - replace (k1 + S k) with (S (k1 + k)) by lia. rewrite <- padd_assoc.
    constructor; [apply IH; exact Hm | exact Hj | exact E].
Qed.

Lemma path_split k1 : 1 <= k1 -> forall k2, 1 <= k2 -> forall s, path jumps (k1 + k2) s ->
  exists p q, path jumps k1 p /\ path jumps k2 q /\ pj p = pi q /\ s = padd p q.
Proof.
  intros H1 k2. induction k2 as [|k2 IH]; intros H2 s Hp; [lia|].
  destruct (path_inv _ _ Hp) as [[E _]|[k' [s' [j [Ek [Hs' [Hj [E Es]]]]]]]]; [lia|].
  assert (k' = k1 + k2) by lia. subst k'.
  destruct (Nat.eq_dec k2 0) as [->|Nz].
  - replace (k1 + 0) with k1 in Hs' by lia. exists s', j. repeat split; try assumption. constructor; exact Hj.
  - destruct (IH ltac:(lia) s' Hs') as [p [q [Hp1 [Hq [Em Eq]]]]].
    exists p, (padd q j). repeat split.
    + exact Hp1.
    + constructor; [exact Hq | exact Hj |]. subst s'. exact E.
    + exact Em.
    + subst s s'. apply padd_assoc.
Qed.

(* the semantics of StarSet.__add__: S(N1+N2) = S(N1) u { p + q <> 0 : p in S(N1), q in S(N2) } *)
Theorem reach_add N1 N2 s : 1 <= N1 -> 1 <= N2 ->
  (In s (reach jumps (N1 + N2)) <->
   In s (reach jumps N1) \/
   exists p q, In p (reach jumps N1) /\ In q (reach jumps N2) /\ pj p = pi q /\ s = padd p q /\ iszero s = false).
Proof.
  intros H1 H2. split.
  - rewrite (reach_path (N1 + N2)). intros [Hz [k [Hk Hp]]]. revert s Hz Hk Hp.
    induction k as [k IH] using lt_wf_ind. intros s Hz Hk Hp.
    destruct (le_lt_dec k N1) as [Hle|Hgt].
    + left. apply reach_path. split; [exact Hz|]. exists k. split; [lia | exact Hp].
    + replace k with (N1 + (k - N1)) in Hp by lia.
      destruct (path_split N1 H1 (k - N1) ltac:(lia) s Hp) as [p [q [Hp1 [Hq [Em Es]]]]].
      destruct (iszero p) eqn:Zp.
      * rewrite (padd_zero_l p q Zp Em) in Es. subst q.
        apply (IH (k - N1)); [lia | exact Hz | lia | exact Hq].
      * destruct (iszero q) eqn:Zq.
        -- rewrite (padd_zero_r p q Zq Em) in Es. subst p. left. apply reach_path.
           split; [exact Hz|]. exists N1. split; [lia | exact Hp1].
        -- right. exists p, q. repeat split; try assumption.
           ++ apply reach_path. split; [exact Zp|]. exists N1. split; [lia | exact Hp1].
           ++ apply reach_path. split; [exact Zq|]. exists (k - N1). split; [lia | exact Hq].
  - intros [H|[p [q [Hp [Hq [Em [Es Hz]]]]]]].
    + apply (reach_mono N1); [lia | exact H].
    + apply reach_path in Hp. apply reach_path in Hq.
      destruct Hp as [_ [k1 [Hk1 Hp]]]. destruct Hq as [_ [k2 [Hk2 Hq]]].
      apply reach_path. split; [exact Hz|]. exists (k1 + k2). split; [lia|]. subst s. apply path_app; assumption.
Qed.

End Reach.

(* ---- sadd (StarSet.__iadd__) ---------------------------------------------------------------- *)
Lemma sums_spec l1 l2 s :
  In s (sums l1 l2) <-> exists p q, In p l1 /\ In q l2 /\ pj p = pi q /\ s = padd p q.
Proof.
  unfold sums. rewrite in_flat_map. split.
  - intros [p [Hp H]]. apply in_flat_map in H. destruct H as [q [Hq H]].
    destruct (Nat.eqb_spec (pj p) (pi q)) as [E|E]; [|destruct H]. destruct H as [H|[]].
    exists p, q. repeat split; try assumption. congruence.
  - intros [p [q [Hp [Hq [E Es]]]]]. exists p. split; [exact Hp|]. apply in_flat_map. exists q. split; [exact Hq|].
    destruct (Nat.eqb_spec (pj p) (pi q)); [left; congruence | contradiction].
Qed.

Lemma sadd_spec l1 l2 s :
  In s (sadd l1 l2) <->
  In s l1 \/ (iszero s = false /\ exists p q, In p l1 /\ In q l2 /\ pj p = pi q /\ s = padd p q).
Proof.
  unfold sadd. rewrite in_app_iff, dedup_into_In, filter_In, sums_spec. cbn [In]. split.
  - intros [H|[[]|[H F]]]; [tauto|]. right. destruct (iszero s); [discriminate | tauto].
  - intros [H|[Hz H]]; [tauto|]. destruct (mem s l1) eqn:M.
    + left. apply mem_spec; exact M.
    + right. right. split; [exact H|]. rewrite Hz. reflexivity.
Qed.

Lemma NoDup_app_disj {A} (a b : list A) : NoDup a -> NoDup b -> (forall x, In x a -> ~ In x b) -> NoDup (a ++ b).
Proof.
  induction a as [|x a IH]; intros Ha Hb Hd; cbn [app]; [exact Hb|].
  inversion Ha as [|x' a' Hx Ha']; subst. constructor.
  - rewrite in_app_iff. intros [H|H]; [contradiction | apply (Hd x); [left; reflexivity | exact H]].
  - apply IH; [exact Ha' | exact Hb |]. intros y Hy. apply Hd. right; exact Hy.
Qed.

Lemma sadd_NoDup l1 l2 : NoDup l1 -> NoDup (sadd l1 l2).
Proof.
  intro H. unfold sadd. apply NoDup_app_disj; [exact H | apply dedup_into_NoDup; constructor |].
  intros x Hx Hd. apply dedup_into_In in Hd. destruct Hd as [[]|Hd]. apply filter_In in Hd.
  destruct Hd as [_ F]. destruct (iszero x); [discriminate|]. apply negb_true_iff in F. apply mem_false in F. contradiction.
Qed.

Theorem sadd_states jumps nsites N1 N2 o1 o2 :
  (forall j, In j jumps -> iszero j = false) -> 1 <= N1 -> 1 <= N2 ->
  forall s, In s (sadd (states jumps nsites N1 o1) (states jumps nsites N2 o2)) <->
            In s (states jumps nsites (N1 + N2) o1).
Proof.
  intros Hnz H1 H2 s. rewrite sadd_spec.
  assert (SP : forall N o x, In x (states jumps nsites N o) <->
              In x (reach jumps N) \/ (o = true /\ exists i, i < nsites /\ x = zero i)).
  { intros N o x. rewrite (states_path jumps Hnz), (reach_path jumps Hnz). tauto. }
  assert (RZ : forall N x, In x (reach jumps N) -> iszero x = false).
  { intros N x Hx. apply (reach_path jumps Hnz) in Hx. tauto. }
  rewrite (SP (N1 + N2)). split.
  - intros [H|[Hz [p [q [Hp [Hq [Em Es]]]]]]].
    + apply SP in H. destruct H as [H|H]; [left; apply (reach_mono jumps Hnz N1); [lia | exact H] | right; exact H].
    + left. apply SP in Hp. apply SP in Hq.
      destruct Hp as [Hp|[_ [i [_ Ep]]]]; destruct Hq as [Hq|[_ [i' [_ Eq]]]].
      * apply (reach_add jumps Hnz N1 N2 s H1 H2). right. exists p, q. tauto.
      * rewrite (padd_zero_r p q) in Es; [|subst q; apply iszero_zero | exact Em]. subst s.
        apply (reach_mono jumps Hnz N1); [lia | exact Hp].
      * rewrite (padd_zero_l p q) in Es; [|subst p; apply iszero_zero | exact Em]. subst s.
        apply (reach_mono jumps Hnz N2); [lia | exact Hq].
      * rewrite (padd_zero_l p q) in Es; [|subst p; apply iszero_zero | exact Em]. subst s q.
        rewrite iszero_zero in Hz. discriminate.
  - intros [H|H].
    + apply (reach_add jumps Hnz N1 N2 s H1 H2) in H. destruct H as [H|[p [q [Hp [Hq [Em [Es Hz]]]]]]].
      * left. apply SP. tauto.
      * right. split; [exact Hz|]. exists p, q. rewrite !SP. tauto.
    + left. apply SP. tauto.
Qed.

(* ---- diffgenerate ------------------------------------------------------------------------------ *)
Theorem diffgen_spec l1 l2 s :
  In s (diffgen l1 l2) <-> exists s1 s2, In s1 l1 /\ In s2 l2 /\ pi s1 = pi s2 /\ s = pxor s2 s1.
Proof.
  unfold diffgen. rewrite dedup_into_In, in_flat_map. cbn [In]. split.
  - intros [[]|[s1 [H1 H]]]. apply in_flat_map in H. destruct H as [s2 [H2 H]].
    destruct (Nat.eqb_spec (pi s1) (pi s2)) as [E|E]; [|destruct H]. destruct H as [H|[]].
    exists s1, s2. repeat split; try assumption. congruence.
  - intros [s1 [s2 [H1 [H2 [E Es]]]]]. right. exists s1. split; [exact H1|]. apply in_flat_map.
    exists s2. split; [exact H2|]. destruct (Nat.eqb_spec (pi s1) (pi s2)); [left; congruence | contradiction].
Qed.

Lemma diffgen_NoDup l1 l2 : NoDup (diffgen l1 l2).
Proof. apply dedup_into_NoDup; constructor. Qed.

(* ---- stars: partition into complete orbits ----------------------------------------------- *)
Lemma owners_spec stars x k : In k (owners stars x) <-> k < length stars /\ In x (nth k stars []).
Proof.
  unfold owners. rewrite filter_In, in_seq, memn_spec. split; intros [H1 H2]; split; try assumption; lia.
Qed.

Lemma partition_okb_spec n stars : partition_okb n stars = true ->
  forall x, x < n -> exists k, (k < length stars /\ In x (nth k stars [])) /\
                              forall k', k' < length stars -> In x (nth k' stars []) -> k' = k.
Proof.
  unfold partition_okb. rewrite forallb_forall. intros H x Hx.
  specialize (H x ltac:(apply in_seq; lia)).
  destruct (owners stars x) as [|k [|k2 rest]] eqn:E; try discriminate.
  exists k. split.
  - apply owners_spec. rewrite E. left; reflexivity.
  - intros k' Hk' Hin. assert (Hk : In k' (owners stars x)) by (apply owners_spec; tauto).
    rewrite E in Hk. destruct Hk as [Hk|[]]. congruence.
Qed.

Lemma star_okb_spec ops sts star : star_okb ops sts star = true ->
  exists r, hd_error star = Some r /\
    (forall x, In x star -> x < length sts) /\
    (forall s, (exists x, In x star /\ getst sts x = s) <-> (exists g, In g ops /\ s = gact g (getst sts r))).
Proof.
  unfold star_okb. destruct star as [|r rest]; [discriminate|].
  set (star := r :: rest). rewrite !andb_true_iff, !forallb_forall. intros [[Hv Hc] Ho].
  exists r. split; [reflexivity|]. split.
  - intros x Hx. apply Nat.ltb_lt. apply Hv; exact Hx.
  - intro s. split.
    + intros [x [Hx Es]]. assert (Hs : In s (map (getst sts) star)) by (apply in_map_iff; exists x; tauto).
      specialize (Ho s Hs). apply existsb_exists in Ho. destruct Ho as [g [Hg E]].
      apply ps_eqb_spec in E. exists g; tauto.
    + intros [g [Hg Es]]. assert (Hr : In (getst sts r) (map (getst sts) star)) by (apply in_map; left; reflexivity).
      specialize (Hc _ Hr). rewrite forallb_forall in Hc. specialize (Hc g Hg).
      apply mem_spec in Hc. apply in_map_iff in Hc. destruct Hc as [x [Ex Hx]]. exists x. split; [exact Hx | congruence].
Qed.

(* soundness of the star checker: the stars partition the (distinct) states, each star is
   exactly the orbit of its first member under the operation list *)
Theorem stars_okb_sound ops sts stars : stars_okb ops sts stars = true ->
  NoDup sts /\
  (forall x, x < length sts -> exists k, (k < length stars /\ In x (nth k stars [])) /\
                              forall k', k' < length stars -> In x (nth k' stars []) -> k' = k) /\
  (forall k, k < length stars -> exists r, hd_error (nth k stars []) = Some r /\
      (forall x, In x (nth k stars []) -> x < length sts) /\
      (forall s, (exists x, In x (nth k stars []) /\ getst sts x = s) <->
                 (exists g, In g ops /\ s = gact g (getst sts r)))).
Proof.
  unfold stars_okb. rewrite !andb_true_iff. intros [[Hn Hp] Hs].
  split; [apply nodupb_spec; exact Hn|]. split; [apply partition_okb_spec; exact Hp|].
  intros k Hk. rewrite forallb_forall in Hs. apply star_okb_spec. apply Hs. apply nth_In. exact Hk.
Qed.

(* the orbit of every state stays inside the state list *)
Corollary stars_closed ops sts stars : stars_okb ops sts stars = true ->
  forall x g, x < length sts -> In g ops -> In (gact g (getst sts x)) sts.
Proof.
  intros H x g Hx Hg. destruct (stars_okb_sound _ _ _ H) as [_ [Hp Hs]].
  destruct (Hp x Hx) as [k [[Hk Hin] _]]. clear Hp.
  unfold stars_okb in H. rewrite !andb_true_iff in H. destruct H as [_ H]. rewrite forallb_forall in H.
  specialize (H (nth k stars []) (nth_In _ _ Hk)). unfold star_okb in H.
  destruct (nth k stars []) as [|r rest] eqn:E; [discriminate|].
  rewrite !andb_true_iff, !forallb_forall in H. destruct H as [[Hv Hc] _].
  assert (Hx' : In (getst sts x) (map (getst sts) (r :: rest))) by (apply in_map; exact Hin).
  specialize (Hc _ Hx'). rewrite forallb_forall in Hc. specialize (Hc g Hg). apply mem_spec in Hc.
  apply in_map_iff in Hc. destruct Hc as [y [Ey Hy]]. rewrite <- Ey. unfold getst. apply nth_In.
  apply Nat.ltb_lt. apply Hv. exact Hy.
Qed.

Theorem index_okb_sound n stars index : partition_okb n stars = true -> index_okb n stars index = true ->
  length index = n /\
  forall x k, x < n -> k < length stars -> (nth x index 0 = k <-> In x (nth k stars [])).
Proof.
  intros Hp. unfold index_okb. rewrite andb_true_iff, forallb_forall. intros [Hl Hi].
  apply Nat.eqb_eq in Hl. split; [exact Hl|]. intros x k Hx Hk.
  specialize (Hi x ltac:(apply in_seq; lia)). apply memn_spec in Hi.
  destruct (partition_okb_spec n stars Hp x Hx) as [k0 [[Hk0 Hin0] Hu]].
  assert (Hlt : nth x index 0 < length stars).
  { destruct (le_lt_dec (length stars) (nth x index 0)) as [Hge|Hlt]; [|exact Hlt].
    rewrite (nth_overflow stars [] Hge) in Hi. destruct Hi. }
  split.
  - intro E. subst k. exact Hi.
  - intro Hin. rewrite (Hu _ Hlt Hi). symmetry. apply Hu; assumption.
Qed.

(* ---- lookups ---------------------------------------------------------------------------------- *)
Lemma sindex_from_spec s l : forall k,
  match sindex_from k s l with
  | Some x => k <= x /\ nth_error l (x - k) = Some s
  | None => ~ In s l
  end.
Proof.
  induction l as [|a l IH]; intro k; cbn [sindex_from]; [tauto|].
  destruct (ps_eqb s a) eqn:E.
  - apply ps_eqb_spec in E. subst. split; [lia|]. replace (k - k) with 0 by lia. reflexivity.
  - specialize (IH (S k)). destruct (sindex_from (S k) s l) as [x|].
    + destruct IH as [H1 H2]. split; [lia|]. replace (x - k) with (S (x - S k)) by lia. exact H2.
    + cbn [In]. intros [H|H]; [subst; rewrite ps_eqb_refl in E; discriminate | contradiction].
Qed.

Lemma NoDup_nth_error_inj {A} (l : list A) x y a : NoDup l -> nth_error l x = Some a -> nth_error l y = Some a -> x = y.
Proof.
  intros Hn Hx Hy. apply (proj1 (NoDup_nth_error l) Hn); [apply nth_error_Some; congruence | congruence].
Qed.

Theorem lookups_okb_sound sts index qs : NoDup sts -> lookups_okb sts index qs = true ->
  forall s a b, In (s, a, b) qs ->
    (forall x, a = Some x <-> nth_error sts x = Some s) /\
    (a = None <-> ~ In s sts) /\
    b = match a with Some x => Some (nth x index 0) | None => None end.
Proof.
  intros Hn. unfold lookups_okb. rewrite forallb_forall. intros H s a b Hq. specialize (H _ Hq). cbv beta iota in H.
  apply andb_true_iff in H. destruct H as [Ha Hb]. unfold sindex in *.
  pose proof (sindex_from_spec s sts 0) as Hs.
  destruct (sindex_from 0 s sts) as [x0|].
  - destruct Hs as [_ Hs]. rewrite Nat.sub_0_r in Hs.
    destruct a as [x|]; [|discriminate]. apply Nat.eqb_eq in Ha. subst x0.
    destruct b as [y|]; [|discriminate]. apply Nat.eqb_eq in Hb. subst y.
    split; [|split; [|reflexivity]].
    + intro x'. split; [intro E; inversion E; subst; exact Hs|]. intro E. f_equal. eapply NoDup_nth_error_inj; eassumption.
    + split; [discriminate|]. intro Hc. exfalso. apply Hc. eapply nth_error_In; exact Hs.
  - destruct a; [discriminate|]. destruct b; [discriminate|].
    split; [|split; [tauto | reflexivity]].
    intro x. split; [discriminate|]. intro E. exfalso. apply Hs. eapply nth_error_In; exact E.
Qed.

(* ---- what a zero result of the correspondence runner means ------------------------------- *)
Lemma jumps_okb_spec jumps : jumps_okb jumps = true -> forall j, In j jumps -> iszero j = false.
Proof.
  unfold jumps_okb. rewrite forallb_forall. intros H j Hj. specialize (H j Hj). apply negb_true_iff in H. exact H.
Qed.

Theorem run_starset_sound jumps nsites N origin ops ists istars iindex qs :
  run_starset jumps nsites N origin ops ists istars iindex qs = 0 ->
  (* the implementation's state list is exactly the reachable set (+ origin states) *)
  (forall s, In s ists <->
     (iszero s = false /\ exists k, 1 <= k <= N /\ path jumps k s) \/
     (origin = true /\ exists i, i < nsites /\ s = zero i)) /\
  NoDup ists /\
  (* its stars partition the states into complete orbits *)
  (forall x, x < length ists -> exists k, (k < length istars /\ In x (nth k istars [])) /\
                              forall k', k' < length istars -> In x (nth k' istars []) -> k' = k) /\
  (forall k, k < length istars -> exists r, hd_error (nth k istars []) = Some r /\
      (forall x, In x (nth k istars []) -> x < length ists) /\
      (forall s, (exists x, In x (nth k istars []) /\ getst ists x = s) <->
                 (exists g, In g ops /\ s = gact g (getst ists r)))) /\
  (* index and lookups *)
  (forall x k, x < length ists -> k < length istars -> (nth x iindex 0 = k <-> In x (nth k istars []))) /\
  (forall s a b, In (s, a, b) qs ->
    (forall x, a = Some x <-> nth_error ists x = Some s) /\ (a = None <-> ~ In s ists) /\
    b = match a with Some x => Some (nth x iindex 0) | None => None end).
Proof.
  unfold run_starset.
  destruct (jumps_okb jumps) eqn:Hj; cbn [negb]; [|discriminate].
  destruct (nodupb ists) eqn:Hn; cbn [negb]; [|discriminate].
  destruct (sameb ists (states jumps nsites N origin)) eqn:Hs; cbn [negb]; [|discriminate].
  destruct (stars_okb ops ists istars) eqn:Ho; cbn [negb]; [|discriminate].
  destruct (index_okb (length ists) istars iindex) eqn:Hi; cbn [negb]; [|discriminate].
  destruct (lookups_okb ists iindex qs) eqn:Hl; cbn [negb]; [|discriminate]. intros _.
  pose proof (jumps_okb_spec _ Hj) as Hnz. pose proof (nodupb_spec _ Hn) as HN.
  destruct (stars_okb_sound _ _ _ Ho) as [_ [Hp Hst]].
  split; [|split; [exact HN | split; [exact Hp | split; [exact Hst | split]]]].
  - intro s. rewrite (proj1 (sameb_spec _ _) Hs s). apply states_path. exact Hnz.
  - assert (Hpb : partition_okb (length ists) istars = true).
    { unfold stars_okb in Ho. rewrite !andb_true_iff in Ho. tauto. }
    apply (index_okb_sound _ _ _ Hpb Hi).
  - apply lookups_okb_sound; assumption.
Qed.

Theorem run_add_sound jumps nsites N1 N2 o1 o2 isum :
  (forall j, In j jumps -> iszero j = false) -> 1 <= N1 -> 1 <= N2 ->
  run_add jumps nsites N1 N2 o1 o2 isum = 0 ->
  NoDup isum /\ forall s, In s isum <-> In s (states jumps nsites (N1 + N2) o1).
Proof.
  intros Hnz H1 H2. unfold run_add. cbv zeta.
  destruct (nodupb isum) eqn:Hn; cbn [negb]; [|discriminate].
  destruct (sameb isum _) eqn:Hs; cbn [negb]; [|discriminate]. intros _.
  split; [apply nodupb_spec; exact Hn|]. intro s.
  rewrite (proj1 (sameb_spec _ _) Hs s). apply sadd_states; assumption.
Qed.

(* ---- non-vacuity: square lattice, nearest-neighbour jumps --------------------------------- *)
Local Open Scope Z_scope.
Definition sq_jumps : list ps :=
  [mkPS 0 0 (1, 0, 0); mkPS 0 0 (-1, 0, 0); mkPS 0 0 (0, 1, 0); mkPS 0 0 (0, -1, 0)].
Definition sq_rot : op := mkOp ((0, -1, 0), (1, 0, 0), (0, 0, 1)) [0%nat] [vzero].
Definition sq_mir : op := mkOp ((1, 0, 0), (0, -1, 0), (0, 0, 1)) [0%nat] [vzero].
Definition sq_id : op := mkOp ((1, 0, 0), (0, 1, 0), (0, 0, 1)) [0%nat] [vzero].
Definition sq_r2 : op := mkOp ((-1, 0, 0), (0, -1, 0), (0, 0, 1)) [0%nat] [vzero].
Definition sq_r3 : op := mkOp ((0, 1, 0), (-1, 0, 0), (0, 0, 1)) [0%nat] [vzero].
Definition sq_m2 : op := mkOp ((-1, 0, 0), (0, 1, 0), (0, 0, 1)) [0%nat] [vzero].
Definition sq_d1 : op := mkOp ((0, 1, 0), (1, 0, 0), (0, 0, 1)) [0%nat] [vzero].
Definition sq_d2 : op := mkOp ((0, -1, 0), (-1, 0, 0), (0, 0, 1)) [0%nat] [vzero].
Definition sq_ops := [sq_id; sq_rot; sq_r2; sq_r3; sq_mir; sq_m2; sq_d1; sq_d2].

Example reach_square_2 : length (reach sq_jumps 2) = 12%nat /\ length (states sq_jumps 1 2 true) = 13%nat.
Proof. vm_compute. split; reflexivity. Qed.

Example path_through_zero : path sq_jumps 3 (mkPS 0 0 (0, 1, 0)) /\ In (mkPS 0 0 (0, 1, 0)) (reach sq_jumps 1).
Proof.
  split; [|vm_compute; tauto].
  change (mkPS 0 0 (0, 1, 0)) with (padd (padd (mkPS 0 0 (1, 0, 0)) (mkPS 0 0 (-1, 0, 0))) (mkPS 0 0 (0, 1, 0))).
  repeat constructor; cbn; tauto.
Qed.

Example sadd_square : sameb (sadd (states sq_jumps 1 2 true) (states sq_jumps 1 1 false)) (states sq_jumps 1 3 true) = true.
Proof. vm_compute. reflexivity. Qed.

(* stars of the N=1 set with origin state: { (0,0,0) } and the four neighbours *)
Example stars_square :
  let sts := [zero 0; mkPS 0 0 (1, 0, 0); mkPS 0 0 (-1, 0, 0); mkPS 0 0 (0, 1, 0); mkPS 0 0 (0, -1, 0)] in
  run_starset sq_jumps 1 1 true sq_ops sts [[0]; [1; 2; 3; 4]]%nat [0; 1; 1; 1; 1]%nat
     [(mkPS 0 0 (0, 1, 0), Some 3%nat, Some 1%nat); (mkPS 0 0 (5, 1, 0), None, None)] = 0%nat
  /\ stars_okb sq_ops sts [[0]; [1; 2]; [3; 4]]%nat = false
  /\ stars_okb [sq_id; sq_r2] sts [[0]; [1; 2]; [3; 4]]%nat = true.
Proof. vm_compute. repeat split; reflexivity. Qed.

Example diff_square : length (diffgen (reach sq_jumps 1) (reach sq_jumps 1)) = 9%nat.
Proof. vm_compute. reflexivity. Qed.

(* ---- one object over any history of generate / += operations ------------------------------ *)
Definition obj_inv (jumps : list ps) (nsites : nat) (obj : sobj) : Prop :=
  NoDup (ost obj) /\ forall s, In s (ost obj) <-> In s (states jumps nsites (oN obj) (oo obj)).

Lemma fresh_inv jumps nsites N o : obj_inv jumps nsites (fresh_obj jumps nsites N o).
Proof. split; [apply states_NoDup | intro s; reflexivity]. Qed.

Lemma sadd_ext l1 l1' l2 : (forall s, In s l1 <-> In s l1') -> forall s, In s (sadd l1 l2) <-> In s (sadd l1' l2).
Proof.
  intros H s. rewrite !sadd_spec. rewrite H. split; intros [A|[Hz [p [q [Hp R]]]]]; try tauto;
    right; split; try exact Hz; exists p, q; [rewrite <- H | rewrite H]; tauto.
Qed.

Lemma hstep_inv jumps nsites (Hnz : forall j, In j jumps -> iszero j = false) obj h :
  obj_inv jumps nsites obj -> obj_inv jumps nsites (hstep jumps nsites obj h).
Proof.
  intros [Hn Hs]. destruct h as [N o|N o]; cbn [hstep].
  - destruct (if Nat.eqb N (oN obj) then Bool.eqb o (oo obj) else false); [split; assumption | apply fresh_inv].
  - destruct (Nat.ltb_spec N 1) as [H1|H1]; [split; assumption|].
    destruct (Nat.ltb_spec (oN obj) 1) as [H2|H2]; [apply fresh_inv|].
    split; cbn [ost oN oo].
    + apply sadd_NoDup; exact Hn.
    + intro s. rewrite (sadd_ext _ _ _ Hs s). apply sadd_states; assumption.
Qed.

(* INVARIANT over all histories: after any sequence of generate / += calls on one object its state
   list is duplicate free and is exactly the set a freshly built star set of the object's current
   range and flag has -- in particular nothing of an earlier, larger range survives *)
Theorem hist_invariant jumps nsites N0 o0 h : (forall j, In j jumps -> iszero j = false) ->
  obj_inv jumps nsites (hrun jumps nsites N0 o0 h).
Proof.
  intro Hnz. unfold hrun. generalize (fresh_inv jumps nsites N0 o0). generalize (fresh_obj jumps nsites N0 o0).
  induction h as [|a h IH]; intros obj Hi; cbn [fold_left]; [exact Hi|].
  apply IH. apply hstep_inv; assumption.
Qed.

(* after a generate(N, o) request -- whatever happened before -- the object has range N, flag o and the states of a
   fresh star set with that range and flag: the LAST REQUEST decides, a changed flag is never ignored *)
Theorem hist_last_request jumps nsites N0 o0 h N o : (forall j, In j jumps -> iszero j = false) ->
  let obj := hrun jumps nsites N0 o0 (h ++ [HGen N o]) in
  oN obj = N /\ oo obj = o /\ NoDup (ost obj) /\ forall s, In s (ost obj) <-> In s (states jumps nsites N o).
Proof.
  intro Hnz. cbv zeta. pose proof (hist_invariant jumps nsites N0 o0 (h ++ [HGen N o]) Hnz) as [Hn Hs].
  unfold hrun in *. rewrite fold_left_app in *. cbn [fold_left] in *.
  set (obj := fold_left (hstep jumps nsites) h (fresh_obj jumps nsites N0 o0)) in *.
  assert (E : oN (hstep jumps nsites obj (HGen N o)) = N /\ oo (hstep jumps nsites obj (HGen N o)) = o).
  { cbn [hstep]. destruct (Nat.eqb_spec N (oN obj)) as [E1|E1]; [|split; reflexivity].
    destruct (Bool.eqb o (oo obj)) eqn:E2; [|split; reflexivity].
    apply Bool.eqb_prop in E2. split; congruence. }
  destruct E as [E1 E2]. split; [exact E1|]. split; [exact E2|]. split; [exact Hn|].
  intro s. rewrite (Hs s), E1, E2. reflexivity.
Qed.

Theorem run_hist_sound jumps nsites N0 o0 h ops ists istars iindex qs :
  run_hist jumps nsites N0 o0 h ops ists istars iindex qs = 0%nat ->
  let obj := hrun jumps nsites N0 o0 h in
  (forall s, In s ists <-> In s (ost obj)) /\
  run_starset jumps nsites (oN obj) (oo obj) ops ists istars iindex qs = 0%nat.
Proof.
  unfold run_hist. cbv zeta.
  destruct (jumps_okb jumps) eqn:Hj; cbn [negb]; [|discriminate].
  destruct (sameb ists (ost (hrun jumps nsites N0 o0 h))) eqn:Hs; cbn [negb]; [|discriminate].
  intro H. split; [apply sameb_spec; exact Hs | exact H].
Qed.

(* shrinking on one object: generate 3, then 1: exactly the first shell again *)
Example hist_flag_toggle :
  length (ost (hrun sq_jumps 1 2 false [HGen 2 true])) = 13%nat /\
  length (ost (hrun sq_jumps 1 2 true [HGen 2 false])) = 12%nat /\
  length (ost (hrun sq_jumps 1 2 true [HGen 2 true])) = 13%nat.
Proof. vm_compute. repeat split; reflexivity. Qed.

Example hist_shrink :
  let obj := hrun sq_jumps 1 3 true [HGen 1 false] in
  oN obj = 1%nat /\ length (ost obj) = 4%nat /\
  sindex (ost obj) (mkPS 0 0 (2, 0, 0)%Z) = None /\ sindex (ost obj) (zero 0) = None /\
  sameb (ost (hrun sq_jumps 1 1 true [HGen 2 false; HAdd 1 true; HGen 3 true; HGen 2 true]))
        (states sq_jumps 1 2 true) = true.
Proof. vm_compute. repeat split; reflexivity. Qed.
