From Coq Require Import List Arith Bool Lia Ring Permutation.
From Onsager Require Import Base.OrdRing Model.Net Model.Interstitial Model.NetMaps Model.Lump
     Proofs.Net_proofs Proofs.NetMaps_proofs.
Import ListNotations.

Section P.
Variable K : ordring.
Notation "0" := (r0 K). Notation "1" := (r1 K).
Infix "+" := (radd K). Infix "*" := (rmul K). Infix "-" := (rsub K). Notation "- x" := (ropp K x).
Add Ring Kr5 : (r_ring K).
Notation edge := (edge K).
Notation net := (net K).

(* ---- sums over filtered lists / by source state -------------------------------------- *)
Lemma sumf_filter {A} (f : A -> K) (b : A -> bool) l :
  sumf f (filter b l) = sumf (fun a => if b a then f a else 0) l.
Proof.
  induction l as [|a l IH]; cbn [filter sumf]; [reflexivity|].
  destruct (b a); cbn [sumf]; rewrite IH; ring.
Qed.

Lemma ind_srcb x (e : edge) (v : K) : (if srcb x e then v else 0) = v * ind x (src e).
Proof.
  unfold srcb, ind. rewrite (Nat.eqb_sym x (src e)). destruct (Nat.eqb (src e) x); ring.
Qed.

Lemma sumf_out (f : edge -> K) (N : net) x : sumf f (out N x) = sumf (fun e => f e * ind x (src e)) N.
Proof. unfold out. rewrite sumf_filter. apply sumf_ext. intros e _. apply ind_srcb. Qed.

Lemma sum_by_src (f : edge -> K) (N : net) n : wf N n ->
  sumf f N = sumf (fun x => sumf f (out N x)) (seq 0 n).
Proof.
  intro Hwf.
  transitivity (sumf (fun x => sumf (fun e => f e * ind x (src e)) N) (seq 0 n)).
  - rewrite sumf_swap. apply sumf_ext. intros e He. destruct (Hwf e He) as [Hs _].
    transitivity (sumf (fun x => (fun _ => f e) x * ind x (src e)) (seq 0 n)); [|reflexivity].
    rewrite (sumf_ind_pick K (fun _ => f e) (src e) n Hs). reflexivity.
  - apply sumf_ext. intros x _. symmetry. apply sumf_out.
Qed.

(* ---- reversal ------------------------------------------------------------------------ *)
Definition odd (d : edge -> K) : Prop := forall e, d (rev e) = - d e.

Lemma comp_odd k : odd (comp k).
Proof.
  intro e. unfold comp, rev; cbn [dsp].
  replace 0 with (- 0) at 1 by ring. rewrite map_nth. reflexivity.
Qed.

Lemma flux_rev d g e : odd d -> flux d g (rev e) = - flux d g e.
Proof. intro Ho. unfold flux, grad. rewrite Ho. unfold rev; cbn [src dst cond]. ring. Qed.

(* out-flux form implies the per-state (divergence) form for reversal-closed directed networks *)
Theorem outKCL_strong (N : net) n d g :
  Permutation (map rev N) N -> odd d -> outKCL N n d g -> strongKCL N n d g.
Proof.
  intros Hrev Ho Hout x Hx. unfold divg.
  transitivity (sumf (fun e => flux d g e * ind x (dst e)) N - sumf (fun e => flux d g e * ind x (src e)) N).
  - rewrite <- sumf_sub. apply sumf_ext. intros e _. ring.
  - rewrite <- (sumf_out (flux d g) N x).
    assert (E : sumf (fun e => flux d g e * ind x (dst e)) N = - sumf (flux d g) (out N x)).
    { rewrite <- (sumf_perm K (fun e => flux d g e * ind x (dst e)) _ _ Hrev).
      rewrite sumf_map. rewrite (sumf_out (flux d g) N x).
      transitivity (sumf (fun e => (- (1)) * (flux d g e * ind x (src e))) N).
      - apply sumf_ext. intros e _. rewrite (flux_rev d g e Ho). unfold rev; cbn [dst]. ring.
      - rewrite sumf_scal. ring. }
    rewrite E. pose proof (Hout x Hx) as H0. unfold outflux in H0. rewrite H0. ring.
Qed.

(* ---- lumping --------------------------------------------------------------------------- *)
Section Fibred.
Variables (NX NY : net) (nX nY : nat) (p : nat -> nat) (view : list K -> list K).
Hypothesis fib : forall x, x < nX -> Permutation (map (proj p view) (out NX x)) (out NY (p x)).
Hypothesis pran : forall x, x < nX -> p x < nY.

(* displacement fields on X and Y that correspond under the projection *)
Definition related (dX dY : edge -> K) : Prop := forall e, dX e = dY (proj p view e).

Lemma flux_proj dX dY g e : related dX dY -> flux dX (fun x => g (p x)) e = flux dY g (proj p view e).
Proof. intro R. unfold flux, grad. rewrite (R e). unfold proj; cbn [src dst cond]. reflexivity. Qed.

Lemma lump_outKCL dX dY g : related dX dY -> outKCL NY nY dY g -> outKCL NX nX dX (fun x => g (p x)).
Proof.
  intros R HY x Hx. unfold outflux.
  transitivity (sumf (flux dY g) (map (proj p view) (out NX x))).
  - rewrite sumf_map. apply sumf_ext. intros e _. apply flux_proj. exact R.
  - rewrite (sumf_perm K (flux dY g) _ _ (fib x Hx)). apply (HY (p x)). apply pran. exact Hx.
Qed.

(* the pulled-back corrector of the base network is a corrector of the fibred network *)
Theorem lump_corrector dX dY g :
  wf NX nX -> Permutation (map rev NX) NX -> odd dX -> related dX dY ->
  outKCL NY nY dY g -> weakKCL NX dX (fun x => g (p x)).
Proof.
  intros Hwf Hrev Ho R HY.
  apply (strong_weak K NX nX); [exact Hwf|].
  apply outKCL_strong; [exact Hrev | exact Ho |]. apply (lump_outKCL dX dY g R HY).
Qed.

Lemma kmul_sum (k : nat) (a : K) (l : list nat) : length l = k -> sumf (fun _ => a) l = kmul k a.
Proof.
  revert k. induction l as [|x l IH]; intros k H; cbn [length] in H; subst k; cbn [sumf kmul]; [reflexivity|].
  rewrite (IH (length l) eq_refl). reflexivity.
Qed.

Lemma kmul_add k a b : kmul k (a + b) = kmul k a + kmul k b.
Proof. induction k as [|k IH]; cbn [kmul]; [ring | rewrite IH; ring]. Qed.

Lemma kmul_0 k : kmul k 0 = 0.
Proof. induction k as [|k IH]; cbn [kmul]; [reflexivity | rewrite IH; ring]. Qed.

Lemma kmul_sumf {A} k (f : A -> K) l : sumf (fun a => kmul k (f a)) l = kmul k (sumf f l).
Proof.
  induction l as [|a l IH]; cbn [sumf]; [symmetry; apply kmul_0 | rewrite IH, kmul_add; reflexivity].
Qed.

(* regrouping a sum over the states of X by the fibres of p *)
Lemma sum_by_fibre (G : nat -> K) k :
  (forall y, y < nY -> length (fibre nX p y) = k) ->
  sumf (fun x => G (p x)) (seq 0 nX) = kmul k (sumf G (seq 0 nY)).
Proof.
  intro Hk.
  transitivity (sumf (fun x => sumf (fun y => G y * ind y (p x)) (seq 0 nY)) (seq 0 nX)).
  - apply sumf_ext. intros x Hx. apply in_seq in Hx.
    rewrite (sumf_ind_pick K G (p x) nY); [reflexivity | apply pran; lia].
  - rewrite sumf_swap. rewrite <- kmul_sumf. apply sumf_ext. intros y Hy. apply in_seq in Hy.
    rewrite <- (kmul_sum k (G y) (fibre nX p y)) by (apply Hk; lia).
    unfold fibre. rewrite sumf_filter. apply sumf_ext. intros x _.
    unfold ind. rewrite (Nat.eqb_sym y (p x)). destruct (Nat.eqb (p x) y); ring.
Qed.

(* value: the coefficient of the fibred network is k times that of the base network (k = fibre size) *)
Theorem lump_value dXA dXB dYA dYB gA gB k :
  wf NX nX -> wf NY nY -> related dXA dYA -> related dXB dYB ->
  (forall y, y < nY -> length (fibre nX p y) = k) ->
  Bform NX dXA dXB (fun x => gA (p x)) (fun x => gB (p x)) = kmul k (Bform NY dYA dYB gA gB).
Proof.
  intros HwX HwY RA RB Hk. unfold Bform.
  rewrite (sum_by_src _ NX nX HwX). rewrite (sum_by_src _ NY nY HwY).
  rewrite <- (sum_by_fibre (fun y => sumf (fun e => flux dYA gA e * (dYB e + grad gB e)) (out NY y)) k Hk).
  apply sumf_ext. intros x Hx. apply in_seq in Hx.
  rewrite <- (sumf_perm K _ _ _ (fib x ltac:(lia))). rewrite sumf_map.
  apply sumf_ext. intros e _. rewrite (flux_proj dXA dYA gA e RA). rewrite (RB e).
  unfold grad, proj; cbn [src dst]. reflexivity.
Qed.

End Fibred.

(* ---- tracer: solute-vacancy coefficient ------------------------------------------------- *)
(* NX = swing edges ++ exchange edges; the solute displacement dS vanishes on swing edges and equals minus the
   vacancy displacement dVA on exchange edges; the exchange edges project bijectively onto the base network *)
Theorem tracer_Lsv (Nsw Nex NY : net) p view (dS dVA dVB dYA dYB : edge -> K) gS gB gA :
  (forall e, In e Nsw -> dS e = 0) ->
  (forall e, In e Nex -> dS e = - dVA e) ->
  Permutation (map (proj p view) Nex) NY ->
  (forall e, dVA e = dYA (proj p view e)) -> (forall e, dVB e = dYB (proj p view e)) ->
  weakKCL (Nsw ++ Nex) dVB (fun x => gB (p x)) -> weakKCL NY dYB gB ->
  Bform (Nsw ++ Nex) dS dVB gS (fun x => gB (p x)) = - Bform NY dYA dYB gA gB.
Proof.
  intros Hsw Hex Hperm RA RB HX HY.
  rewrite (L_bias_form K _ dS dVB gS _ HX).
  rewrite (L_bias_form K NY dYA dYB gA gB HY).
  unfold D0form. rewrite <- !sumf_add. rewrite sumf_app.
  assert (E1 : sumf (fun e => cond e * dS e * dVB e + cond e * dS e * grad (fun x => gB (p x)) e) Nsw = 0).
  { transitivity (sumf (fun _ : edge => 0) Nsw); [|apply sumf_zero].
    apply sumf_ext. intros e He. rewrite (Hsw e He). ring. }
  rewrite E1.
  rewrite <- (sumf_perm K _ _ _ Hperm). rewrite sumf_map.
  transitivity (sumf (fun e => (- (1)) * (cond (proj p view e) * dYA (proj p view e) * dYB (proj p view e)
                                         + cond (proj p view e) * dYA (proj p view e) * grad gB (proj p view e))) Nex).
  - replace (0 + sumf (fun e => cond e * dS e * dVB e + cond e * dS e * grad (fun x => gB (p x)) e) Nex)
      with (sumf (fun e => cond e * dS e * dVB e + cond e * dS e * grad (fun x => gB (p x)) e) Nex) by ring.
    apply sumf_ext. intros e He. rewrite (Hex e He), (RA e), (RB e).
    unfold grad, proj; cbn [src dst cond]. ring.
  - rewrite sumf_scal. ring.
Qed.

End P.

Section TracerSound.
Variable K : ordring.
Notation edge := (edge K).
Notation net := (net K).

Lemma nth_skipn_add {A} n k (l : list A) d : nth (n + k) l d = nth k (skipn n l) d.
Proof.
  revert l. induction n as [|n IH]; intro l; cbn [Nat.add skipn]; [reflexivity|].
  destruct l as [|a l]; [destruct k; reflexivity | apply IH].
Qed.

Lemma related_skip p dim k : related K p (skipn dim (A:=K)) (comp (dim + k)) (comp k).
Proof. intro e. unfold comp, proj; cbn [dsp]. apply nth_skipn_add. Qed.

Lemma forallb_seq_lt (f : nat -> bool) n : forallb f (seq 0 n) = true -> forall x, x < n -> f x = true.
Proof. intros H x Hx. rewrite forallb_forall in H. apply H. apply in_seq. lia. Qed.

Lemma outKCLb_sound (N : net) n d g : outKCLb N n d g = true -> outKCL N n d g.
Proof. intros H x Hx. apply (reqb_spec K). apply (forallb_seq_lt _ n H x Hx). Qed.

(* Soundness of the tracer structure check: for ANY pair chain passing it (every torus size, every crystal),
   the pulled-back bare correctors are correctors of the chain, the vacancy-vacancy block is kfib times the bare
   coefficient and the solute-vacancy block is minus the bare coefficient -- i.e. in the implementation's
   normalisation L1vv = 0 and Lsv = -L0vv. *)
Theorem tracer_check_sound dim nX nY kfib (Nsw Nex NY : net) (p : list nat) gam :
  tracer_check dim nX nY kfib Nsw Nex NY p gam = true ->
  let NX := Nsw ++ Nex in
  let pf := permfun p in
  forall k l, k < dim -> l < dim ->
    weakKCL NX (comp (dim + l)) (fun x => fld (nth l gam []) (pf x)) /\
    Bform NX (comp (dim + k)) (comp (dim + l)) (fun x => fld (nth k gam []) (pf x)) (fun x => fld (nth l gam []) (pf x))
      = kmul kfib (Bform NY (comp k) (comp l) (fld (nth k gam [])) (fld (nth l gam []))) /\
    (forall gS, Bform NX (comp k) (comp (dim + l)) gS (fun x => fld (nth l gam []) (pf x))
                = ropp K (Bform NY (comp k) (comp l) (fld (nth k gam [])) (fld (nth l gam [])))).
Proof.
  unfold tracer_check. cbv zeta. intros H k l Hk Hl.
  repeat (apply andb_true_iff in H; destruct H as [H ?]).
  match goal with
  | H1 : wfb (Nsw ++ Nex) nX = true, H2 : wfb NY nY = true, H3 : revclosedPb (Nsw ++ Nex) = true,
    H3' : revclosedPb NY = true, H4 : fibrationb _ _ _ _ _ = true, H5 : uniformb _ _ _ _ = true, H6 : forallb _ (seq 0 dim) = true,
    H7 : permb _ NY = true, H8 : forallb (ds_zero dim) Nsw = true, H9 : forallb (ds_minus_dv dim) Nex = true |- _ =>
      rename H1 into WX; rename H2 into WY; rename H3 into RV; rename H3' into RVY; rename H4 into FB; rename H5 into UF;
      rename H6 into KY; rename H7 into PE; rename H8 into SZ; rename H9 into SM
  end.
  apply wfb_sound in WX. apply wfb_sound in WY.
  unfold revclosedPb in RV. apply permb_sound in RV.
  unfold revclosedPb in RVY. apply permb_sound in RVY.
  unfold uniformb in UF. apply andb_true_iff in UF. destruct UF as [UF1 UF2].
  assert (pran : forall x, x < nX -> permfun p x < nY).
  { intros x Hx. apply Nat.ltb_lt. apply (forallb_seq_lt _ nX UF1 x Hx). }
  assert (fib : forall x, x < nX ->
            Permutation (map (proj (permfun p) (skipn dim (A:=K))) (out (Nsw ++ Nex) x)) (out NY (permfun p x))).
  { intros x Hx. apply permb_sound. unfold fibrationb in FB. apply (forallb_seq_lt _ nX FB x Hx). }
  assert (Hfs : forall y, y < nY -> length (fibre nX (permfun p) y) = kfib).
  { intros y Hy. apply Nat.eqb_eq. apply (forallb_seq_lt _ nY UF2 y Hy). }
  assert (KYl : forall m, m < dim -> outKCL NY nY (comp m) (fld (nth m gam []))).
  { intros m Hm. apply outKCLb_sound. apply (forallb_seq_lt _ dim KY m Hm). }
  assert (WKX : forall m, m < dim -> weakKCL (Nsw ++ Nex) (comp (dim + m)) (fun x => fld (nth m gam []) (permfun p x))).
  { intros m Hm.
    apply (lump_corrector K (Nsw ++ Nex) NY nX nY (permfun p) (skipn dim (A:=K)) fib pran (comp (dim + m)) (comp m)).
    - exact WX.
    - exact RV.
    - apply comp_odd.
    - apply related_skip.
    - apply KYl. exact Hm. }
  split; [apply WKX; exact Hl|]. split.
  - apply (lump_value K (Nsw ++ Nex) NY nX nY (permfun p) (skipn dim (A:=K)) fib pran).
    + exact WX.
    + exact WY.
    + apply related_skip.
    + apply related_skip.
    + exact Hfs.
  - intro gS.
    apply (tracer_Lsv K Nsw Nex NY (permfun p) (skipn dim (A:=K)) (comp k) (comp (dim + k)) (comp (dim + l)) (comp k) (comp l)
                      gS (fld (nth l gam [])) (fld (nth k gam []))).
    + intros e He. rewrite forallb_forall in SZ. specialize (SZ e He). unfold ds_zero in SZ.
      apply (reqb_spec K). apply (forallb_seq_lt _ dim SZ k Hk).
    + intros e He. rewrite forallb_forall in SM. specialize (SM e He). unfold ds_minus_dv in SM.
      apply (reqb_spec K). apply (forallb_seq_lt _ dim SM k Hk).
    + apply permb_sound. exact PE.
    + apply related_skip.
    + apply related_skip.
    + apply WKX. exact Hl.
    + apply (strong_weak K NY nY); [exact WY|].
      apply outKCL_strong; [exact RVY | apply comp_odd | apply KYl; exact Hl].
Qed.

End TracerSound.

(* ---- tracer: upper bound  Lss <= bare coefficient ---------------------------------------------------------- *)
Section TracerUpper.
Variable K : ordring.
Notation "0" := (r0 K).
Infix "+" := (radd K). Infix "*" := (rmul K). Infix "-" := (rsub K). Notation "- x" := (ropp K x).
Infix "<=" := (rle K).
Add Ring Kr8 : (r_ring K).

(* q maps a pair state to the site of the SOLUTE, p to the site of the vacancy.  On swing edges the solute stays; on an
   exchange edge solute and vacancy swap sites and the solute displacement is minus the (base-network) displacement.
   Test field for Thomson's principle: eta = gY o q, with gY ANY field on the base network (e.g. its corrector). *)
Theorem tracer_Lss_upper (Nsw Nex NY : net K) p q view (dS dY : edge K -> K) gS gY :
  nonneg (Nsw ++ Nex) ->
  (forall e, In e Nsw -> dS e = 0 /\ q (src e) = q (dst e)) ->
  (forall e, In e Nex -> dS e = - dY (proj p view e) /\ q (src e) = p (dst e) /\ q (dst e) = p (src e)) ->
  Permutation (map (proj p view) Nex) NY ->
  weakKCL (Nsw ++ Nex) dS gS ->
  Bform (Nsw ++ Nex) dS dS gS gS <= Bform NY dY dY gY gY.
Proof.
  intros Hnn Hsw Hex Hperm HS.
  apply rle_trans with (Bform (Nsw ++ Nex) dS dS (fun x => gY (q x)) (fun x => gY (q x))).
  - apply thomson; assumption.
  - assert (E : Bform (Nsw ++ Nex) dS dS (fun x => gY (q x)) (fun x => gY (q x)) = Bform NY dY dY gY gY).
    { unfold Bform. rewrite sumf_app.
      assert (E1 : sumf (fun e => flux dS (fun x => gY (q x)) e * (dS e + grad (fun x => gY (q x)) e)) Nsw = 0).
      { transitivity (sumf (fun _ : edge K => 0) Nsw); [|apply sumf_zero].
        apply sumf_ext. intros e He. destruct (Hsw e He) as [H1 H2]. unfold flux, grad. rewrite H1, H2. ring. }
      rewrite E1. rewrite <- (sumf_perm K _ _ _ Hperm). rewrite sumf_map.
      transitivity (sumf (fun e => flux dS (fun x => gY (q x)) e * (dS e + grad (fun x => gY (q x)) e)) Nex); [ring|].
      apply sumf_ext. intros e He. destruct (Hex e He) as [H1 [H2 H3]].
      unfold flux, grad. rewrite H1, H2, H3. unfold proj; cbn [src dst cond]. ring. }
    rewrite E. apply rle_refl.
Qed.

End TracerUpper.

Section TracerUpperSound.
Variable K : ordring.
Add Ring Kr9 : (r_ring K).

Lemma lin_comp_proj dim coef p (e : edge K) :
  lin dim coef (@comp K) (proj p (skipn dim (A:=K)) e) = sumf (fun k => rmul K (nth k coef (r0 K)) (comp (dim + k) e)) (seq 0 dim).
Proof.
  unfold lin. apply sumf_ext. intros k _. rewrite (related_skip K p dim k e). reflexivity.
Qed.

(* Soundness of the structure checks for the upper bound: for EVERY direction n (coefficient list), with n.(solute
   displacement), its corrector gS, and ANY field gY on the bare network (in particular the corrector of n.d):
   n.Lss.n <= n.L(bare).n  *)
Theorem tracer_upper_sound dim nX nY kfib (Nsw Nex NY : net K) (p q : list nat) gam coef gS gY :
  tracer_check dim nX nY kfib Nsw Nex NY p gam = true ->
  qstructb Nsw Nex p q = true ->
  nonnegb (Nsw ++ Nex) = true ->
  weakKCL (Nsw ++ Nex) (lin dim coef (@comp K)) gS ->
  rle K (Bform (Nsw ++ Nex) (lin dim coef (@comp K)) (lin dim coef (@comp K)) gS gS)
        (Bform NY (lin dim coef (@comp K)) (lin dim coef (@comp K)) gY gY).
Proof.
  intros HT HQ HN HS.
  unfold tracer_check in HT. cbv zeta in HT.
  repeat (apply andb_true_iff in HT; destruct HT as [HT ?]).
  match goal with
  | H7 : permb _ NY = true, H8 : forallb (ds_zero dim) Nsw = true, H9 : forallb (ds_minus_dv dim) Nex = true |- _ =>
      rename H7 into PE; rename H8 into SZ; rename H9 into SM
  end.
  unfold qstructb in HQ. apply andb_true_iff in HQ. destruct HQ as [Q1 Q2].
  apply (tracer_Lss_upper K Nsw Nex NY (permfun p) (permfun q) (skipn dim (A:=K))).
  - apply nonnegb_sound. exact HN.
  - intros e He. split.
    + rewrite forallb_forall in SZ. specialize (SZ e He). unfold ds_zero in SZ.
      unfold lin. transitivity (sumf (fun _ : nat => r0 K) (seq 0 dim)); [|apply sumf_zero].
      apply sumf_ext. intros k Hk. apply in_seq in Hk.
      assert (E : comp k e = r0 K) by (apply (reqb_spec K); apply (forallb_seq_lt _ dim SZ k); lia).
      rewrite E. ring.
    + rewrite forallb_forall in Q1. apply Nat.eqb_eq. apply (Q1 e He).
  - intros e He. split; [|split].
    + rewrite forallb_forall in SM. specialize (SM e He). unfold ds_minus_dv in SM.
      rewrite lin_comp_proj. unfold lin.
      transitivity (sumf (fun k => rmul K (ropp K (r1 K)) (rmul K (nth k coef (r0 K)) (comp (dim + k) e))) (seq 0 dim)).
      * apply sumf_ext. intros k Hk. apply in_seq in Hk.
        assert (E : comp k e = ropp K (comp (dim + k) e)) by (apply (reqb_spec K); apply (forallb_seq_lt _ dim SM k); lia).
        rewrite E. ring.
      * rewrite sumf_scal. ring.
    + rewrite forallb_forall in Q2. specialize (Q2 e He). apply andb_true_iff in Q2. apply Nat.eqb_eq. apply Q2.
    + rewrite forallb_forall in Q2. specialize (Q2 e He). apply andb_true_iff in Q2. apply Nat.eqb_eq. apply Q2.
  - apply permb_sound. exact PE.
  - exact HS.
Qed.
End TracerUpperSound.
