(* Proofs about Model/Sites.v (C20): the orbit model is exact and duplicate free, and the three
   checkers run on the implementation's Wyckoffpos / Wyckoff sets / site point groups are sound. *)
From Coq Require Import ZArith List Bool Arith Lia.
From Onsager Require Import Model.Geom3 Model.Sites Proofs.Geom3_proofs.
Import ListNotations.
Local Open Scope Z_scope.

Lemma vmem_In v l : vmem v l = true <-> In v l.
Proof.
  unfold vmem. rewrite existsb_exists. split.
  - intros (w & Hw & E). apply veqb_eq in E. subst. exact Hw.
  - intro H. exists v. split; [exact H | apply veqb_eq; reflexivity].
Qed.

Lemma vmem_false v l : vmem v l = false <-> ~ In v l.
Proof. rewrite <- vmem_In. destruct (vmem v l); split; congruence. Qed.

Lemma dedup_In v l : In v (dedup l) <-> In v l.
Proof.
  induction l as [|w l IH]; cbn [dedup]; [tauto|].
  destruct (vmem w l) eqn:E.
  - rewrite IH. split; [intro H; right; exact H | intros [H|H]; [subst; apply vmem_In; exact E | exact H]].
  - cbn [In]. rewrite IH. tauto.
Qed.

Lemma dedup_NoDup l : NoDup (dedup l).
Proof.
  induction l as [|w l IH]; cbn [dedup]; [constructor|].
  destruct (vmem w l) eqn:E; [exact IH|]. constructor; [|exact IH].
  rewrite dedup_In. apply vmem_false. exact E.
Qed.

Lemma vnodupb_NoDup l : vnodupb l = true -> NoDup l.
Proof.
  induction l as [|w l IH]; cbn [vnodupb]; intro H; [constructor|].
  apply andb_true_iff in H as [H1 H2]. constructor; [|apply IH; exact H2].
  apply vmem_false. destruct (vmem w l); [discriminate | reflexivity].
Qed.

(* ---- orbits / Wyckoffpos ------------------------------------------------------------- *)
Theorem orbit_pos_spec D ops p q : In q (orbit_pos D ops p) <-> exists g, In g ops /\ q = image D g p.
Proof.
  unfold orbit_pos. rewrite dedup_In, in_map_iff. split; intros (g & A & B); exists g; [split; [exact B | symmetry; exact A] | split; [symmetry; exact B | exact A]].
Qed.

Theorem orbit_pos_nodup D ops p : NoDup (orbit_pos D ops p).
Proof. apply dedup_NoDup. Qed.

Theorem wyckoffpos_okb_sound D ops p impl : wyckoffpos_okb D ops p impl = true ->
  NoDup impl /\ forall q, In q impl <-> exists g, In g ops /\ q = image D g p.
Proof.
  unfold wyckoffpos_okb, same_setb. intro H. apply andb_true_iff in H as [HN H]. apply andb_true_iff in H as [H1 H2].
  split; [apply vnodupb_NoDup; exact HN|]. intro q. rewrite <- orbit_pos_spec.
  rewrite forallb_forall in H1, H2. split; intro Hq; apply vmem_In; [apply H1 | apply H2]; exact Hq.
Qed.

(* ---- site point group ---------------------------------------------------------------- *)
Theorem pointgroup_okb_sound D ops p pg : pointgroup_okb D ops p pg = true ->
  (* every returned operation maps the site to itself exactly and is an operation of G (mod lattice translations) *)
  (forall h, In h pg -> image_raw h p = p /\ exists g, In g ops /\ sop_eqmodb D h g = true) /\
  (* every operation of G that maps the site to itself (mod lattice translations) is returned *)
  (forall g, In g ops -> image D g p = vmod D p -> exists h, In h pg /\ sop_eqmodb D h g = true) /\
  length pg = length (stabiliser D ops p).
Proof.
  unfold pointgroup_okb. intro H. apply andb_true_iff in H as [H HL]. apply andb_true_iff in H as [H1 H2].
  rewrite forallb_forall in H1, H2. split; [|split].
  - intros h Hh. specialize (H1 h Hh). apply andb_true_iff in H1 as [A B]. apply veqb_eq in A.
    split; [exact A|]. apply existsb_exists in B as (g & Hg & E). exists g. split; assumption.
  - intros g Hg E. assert (S : In g (stabiliser D ops p)).
    { unfold stabiliser. apply filter_In. split; [exact Hg | apply veqb_eq; exact E]. }
    specialize (H2 g S). apply existsb_exists in H2 as (h & Hh & Eh). exists h. split; assumption.
  - apply Nat.eqb_eq. exact HL.
Qed.

(* ---- Wyckoff sets --------------------------------------------------------------------- *)
Lemma NoDup_map_nth_inj (f : V3 -> V3) sites i j :
  NoDup (map f sites) -> (i < length sites)%nat -> (j < length sites)%nat ->
  f (nth i sites vzero) = f (nth j sites vzero) -> i = j.
Proof.
  intros N Hi Hj E.
  apply (proj1 (NoDup_nth (map f sites) (f vzero)) N); [rewrite map_length; exact Hi | rewrite map_length; exact Hj|].
  rewrite !map_nth. exact E.
Qed.

Theorem wyckoff_okb_sound D ops sites parts : wyckoff_okb D ops sites parts = true ->
  (* a partition of the atom indices ... *)
  (forall i, (i < length sites)%nat -> count_occ Nat.eq_dec (concat parts) i = 1%nat) /\
  (* ... whose blocks are exactly the orbits: j lies in the block of i iff some operation maps site i onto site j *)
  (forall W i j, In W parts -> In i W -> (j < length sites)%nat ->
     (In j W <-> exists g, In g ops /\ image D g (sitep sites i) = vmod D (sitep sites j))).
Proof.
  unfold wyckoff_okb. intro H. apply andb_true_iff in H as [H HO]. apply andb_true_iff in H as [H HC].
  apply andb_true_iff in H as [HN HB]. apply vnodupb_NoDup in HN.
  rewrite forallb_forall in HC, HO, HB. split.
  - intros i Hi. apply Nat.eqb_eq. apply HC. apply in_seq. lia.
  - intros W i j HW Hi Hj. specialize (HO W HW). rewrite forallb_forall in HO. specialize (HO i Hi).
    apply andb_true_iff in HO as [Hcl Htr]. rewrite forallb_forall in Hcl, Htr. split.
    + intro HjW. specialize (Htr j HjW). apply existsb_exists in Htr as (g & Hg & E).
      exists g. split; [exact Hg | apply veqb_eq; exact E].
    + intros (g & Hg & E). specialize (Hcl g Hg). apply existsb_exists in Hcl as (j' & Hj' & E').
      unfold maps_to in E'. apply veqb_eq in E'. rewrite E in E'.
      assert (Hj'l : (j' < length sites)%nat).
      { specialize (HB W HW). rewrite forallb_forall in HB. apply Nat.ltb_lt. apply HB. exact Hj'. }
      assert (j = j') by (apply (NoDup_map_nth_inj (vmod D) sites j j' HN Hj Hj'l); exact E').
      subst j'. exact Hj'.
Qed.

Theorem check_sites_sound k : check_sites k = 0%nat ->
  (forall sp, In sp (s_species k) -> wyckoff_okb (s_D k) (s_ops k) (fst sp) (snd sp) = true) /\
  (forall pp, In pp (s_pointg k) -> pointgroup_okb (s_D k) (s_ops k) (fst pp) (snd pp) = true) /\
  (forall pw, In pw (s_wpos k) -> wyckoffpos_okb (s_D k) (s_ops k) (fst pw) (snd pw) = true).
Proof.
  unfold check_sites.
  destruct (forallb (fun sp => wyckoff_okb (s_D k) (s_ops k) (fst sp) (snd sp)) (s_species k)) eqn:E1; cbn [negb]; [|discriminate].
  destruct (forallb (fun pp => pointgroup_okb (s_D k) (s_ops k) (fst pp) (snd pp)) (s_pointg k)) eqn:E2; cbn [negb]; [|discriminate].
  destruct (forallb (fun pw => wyckoffpos_okb (s_D k) (s_ops k) (fst pw) (snd pw)) (s_wpos k)) eqn:E3; cbn [negb]; [|discriminate].
  intros _. rewrite forallb_forall in E1, E2, E3. repeat split; assumption.
Qed.

(* ---- non-vacuity: square lattice with atoms at (0,0), (1/2,0), (0,1/2) (D = 2), group C4 ----- *)
Example c4ops : list sop :=
  [(((1,0,0),(0,1,0),(0,0,1)), (0,0,0)); (((0,-1,0),(1,0,0),(0,0,1)), (0,0,0));
   (((-1,0,0),(0,-1,0),(0,0,1)), (0,0,0)); (((0,1,0),(-1,0,0),(0,0,1)), (0,0,0))].
Example lieb_sites : list V3 := [(0,0,0); (1,0,0); (0,1,0)].
Example lieb_wyckoff : wyckoff_okb 2 c4ops lieb_sites [[0%nat]; [1%nat; 2%nat]] = true. Proof. vm_compute. reflexivity. Qed.
Example lieb_wyckoff_wrong : wyckoff_okb 2 c4ops lieb_sites [[0%nat; 1%nat]; [2%nat]] = false. Proof. vm_compute. reflexivity. Qed.
Example lieb_orbit : orbit_pos 4 c4ops (1,0,0) = [(1,0,0); (0,1,0); (3,0,0); (0,3,0)]. Proof. vm_compute. reflexivity. Qed.
Example lieb_pg : pointgroup_okb 2 c4ops (1,0,0)
   [(((1,0,0),(0,1,0),(0,0,1)), (0,0,0)); (((-1,0,0),(0,-1,0),(0,0,1)), (2,0,0))] = true.
Proof. vm_compute. reflexivity. Qed.
