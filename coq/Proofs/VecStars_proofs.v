(* Proofs for Model/VecStars.v (C25): soundness of the fixed-space certificate checker over Z,
   and the projection lemma over an arbitrary ordered ring. *)
From Coq Require Import List ZArith Bool Arith Lia.
From Onsager Require Import Base.OrdRing Base.Instances Model.Stars Model.VecStars Proofs.Stars_proofs.
Import ListNotations.

Section FixedSpace.
Local Open Scope Z_scope.

Lemma veqb_false a b : veqb a b = false <-> a <> b.
Proof. rewrite <- veqb_spec. destruct (veqb a b); split; congruence. Qed.

Lemma memv_spec v l : memv v l = true <-> In v l.
Proof.
  induction l as [|a l IH]; cbn [memv In]; [split; [discriminate | tauto]|].
  destruct (veqb v a) eqn:E.
  - apply veqb_spec in E; subst; tauto.
  - rewrite IH. split; [tauto|]. intros [H|H]; [|exact H]. subst. apply veqb_false in E. congruence.
Qed.

Lemma fixedb_spec mats v : fixedb mats v = true <-> fixedv mats v.
Proof.
  unfold fixedb, fixedv. rewrite forallb_forall. split; intros H S HS; [apply veqb_spec | apply veqb_spec]; apply H; exact HS.
Qed.

(* a fixed vector is annihilated by every row of every S - I *)
Lemma arows_dot mats v a : fixedv mats v -> In a (arows mats) -> vdot a v = 0.
Proof.
  intros Hf Ha. unfold arows in Ha. apply in_flat_map in Ha. destruct Ha as [S [HS Ha]].
  specialize (Hf S HS). destruct S as [[r1 r2] r3]. destruct v as [[v1 v2] v3].
  destruct r1 as [[a11 a12] a13], r2 as [[a21 a22] a23], r3 as [[a31 a32] a33].
  cbn [srows In] in Ha. unfold mulmv, vdot in Hf. injection Hf as H1 H2 H3.
  unfold vsub in Ha. destruct Ha as [Ha|[Ha|[Ha|[]]]]; subst a; unfold vdot; lia.
Qed.

(* ---- m = 0 ---- *)
Lemma cramer0 a1 a2 a3 v : vdot a1 v = 0 -> vdot a2 v = 0 -> vdot a3 v = 0 -> det3 a1 a2 a3 <> 0 -> v = vzero.
Proof.
  destruct a1 as [[a11 a12] a13], a2 as [[a21 a22] a23], a3 as [[a31 a32] a33], v as [[v1 v2] v3].
  unfold det3, vdot, cross, vzero. intros H1 H2 H3 Hd.
  set (D := a11 * (a22 * a33 - a23 * a32) + a12 * (a23 * a31 - a21 * a33) + a13 * (a21 * a32 - a22 * a31)) in *.
  assert (E1 : D * v1 = (a22 * a33 - a23 * a32) * (a11 * v1 + a12 * v2 + a13 * v3)
                      + (a13 * a32 - a12 * a33) * (a21 * v1 + a22 * v2 + a23 * v3)
                      + (a12 * a23 - a13 * a22) * (a31 * v1 + a32 * v2 + a33 * v3)) by (unfold D; ring).
  assert (E2 : D * v2 = (a23 * a31 - a21 * a33) * (a11 * v1 + a12 * v2 + a13 * v3)
                      + (a11 * a33 - a13 * a31) * (a21 * v1 + a22 * v2 + a23 * v3)
                      + (a13 * a21 - a11 * a23) * (a31 * v1 + a32 * v2 + a33 * v3)) by (unfold D; ring).
  assert (E3 : D * v3 = (a21 * a32 - a22 * a31) * (a11 * v1 + a12 * v2 + a13 * v3)
                      + (a12 * a31 - a11 * a32) * (a21 * v1 + a22 * v2 + a23 * v3)
                      + (a11 * a22 - a12 * a21) * (a31 * v1 + a32 * v2 + a33 * v3)) by (unfold D; ring).
  rewrite H1, H2, H3 in E1, E2, E3. rewrite !Z.mul_0_r, !Z.add_0_r in E1, E2, E3.
  apply Z.mul_eq_0 in E1, E2, E3. destruct E1, E2, E3; try contradiction. subst. reflexivity.
Qed.

(* ---- m = 3 ---- *)
Lemma cramer3 b1 b2 b3 v :
  vscale (det3 b1 b2 b3) v = lincomb [det3 v b2 b3; det3 b1 v b3; det3 b1 b2 v] [b1; b2; b3].
Proof.
  destruct b1 as [[b11 b12] b13], b2 as [[b21 b22] b23], b3 as [[b31 b32] b33], v as [[v1 v2] v3].
  unfold lincomb, vscale, vadd, det3, vdot, cross, vzero. f_equal; [f_equal|]; ring.
Qed.

Lemma indep3 b1 b2 b3 c1 c2 c3 : det3 b1 b2 b3 <> 0 -> lincomb [c1; c2; c3] [b1; b2; b3] = vzero ->
  c1 = 0 /\ c2 = 0 /\ c3 = 0.
Proof.
  destruct b1 as [[b11 b12] b13], b2 as [[b21 b22] b23], b3 as [[b31 b32] b33].
  unfold lincomb, vscale, vadd, det3, vdot, cross, vzero. intros Hd H. injection H as H1 H2 H3.
  set (D := b11 * (b22 * b33 - b23 * b32) + b12 * (b23 * b31 - b21 * b33) + b13 * (b21 * b32 - b22 * b31)) in *.
  assert (E1 : D * c1 = (b22 * b33 - b23 * b32) * (c1 * b11 + (c2 * b21 + (c3 * b31 + 0)))
                      + (b23 * b31 - b21 * b33) * (c1 * b12 + (c2 * b22 + (c3 * b32 + 0)))
                      + (b21 * b32 - b22 * b31) * (c1 * b13 + (c2 * b23 + (c3 * b33 + 0)))) by (unfold D; ring).
  assert (E2 : D * c2 = (b13 * b32 - b12 * b33) * (c1 * b11 + (c2 * b21 + (c3 * b31 + 0)))
                      + (b11 * b33 - b13 * b31) * (c1 * b12 + (c2 * b22 + (c3 * b32 + 0)))
                      + (b12 * b31 - b11 * b32) * (c1 * b13 + (c2 * b23 + (c3 * b33 + 0)))) by (unfold D; ring).
  assert (E3 : D * c3 = (b12 * b23 - b13 * b22) * (c1 * b11 + (c2 * b21 + (c3 * b31 + 0)))
                      + (b13 * b21 - b11 * b23) * (c1 * b12 + (c2 * b22 + (c3 * b32 + 0)))
                      + (b11 * b22 - b12 * b21) * (c1 * b13 + (c2 * b23 + (c3 * b33 + 0)))) by (unfold D; ring).
  rewrite H1, H2, H3 in E1, E2, E3. rewrite !Z.mul_0_r, !Z.add_0_r in E1, E2, E3.
  apply Z.mul_eq_0 in E1, E2, E3. destruct E1, E2, E3; try contradiction. tauto.
Qed.

(* ---- vector identities used for m = 1, 2 ---- *)
Lemma dot_self_nz n : n <> vzero -> vdot n n <> 0.
Proof.
  destruct n as [[a b] c]. unfold vdot, vzero. intros H E. apply H.
  assert (a = 0) by nia. assert (b = 0) by nia. assert (c = 0) by nia. subst. reflexivity.
Qed.

Lemma vscale_zero c v : c <> 0 -> vscale c v = vzero -> v = vzero.
Proof.
  destruct v as [[a b] d]. unfold vscale, vzero. intros Hc H. injection H as H1 H2 H3.
  apply Z.mul_eq_0 in H1, H2, H3. destruct H1, H2, H3; try contradiction. subst. reflexivity.
Qed.

Lemma vscale_zero_l c v : v <> vzero -> vscale c v = vzero -> c = 0.
Proof.
  destruct v as [[a b] d]. unfold vscale, vzero. intros Hv H. injection H as H1 H2 H3.
  apply Z.mul_eq_0 in H1, H2, H3. destruct H1 as [H1|H1]; [exact H1|]. destruct H2 as [H2|H2]; [exact H2|].
  destruct H3 as [H3|H3]; [exact H3|]. exfalso. apply Hv. subst. reflexivity.
Qed.

Lemma vscale_0 v : vscale 0 v = vzero.
Proof. destruct v as [[a b] c]. reflexivity. Qed.
Lemma vscale_vzero c : vscale c vzero = vzero.
Proof. unfold vscale, vzero. rewrite Z.mul_0_r. reflexivity. Qed.

(* (a1 x a2) x v = a2 (a1.v) - a1 (a2.v) *)
Lemma cross_triple a1 a2 v :
  cross (cross a1 a2) v = vsub (vscale (vdot a1 v) a2) (vscale (vdot a2 v) a1).
Proof.
  destruct a1 as [[a11 a12] a13], a2 as [[a21 a22] a23], v as [[v1 v2] v3].
  unfold cross, vsub, vscale, vdot. f_equal; [f_equal|]; ring.
Qed.

(* |n|^2 (v x b) = n ((n x v).b) - (n x v)(n.b) + (n x b)(n.v) *)
Lemma lagrange n v b :
  vscale (vdot n n) (cross v b) =
  vadd (vsub (vscale (vdot (cross n v) b) n) (vscale (vdot n b) (cross n v))) (vscale (vdot n v) (cross n b)).
Proof.
  destruct n as [[n1 n2] n3], v as [[v1 v2] v3], b as [[b1 b2] b3].
  unfold cross, vsub, vadd, vscale, vdot. f_equal; [f_equal|]; ring.
Qed.

Lemma vdot_zero_l v : vdot vzero v = 0.
Proof. destruct v as [[a b] c]. reflexivity. Qed.

Lemma parallel_trans n v b : n <> vzero -> cross n v = vzero -> cross n b = vzero -> cross v b = vzero.
Proof.
  intros Hn Hv Hb. apply (vscale_zero (vdot n n)); [apply dot_self_nz; exact Hn|].
  rewrite lagrange, Hv, Hb, vdot_zero_l, !vscale_vzero, vscale_0. reflexivity.
Qed.

(* |b|^2 v = (b.v) b + b x (v x b) *)
Lemma decompose b v : vscale (vdot b b) v = vadd (vscale (vdot b v) b) (cross b (cross v b)).
Proof.
  destruct v as [[v1 v2] v3], b as [[b1 b2] b3]. unfold cross, vadd, vscale, vdot. f_equal; [f_equal|]; ring.
Qed.

Lemma cross_vzero_r b : cross b vzero = vzero.
Proof. destruct b as [[b1 b2] b3]. unfold cross, vzero. f_equal; [f_equal|]; ring. Qed.

(* Binet-Cauchy: |a|^2 (n.v) = (a x n).(a x v) + (a.v)(a.n) *)
Lemma binet a n v : vdot a a * vdot n v = vdot (cross a n) (cross a v) + vdot a v * vdot a n.
Proof.
  destruct a as [[a1 a2] a3], n as [[n1 n2] n3], v as [[v1 v2] v3]. unfold cross, vdot. ring.
Qed.

(* a x (b1 x b2) = b1 (a.b2) - b2 (a.b1) *)
Lemma cross_triple_r a b1 b2 :
  cross a (cross b1 b2) = vsub (vscale (vdot a b2) b1) (vscale (vdot a b1) b2).
Proof.
  destruct a as [[a1 a2] a3], b1 as [[b11 b12] b13], b2 as [[b21 b22] b23].
  unfold cross, vsub, vscale, vdot. f_equal; [f_equal|]; ring.
Qed.

Lemma det3_self b1 b2 : det3 b1 b2 (cross b1 b2) = vdot (cross b1 b2) (cross b1 b2).
Proof.
  destruct b1 as [[b11 b12] b13], b2 as [[b21 b22] b23]. unfold det3, cross, vdot. ring.
Qed.
Lemma det3_last b1 b2 v : det3 b1 b2 v = vdot (cross b1 b2) v.
Proof.
  destruct b1 as [[b11 b12] b13], b2 as [[b21 b22] b23], v as [[v1 v2] v3]. unfold det3, cross, vdot. ring.
Qed.

Lemma vsub_zero : vsub vzero vzero = vzero.
Proof. reflexivity. Qed.

(* ---- the checker is sound ---- *)
Theorem fix_okb_sound mats m basis wit :
  fix_okb mats m basis wit = true -> fixed_space_is mats m basis.
Proof.
  unfold fix_okb. rewrite !andb_true_iff, !forallb_forall. intros [[Hb Hw] Hm].
  assert (HB : forall b, In b basis -> fixedv mats b) by (intros b H; apply fixedb_spec; apply Hb; exact H).
  assert (HW : forall v, fixedv mats v -> forall a, In a wit -> vdot a v = 0).
  { intros v Hv a Ha. apply (arows_dot mats); [exact Hv|]. apply memv_spec. apply Hw. exact Ha. }
  unfold fixed_space_is.
  destruct m as [|[|[|[|m]]]].
  - (* m = 0 *)
    destruct basis as [|? ?]; [|discriminate]. destruct wit as [|a1 [|a2 [|a3 [|? ?]]]]; try discriminate.
    apply negb_true_iff in Hm. apply Z.eqb_neq in Hm.
    split; [reflexivity|]. split; [exact HB|]. split.
    + intros cs Hl _ c Hc. destruct cs; [destruct Hc | discriminate].
    + intros v Hv. exists 1, []. split; [lia|]. split; [reflexivity|].
      assert (v = vzero).
      { apply (cramer0 a1 a2 a3); try exact Hm; apply (HW v Hv); cbn; tauto. }
      subst v. reflexivity.
  - (* m = 1 *)
    destruct basis as [|b [|? ?]]; try discriminate. destruct wit as [|a1 [|a2 [|? ?]]]; try discriminate.
    apply andb_true_iff in Hm. destruct Hm as [Hbn Hn]. apply negb_true_iff in Hbn, Hn.
    apply veqb_false in Hbn, Hn.
    assert (Par : forall v, fixedv mats v -> cross (cross a1 a2) v = vzero).
    { intros v Hv. rewrite cross_triple. rewrite (HW v Hv a1 ltac:(cbn; tauto)), (HW v Hv a2 ltac:(cbn; tauto)). rewrite !vscale_0. reflexivity. }
    split; [reflexivity|]. split; [exact HB|]. split.
    + intros cs Hl H c Hc. destruct cs as [|c1 [|? ?]]; try discriminate. destruct Hc as [Hc|[]]. subst c1.
      cbn [lincomb] in H. rewrite vadd_zero_r in H. apply (vscale_zero_l c b); assumption.
    + intros v Hv. exists (vdot b b), [vdot b v]. split; [apply dot_self_nz; exact Hbn|]. split; [reflexivity|].
      cbn [lincomb]. rewrite vadd_zero_r. rewrite decompose.
      rewrite (parallel_trans (cross a1 a2) v b Hn (Par v Hv) (Par b (HB b (or_introl eq_refl)))).
      rewrite cross_vzero_r, vadd_zero_r. reflexivity.
  - (* m = 2 *)
    destruct basis as [|b1 [|b2 [|? ?]]]; try discriminate. destruct wit as [|a [|? ?]]; try discriminate.
    apply andb_true_iff in Hm. destruct Hm as [Hn Ha]. apply negb_true_iff in Hn, Ha.
    apply veqb_false in Hn, Ha.
    assert (F1 : fixedv mats b1) by (apply HB; cbn; tauto). assert (F2 : fixedv mats b2) by (apply HB; cbn; tauto).
    assert (An : cross a (cross b1 b2) = vzero).
    { rewrite cross_triple_r. rewrite (HW b1 F1 a ltac:(cbn; tauto)), (HW b2 F2 a ltac:(cbn; tauto)). rewrite !vscale_0. reflexivity. }
    assert (Nv : forall v, fixedv mats v -> vdot (cross b1 b2) v = 0).
    { intros v Hv. pose proof (binet a (cross b1 b2) v) as E. rewrite An, vdot_zero_l, (HW v Hv a ltac:(cbn; tauto)) in E.
      cbn in E. apply Z.mul_eq_0 in E. destruct E as [E|E]; [|exact E]. exfalso. apply (dot_self_nz a Ha). exact E. }
    split; [reflexivity|]. split; [exact HB|]. split.
    + intros cs Hl H c Hc. destruct cs as [|c1 [|c2 [|? ?]]]; try discriminate.
      cbn [lincomb] in H. rewrite vadd_zero_r in H.
      assert (E1 : vscale c1 (cross b1 b2) = cross (vadd (vscale c1 b1) (vscale c2 b2)) b2).
      { destruct b1 as [[b11 b12] b13], b2 as [[b21 b22] b23]. unfold cross, vadd, vscale. f_equal; [f_equal|]; ring. }
      assert (E2 : vscale c2 (cross b1 b2) = cross b1 (vadd (vscale c1 b1) (vscale c2 b2))).
      { destruct b1 as [[b11 b12] b13], b2 as [[b21 b22] b23]. unfold cross, vadd, vscale. f_equal; [f_equal|]; ring. }
      rewrite H in E1, E2. rewrite cross_vzero_r in E2.
      assert (Z0 : forall w, cross vzero w = vzero) by (intros [[w1 w2] w3]; reflexivity).
      rewrite Z0 in E1. apply vscale_zero_l in E1; [|exact Hn]. apply vscale_zero_l in E2; [|exact Hn].
      destruct Hc as [Hc|[Hc|[]]]; congruence.
    + intros v Hv. exists (vdot (cross b1 b2) (cross b1 b2)), [det3 v b2 (cross b1 b2); det3 b1 v (cross b1 b2)].
      split; [apply dot_self_nz; exact Hn|]. split; [reflexivity|].
      rewrite <- det3_self. rewrite cramer3. rewrite (det3_last b1 b2 v), (Nv v Hv). cbn [lincomb].
      rewrite vscale_0, !vadd_zero_r. reflexivity.
  - (* m = 3 *)
    destruct basis as [|b1 [|b2 [|b3 [|? ?]]]]; try discriminate. destruct wit as [|? ?]; [|discriminate].
    apply negb_true_iff in Hm. apply Z.eqb_neq in Hm.
    split; [reflexivity|]. split; [exact HB|]. split.
    + intros cs Hl H c Hc. destruct cs as [|c1 [|c2 [|c3 [|? ?]]]]; try discriminate.
      destruct (indep3 b1 b2 b3 c1 c2 c3 Hm H) as [E1 [E2 E3]]. destruct Hc as [Hc|[Hc|[Hc|[]]]]; congruence.
    + intros v Hv. exists (det3 b1 b2 b3), [det3 v b2 b3; det3 b1 v b3; det3 b1 b2 v].
      split; [exact Hm|]. split; [reflexivity | apply cramer3].
  - destruct basis as [|? [|? [|? [|? ?]]]]; destruct wit as [|? [|? [|? [|? ?]]]]; discriminate.
Qed.

(* non-vacuity: mirror x -> -x fixes a plane; 4-fold axis fixes a line; inversion nothing *)
Example fix_mirror :
  (fix_okb [((-1, 0, 0), (0, 1, 0), (0, 0, 1))] 2%nat [(0, 1, 0); (0, 0, 1)] [(-2, 0, 0)] = true) /\
  (fix_okb [((0, -1, 0), (1, 0, 0), (0, 0, 1))] 1%nat [(0, 0, 1)] [(-1, -1, 0); (1, -1, 0)] = true) /\
  (fix_okb [((-1, 0, 0), (0, -1, 0), (0, 0, -1))] 0%nat [] [(-2, 0, 0); (0, -2, 0); (0, 0, -2)] = true) /\
  (fix_okb [((-1, 0, 0), (0, 1, 0), (0, 0, 1))] 1%nat [(0, 1, 0)] [(-2, 0, 0); (0, 0, 0)] = false).
Proof. vm_compute. repeat split; reflexivity. Qed.
End FixedSpace.

(* ================================================================================================
   Projection lemma.  K any ordered ring; A an n x n matrix, Phi an n x m matrix with orthonormal
   columns whose span is invariant under A (A Phi = Phi At: what equivariance + completeness of
   the vector-star basis give), b = Phi beta in the span.  If y solves the REDUCED system
   At y = beta, then x = Phi y solves the FULL system A x = b, the bilinear b.x (= b^T A^-1 b)
   equals beta.y, and the reduced matrix is Phi^T A Phi (the "expansion" contracted with rates).
   No inverse is needed: solutions are certificates. *)
Section Projection.
Variable K : ordring.
Add Ring Kr : (r_ring K).
Variables (n m : nat).
Variables (A Phi At : nat -> nat -> K) (b beta y : nat -> K).
Let Sn (f : nat -> K) : K := sumf f (seq 0 n).
Let Sm (f : nat -> K) : K := sumf f (seq 0 m).

Hypothesis ortho : forall k l, k < m -> l < m -> Sn (fun i => rmul K (Phi i k) (Phi i l)) = ind k l.
Hypothesis invar : forall i k, i < n -> k < m ->
  Sn (fun j => rmul K (A i j) (Phi j k)) = Sm (fun l => rmul K (Phi i l) (At l k)).
Hypothesis bspan : forall i, i < n -> b i = Sm (fun k => rmul K (Phi i k) (beta k)).
Hypothesis solve : forall k, k < m -> Sm (fun l => rmul K (At k l) (y l)) = beta k.

Definition xfull (i : nat) : K := sumf (fun k => rmul K (Phi i k) (y k)) (seq 0 m).

Lemma in_seq0 k N : In k (seq 0 N) -> k < N.
Proof. intro H. apply in_seq in H. lia. Qed.

Theorem proj_solves : forall i, i < n -> Sn (fun j => rmul K (A i j) (xfull j)) = b i.
Proof.
  intros i Hi. unfold Sn, Sm, xfull in *.
  transitivity (sumf (fun j => sumf (fun k => rmul K (rmul K (A i j) (Phi j k)) (y k)) (seq 0 m)) (seq 0 n)).
  { apply sumf_ext. intros j _. rewrite <- sumf_scal. apply sumf_ext. intros k _. ring. }
  rewrite sumf_swap.
  transitivity (sumf (fun k => rmul K (y k) (sumf (fun l => rmul K (Phi i l) (At l k)) (seq 0 m))) (seq 0 m)).
  { apply sumf_ext. intros k Hk. rewrite <- (invar i k Hi (in_seq0 _ _ Hk)). rewrite <- sumf_scal.
    apply sumf_ext. intros j _. ring. }
  transitivity (sumf (fun k => sumf (fun l => rmul K (Phi i l) (rmul K (At l k) (y k))) (seq 0 m)) (seq 0 m)).
  { apply sumf_ext. intros k _. rewrite <- sumf_scal. apply sumf_ext. intros l _. ring. }
  rewrite sumf_swap. rewrite (bspan i Hi). apply sumf_ext. intros l Hl.
  rewrite sumf_scal. rewrite (solve l (in_seq0 _ _ Hl)). reflexivity.
Qed.

Theorem proj_bilinear : Sn (fun i => rmul K (b i) (xfull i)) = Sm (fun k => rmul K (beta k) (y k)).
Proof.
  unfold Sn, Sm, xfull in *.
  transitivity (sumf (fun i => sumf (fun k => sumf (fun l =>
       rmul K (rmul K (beta k) (y l)) (rmul K (Phi i k) (Phi i l))) (seq 0 m)) (seq 0 m)) (seq 0 n)).
  { apply sumf_ext. intros i Hi. rewrite (bspan i (in_seq0 _ _ Hi)).
    rewrite (Rmul_comm (r_ring K)). rewrite <- sumf_scal. apply sumf_ext. intros k _.
    rewrite (Rmul_comm (r_ring K)). rewrite <- sumf_scal. apply sumf_ext. intros l _. ring. }
  rewrite sumf_swap. apply sumf_ext. intros k Hk.
  rewrite sumf_swap.
  transitivity (sumf (fun l => rmul K (rmul K (beta k) (y l)) (ind l k)) (seq 0 m)).
  { apply sumf_ext. intros l Hl. rewrite sumf_scal. f_equal.
    rewrite <- (ortho l k (in_seq0 _ _ Hl) (in_seq0 _ _ Hk)). apply sumf_ext. intros i _. ring. }
  rewrite (sumf_ind_pick K (fun l => rmul K (beta k) (y l)) k m (in_seq0 _ _ Hk)). reflexivity.
Qed.

(* the reduced matrix is the projection Phi^T A Phi of the full one *)
Theorem proj_reduced : forall k l, k < m -> l < m ->
  At k l = Sn (fun i => rmul K (Phi i k) (Sn (fun j => rmul K (A i j) (Phi j l)))).
Proof.
  intros k l Hk Hl. unfold Sn, Sm in *.
  transitivity (sumf (fun i => sumf (fun p => rmul K (At p l) (rmul K (Phi i p) (Phi i k))) (seq 0 m)) (seq 0 n)).
  2:{ apply sumf_ext. intros i Hi. rewrite (invar i l (in_seq0 _ _ Hi) Hl). rewrite <- sumf_scal.
      apply sumf_ext. intros p _. ring. }
  rewrite sumf_swap.
  transitivity (sumf (fun p => rmul K (At p l) (ind p k)) (seq 0 m)).
  { symmetry. apply (sumf_ind_pick K (fun p => At p l) k m Hk). }
  apply sumf_ext. intros p Hp. rewrite sumf_scal. f_equal. symmetry. apply ortho; [exact (in_seq0 _ _ Hp) | exact Hk].
Qed.
End Projection.

(* non-vacuity over Z: Phi = first two unit vectors of Z^3, A block diagonal *)
Local Open Scope Z_scope.
Definition exA (i j : nat) : Z := nth j (nth i [[2; 1; 0]; [1; 3; 0]; [0; 0; 5]] []) 0.
Definition exPhi (i k : nat) : Z := nth k (nth i [[1; 0]; [0; 1]; [0; 0]] []) 0.
Definition exAt (k l : nat) : Z := nth l (nth k [[2; 1]; [1; 3]] []) 0.
Definition exy (k : nat) : Z := nth k [1; 2] 0.
Definition exbeta (k : nat) : Z := nth k [4; 7] 0.
Definition exb (i : nat) : Z := nth i [4; 7; 0] 0.
Example projection_instance :
  (forall k, (k < 2)%nat -> sumf (K:=Zring) (fun l => rmul Zring (exAt k l) (exy l)) (seq 0 2) = exbeta k) /\
  (forall i, (i < 3)%nat -> sumf (K:=Zring) (fun j => rmul Zring (exA i j) (xfull Zring 2 exPhi exy j)) (seq 0 3) = exb i) /\
  sumf (K:=Zring) (fun i => rmul Zring (exb i) (xfull Zring 2 exPhi exy i)) (seq 0 3) = 18.
Proof.
  split; [|split].
  - intros k Hk. destruct k as [|[|k]]; [reflexivity | reflexivity | lia].
  - intros i Hi. destruct i as [|[|[|i]]]; [reflexivity | reflexivity | reflexivity | lia].
  - reflexivity.
Qed.
