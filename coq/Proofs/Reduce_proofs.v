(* Proofs about Model/Reduce.v (property C19). *)
From Coq Require Import ZArith List Bool Arith Lia.
From Onsager Require Import Model.Lattice Model.Reduce Proofs.Lattice_proofs.
Import ListNotations.
Local Open Scope Z_scope.

(* ---- change of basis: volume and metric determinant ------------------------------------------- *)
Theorem det_unimodular_change d A U : (1 <= d <= 3)%nat -> det d U = 1 -> det d (mm d A U) = det d A.
Proof. intros H HU. rewrite det_mm by exact H. rewrite HU. ring. Qed.

Theorem det_supercell d A N : (1 <= d <= 3)%nat -> det d (mm d A N) = det d N * det d A.
Proof. intro H. rewrite det_mm by exact H. ring. Qed.

Theorem metric_det_change d Gm U : (1 <= d <= 3)%nat ->
  det d (mm d (mT U) (mm d Gm U)) = det d U * det d U * det d Gm.
Proof. intro H. rewrite !det_mm by exact H. rewrite det_T. ring. Qed.

(* ---- one reduce() step -------------------------------------------------------------------------- *)
Lemma m3_cases m : (m < 3)%nat -> m = 0%nat \/ m = 1%nat \/ m = 2%nat.
Proof. lia. Qed.

(* det [ T | M e_i | M e_j ] = M^2 |T_m| > 0: the new lattice [A t, a_i, a_j] = A P / M is right-handed
   and its volume is |T_m| / M times the old one *)
Theorem reduce_step_det3 M T m : (m < 3)%nat -> T m <> 0 ->
  det 3 (reduce_P3 M T m) = M * M * Z.abs (T m).
Proof.
  intros Hm HT. unfold reduce_P3, reduce_ij.
  destruct (m3_cases m Hm) as [E|[E|E]]; subst m;
  (destruct (0 <? T _) eqn:S;
   [ apply Z.ltb_lt in S; rewrite Z.abs_eq by lia | apply Z.ltb_ge in S; rewrite Z.abs_neq by lia ];
   unfold det, det3, cols3, vscale, evec, nx; cbn [fst snd Nat.eqb]; ring).
Qed.

Theorem reduce_step_det2 M T m : (m < 2)%nat ->
  det 2 (reduce_P2 M T m) = M * (match m with 0%nat => T 0%nat | _ => - T 1%nat end).
Proof.
  intro Hm. assert (E : m = 0%nat \/ m = 1%nat) by lia. destruct E; subst m;
  unfold det, det2, reduce_P2, cols2, vscale, evec; cbn [Nat.eqb]; ring.
Qed.

(* hence volume per atom is preserved by a step, PROVIDED |T_m| divides M (the code's check uses M // |T_m|) *)
Theorem reduce_step_volume_per_atom M Tm Vold Vnew Nold Nnew :
  Tm <> 0 -> (Z.abs Tm | M) ->
  M * Vnew = Z.abs Tm * Vold ->           (* det of the new lattice, reduce_step_det3 *)
  Nnew * (M / Z.abs Tm) = Nold ->         (* the check made by the code *)
  Vnew * Nold = Vold * Nnew.
Proof.
  intros HT [q Hq] HV HN. assert (Ha : Z.abs Tm <> 0) by lia.
  rewrite Hq in HN. rewrite Z.div_mul in HN by exact Ha. subst Nold.
  rewrite Hq in HV. apply (Z.mul_reg_l _ _ (Z.abs Tm)); [exact Ha|].
  replace (Z.abs Tm * (Vnew * (Nnew * q))) with (q * Z.abs Tm * Vnew * Nnew) by ring. rewrite HV. ring.
Qed.

(* the new cell generates a lattice that CONTAINS the old lattice vectors iff T_m divides M, T_i, T_j:
   sufficiency (3-D), with explicit quotients *)
Theorem reduce_step_contains_old M T m qM qi qj : (m < 3)%nat -> T m <> 0 ->
  M = qM * T m -> T (fst (reduce_ij m (T m))) = qi * T m -> T (snd (reduce_ij m (T m))) = qj * T m ->
  exists Q : mat, forall r c, (r < 3)%nat -> (c < 3)%nat -> mm 3 (reduce_P3 M T m) Q r c = M * mI r c.
Proof.
  intros Hm HT HM Hi Hj.
  set (ij := reduce_ij m (T m)) in *.
  exists (fun k c => match k with
                     | 0%nat => if Nat.eqb c m then qM else 0
                     | 1%nat => if Nat.eqb c m then - qi else if Nat.eqb c (fst ij) then 1 else 0
                     | _ => if Nat.eqb c m then - qj else if Nat.eqb c (snd ij) then 1 else 0 end).
  intros r c Hr Hc. unfold reduce_P3. fold ij. unfold mm. cbn [zsum]. unfold cols3, vscale, evec, mI.
  subst ij. unfold reduce_ij in *.
  destruct (m3_cases m Hm) as [E|[E|E]]; subst m;
  destruct (0 <? T _); cbn [fst snd nx] in *;
  destruct (m3_cases r Hr) as [Er|[Er|Er]]; subst r;
  destruct (m3_cases c Hc) as [Ec|[Ec|Ec]]; subst c; cbn [Nat.eqb];
  try ring; rewrite ?Hi, ?Hj, ?HM; ring.
Qed.

(* ... and it fails for a translation the code accepts: M = 5, T = (2,0,0) (five atoms k/5 along a_0 listed
   in the order 0, 2/5, 4/5, 1/5, 3/5): a_0 is not an integer combination of [A t, a_1, a_2] *)
Theorem reduce_step_refuted :
  exists M T m, (m < 3)%nat /\ T m <> 0 /\
    (forall k, (k < 3)%nat -> T k <> 0 -> Z.abs (T m) <= Z.abs (T k)) /\
    ~ exists Q : mat, forall r c, (r < 3)%nat -> (c < 3)%nat -> mm 3 (reduce_P3 M T m) Q r c = M * mI r c.
Proof.
  exists 5, (vl [2; 0; 0]), 0%nat. split; [lia|]. split; [vm_compute; discriminate|]. split.
  - intros k Hk. destruct (m3_cases k Hk) as [E|[E|E]]; subst k; unfold vl; cbn [nth]; lia.
  - intros [Q HQ]. specialize (HQ 0%nat 0%nat ltac:(lia) ltac:(lia)).
    unfold mm, reduce_P3, reduce_ij, cols3, vscale, evec, mI, vl in HQ. cbn in HQ.
    destruct (Q 0%nat 0%nat); lia.
Qed.

(* ---- minlattice --------------------------------------------------------------------------------- *)
Theorem shear_det d a b u : (2 <= d <= 3)%nat -> (a < d)%nat -> (b < d)%nat -> a <> b -> det d (shear a b u) = 1.
Proof.
  intros Hd Ha Hb Hab. assert (E : d = 2%nat \/ d = 3%nat) by lia. destruct E; subst d.
  - assert (Ea : a = 0%nat \/ a = 1%nat) by lia. assert (Eb : b = 0%nat \/ b = 1%nat) by lia.
    destruct Ea, Eb; subst; try congruence; unfold det, det2, shear, mI; cbn [Nat.eqb andb]; ring.
  - destruct (m3_cases a Ha) as [?|[?|?]]; destruct (m3_cases b Hb) as [?|[?|?]]; subst; try congruence;
      unfold det, det3, shear, mI; cbn [Nat.eqb andb]; ring.
Qed.

Theorem shear_preserves_det d A a b u : (2 <= d <= 3)%nat -> (a < d)%nat -> (b < d)%nat -> a <> b ->
  det d (mm d A (shear a b u)) = det d A.
Proof. intros Hd Ha Hb Hab. apply det_unimodular_change; [lia|]. apply shear_det; assumption. Qed.

Theorem flip_det d P : (2 <= d <= 3)%nat -> det d (flip_last d P) = - det d P.
Proof.
  intro Hd. assert (E : d = 2%nat \/ d = 3%nat) by lia. destruct E; subst d;
  unfold det, det2, det3, flip_last; cbn [Nat.eqb]; ring.
Qed.

(* after the signed permutation step the lattice is right-handed, whatever (unimodular) permutation was chosen *)
Theorem orient_righthanded d A P : (2 <= d <= 3)%nat -> det d A <> 0 -> det d P * det d P = 1 ->
  0 < det d (mm d A (orient d A P)).
Proof.
  intros Hd HA HP. assert (HP' : det d P = 1 \/ det d P = -1) by nia.
  unfold orient. destruct (det d A * det d P <? 0) eqn:S.
  - apply Z.ltb_lt in S. rewrite det_mm by lia. rewrite flip_det by exact Hd. lia.
  - apply Z.ltb_ge in S. rewrite det_mm by lia. destruct HP' as [E|E]; rewrite E in *; lia.
Qed.

(* ---- the summary checker ------------------------------------------------------------------------ *)
Lemma lz_eqb_spec a b : lz_eqb a b = true -> a = b.
Proof.
  revert b. induction a as [|x a IH]; intros [|y b]; cbn [lz_eqb]; intro H; try discriminate; [reflexivity|].
  apply andb_true_iff in H. destruct H as [H1 H2]. apply Z.eqb_eq in H1. rewrite (IH b H2), H1. reflexivity.
Qed.

(* checker true => for EVERY (integer, hence rational after scaling) right-handed primitive lattice A:
   volume per atom equal (cross-multiplied), result right-handed, atoms per species equal, |G| equal *)
Theorem reduce_okb_sound d U cprim cres gprim gres : (1 <= d <= 3)%nat ->
  reduce_okb d U cprim cres gprim gres = true ->
  (forall A : mat, 0 < det d A ->
      det d (mm d A U) * total cprim = det d A * total cres /\ 0 < det d (mm d A U)) /\
  cprim = cres /\ gprim = gres.
Proof.
  intros Hd H. unfold reduce_okb in H.
  apply andb_true_iff in H; destruct H as [H H4]. apply andb_true_iff in H; destruct H as [H H3].
  apply andb_true_iff in H; destruct H as [H1 H2].
  apply Z.eqb_eq in H1. apply Z.ltb_lt in H3. apply Z.eqb_eq in H4. apply lz_eqb_spec in H2.
  split; [|split; assumption]. intros A HA. rewrite det_mm by exact Hd.
  rewrite Z.abs_eq in H1 by lia. split; [|nia].
  replace (det d A * det d U * total cprim) with (det d A * (det d U * total cprim)) by ring. rewrite H1. ring.
Qed.

Lemma reduce_diag_0 d U cp cr gp gr : reduce_diag d U cp cr gp gr = 0%nat <-> reduce_okb d U cp cr gp gr = true.
Proof.
  unfold reduce_diag, reduce_okb.
  destruct (Z.abs (det d U) * total cp =? total cr); cbn [negb andb]; [|split; discriminate].
  destruct (lz_eqb cp cr); cbn [negb andb]; [|split; discriminate].
  destruct (0 <? det d U); cbn [negb andb]; [|split; discriminate].
  destruct (gp =? gr); cbn [negb]; split; try discriminate; reflexivity.
Qed.

(* supercells: an upper-triangular (Hermite normal form) supercell has as many box points as its determinant,
   and a supercell N multiplies the cell volume by det N (det_supercell) *)
Theorem hnf_det3 (N : mat) :
  N 1%nat 0%nat = 0 -> N 2%nat 0%nat = 0 -> N 2%nat 1%nat = 0 ->
  det 3 N = N 0%nat 0%nat * N 1%nat 1%nat * N 2%nat 2%nat.
Proof. intros H1 H2 H3. unfold det, det3. rewrite H1, H2, H3. ring. Qed.

Lemma flat_map_const_length {A B} (f : A -> list B) l n :
  (forall x, In x l -> length (f x) = n) -> length (flat_map f l) = (length l * n)%nat.
Proof.
  induction l as [|a l IH]; intro H; cbn [flat_map length]; [reflexivity|].
  rewrite app_length. rewrite H by (left; reflexivity). rewrite IH by (intros; apply H; right; assumption). lia.
Qed.

Theorem box3_length n0 n1 n2 : length (box3 n0 n1 n2) = (n0 * n1 * n2)%nat.
Proof.
  unfold box3. rewrite (flat_map_const_length _ _ (n1 * n2)%nat).
  - rewrite seq_length. lia.
  - intros x _. rewrite (flat_map_const_length _ _ n2).
    + rewrite seq_length. reflexivity.
    + intros y _. rewrite map_length, seq_length. reflexivity.
Qed.

(* ---- the reducedness certificate --------------------------------------------------------------------------- *)
Lemma pair_reduced_min Gm i j u : pair_reducedb Gm i j = true -> Gm j j <= pair_len Gm i j u.
Proof.
  unfold pair_reducedb, pair_len. intro H. apply Z.leb_le in H.
  assert (H1 : - Gm i i <= 2 * Gm i j <= Gm i i) by lia.
  assert (H0 : 0 <= Gm i i) by lia.
  destruct (Z.lt_trichotomy u 0) as [Hu|[Hu|Hu]].
  - assert (0 <= (- u) * ((- u - 1) * Gm i i) + (- u) * (Gm i i + 2 * Gm i j)) by (apply Z.add_nonneg_nonneg; apply Z.mul_nonneg_nonneg; try apply Z.mul_nonneg_nonneg; lia).
    replace (Gm j j - 2 * u * Gm i j + u * u * Gm i i)
      with (Gm j j + ((- u) * ((- u - 1) * Gm i i) + (- u) * (Gm i i + 2 * Gm i j))) by ring. lia.
  - subst u. lia.
  - assert (0 <= u * ((u - 1) * Gm i i) + u * (Gm i i - 2 * Gm i j)) by (apply Z.add_nonneg_nonneg; apply Z.mul_nonneg_nonneg; try apply Z.mul_nonneg_nonneg; lia).
    replace (Gm j j - 2 * u * Gm i j + u * u * Gm i i)
      with (Gm j j + (u * ((u - 1) * Gm i i) + u * (Gm i i - 2 * Gm i j))) by ring. lia.
Qed.

(* certificate true => the cell is sorted by length and no pair reduction a_j - u a_i (any integer u, i < j) shortens a vector:
   minlattice() has nothing left to do *)
Theorem reducedb_sound d Gm : reducedb d Gm = true ->
  (forall i j, (i < j)%nat -> (j < d)%nat -> Gm i i <= Gm j j /\ forall u, Gm j j <= pair_len Gm i j u).
Proof.
  intros H i j Hij Hj. destruct d as [|[|[|[|d]]]]; try discriminate; cbn [reducedb] in H.
  - apply andb_true_iff in H; destruct H as [H H3]. apply andb_true_iff in H; destruct H as [H1 H2].
    assert (i = 0%nat) by lia. assert (j = 1%nat) by lia. subst. apply Z.leb_le in H2.
    split; [exact H2 | intro u; apply pair_reduced_min; exact H3].
  - apply andb_true_iff in H; destruct H as [H P12]. apply andb_true_iff in H; destruct H as [H P02].
    apply andb_true_iff in H; destruct H as [H P01]. apply andb_true_iff in H; destruct H as [H S12].
    apply andb_true_iff in H; destruct H as [_ S01]. apply Z.leb_le in S01. apply Z.leb_le in S12.
    assert (C : (i = 0%nat /\ j = 1%nat) \/ (i = 0%nat /\ j = 2%nat) \/ (i = 1%nat /\ j = 2%nat)) by lia.
    destruct C as [[? ?]|[[? ?]|[? ?]]]; subst; (split; [lia | intro u; apply pair_reduced_min; assumption]).
Qed.

(* ---- non-vacuity --------------------------------------------------------------------------------- *)
Example ex_reduce_step : det 3 (reduce_P3 4 (vl [2; -4; 0]) 0) = 4 * 4 * 2.
Proof. reflexivity. Qed.
Example ex_reduce_ok : reduce_okb 3 (ml [[0;1;0];[0;0;1];[1;0;0]]) [1;2] [1;2] 48 48 = true.
Proof. reflexivity. Qed.
Example ex_reduce_lefthanded : reduce_diag 3 (ml [[0;1;0];[1;0;0];[0;0;1]]) [1;2] [1;2] 48 48 = 3%nat.
Proof. reflexivity. Qed.
Example ex_reduce_notprimitive : reduce_diag 3 (ml [[2;0;0];[0;1;0];[0;0;1]]) [1;2] [1;2] 48 48 = 1%nat.
Proof. reflexivity. Qed.
Example ex_orient : det 2 (mm 2 (ml [[1;0];[0;1]]) (orient 2 (ml [[1;0];[0;1]]) (ml [[0;1];[1;0]]))) = 1.
Proof. reflexivity. Qed.
Example ex_reduced : reducedb 3 (ml [[2;-1;0];[-1;2;0];[0;0;5]]) = true /\ reducedb 3 (ml [[2;2;0];[2;4;0];[0;0;5]]) = false.
Proof. split; reflexivity. Qed.
