(* Non-vacuity: concrete networks over Z meeting the hypotheses of the Net / NetMaps / Lump theorems. *)
From Coq Require Import List ZArith Bool Arith Lia.
From Onsager Require Import Base.OrdRing Base.Instances Model.Net Model.Interstitial Model.NetMaps Model.Lump
     Proofs.Net_proofs Proofs.Interstitial_proofs Proofs.NetMaps_proofs Proofs.Lump_proofs.
Import ListNotations.
Local Open Scope Z_scope.

(* a two-site cell on a 1-D lattice: sites 0,1; jumps 0->1 (dx=+1, rate class 0), 1->0 (-1), 0->1 through the cell
   boundary (dx=-2, class 1), 1->0 (+2): unequal rates => non-trivial corrector *)
Definition jumps1 : list (jump Zring) :=
  [mkJump (K:=Zring) 0 1 0 [1]; mkJump (K:=Zring) 1 0 0 [-1]; mkJump (K:=Zring) 0 1 1 [-2]; mkJump (K:=Zring) 1 0 1 [2]].
Definition wT1 : list Z := [3; 1].
Definition N1 : net Zring := net_of (K:=Zring) wT1 jumps1.

(* exact corrector (scaled): gamma = [0; 1]*(1/4)... here everything scaled by 4: displacements x4, gamma x4 *)
Definition jumps1s : list (jump Zring) :=
  [mkJump (K:=Zring) 0 1 0 [4]; mkJump (K:=Zring) 1 0 0 [-4]; mkJump (K:=Zring) 0 1 1 [-8]; mkJump (K:=Zring) 1 0 1 [8]].
Definition gam1 : list (list Z) := [[0; -1]].

Example ex_check_case :
  check_case (K:=Zring) 2 1 wT1 jumps1s gam1 [[216]] [[216]] = true.
Proof. vm_compute. reflexivity. Qed.

Example ex_correctors_exist :
  weakKCL (net_of (K:=Zring) wT1 jumps1s) (comp (K:=Zring) 0) (fld (K:=Zring) (nth 0 gam1 [])).
Proof.
  apply (KCLb_weak Zring _ 2); vm_compute; reflexivity.
Qed.

(* Rayleigh: raising class 1 from 1 to 5 dominates *)
Example ex_dominated : dominated (net_of (K:=Zring) wT1 jumps1s) (net_of (K:=Zring) [3; 5] jumps1s).
Proof. apply dominatedb_sound. vm_compute. reflexivity. Qed.

(* symmetry: inversion (Rm = -1, sites fixed... here the inversion centre swaps nothing: p = id) maps the net onto itself *)
Example ex_iso : isob (K:=Zring) 1 [[-1]] (permfun [1%nat; 0%nat]) (net_of (K:=Zring) wT1 jumps1s) = true.
Proof. vm_compute. reflexivity. Qed.

(* reversal closed *)
Example ex_revclosed : revclosedPb (K:=Zring) (net_of (K:=Zring) wT1 jumps1s) = true.
Proof. vm_compute. reflexivity. Qed.

(* lumping: two copies of a 1-site ring (states 0,1 both projecting to 0) fibre over the 1-site network *)
Definition NYx : net Zring := [mkEdge (K:=Zring) 0 0 2 [1]; mkEdge (K:=Zring) 0 0 2 [-1]].
Definition NXx : net Zring := [mkEdge (K:=Zring) 0 1 2 [1]; mkEdge (K:=Zring) 1 0 2 [-1]; mkEdge (K:=Zring) 1 0 2 [1]; mkEdge (K:=Zring) 0 1 2 [-1]].
Example ex_fibration : fibrationb (K:=Zring) NXx NYx 2 (fun _ => 0%nat) (fun l => l) = true.
Proof. vm_compute. reflexivity. Qed.
