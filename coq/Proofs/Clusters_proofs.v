(* C31: theorems about Model/Clusters.v -- for every crystal with rational lattice-coordinate
   geometry, every cutoff, every order, every exclusion list. *)
From Coq Require Import List Arith Bool ZArith Lia ZifyBool Permutation Sorted.
From Onsager Require Import Model.Clusters.
Import ListNotations.
Local Open Scope Z_scope.

(* ================================================================== vectors, positioned sites *)
Lemma vec_ext (a0 a1 a2 b0 b1 b2 : Z) : a0 = b0 -> a1 = b1 -> a2 = b2 -> (a0, a1, a2) = (b0, b1, b2).
Proof. intros -> -> ->. reflexivity. Qed.
Lemma veqb_eq a b : veqb a b = true <-> a = b.
Proof.
  destruct a as [[a0 a1] a2], b as [[b0 b1] b2]. unfold veqb. split; intro H.
  - assert (a0 = b0 /\ a1 = b1 /\ a2 = b2) as (-> & -> & ->) by lia. reflexivity.
  - injection H as -> -> ->. lia.
Qed.

Lemma veqb_refl a : veqb a a = true.
Proof. apply veqb_eq. reflexivity. Qed.

Lemma peqb_eq p q : peqb p q = true <-> p = q.
Proof.
  destruct p as [s R], q as [s' R']. unfold peqb. cbn [p_site p_R]. rewrite andb_true_iff, Nat.eqb_eq, veqb_eq.
  split; [intros [-> ->]; reflexivity | intro H; injection H as -> ->; split; reflexivity].
Qed.

Lemma peqb_refl p : peqb p p = true.
Proof. apply peqb_eq. reflexivity. Qed.

Lemma peqb_false p q : peqb p q = false <-> p <> q.
Proof.
  split.
  - intros H E. subst. rewrite peqb_refl in H. discriminate.
  - intro H. destruct (peqb p q) eqn:E; [apply peqb_eq in E; contradiction | reflexivity].
Qed.

Lemma pleb_total p q : pleb p q = true \/ pleb q p = true.
Proof.
  destruct p as [s [[x y] z]], q as [s' [[x' y'] z']]. unfold pleb, vleb. cbn [p_site p_R]. lia.
Qed.

Lemma pleb_trans p q r : pleb p q = true -> pleb q r = true -> pleb p r = true.
Proof.
  destruct p as [s [[x y] z]], q as [s' [[x' y'] z']], r as [s'' [[x'' y''] z'']].
  unfold pleb, vleb. cbn [p_site p_R]. lia.
Qed.

Lemma pleb_antisym p q : pleb p q = true -> pleb q p = true -> p = q.
Proof.
  destruct p as [s [[x y] z]], q as [s' [[x' y'] z']]. unfold pleb, vleb. cbn [p_site p_R]. intros H1 H2.
  assert (s = s' /\ x = x' /\ y = y' /\ z = z') as (-> & -> & -> & ->) by lia. reflexivity.
Qed.

Lemma pleb_shift T p q : pleb (shift T p) (shift T q) = pleb p q.
Proof.
  destruct p as [s [[x y] z]], q as [s' [[x' y'] z']], T as [[t0 t1] t2].
  unfold pleb, vleb, shift, vadd. cbn [p_site p_R]. lia.
Qed.

Lemma shift_shift T T' p : shift T' (shift T p) = shift (vadd T T') p.
Proof.
  destruct p as [s [[x y] z]], T as [[t0 t1] t2], T' as [[u0 u1] u2]. unfold shift, vadd. cbn [p_site p_R].
  f_equal. apply vec_ext; lia.
Qed.

Lemma shift_zero p : shift vzero p = p.
Proof. destruct p as [s [[x y] z]]. unfold shift, vadd, vzero. cbn [p_site p_R]. f_equal. apply vec_ext; lia. Qed.

Lemma vadd_neg T : vadd T (vneg T) = vzero.
Proof. destruct T as [[a b] c]. unfold vadd, vneg, vzero. apply vec_ext; lia. Qed.

Lemma shift_inj T p q : shift T p = shift T q -> p = q.
Proof.
  intro H. assert (E : shift (vneg T) (shift T p) = shift (vneg T) (shift T q)) by (rewrite H; reflexivity).
  rewrite !shift_shift, vadd_neg, !shift_zero in E. exact E.
Qed.

Lemma site_shift T p : p_site (shift T p) = p_site p.
Proof. reflexivity. Qed.

Lemma map_shift_shift T T' l : map (shift T') (map (shift T) l) = map (shift (vadd T T')) l.
Proof. rewrite map_map. apply map_ext. intro p. apply shift_shift. Qed.

Lemma map_shift_zero l : map (shift vzero) l = l.
Proof. rewrite <- (map_id l) at 2. apply map_ext. intro p. apply shift_zero. Qed.

(* ================================================================== sorting, canonical form *)
Definition ple (p q : psite) : Prop := pleb p q = true.

Lemma pinsert_perm p l : Permutation (pinsert p l) (p :: l).
Proof.
  induction l as [|q l IH]; cbn [pinsert]; [apply Permutation_refl|].
  destruct (pleb p q); [apply Permutation_refl|].
  eapply Permutation_trans; [apply perm_skip; exact IH | apply perm_swap].
Qed.

Lemma psort_perm l : Permutation (psort l) l.
Proof.
  induction l as [|p l IH]; cbn [psort]; [apply Permutation_refl|].
  eapply Permutation_trans; [apply pinsert_perm | apply perm_skip; exact IH].
Qed.

Lemma pinsert_sorted p l : StronglySorted ple l -> StronglySorted ple (pinsert p l).
Proof.
  induction l as [|q l IH]; intro H; cbn [pinsert].
  - constructor; [constructor | constructor].
  - inversion H as [|q' l' Hs Hf]; subst. destruct (pleb p q) eqn:E.
    + constructor; [exact H|]. constructor; [exact E|].
      rewrite Forall_forall in *. intros r Hr. eapply pleb_trans; [exact E | apply Hf; exact Hr].
    + constructor; [apply IH; exact Hs|].
      rewrite Forall_forall in *. intros r Hr.
      apply (Permutation_in _ (pinsert_perm p l)) in Hr. destruct Hr as [<-|Hr].
      * destruct (pleb_total p q) as [C|C]; [unfold ple in *; congruence | exact C].
      * apply Hf; exact Hr.
Qed.

Lemma psort_sorted l : StronglySorted ple (psort l).
Proof. induction l as [|p l IH]; cbn [psort]; [constructor | apply pinsert_sorted; exact IH]. Qed.

Lemma sorted_unique l : forall l', StronglySorted ple l -> StronglySorted ple l' -> Permutation l l' -> l = l'.
Proof.
  induction l as [|a l IH]; intros l' H H' P.
  - apply Permutation_nil in P. subst; reflexivity.
  - destruct l' as [|b l']; [apply Permutation_sym, Permutation_nil in P; discriminate|].
    inversion H as [|a0 l0 Hs Hf]; subst. inversion H' as [|b0 l0' Hs' Hf']; subst.
    assert (E : a = b).
    { assert (Ia : In a (b :: l')) by (eapply Permutation_in; [exact P | left; reflexivity]).
      assert (Ib : In b (a :: l)) by (eapply Permutation_in; [apply Permutation_sym; exact P | left; reflexivity]).
      destruct Ia as [->|Ia]; [reflexivity|]. destruct Ib as [->|Ib]; [reflexivity|].
      rewrite Forall_forall in Hf, Hf'. apply pleb_antisym; [apply Hf; exact Ib | apply Hf'; exact Ia]. }
    subst b. f_equal. apply IH; [exact Hs | exact Hs' | eapply Permutation_cons_inv; exact P].
Qed.

Lemma psort_of_perm l l' : Permutation l l' -> psort l = psort l'.
Proof.
  intro P. apply sorted_unique; try apply psort_sorted.
  eapply Permutation_trans; [apply psort_perm|]. eapply Permutation_trans; [exact P | apply Permutation_sym, psort_perm].
Qed.

Lemma pinsert_shift T p l : pinsert (shift T p) (map (shift T) l) = map (shift T) (pinsert p l).
Proof.
  induction l as [|q l IH]; cbn [pinsert map]; [reflexivity|].
  rewrite pleb_shift. destruct (pleb p q); cbn [map]; [reflexivity | rewrite IH; reflexivity].
Qed.

Lemma psort_shift T l : psort (map (shift T) l) = map (shift T) (psort l).
Proof. induction l as [|p l IH]; cbn [psort map]; [reflexivity|]. rewrite IH. apply pinsert_shift. Qed.

Lemma canon_shift T l : canon (map (shift T) l) = canon l.
Proof.
  unfold canon. rewrite psort_shift. destruct (psort l) as [|h t]; [reflexivity|].
  assert (EV : vadd T (vneg (p_R (shift T h))) = vneg (p_R h)).
  { destruct h as [s [[x y] z]], T as [[t0 t1] t2]. unfold shift, vadd, vneg. cbn [p_site p_R].
    apply vec_ext; lia. }
  cbn [map]. rewrite shift_shift, map_shift_shift, EV. reflexivity.
Qed.

Lemma canon_perm l l' : Permutation l l' -> canon l = canon l'.
Proof. intro P. unfold canon. rewrite (psort_of_perm l l' P). reflexivity. Qed.

(* canonical form is a complete invariant of clusters modulo order and translation *)
Theorem canon_equiv l l' : equiv l l' -> canon l = canon l'.
Proof. intros [T P]. rewrite (canon_perm l' _ P). symmetry. apply canon_shift. Qed.

Theorem canon_is_equiv l : equiv l (canon l).
Proof.
  unfold equiv, canon. destruct (psort l) as [|h t] eqn:E.
  - exists vzero. assert (l = []) by (apply Permutation_nil; rewrite <- E; apply psort_perm). subst. constructor.
  - exists (vneg (p_R h)). apply Permutation_map. rewrite <- E. apply psort_perm.
Qed.

Theorem canon_eq_equiv l l' : canon l = canon l' -> equiv l l'.
Proof.
  intro E. destruct (canon_is_equiv l) as [T P], (canon_is_equiv l') as [T' P'].
  exists (vadd T (vneg T')). rewrite <- map_shift_shift.
  apply Permutation_sym. eapply Permutation_trans; [apply Permutation_map; apply Permutation_sym; exact P|].
  rewrite E. eapply Permutation_trans; [apply Permutation_map; exact P'|].
  rewrite map_shift_shift, vadd_neg, map_shift_zero. apply Permutation_refl.
Qed.

Lemma canon_length l : length (canon l) = length l.
Proof.
  unfold canon. pose proof (Permutation_length (psort_perm l)) as H. destruct (psort l) as [|h t]; [exact H|].
  rewrite map_length. exact H.
Qed.

Lemma cl_eqb_eq a b : cl_eqb a b = true <-> a = b.
Proof.
  revert b; induction a as [|p a IH]; intros [|q b]; cbn [cl_eqb]; split; intro H; try reflexivity; try discriminate.
  - apply andb_true_iff in H. destruct H as [H1 H2]. apply peqb_eq in H1. apply IH in H2. subst; reflexivity.
  - injection H as -> ->. rewrite peqb_refl. apply IH. reflexivity.
Qed.

Lemma cl_mem_In c l : cl_mem c l = true <-> In c l.
Proof.
  unfold cl_mem. rewrite existsb_exists. split.
  - intros [d [Hd E]]. apply cl_eqb_eq in E. subst; exact Hd.
  - intro H. exists c. split; [exact H | apply cl_eqb_eq; reflexivity].
Qed.

Lemma dedup_In c l : In c (dedup l) <-> In c l.
Proof.
  induction l as [|d l IH]; cbn [dedup]; [tauto|].
  destruct (cl_mem d l) eqn:E.
  - rewrite IH. split; [intro H; right; exact H|]. intros [<-|H]; [apply cl_mem_In; exact E | exact H].
  - cbn [In]. rewrite IH. tauto.
Qed.

Lemma dedup_NoDup l : NoDup (dedup l).
Proof.
  induction l as [|d l IH]; cbn [dedup]; [constructor|].
  destruct (cl_mem d l) eqn:E; [exact IH|]. constructor; [|exact IH].
  rewrite dedup_In. intro H. apply cl_mem_In in H. congruence.
Qed.

(* ================================================================== geometry *)
Lemma quad_neg G v : quad G (vneg v) = quad G v.
Proof. destruct G as [[[[[g11 g22] g33] g12] g13] g23], v as [[x y] z]. unfold quad, vneg. ring. Qed.

Section GeomProofs.
Variable ge : geom.

Lemma dvec_neg s0 s1 R : dvec ge s1 s0 (vneg R) = vneg (dvec ge s0 s1 R).
Proof.
  unfold dvec. destruct (Uof ge s0) as [[a0 a1] a2], (Uof ge s1) as [[b0 b1] b2], R as [[x y] z].
  unfold vadd, vscale, vsub, vneg. apply vec_ext; ring.
Qed.

Lemma nbrb_sym s0 s1 R : nbrb ge s1 s0 (vneg R) = nbrb ge s0 s1 R.
Proof. unfold nbrb, d2. rewrite dvec_neg, quad_neg. reflexivity. Qed.

Lemma vsub_neg a b : vsub a b = vneg (vsub b a).
Proof. destruct a as [[a0 a1] a2], b as [[b0 b1] b2]. unfold vsub, vneg. apply vec_ext; lia. Qed.

Lemma nbr_sym p q : nbr ge p q -> nbr ge q p.
Proof. unfold nbr. intro H. rewrite vsub_neg, nbrb_sym. exact H. Qed.

Lemma vsub_shift T a b : vsub (vadd a T) (vadd b T) = vsub a b.
Proof.
  destruct a as [[a0 a1] a2], b as [[b0 b1] b2], T as [[t0 t1] t2]. unfold vsub, vadd. apply vec_ext; lia.
Qed.

Lemma nbr_shift T p q : nbr ge (shift T p) (shift T q) <-> nbr ge p q.
Proof. unfold nbr, shift. cbn [p_site p_R]. rewrite vsub_shift. tauto. Qed.

Lemma in_dim_shift T R : in_dim ge T -> in_dim ge R -> in_dim ge (vadd R T).
Proof.
  unfold in_dim. destruct T as [[t0 t1] t2], R as [[x y] z]. cbn [snd vadd]. intros [H|H] [H'|H']; try (left; assumption).
  right. lia.
Qed.

(* ---- enumeration of the search box ---- *)
Lemma in_zrange n x : In x (zrange n) <-> - n <= x <= n.
Proof.
  unfold zrange. rewrite in_map_iff. split.
  - intros [k [<- Hk]]. apply in_seq in Hk. lia.
  - intro H. exists (Z.to_nat (x + n)). split; [lia | apply in_seq; lia].
Qed.

Lemma in_boxlistw w R : In R (boxlistw w) <-> in_boxw w R = true.
Proof.
  destruct w as [[n0 n1] n2], R as [[x y] z]. unfold boxlistw, in_boxw. rewrite in_flat_map. split.
  - intros [x' [Hx H]]. rewrite in_flat_map in H. destruct H as [y' [Hy H]]. rewrite in_map_iff in H.
    destruct H as [z' [E Hz]]. injection E as -> -> ->. rewrite in_zrange in *. lia.
  - intro H. exists x. split; [apply in_zrange; lia|]. rewrite in_flat_map. exists y. split; [apply in_zrange; lia|].
    rewrite in_map_iff. exists z. split; [reflexivity | apply in_zrange; lia].
Qed.

Lemma In_sitelist s : In s (sitelist ge) <-> allowed ge s = true.
Proof.
  unfold sitelist. rewrite filter_In, in_seq. split; [tauto|]. intro H. split; [|exact H].
  unfold allowed in H. apply andb_true_iff in H. destruct H as [H _]. apply Nat.ltb_lt in H. lia.
Qed.

Lemma In_nn s0 p : In p (nn ge s0) <-> nnb ge s0 p = true.
Proof.
  unfold nn, nnb. rewrite in_flat_map. split.
  - intros [s1 [Hs H]]. rewrite in_map_iff in H. destruct H as [R [<- HR]]. rewrite filter_In in HR.
    destruct HR as [HR1 HR2]. cbn [p_site p_R]. apply In_sitelist in Hs. apply in_boxlistw in HR1.
    unfold in_boxb. rewrite Hs, HR1, HR2. reflexivity.
  - intro H. apply andb_true_iff in H. destruct H as [H H3]. apply andb_true_iff in H. destruct H as [H1 H2].
    exists (p_site p). split; [apply In_sitelist; exact H1|]. rewrite in_map_iff. exists (p_R p).
    split; [destruct p; reflexivity|]. rewrite filter_In. split; [apply in_boxlistw; exact H2 | exact H3].
Qed.

(* ---- cliques ---- *)
Lemma clique_perm l l' : Permutation l l' -> clique ge l -> clique ge l'.
Proof.
  intros P (H1 & H2 & H3). split; [eapply Permutation_NoDup; eassumption|]. split.
  - intros p Hp. apply H2. eapply Permutation_in; [apply Permutation_sym; exact P | exact Hp].
  - intros p q Hp Hq. apply H3; (eapply Permutation_in; [apply Permutation_sym; exact P | assumption]).
Qed.

Lemma NoDup_map_shift T l : NoDup l -> NoDup (map (shift T) l).
Proof.
  induction 1 as [|p l Hp Hn IH]; cbn [map]; constructor; [|exact IH].
  rewrite in_map_iff. intros [q [E Hq]]. apply shift_inj in E. subst. contradiction.
Qed.

Lemma clique_shift T l : in_dim ge T -> clique ge l -> clique ge (map (shift T) l).
Proof.
  intros HT (H1 & H2 & H3). split; [apply NoDup_map_shift; exact H1|]. split.
  - intros p Hp. rewrite in_map_iff in Hp. destruct Hp as [q [<- Hq]]. destruct (H2 q Hq) as [Ha Hd].
    split; [exact Ha | apply in_dim_shift; assumption].
  - intros p q Hp Hq Hne. rewrite in_map_iff in Hp, Hq. destruct Hp as [p' [<- Hp']], Hq as [q' [<- Hq']].
    apply nbr_shift. apply H3; try assumption. intro E. subst. contradiction.
Qed.

Lemma in_dim_neg R : in_dim ge R -> in_dim ge (vneg R).
Proof. unfold in_dim. destruct R as [[x y] z]. cbn [snd vneg]. intros [H|H]; [left; exact H | right; lia]. Qed.

Lemma clique_canon l : clique ge l -> clique ge (canon l).
Proof.
  intro H. unfold canon. destruct (psort l) as [|h t] eqn:E; [rewrite <- E; eapply clique_perm; [apply Permutation_sym, psort_perm | exact H]|].
  assert (Hs : clique ge (h :: t)) by (rewrite <- E; eapply clique_perm; [apply Permutation_sym, psort_perm | exact H]).
  apply clique_shift; [|exact Hs]. apply in_dim_neg. destruct Hs as (_ & H2 & _). apply (H2 h). left; reflexivity.
Qed.

Lemma existsb_peqb_In p l : existsb (peqb p) l = true <-> In p l.
Proof.
  rewrite existsb_exists. split.
  - intros [q [Hq E]]. apply peqb_eq in E. subst; exact Hq.
  - intro H. exists p. split; [exact H | apply peqb_refl].
Qed.

(* one extension step keeps cliques *)
Lemma extend_clique cl neigh :
  clique ge cl -> (exists h, In h cl) -> extend_ok ge cl neigh = true ->
  (forall c, In c cl -> in_dim ge (p_R c)) -> in_dim ge (p_R neigh) -> allowed ge (p_site neigh) = true ->
  clique ge (cl ++ [neigh]).
Proof.
  intros (H1 & H2 & H3) _ He Hd Hdn Han. unfold extend_ok in He. apply andb_true_iff in He. destruct He as [He1 He2].
  apply negb_true_iff in He1.
  assert (Hni : ~ In neigh cl).
  { intro Hin. apply existsb_peqb_In in Hin. congruence. }
  rewrite forallb_forall in He2.
  assert (Hnb : forall c, In c cl -> nbr ge neigh c).
  { intros c Hc. specialize (He2 c Hc). unfold nnb in He2. cbn [p_site p_R] in He2.
    apply andb_true_iff in He2. destruct He2 as [_ He2]. exact He2. }
  split; [|split].
  - apply (Permutation_NoDup (l := neigh :: cl)); [apply Permutation_cons_append|]. constructor; assumption.
  - intros p Hp. apply in_app_or in Hp. destruct Hp as [Hp|[<-|[]]]; [apply H2; exact Hp | split; assumption].
  - intros p q Hp Hq Hne. apply in_app_or in Hp. apply in_app_or in Hq.
    destruct Hp as [Hp|[<-|[]]], Hq as [Hq|[<-|[]]].
    + apply H3; assumption.
    + apply nbr_sym. apply Hnb. exact Hp.
    + apply Hnb. exact Hq.
    + contradiction.
Qed.

Lemma singles_spec cl : In cl (singles ge) <-> exists s, allowed ge s = true /\ cl = [mkP s vzero].
Proof.
  unfold singles. rewrite in_map_iff. split.
  - intros [s [<- Hs]]. exists s. split; [apply In_sitelist; exact Hs | reflexivity].
  - intros [s [Hs ->]]. exists s. split; [reflexivity | apply In_sitelist; exact Hs].
Qed.

Lemma in_dim_zero : in_dim ge vzero.
Proof. right. reflexivity. Qed.

Lemma In_grow cl prev : In cl (grow ge prev) <->
  exists c h t neigh, In c prev /\ c = h :: t /\ nnb ge (p_site h) neigh = true /\ extend_ok ge c neigh = true /\
                      cl = canon (c ++ [neigh]).
Proof.
  unfold grow. rewrite dedup_In, in_flat_map. split.
  - intros [c [Hc H]]. unfold grow1 in H. destruct c as [|h t]; [destruct H|].
    rewrite in_map_iff in H. destruct H as [neigh [<- Hn]]. rewrite filter_In in Hn. destruct Hn as [Hn1 Hn2].
    exists (h :: t), h, t, neigh. repeat split; try assumption. apply In_nn. exact Hn1.
  - intros (c & h & t & neigh & Hc & -> & Hn & He & ->). exists (h :: t). split; [exact Hc|].
    unfold grow1. rewrite in_map_iff. exists neigh. split; [reflexivity|]. rewrite filter_In. split; [apply In_nn; exact Hn | exact He].
Qed.

Lemma nnb_in_dim_aux : True. Proof. exact I. Qed.

(* box vectors of a 2-D crystal have third coordinate 0 *)
Lemma in_boxb_in_dim R : in_boxb ge R = true -> in_dim ge R.
Proof.
  unfold in_boxb, in_boxw, nmaxv, in_dim. destruct (g_G ge) as [[[[[g11 g22] g33] g12] g13] g23].
  destruct R as [[x y] z]. cbn [snd]. destruct (Nat.leb_spec 3 (g_dim ge)) as [L|L]; [left; exact L|].
  destruct (g_box ge) as [| |[[w0 w1] w2]]; [| destruct (adjdiag ge) as [[[a1 a2] a3] dt] |]; intro H; right; lia.
Qed.

(* ---- soundness: everything enumerated is a clique of the right size ---- *)
Theorem enum_sound k cl : In cl (enumerate ge k) -> clique ge cl /\ length cl = k.
Proof.
  revert cl. induction k as [|k IH]; intros cl H; [destruct H|].
  cbn [enumerate] in H. destruct k as [|k'].
  - apply singles_spec in H. destruct H as [s [Hs ->]]. split; [|reflexivity].
    split; [constructor; [intros []|constructor]|]. split.
    + intros p [<-|[]]. split; [exact Hs | apply in_dim_zero].
    + intros p q [<-|[]] [<-|[]] Hne. contradiction.
  - apply In_grow in H. destruct H as (c & h & t & neigh & Hc & -> & Hn & He & ->).
    destruct (IH _ Hc) as [Hcl Hlen]. split.
    + apply clique_canon. unfold nnb in Hn. apply andb_true_iff in Hn. destruct Hn as [Hn _].
      apply andb_true_iff in Hn. destruct Hn as [Hn1 Hn2].
      apply extend_clique; try assumption.
      * exists h. left; reflexivity.
      * intros c0 Hc0. destruct Hcl as (_ & H2 & _). apply (H2 c0 Hc0).
      * apply in_boxb_in_dim. exact Hn2.
    + rewrite canon_length, app_length. cbn [length] in *. lia.
Qed.

(* the first site of a canonical non-empty cluster sits at the origin *)
Lemma canon_head l h t : canon l = h :: t -> p_R h = vzero.
Proof.
  unfold canon. destruct (psort l) as [|h0 t0]; [discriminate|]. cbn [map]. intro E. injection E as <- _.
  unfold shift. cbn [p_R]. apply vadd_neg.
Qed.

Lemma vsub_zero a : vsub a vzero = a.
Proof. destruct a as [[a0 a1] a2]. unfold vsub, vzero. apply vec_ext; lia. Qed.

(* ---- completeness: every clique is enumerated (as its canonical form) when the box suffices ---- *)
Theorem enum_complete :
  range_ok ge -> forall k cl, clique ge cl -> length cl = k -> (1 <= k)%nat -> In (canon cl) (enumerate ge k).
Proof.
  intros Hrange k. induction k as [|k IH]; intros cl Hcl Hlen Hk; [lia|].
  cbn [enumerate]. destruct k as [|k'].
  - destruct cl as [|p [|? ?]]; try discriminate. apply singles_spec. exists (p_site p).
    destruct Hcl as (_ & H2 & _). destruct (H2 p (or_introl eq_refl)) as [Ha _]. split; [exact Ha|].
    unfold canon. cbn [psort pinsert map]. unfold shift. cbn [p_site p_R]. rewrite vadd_neg. reflexivity.
  - destruct cl as [|v rest]; [discriminate|]. cbn [length] in Hlen.
    pose proof Hcl as (N1 & N2 & N3).
    assert (Hrest : clique ge rest).
    { inversion N1; subst. split; [assumption|]. split.
      - intros p Hp. apply N2. right; exact Hp.
      - intros p q Hp Hq. apply N3; right; assumption. }
    assert (Hin : In (canon rest) (enumerate ge (S k'))) by (apply IH; [exact Hrest | lia | lia]).
    destruct (canon_is_equiv rest) as [T PT].
    destruct (canon rest) as [|h t] eqn:Ec.
    { pose proof (canon_length rest) as Hl. rewrite Ec in Hl. cbn [length] in Hl. lia. }
    set (v' := shift T v).
    (* T keeps 2-D vectors 2-D: it is minus the lattice vector of a site of rest *)
    assert (HTd : in_dim ge T).
    { assert (Hh : In h (map (shift T) rest)) by (eapply Permutation_in; [exact PT | left; reflexivity]).
      rewrite in_map_iff in Hh. destruct Hh as [r [Er Hr]]. pose proof (canon_head rest h t Ec) as Hz.
      rewrite <- Er in Hz. unfold shift in Hz. cbn [p_R] in Hz.
      destruct (N2 r (or_intror Hr)) as [_ Hrd]. unfold in_dim in *. destruct Hrd as [L|L]; [left; exact L|].
      right. destruct (p_R r) as [[x y] z], T as [[t0 t1] t2]. unfold vadd, vzero in Hz. cbn [snd] in *.
      injection Hz as _ _ Hz. lia. }
    assert (Hall : clique ge (map (shift T) (v :: rest))) by (apply clique_shift; assumption).
    cbn [map] in Hall. fold v' in Hall.
    assert (Hperm : Permutation (v' :: map (shift T) rest) (v' :: h :: t)) by (apply perm_skip, Permutation_sym; exact PT).
    assert (Hall' : clique ge (v' :: h :: t)) by (eapply clique_perm; eassumption).
    destruct Hall' as (M1 & M2 & M3).
    assert (Hvn : ~ In v' (h :: t)) by (inversion M1; assumption).
    assert (Hz : p_R h = vzero) by (eapply canon_head; exact Ec).
    apply In_grow. exists (h :: t), h, t, v'. split; [exact Hin|]. split; [reflexivity|].
    destruct (M2 v' (or_introl eq_refl)) as [Hav Hdv].
    assert (Hhv : nbr ge h v').
    { apply M3; [right; left; reflexivity | left; reflexivity|]. intro E. apply Hvn. left. exact E. }
    split; [|split].
    + (* v' is in the neighbour list of the first site *)
      unfold nnb. rewrite Hav. cbn [andb]. unfold nbr in Hhv. rewrite Hz, vsub_zero in Hhv. rewrite Hhv, andb_true_r.
      destruct (M2 h (or_intror (or_introl eq_refl))) as [Hah _].
      apply (Hrange (p_site h) (p_site v') (p_R v') Hah Hav Hdv Hhv).
    + (* and all sites of the cluster are in the neighbour list of v' *)
      unfold extend_ok. apply andb_true_iff. split.
      * apply negb_true_iff. destruct (existsb (peqb v') (h :: t)) eqn:E; [|reflexivity].
        apply existsb_peqb_In in E. contradiction.
      * apply forallb_forall. intros c Hc. destruct (M2 c (or_intror Hc)) as [Hac Hdc].
        assert (Hvc : nbr ge v' c).
        { apply M3; [left; reflexivity | right; exact Hc|]. intro E. apply Hvn. rewrite E. exact Hc. }
        unfold nnb. cbn [p_site p_R]. rewrite Hac. cbn [andb]. unfold nbr in Hvc. rewrite Hvc, andb_true_r.
        apply (Hrange (p_site v') (p_site c) _ Hav Hac); [|exact Hvc].
        unfold in_dim in *. destruct Hdc as [L|L]; [left; exact L|]. destruct Hdv as [L'|L']; [left; exact L'|].
        right. destruct (p_R c) as [[x y] z], (p_R v') as [[x' y'] z']. cbn [snd vsub] in *. lia.
    + (* the new cluster is the canonical form of the clique we started from *)
      apply canon_equiv. exists T. cbn [map]. fold v'.
      eapply Permutation_trans; [apply Permutation_sym, Permutation_cons_append|]. exact (Permutation_sym Hperm).
Qed.

End GeomProofs.

(* ================================================================== Part 2: range certificates *)
Lemma quad_add a b v : quad (six_add a b) v = quad a v + quad b v.
Proof.
  destruct a as [[[[[a1 a2] a3] a4] a5] a6], b as [[[[[b1 b2] b3] b4] b5] b6], v as [[x y] z].
  unfold quad, six_add. ring.
Qed.

Lemma quad_scale k a v : quad (six_scale k a) v = k * quad a v.
Proof. destruct a as [[[[[a1 a2] a3] a4] a5] a6], v as [[x y] z]. unfold quad, six_scale. ring. Qed.

Lemma six_eqb_eq a b : six_eqb a b = true -> a = b.
Proof.
  destruct a as [[[[[a1 a2] a3] a4] a5] a6], b as [[[[[b1 b2] b3] b4] b5] b6]. unfold six_eqb. intro H.
  assert (a1 = b1 /\ a2 = b2 /\ a3 = b3 /\ a4 = b4 /\ a5 = b5 /\ a6 = b6) as (-> & -> & -> & -> & -> & ->) by lia.
  reflexivity.
Qed.

Lemma quad_sq w l v : quad (sq_form w l) v = w * (vdot l v * vdot l v).
Proof. destruct l as [[a b] c], v as [[x y] z]. unfold quad, sq_form, vdot. ring. Qed.

Lemma quad_unit i c v : quad (unit_form i c) v = c * (coord i v * coord i v).
Proof. destruct v as [[x y] z]. destruct i as [|[|i]]; unfold quad, unit_form, coord; ring. Qed.

Lemma quad_terms_nonneg ts v : forallb (fun t => Z.leb 0 (fst t)) ts = true -> 0 <= quad (terms_form ts) v.
Proof.
  induction ts as [|[w l] ts IH]; cbn [terms_form fold_right forallb fst snd]; intro H.
  - destruct v as [[x y] z]. unfold quad. lia.
  - apply andb_true_iff in H. destruct H as [H1 H2]. fold (terms_form ts). rewrite quad_add, quad_sq.
    specialize (IH H2). assert (0 <= w) by lia. pose proof (Z.square_nonneg (vdot l v)). nia.
Qed.

Section RangeProofs.
Variable ge : geom.

Lemma rcert_bound w i ct x :
  0 < g_r2d ge -> rcert_okb ge w i ct = true ->
  quad (g_G ge) x * g_r2d ge < g_r2n ge * g_sg ge * g_D ge * g_D ge ->
  Z.abs (coord i x) <= rc_B ct.
Proof.
  intros Hd H Hq. unfold rcert_okb in H.
  repeat (apply andb_true_iff in H; destruct H as [H ?]).
  assert (Hs : 0 < rc_s ct) by lia. assert (Hc : 0 < rc_c ct) by lia. assert (HB : 0 <= rc_B ct) by lia.
  match goal with E : six_eqb _ _ = true |- _ => apply six_eqb_eq in E; rename E into E6 end.
  assert (Eq : rc_s ct * quad (g_G ge) x = rc_c ct * (coord i x * coord i x) + quad (terms_form (rc_terms ct)) x).
  { rewrite <- quad_scale, E6, quad_add, quad_unit. reflexivity. }
  assert (Hn : 0 <= quad (terms_form (rc_terms ct)) x) by (apply quad_terms_nonneg; assumption).
  match goal with E : Z.leb (rc_s ct * _) _ = true |- _ => apply Z.leb_le in E; rename E into Hb end.
  destruct (Z_le_gt_dec (Z.abs (coord i x)) (rc_B ct)) as [L|L]; [exact L|]. exfalso.
  set (a := Z.abs (coord i x)) in *.
  assert (Ha : coord i x * coord i x = a * a) by (unfold a; lia).
  assert (A1 : (rc_B ct + 1) * (rc_B ct + 1) <= a * a) by nia.
  assert (A2 : rc_c ct * ((rc_B ct + 1) * (rc_B ct + 1)) <= rc_s ct * quad (g_G ge) x) by nia.
  assert (A3 : rc_c ct * (rc_B ct + 1) * (rc_B ct + 1) * g_r2d ge <= rc_s ct * (quad (g_G ge) x * g_r2d ge)) by nia.
  assert (A4 : rc_s ct * (quad (g_G ge) x * g_r2d ge) < rc_s ct * (g_r2n ge * g_sg ge * g_D ge * g_D ge)) by nia.
  lia.
Qed.

Lemma coord_dvec i s0 s1 R :
  coord i (dvec ge s0 s1 R) = g_D ge * coord i R + coord i (vsub (Uof ge s1) (Uof ge s0)).
Proof.
  unfold dvec. destruct (Uof ge s0) as [[a0 a1] a2], (Uof ge s1) as [[b0 b1] b2], R as [[x y] z].
  destruct i as [|[|i]]; unfold coord, vadd, vscale, vsub; ring.
Qed.

Lemma rcert_width w i ct s0 s1 R :
  0 < g_D ge -> 0 < g_r2d ge -> rcert_okb ge w i ct = true -> (s0 < nsites ge)%nat -> (s1 < nsites ge)%nat ->
  nbrb ge s0 s1 R = true -> Z.abs (coord i R) <= coord i w.
Proof.
  intros HD Hd H Hs0 Hs1 Hn.
  assert (Hq : quad (g_G ge) (dvec ge s0 s1 R) * g_r2d ge < g_r2n ge * g_sg ge * g_D ge * g_D ge).
  { unfold nbrb, d2 in Hn. lia. }
  pose proof (rcert_bound w i ct _ Hd H Hq) as HB. rewrite coord_dvec in HB.
  unfold rcert_okb in H. apply andb_true_iff in H. destruct H as [_ H].
  rewrite forallb_forall in H. specialize (H s0 (proj2 (in_seq _ _ _) (conj (Nat.le_0_l _) Hs0))).
  rewrite forallb_forall in H. specialize (H s1 (proj2 (in_seq _ _ _) (conj (Nat.le_0_l _) Hs1))).
  apply Z.ltb_lt in H.
  set (du := coord i (vsub (Uof ge s1) (Uof ge s0))) in *. set (r := coord i R) in *. set (wi := coord i w) in *.
  destruct (Z_le_gt_dec (Z.abs r) wi) as [L|L]; [exact L|]. exfalso.
  assert (g_D ge * (wi + 1) <= Z.abs (g_D ge * r)) by (rewrite Z.abs_mul; nia).
  lia.
Qed.

Lemma allowed_lt s : allowed ge s = true -> (s < nsites ge)%nat.
Proof. unfold allowed. intro H. apply andb_true_iff in H. destruct H as [H _]. apply Nat.ltb_lt in H. exact H. Qed.

(* a checked certificate set confines every neighbour vector to the box of half-widths w *)
Theorem certs_box w certs s0 s1 R :
  certs_okb ge w certs = true -> (s0 < nsites ge)%nat -> (s1 < nsites ge)%nat -> in_dim ge R ->
  nbrb ge s0 s1 R = true -> in_boxw w R = true.
Proof.
  intros H Hs0 Hs1 Hdim Hn. unfold certs_okb in H.
  repeat (apply andb_true_iff in H; destruct H as [H ?]).
  assert (HD : 0 < g_D ge) by lia. assert (Hd : 0 < g_r2d ge) by lia.
  match goal with E : rcert_okb ge w 0 _ = true |- _ => pose proof (rcert_width w 0 _ s0 s1 R HD Hd E Hs0 Hs1 Hn) as B0 end.
  match goal with E : rcert_okb ge w 1 _ = true |- _ => pose proof (rcert_width w 1 _ s0 s1 R HD Hd E Hs0 Hs1 Hn) as B1 end.
  assert (B2 : Z.abs (coord 2 R) <= coord 2 w).
  { destruct (Nat.leb_spec 3 (g_dim ge)) as [L|L].
    - match goal with E : rcert_okb ge w 2 _ = true |- _ => exact (rcert_width w 2 _ s0 s1 R HD Hd E Hs0 Hs1 Hn) end.
    - destruct Hdim as [L'|Hz]; [lia|]. destruct R as [[x y] z], w as [[w0 w1] w2]. cbn [snd coord] in *. lia. }
  destruct R as [[x y] z], w as [[w0 w1] w2]. unfold in_boxw. cbn [coord] in *. lia.
Qed.

Theorem range_okb_sound certs : range_okb ge certs = true -> range_ok ge.
Proof.
  intros H s0 s1 R H0 H1 Hd Hn. unfold in_boxb. eapply certs_box; try eassumption; apply allowed_lt; assumption.
Qed.

Theorem range_okb2_sound w certs : range_okb2 ge w certs = true -> range_ok ge.
Proof.
  unfold range_okb2. intro H. apply andb_true_iff in H. destruct H as [Hc Hf].
  intros s0 s1 R H0 H1 Hd Hn. apply allowed_lt in H0. apply allowed_lt in H1.
  pose proof (certs_box w certs s0 s1 R Hc H0 H1 Hd Hn) as Hb. apply in_boxlistw in Hb.
  rewrite forallb_forall in Hf. specialize (Hf s0 (proj2 (in_seq _ _ _) (conj (Nat.le_0_l _) H0))).
  rewrite forallb_forall in Hf. specialize (Hf s1 (proj2 (in_seq _ _ _) (conj (Nat.le_0_l _) H1))).
  rewrite forallb_forall in Hf. specialize (Hf R Hb). rewrite Hn in Hf. cbn [negb orb] in Hf. exact Hf.
Qed.

(* the headline: on certified input the enumeration is exactly the set of cliques *)
Corollary enum_exact certs k cl :
  range_okb ge certs = true \/ (exists w, range_okb2 ge w certs = true) -> (1 <= k)%nat ->
  (In cl (enumerate ge k) -> clique ge cl /\ length cl = k) /\
  (clique ge cl -> length cl = k -> In (canon cl) (enumerate ge k)).
Proof.
  intros H Hk. split; [apply enum_sound|]. intros Hc Hl. apply enum_complete; try assumption.
  destruct H as [H|[w H]]; [eapply range_okb_sound; exact H | eapply range_okb2_sound; exact H].
Qed.

(* ================================================================== Part 3: symmetry *)
Lemma mulmv_add M a b : mulmv M (vadd a b) = vadd (mulmv M a) (mulmv M b).
Proof.
  destruct M as [[[[m00 m01] m02] [[m10 m11] m12]] [[m20 m21] m22]], a as [[a0 a1] a2], b as [[b0 b1] b2].
  unfold mulmv, vadd, vdot. apply vec_ext; ring.
Qed.

Lemma mulmv_scale M k a : mulmv M (vscale k a) = vscale k (mulmv M a).
Proof.
  destruct M as [[[[m00 m01] m02] [[m10 m11] m12]] [[m20 m21] m22]], a as [[a0 a1] a2].
  unfold mulmv, vscale, vdot. apply vec_ext; ring.
Qed.

Lemma quad_mtgm M G v : quad G (mulmv M v) = quad (mtgm M G) v.
Proof.
  destruct M as [[[[m00 m01] m02] [[m10 m11] m12]] [[m20 m21] m22]], G as [[[[[g11 g22] g33] g12] g13] g23], v as [[x y] z].
  unfold quad, mtgm, mulmv, vdot. ring.
Qed.

Theorem gop_isometry g p q :
  gop_okb ge g = true -> (p_site p < nsites ge)%nat -> (p_site q < nsites ge)%nat ->
  (nbr ge (act_site g p) (act_site g q) <-> nbr ge p q) /\
  allowed ge (p_site (act_site g p)) = allowed ge (p_site p).
Proof.
  intros H Hp Hq. unfold gop_okb in H.
  apply andb_true_iff in H. destruct H as [H HU]. apply andb_true_iff in H. destruct H as [H HC].
  apply andb_true_iff in H. destruct H as [EG _]. apply six_eqb_eq in EG.
  rewrite forallb_forall in HU. specialize (HU _ (proj2 (in_seq _ _ _) (conj (Nat.le_0_l _) Hp))).
  rewrite forallb_forall in HU. specialize (HU _ (proj2 (in_seq _ _ _) (conj (Nat.le_0_l _) Hq))).
  rewrite forallb_forall in HC. pose proof (HC _ (proj2 (in_seq _ _ _) (conj (Nat.le_0_l _) Hp))) as HCp.
  unfold act_site. destruct (nth (p_site p) (go_map g) (O, vzero)) as [p' dp] eqn:Ep.
  destruct (nth (p_site q) (go_map g) (O, vzero)) as [q' dq] eqn:Eq.
  apply veqb_eq in HU. apply andb_true_iff in HCp. destruct HCp as [HC1 HC2]. apply Nat.ltb_lt in HC1. apply Nat.eqb_eq in HC2.
  split.
  - unfold nbr, nbrb, d2. cbn [p_site p_R].
    assert (Ed : dvec ge p' q' (vsub (vadd (mulmv (go_rot g) (p_R q)) dq) (vadd (mulmv (go_rot g) (p_R p)) dp))
                 = mulmv (go_rot g) (dvec ge (p_site p) (p_site q) (vsub (p_R q) (p_R p)))).
    { unfold dvec. rewrite mulmv_add, mulmv_scale, HU.
      assert (EL : mulmv (go_rot g) (vsub (p_R q) (p_R p)) = vsub (mulmv (go_rot g) (p_R q)) (mulmv (go_rot g) (p_R p))).
      { destruct (go_rot g) as [[[[m00 m01] m02] [[m10 m11] m12]] [[m20 m21] m22]], (p_R q) as [[a0 a1] a2], (p_R p) as [[b0 b1] b2].
        unfold mulmv, vsub, vdot. apply vec_ext; ring. }
      rewrite EL.
      destruct (mulmv (go_rot g) (p_R q)) as [[a0 a1] a2], (mulmv (go_rot g) (p_R p)) as [[b0 b1] b2],
        dq as [[c0 c1] c2], dp as [[d0 d1] d2], (Uof ge q') as [[e0 e1] e2], (Uof ge p') as [[f0 f1] f2].
      unfold vadd, vsub, vscale. apply vec_ext; ring. }
    rewrite Ed, quad_mtgm, EG. tauto.
  - cbn [p_site]. unfold allowed. rewrite HC2. destruct (Nat.ltb_spec p' (nsites ge)); [|lia].
    destruct (Nat.ltb_spec (p_site p) (nsites ge)); [|lia]. reflexivity.
Qed.

End RangeProofs.

(* ---- orbit partition checker ---- *)
Section OrbitProofs.
Variable cn : clus -> clus.
Variable ops : list gop.
Variable extra : list (clus -> clus).

Definition is_orbit (orb : list clus) : Prop :=
  exists rep rest, orb = rep :: rest /\
    (forall c g, In c orb -> In g ops -> In (act cn g c) orb) /\
    (forall c f, In c orb -> In f extra -> In (f c) orb) /\
    (forall c, In c orb -> exists g, In g ops /\ (act cn g rep = c \/ exists f, In f extra /\ act cn g (f rep) = c)).

Theorem orbit_okb_sound orb : orbit_okb cn ops extra orb = true -> is_orbit orb.
Proof.
  unfold orbit_okb, is_orbit. destruct orb as [|rep rest]; [discriminate|]. intro H.
  apply andb_true_iff in H. destruct H as [H1 H2]. exists rep, rest. split; [reflexivity|].
  rewrite forallb_forall in H1, H2. split; [|split].
  - intros c g Hc Hg. specialize (H1 c Hc). apply andb_true_iff in H1. destruct H1 as [H1 _].
    rewrite forallb_forall in H1. apply cl_mem_In. apply H1. exact Hg.
  - intros c f Hc Hf. specialize (H1 c Hc). apply andb_true_iff in H1. destruct H1 as [_ H1].
    rewrite forallb_forall in H1. apply cl_mem_In. apply H1. exact Hf.
  - intros c Hc. specialize (H2 c Hc). rewrite existsb_exists in H2. destruct H2 as [g [Hg H2]]. exists g. split; [exact Hg|].
    apply orb_true_iff in H2. destruct H2 as [H2|H2].
    + left. apply cl_eqb_eq. exact H2.
    + right. rewrite existsb_exists in H2. destruct H2 as [f [Hf H2]]. exists f. split; [exact Hf | apply cl_eqb_eq; exact H2].
Qed.

Lemma nodupb_sound l : nodupb l = true -> NoDup l.
Proof.
  induction l as [|c l IH]; cbn [nodupb]; intro H; [constructor|]. apply andb_true_iff in H. destruct H as [H1 H2].
  constructor; [|apply IH; exact H2]. intro Hin. apply cl_mem_In in Hin. rewrite Hin in H1. discriminate.
Qed.

Lemma disjointb_sound orbs : disjointb orbs = true -> ForallOrdPairs (fun o o' => forall c, In c o -> ~ In c o') orbs.
Proof.
  induction orbs as [|o rest IH]; cbn [disjointb]; intro H; [constructor|]. apply andb_true_iff in H. destruct H as [H1 H2].
  constructor; [|apply IH; exact H2]. rewrite Forall_forall. intros o' Ho' c Hc Hc'.
  rewrite forallb_forall in H1. specialize (H1 c Hc). rewrite forallb_forall in H1. specialize (H1 o' Ho').
  apply cl_mem_In in Hc'. rewrite Hc' in H1. discriminate.
Qed.

Theorem partition_okb_sound orbs : partition_okb cn ops extra orbs = true ->
  (forall o, In o orbs -> is_orbit o /\ NoDup o) /\ ForallOrdPairs (fun o o' => forall c, In c o -> ~ In c o') orbs.
Proof.
  unfold partition_okb. intro H. apply andb_true_iff in H. destruct H as [H H3]. apply andb_true_iff in H. destruct H as [H1 H2].
  split; [|apply disjointb_sound; exact H3]. intros o Ho. rewrite forallb_forall in H1, H2.
  split; [apply orbit_okb_sound; apply H1; exact Ho | apply nodupb_sound; apply H2; exact Ho].
Qed.

Lemma set_eqb_sound a b : set_eqb a b = true -> forall c, In c a <-> In c b.
Proof.
  unfold set_eqb. intro H. apply andb_true_iff in H. destruct H as [H1 H2]. rewrite forallb_forall in H1, H2.
  intro c. split; intro Hc; apply cl_mem_In; [apply H1 | apply H2]; exact Hc.
Qed.
End OrbitProofs.

(* without extra generators an accepted orbit is exactly { g.rep : g in ops } *)
Corollary orbit_exact cn ops orb : orbit_okb cn ops [] orb = true ->
  exists rep, forall c, In c orb <-> exists g, In g ops /\ act cn g rep = c.
Proof.
  intro H. apply orbit_okb_sound in H. destruct H as (rep & rest & -> & H1 & _ & H3). exists rep. intro c. split.
  - intro Hc. destruct (H3 c Hc) as [g [Hg [E|[f [[] _]]]]]. exists g. split; assumption.
  - intros [g [Hg <-]]. apply H1; [left; reflexivity | exact Hg].
Qed.

(* ================================================================== Part 5: the Cluster value type *)
Lemma vsum_perm l l' : Permutation l l' -> vsum l = vsum l'.
Proof.
  induction 1 as [| x l l' _ IH | x y l | l l' l'' _ IH1 _ IH2]; cbn [vsum fold_right].
  - reflexivity.
  - fold (vsum l) (vsum l'). rewrite IH. reflexivity.
  - fold (vsum l). destruct x as [[x0 x1] x2], y as [[y0 y1] y2], (vsum l) as [[s0 s1] s2]. unfold vadd. apply vec_ext; lia.
  - rewrite IH1. exact IH2.
Qed.

Lemma vsum_shift T l : vsum (map p_R (map (shift T) l)) = vadd (vsum (map p_R l)) (vscale (Z.of_nat (length l)) T).
Proof.
  induction l as [|p l IH]; cbn [map vsum fold_right length].
  - destruct T as [[t0 t1] t2]. unfold vadd, vscale, vzero. apply vec_ext; lia.
  - fold (vsum (map p_R (map (shift T) l))) (vsum (map p_R l)). rewrite IH. unfold shift. cbn [p_R].
    destruct (p_R p) as [[x y] z], T as [[t0 t1] t2], (vsum (map p_R l)) as [[s0 s1] s2].
    unfold vadd, vscale. apply vec_ext; lia.
Qed.

Lemma keys_from_shift tt k T N c : forall l i,
  keys_from tt k i N (vadd c (vscale N T)) (map (shift T) l) = keys_from tt k i N c l.
Proof.
  induction l as [|p l IH]; intro i; cbn [map keys_from]; [reflexivity|]. rewrite IH. f_equal. f_equal.
  unfold shift. cbn [p_site p_R]. destruct (p_R p) as [[x y] z], T as [[t0 t1] t2], c as [[c0 c1] c2].
  unfold vsub, vscale, vadd. apply vec_ext; ring.
Qed.

Lemma ckeys_shift tt k T l : ckeys tt k (map (shift T) l) = ckeys tt k l.
Proof. unfold ckeys. rewrite map_length, vsum_shift. apply keys_from_shift. Qed.

Lemma sinsert_perm p l : Permutation (sinsert p l) (p :: l).
Proof.
  induction l as [|q l IH]; cbn [sinsert]; [apply Permutation_refl|].
  destruct (Nat.leb (p_site p) (p_site q)); [apply Permutation_refl|].
  eapply Permutation_trans; [apply perm_skip; exact IH | apply perm_swap].
Qed.

Lemma ssort_perm l : Permutation (ssort l) l.
Proof.
  induction l as [|p l IH]; cbn [ssort]; [apply Permutation_refl|].
  eapply Permutation_trans; [apply sinsert_perm | apply perm_skip; exact IH].
Qed.

Lemma sinsert_shift T p l : sinsert (shift T p) (map (shift T) l) = map (shift T) (sinsert p l).
Proof.
  induction l as [|q l IH]; cbn [sinsert map]; [reflexivity|]. rewrite !site_shift.
  destruct (Nat.leb (p_site p) (p_site q)); cbn [map]; [reflexivity | rewrite IH; reflexivity].
Qed.

Lemma ssort_shift T l : ssort (map (shift T) l) = map (shift T) (ssort l).
Proof. induction l as [|p l IH]; cbn [ssort map]; [reflexivity|]. rewrite IH. apply sinsert_shift. Qed.

(* Cluster.__init__ gives literally the same object for a translated site list *)
Theorem Cluster_translate tt k T l : Cluster tt k (map (shift T) l) = Cluster tt k l.
Proof.
  unfold Cluster, mk_sites. f_equal. rewrite firstn_map, skipn_map, ssort_shift, <- map_app.
  destruct (firstn (nspecial k) l ++ ssort (skipn (nspecial k) l)) as [|h t]; [reflexivity|].
  assert (EV : vadd T (vneg (p_R (shift T h))) = vneg (p_R h)).
  { destruct h as [s [[x y] z]], T as [[t0 t1] t2]. unfold shift, vadd, vneg. cbn [p_site p_R]. apply vec_ext; lia. }
  cbn [map]. rewrite shift_shift, map_shift_shift, EV. reflexivity.
Qed.

Lemma ckey_eqb_refl x : ckey_eqb x x = true.
Proof. destruct x as [[t s] v]. unfold ckey_eqb. rewrite !Nat.eqb_refl, veqb_refl. reflexivity. Qed.

Lemma key_subset_incl a b : (forall x, In x a -> In x b) -> key_subset a b = true.
Proof.
  intro H. unfold key_subset. apply forallb_forall. intros x Hx. apply existsb_exists. exists x.
  split; [apply H; exact Hx | apply ckey_eqb_refl].
Qed.

Lemma shift_neg_origin p x : p_R p = vzero -> shift (vneg (p_R p)) x = x.
Proof. intros ->. replace (vneg vzero) with vzero by reflexivity. apply shift_zero. Qed.

Lemma mk_sites_head k l h t : mk_sites k l = h :: t -> p_R h = vzero.
Proof.
  unfold mk_sites. destruct (firstn (nspecial k) l ++ ssort (skipn (nspecial k) l)) as [|h0 t0]; [discriminate|].
  cbn [map]. intro E. injection E as <- _. unfold shift. cbn [p_R]. apply vadd_neg.
Qed.

Lemma mk_sites_length k l : length (mk_sites k l) = length l.
Proof.
  unfold mk_sites.
  assert (E : length (firstn (nspecial k) l ++ ssort (skipn (nspecial k) l)) = length l).
  { rewrite app_length, (Permutation_length (ssort_perm _)), <- app_length, firstn_skipn. reflexivity. }
  destruct (firstn (nspecial k) l ++ ssort (skipn (nspecial k) l)) as [|h t]; [exact E|]. rewrite map_length. exact E.
Qed.

(* the transition pair of a constructed cluster is recognised by the cluster itself *)
Lemma istransition_self tt k l a b t : mk_sites k l = a :: b :: t -> istransition (Cluster tt k l) a b = true.
Proof.
  intro E. unfold istransition, Cluster. cbn [c_sites c_kind]. rewrite E.
  pose proof (mk_sites_head k l a (b :: t) E) as Hz. rewrite !(shift_neg_origin a) by exact Hz.
  rewrite !peqb_refl. reflexivity.
Qed.

Theorem ceq_refl tt k l : (nspecial k <= length l)%nat -> ceq (Cluster tt k l) (Cluster tt k l) = true.
Proof.
  intro Hl. unfold ceq, ckeys_of. cbn [c_kind c_sites c_tt Cluster].
  assert (Ek : ckind_eqb k k = true) by (destruct k; reflexivity). rewrite Ek, Nat.eqb_refl.
  rewrite !key_subset_incl by (intros x Hx; exact Hx). cbn [andb].
  destruct (is_ts k) eqn:Ets; [|reflexivity].
  assert (H2 : (2 <= length (mk_sites k l))%nat) by (rewrite mk_sites_length; destruct k; cbn [nspecial] in Hl; try discriminate; lia).
  remember (mk_sites k l) as ms eqn:E. destruct ms as [|a [|b t]]; cbn [length] in H2; try lia.
  symmetry in E. exact (istransition_self tt k l a b t E).
Qed.

Theorem Cluster_eq_translate tt k T l : (nspecial k <= length l)%nat -> ceq (Cluster tt k l) (Cluster tt k (map (shift T) l)) = true.
Proof. intro H. rewrite Cluster_translate. apply ceq_refl. exact H. Qed.

(* ---- reordering of the non-special sites ---- *)
Lemma tag_zero tt k i : (nspecial k <= i)%nat -> tag tt k i = O.
Proof. destruct k; cbn [nspecial tag]; intro H; try reflexivity; destruct i as [|[|i]]; try reflexivity; lia. Qed.

Lemma keys_from_app tt k N c l1 : forall i l2,
  keys_from tt k i N c (l1 ++ l2) = keys_from tt k i N c l1 ++ keys_from tt k (i + length l1) N c l2.
Proof.
  induction l1 as [|p l1 IH]; intros i l2; cbn [app keys_from length].
  - rewrite Nat.add_0_r. reflexivity.
  - rewrite IH. rewrite <- Nat.add_succ_comm. reflexivity.
Qed.

Lemma keys_from_plain tt k N c : forall l i, (nspecial k <= i)%nat ->
  keys_from tt k i N c l = map (fun p => (O, p_site p, vsub (vscale N (p_R p)) c)) l.
Proof.
  induction l as [|p l IH]; intros i Hi; cbn [keys_from map]; [reflexivity|].
  rewrite (tag_zero tt) by exact Hi. rewrite IH by lia. reflexivity.
Qed.

Lemma ckeys_perm tt k sp r r' : length sp = nspecial k -> Permutation r r' ->
  Permutation (ckeys tt k (sp ++ r)) (ckeys tt k (sp ++ r')).
Proof.
  intros Hs P. unfold ckeys. rewrite !keys_from_app. cbn [Nat.add].
  rewrite !(keys_from_plain tt k _ _ _ (length sp)) by lia.
  assert (EN : length (sp ++ r) = length (sp ++ r')) by (rewrite !app_length, (Permutation_length P); reflexivity).
  assert (EC : vsum (map p_R (sp ++ r)) = vsum (map p_R (sp ++ r')))
    by (apply vsum_perm, Permutation_map, Permutation_app_head; exact P).
  rewrite EN, EC. apply Permutation_app_head. apply Permutation_map. exact P.
Qed.

Lemma mk_sites_split k sp r : length sp = nspecial k ->
  exists T, mk_sites k (sp ++ r) = map (shift T) (sp ++ ssort r).
Proof.
  intro Hs. unfold mk_sites. rewrite <- Hs, firstn_app, Nat.sub_diag, firstn_all, skipn_app, Nat.sub_diag, skipn_all.
  cbn [firstn skipn app]. rewrite app_nil_r.
  destruct (sp ++ ssort r) as [|h t]; [exists vzero; reflexivity | exists (vneg (p_R h)); reflexivity].
Qed.

Lemma ckeys_mk_perm tt k sp r r' : length sp = nspecial k -> Permutation r r' ->
  Permutation (ckeys tt k (mk_sites k (sp ++ r))) (ckeys tt k (mk_sites k (sp ++ r'))).
Proof.
  intros Hs P. destruct (mk_sites_split k sp r Hs) as [T ->], (mk_sites_split k sp r' Hs) as [T' ->].
  rewrite !ckeys_shift. apply ckeys_perm; [exact Hs|].
  eapply Permutation_trans; [apply ssort_perm|]. eapply Permutation_trans; [exact P | apply Permutation_sym, ssort_perm].
Qed.

(* the first nspecial sites of the constructed cluster do not depend on the order of the rest *)
Lemma mk_sites_special_ts k a b r r' : nspecial k = 2%nat -> Permutation r r' ->
  exists a' b' t t', mk_sites k (a :: b :: r) = a' :: b' :: t /\ mk_sites k (a :: b :: r') = a' :: b' :: t'.
Proof.
  intros Hk P. unfold mk_sites. rewrite Hk. cbn [firstn skipn app map].
  eexists _, _, _, _. split; reflexivity.
Qed.

Theorem Cluster_eq_reorder tt k sp r r' :
  length sp = nspecial k -> Permutation r r' -> ceq (Cluster tt k (sp ++ r)) (Cluster tt k (sp ++ r')) = true.
Proof.
  intros Hs P. unfold ceq, ckeys_of. cbn [c_kind c_sites c_tt Cluster].
  assert (Ek : ckind_eqb k k = true) by (destruct k; reflexivity). rewrite Ek.
  rewrite !mk_sites_length, !app_length, (Permutation_length P), Nat.eqb_refl.
  pose proof (ckeys_mk_perm tt k sp r r' Hs P) as PK.
  rewrite (key_subset_incl _ _ (fun x Hx => Permutation_in x PK Hx)).
  rewrite (key_subset_incl _ _ (fun x Hx => Permutation_in x (Permutation_sym PK) Hx)). cbn [andb].
  destruct (is_ts k) eqn:Ets; [|reflexivity].
  assert (Hk : nspecial k = 2%nat) by (destruct k; try discriminate; reflexivity).
  destruct sp as [|a [|b [|c sp]]]; cbn [length] in Hs; try lia. cbn [app].
  destruct (mk_sites_special_ts k a b r r' Hk P) as (a' & b' & t & t' & E1 & E2). rewrite E2.
  apply (istransition_self tt k (a :: b :: r) a' b' t E1).
Qed.

Section HashProofs.
Variable A : Type.
Variable op : A -> A -> A.
Variable e : A.
Variable H : ckey -> A.
Hypothesis op_comm : forall x y, op x y = op y x.
Hypothesis op_assoc : forall x y z, op (op x y) z = op x (op y z).

Lemma fold_hash_perm l l' : Permutation l l' -> forall h, fold_left (fun h k => op h (H k)) l h = fold_left (fun h k => op h (H k)) l' h.
Proof.
  induction 1 as [| x l l' _ IH | x y l | l l' l'' _ IH1 _ IH2]; intro h; cbn [fold_left].
  - reflexivity.
  - apply IH.
  - f_equal. rewrite !op_assoc. f_equal. apply op_comm.
  - rewrite IH1. apply IH2.
Qed.

Theorem Cluster_hash_translate tt k T l : chash A op e H (Cluster tt k (map (shift T) l)) = chash A op e H (Cluster tt k l).
Proof. rewrite Cluster_translate. reflexivity. Qed.

Theorem Cluster_hash_reorder tt k sp r r' :
  length sp = nspecial k -> Permutation r r' ->
  chash A op e H (Cluster tt k (sp ++ r)) = chash A op e H (Cluster tt k (sp ++ r')).
Proof. intros Hs P. unfold chash, ckeys_of. cbn [c_kind c_sites c_tt Cluster]. apply fold_hash_perm. apply ckeys_mk_perm; assumption. Qed.
End HashProofs.

(* ================================================================== refutation and non-vacuity *)
(* The search box  round(cutoff/|a_i|) + 1  of makeclusters before the fix b4d0a84 (BoxOld) is NOT
   always sufficient: hexagonal 2-D lattice
   (metric [[1,-1/2],[-1/2,1]]), two atoms at (3/8,1/4) and (5/8,3/4), cutoff 6.4975.  The pair
   {atom 0 at 0, atom 1 at (-4,-8)} is within the cutoff, but |R_2| = 8 > 7 = round(6.4975)+1, and the
   model of makeclusters (like the implementation) does not list it. *)
Module Witness.
Definition ge : geom :=
  mkGeom 2 (2, 2, 2, -1, 0, 0) 2 8 [(3, 2, 0); (5, 6, 0)] [O; O] [] 6754801 160000 BoxOld.
Definition cl : clus := [mkP 0 (0, 0, 0); mkP 1 (-4, -8, 0)].

Lemma witness_clique : clique ge cl.
Proof.
  split; [|split].
  - constructor; [intros [E|[]]; discriminate | constructor; [intros [] | constructor]].
  - intros p [<-|[<-|[]]]; (split; [vm_compute; reflexivity | right; reflexivity]).
  - intros p q [<-|[<-|[]]] [<-|[<-|[]]] Hne; try contradiction; vm_compute; reflexivity.
Qed.

Lemma witness_missing : ~ In (canon cl) (enumerate ge 2).
Proof.
  intro H. apply cl_mem_In in H. revert H. vm_compute. discriminate.
Qed.
End Witness.

Theorem makeclusters_box_refuted :
  exists (ge : geom) (cl : clus), clique ge cl /\ length cl = 2%nat /\ ~ In (canon cl) (enumerate ge 2) /\ ~ range_ok ge.
Proof.
  exists Witness.ge, Witness.cl. split; [exact Witness.witness_clique|]. split; [reflexivity|].
  split; [exact Witness.witness_missing|]. intro Hr. apply Witness.witness_missing.
  apply (enum_complete Witness.ge Hr 2 Witness.cl Witness.witness_clique); [reflexivity | lia].
Qed.

(* with the repaired box of the current code (BoxNew) the same pair is found, and that box is certified *)
Module WitnessFixed.
Definition ge : geom :=
  mkGeom 2 (2, 2, 2, -1, 0, 0) 2 8 [(3, 2, 0); (5, 6, 0)] [O; O] [] 6754801 160000 BoxNew.
Example found : In (canon Witness.cl) (enumerate ge 2) /\ nmaxv ge = (9, 9, 0) /\ nmaxv Witness.ge = (7, 7, 0).
Proof. split; [apply (proj1 (cl_mem_In _ _)); vm_compute; reflexivity | split; vm_compute; reflexivity]. Qed.
End WitnessFixed.

(* non-vacuity: square lattice, one atom, cutoff 3/2: the box is certified, there are two pair
   classes per order ... and triangles exist *)
Module Example.
Definition ge : geom := mkGeom 2 (1, 1, 1, 0, 0, 0) 1 1 [(0, 0, 0)] [O] [] 9 4 BoxNew.
Definition certs : list rcert :=
  [mkCert 1 1 [(1, (0, 1, 0)); (1, (0, 0, 1))] 1; mkCert 1 1 [(1, (1, 0, 0)); (1, (0, 0, 1))] 1;
   mkCert 1 1 [(1, (1, 0, 0)); (1, (0, 1, 0))] 1].
Example ex_range : range_okb ge certs = true /\ range_okb2 ge (1, 1, 0) certs = true.
Proof. vm_compute. split; reflexivity. Qed.
Example ex_counts : length (enumerate ge 1) = 1%nat /\ length (enumerate ge 2) = 4%nat /\ length (enumerate ge 3) = 4%nat
                    /\ enumerate ge 5 = [].
Proof. vm_compute. repeat split; reflexivity. Qed.
Example ex_complete : In (canon [mkP 0 (5, 5, 0); mkP 0 (6, 6, 0); mkP 0 (5, 6, 0)]) (enumerate ge 3).
Proof. vm_compute. tauto. Qed.
(* identity of 4-fold rotation: a symmetry of the model crystal; orbit of the nearest-neighbour pair *)
Definition rot4 : gop := mkGop ((0, -1, 0), (1, 0, 0), (0, 0, 1)) [(O, (0, 0, 0))].
Definition ident : gop := mkGop ((1, 0, 0), (0, 1, 0), (0, 0, 1)) [(O, (0, 0, 0))].
Example ex_sym : gop_okb ge rot4 = true /\
  partition_okb canon [ident; rot4] [] [[ [mkP 0 (0,0,0); mkP 0 (0,1,0)]; [mkP 0 (0,0,0); mkP 0 (1,0,0)] ]] = true.
Proof. vm_compute. split; reflexivity. Qed.
(* the value type: a vacancy cluster, reordered and translated, is equal; a different one is not *)
Example ex_value :
  ceq (Cluster false Vac [mkP 0 (0,0,0); mkP 0 (1,0,0); mkP 0 (0,1,0)]) (Cluster false Vac [mkP 0 (3,3,0); mkP 0 (3,4,0); mkP 0 (4,3,0)]) = true /\
  ceq (Cluster false Vac [mkP 0 (0,0,0); mkP 0 (1,0,0); mkP 0 (0,1,0)]) (Cluster false Vac [mkP 0 (1,0,0); mkP 0 (0,0,0); mkP 0 (0,1,0)]) = false /\
  ceq (Cluster false TS [mkP 0 (0,0,0); mkP 0 (1,0,0); mkP 0 (0,1,0)]) (Cluster false TS [mkP 0 (1,0,0); mkP 0 (0,0,0); mkP 0 (0,1,0)]) = true.
Proof. vm_compute. repeat split; reflexivity. Qed.
End Example.

(* Cluster.__eq__ of transition-state clusters compares the pair only up to its own translation:
   (0 -> 1 | 2) and (1 -> 2 | 0) on a line are equal for the code, although no translation maps
   one onto the other with the pair on the pair.  Tagging the pair (tt = true) separates them. *)
Theorem ts_identity_refuted :
  exists a b : clus, canon_ts a <> canon_ts b /\ ceq (Cluster false TS a) (Cluster false TS b) = true
                     /\ ceq (Cluster true TS a) (Cluster true TS b) = false.
Proof.
  exists [mkP 0 (0, 0, 0); mkP 0 (1, 0, 0); mkP 0 (2, 0, 0)], [mkP 0 (1, 0, 0); mkP 0 (2, 0, 0); mkP 0 (0, 0, 0)].
  split; [vm_compute; discriminate | split; vm_compute; reflexivity].
Qed.
