(* C31: theorems about Model/Clusters.v -- for every crystal with rational lattice-coordinate
   geometry, every cutoff, every order, every exclusion list. *)
From Coq Require Import List Arith Bool ZArith Lia ZifyBool Permutation Sorted.
From Onsager Require Import Model.Clusters.
Import ListNotations.
Local Open Scope Z_scope.

(* ================================================================== vectors, positioned sites *)
Lemma veqb_eq a b : veqb a b = true <-> a = b.
Proof.
  destruct a as [[a0 a1] a2], b as [[b0 b1] b2]. unfold veqb. split; intro H.
  - assert (a0 = b0 /\ a1 = b1 /\ a2 = b2) as (-> & -> & ->) by lia. reflexivity.
  - injection H as -> -> ->. lia.
Qed.

Lemma veqb_refl a : veqb a a = true.
Proof. apply veqb_eq. reflexivity. Qed.

Lemma peqb_eq p q : peqb p q = true <-> p = q.
Proof.
  destruct p as [s R], q as [s' R']. unfold peqb. cbn [p_site p_R]. rewrite andb_true_iff, Nat.eqb_eq, veqb_eq.
  split; [intros [-> ->]; reflexivity | intro H; injection H as -> ->; split; reflexivity].
Qed.

Lemma peqb_refl p : peqb p p = true.
Proof. apply peqb_eq. reflexivity. Qed.

Lemma peqb_false p q : peqb p q = false <-> p <> q.
Proof.
  split.
  - intros H E. subst. rewrite peqb_refl in H. discriminate.
  - intro H. destruct (peqb p q) eqn:E; [apply peqb_eq in E; contradiction | reflexivity].
Qed.

Lemma pleb_total p q : pleb p q = true \/ pleb q p = true.
Proof.
  destruct p as [s [[x y] z]], q as [s' [[x' y'] z']]. unfold pleb, vleb. cbn [p_site p_R]. lia.
Qed.

Lemma pleb_trans p q r : pleb p q = true -> pleb q r = true -> pleb p r = true.
Proof.
  destruct p as [s [[x y] z]], q as [s' [[x' y'] z']], r as [s'' [[x'' y''] z'']].
  unfold pleb, vleb. cbn [p_site p_R]. lia.
Qed.

Lemma pleb_antisym p q : pleb p q = true -> pleb q p = true -> p = q.
Proof.
  destruct p as [s [[x y] z]], q as [s' [[x' y'] z']]. unfold pleb, vleb. cbn [p_site p_R]. intros H1 H2.
  assert (s = s' /\ x = x' /\ y = y' /\ z = z') as (-> & -> & -> & ->) by lia. reflexivity.
Qed.

Lemma pleb_shift T p q : pleb (shift T p) (shift T q) = pleb p q.
Proof.
  destruct p as [s [[x y] z]], q as [s' [[x' y'] z']], T as [[t0 t1] t2].
  unfold pleb, vleb, shift, vadd. cbn [p_site p_R]. lia.
Qed.

Lemma shift_shift T T' p : shift T' (shift T p) = shift (vadd T T') p.
Proof.
  destruct p as [s [[x y] z]], T as [[t0 t1] t2], T' as [[u0 u1] u2]. unfold shift, vadd. cbn [p_site p_R].
  f_equal. f_equal; [f_equal|]; lia.
Qed.

Lemma shift_zero p : shift vzero p = p.
Proof. destruct p as [s [[x y] z]]. unfold shift, vadd, vzero. cbn [p_site p_R]. f_equal. f_equal; [f_equal|]; lia. Qed.

Lemma vadd_neg T : vadd T (vneg T) = vzero.
Proof. destruct T as [[a b] c]. unfold vadd, vneg, vzero. f_equal; [f_equal|]; lia. Qed.

Lemma shift_inj T p q : shift T p = shift T q -> p = q.
Proof.
  intro H. assert (E : shift (vneg T) (shift T p) = shift (vneg T) (shift T q)) by (rewrite H; reflexivity).
  rewrite !shift_shift, vadd_neg, !shift_zero in E. exact E.
Qed.

Lemma site_shift T p : p_site (shift T p) = p_site p.
Proof. reflexivity. Qed.

Lemma map_shift_shift T T' l : map (shift T') (map (shift T) l) = map (shift (vadd T T')) l.
Proof. rewrite map_map. apply map_ext. intro p. apply shift_shift. Qed.

Lemma map_shift_zero l : map (shift vzero) l = l.
Proof. rewrite <- (map_id l) at 2. apply map_ext. intro p. apply shift_zero. Qed.

(* ================================================================== sorting, canonical form *)
Definition ple (p q : psite) : Prop := pleb p q = true.

Lemma pinsert_perm p l : Permutation (pinsert p l) (p :: l).
Proof.
  induction l as [|q l IH]; cbn [pinsert]; [apply Permutation_refl|].
  destruct (pleb p q); [apply Permutation_refl|].
  eapply Permutation_trans; [apply perm_skip; exact IH | apply perm_swap].
Qed.

Lemma psort_perm l : Permutation (psort l) l.
Proof.
  induction l as [|p l IH]; cbn [psort]; [apply Permutation_refl|].
  eapply Permutation_trans; [apply pinsert_perm | apply perm_skip; exact IH].
Qed.

Lemma pinsert_sorted p l : StronglySorted ple l -> StronglySorted ple (pinsert p l).
Proof.
  induction l as [|q l IH]; intro H; cbn [pinsert].
  - constructor; [constructor | constructor].
  - inversion H as [|q' l' Hs Hf]; subst. destruct (pleb p q) eqn:E.
    + constructor; [exact H|]. constructor; [exact E|].
      rewrite Forall_forall in *. intros r Hr. eapply pleb_trans; [exact E | apply Hf; exact Hr].
    + constructor; [apply IH; exact Hs|].
      rewrite Forall_forall in *. intros r Hr.
      apply (Permutation_in _ (pinsert_perm p l)) in Hr. destruct Hr as [<-|Hr].
      * destruct (pleb_total p q) as [C|C]; [unfold ple in *; congruence | exact C].
      * apply Hf; exact Hr.
Qed.

Lemma psort_sorted l : StronglySorted ple (psort l).
Proof. induction l as [|p l IH]; cbn [psort]; [constructor | apply pinsert_sorted; exact IH]. Qed.

Lemma sorted_unique l : forall l', StronglySorted ple l -> StronglySorted ple l' -> Permutation l l' -> l = l'.
Proof.
  induction l as [|a l IH]; intros l' H H' P.
  - apply Permutation_nil in P. subst; reflexivity.
  - destruct l' as [|b l']; [apply Permutation_sym, Permutation_nil in P; discriminate|].
    inversion H as [|a0 l0 Hs Hf]; subst. inversion H' as [|b0 l0' Hs' Hf']; subst.
    assert (E : a = b).
    { assert (Ia : In a (b :: l')) by (eapply Permutation_in; [exact P | left; reflexivity]).
      assert (Ib : In b (a :: l)) by (eapply Permutation_in; [apply Permutation_sym; exact P | left; reflexivity]).
      destruct Ia as [->|Ia]; [reflexivity|]. destruct Ib as [->|Ib]; [reflexivity|].
      rewrite Forall_forall in Hf, Hf'. apply pleb_antisym; [apply Hf; exact Ib | apply Hf'; exact Ia]. }
    subst b. f_equal. apply IH; [exact Hs | exact Hs' | eapply Permutation_cons_inv; exact P].
Qed.

Lemma psort_of_perm l l' : Permutation l l' -> psort l = psort l'.
Proof.
  intro P. apply sorted_unique; try apply psort_sorted.
  eapply Permutation_trans; [apply psort_perm|]. eapply Permutation_trans; [exact P | apply Permutation_sym, psort_perm].
Qed.

Lemma pinsert_shift T p l : pinsert (shift T p) (map (shift T) l) = map (shift T) (pinsert p l).
Proof.
  induction l as [|q l IH]; cbn [pinsert map]; [reflexivity|].
  rewrite pleb_shift. destruct (pleb p q); cbn [map]; [reflexivity | rewrite IH; reflexivity].
Qed.

Lemma psort_shift T l : psort (map (shift T) l) = map (shift T) (psort l).
Proof. induction l as [|p l IH]; cbn [psort map]; [reflexivity|]. rewrite IH. apply pinsert_shift. Qed.

Lemma canon_shift T l : canon (map (shift T) l) = canon l.
Proof.
  unfold canon. rewrite psort_shift. destruct (psort l) as [|h t]; [reflexivity|].
  assert (EV : vadd T (vneg (p_R (shift T h))) = vneg (p_R h)).
  { destruct h as [s [[x y] z]], T as [[t0 t1] t2]. unfold shift, vadd, vneg. cbn [p_site p_R].
    f_equal; [f_equal|]; lia. }
  cbn [map]. rewrite shift_shift, map_shift_shift, EV. reflexivity.
Qed.

Lemma canon_perm l l' : Permutation l l' -> canon l = canon l'.
Proof. intro P. unfold canon. rewrite (psort_of_perm l l' P). reflexivity. Qed.

(* canonical form is a complete invariant of clusters modulo order and translation *)
Theorem canon_equiv l l' : equiv l l' -> canon l = canon l'.
Proof. intros [T P]. rewrite (canon_perm l' _ P). symmetry. apply canon_shift. Qed.

Theorem canon_is_equiv l : equiv l (canon l).
Proof.
  unfold equiv, canon. destruct (psort l) as [|h t] eqn:E.
  - exists vzero. assert (l = []) by (apply Permutation_nil; rewrite <- E; apply psort_perm). subst. constructor.
  - exists (vneg (p_R h)). apply Permutation_map. rewrite <- E. apply psort_perm.
Qed.

Theorem canon_eq_equiv l l' : canon l = canon l' -> equiv l l'.
Proof.
  intro E. destruct (canon_is_equiv l) as [T P], (canon_is_equiv l') as [T' P'].
  exists (vadd T (vneg T')). rewrite <- map_shift_shift.
  apply Permutation_sym. eapply Permutation_trans; [apply Permutation_map; apply Permutation_sym; exact P|].
  rewrite E. eapply Permutation_trans; [apply Permutation_map; exact P'|].
  rewrite map_shift_shift, vadd_neg, map_shift_zero. apply Permutation_refl.
Qed.

Lemma canon_length l : length (canon l) = length l.
Proof.
  unfold canon. pose proof (Permutation_length (psort_perm l)) as H. destruct (psort l) as [|h t]; [exact H|].
  rewrite map_length. exact H.
Qed.

Lemma cl_eqb_eq a b : cl_eqb a b = true <-> a = b.
Proof.
  revert b; induction a as [|p a IH]; intros [|q b]; cbn [cl_eqb]; split; intro H; try reflexivity; try discriminate.
  - apply andb_true_iff in H. destruct H as [H1 H2]. apply peqb_eq in H1. apply IH in H2. subst; reflexivity.
  - injection H as -> ->. rewrite peqb_refl. apply IH. reflexivity.
Qed.

Lemma cl_mem_In c l : cl_mem c l = true <-> In c l.
Proof.
  unfold cl_mem. rewrite existsb_exists. split.
  - intros [d [Hd E]]. apply cl_eqb_eq in E. subst; exact Hd.
  - intro H. exists c. split; [exact H | apply cl_eqb_eq; reflexivity].
Qed.

Lemma dedup_In c l : In c (dedup l) <-> In c l.
Proof.
  induction l as [|d l IH]; cbn [dedup]; [tauto|].
  destruct (cl_mem d l) eqn:E.
  - rewrite IH. split; [intro H; right; exact H|]. intros [<-|H]; [apply cl_mem_In; exact E | exact H].
  - cbn [In]. rewrite IH. tauto.
Qed.

Lemma dedup_NoDup l : NoDup (dedup l).
Proof.
  induction l as [|d l IH]; cbn [dedup]; [constructor|].
  destruct (cl_mem d l) eqn:E; [exact IH|]. constructor; [|exact IH].
  rewrite dedup_In. intro H. apply cl_mem_In in H. congruence.
Qed.

(* ================================================================== geometry *)
Lemma quad_neg G v : quad G (vneg v) = quad G v.
Proof. destruct G as [[[[[g11 g22] g33] g12] g13] g23], v as [[x y] z]. unfold quad, vneg. ring. Qed.

Section GeomProofs.
Variable ge : geom.

Lemma dvec_neg s0 s1 R : dvec ge s1 s0 (vneg R) = vneg (dvec ge s0 s1 R).
Proof.
  unfold dvec. destruct (Uof ge s0) as [[a0 a1] a2], (Uof ge s1) as [[b0 b1] b2], R as [[x y] z].
  unfold vadd, vscale, vsub, vneg. f_equal; [f_equal|]; ring.
Qed.

Lemma nbrb_sym s0 s1 R : nbrb ge s1 s0 (vneg R) = nbrb ge s0 s1 R.
Proof. unfold nbrb, d2. rewrite dvec_neg, quad_neg. reflexivity. Qed.

Lemma vsub_neg a b : vsub a b = vneg (vsub b a).
Proof. destruct a as [[a0 a1] a2], b as [[b0 b1] b2]. unfold vsub, vneg. f_equal; [f_equal|]; lia. Qed.

Lemma nbr_sym p q : nbr ge p q -> nbr ge q p.
Proof. unfold nbr. intro H. rewrite vsub_neg, nbrb_sym. exact H. Qed.

Lemma vsub_shift T a b : vsub (vadd a T) (vadd b T) = vsub a b.
Proof.
  destruct a as [[a0 a1] a2], b as [[b0 b1] b2], T as [[t0 t1] t2]. unfold vsub, vadd. f_equal; [f_equal|]; lia.
Qed.

Lemma nbr_shift T p q : nbr ge (shift T p) (shift T q) <-> nbr ge p q.
Proof. unfold nbr, shift. cbn [p_site p_R]. rewrite vsub_shift. tauto. Qed.

Lemma in_dim_shift T R : in_dim ge T -> in_dim ge R -> in_dim ge (vadd R T).
Proof.
  unfold in_dim. destruct T as [[t0 t1] t2], R as [[x y] z]. cbn [snd vadd]. intros [H|H] [H'|H']; try (left; assumption).
  right. lia.
Qed.

(* ---- enumeration of the search box ---- *)
Lemma in_zrange n x : In x (zrange n) <-> - n <= x <= n.
Proof.
  unfold zrange. rewrite in_map_iff. split.
  - intros [k [<- Hk]]. apply in_seq in Hk. lia.
  - intro H. exists (Z.to_nat (x + n)). split; [lia | apply in_seq; lia].
Qed.

Lemma in_boxlistw w R : In R (boxlistw w) <-> in_boxw w R = true.
Proof.
  destruct w as [[n0 n1] n2], R as [[x y] z]. unfold boxlistw, in_boxw. rewrite in_flat_map. split.
  - intros [x' [Hx H]]. rewrite in_flat_map in H. destruct H as [y' [Hy H]]. rewrite in_map_iff in H.
    destruct H as [z' [E Hz]]. injection E as -> -> ->. rewrite in_zrange in *. lia.
  - intro H. exists x. split; [apply in_zrange; lia|]. rewrite in_flat_map. exists y. split; [apply in_zrange; lia|].
    rewrite in_map_iff. exists z. split; [reflexivity | apply in_zrange; lia].
Qed.

Lemma In_sitelist s : In s (sitelist ge) <-> allowed ge s = true.
Proof.
  unfold sitelist. rewrite filter_In, in_seq. split; [tauto|]. intro H. split; [|exact H].
  unfold allowed in H. apply andb_true_iff in H. destruct H as [H _]. apply Nat.ltb_lt in H. lia.
Qed.

Lemma In_nn s0 p : In p (nn ge s0) <-> nnb ge s0 p = true.
Proof.
  unfold nn, nnb. rewrite in_flat_map. split.
  - intros [s1 [Hs H]]. rewrite in_map_iff in H. destruct H as [R [<- HR]]. rewrite filter_In in HR.
    destruct HR as [HR1 HR2]. cbn [p_site p_R]. apply In_sitelist in Hs. apply in_boxlistw in HR1.
    unfold in_boxb. rewrite Hs, HR1, HR2. reflexivity.
  - intro H. apply andb_true_iff in H. destruct H as [H H3]. apply andb_true_iff in H. destruct H as [H1 H2].
    exists (p_site p). split; [apply In_sitelist; exact H1|]. rewrite in_map_iff. exists (p_R p).
    split; [destruct p; reflexivity|]. rewrite filter_In. split; [apply in_boxlistw; exact H2 | exact H3].
Qed.

(* ---- cliques ---- *)
Lemma clique_perm l l' : Permutation l l' -> clique ge l -> clique ge l'.
Proof.
  intros P (H1 & H2 & H3). split; [eapply Permutation_NoDup; eassumption|]. split.
  - intros p Hp. apply H2. eapply Permutation_in; [apply Permutation_sym; exact P | exact Hp].
  - intros p q Hp Hq. apply H3; (eapply Permutation_in; [apply Permutation_sym; exact P | assumption]).
Qed.

Lemma NoDup_map_shift T l : NoDup l -> NoDup (map (shift T) l).
Proof.
  induction 1 as [|p l Hp Hn IH]; cbn [map]; constructor; [|exact IH].
  rewrite in_map_iff. intros [q [E Hq]]. apply shift_inj in E. subst. contradiction.
Qed.

Lemma clique_shift T l : in_dim ge T -> clique ge l -> clique ge (map (shift T) l).
Proof.
  intros HT (H1 & H2 & H3). split; [apply NoDup_map_shift; exact H1|]. split.
  - intros p Hp. rewrite in_map_iff in Hp. destruct Hp as [q [<- Hq]]. destruct (H2 q Hq) as [Ha Hd].
    split; [exact Ha | apply in_dim_shift; assumption].
  - intros p q Hp Hq Hne. rewrite in_map_iff in Hp, Hq. destruct Hp as [p' [<- Hp']], Hq as [q' [<- Hq']].
    apply nbr_shift. apply H3; try assumption. intro E. subst. contradiction.
Qed.

Lemma in_dim_neg R : in_dim ge R -> in_dim ge (vneg R).
Proof. unfold in_dim. destruct R as [[x y] z]. cbn [snd vneg]. intros [H|H]; [left; exact H | right; lia]. Qed.

Lemma clique_canon l : clique ge l -> clique ge (canon l).
Proof.
  intro H. unfold canon. destruct (psort l) as [|h t] eqn:E; [rewrite <- E; eapply clique_perm; [apply Permutation_sym, psort_perm | exact H]|].
  assert (Hs : clique ge (h :: t)) by (rewrite <- E; eapply clique_perm; [apply Permutation_sym, psort_perm | exact H]).
  apply clique_shift; [|exact Hs]. apply in_dim_neg. destruct Hs as (_ & H2 & _). apply (H2 h). left; reflexivity.
Qed.

Lemma existsb_peqb_In p l : existsb (peqb p) l = true <-> In p l.
Proof.
  rewrite existsb_exists. split.
  - intros [q [Hq E]]. apply peqb_eq in E. subst; exact Hq.
  - intro H. exists p. split; [exact H | apply peqb_refl].
Qed.

(* one extension step keeps cliques *)
Lemma extend_clique cl neigh :
  clique ge cl -> (exists h, In h cl) -> extend_ok ge cl neigh = true ->
  (forall c, In c cl -> in_dim ge (p_R c)) -> in_dim ge (p_R neigh) -> allowed ge (p_site neigh) = true ->
  clique ge (cl ++ [neigh]).
Proof.
  intros (H1 & H2 & H3) _ He Hd Hdn Han. unfold extend_ok in He. apply andb_true_iff in He. destruct He as [He1 He2].
  apply negb_true_iff in He1.
  assert (Hni : ~ In neigh cl).
  { intro Hin. apply existsb_peqb_In in Hin. congruence. }
  rewrite forallb_forall in He2.
  assert (Hnb : forall c, In c cl -> nbr ge neigh c).
  { intros c Hc. specialize (He2 c Hc). unfold nnb in He2. cbn [p_site p_R] in He2.
    apply andb_true_iff in He2. destruct He2 as [_ He2]. exact He2. }
  split; [|split].
  - apply (Permutation_NoDup (l := neigh :: cl)); [apply Permutation_cons_append|]. constructor; assumption.
  - intros p Hp. apply in_app_or in Hp. destruct Hp as [Hp|[<-|[]]]; [apply H2; exact Hp | split; assumption].
  - intros p q Hp Hq Hne. apply in_app_or in Hp. apply in_app_or in Hq.
    destruct Hp as [Hp|[<-|[]]], Hq as [Hq|[<-|[]]].
    + apply H3; assumption.
    + apply nbr_sym. apply Hnb. exact Hp.
    + apply Hnb. exact Hq.
    + contradiction.
Qed.

Lemma singles_spec cl : In cl (singles ge) <-> exists s, allowed ge s = true /\ cl = [mkP s vzero].
Proof.
  unfold singles. rewrite in_map_iff. split.
  - intros [s [<- Hs]]. exists s. split; [apply In_sitelist; exact Hs | reflexivity].
  - intros [s [Hs ->]]. exists s. split; [reflexivity | apply In_sitelist; exact Hs].
Qed.

Lemma in_dim_zero : in_dim ge vzero.
Proof. right. reflexivity. Qed.

Lemma In_grow cl prev : In cl (grow ge prev) <->
  exists c h t neigh, In c prev /\ c = h :: t /\ nnb ge (p_site h) neigh = true /\ extend_ok ge c neigh = true /\
                      cl = canon (c ++ [neigh]).
Proof.
  unfold grow. rewrite dedup_In, in_flat_map. split.
  - intros [c [Hc H]]. unfold grow1 in H. destruct c as [|h t]; [destruct H|].
    rewrite in_map_iff in H. destruct H as [neigh [<- Hn]]. rewrite filter_In in Hn. destruct Hn as [Hn1 Hn2].
    exists (h :: t), h, t, neigh. repeat split; try assumption. apply In_nn. exact Hn1.
  - intros (c & h & t & neigh & Hc & -> & Hn & He & ->). exists (h :: t). split; [exact Hc|].
    unfold grow1. rewrite in_map_iff. exists neigh. split; [reflexivity|]. rewrite filter_In. split; [apply In_nn; exact Hn | exact He].
Qed.

Lemma nnb_in_dim_aux : True. Proof. exact I. Qed.

(* box vectors of a 2-D crystal have third coordinate 0 *)
Lemma in_boxb_in_dim R : in_boxb ge R = true -> in_dim ge R.
Proof.
  unfold in_boxb, in_boxw, nmaxv, in_dim. destruct (g_G ge) as [[[[[g11 g22] g33] g12] g13] g23].
  destruct R as [[x y] z]. cbn [snd]. destruct (Nat.leb_spec 3 (g_dim ge)) as [L|L]; [left; exact L|].
  intro H. right. lia.
Qed.

(* ---- soundness: everything enumerated is a clique of the right size ---- *)
Theorem enum_sound k cl : In cl (enumerate ge k) -> clique ge cl /\ length cl = k.
Proof.
  revert cl. induction k as [|k IH]; intros cl H; [destruct H|].
  cbn [enumerate] in H. destruct k as [|k'].
  - apply singles_spec in H. destruct H as [s [Hs ->]]. split; [|reflexivity].
    split; [constructor; [intros []|constructor]|]. split.
    + intros p [<-|[]]. split; [exact Hs | apply in_dim_zero].
    + intros p q [<-|[]] [<-|[]] Hne. contradiction.
  - apply In_grow in H. destruct H as (c & h & t & neigh & Hc & -> & Hn & He & ->).
    destruct (IH _ Hc) as [Hcl Hlen]. split.
    + apply clique_canon. unfold nnb in Hn. apply andb_true_iff in Hn. destruct Hn as [Hn _].
      apply andb_true_iff in Hn. destruct Hn as [Hn1 Hn2].
      apply extend_clique; try assumption.
      * exists h. left; reflexivity.
      * intros c0 Hc0. destruct Hcl as (_ & H2 & _). apply (H2 c0 Hc0).
      * apply in_boxb_in_dim. exact Hn2.
    + rewrite canon_length, app_length. cbn [length] in *. lia.
Qed.

(* the first site of a canonical non-empty cluster sits at the origin *)
Lemma canon_head l h t : canon l = h :: t -> p_R h = vzero.
Proof.
  unfold canon. destruct (psort l) as [|h0 t0]; [discriminate|]. cbn [map]. intro E. injection E as <- _.
  unfold shift. cbn [p_R]. apply vadd_neg.
Qed.

Lemma vsub_zero a : vsub a vzero = a.
Proof. destruct a as [[a0 a1] a2]. unfold vsub, vzero. f_equal; [f_equal|]; lia. Qed.

(* ---- completeness: every clique is enumerated (as its canonical form) when the box suffices ---- *)
Theorem enum_complete :
  range_ok ge -> forall k cl, clique ge cl -> length cl = k -> (1 <= k)%nat -> In (canon cl) (enumerate ge k).
Proof.
  intros Hrange k. induction k as [|k IH]; intros cl Hcl Hlen Hk; [lia|].
  cbn [enumerate]. destruct k as [|k'].
  - destruct cl as [|p [|? ?]]; try discriminate. apply singles_spec. exists (p_site p).
    destruct Hcl as (_ & H2 & _). destruct (H2 p (or_introl eq_refl)) as [Ha _]. split; [exact Ha|].
    unfold canon. cbn [psort pinsert map]. unfold shift. cbn [p_site p_R]. rewrite vadd_neg. reflexivity.
  - destruct cl as [|v rest]; [discriminate|]. cbn [length] in Hlen.
    pose proof Hcl as (N1 & N2 & N3).
    assert (Hrest : clique ge rest).
    { inversion N1; subst. split; [assumption|]. split.
      - intros p Hp. apply N2. right; exact Hp.
      - intros p q Hp Hq. apply N3; right; assumption. }
    assert (Hin : In (canon rest) (enumerate ge (S k'))) by (apply IH; [exact Hrest | lia | lia]).
    destruct (canon_is_equiv rest) as [T PT].
    destruct (canon rest) as [|h t] eqn:Ec.
    { pose proof (canon_length rest) as Hl. rewrite Ec in Hl. cbn [length] in Hl. lia. }
    set (v' := shift T v).
    (* T keeps 2-D vectors 2-D: it is minus the lattice vector of a site of rest *)
    assert (HTd : in_dim ge T).
    { assert (Hh : In h (map (shift T) rest)) by (eapply Permutation_in; [exact PT | left; reflexivity]).
      rewrite in_map_iff in Hh. destruct Hh as [r [Er Hr]]. pose proof (canon_head rest h t Ec) as Hz.
      rewrite <- Er in Hz. unfold shift in Hz. cbn [p_R] in Hz.
      destruct (N2 r (or_intror Hr)) as [_ Hrd]. unfold in_dim in *. destruct Hrd as [L|L]; [left; exact L|].
      right. destruct (p_R r) as [[x y] z], T as [[t0 t1] t2]. unfold vadd, vzero in Hz. cbn [snd] in *.
      injection Hz as _ _ Hz. lia. }
    assert (Hall : clique ge (map (shift T) (v :: rest))) by (apply clique_shift; assumption).
    cbn [map] in Hall. fold v' in Hall.
    assert (Hperm : Permutation (v' :: map (shift T) rest) (v' :: h :: t)) by (apply perm_skip, Permutation_sym; exact PT).
    assert (Hall' : clique ge (v' :: h :: t)) by (eapply clique_perm; eassumption).
    destruct Hall' as (M1 & M2 & M3).
    assert (Hvn : ~ In v' (h :: t)) by (inversion M1; assumption).
    assert (Hz : p_R h = vzero) by (eapply canon_head; exact Ec).
    apply In_grow. exists (h :: t), h, t, v'. split; [exact Hin|]. split; [reflexivity|].
    destruct (M2 v' (or_introl eq_refl)) as [Hav Hdv].
    assert (Hhv : nbr ge h v').
    { apply M3; [right; left; reflexivity | left; reflexivity|]. intro E. apply Hvn. left. exact E. }
    split; [|split].
    + (* v' is in the neighbour list of the first site *)
      unfold nnb. rewrite Hav. cbn [andb]. unfold nbr in Hhv. rewrite Hz, vsub_zero in Hhv. rewrite Hhv, andb_true_r.
      destruct (M2 h (or_intror (or_introl eq_refl))) as [Hah _].
      apply (Hrange (p_site h) (p_site v') (p_R v') Hah Hav Hdv Hhv).
    + (* and all sites of the cluster are in the neighbour list of v' *)
      unfold extend_ok. apply andb_true_iff. split.
      * apply negb_true_iff. destruct (existsb (peqb v') (h :: t)) eqn:E; [|reflexivity].
        apply existsb_peqb_In in E. contradiction.
      * apply forallb_forall. intros c Hc. destruct (M2 c (or_intror Hc)) as [Hac Hdc].
        assert (Hvc : nbr ge v' c).
        { apply M3; [left; reflexivity | right; exact Hc|]. intro E. apply Hvn. rewrite E. exact Hc. }
        unfold nnb. cbn [p_site p_R]. rewrite Hac. cbn [andb]. unfold nbr in Hvc. rewrite Hvc, andb_true_r.
        apply (Hrange (p_site v') (p_site c) _ Hav Hac); [|exact Hvc].
        unfold in_dim in *. destruct Hdc as [L|L]; [left; exact L|]. destruct Hdv as [L'|L']; [left; exact L'|].
        right. destruct (p_R c) as [[x y] z], (p_R v') as [[x' y'] z']. cbn [snd vsub] in *. lia.
    + (* the new cluster is the canonical form of the clique we started from *)
      apply canon_equiv. exists T. cbn [map]. fold v'.
      eapply Permutation_trans; [apply Permutation_sym, Permutation_cons_append|]. exact (Permutation_sym Hperm).
Qed.

End GeomProofs.
