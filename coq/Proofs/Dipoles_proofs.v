(* project_invariant / project_idem / populate_welldef for EVERY finite group action by additive maps
   on a commutative monoid (tensors of any rank over any ring are an instance). *)
From Coq Require Import List Permutation ZArith Lia.
From Onsager Require Import Model.Dipoles.
Import ListNotations.

Section ActionProofs.
Variables (V A : Type) (vadd : V -> V -> V) (v0 : V) (act : A -> V -> V) (mul : A -> A -> A).
Hypothesis vadd_comm : forall x y, vadd x y = vadd y x.
Hypothesis vadd_assoc : forall x y z, vadd x (vadd y z) = vadd (vadd x y) z.
Hypothesis vadd_0_l : forall x, vadd v0 x = x.
Hypothesis act_add : forall g x y, act g (vadd x y) = vadd (act g x) (act g y).
Hypothesis act_0 : forall g, act g v0 = v0.
Hypothesis act_mul : forall g h x, act (mul g h) x = act g (act h x).

Notation vsum := (vsum vadd v0). Notation avg := (avg vadd v0 act). Notation ntimes := (ntimes vadd v0).

Lemma vsum_perm (f : A -> V) l l' : Permutation l l' -> vsum f l = vsum f l'.
Proof.
  induction 1 as [| x l l' _ IH | x y l | l l' l'' _ IH1 _ IH2]; cbn [Dipoles.vsum].
  - reflexivity.
  - rewrite IH; reflexivity.
  - rewrite !vadd_assoc. rewrite (vadd_comm (f y) (f x)). reflexivity.
  - rewrite IH1; exact IH2.
Qed.

Lemma vsum_ext (f f' : A -> V) l : (forall a, In a l -> f a = f' a) -> vsum f l = vsum f' l.
Proof.
  induction l as [|a l IH]; intro H; cbn [Dipoles.vsum]; [reflexivity|].
  rewrite H by (left; reflexivity). rewrite IH; [reflexivity|]. intros b Hb. apply H. right. exact Hb.
Qed.

Lemma vsum_map (h : A -> A) (f : A -> V) l : vsum f (map h l) = vsum (fun a => f (h a)) l.
Proof. induction l as [|a l IH]; cbn [Dipoles.vsum map]; [reflexivity | rewrite IH; reflexivity]. Qed.

Lemma act_vsum g (f : A -> V) l : act g (vsum f l) = vsum (fun a => act g (f a)) l.
Proof. induction l as [|a l IH]; cbn [Dipoles.vsum]; [apply act_0 | rewrite act_add, IH; reflexivity]. Qed.

Lemma vsum_const (c : V) (l : list A) : vsum (fun _ => c) l = ntimes (length l) c.
Proof. induction l as [|a l IH]; cbn [Dipoles.vsum Dipoles.ntimes length]; [reflexivity | rewrite IH; reflexivity]. Qed.

(* the projected tensor is fixed by every element under which the group list is closed *)
Theorem project_invariant (G : list A) (h : A) (x : V) :
  Permutation (map (mul h) G) G -> act h (avg G x) = avg G x.
Proof.
  intros HP. unfold Dipoles.avg. rewrite act_vsum.
  transitivity (vsum (fun g => act g x) (map (mul h) G)).
  - rewrite vsum_map. apply vsum_ext. intros g _. rewrite act_mul. reflexivity.
  - apply vsum_perm. exact HP.
Qed.

(* idempotent (division free:  avg (avg x) = |G| avg x, i.e. P^2 = P for P = avg/|G|) *)
Theorem project_idem (G : list A) (x : V) :
  (forall h, In h G -> Permutation (map (mul h) G) G) ->
  avg G (avg G x) = ntimes (length G) (avg G x).
Proof.
  intros HP. rewrite <- vsum_const.
  change (avg G (avg G x)) with (vsum (fun h => act h (avg G x)) G).
  apply vsum_ext. intros h Hh. apply project_invariant. apply HP. exact Hh.
Qed.

(* an invariant tensor is projected onto |G| copies of itself: the projection fixes the invariants *)
Theorem project_fixes (G : list A) (T : V) : invariant act G T -> avg G T = ntimes (length G) T.
Proof.
  intros H. rewrite <- vsum_const. unfold Dipoles.avg. apply vsum_ext. intros g Hg. apply H. exact Hg.
Qed.

(* carrying the (stabiliser-invariant) representative tensor by ANY operation that maps the
   representative to the same member gives the same tensor *)
Theorem populate_welldef (S : list A) (T : V) (g1 g2 h : A) :
  invariant act S T -> In h S -> g1 = mul g2 h -> act g1 T = act g2 T.
Proof. intros HT Hh E. subst g1. rewrite act_mul. rewrite (HT h Hh). reflexivity. Qed.

End ActionProofs.

(* non-vacuity: Z2 = {false, true} acting on pairs of integers by swapping *)
Module Example.
Local Open Scope Z_scope.
Definition V := (Z * Z)%type.
Definition vadd (x y : V) : V := (fst x + fst y, snd x + snd y).
Definition act (g : bool) (x : V) : V := if g then (snd x, fst x) else x.
Example perm_closed : forall h, In h [false; true] -> Permutation (map (xorb h) [false; true]) [false; true].
Proof.
  intros h [H|[H|[]]]; subst h; cbn.
  - apply Permutation_refl.
  - apply perm_swap.
Qed.
Example avg_ex : avg vadd (0, 0) act [false; true] (3, 5) = (8, 8).
Proof. reflexivity. Qed.
Example invariant_ex : act true (avg vadd (0, 0) act [false; true] (3, 5)) = avg vadd (0, 0) act [false; true] (3, 5).
Proof.
  apply (project_invariant V bool vadd (0, 0) act xorb).
  - intros [a b] [c d]; unfold vadd; cbn; f_equal; lia.
  - intros [a b] [c d] [e f]; unfold vadd; cbn; f_equal; lia.
  - intros g [a b] [c d]; destruct g; reflexivity.
  - intros g; destruct g; reflexivity.
  - intros g h [a b]; destruct g, h; reflexivity.
  - apply perm_closed. right; left; reflexivity.
Qed.
End Example.
