(* C10: soundness of the exact residual evaluator of the lattice diffusion equation, inverse scaling of
   its solutions with a uniform rate factor, and uniqueness of the Green function of a finite
   (torus) network up to the null vector -- via "harmonic functions are constant on connected
   networks" (Proofs/Harmonic_proofs.v). *)
From Coq Require Import List Arith Bool ZArith Lia Ring.
From Onsager Require Import Base.OrdRing Base.Instances Model.Net Model.Harmonic Model.GFeq
     Proofs.Net_proofs Proofs.Harmonic_proofs.
Import ListNotations.

Section GFeqProofs.
Variable K : ordring.
Notation "0" := (r0 K). Notation "1" := (r1 K).
Infix "+" := (radd K). Infix "*" := (rmul K). Infix "-" := (rsub K).
Infix "<=" := (rle K).
Add Ring KringG : (r_ring K).

Lemma cell_eqb_eq (a b : cell) : cell_eqb a b = true -> a = b.
Proof.
  revert b. induction a as [|x a IH]; intros [|y b] H; cbn in H; try discriminate; [reflexivity|].
  apply andb_true_iff in H. destruct H as [H1 H2]. apply Z.eqb_eq in H1. subst y. f_equal. apply IH. exact H2.
Qed.

Lemma lookup_agrees (tab : list (gval K)) G i j R v :
  agrees tab G -> lookup tab i j R = Some v -> v = G i j R.
Proof.
  intros Ha. unfold lookup. destruct (find (key_eqb K i j R) tab) as [g|] eqn:F; [|discriminate].
  intros E. inversion E; subst v. apply find_some in F. destruct F as [Hin Hk].
  unfold key_eqb in Hk. apply andb_true_iff in Hk. destruct Hk as [Hk H3]. apply andb_true_iff in Hk. destruct Hk as [H1 H2].
  apply Nat.eqb_eq in H1. apply Nat.eqb_eq in H2. apply cell_eqb_eq in H3. subst i j R. apply Ha. exact Hin.
Qed.

Lemma hop_sum_sound (tab : list (gval K)) G jumps j R s :
  agrees tab G -> hop_sum tab jumps j R = Some s -> s = hop_sum_fun G jumps j R.
Proof.
  intros Ha. revert s. induction jumps as [|h rest IH]; intros s H; cbn [hop_sum] in H.
  - inversion H. reflexivity.
  - destruct (lookup tab (jto h) j (cell_sub R (jS h))) as [v|] eqn:L; [|discriminate].
    destruct (hop_sum tab rest j R) as [s'|] eqn:S; [|discriminate].
    inversion H; subst s. unfold hop_sum_fun. cbn [sumf].
    rewrite (lookup_agrees tab G _ _ _ v Ha L). rewrite (IH s' eq_refl). reflexivity.
Qed.

(* the evaluator computes exactly the residual of the lattice operator applied to ANY function the
   table is a restriction of *)
Theorem residual_sound (tab : list (gval K)) G jumps esc one i j R r :
  agrees tab G -> resid tab jumps esc one i j R = Some r -> r = lattice_resid G jumps esc one i j R.
Proof.
  intros Ha. unfold resid, lattice_resid.
  destruct (hop_sum tab jumps j R) as [s|] eqn:S; [|discriminate].
  destruct (lookup tab i j R) as [g|] eqn:L; [|discriminate].
  intros E. inversion E. rewrite (hop_sum_sound tab G jumps j R s Ha S). rewrite (lookup_agrees tab G i j R g Ha L). reflexivity.
Qed.

Lemma filter_length0 {A} (f : A -> bool) l : length (filter f l) = 0%nat -> forall x, In x l -> f x = false.
Proof.
  induction l as [|a l IH]; intros H x Hx; [destruct Hx|]. cbn [filter] in H.
  destruct (f a) eqn:Fa; [cbn in H; discriminate|].
  destruct Hx as [Hx|Hx]; [subst; exact Fa | apply IH; assumption].
Qed.

Lemma within_sound tol x : within tol x = true -> x <= tol /\ 0 - x <= tol.
Proof. unfold within. intro H. apply andb_true_iff in H. destruct H as [H1 H2]. split; apply (rleb_spec K); assumption. Qed.

(* a zero count: every listed equation holds within tol, for ANY G extending the table *)
Theorem count_bad_sound (tab : list (gval K)) G one tol eqs :
  agrees tab G -> count_bad tab one tol eqs = 0%nat ->
  forall q, In q eqs ->
    lattice_resid G (q_jumps q) (q_esc q) one (q_i q) (q_j q) (q_R q) <= tol /\
    0 - lattice_resid G (q_jumps q) (q_esc q) one (q_i q) (q_j q) (q_R q) <= tol.
Proof.
  intros Ha H q Hq. unfold count_bad in H. pose proof (filter_length0 _ _ H q Hq) as F. cbv beta in F.
  destruct (resid tab (q_jumps q) (q_esc q) one (q_i q) (q_j q) (q_R q)) as [r|] eqn:E; [|discriminate].
  apply negb_false_iff in F. rewrite <- (residual_sound tab G _ _ _ _ _ _ r Ha E). apply within_sound. exact F.
Qed.

Theorem count_far_sound tol (pairs : list (K * K)) :
  count_far tol pairs = 0%nat -> forall p, In p pairs -> fst p - snd p <= tol /\ 0 - (fst p - snd p) <= tol.
Proof.
  intros H p Hp. unfold count_far in H. pose proof (filter_length0 _ _ H p Hp) as F. cbv beta in F.
  apply negb_false_iff in F. apply within_sound. exact F.
Qed.

(* ---- uniform rate scaling: G solves the equation with rates (w, esc) iff G/lam solves it with
        (lam w, lam esc); division free: G = lam * G' *)
Definition scale_jumps (lam : K) (jumps : list (jmp K)) : list (jmp K) :=
  map (fun h => mkJ (jto h) (jS h) (lam * jw h)) jumps.

Theorem gf_scales_inverse (G G' : nat -> nat -> cell -> K) lam jumps esc one i j R :
  (forall a b c, G a b c = lam * G' a b c) ->
  lattice_resid G jumps esc one i j R = lattice_resid G' (scale_jumps lam jumps) (lam * esc) one i j R.
Proof.
  intros H. unfold lattice_resid, hop_sum_fun, scale_jumps. rewrite sumf_map. rewrite (H i j R).
  replace (sumf (fun h => jw h * G (jto h) j (cell_sub R (jS h))) jumps)
    with (sumf (fun h => jw (mkJ (jto h) (jS h) (lam * jw h)) * G' (jto (mkJ (jto h) (jS h) (lam * jw h))) j
                            (cell_sub R (jS (mkJ (jto h) (jS h) (lam * jw h))))) jumps).
  - ring.
  - apply sumf_ext. intros h _. cbn [jw jto jS]. rewrite H. ring.
Qed.

(* ---- uniqueness on a finite (torus) network: Net.v vocabulary.  divg N zerod G x is the weighted
        graph Laplacian (sum over edges at x of cond * (G_x - G_other)); two fields with the same
        Laplacian at every state differ by a constant on every connected component: the Green
        function of the torus is unique up to a multiple of the null vector *)
Hypothesis antisym : antisym_law K.
Hypothesis integral : integral_law K.

Lemma divg_sub (N : net K) (g1 g2 : nat -> K) x :
  divg N zerod (fun y => g1 y - g2 y) x = divg N zerod g1 x - divg N zerod g2 x.
Proof.
  unfold divg. rewrite <- sumf_sub. apply sumf_ext. intros e _. unfold flux, grad, zerod. ring.
Qed.

Theorem gf_unique (N : net K) n (G1 G2 : nat -> K) :
  wf N n -> nonneg N ->
  (forall x, x < n -> divg N zerod G1 x = divg N zerod G2 x) ->
  forall x y, connected N x y -> G1 x - G2 x = G1 y - G2 y.
Proof.
  intros Hwf Hnn Heq.
  apply (harmonic_const_sites K antisym integral N n (fun y => G1 y - G2 y) Hwf Hnn).
  intros x Hx. rewrite divg_sub. rewrite (Heq x Hx). ring.
Qed.

End GFeqProofs.

(* ---------------------------------------------------------------- non-vacuity --------- *)
Module Example.
Local Open Scope Z_scope.
(* 1-D chain, one site per cell, unit rates (escape 2): G(R) = |R| satisfies
   G(R+1) + G(R-1) - 2 G(R) = 2 [R = 0], i.e. residual 0 with the scaled unit `one` = 2 *)
Definition tabE : list (gval Zring) :=
  [mkG (K:=Zring) 0 0 [(-2)] 2; mkG (K:=Zring) 0 0 [(-1)] 1; mkG (K:=Zring) 0 0 [0] 0;
   mkG (K:=Zring) 0 0 [1] 1; mkG (K:=Zring) 0 0 [2] 2].
Definition jumpsE : list (jmp Zring) := [mkJ (K:=Zring) 0 [1] 1; mkJ (K:=Zring) 0 [(-1)] 1].
Example resid_ex :
  resid (K:=Zring) tabE jumpsE 2 2 0 0 [0] = Some 0 /\ resid (K:=Zring) tabE jumpsE 2 2 0 0 [1] = Some 0
  /\ resid (K:=Zring) tabE jumpsE 2 2 0 0 [2] = None.
Proof. repeat split; vm_compute; reflexivity. Qed.
Example count_ex :
  count_bad (K:=Zring) tabE 2 0 [mkEqn (K:=Zring) 0 0 [0] jumpsE 2; mkEqn (K:=Zring) 0 0 [(-1)] jumpsE 2] = 0%nat
  /\ count_bad (K:=Zring) tabE 3 0 [mkEqn (K:=Zring) 0 0 [0] jumpsE 2; mkEqn (K:=Zring) 0 0 [(-1)] jumpsE 2] = 1%nat.
Proof. split; vm_compute; reflexivity. Qed.
End Example.
