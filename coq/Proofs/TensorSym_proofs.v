(* C03, cross tensors: when is L(S_a, V_b) symmetric in a,b?  For every ordered commutative ring. *)
From Coq Require Import List Arith Bool Lia Ring ZArith.
From Onsager Require Import Base.OrdRing Base.Instances Model.Net Model.Interstitial Model.NetMaps Model.Lump
     Model.TensorSym Proofs.Net_proofs Proofs.Interstitial_proofs Proofs.NetMaps_proofs.
Import ListNotations.

Lemma nth_map_seq {A} (f : nat -> A) n a d : a < n -> nth a (map f (seq 0 n)) d = f a.
Proof.
  intro H. rewrite (nth_indep _ d (f 0)) by (rewrite map_length, seq_length; exact H).
  rewrite map_nth. rewrite seq_nth by exact H. reflexivity.
Qed.

Section P.
Variable K : ordring.
Notation "0" := (r0 K). Notation "1" := (r1 K).
Infix "+" := (radd K). Infix "*" := (rmul K). Infix "-" := (rsub K).
Add Ring KringTS : (r_ring K).

Lemma sumf_sub2 {A B} (f g : A -> B -> K) la lb :
  sumf (fun a => sumf (fun b => f a b - g a b) lb) la
  = sumf (fun a => sumf (fun b => f a b) lb) la - sumf (fun a => sumf (fun b => g a b) lb) la.
Proof.
  rewrite <- sumf_sub. apply sumf_ext. intros a _. apply sumf_sub.
Qed.

Lemma sumf_add2 {A B} (f g : A -> B -> K) la lb :
  sumf (fun a => sumf (fun b => f a b + g a b) lb) la
  = sumf (fun a => sumf (fun b => f a b) lb) la + sumf (fun a => sumf (fun b => g a b) lb) la.
Proof.
  rewrite <- sumf_add. apply sumf_ext. intros a _. apply sumf_add.
Qed.

Lemma sumf_ext2 {A B} (f g : A -> B -> K) la lb :
  (forall a b, f a b = g a b) ->
  sumf (fun a => sumf (fun b => f a b) lb) la = sumf (fun a => sumf (fun b => g a b) lb) la.
Proof. intro H. apply sumf_ext. intros a _. apply sumf_ext. intros b _. apply H. Qed.

(* conj_tensor in terms of ent *)
Lemma conj_ent dim R (T : nat -> nat -> K) k l :
  conj_tensor dim R T k l
  = sumf (fun a => sumf (fun b => ent R k a * ent R l b * T a b) (seq 0 dim)) (seq 0 dim).
Proof. reflexivity. Qed.

(* the antisymmetric part transforms like the tensor *)
Lemma conj_asym dim R (T : nat -> nat -> K) k l :
  conj_tensor dim R T k l - conj_tensor dim R T l k = conj_tensor dim R (asym T) k l.
Proof.
  rewrite !conj_ent. unfold asym.
  transitivity (sumf (fun a => sumf (fun b => ent R k a * ent R l b * T a b) (seq 0 dim)) (seq 0 dim)
                - sumf (fun a => sumf (fun b => ent R k a * ent R l b * T b a) (seq 0 dim)) (seq 0 dim)).
  - f_equal. rewrite sumf_swap. apply sumf_ext2. intros a b. ring.
  - rewrite <- sumf_sub2. apply sumf_ext2. intros a b. ring.
Qed.

(* twice the transformed antisymmetric tensor, through the 2x2 minors of R *)
Lemma conj_double dim R (T : nat -> nat -> K) k l :
  conj_tensor dim R (asym T) k l + conj_tensor dim R (asym T) k l
  = sumf (fun a => sumf (fun b => minor R k l a b * asym T a b) (seq 0 dim)) (seq 0 dim).
Proof.
  rewrite !conj_ent.
  transitivity (sumf (fun a => sumf (fun b => ent R k a * ent R l b * asym T a b) (seq 0 dim)) (seq 0 dim)
                + sumf (fun a => sumf (fun b => ent R k b * ent R l a * asym T b a) (seq 0 dim)) (seq 0 dim)).
  - f_equal. rewrite sumf_swap. reflexivity.
  - rewrite <- sumf_add2. apply sumf_ext2. intros a b. unfold minor, asym. ring.
Qed.

Lemma kmul_const {A} (c : K) (l : list A) : sumf (fun _ => c) l = kmul (length l) c.
Proof. induction l as [|x l IH]; cbn [sumf length kmul]; [reflexivity | rewrite IH; reflexivity]. Qed.

(* MAIN: a tensor invariant under a list of operations whose average kills every antisymmetric tensor
   has |Rs| * 2 * (T_kl - T_lk) = 0 *)
Theorem cross_symmetric_of_group dim Rs (T : nat -> nat -> K) :
  invariant dim Rs T -> no_axialb dim Rs = true ->
  forall k l, k < dim -> l < dim ->
    kmul (length Rs) (asym T k l + asym T k l) = 0.
Proof.
  intros Hinv Hna k l Hk Hl.
  rewrite <- kmul_const.
  transitivity (sumf (fun R => sumf (fun a => sumf (fun b => minor R k l a b * asym T a b) (seq 0 dim)) (seq 0 dim)) Rs).
  - apply sumf_ext. intros R HR. rewrite <- conj_double, <- conj_asym.
    unfold asym. rewrite <- (Hinv R HR k l Hk Hl), <- (Hinv R HR l k Hl Hk). reflexivity.
  - rewrite sumf_swap.
    transitivity (sumf (fun _ : nat => 0) (seq 0 dim)); [|apply sumf_zero].
    apply sumf_ext. intros a Ha. rewrite sumf_swap.
    transitivity (sumf (fun _ : nat => 0) (seq 0 dim)); [|apply sumf_zero].
    apply sumf_ext. intros b Hb.
    transitivity (sumf (fun R => minor R k l a b) Rs * asym T a b).
    + transitivity (asym T a b * sumf (fun R => minor R k l a b) Rs); [|ring].
      rewrite <- sumf_scal. apply sumf_ext. intros R _. ring.
    + unfold no_axialb in Hna. rewrite forallb_forall in Hna.
      assert (Ik : In k (seq 0 dim)) by (apply in_seq; lia).
      assert (Il : In l (seq 0 dim)) by (apply in_seq; lia).
      specialize (Hna k Ik). rewrite forallb_forall in Hna. specialize (Hna l Il).
      rewrite forallb_forall in Hna. specialize (Hna a Ha).
      rewrite forallb_forall in Hna. specialize (Hna b Hb).
      apply (reqb_spec K) in Hna. rewrite Hna. ring.
Qed.

(* torsion-free rings (Z, Q, every IEEE double is a rational): the tensor IS symmetric *)
Definition torsion_free : Prop := forall n a, kmul (S n) a = 0 -> a = 0.

Corollary cross_symmetric_of_group_tf dim Rs (T : nat -> nat -> K) :
  torsion_free -> Rs <> [] ->
  invariant dim Rs T -> no_axialb dim Rs = true ->
  forall k l, k < dim -> l < dim -> T k l = T l k.
Proof.
  intros TF Hne Hinv Hna k l Hk Hl.
  pose proof (cross_symmetric_of_group dim Rs T Hinv Hna k l Hk Hl) as H.
  destruct Rs as [|R0 Rs']; [congruence|]. cbn [length] in H.
  apply TF in H.
  assert (H2 : kmul 2 (asym T k l) = 0) by (cbn [kmul]; transitivity (asym T k l + asym T k l); [ring | exact H]).
  apply TF in H2. unfold asym in H2.
  transitivity ((T k l - T l k) + T l k); [ring | rewrite H2; ring].
Qed.

(* soundness of the certificate evaluator of the cross tensor: the reported entries are THE
   coefficients L(S_a, V_b), for ANY valid correctors *)
Theorem cross_report_sound n dim (N : net K) gam X :
  cross_report n dim N gam = Some X ->
  nonneg N /\
  forall a b, a < dim -> b < dim ->
    forall ga gb, weakKCL N (comp a) ga -> weakKCL N (comp (dim + b)) gb ->
      Bform N (comp a) (comp (dim + b)) ga gb = ent X a b.
Proof.
  unfold cross_report. intro H.
  destruct (wfb N n) eqn:Hwf; cbn [andb] in H; [|discriminate].
  destruct (nonnegb N) eqn:Hnn; cbn [andb] in H; [|discriminate].
  destruct (correctorsb N n (2 * dim) gam) eqn:Hc; [|discriminate].
  injection H as <-.
  pose proof (correctorsb_sound K N n (2 * dim) gam Hwf Hc) as Hcor.
  split; [apply nonnegb_sound; exact Hnn|].
  intros a b Ha Hb ga gb Hga Hgb.
  unfold ent, dims.
  rewrite (nth_map_seq (fun a0 => map (fun b0 => Lcomp N gam a0 (dim + b0)) (seq O dim))) by exact Ha.
  rewrite (nth_map_seq (fun b0 => Lcomp N gam a (dim + b0))) by exact Hb.
  unfold Lcomp.
  apply (L_welldef K N (comp a) (comp (dim + b)) ga (fld (nth a gam [])) gb (fld (nth (dim + b) gam []))).
  - exact Hga.
  - apply Hcor. lia.
Qed.

(* ---- block operations R (+) R on two-species networks ------------------------------------------ *)
Lemma seq_shift_add (d n : nat) : seq d n = map (fun b => Nat.add d b) (seq O n).
Proof.
  revert d. induction n as [|n IH]; intro d; [reflexivity|].
  cbn [seq map]. rewrite Nat.add_0_r. f_equal.
  rewrite (IH (S d)), <- seq_shift, map_map. apply map_ext. intro b. lia.
Qed.

Lemma sumf_split2 (f : nat -> K) (d : nat) :
  sumf f (seq O (Nat.add d d)) = sumf f (seq O d) + sumf (fun b => f (Nat.add d b)) (seq O d).
Proof.
  rewrite seq_app, sumf_app. cbn [Nat.add]. rewrite (seq_shift_add d d), sumf_map. reflexivity.
Qed.

Lemma blk_nth dim (R : list (list K)) k a : (k < Nat.add dim dim)%nat -> (a < Nat.add dim dim)%nat ->
  nth a (nth k (blk dim R) []) 0 = blk_ent dim R k a.
Proof.
  intros Hk Ha. unfold blk.
  rewrite (nth_map_seq (fun k0 => map (fun a0 => blk_ent dim R k0 a0) (seq O (Nat.add dim dim)))) by exact Hk.
  rewrite (nth_map_seq (fun a0 => blk_ent dim R k a0)) by exact Ha. reflexivity.
Qed.

Lemma blk_ent_lo dim (R : list (list K)) k a : (k < dim)%nat -> (a < dim)%nat -> blk_ent dim R k a = ent R k a.
Proof. intros Hk Ha. unfold blk_ent. apply Nat.ltb_lt in Hk, Ha. rewrite Hk, Ha. reflexivity. Qed.
Lemma blk_ent_lohi dim (R : list (list K)) k a : (k < dim)%nat -> blk_ent dim R k (Nat.add dim a) = 0.
Proof.
  intros Hk. unfold blk_ent. apply Nat.ltb_lt in Hk. rewrite Hk.
  destruct (Nat.ltb (Nat.add dim a) dim) eqn:E; [apply Nat.ltb_lt in E; lia | reflexivity].
Qed.
Lemma blk_ent_hilo dim (R : list (list K)) k a : (a < dim)%nat -> blk_ent dim R (Nat.add dim k) a = 0.
Proof.
  intros Ha. unfold blk_ent.
  destruct (Nat.ltb (Nat.add dim k) dim) eqn:E; [apply Nat.ltb_lt in E; lia|].
  apply Nat.ltb_lt in Ha. rewrite Ha. reflexivity.
Qed.
Lemma blk_ent_hi dim (R : list (list K)) k a : blk_ent dim R (Nat.add dim k) (Nat.add dim a) = ent R k a.
Proof.
  unfold blk_ent.
  destruct (Nat.ltb (Nat.add dim k) dim) eqn:E; [apply Nat.ltb_lt in E; lia|].
  destruct (Nat.ltb (Nat.add dim a) dim) eqn:E2; [apply Nat.ltb_lt in E2; lia|].
  replace (Nat.sub (Nat.add dim k) dim) with k by lia. replace (Nat.sub (Nat.add dim a) dim) with a by lia. reflexivity.
Qed.

(* the S-V block of the conjugated 2dim x 2dim tensor is the conjugated S-V block *)
Lemma conj_blk dim (R : list (list K)) (T : nat -> nat -> K) k l : (k < dim)%nat -> (l < dim)%nat ->
  conj_tensor (Nat.add dim dim) (blk dim R) T k (Nat.add dim l)
  = conj_tensor dim R (fun a b => T a (Nat.add dim b)) k l.
Proof.
  intros Hk Hl. unfold conj_tensor.
  transitivity (sumf (fun a => sumf (fun b => blk_ent dim R k a * blk_ent dim R (Nat.add dim l) b * T a b)
                                    (seq O (Nat.add dim dim))) (seq O (Nat.add dim dim))).
  { apply sumf_ext. intros a Ha. apply sumf_ext. intros b Hb. apply in_seq in Ha, Hb.
    rewrite !blk_nth by lia. reflexivity. }
  rewrite sumf_split2.
  transitivity (sumf (fun a => sumf (fun b => ent R k a * ent R l b * T a (Nat.add dim b)) (seq O dim)) (seq O dim) + 0).
  2:{ fold (ent R). ring_simplify. apply sumf_ext. intros a _. apply sumf_ext. intros b _. reflexivity. }
  f_equal.
  - apply sumf_ext. intros a Ha. apply in_seq in Ha. rewrite sumf_split2.
    transitivity (0 + sumf (fun b => ent R k a * ent R l b * T a (Nat.add dim b)) (seq O dim)); [|ring].
    f_equal.
    + transitivity (sumf (fun _ : nat => 0) (seq O dim)); [|apply sumf_zero].
      apply sumf_ext. intros b Hb. apply in_seq in Hb. rewrite (blk_ent_hilo dim R l b) by lia. ring.
    + apply sumf_ext. intros b _. rewrite blk_ent_lo by lia. rewrite blk_ent_hi. reflexivity.
  - transitivity (sumf (fun _ : nat => 0) (seq O dim)); [|apply sumf_zero].
    apply sumf_ext. intros a _.
    transitivity (sumf (fun _ : nat => 0) (seq O (Nat.add dim dim))); [|apply sumf_zero].
    apply sumf_ext. intros b _. rewrite (blk_ent_lohi dim R k a) by exact Hk. ring.
Qed.

(* operations that map the two-species network onto itself leave the cross tensor invariant *)
Theorem cross_invariant n dim (N : net K) ops (g : nat -> nat -> K) :
  ops_okb dim n N ops = true ->
  (forall l, (l < Nat.add dim dim)%nat -> weakKCL N (comp l) (g l)) ->
  invariant dim (map (fun o => fst (fst o)) ops)
            (fun a b => Bform N (comp a) (comp (Nat.add dim b)) (g a) (g (Nat.add dim b))).
Proof.
  intros Hok Hg R HR k l Hk Hl.
  apply in_map_iff in HR. destruct HR as [[[R' p] q] [HRe Hin]]. cbn [fst] in HRe. subst R'.
  unfold ops_okb in Hok. rewrite forallb_forall in Hok. specialize (Hok _ Hin). cbn beta iota in Hok.
  repeat (apply andb_true_iff in Hok; destruct Hok as [Hok ?]).
  match goal with
  | H1 : Nat.eqb (length q) n = true, H2 : inverseb n p q = true, H3 : isob _ _ _ _ = true |- _ =>
      apply Nat.eqb_eq in H1; apply Nat.eqb_eq in Hok;
      pose proof (symmetry_checker_sound K N (Nat.add dim dim) (blk dim R) p q n g Hok H1 H2 H3 Hg
                    k (Nat.add dim l) ltac:(lia) ltac:(lia)) as E
  end.
  rewrite E. apply (conj_blk dim R (fun a b => Bform N (comp a) (comp b) (g a) (g b)) k l Hk Hl).
Qed.

(* COMBINED soundness of the executable checks: every listed operation maps the chain onto itself and the
   listed matrices leave no antisymmetric tensor invariant  ==>  the cross tensor, for ANY correctors, is symmetric
   up to the torsion factor (symmetric outright over Z, Q) *)
Theorem cross_symmetric_checker_sound n dim (N : net K) ops (g : nat -> nat -> K) :
  ops_okb dim n N ops = true ->
  no_axialb dim (map (fun o => fst (fst o)) ops) = true ->
  (forall l, (l < Nat.add dim dim)%nat -> weakKCL N (comp l) (g l)) ->
  forall k l, (k < dim)%nat -> (l < dim)%nat ->
    let T := fun a b => Bform N (comp a) (comp (Nat.add dim b)) (g a) (g (Nat.add dim b)) in
    kmul (length ops) (asym T k l + asym T k l) = 0.
Proof.
  intros Hok Hna Hg k l Hk Hl T.
  rewrite <- (map_length (fun o => fst (fst o)) ops).
  apply (cross_symmetric_of_group dim (map (fun o => fst (fst o)) ops) T);
    [apply (cross_invariant n dim N ops g Hok Hg) | exact Hna | exact Hk | exact Hl].
Qed.

End P.

(* ---- Z is torsion free ---------------------------------------------------------------------- *)
Lemma kmul_Z n (a : Z) : kmul (K:=Zring) n a = (Z.of_nat n * a)%Z.
Proof.
  induction n as [|n IH]; [reflexivity|].
  cbn [kmul]. rewrite IH. change (radd Zring) with Z.add. lia.
Qed.

Lemma Z_torsion_free : torsion_free Zring.
Proof.
  intros n a H. rewrite kmul_Z in H. change (r0 Zring) with 0%Z in *. nia.
Qed.

(* ---- the unconditional statement is FALSE: a reversible two-species network with Kirchhoff-exact
   correctors whose cross tensor is not symmetric (one state, one jump pair moving the solute along x
   and the vacancy along y) --------------------------------------------------------------------- *)
Definition refute_net : net Zring :=
  [ mkEdge (K:=Zring) 0 0 1%Z [1; 0; 0; 1]%Z ; mkEdge (K:=Zring) 0 0 1%Z [-1; 0; 0; -1]%Z ].

Theorem cross_symmetric_refuted :
  exists (N : net Zring) (g : nat -> nat -> Z),
    nonneg N /\ revclosedb N = true /\
    (forall k, k < 4 -> weakKCL N (comp k) (g k)) /\
    Bform N (comp 0) (comp (2 + 1)) (g 0) (g 3) <> Bform N (comp 1) (comp (2 + 0)) (g 1) (g 2).
Proof.
  exists refute_net, (fun _ _ => 0%Z).
  split; [apply nonnegb_sound; vm_compute; reflexivity|].
  split; [vm_compute; reflexivity|].
  split.
  - intros k Hk. apply (KCLb_weak Zring refute_net 1); [vm_compute; reflexivity|].
    destruct k as [|[|[|[|k]]]]; try lia; vm_compute; reflexivity.
  - vm_compute. discriminate.
Qed.

(* non-vacuity of the criterion: the 2-D group {1, mirror x} kills antisymmetric tensors, {1, -1} does not *)
Example no_axial_mirror : no_axialb (K:=Zring) 2 [ [[1;0];[0;1]]; [[-1;0];[0;1]] ]%Z = true.
Proof. vm_compute. reflexivity. Qed.
Example axial_inversion : no_axialb (K:=Zring) 2 [ [[1;0];[0;1]]; [[-1;0];[0;-1]] ]%Z = false.
Proof. vm_compute. reflexivity. Qed.
