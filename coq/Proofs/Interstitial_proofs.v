From Coq Require Import List Arith Bool Lia.
From Onsager Require Import Base.OrdRing Model.Net Model.Interstitial Proofs.Net_proofs.
Import ListNotations.

Section P.
Variable K : ordring.

Lemma correctorsb_sound (N : net K) n dim gam :
  wfb N n = true -> correctorsb N n dim gam = true ->
  forall k, k < dim -> weakKCL N (comp k) (fld (nth k gam [])).
Proof.
  intros Hwf H k Hk. unfold correctorsb in H. rewrite forallb_forall in H.
  apply (KCLb_weak K N n); [exact Hwf|]. apply H. unfold dims. apply in_seq. lia.
Qed.

(* The certificate checker is sound: when it answers true, the supplied bounds enclose THE
   transport coefficient of the network -- the value of the bilinear form for ANY pair of
   correctors, not only the supplied ones. *)
Theorem check_case_sound n dim wT jumps gam lo hi :
  check_case n dim wT jumps gam lo hi = true ->
  let N := net_of wT jumps in
  nonneg N /\
  (forall k, k < dim -> weakKCL N (comp k) (fld (nth k gam []))) /\
  (forall k l, k < dim -> l < dim ->
     forall gk gl, weakKCL N (comp k) gk -> weakKCL N (comp l) gl ->
       rle K (nth l (nth k lo []) (r0 K)) (Bform N (comp k) (comp l) gk gl) /\
       rle K (Bform N (comp k) (comp l) gk gl) (nth l (nth k hi []) (r0 K))).
Proof.
  unfold check_case. cbv zeta. intros H. set (N := net_of wT jumps) in *.
  repeat (apply andb_true_iff in H; destruct H as [H ?]).
  match goal with
  | H1 : nonnegb _ = true, H3 : correctorsb _ _ _ _ = true, H4 : forallb _ (dims dim) = true |- _ =>
      rename H1 into Hnn; rename H3 into Hc; rename H4 into Hb
  end.
  assert (Hcor := correctorsb_sound N n dim gam H Hc).
  split; [apply nonnegb_sound; exact Hnn|]. split; [exact Hcor|].
  intros k l Hk Hl gk gl Hgk Hgl.
  rewrite forallb_forall in Hb.
  assert (Hk' : In k (dims dim)) by (unfold dims; apply in_seq; lia).
  assert (Hl' : In l (dims dim)) by (unfold dims; apply in_seq; lia).
  specialize (Hb k Hk'). rewrite forallb_forall in Hb. specialize (Hb l Hl').
  unfold in_bounds in Hb. apply andb_true_iff in Hb. destruct Hb as [B1 B2].
  apply (rleb_spec K) in B1. apply (rleb_spec K) in B2.
  unfold Lcomp in B1, B2.
  rewrite (L_welldef K N (comp k) (comp l) gk (fld (nth k gam [])) gl (fld (nth l gam [])) Hgk (Hcor l Hl)).
  split; assumption.
Qed.

Theorem diagnose_zero n dim (wT : list K) jumps gam lo hi :
  diagnose n dim wT jumps gam lo hi = 0 -> check_case n dim wT jumps gam lo hi = true.
Proof.
  unfold diagnose, check_case. cbv zeta.
  destruct (wfb _ n); cbn [negb]; [|discriminate].
  destruct (nonnegb _); cbn [negb]; [|discriminate].
  destruct (revclosedb _); cbn [negb]; [|discriminate].
  destruct (correctorsb _ n dim gam); cbn [negb]; [|discriminate].
  destruct (forallb _ (dims dim)); cbn [negb]; [reflexivity|discriminate].
Qed.

End P.
