(* Proofs about Model/ValueTypes.v (C36).  All statements are for ALL values of the types. *)
From Coq Require Import ZArith List Bool Lia Permutation Ring.
From Onsager Require Import Base.OrdRing Base.Instances Model.ValueTypes.
Import ListNotations.
Local Open Scope Z_scope.

(* ---------------------------------------------------------------------------------------- *)
(* lists and integer vectors *)
Lemma list_eqb_spec {A} (e : A -> A -> bool) (He : forall x y, e x y = true <-> x = y) a b :
  list_eqb e a b = true <-> a = b.
Proof.
  revert b; induction a as [|x a IH]; intros [|y b]; cbn; split; intro E; try reflexivity; try discriminate.
  - apply andb_true_iff in E as [E1 E2]. apply He in E1. apply IH in E2. subst; reflexivity.
  - injection E as -> ->. apply andb_true_iff; split; [apply He; reflexivity | apply IH; reflexivity].
Qed.

Lemma veqb_spec a b : veqb a b = true <-> a = b.
Proof. apply list_eqb_spec. exact Z.eqb_eq. Qed.

Lemma veqb_refl a : veqb a a = true.
Proof. apply veqb_spec; reflexivity. Qed.

Lemma mateqb_spec a b : mateqb a b = true <-> a = b.
Proof. apply list_eqb_spec. exact veqb_spec. Qed.

Lemma len_map2 {A} (f : A -> A -> A) a b : length (map2 f a b) = Nat.min (length a) (length b).
Proof. revert b; induction a as [|x a IH]; intros [|y b]; cbn; try reflexivity. rewrite IH; reflexivity. Qed.

Lemma len_vadd a b : length (vadd a b) = Nat.min (length a) (length b).
Proof. apply len_map2. Qed.
Lemma len_vsub a b : length (vsub a b) = Nat.min (length a) (length b).
Proof. apply len_map2. Qed.
Lemma len_vneg a : length (vneg a) = length a.
Proof. apply map_length. Qed.
Lemma len_vscale n a : length (vscale n a) = length a.
Proof. apply map_length. Qed.
Lemma len_vzero d : length (vzero d) = d.
Proof. apply repeat_length. Qed.
Lemma len_mulmv m v : length (mulmv m v) = length m.
Proof. apply map_length. Qed.

Lemma nth_vadd a b k : length a = length b -> nth k (vadd a b) 0 = nth k a 0 + nth k b 0.
Proof.
  revert b k; induction a as [|x a IH]; intros [|y b] k E; cbn in *; try discriminate.
  - destruct k; reflexivity.
  - destruct k; [reflexivity | apply IH; lia].
Qed.
Lemma nth_vsub a b k : length a = length b -> nth k (vsub a b) 0 = nth k a 0 - nth k b 0.
Proof.
  revert b k; induction a as [|x a IH]; intros [|y b] k E; cbn in *; try discriminate.
  - destruct k; reflexivity.
  - destruct k; [reflexivity | apply IH; lia].
Qed.
Lemma nth_vneg a k : nth k (vneg a) 0 = - nth k a 0.
Proof. unfold vneg. change 0 with (- 0) at 1. apply map_nth. Qed.
Lemma nth_vscale n a k : nth k (vscale n a) 0 = n * nth k a 0.
Proof. unfold vscale. replace 0 with (n * 0) at 1 by lia. apply map_nth. Qed.
Lemma nth_vzero d k : nth k (vzero d) 0 = 0.
Proof. unfold vzero. revert k; induction d as [|d IH]; intros [|k]; cbn; try reflexivity. apply IH. Qed.
Lemma nth_mulmv m v k : nth k (mulmv m v) 0 = dot (nth k m []) v.
Proof. unfold mulmv. change 0 with ((fun r => dot r v) []) at 1. apply map_nth. Qed.

Lemma vec_ext (a b : vec) : length a = length b -> (forall k, nth k a 0 = nth k b 0) -> a = b.
Proof.
  revert b; induction a as [|x a IH]; intros [|y b] E Hn; cbn in *; try discriminate; [reflexivity|].
  f_equal; [exact (Hn 0%nat) | apply IH; [lia | intro k; exact (Hn (S k))]].
Qed.

Lemma dot_vadd r a b : length a = length b -> dot r (vadd a b) = dot r a + dot r b.
Proof.
  revert a b; induction r as [|x r IH]; intros [|y a] [|z b] E; cbn in *; try discriminate; try lia.
  rewrite IH by lia. lia.
Qed.
Lemma dot_vsub r a b : length a = length b -> dot r (vsub a b) = dot r a - dot r b.
Proof.
  revert a b; induction r as [|x r IH]; intros [|y a] [|z b] E; cbn in *; try discriminate; try lia.
  rewrite IH by lia. lia.
Qed.
Lemma dot_vneg r a : dot r (vneg a) = - dot r a.
Proof. revert a; induction r as [|x r IH]; intros [|y a]; cbn; try lia. rewrite IH. lia. Qed.
Lemma dot_vzero r d : dot r (vzero d) = 0.
Proof. revert d; induction r as [|x r IH]; intros [|d]; cbn; try lia. unfold vzero in IH. rewrite IH. lia. Qed.

Lemma viszero_cons x a : viszero (x :: a) = (Z.eqb 0 x && viszero a)%bool.
Proof. reflexivity. Qed.
Lemma viszero_spec a : viszero a = true <-> a = vzero (length a).
Proof.
  induction a as [|x a IH]; [cbn; split; reflexivity|].
  rewrite viszero_cons, andb_true_iff, IH, Z.eqb_eq. unfold vzero; cbn [length repeat]. split.
  - intros [<- E]. f_equal. exact E.
  - intro E. injection E as E1 E2. split; [symmetry; exact E1 | exact E2].
Qed.
Lemma viszero_vzero d : viszero (vzero d) = true.
Proof. apply viszero_spec. rewrite len_vzero. reflexivity. Qed.
Lemma viszero_nth a : viszero a = true <-> (forall k, nth k a 0 = 0).
Proof.
  induction a as [|x a IH].
  - cbn. split; [intros _ [|k]; reflexivity | reflexivity].
  - rewrite viszero_cons, andb_true_iff, IH, Z.eqb_eq. split.
    + intros [<- E] [|k]; [reflexivity | apply E].
    + intro E. split; [symmetry; exact (E 0%nat) | intro k; exact (E (S k))].
Qed.

(* rewriting data base used by the vector tactic *)
Ltac vlen :=
  repeat first [ rewrite len_vadd in * | rewrite len_vsub in * | rewrite len_vneg in * | rewrite len_vscale in *
               | rewrite len_vzero in * | rewrite len_mulmv in * ]; try lia.
Ltac vnth :=
  repeat first
    [ rewrite nth_vneg | rewrite nth_vscale | rewrite nth_vzero | rewrite nth_mulmv
    | rewrite nth_vadd by vlen | rewrite nth_vsub by vlen
    | rewrite dot_vneg | rewrite dot_vzero | rewrite dot_vadd by vlen | rewrite dot_vsub by vlen ].
Ltac vext := apply vec_ext; [ vlen | let k := fresh "k" in intro k; vnth; try lia ].

(* ---------------------------------------------------------------------------------------- *)
Section Laws.
Variable K : ordring.
Variable H : list Z -> Z.
Add Ring Kr : (r_ring K).

(* vectors over K (Cartesian dx) *)
Lemma kneg_kneg (a : list K) : kneg (kneg a) = a.
Proof. unfold kneg. induction a as [|x a IH]; cbn; [reflexivity|]. rewrite IH. f_equal. ring. Qed.
Lemma kadd_ksub_cancel (a b : list K) : length a = length b -> kadd (kadd a (kneg b)) b = a.
Proof.
  unfold kadd, kneg.
  revert b; induction a as [|x a IH]; intros [|y b] E; cbn in *; try discriminate; [reflexivity|].
  rewrite IH by lia. f_equal. ring.
Qed.
Lemma kadd_xor_cancel (a b : list K) : length a = length b -> kadd b (ksub a b) = a.
Proof.
  unfold kadd, ksub.
  revert b; induction a as [|x a IH]; intros [|y b] E; cbn in *; try discriminate; [reflexivity|].
  rewrite IH by lia. f_equal. ring.
Qed.
Lemma kdot_kneg (r a : list K) : kdot r (kneg a) = ropp K (kdot r a).
Proof. unfold kneg. revert a; induction r as [|x r IH]; intros [|y a]; cbn; try ring. rewrite IH. ring. Qed.
Lemma kdot_kadd (r a b : list K) : length a = length b -> kdot r (kadd a b) = radd K (kdot r a) (kdot r b).
Proof.
  unfold kadd.
  revert a b; induction r as [|x r IH]; intros [|y a] [|z b] E; cbn in *; try discriminate; try ring.
  rewrite IH by lia. ring.
Qed.
Lemma kdot_ksub (r a b : list K) : length a = length b -> kdot r (ksub a b) = rsub K (kdot r a) (kdot r b).
Proof.
  unfold ksub.
  revert a b; induction r as [|x r IH]; intros [|y a] [|z b] E; cbn in *; try discriminate; try ring.
  rewrite IH by lia. ring.
Qed.
Lemma kmulmv_kneg m (a : list K) : kmulmv m (kneg a) = kneg (kmulmv m a).
Proof.
  induction m as [|r m IH]; [reflexivity|].
  unfold kmulmv in *. cbn [map]. rewrite IH, kdot_kneg. reflexivity.
Qed.
Lemma kmulmv_kadd m (a b : list K) : length a = length b -> kmulmv m (kadd a b) = kadd (kmulmv m a) (kmulmv m b).
Proof.
  intro E. induction m as [|r m IH]; [reflexivity|].
  unfold kmulmv in *. cbn [map]. rewrite IH, kdot_kadd by exact E. reflexivity.
Qed.
Lemma kmulmv_ksub m (a b : list K) : length a = length b -> kmulmv m (ksub a b) = ksub (kmulmv m a) (kmulmv m b).
Proof.
  intro E. induction m as [|r m IH]; [reflexivity|].
  unfold kmulmv in *. cbn [map]. rewrite IH, kdot_ksub by exact E. reflexivity.
Qed.

(* ======================= PairState ======================================================= *)
Notation pstate := (pstate K).
Ltac psimp := cbn [ps_i ps_j ps_R ps_dx negb andb orb].

(* well-formed of dimension d: R and dx have d entries *)
Definition ps_wf (d : nat) (a : pstate) : Prop := length (ps_R a) = d /\ length (ps_dx a) = d.

(* eq decides equality of (i, j, R) *)
Lemma ps_eqb_spec (a b : pstate) :
  ps_eqb a b = true <-> ps_i a = ps_i b /\ ps_j a = ps_j b /\ ps_R a = ps_R b.
Proof.
  unfold ps_eqb. rewrite !andb_true_iff, !Z.eqb_eq, veqb_spec. tauto.
Qed.

Theorem ps_eq_refl (a : pstate) : ps_eqb a a = true.
Proof. apply ps_eqb_spec; auto. Qed.
Theorem ps_eq_sym (a b : pstate) : ps_eqb a b = ps_eqb b a.
Proof.
  destruct (ps_eqb a b) eqn:E1, (ps_eqb b a) eqn:E2; try reflexivity.
  - apply ps_eqb_spec in E1 as (?&?&?). assert (ps_eqb b a = true) by (apply ps_eqb_spec; auto). congruence.
  - apply ps_eqb_spec in E2 as (?&?&?). assert (ps_eqb a b = true) by (apply ps_eqb_spec; auto). congruence.
Qed.
Theorem ps_eq_trans (a b c : pstate) : ps_eqb a b = true -> ps_eqb b c = true -> ps_eqb a c = true.
Proof.
  rewrite !ps_eqb_spec. intros (?&?&?) (?&?&?). repeat split; congruence.
Qed.
Theorem ps_ne_negb (a b : pstate) : ps_neb a b = negb (ps_eqb a b).
Proof. reflexivity. Qed.
Theorem ps_eq_hash (a b : pstate) : ps_eqb a b = true -> ps_hash H a = ps_hash H b.
Proof. rewrite ps_eqb_spec. intros (E1&E2&E3). unfold ps_hash. rewrite E1, E2, E3. reflexivity. Qed.

Theorem ps_iszero_eq_zero (a : pstate) :
  ps_iszero a = true <-> ps_eqb a (ps_zero (ps_i a) (length (ps_R a))) = true.
Proof.
  unfold ps_iszero. rewrite ps_eqb_spec, andb_true_iff, Z.eqb_eq, viszero_spec. cbn. intuition congruence.
Qed.

Theorem ps_neg_neg (a : pstate) : ps_neg (ps_neg a) = a.
Proof.
  destruct a as [i j R dx]. unfold ps_neg; cbn. f_equal; [| apply kneg_kneg].
  vext.
Qed.

(* a + (-a) and (-a) + a are defined and are zero states *)
Theorem ps_add_neg (a : pstate) :
  exists z, ps_add a (ps_neg a) = Some z /\ ps_iszero z = true.
Proof.
  destruct a as [i j R dx].
  assert (Z0 : viszero (vadd R (vneg R)) = true) by (apply viszero_nth; intro k; vnth; lia).
  assert (Zn : viszero (vneg R) = viszero R).
  { destruct (viszero R) eqn:E.
    - apply viszero_nth. intro k. vnth. apply viszero_nth with (k := k) in E. lia.
    - destruct (viszero (vneg R)) eqn:E'; [|reflexivity].
      assert (viszero R = true); [|congruence]. apply viszero_nth. intro k.
      apply viszero_nth with (k := k) in E'. rewrite nth_vneg in E'. lia. }
  unfold ps_add, ps_neg, ps_iszero. psimp. rewrite Zn.
  destruct ((i =? j) && viszero R && (j =? -1))%bool eqn:S1.
  - eexists; split; [reflexivity|]. psimp.
    apply andb_true_iff in S1 as [S1 _]. apply andb_true_iff in S1 as [E ZR].
    rewrite Zn, ZR. apply Z.eqb_eq in E. subst. rewrite Z.eqb_refl. reflexivity.
  - destruct ((j =? i) && viszero R && (j =? -1))%bool eqn:S2.
    + eexists; split; [reflexivity|]. psimp.
      apply andb_true_iff in S2 as [S2 _]. apply andb_true_iff in S2 as [E ZR].
      rewrite ZR, Z.eqb_sym, E. reflexivity.
    + rewrite Z.eqb_refl. psimp. eexists; split; [reflexivity|]. psimp. rewrite Z.eqb_refl, Z0. reflexivity.
Qed.

Theorem ps_neg_add (a : pstate) :
  exists z, ps_add (ps_neg a) a = Some z /\ ps_iszero z = true.
Proof.
  destruct (ps_add_neg (ps_neg a)) as (z & E & Hz). rewrite ps_neg_neg in E. eauto.
Qed.

(* generic (no shortcut) sum *)
Definition ps_add_plain (a b : pstate) : pstate :=
  mkPS (ps_i a) (ps_j b) (vadd (ps_R a) (ps_R b)) (kadd (ps_dx a) (ps_dx b)).

Lemma ps_neg_wf d (a : pstate) : ps_wf d a -> ps_wf d (ps_neg a).
Proof. intros [L1 L2]. split; unfold ps_neg; psimp; [vlen | unfold kneg; rewrite map_length; exact L2]. Qed.

Lemma ps_add_wf d (a b c : pstate) : ps_wf d a -> ps_wf d b -> ps_add a b = Some c -> ps_wf d c.
Proof.
  intros [A1 A2] [B1 B2] E. unfold ps_add in E.
  destruct (ps_iszero a && (ps_j a =? -1)); [injection E as <-; split; assumption|].
  destruct (ps_iszero b && (ps_i b =? -1)); [injection E as <-; split; assumption|].
  destruct (negb (ps_j a =? ps_i b)); [discriminate|]. injection E as <-. split; psimp.
  - vlen.
  - unfold kadd. rewrite len_map2. lia.
Qed.

(* when the end points match, the result is eq to the plain sum whether or not a shortcut fires *)
Lemma ps_add_matching d (a b : pstate) :
  ps_wf d a -> ps_wf d b -> ps_j a = ps_i b ->
  exists c, ps_add a b = Some c /\ ps_eqb c (ps_add_plain a b) = true.
Proof.
  intros [La _] [Lb _] E. unfold ps_add.
  destruct (ps_iszero a && (ps_j a =? -1)) eqn:S1.
  - apply andb_true_iff in S1 as [Za J]. unfold ps_iszero in Za. apply andb_true_iff in Za as [Ia Ra].
    apply Z.eqb_eq in Ia, J. exists b. split; [reflexivity|]. apply ps_eqb_spec. cbn.
    repeat split; try congruence. symmetry. vext. apply viszero_nth with (k := k) in Ra. lia.
  - destruct (ps_iszero b && (ps_i b =? -1)) eqn:S2.
    + apply andb_true_iff in S2 as [Zb J]. unfold ps_iszero in Zb. apply andb_true_iff in Zb as [Ib Rb].
      apply Z.eqb_eq in Ib, J. exists a. split; [reflexivity|]. apply ps_eqb_spec. cbn.
      repeat split; try congruence. symmetry. vext. apply viszero_nth with (k := k) in Rb. lia.
    + rewrite E, Z.eqb_refl. cbn. eexists; split; [reflexivity|]. apply ps_eqb_spec. cbn. auto.
Qed.

(* __add__ raises exactly when the end points differ and neither shortcut applies *)
Theorem ps_add_defined (a b : pstate) :
  ps_add a b = None <->
  (ps_j a <> ps_i b /\ (ps_iszero a && (ps_j a =? -1)) = false /\ (ps_iszero b && (ps_i b =? -1)) = false).
Proof.
  unfold ps_add.
  destruct (ps_iszero a && (ps_j a =? -1)); [split; [discriminate | intros (_&?&_); discriminate]|].
  destruct (ps_iszero b && (ps_i b =? -1)); [split; [discriminate | intros (_&_&?); discriminate]|].
  destruct (Z.eqb_spec (ps_j a) (ps_i b)); cbn; split; try discriminate; try tauto.
Qed.

(* (a - b) + b = a  for states with the same final site (the documented domain of a - b) *)
Theorem ps_sub_add d (a b : pstate) :
  ps_wf d a -> ps_wf d b -> ps_j a = ps_j b ->
  exists c, ps_sub a b = Some c /\ exists a', ps_add c b = Some a' /\ ps_eqb a' a = true.
Proof.
  intros Wa Wb E. unfold ps_sub.
  pose proof (ps_neg_wf d b Wb) as Wn.
  destruct (ps_add_matching d a (ps_neg b) Wa Wn E) as (c & Ec & Hc).
  exists c. split; [exact Ec|].
  pose proof (ps_add_wf d a (ps_neg b) c Wa Wn Ec) as Wc.
  apply ps_eqb_spec in Hc as (C1 & C2 & C3). cbn in C1, C2, C3.
  destruct (ps_add_matching d c b Wc Wb C2) as (a' & Ea & Ha). exists a'. split; [exact Ea|].
  apply ps_eqb_spec in Ha as (A1 & A2 & A3). cbn in A1, A2, A3.
  apply ps_eqb_spec. repeat split; try congruence.
  rewrite A3, C3. destruct Wa as [La _], Wb as [Lb _]. vext.
Qed.

(* b + (a ^ b) = a  for states with the same initial site (the documented domain of a ^ b) *)
Theorem ps_add_xor d (a b : pstate) :
  ps_wf d a -> ps_wf d b -> ps_i a = ps_i b ->
  exists c, ps_xor a b = Some c /\ exists a', ps_add b c = Some a' /\ ps_eqb a' a = true.
Proof.
  intros Wa Wb E. unfold ps_xor. rewrite E, Z.eqb_refl. cbn.
  eexists; split; [reflexivity|].
  set (c := mkPS (ps_j b) (ps_j a) (vsub (ps_R a) (ps_R b)) (ksub (ps_dx a) (ps_dx b))).
  assert (Wc : ps_wf d c).
  { destruct Wa as [A1 A2], Wb as [B1 B2]. split; cbn; [vlen | unfold ksub; rewrite len_map2; lia]. }
  destruct (ps_add_matching d b c Wb Wc eq_refl) as (a' & Ea & Ha). exists a'. split; [exact Ea|].
  apply ps_eqb_spec in Ha as (A1 & A2 & A3). cbn in A1, A2, A3.
  apply ps_eqb_spec. repeat split; try congruence.
  rewrite A3. destruct Wa as [La _], Wb as [Lb _]. vext.
Qed.

(* __xor__ raises exactly when the initial sites differ *)
Theorem ps_xor_defined (a b : pstate) : ps_xor a b = None <-> ps_i a <> ps_i b.
Proof.
  unfold ps_xor. destruct (Z.eqb_spec (ps_i a) (ps_i b)); cbn; split; try discriminate; try tauto.
Qed.

(* For regular states (site indices >= 0: everything the library builds except PairState.zero(-1))
   no shortcut fires and the identities hold for ALL fields including dx, over any ring. *)
Definition ps_regular (a : pstate) : Prop := 0 <= ps_i a /\ 0 <= ps_j a.

Lemma ps_add_regular (a b : pstate) :
  ps_regular a -> ps_regular b -> ps_j a = ps_i b -> ps_add a b = Some (ps_add_plain a b).
Proof.
  intros [_ Ja] [Ib _] E. unfold ps_add.
  destruct (Z.eqb_spec (ps_j a) (-1)); [lia|]. destruct (Z.eqb_spec (ps_i b) (-1)); [lia|].
  rewrite !andb_false_r. rewrite E, Z.eqb_refl. reflexivity.
Qed.

Theorem ps_sub_add_strong d (a b : pstate) :
  ps_wf d a -> ps_wf d b -> ps_regular a -> ps_regular b -> ps_j a = ps_j b ->
  exists c, ps_sub a b = Some c /\ ps_add c b = Some a.
Proof.
  intros [A1 A2] [B1 B2] Ra Rb E. unfold ps_sub.
  assert (Rn : ps_regular (ps_neg b)) by (destruct Rb; split; cbn; assumption).
  rewrite (ps_add_regular a (ps_neg b) Ra Rn E). eexists; split; [reflexivity|].
  rewrite ps_add_regular; [| destruct Ra, Rb; split; cbn; assumption | exact Rb | reflexivity].
  unfold ps_add_plain; cbn. destruct a as [i j R dx]; cbn in *. subst j. f_equal. f_equal.
  - vext.
  - apply kadd_ksub_cancel. congruence.
Qed.

Theorem ps_add_xor_strong d (a b : pstate) :
  ps_wf d a -> ps_wf d b -> ps_regular a -> ps_regular b -> ps_i a = ps_i b ->
  exists c, ps_xor a b = Some c /\ ps_add b c = Some a.
Proof.
  intros [A1 A2] [B1 B2] Ra Rb E. unfold ps_xor. rewrite E, Z.eqb_refl. cbn.
  eexists; split; [reflexivity|].
  rewrite ps_add_regular; [| exact Rb | destruct Ra, Rb; split; cbn; assumption | reflexivity].
  unfold ps_add_plain; cbn. destruct a as [i j R dx]; cbn in *. subst i. f_equal. f_equal.
  - vext.
  - apply kadd_xor_cancel. congruence.
Qed.

(* Outside the documented domain the zero(-1) shortcut makes a - b defined but (a-b)+b <> a *)
Theorem ps_sub_add_outside_domain :
  exists a b : pstate, ps_j a <> ps_j b /\
    exists c, ps_sub a b = Some c /\ exists a', ps_add c b = Some a' /\ ps_eqb a' a = false.
Proof.
  exists (mkPS (-1) (-1) [0] [r0 K]), (mkPS 0 1 [1] [r0 K]). split; [cbn; lia|].
  eexists; split; [reflexivity|]. eexists; split; [reflexivity|]. reflexivity.
Qed.

(* ---------- commutation with a group operation ------------------------------------------ *)
(* g of dimension d acting on the n sites of the sublattice: rot has d rows, every delu_i has d
   entries, and indexmap maps 0..n-1 into 0..n-1 *)
Definition lop_wf (d : nat) (n : Z) (g : lop K) : Prop :=
  length (l_rot g) = d /\ (forall i, 0 <= i < n -> length (zth (l_t g) i []) = d) /\
  (forall i, 0 <= i < n -> 0 <= zth (l_perm g) i 0 < n).
Definition ps_in (n : Z) (a : pstate) : Prop := 0 <= ps_i a < n /\ 0 <= ps_j a < n.

Lemma ps_in_regular n a : ps_in n a -> ps_regular a.
Proof. intros [I J]. split; lia. Qed.

Lemma ps_g_unfold (g : lop K) (a : pstate) :
  ps_g g a = mkPS (zth (l_perm g) (ps_i a) 0) (zth (l_perm g) (ps_j a) 0)
                  (vsub (vadd (mulmv (l_rot g) (ps_R a)) (zth (l_t g) (ps_j a) []))
                        (vadd (mulmv (l_rot g) (vzero (length (ps_R a)))) (zth (l_t g) (ps_i a) [])))
                  (kmulmv (l_cart g) (ps_dx a)).
Proof. reflexivity. Qed.

Lemma ps_g_in d n g a : lop_wf d n g -> ps_in n a -> ps_in n (ps_g g a).
Proof. intros (_&_&P) [I J]. rewrite ps_g_unfold. split; psimp; apply P; assumption. Qed.

Theorem ps_g_neg d n (g : lop K) (a : pstate) :
  lop_wf d n g -> ps_wf d a -> ps_in n a -> ps_g g (ps_neg a) = ps_neg (ps_g g a).
Proof.
  intros (Lr & Lt & _) [La Ld] [I J]. rewrite !ps_g_unfold. unfold ps_neg; psimp.
  pose proof (Lt _ I) as Ti. pose proof (Lt _ J) as Tj.
  f_equal; [| apply kmulmv_kneg]. vext.
Qed.

Theorem ps_g_add d n (g : lop K) (a b c : pstate) :
  lop_wf d n g -> ps_wf d a -> ps_wf d b -> ps_in n a -> ps_in n b ->
  ps_add a b = Some c -> ps_add (ps_g g a) (ps_g g b) = Some (ps_g g c).
Proof.
  intros Wg [La Lda] [Lb Ldb] Ia Ib E.
  pose proof (ps_in_regular n a Ia) as Ra. pose proof (ps_in_regular n b Ib) as Rb.
  assert (M : ps_j a = ps_i b).
  { destruct (Z.eq_dec (ps_j a) (ps_i b)) as [e|ne]; [exact e|]. exfalso.
    assert (ps_add a b = None); [|congruence]. apply ps_add_defined. destruct Ra as [_ Ja], Rb as [Ib' _].
    destruct (Z.eqb_spec (ps_j a) (-1)); [lia|]. destruct (Z.eqb_spec (ps_i b) (-1)); [lia|].
    rewrite !andb_false_r. auto. }
  rewrite (ps_add_regular a b Ra Rb M) in E. injection E as <-.
  rewrite ps_add_regular;
    [| eapply ps_in_regular; eapply ps_g_in; eassumption | eapply ps_in_regular; eapply ps_g_in; eassumption
     | rewrite !ps_g_unfold; psimp; rewrite M; reflexivity].
  destruct Wg as (Lr & Lt & _). destruct Ia as [Ia Ja], Ib as [Ib Jb].
  pose proof (Lt _ Ia). pose proof (Lt _ Ja). pose proof (Lt _ Ib). pose proof (Lt _ Jb).
  rewrite !ps_g_unfold. unfold ps_add_plain; psimp. f_equal. f_equal.
  - rewrite M in *. vext.
  - symmetry. apply kmulmv_kadd. congruence.
Qed.

Theorem ps_g_xor d n (g : lop K) (a b c : pstate) :
  lop_wf d n g -> ps_wf d a -> ps_wf d b -> ps_in n a -> ps_in n b ->
  ps_xor a b = Some c -> ps_xor (ps_g g a) (ps_g g b) = Some (ps_g g c).
Proof.
  intros (Lr & Lt & _) [La Lda] [Lb Ldb] [Ia Ja] [Ib Jb] E. unfold ps_xor in *.
  destruct (Z.eqb_spec (ps_i a) (ps_i b)) as [M|]; [|discriminate]. cbn [negb] in E. injection E as <-.
  rewrite !ps_g_unfold; psimp. rewrite M, Z.eqb_refl. psimp. f_equal.
  pose proof (Lt _ Ia). pose proof (Lt _ Ja). pose proof (Lt _ Ib). pose proof (Lt _ Jb).
  f_equal.
  - rewrite M in *. vext.
  - symmetry. apply kmulmv_ksub. congruence.
Qed.

Theorem ps_g_sub d n (g : lop K) (a b c : pstate) :
  lop_wf d n g -> ps_wf d a -> ps_wf d b -> ps_in n a -> ps_in n b ->
  ps_sub a b = Some c -> ps_sub (ps_g g a) (ps_g g b) = Some (ps_g g c).
Proof.
  intros Wg Wa Wb Ia Ib E. unfold ps_sub in *.
  rewrite <- (ps_g_neg d n g b Wg Wb Ib).
  apply (ps_g_add d n g a (ps_neg b) c Wg Wa); try assumption.
  - apply ps_neg_wf; exact Wb.
  - destruct Ib; split; unfold ps_neg; psimp; assumption.
Qed.

Theorem ps_g_iszero d n (g : lop K) (a : pstate) :
  lop_wf d n g -> ps_wf d a -> ps_in n a -> ps_iszero a = true -> ps_iszero (ps_g g a) = true.
Proof.
  intros (Lr & Lt & _) [La _] [Ia Ja] Z. unfold ps_iszero in *. apply andb_true_iff in Z as [E R0].
  apply Z.eqb_eq in E. rewrite ps_g_unfold; psimp. rewrite E, Z.eqb_refl. psimp.
  pose proof (Lt _ Ja). apply viszero_nth. intro k.
  apply viszero_spec in R0. rewrite R0. vnth. lia.
Qed.

Theorem ps_g_eq (g : lop K) (a b : pstate) : ps_eqb a b = true -> ps_eqb (ps_g g a) (ps_g g b) = true.
Proof.
  rewrite !ps_eqb_spec. intros (E1 & E2 & E3). rewrite !ps_g_unfold; psimp. rewrite E1, E2, E3. auto.
Qed.

End Laws.

(* ======================= ClusterSite ===================================================== *)
Section ClusterSiteLaws.
Variable K : ordring.
Variable H : list Z -> Z.

Lemma cs_eqb_spec (a b : csite) : cs_eqb a b = true <-> a = b.
Proof.
  unfold cs_eqb. rewrite !andb_true_iff, !Z.eqb_eq, veqb_spec. destruct a, b; cbn. split.
  - intros [[-> ->] ->]. reflexivity.
  - intro E. injection E as -> -> ->. auto.
Qed.
Theorem cs_eq_refl (a : csite) : cs_eqb a a = true.
Proof. apply cs_eqb_spec; reflexivity. Qed.
Theorem cs_eq_sym (a b : csite) : cs_eqb a b = cs_eqb b a.
Proof.
  destruct (cs_eqb a b) eqn:E1, (cs_eqb b a) eqn:E2; try reflexivity.
  - apply cs_eqb_spec in E1. subst. rewrite cs_eq_refl in E2. discriminate.
  - apply cs_eqb_spec in E2. subst. rewrite cs_eq_refl in E1. discriminate.
Qed.
Theorem cs_eq_trans (a b c : csite) : cs_eqb a b = true -> cs_eqb b c = true -> cs_eqb a c = true.
Proof. rewrite !cs_eqb_spec. congruence. Qed.
Theorem cs_ne_negb (a b : csite) : cs_neb a b = negb (cs_eqb a b).
Proof. reflexivity. Qed.
Theorem cs_eq_hash (a b : csite) : cs_eqb a b = true -> cs_hash H a = cs_hash H b.
Proof. rewrite cs_eqb_spec. intros ->. reflexivity. Qed.

Theorem cs_neg_neg (a : csite) : cs_neg (cs_neg a) = a.
Proof. destruct a as [c i R]. unfold cs_neg; cbn [cs_c cs_i cs_R]. f_equal. vext. Qed.

Theorem cs_add_defined (a : csite) (v : vec) : cs_add a v = None <-> length v <> length (cs_R a).
Proof.
  unfold cs_add. destruct (Nat.eqb_spec (length v) (length (cs_R a))); cbn; split; try discriminate; tauto.
Qed.

(* (s + v) - v = s *)
Theorem cs_add_sub (a : csite) (v : vec) :
  length v = length (cs_R a) -> exists b, cs_add a v = Some b /\ cs_sub b v = Some a.
Proof.
  intro L. unfold cs_sub, cs_add. rewrite L, Nat.eqb_refl. cbn [negb].
  eexists; split; [reflexivity|]. cbn [cs_c cs_i cs_R].
  replace (length (vneg v) =? length (vadd (cs_R a) v))%nat with true
    by (symmetry; apply Nat.eqb_eq; vlen).
  cbn [negb]. destruct a as [c i R]; cbn [cs_c cs_i cs_R] in *. do 2 f_equal. vext.
Qed.

(* g (s + v) = g s + rot.v *)
Theorem cs_g_add d n (g : lop K) (a b : csite) (v : vec) :
  lop_wf K d n g -> length (cs_R a) = d -> length v = d -> 0 <= cs_i a < n ->
  cs_add a v = Some b -> cs_add (cs_g g a) (mulmv (l_rot g) v) = Some (cs_g g b).
Proof.
  intros (Lr & Lt & _) La Lv I E. unfold cs_add in *. rewrite Lv, La, Nat.eqb_refl in E. cbn [negb] in E.
  injection E as <-. pose proof (Lt _ I) as Ti.
  unfold cs_g, g_pos. cbn [cs_c cs_i cs_R].
  replace (length (mulmv (l_rot g) v) =? length (vadd (mulmv (l_rot g) (cs_R a)) (zth (l_t g) (cs_i a) [])))%nat
    with true by (symmetry; apply Nat.eqb_eq; vlen).
  cbn [negb]. do 2 f_equal. vext.
Qed.
End ClusterSiteLaws.

(* ======================= tolerant comparison (numpy.isclose / allclose) ================== *)
Section Tolerance.
Variable K : ordring.
Hypothesis rle_total : forall a b : K, rle K a b \/ rle K b a.
Add Ring Kr2 : (r_ring K).
Variables atol rtol : K.
Hypothesis atol_nonneg : rle K (r0 K) atol.
Hypothesis rtol_nonneg : rle K (r0 K) rtol.

Lemma rabs_nonneg (a : K) : rle K (r0 K) (rabs a).
Proof.
  unfold rabs. destruct (rleb K (r0 K) a) eqn:E.
  - apply rleb_spec; exact E.
  - destruct (rle_total (r0 K) a) as [L|L].
    + apply rleb_spec in L. congruence.
    + apply (rle_add K a (r0 K) (ropp K a)) in L.
      replace (radd K a (ropp K a)) with (r0 K) in L by ring.
      replace (radd K (r0 K) (ropp K a)) with (ropp K a) in L by ring. exact L.
Qed.

Lemma tol_nonneg (b : K) : rle K (r0 K) (radd K atol (rmul K rtol (rabs b))).
Proof.
  replace (r0 K) with (radd K (r0 K) (r0 K)) by ring. apply rle_add2; [exact atol_nonneg|].
  apply rle_mul; [exact rtol_nonneg | apply rabs_nonneg].
Qed.

Theorem close_refl (a : K) : close atol rtol a a = true.
Proof.
  unfold close. replace (rsub K a a) with (r0 K) by ring.
  assert (E : rabs (r0 K) = r0 K).
  { unfold rabs. replace (rleb K (r0 K) (r0 K)) with true; [reflexivity|].
    symmetry; apply rleb_spec; apply rle_refl. }
  rewrite E. apply rleb_spec. apply tol_nonneg.
Qed.

Theorem allclose_refl (l : list K) : allclose atol rtol l l = true.
Proof. induction l as [|x l IH]; cbn; [reflexivity|]. rewrite close_refl, IH. reflexivity. Qed.

(* a set of values is separated when any two members are identical or not close in either order:
   on such values (what one calculator produces for its symmetry-distinct data) tolerant
   comparison IS equality *)
Definition separated (S : K -> Prop) : Prop :=
  forall x y, S x -> S y -> x = y \/ (close atol rtol x y = false /\ close atol rtol y x = false).

Theorem close_eq_on_separated S : separated S ->
  forall x y, S x -> S y -> (close atol rtol x y = true <-> x = y).
Proof.
  intros Sep x y Sx Sy. split.
  - intro C. destruct (Sep x y Sx Sy) as [E|[N _]]; [exact E | congruence].
  - intros ->. apply close_refl.
Qed.

Theorem close_equiv_on_separated S : separated S ->
  forall x y z, S x -> S y -> S z ->
    close atol rtol x x = true /\
    close atol rtol x y = close atol rtol y x /\
    (close atol rtol x y = true -> close atol rtol y z = true -> close atol rtol x z = true).
Proof.
  intros Sep x y z Sx Sy Sz. split; [apply close_refl|]. split.
  - destruct (Sep x y Sx Sy) as [->|[N1 N2]]; [reflexivity | congruence].
  - intros C1 C2. apply (close_eq_on_separated S Sep x y Sx Sy) in C1.
    apply (close_eq_on_separated S Sep y z Sy Sz) in C2. subst. apply close_refl.
Qed.

Theorem allclose_eq_on_separated S : separated S ->
  forall a b, Forall S a -> Forall S b -> (allclose atol rtol a b = true <-> a = b).
Proof.
  intros Sep a. induction a as [|x a IH]; intros [|y b] Fa Fb; cbn; split; intro E;
    try reflexivity; try discriminate.
  - apply andb_true_iff in E as [E1 E2]. inversion Fa; inversion Fb; subst.
    apply (close_eq_on_separated S Sep) in E1; try assumption. apply IH in E2; try assumption. congruence.
  - injection E as -> ->. rewrite close_refl, allclose_refl. reflexivity.
Qed.

(* ---------- GroupOp --------------------------------------------------------------------- *)
Variable Hb : list Z -> Z.
Variable Hm : list (list Z) -> Z.

Theorem go_eq_refl (a : groupop K) : go_eqb atol rtol a a = true.
Proof.
  unfold go_eqb. rewrite !allclose_refl.
  replace (mateqb (go_rot a) (go_rot a)) with true by (symmetry; apply mateqb_spec; reflexivity).
  replace (mateqb (go_imap a) (go_imap a)) with true by (symmetry; apply mateqb_spec; reflexivity).
  reflexivity.
Qed.
Theorem go_ne_negb (a b : groupop K) : go_neb atol rtol a b = negb (go_eqb atol rtol a b).
Proof. reflexivity. Qed.
(* the hash uses only the exactly compared fields: equal => equal hash, for ALL values *)
Theorem go_eq_hash (a b : groupop K) : go_eqb atol rtol a b = true -> go_hash Hb Hm a = go_hash Hb Hm b.
Proof.
  unfold go_eqb. rewrite !andb_true_iff. intros [[[E1 _] _] E2].
  apply mateqb_spec in E1, E2. unfold go_hash. rewrite E1, E2. reflexivity.
Qed.

Theorem go_eq_equiv_on_separated S : separated S ->
  forall a b c : groupop K,
    Forall S (go_trans a) -> Forall S (go_trans b) -> Forall S (go_trans c) ->
    Forall S (concat (go_cart a)) -> Forall S (concat (go_cart b)) -> Forall S (concat (go_cart c)) ->
    go_eqb atol rtol a b = go_eqb atol rtol b a /\
    (go_eqb atol rtol a b = true -> go_eqb atol rtol b c = true -> go_eqb atol rtol a c = true).
Proof.
  intros Sep a b c Ta Tb Tc Ca Cb Cc.
  assert (Spec : forall x y : groupop K, Forall S (go_trans x) -> Forall S (go_trans y) ->
            Forall S (concat (go_cart x)) -> Forall S (concat (go_cart y)) ->
            (go_eqb atol rtol x y = true <->
             go_rot x = go_rot y /\ go_trans x = go_trans y /\
             concat (go_cart x) = concat (go_cart y) /\ go_imap x = go_imap y)).
  { intros x y Tx Ty Cx Cy. unfold go_eqb. rewrite !andb_true_iff, !mateqb_spec.
    rewrite (allclose_eq_on_separated S Sep _ _ Tx Ty), (allclose_eq_on_separated S Sep _ _ Cx Cy). tauto. }
  split.
  - destruct (go_eqb atol rtol a b) eqn:E1, (go_eqb atol rtol b a) eqn:E2; try reflexivity.
    + apply Spec in E1 as (?&?&?&?); try assumption.
      assert (go_eqb atol rtol b a = true) by (apply Spec; auto). congruence.
    + apply Spec in E2 as (?&?&?&?); try assumption.
      assert (go_eqb atol rtol a b = true) by (apply Spec; auto). congruence.
  - intros E1 E2. apply Spec in E1 as (?&?&?&?); try assumption. apply Spec in E2 as (?&?&?&?); try assumption.
    apply Spec; try assumption. repeat split; congruence.
Qed.

(* ---------- vacancyThermoKinetics ------------------------------------------------------- *)
Variable Hk : list K -> Z.

Theorem vtk_eq_refl (a : vtk K) : vtk_eqb atol rtol a a = true.
Proof. unfold vtk_eqb. rewrite !allclose_refl. reflexivity. Qed.
Theorem vtk_ne_negb (a b : vtk K) : vtk_neb atol rtol a b = negb (vtk_eqb atol rtol a b).
Proof. reflexivity. Qed.

Definition vtk_values (S : K -> Prop) (a : vtk K) : Prop :=
  Forall S (vt_pre a) /\ Forall S (vt_ene a) /\ Forall S (vt_preT a) /\ Forall S (vt_eneT a).

Lemma vtk_eq_on_separated S : separated S -> forall a b, vtk_values S a -> vtk_values S b ->
  (vtk_eqb atol rtol a b = true <-> a = b).
Proof.
  intros Sep a b (A1&A2&A3&A4) (B1&B2&B3&B4). unfold vtk_eqb. rewrite !andb_true_iff.
  rewrite (allclose_eq_on_separated S Sep _ _ A1 B1), (allclose_eq_on_separated S Sep _ _ A2 B2),
          (allclose_eq_on_separated S Sep _ _ A3 B3), (allclose_eq_on_separated S Sep _ _ A4 B4).
  destruct a, b; cbn. split.
  - intros [[[-> ->] ->] ->]. reflexivity.
  - intro E; injection E as -> -> -> ->. auto.
Qed.

(* on separated values: an equivalence, and equal keys have equal hashes *)
Theorem vtk_equiv_on_separated S : separated S ->
  forall a b c, vtk_values S a -> vtk_values S b -> vtk_values S c ->
    vtk_eqb atol rtol a b = vtk_eqb atol rtol b a /\
    (vtk_eqb atol rtol a b = true -> vtk_eqb atol rtol b c = true -> vtk_eqb atol rtol a c = true) /\
    (vtk_eqb atol rtol a b = true -> vtk_hash Hk a = vtk_hash Hk b).
Proof.
  intros Sep a b c Va Vb Vc. repeat split.
  - destruct (vtk_eqb atol rtol a b) eqn:E1, (vtk_eqb atol rtol b a) eqn:E2; try reflexivity.
    + apply (vtk_eq_on_separated S Sep a b Va Vb) in E1. subst. rewrite vtk_eq_refl in E2. discriminate.
    + apply (vtk_eq_on_separated S Sep b a Vb Va) in E2. subst. rewrite vtk_eq_refl in E1. discriminate.
  - intros E1 E2. apply (vtk_eq_on_separated S Sep a b Va Vb) in E1.
    apply (vtk_eq_on_separated S Sep b c Vb Vc) in E2. subst. apply vtk_eq_refl.
  - intro E. apply (vtk_eq_on_separated S Sep a b Va Vb) in E. subst. reflexivity.
Qed.

End Tolerance.

(* ---------- numpy's default tolerances: witnesses over Qc (every double is a Qc) ---------- *)
From Coq Require Import QArith Qcanon.
Definition np_atol : car Qcring := Q2Qc (3022314549036573 # 302231454903657293676544).   (* the double 1e-8 *)
Definition np_rtol : car Qcring := Q2Qc (5902958103587057 # 590295810358705651712).      (* the double 1e-5 *)

Lemma Qc_total : forall a b : Qcring, rle Qcring a b \/ rle Qcring b a.
Proof.
  intros a b. cbn. destruct (Qclt_le_dec a b) as [L|L]; [left; apply Qclt_le_weak; exact L | right; exact L].
Qed.
Lemma Z_total : forall a b : Zring, rle Zring a b \/ rle Zring b a.
Proof. intros a b. cbn. lia. Qed.
Lemma np_atol_nonneg : rle Qcring (r0 Qcring) np_atol.
Proof. apply (proj1 (rleb_spec Qcring _ _)). vm_compute. reflexivity. Qed.
Lemma np_rtol_nonneg : rle Qcring (r0 Qcring) np_rtol.
Proof. apply (proj1 (rleb_spec Qcring _ _)). vm_compute. reflexivity. Qed.

Definition qc (n : Z) (d : positive) : car Qcring := Q2Qc (n # d).

(* numpy.isclose is not symmetric ... *)
Theorem close_sym_refuted :
  exists a b : Qcring, close np_atol np_rtol a b = true /\ close np_atol np_rtol b a = false.
Proof. exists (qc 100000 1), (qc 100001000005 1000000). split; vm_compute; reflexivity. Qed.

(* ... and not transitive *)
Theorem close_trans_refuted :
  exists a b c : Qcring, close np_atol np_rtol a b = true /\ close np_atol np_rtol b c = true /\
                         close np_atol np_rtol a c = false.
Proof. exists (qc 0 1), (qc 9 1000000000), (qc 18 1000000000). repeat split; vm_compute; reflexivity. Qed.

(* hence GroupOp.__eq__ is neither symmetric nor transitive on near-equal translations *)
Definition go_witness (t : car Qcring) : groupop Qcring :=
  mkGop [[1%Z; 0%Z]; [0%Z; 1%Z]] [t; qc 0 1] [[qc 1 1; qc 0 1]; [qc 0 1; qc 1 1]] [[0%Z]].

Theorem go_eq_sym_refuted :
  exists a b : groupop Qcring, go_eqb np_atol np_rtol a b = true /\ go_eqb np_atol np_rtol b a = false.
Proof. exists (go_witness (qc 100000 1)), (go_witness (qc 100001000005 1000000)). split; vm_compute; reflexivity. Qed.

Theorem go_eq_trans_refuted :
  exists a b c : groupop Qcring, go_eqb np_atol np_rtol a b = true /\ go_eqb np_atol np_rtol b c = true /\
                                 go_eqb np_atol np_rtol a c = false.
Proof.
  exists (go_witness (qc 0 1)), (go_witness (qc 9 1000000000)), (go_witness (qc 18 1000000000)).
  repeat split; vm_compute; reflexivity.
Qed.

(* vacancyThermoKinetics: the same for __eq__, and equal keys with different hash input *)
Definition vtk_witness (e : car Qcring) : vtk Qcring := mkVTK [qc 1 1] [e] [qc 1 1] [qc 1 1].

Theorem vtk_eq_sym_refuted :
  exists a b : vtk Qcring, vtk_eqb np_atol np_rtol a b = true /\ vtk_eqb np_atol np_rtol b a = false.
Proof. exists (vtk_witness (qc 100000 1)), (vtk_witness (qc 100001000005 1000000)). split; vm_compute; reflexivity. Qed.

Theorem vtk_eq_trans_refuted :
  exists a b c : vtk Qcring, vtk_eqb np_atol np_rtol a b = true /\ vtk_eqb np_atol np_rtol b c = true /\
                             vtk_eqb np_atol np_rtol a c = false.
Proof.
  exists (vtk_witness (qc 0 1)), (vtk_witness (qc 9 1000000000)), (vtk_witness (qc 18 1000000000)).
  repeat split; vm_compute; reflexivity.
Qed.

Theorem vtk_hash_refuted :
  exists a b : vtk Qcring, vtk_eqb np_atol np_rtol a b = true /\ vtk_bytes a <> vtk_bytes b.
Proof.
  exists (vtk_witness (qc 0 1)), (vtk_witness (qc 9 1000000000)). split; [vm_compute; reflexivity|].
  intro E. assert (E' : nth 1 (vtk_bytes (vtk_witness (qc 0 1))) (qc 5 1) = nth 1 (vtk_bytes (vtk_witness (qc 9 1000000000))) (qc 5 1))
    by (rewrite E; reflexivity).
  cbn in E'. apply (f_equal (fun q : Qc => Qnum (this q))) in E'. vm_compute in E'. discriminate.
Qed.

(* so "equal keys have equal hashes" can only hold for a hash function that collides *)
Theorem vtk_hash_needs_collision (Hk : list Qcring -> Z) :
  (forall a b : vtk Qcring, vtk_eqb np_atol np_rtol a b = true -> vtk_hash Hk a = vtk_hash Hk b) ->
  exists x y : list Qcring, x <> y /\ Hk x = Hk y.
Proof.
  intro Hyp. destruct vtk_hash_refuted as (a & b & E & N).
  exists (vtk_bytes a), (vtk_bytes b). split; [exact N | exact (Hyp a b E)].
Qed.

(* non-vacuity: separated values exist and the laws above apply to them *)
Example separated_example :
  separated Qcring np_atol np_rtol (fun x => x = qc 0 1 \/ x = qc 1 1 \/ x = qc 3 2).
Proof.
  intros x y Hx Hy. destruct Hx as [Hx|[Hx|Hx]], Hy as [Hy|[Hy|Hy]]; subst x y;
    try (left; reflexivity); right; split; vm_compute; reflexivity.
Qed.

(* ======================= Cluster ========================================================= *)
Local Open Scope Z_scope.
Section ClusterLaws.
Variable H : list Z -> Z.

Definition site0 (c : cluster) : csite := nth 0 (cl_sites c) (mkCS 0 0 []).
Definition site1 (c : cluster) : csite := nth 1 (cl_sites c) (mkCS 0 0 []).

(* what Cluster.__init__ establishes: one common dimension; a transition cluster has its two
   transition sites and the first site sits in cell 0 *)
Definition cl_canon (d : nat) (c : cluster) : Prop :=
  (forall s, In s (cl_sites c) -> length (cs_R s) = d) /\
  (cl_trans c = true -> (2 <= length (cl_sites c))%nat /\ cs_R (site0 c) = vzero d).

Lemma entry_eqb_spec a b : entry_eqb a b = true <-> a = b.
Proof.
  unfold entry_eqb. rewrite andb_true_iff, !veqb_spec. destruct a, b; cbn. split.
  - intros [-> ->]; reflexivity.
  - intro E; injection E as -> ->; auto.
Qed.

Lemma inclb_spec a b : inclb a b = true <-> incl a b.
Proof.
  unfold inclb, incl. rewrite forallb_forall. split; intros Hx x Hin.
  - specialize (Hx x Hin). apply existsb_exists in Hx as (y & Hy & E). apply entry_eqb_spec in E. subst; exact Hy.
  - apply existsb_exists. exists x. split; [apply Hx; exact Hin | apply entry_eqb_spec; reflexivity].
Qed.

Definition cl_same (a b : cluster) : Prop :=
  cl_trans a = cl_trans b /\ cl_vac a = cl_vac b /\ cl_norder a = cl_norder b /\
  incl (cl_entries a) (cl_entries b) /\ incl (cl_entries b) (cl_entries a).
Definition ts_direct (a b : cluster) : Prop := site0 a = site0 b /\ site1 a = site1 b.
Definition ts_reverse (a b : cluster) : Prop :=
  site0 a = cs_shift (vneg (cs_R (site1 b))) (site1 b) /\
  site1 a = cs_shift (vneg (cs_R (site1 b))) (site0 b).

Lemma shift_zero d s : length (cs_R s) = d -> cs_shift (vneg (vzero d)) s = s.
Proof. intro L. destruct s as [c i R]; unfold cs_shift; cbn [cs_c cs_i cs_R] in *. f_equal. vext. Qed.

Lemma canon_sites d c : cl_canon d c -> cl_trans c = true ->
  length (cs_R (site0 c)) = d /\ length (cs_R (site1 c)) = d /\ cs_R (site0 c) = vzero d.
Proof.
  intros [L T] Tr. destruct (T Tr) as [N Z0]. repeat split; [| | exact Z0]; apply L; apply nth_In; lia.
Qed.

Lemma cl_eqb_spec d a b : cl_canon d a -> cl_canon d b ->
  (cl_eqb a b = true <->
   cl_same a b /\ (cl_trans a = true -> ts_direct a b \/ (cl_vac a = false /\ ts_reverse a b))).
Proof.
  intros Ca Cb. unfold cl_eqb, cl_same. rewrite !andb_true_iff, !eqb_true_iff, Z.eqb_eq, !inclb_spec.
  destruct (cl_trans a) eqn:Ta.
  - split.
    + intros [[[[[E1 E2] E3] E4] E5] E6]. split; [tauto|]. intros _.
      assert (Tb : cl_trans b = true) by congruence.
      destruct (canon_sites d b Cb Tb) as (L0 & L1 & Z0).
      unfold cl_istransition in E6. fold (site0 a) (site1 a) (site0 b) (site1 b) in E6.
      rewrite Z0 in E6. rewrite (shift_zero d _ L0), (shift_zero d _ L1) in E6.
      destruct (cs_eqb (site0 a) (site0 b) && cs_eqb (site1 a) (site1 b))%bool eqn:D.
      * left. apply andb_true_iff in D as [D0 D1]. apply cs_eqb_spec in D0, D1. split; assumption.
      * right. destruct (cl_vac a); [discriminate|]. split; [reflexivity|].
        apply andb_true_iff in E6 as [R0 R1]. apply cs_eqb_spec in R0, R1. split; assumption.
    + intros [(E1&E2&E3&E4&E5) E6]. repeat split; try assumption.
      assert (Tb : cl_trans b = true) by congruence.
      destruct (canon_sites d b Cb Tb) as (L0 & L1 & Z0).
      unfold cl_istransition. fold (site0 a) (site1 a) (site0 b) (site1 b).
      rewrite Z0. rewrite (shift_zero d _ L0), (shift_zero d _ L1).
      destruct (E6 eq_refl) as [[D0 D1]|[V [R0 R1]]].
      * rewrite D0, D1, !cs_eq_refl. reflexivity.
      * destruct (cs_eqb (site0 a) (site0 b) && cs_eqb (site1 a) (site1 b))%bool; [reflexivity|].
        rewrite V. apply andb_true_iff. split; apply cs_eqb_spec; assumption.
  - split.
    + intros [[[[[E1 E2] E3] E4] E5] _]. split; [tauto | discriminate].
    + intros [(E1&E2&E3&E4&E5) _]. repeat split; assumption.
Qed.

Lemma ts_reverse_sym d a b : cl_canon d a -> cl_canon d b -> cl_trans a = true -> cl_trans b = true ->
  ts_reverse a b -> ts_reverse b a.
Proof.
  intros Ca Cb Ta Tb [R0 R1].
  destruct (canon_sites d b Cb Tb) as (L0 & L1 & Z0).
  unfold ts_reverse. rewrite R0, R1.
  destruct (site0 b) as [c0 i0 r0] eqn:B0, (site1 b) as [c1 i1 r1] eqn:B1.
  unfold cs_shift; cbn [cs_c cs_i cs_R] in *. subst r0. split; f_equal; vext.
Qed.

Lemma ts_compose d a b c : cl_canon d a -> cl_canon d b -> cl_canon d c ->
  cl_trans a = true -> cl_trans b = true -> cl_trans c = true ->
  ts_reverse a b -> ts_reverse b c -> ts_direct a c.
Proof.
  intros Ca Cb Cc Ta Tb Tc [A0 A1] [B0 B1].
  destruct (canon_sites d c Cc Tc) as (L0 & L1 & Z0).
  unfold ts_direct. rewrite A0, A1, B0, B1.
  destruct (site0 c) as [c0 i0 r0] eqn:C0, (site1 c) as [c1 i1 r1] eqn:C1.
  unfold cs_shift; cbn [cs_c cs_i cs_R] in *. subst r0. split; f_equal; vext.
Qed.

Theorem cl_eq_refl d (a : cluster) : cl_canon d a -> cl_eqb a a = true.
Proof.
  intro Ca. apply (cl_eqb_spec d a a Ca Ca). split.
  - repeat split; try reflexivity; apply incl_refl.
  - intros _. left. split; reflexivity.
Qed.

Lemma cl_eq_sym_imp d (a b : cluster) : cl_canon d a -> cl_canon d b -> cl_eqb a b = true -> cl_eqb b a = true.
Proof.
  intros Ca Cb E. apply (cl_eqb_spec d a b Ca Cb) in E as [(E1&E2&E3&E4&E5) E6].
  apply (cl_eqb_spec d b a Cb Ca). split; [repeat split; auto|].
  intro Tb. assert (Ta : cl_trans a = true) by congruence.
  destruct (E6 Ta) as [[D0 D1]|[V Rv]].
  - left. split; auto.
  - right. split; [congruence|]. exact (ts_reverse_sym d a b Ca Cb Ta Tb Rv).
Qed.

Theorem cl_eq_sym d (a b : cluster) : cl_canon d a -> cl_canon d b -> cl_eqb a b = cl_eqb b a.
Proof.
  intros Ca Cb. destruct (cl_eqb a b) eqn:E1, (cl_eqb b a) eqn:E2; try reflexivity.
  - apply (cl_eq_sym_imp d a b Ca Cb) in E1. congruence.
  - apply (cl_eq_sym_imp d b a Cb Ca) in E2. congruence.
Qed.

Theorem cl_eq_trans d (a b c : cluster) : cl_canon d a -> cl_canon d b -> cl_canon d c ->
  cl_eqb a b = true -> cl_eqb b c = true -> cl_eqb a c = true.
Proof.
  intros Ca Cb Cc E F.
  apply (cl_eqb_spec d a b Ca Cb) in E as [(E1&E2&E3&E4&E5) E6].
  apply (cl_eqb_spec d b c Cb Cc) in F as [(F1&F2&F3&F4&F5) F6].
  apply (cl_eqb_spec d a c Ca Cc). split.
  - repeat split; try congruence; eapply incl_tran; eassumption.
  - intro Ta. assert (Tb : cl_trans b = true) by congruence. assert (Tc : cl_trans c = true) by congruence.
    destruct (E6 Ta) as [[D0 D1]|[V Rv]], (F6 Tb) as [[G0 G1]|[W Rw]].
    + left. split; congruence.
    + right. split; [congruence|]. destruct Rw as [W0 W1]. unfold ts_reverse. rewrite D0, D1. split; assumption.
    + right. split; [assumption|]. destruct Rv as [V0 V1]. unfold ts_reverse. rewrite <- G0, <- G1. split; assumption.
    + left. exact (ts_compose d a b c Ca Cb Cc Ta Tb Tc Rv Rw).
Qed.

Theorem cl_ne_negb (a b : cluster) : cl_neb a b = negb (cl_eqb a b).
Proof. reflexivity. Qed.

(* ---------- hash: XOR over the sites respects permutations ------------------------------ *)
Lemma fold_lxor_perm {A} (f : A -> Z) l l' : Permutation l l' ->
  forall acc, fold_left (fun acc e => Z.lxor acc (f e)) l acc = fold_left (fun acc e => Z.lxor acc (f e)) l' acc.
Proof.
  induction 1 as [| x l l' _ IH | x y l | l l' l'' _ IH1 _ IH2]; intro acc; cbn [fold_left].
  - reflexivity.
  - apply IH.
  - f_equal. rewrite !Z.lxor_assoc. f_equal. apply Z.lxor_comm.
  - rewrite IH1. apply IH2.
Qed.

(* equal clusters have equal hashes -- provided no two sites produce the same (r, shiftpos)
   entry, i.e. the cluster is a SET of sites (the class docstring); see cl_hash_dup_refuted *)
Theorem cl_eq_hash d (a b : cluster) : cl_canon d a -> cl_canon d b ->
  NoDup (cl_entries a) -> NoDup (cl_entries b) ->
  cl_eqb a b = true -> cl_hash H a = cl_hash H b.
Proof.
  intros Ca Cb Na Nb E. apply (cl_eqb_spec d a b Ca Cb) in E as [(_&_&_&I1&I2) _].
  unfold cl_hash. apply fold_lxor_perm. apply NoDup_Permutation; try assumption.
  intro x; split; [apply I1 | apply I2].
Qed.

End ClusterLaws.

(* with a repeated site the dictionary of SETS forgets the multiplicity but the XOR does not:
   two clusters that compare equal whose hashes agree only if the hash function collides *)
Definition dup_a : cluster := mkCl [mkCS 0 0 [0]; mkCS 0 0 [0]; mkCS 0 0 [1]; mkCS 0 0 [2]; mkCS 0 0 [2]] false false.
Definition dup_b : cluster := mkCl [mkCS 0 0 [0]; mkCS 0 0 [1]; mkCS 0 0 [1]; mkCS 0 0 [1]; mkCS 0 0 [2]] false false.
Theorem cl_hash_dup_refuted :
  cl_eqb dup_a dup_b = true /\
  forall H : list Z -> Z, cl_hash H dup_a = cl_hash H dup_b -> H [0; 0; -5] = H [0; 0; 5].
Proof.
  split; [vm_compute; reflexivity|]. intros H E. unfold cl_hash in E. cbn in E.
  set (x := H [0; 0; -5]) in *. set (y := H [0; 0; 0]) in *. set (z := H [0; 0; 5]) in *.
  replace (Z.lxor (Z.lxor (Z.lxor (Z.lxor x x) y) z) z) with y in E.
  2:{ rewrite Z.lxor_nilpotent, Z.lxor_0_l. rewrite Z.lxor_assoc, Z.lxor_nilpotent, Z.lxor_0_r. reflexivity. }
  replace (Z.lxor (Z.lxor (Z.lxor (Z.lxor x y) y) y) z) with (Z.lxor (Z.lxor x y) z) in E.
  2:{ f_equal. rewrite (Z.lxor_assoc (Z.lxor x y) y y), Z.lxor_nilpotent, Z.lxor_0_r. reflexivity. }
  (* y = x ^ y ^ z  ->  x = z *)
  apply (f_equal (fun t => Z.lxor t y)) in E. rewrite Z.lxor_nilpotent in E.
  rewrite (Z.lxor_comm (Z.lxor x y) z), Z.lxor_assoc, Z.lxor_assoc, Z.lxor_nilpotent, Z.lxor_0_r in E.
  symmetry in E. rewrite Z.lxor_comm in E. apply Z.lxor_eq in E. exact E.
Qed.

(* ---------- Cluster.__init__ : canonical form ------------------------------------------- *)
Section ClusterMake.

Lemma insert_s_perm s l : Permutation (insert_s s l) (s :: l).
Proof.
  induction l as [|x l IH]; cbn [insert_s]; [apply Permutation_refl|].
  destruct (skey s <=? skey x); [apply Permutation_refl|].
  eapply Permutation_trans; [apply perm_skip; exact IH | apply perm_swap].
Qed.
Lemma sort_s_perm l : Permutation (sort_s l) l.
Proof.
  induction l as [|x l IH]; cbn [sort_s fold_right]; [apply Permutation_refl|].
  eapply Permutation_trans; [apply insert_s_perm | apply perm_skip; exact IH].
Qed.

Definition cl_order (l : list csite) (transition vacancy nosort : bool) : list csite :=
  if nosort then l
  else if transition then firstn 2 l ++ sort_s (skipn 2 l)
  else if vacancy then firstn 1 l ++ sort_s (skipn 1 l)
  else sort_s l.

Lemma cl_order_perm l t v ns : Permutation (cl_order l t v ns) l.
Proof.
  unfold cl_order. destruct ns; [apply Permutation_refl|]. destruct t.
  - rewrite <- (firstn_skipn 2 l) at 3. apply Permutation_app_head. apply sort_s_perm.
  - destruct v; [|apply sort_s_perm].
    rewrite <- (firstn_skipn 1 l) at 3. apply Permutation_app_head. apply sort_s_perm.
Qed.

Lemma cl_make_unfold l t v ns :
  cl_make l t v ns =
  match cl_order l t v ns with
  | [] => None
  | s0 :: _ =>
    if forallb (fun s => Nat.eqb (length (cs_R s)) (length (cs_R s0))) (cl_order l t v ns)
    then Some (mkCl (map (cs_shift (vneg (cs_R s0))) (cl_order l t v ns)) t v)
    else None
  end.
Proof. reflexivity. Qed.

(* __init__ establishes the canonical form used by the equality theorems *)
Theorem cl_make_canon l t v ns c :
  cl_make l t v ns = Some c -> (t = true -> (2 <= length l)%nat) -> exists d, cl_canon d c.
Proof.
  rewrite cl_make_unfold. intros E N.
  pose proof (cl_order_perm l t v ns) as P.
  destruct (cl_order l t v ns) as [|s0 rest] eqn:O; [discriminate|].
  destruct (forallb _ _) eqn:F; [|discriminate]. injection E as <-.
  exists (length (cs_R s0)). rewrite forallb_forall in F. split; cbn [cl_sites cl_trans].
  - intros s Hs. change (In s (map (cs_shift (vneg (cs_R s0))) (s0 :: rest))) in Hs.
    apply in_map_iff in Hs as (s' & <- & Hs'). apply F in Hs'. apply Nat.eqb_eq in Hs'.
    unfold cs_shift; cbn [cs_R]. vlen.
  - intros ->. split.
    + change (2 <= length (map (cs_shift (vneg (cs_R s0))) (s0 :: rest)))%nat.
      rewrite map_length. rewrite (Permutation_length P). apply N; reflexivity.
    + unfold site0; cbn [cl_sites map nth]. unfold cs_shift; cbn [cs_R]. vext.
Qed.

Lemma insert_s_shift v s l : insert_s (cs_shift v s) (map (cs_shift v) l) = map (cs_shift v) (insert_s s l).
Proof.
  induction l as [|x l IH]; cbn [insert_s map]; [reflexivity|].
  change (skey (cs_shift v s)) with (skey s). change (skey (cs_shift v x)) with (skey x).
  destruct (skey s <=? skey x); cbn [map]; [reflexivity | rewrite IH; reflexivity].
Qed.
Lemma sort_s_shift v l : sort_s (map (cs_shift v) l) = map (cs_shift v) (sort_s l).
Proof.
  induction l as [|x l IH]; cbn [sort_s fold_right map]; [reflexivity|].
  change (fold_right insert_s [] (map (cs_shift v) l)) with (sort_s (map (cs_shift v) l)).
  rewrite IH. apply insert_s_shift.
Qed.
Lemma cl_order_shift T l t v ns : cl_order (map (cs_shift T) l) t v ns = map (cs_shift T) (cl_order l t v ns).
Proof.
  unfold cl_order. destruct ns; [reflexivity|]. destruct t.
  - rewrite firstn_map, skipn_map, sort_s_shift, map_app. reflexivity.
  - destruct v; [|apply sort_s_shift].
    rewrite firstn_map, skipn_map, sort_s_shift, map_app. reflexivity.
Qed.

(* translation invariance: a cluster of translated sites IS the same cluster (identical fields) *)
Theorem cl_make_shift d l T t v ns :
  (forall s, In s l -> length (cs_R s) = d) -> length T = d ->
  cl_make (map (cs_shift T) l) t v ns = cl_make l t v ns.
Proof.
  intros L LT. rewrite !cl_make_unfold, cl_order_shift.
  pose proof (cl_order_perm l t v ns) as P.
  assert (L' : forall s, In s (cl_order l t v ns) -> length (cs_R s) = d).
  { intros s Hs. apply L. eapply Permutation_in; eassumption. }
  destruct (cl_order l t v ns) as [|s0 rest] eqn:O; [reflexivity|]. cbn [map].
  assert (F1 : forallb (fun s => (length (cs_R s) =? length (cs_R (cs_shift T s0)))%nat)
                 (cs_shift T s0 :: map (cs_shift T) rest) = true).
  { apply forallb_forall. intros s Hs. change (cs_shift T s0 :: map (cs_shift T) rest) with (map (cs_shift T) (s0 :: rest)) in Hs.
    apply in_map_iff in Hs as (s' & <- & Hs'). apply Nat.eqb_eq. unfold cs_shift; cbn [cs_R].
    pose proof (L' s' Hs'). pose proof (L' s0 (or_introl eq_refl)). vlen. }
  assert (F2 : forallb (fun s => (length (cs_R s) =? length (cs_R s0))%nat) (s0 :: rest) = true).
  { apply forallb_forall. intros s Hs. apply Nat.eqb_eq. rewrite (L' s Hs), (L' s0 (or_introl eq_refl)). reflexivity. }
  rewrite F1, F2. do 2 f_equal.
  change (map (cs_shift (vneg (cs_R (cs_shift T s0)))) (map (cs_shift T) (s0 :: rest))
          = map (cs_shift (vneg (cs_R s0))) (s0 :: rest)).
  rewrite map_map. apply map_ext_in. intros s Hs.
  pose proof (L' s Hs). pose proof (L' s0 (or_introl eq_refl)).
  destruct s as [c i R], s0 as [c0 i0 R0]; unfold cs_shift; cbn [cs_c cs_i cs_R] in *. f_equal. vext.
Qed.

End ClusterMake.

(* ---------- non-vacuity examples -------------------------------------------------------- *)
Example ex_ps_sub_add :
  let a := mkPS (K:=Zring) 0 1 [1; -2] [3; 4] in let b := mkPS (K:=Zring) 2 1 [0; 5] [1; 1] in
  ps_wf Zring 2 a /\ ps_wf Zring 2 b /\ ps_j a = ps_j b /\
  ps_sub a b = Some (mkPS (K:=Zring) 0 2 [1; -7] [2; 3]) /\ ps_add (mkPS (K:=Zring) 0 2 [1; -7] [2; 3]) b = Some a.
Proof. cbn. repeat split; reflexivity. Qed.

Example ex_ps_g :
  let g := mkLop (K:=Zring) [[0; -1]; [1; 0]] [1; 0] [[0; 0]; [1; 0]] [[0; -1]; [1; 0]] in
  let a := mkPS (K:=Zring) 0 1 [1; 0] [1; 2] in let b := mkPS (K:=Zring) 1 0 [2; 1] [0; 1] in
  lop_wf Zring 2 2 g /\ ps_in Zring 2 a /\ ps_in Zring 2 b /\ ps_add a b = Some (mkPS (K:=Zring) 0 0 [3; 1] [1; 3]) /\
  ps_add (ps_g g a) (ps_g g b) = Some (ps_g g (mkPS (K:=Zring) 0 0 [3; 1] [1; 3])).
Proof.
  cbn. split; [|split; [|split; [|split; reflexivity]]].
  - split; [reflexivity|]. split; intros i Hi; assert (E : i = 0 \/ i = 1) by lia; destruct E as [->| ->]; unfold zth; simpl; try reflexivity; lia.
  - split; cbn; lia.
  - split; cbn; lia.
Qed.

Example ex_cluster :
  let l := [mkCS 0 1 [2; 3]; mkCS 0 0 [1; 1]; mkCS 1 0 [0; 4]] in
  exists c c', cl_make l false false false = Some c /\ cl_make (rev l) false false false = Some c' /\
               cl_canon 2 c /\ cl_canon 2 c' /\ cl_eqb c c' = true /\ NoDup (cl_entries c) /\
               cl_sites c = [mkCS 0 0 [0; 0]; mkCS 0 1 [1; 2]; mkCS 1 0 [-1; 3]].
Proof.
  do 2 eexists. split; [vm_compute; reflexivity|]. split; [vm_compute; reflexivity|].
  split; [|split; [|split; [vm_compute; reflexivity|split; [|reflexivity]]]].
  - split; [|discriminate]. cbn. intros s [<-|[<-|[<-|[]]]]; reflexivity.
  - split; [|discriminate]. cbn. intros s [<-|[<-|[<-|[]]]]; reflexivity.
  - vm_compute. repeat constructor; cbn; intuition discriminate.
Qed.

Example ex_ts_cluster :
  let a := mkCl [mkCS 0 0 [0]; mkCS 0 1 [1]; mkCS 1 0 [2]] true false in
  let b := mkCl [mkCS 0 1 [0]; mkCS 0 0 [-1]; mkCS 1 0 [1]] true false in
  cl_canon 1 a /\ cl_canon 1 b /\ cl_eqb a b = true /\ cl_eqb b a = true.
Proof.
  cbn. repeat split; try reflexivity; try (cbn; lia).
  - intros s [<-|[<-|[<-|[]]]]; reflexivity.
  - intros s [<-|[<-|[<-|[]]]]; reflexivity.
Qed.

(* ---------- bundled statements used by Properties/C36.v --------------------------------- *)
Theorem ps_eq_laws (K : ordring) (H : list Z -> Z) (a b c : pstate K) :
  ps_eqb a a = true /\ ps_eqb a b = ps_eqb b a /\
  (ps_eqb a b = true -> ps_eqb b c = true -> ps_eqb a c = true) /\
  ps_neb a b = negb (ps_eqb a b) /\ (ps_eqb a b = true -> ps_hash H a = ps_hash H b).
Proof.
  repeat split; [apply ps_eq_refl | apply ps_eq_sym | apply ps_eq_trans | apply ps_eq_hash].
Qed.

Theorem cs_eq_laws (H : list Z -> Z) (a b c : csite) :
  cs_eqb a a = true /\ cs_eqb a b = cs_eqb b a /\
  (cs_eqb a b = true -> cs_eqb b c = true -> cs_eqb a c = true) /\
  cs_neb a b = negb (cs_eqb a b) /\ (cs_eqb a b = true -> cs_hash H a = cs_hash H b).
Proof.
  repeat split; [apply cs_eq_refl | apply cs_eq_sym | apply cs_eq_trans | apply cs_eq_hash].
Qed.

Theorem cl_eq_laws (H : list Z -> Z) d (a b c : cluster) :
  cl_canon d a -> cl_canon d b -> cl_canon d c ->
  cl_eqb a a = true /\ cl_eqb a b = cl_eqb b a /\
  (cl_eqb a b = true -> cl_eqb b c = true -> cl_eqb a c = true) /\
  cl_neb a b = negb (cl_eqb a b) /\
  (NoDup (cl_entries a) -> NoDup (cl_entries b) -> cl_eqb a b = true -> cl_hash H a = cl_hash H b).
Proof.
  intros Ca Cb Cc. repeat split.
  - apply (cl_eq_refl d); assumption.
  - apply (cl_eq_sym d); assumption.
  - apply (cl_eq_trans d); assumption.
  - apply (cl_eq_hash H d); assumption.
Qed.
