(* Proofs about Model/OmegaNet.v (C26): the brute-force enumerations list exactly the
   transitions of the definition; the classification checker is sound; what result 0 of the
   correspondence runner establishes. *)
From Coq Require Import List ZArith Bool Arith Lia.
From Onsager Require Import Model.Stars Model.OmegaNet Proofs.Stars_proofs.
Import ListNotations.

Lemma tr_eqb_spec a b : tr_eqb a b = true <-> a = b.
Proof.
  destruct a as [ax ay aR], b as [bx by0 bR]; unfold tr_eqb; cbn [tx ty tR].
  destruct (Nat.eqb_spec ax bx), (Nat.eqb_spec ay by0); try (split; [discriminate | intro H; inversion H; congruence]).
  rewrite veqb_spec. split; intro H; [subst; reflexivity | inversion H; reflexivity].
Qed.

Lemma mem_tr_spec e l : mem_tr e l = true <-> In e l.
Proof.
  induction l as [|a l IH]; cbn [mem_tr In]; [split; [discriminate | tauto]|].
  destruct (tr_eqb e a) eqn:E.
  - apply tr_eqb_spec in E; subst; tauto.
  - rewrite IH. split; [tauto|]. intros [H|H]; [|exact H]. subst.
    assert (tr_eqb e e = true) by (apply tr_eqb_spec; reflexivity). congruence.
Qed.

(* ---- sindex on duplicate-free lists ---------------------------------------------------------- *)
Lemma sindex_Some sts s y : NoDup sts -> (sindex sts s = Some y <-> y < length sts /\ getst sts y = s).
Proof.
  intro Hn. unfold sindex. pose proof (sindex_from_spec s sts 0) as H.
  destruct (sindex_from 0 s sts) as [x|].
  - destruct H as [_ H]. rewrite Nat.sub_0_r in H. split.
    + intro E. inversion E; subst. split; [apply nth_error_Some; congruence|].
      unfold getst. apply nth_error_nth. exact H.
    + intros [Hy Es]. f_equal. eapply NoDup_nth_error_inj; [exact Hn | exact H |].
      unfold getst in Es. rewrite <- Es. apply nth_error_nth'. exact Hy.
  - split; [discriminate|]. intros [Hy Es]. exfalso. apply H. rewrite <- Es. unfold getst. apply nth_In. exact Hy.
Qed.

Lemma sindex_None sts s : sindex sts s = None -> ~ In s sts.
Proof.
  unfold sindex. pose proof (sindex_from_spec s sts 0) as H. destruct (sindex_from 0 s sts); [discriminate | intros _; exact H].
Qed.

(* ---- the enumerations list exactly the transitions of the definition -------------------- *)
Theorem om1_list_spec sts tjumps keep e t : NoDup sts ->
  (In (e, t) (om1_list sts tjumps keep) <-> om1_spec sts tjumps keep e t).
Proof.
  intro Hn. unfold om1_list, om1_spec. rewrite in_flat_map. cbv zeta. split.
  - intros [x [Hx H]]. apply in_seq in Hx. destruct (iszero (getst sts x)) eqn:Zx; [destruct H|].
    apply in_flat_map in H. destruct H as [[j t'] [Hj H]]. cbn [fst snd] in H.
    destruct (Nat.eqb_spec (pj (getst sts x)) (pi j)) as [Em|Em]; [|destruct H].
    destruct (iszero (padd (getst sts x) j)) eqn:Zf; [destruct H|].
    destruct (sindex sts (padd (getst sts x) j)) as [y|] eqn:Sy; [|destruct H].
    apply (sindex_Some sts _ y Hn) in Sy. destruct Sy as [Hy Ey].
    destruct (if keep (getst sts x) then true else keep (padd (getst sts x) j)) eqn:K; [|destruct H].
    destruct H as [H|[]]. inversion H; subst e t'. cbn [tx ty tR]. rewrite Ey.
    repeat split; try lia; try assumption.
    + destruct (keep (getst sts x)); [left; reflexivity | right; exact K].
    + exists j. repeat split; assumption.
  - intros [Hx [Hy [Zx [Zy [K [j [Hj [Em [Ey ER]]]]]]]]]. exists (tx e). split; [apply in_seq; lia|].
    rewrite Zx. apply in_flat_map. exists (j, t). split; [exact Hj|]. cbn [fst snd].
    destruct (Nat.eqb_spec (pj (getst sts (tx e))) (pi j)); [|contradiction].
    rewrite <- Ey, Zy.
    assert (Sy : sindex sts (getst sts (ty e)) = Some (ty e)) by (apply sindex_Some; [exact Hn | tauto]).
    rewrite Sy.
    assert (Kb : (if keep (getst sts (tx e)) then true else keep (getst sts (ty e))) = true).
    { destruct (keep (getst sts (tx e))); [reflexivity|]. destruct K as [K|K]; [discriminate | exact K]. }
    rewrite Kb. left. destruct e as [ex ey eR]; cbn [tx ty tR] in *. subst eR. reflexivity.
Qed.

Theorem om2_list_spec sts tjumps e t : NoDup sts ->
  (In (e, t) (om2_list sts tjumps) /\ ty e < length sts <-> om2_spec sts tjumps e t).
Proof.
  intro Hn. unfold om2_list, om2_spec. rewrite in_flat_map. cbv zeta. split.
  - intros [[x [Hx H]] Hy]. apply in_seq in Hx. destruct (iszero (getst sts x)) eqn:Zx; [destruct H|].
    apply in_flat_map in H. destruct H as [[j t'] [Hj H]]. cbn [fst snd] in H.
    destruct (Nat.eqb_spec (pj (getst sts x)) (pi j)) as [Em|Em]; [|destruct H].
    destruct (iszero (padd (getst sts x) j)) eqn:Zf; [|destruct H].
    destruct H as [H|[]]. inversion H; subst e t'. cbn [tx ty tR] in *.
    destruct (sindex sts (pneg (getst sts x))) as [y|] eqn:Sy; [|lia].
    apply (sindex_Some sts _ y Hn) in Sy. destruct Sy as [_ Ey]. rewrite Ey.
    repeat split; try lia; try assumption. exists j. repeat split; assumption.
  - intros [Hx [Hy [Zx [Ey [j [Hj [Em [Zf ER]]]]]]]]. split; [|exact Hy]. exists (tx e). split; [apply in_seq; lia|].
    rewrite Zx. apply in_flat_map. exists (j, t). split; [exact Hj|]. cbn [fst snd].
    destruct (Nat.eqb_spec (pj (getst sts (tx e))) (pi j)); [|contradiction]. rewrite Zf.
    assert (Sy : sindex sts (pneg (getst sts (tx e))) = Some (ty e)) by (apply sindex_Some; [exact Hn | split; [exact Hy | exact Ey]]).
    rewrite Sy. left. destruct e as [ex ey eR]; cbn [tx ty tR] in *. subst eR. reflexivity.
Qed.

(* the jump type of a transition is well defined when no jump is listed twice *)
Lemma jumps_nodupb_spec tj : jumps_nodupb tj = true ->
  forall j t t', In (j, t) tj -> In (j, t') tj -> t = t'.
Proof.
  induction tj as [|[a ta] l IH]; cbn [jumps_nodupb fst]; intros H j t t' H1 H2; [destruct H1|].
  destruct (mem a (map fst l)) eqn:M; [discriminate|]. apply mem_false in M.
  destruct H1 as [H1|H1], H2 as [H2|H2].
  - congruence.
  - inversion H1; subst. exfalso. apply M. apply in_map_iff. exists (j, t'). tauto.
  - inversion H2; subst. exfalso. apply M. apply in_map_iff. exists (j, t). tauto.
  - apply (IH H j); assumption.
Qed.

Theorem om1_type_unique sts tjumps keep e t t' : jumps_nodupb tjumps = true ->
  om1_spec sts tjumps keep e t -> om1_spec sts tjumps keep e t' -> t = t'.
Proof.
  intros Hj [_ [_ [_ [_ [_ [j [H1 [E1 [S1 R1]]]]]]]]] [_ [_ [_ [_ [_ [j' [H2 [E2 [S2 R2]]]]]]]]].
  assert (j = j').
  { destruct j as [a b R], j' as [a' b' R']. cbn [pi pj pR] in *. rewrite S1 in S2. unfold padd in S2. cbn [pi pj pR] in S2.
    inversion S2. f_equal; congruence. }
  subst j'. eapply jumps_nodupb_spec; eassumption.
Qed.

(* ---- soundness of the classification checker -------------------------------------------------- *)
Lemma towners_spec classes e k : In k (towners classes e) <-> k < length classes /\ In e (nth k classes []).
Proof.
  unfold towners. rewrite filter_In, in_seq, mem_tr_spec. split; intros [H1 H2]; split; try assumption; lia.
Qed.

Theorem classes_okb_sound sts ops valid classes jtypes :
  classes_okb sts ops valid classes jtypes = true ->
  classification sts ops (fun e t => In (e, t) valid) classes jtypes.
Proof.
  unfold classes_okb. rewrite !andb_true_iff, !forallb_forall. intros [[[[Hl Hv] Hin] Hc] Ho].
  apply Nat.eqb_eq in Hl. unfold classification. split; [exact Hl|]. split; [|split; [|split]].
  - intros e t Het. specialize (Hv _ Het). cbn [fst snd] in Hv.
    destruct (towners classes e) as [|k [|k2 rest]] eqn:E; try discriminate.
    apply andb_true_iff in Hv. destruct Hv as [Hc1 Ht]. apply Nat.eqb_eq in Hc1. apply Nat.eqb_eq in Ht.
    assert (Hk : In k (towners classes e)) by (rewrite E; left; reflexivity). apply towners_spec in Hk.
    exists k. repeat split; try tauto.
    intros k' Hk' Hin'. assert (H' : In k' (towners classes e)) by (apply towners_spec; tauto).
    rewrite E in H'. destruct H' as [H'|[]]. congruence.
  - intros k e Hk He. specialize (Hin _ (nth_In classes [] Hk)). rewrite forallb_forall in Hin. specialize (Hin _ He).
    apply existsb_exists in Hin. destruct Hin as [[e' t] [Het E]]. cbn [fst] in E. apply tr_eqb_spec in E. subst e'.
    exists t. exact Het.
  - intros k e Hk He. specialize (Hc _ (nth_In classes [] Hk)). unfold class_closedb in Hc. rewrite forallb_forall in Hc.
    specialize (Hc _ He). rewrite !andb_true_iff in Hc. destruct Hc as [[_ Hr] Hg]. split; [apply mem_tr_spec; exact Hr|].
    rewrite forallb_forall in Hg. intros g Hgin. specialize (Hg g Hgin).
    destruct (gtr sts g e) as [e'|]; [|discriminate]. exists e'. split; [reflexivity | apply mem_tr_spec; exact Hg].
  - intros k Hk. specialize (Ho _ (nth_In classes [] Hk)). unfold class_orbitb in Ho.
    destruct (nth k classes []) as [|e0 rest] eqn:E; [discriminate|]. exists e0. split; [reflexivity|].
    rewrite forallb_forall in Ho. intros e He. specialize (Ho e He). apply existsb_exists in Ho.
    destruct Ho as [g [Hg H]]. destruct (gtr sts g e0) as [e'|] eqn:Eg; [|discriminate]. exists g, e'.
    split; [exact Hg|]. split; [exact Eg|].
    destruct (tr_eqb e e') eqn:E1; [left; apply tr_eqb_spec; exact E1 | right; apply tr_eqb_spec; exact H].
Qed.

(* every member of an accepted class has both indices inside the state list *)
Lemma classes_okb_bounds sts ops valid classes jtypes :
  classes_okb sts ops valid classes jtypes = true ->
  forall k e, k < length classes -> In e (nth k classes []) -> tx e < length sts /\ ty e < length sts.
Proof.
  unfold classes_okb. rewrite !andb_true_iff, !forallb_forall. intros [[_ Hc] _] k e Hk He.
  specialize (Hc _ (nth_In classes [] Hk)). unfold class_closedb in Hc. rewrite forallb_forall in Hc.
  specialize (Hc _ He). rewrite !andb_true_iff in Hc. destruct Hc as [[[H1 H2] _] _].
  apply Nat.ltb_lt in H1. apply Nat.ltb_lt in H2. tauto.
Qed.

Lemma classification_ext sts ops (v1 v2 : tr -> nat -> Prop) classes jtypes :
  (forall e t, v2 e t -> v1 e t) ->
  (forall k e t, k < length classes -> In e (nth k classes []) -> v1 e t -> v2 e t) ->
  classification sts ops v1 classes jtypes -> classification sts ops v2 classes jtypes.
Proof.
  intros H21 H12 [Hl [Ha [Hb [Hc Hd]]]]. split; [exact Hl|]. split; [|split; [|split; assumption]].
  - intros e t Hv. apply Ha. apply H21. exact Hv.
  - intros k e Hk He. destruct (Hb k e Hk He) as [t Ht]. exists t. apply (H12 k); assumption.
Qed.

(* ---- what result 0 of the runner means ----------------------------------------------------------- *)
Theorem run_omega_sound tjumps nsites Nkin origin prune ops ists c1 t1 c2 t2 :
  run_omega tjumps nsites Nkin origin prune ops ists c1 t1 c2 t2 = 0 ->
  let jumps := map fst tjumps in
  let keep := if prune then (fun s => mem s (states jumps nsites (Nat.pred Nkin) false)) else (fun _ => true) in
  NoDup ists /\ (forall s, In s ists <-> In s (states jumps nsites Nkin origin)) /\
  classification ists ops (om1_spec ists tjumps keep) c1 t1 /\
  classification ists ops (om2_spec ists tjumps) c2 t2.
Proof.
  unfold run_omega. cbv zeta.
  destruct (jumps_okb (map fst tjumps) && jumps_nodupb tjumps) eqn:Hj; cbn [negb]; [|discriminate].
  destruct (nodupb ists && sameb ists (states (map fst tjumps) nsites Nkin origin)) eqn:Hs; cbn [negb]; [|discriminate].
  destruct (classes_okb ists ops (om1_list ists tjumps _) c1 t1) eqn:H1; cbn [negb]; [|discriminate].
  destruct (classes_okb ists ops (om2_list ists tjumps) c2 t2) eqn:H2; cbn [negb]; [|discriminate]. intros _.
  apply andb_true_iff in Hs. destruct Hs as [Hn Hs]. apply nodupb_spec in Hn.
  split; [exact Hn|]. split; [apply sameb_spec; exact Hs|]. split.
  - apply classes_okb_sound in H1. revert H1. apply classification_ext.
    + intros e t. apply om1_list_spec. exact Hn.
    + intros k e t _ _. apply om1_list_spec. exact Hn.
  - pose proof (classes_okb_bounds _ _ _ _ _ H2) as Hb. apply classes_okb_sound in H2. revert H2. apply classification_ext.
    + intros e t Hsp. apply (om2_list_spec ists tjumps e t Hn) in Hsp. tauto.
    + intros k e t Hk He Hin. apply (om2_list_spec ists tjumps e t Hn). split; [exact Hin | apply (Hb k e Hk He)].
Qed.

(* ---- non-vacuity: square lattice, N_thermo = 1 (kinetic range 2) --------------------------- *)
Local Open Scope Z_scope.
Definition sq_tjumps : list (ps * nat) := map (fun j => (j, 0%nat)) sq_jumps.
Definition sq_kin : list ps := states sq_jumps 1 2 true.

Example om_square_counts :
  length (om1_list sq_kin sq_tjumps (fun _ => true)) = 24%nat /\
  length (om1_list sq_kin sq_tjumps (fun s => mem s (states sq_jumps 1 1 false))) = 24%nat /\
  length (om2_list sq_kin sq_tjumps) = 4%nat.
Proof. vm_compute. repeat split; reflexivity. Qed.

(* the exchange transitions of the square lattice form one class; splitting them in two is rejected *)
Example om2_square_class :
  let v := om2_list sq_kin sq_tjumps in
  classes_okb sq_kin sq_ops v [map fst v] [0%nat] = true /\
  classes_okb sq_kin sq_ops v [firstn 2 (map fst v); skipn 2 (map fst v)] [0%nat; 0%nat] = false.
Proof. vm_compute. split; reflexivity. Qed.

(* pruning matters for a wider kinetic range: kinetic = 3 jumps, thermodynamic = 1 jump *)
Example om1_square_pruned :
  let kin := states sq_jumps 1 3 true in
  length (om1_list kin sq_tjumps (fun _ => true)) = 64%nat /\
  length (om1_list kin sq_tjumps (fun s => mem s (states sq_jumps 1 1 false))) = 24%nat.
Proof. vm_compute. split; reflexivity. Qed.
