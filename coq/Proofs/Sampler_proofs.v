(* Theorems about Model/Sampler.v (reference MonteCarloSampler): for every static table, every ring of
   energies, every occupation and every history of starts and updates.                                 *)
From Coq Require Import List ZArith Bool Arith Lia Ring.
From Onsager Require Import Base.OrdRing Base.Instances Model.Sampler.
Import ListNotations.
Local Open Scope Z_scope.

(* ------------------------------------------------------------------------------- arrays -- *)
Lemma upd_length {A} (l : list A) k x : length (upd l k x) = length l.
Proof. revert k; induction l as [|a l IH]; intros [|k]; cbn [upd length]; auto. Qed.

Lemma nth_upd_eq {A} (l : list A) k x d : (k < length l)%nat -> nth k (upd l k x) d = x.
Proof. revert k; induction l as [|a l IH]; intros [|k] H; cbn [upd nth length] in *; try lia; auto. apply IH; lia. Qed.

Lemma nth_upd_neq {A} (l : list A) k j x d : j <> k -> nth j (upd l k x) d = nth j l d.
Proof.
  revert k j; induction l as [|a l IH]; intros [|k] [|j] H; cbn [upd nth]; auto; try lia.
Qed.

Lemma upd_oob {A} (l : list A) k x : (length l <= k)%nat -> upd l k x = l.
Proof. revert k; induction l as [|a l IH]; intros [|k] H; cbn [upd length] in *; auto; try lia. f_equal; apply IH; lia. Qed.

Lemma bump_length d c m : length (bump d c m) = length c.
Proof. apply upd_length. Qed.

Lemma bump_all_length d c r : length (bump_all d c r) = length c.
Proof.
  unfold bump_all. revert c; induction r as [|m r IH]; intro c; cbn [fold_left]; auto.
  rewrite IH. apply bump_length.
Qed.

Definition cnto (r : list nat) (m : nat) : Z := Z.of_nat (count_occ Nat.eq_dec r m).

Lemma nth_bump d c m j : (j < length c)%nat ->
  nth j (bump d c m) 0 = nth j c 0 + (if Nat.eqb m j then d else 0).
Proof.
  intro H. unfold bump. destruct (Nat.eqb_spec m j) as [->|N].
  - rewrite nth_upd_eq by lia. reflexivity.
  - rewrite nth_upd_neq by lia. lia.
Qed.

Lemma nth_bump_all d r : forall c j, (j < length c)%nat ->
  nth j (bump_all d c r) 0 = nth j c 0 + d * cnto r j.
Proof.
  unfold bump_all, cnto. induction r as [|m r IH]; intros c j H; cbn [fold_left count_occ].
  - lia.
  - rewrite IH by (rewrite bump_length; exact H). rewrite nth_bump by exact H.
    destruct (Nat.eq_dec m j) as [->|N].
    + rewrite Nat.eqb_refl. lia.
    + destruct (Nat.eqb_spec m j); [contradiction|]. lia.
Qed.

Lemma nth_ext_Z (a b : list Z) : length a = length b ->
  (forall j, (j < length a)%nat -> nth j a 0 = nth j b 0) -> a = b.
Proof. intros HL H. apply (nth_ext a b 0 0 HL). exact H. Qed.

(* ------------------------------------------------------------------------------- sets -- *)
Lemma memb_In i s : memb i s = true <-> In i s.
Proof.
  unfold memb. rewrite existsb_exists. split.
  - intros [x [Hx E]]. apply Nat.eqb_eq in E. subst; exact Hx.
  - intro H. exists i. split; [exact H | apply Nat.eqb_refl].
Qed.

Lemma set_add_In i s x : In x (set_add i s) <-> x = i \/ In x s.
Proof.
  unfold set_add. destruct (memb i s) eqn:M.
  - apply memb_In in M. split; [auto | intros [->|H]; auto].
  - rewrite in_app_iff. cbn [In]. intuition.
Qed.

Lemma NoDup_snoc (l : list nat) i : NoDup l -> ~ In i l -> NoDup (l ++ [i]).
Proof.
  intros ND H. induction ND as [|a l Ha Hs IH]; cbn [app].
  - constructor; [intros []|constructor].
  - constructor.
    + rewrite in_app_iff. cbn [In]. intros [?|[?|[]]]; [contradiction|]. subst. apply H. left; reflexivity.
    + apply IH. intro; apply H; right; assumption.
Qed.

Lemma set_add_NoDup i s : NoDup s -> NoDup (set_add i s).
Proof.
  intro H. unfold set_add. destruct (memb i s) eqn:M; [exact H|].
  apply NoDup_snoc; [exact H|]. rewrite <- memb_In; congruence.
Qed.

Lemma set_remove_Some i s : In i s -> exists s', set_remove i s = Some s'.
Proof.
  induction s as [|a s IH]; intro H; cbn [set_remove]; [destruct H|].
  destruct (Nat.eqb_spec i a); [eexists; reflexivity|].
  destruct H as [->|H]; [contradiction|]. destruct (IH H) as [s' ->]. eexists; reflexivity.
Qed.

Lemma set_remove_spec i s s' : NoDup s -> set_remove i s = Some s' ->
  NoDup s' /\ In i s /\ forall x, In x s' <-> (In x s /\ x <> i).
Proof.
  revert s'; induction s as [|a s IH]; intros s' ND H; cbn [set_remove] in H; [discriminate|].
  inversion ND as [|? ? Ha Hs]; subst.
  destruct (Nat.eqb_spec i a) as [->|N].
  - inversion H; subst. split; [exact Hs|]. split; [left; reflexivity|].
    intro x; cbn [In]. split.
    + intro Hx. split; [right; exact Hx|]. intro; subst; contradiction.
    + intros [[->|Hx] Hne]; [contradiction | exact Hx].
  - destruct (set_remove i s) as [t|] eqn:R; cbn [option_map] in H; [|discriminate].
    inversion H; subst. destruct (IH t Hs eq_refl) as [ND' [Hin Hiff]].
    split; [|split].
    + constructor; [|exact ND']. rewrite Hiff. intros [? _]; contradiction.
    + right; exact Hin.
    + intro x; cbn [In]. rewrite Hiff. split.
      * intros [->|[Hx Hne]]; [split; [left; reflexivity | intro; subst; contradiction] | split; [right; exact Hx | exact Hne]].
      * intros [[->|Hx] Hne]; [left; reflexivity | right; split; assumption].
Qed.

(* ------------------------------------------------------------------------------- dictionary -- *)
Fixpoint dget (d : list (nat * Z)) (m : nat) : Z :=
  match d with [] => 0 | (k, c) :: r => if Nat.eqb k m then c else dget r m end.

Lemma dget_dadd d m x k : dget (dadd d m x) k = dget d k + (if Nat.eqb m k then x else 0).
Proof.
  induction d as [|[k0 c] r IH]; cbn [dadd dget].
  - destruct (Nat.eqb m k); lia.
  - destruct (Nat.eqb_spec k0 m) as [->|N]; cbn [dget].
    + destruct (Nat.eqb m k); lia.
    + destruct (Nat.eqb_spec k0 k) as [->|N2].
      * destruct (Nat.eqb_spec m k); [subst; contradiction | lia].
      * exact IH.
Qed.

Lemma dadd_keys d m x k : In k (map fst (dadd d m x)) <-> k = m \/ In k (map fst d).
Proof.
  induction d as [|[k0 c] r IH]; cbn [dadd map fst In].
  - intuition.
  - destruct (Nat.eqb_spec k0 m) as [->|N]; cbn [map fst In]; [intuition|]. rewrite IH. intuition.
Qed.

Lemma dadd_NoDup d m x : NoDup (map fst d) -> NoDup (map fst (dadd d m x)).
Proof.
  induction d as [|[k0 c] r IH]; intro H; cbn [dadd map fst].
  - constructor; [intros []|constructor].
  - inversion H as [|? ? Hk Hr]; subst. destruct (Nat.eqb_spec k0 m) as [->|N]; cbn [map fst].
    + constructor; assumption.
    + constructor; [|apply IH; exact Hr]. rewrite dadd_keys. intros [->|?]; [apply N; reflexivity | contradiction].
Qed.

Lemma dget_dadd_all x r : forall d k, dget (dadd_all x d r) k = dget d k + x * cnto r k.
Proof.
  unfold dadd_all, cnto. induction r as [|m r IH]; intros d k; cbn [fold_left count_occ]; [lia|].
  rewrite IH, dget_dadd. destruct (Nat.eq_dec m k) as [->|N].
  - rewrite Nat.eqb_refl. lia.
  - destruct (Nat.eqb_spec m k); [contradiction|]. lia.
Qed.

Lemma dadd_all_NoDup x r : forall d, NoDup (map fst d) -> NoDup (map fst (dadd_all x d r)).
Proof.
  unfold dadd_all. induction r as [|m r IH]; intros d H; cbn [fold_left]; [exact H|].
  apply IH. apply dadd_NoDup. exact H.
Qed.

Lemma dget_notin d k : ~ In k (map fst d) -> dget d k = 0.
Proof.
  induction d as [|[k0 c] r IH]; cbn [dget map fst In]; intro H; [reflexivity|].
  destruct (Nat.eqb_spec k0 k); [exfalso; apply H; left; assumption|]. apply IH. intro; apply H; right; assumption.
Qed.

Section WithRing.
Variable K : ordring.
Add Ring Kr : (r_ring K).
Notation "0" := (r0 K) : K_scope.
Infix "+" := (radd K) : K_scope. Infix "-" := (rsub K) : K_scope. Infix "*" := (rmul K) : K_scope.
Notation "- x" := (ropp K x) : K_scope.
Delimit Scope K_scope with K.

(* sum over a sequence of a function that differs from B at one index only *)
Lemma sumf_seq_change (A B : nat -> K) k s n :
  (forall m, m <> k -> A m = B m) ->
  sumf A (seq s n) = (sumf B (seq s n) + (if (Nat.leb s k && Nat.ltb k (s + n))%bool then A k - B k else 0))%K.
Proof.
  intro H. revert s; induction n as [|n IH]; intro s; cbn [seq sumf].
  - destruct (Nat.leb_spec s k), (Nat.ltb_spec k (s + 0)); cbn [andb]; try ring; lia.
  - rewrite IH. destruct (Nat.eq_dec s k) as [->|N].
    + destruct (Nat.leb_spec (S k) k); [lia|]. cbn [andb].
      destruct (Nat.leb_spec k k); [|lia]. destruct (Nat.ltb_spec k (k + S n)); [|lia]. cbn [andb]. ring.
    + rewrite (H s N).
      destruct (Nat.leb_spec (S s) k), (Nat.ltb_spec k (S s + n)), (Nat.leb_spec s k), (Nat.ltb_spec k (s + S n));
        cbn [andb]; try ring; lia.
Qed.

(* summing a function over the items of a dictionary = summing it over all keys with absent keys at 0 *)
Lemma sum_dict (g : nat -> Z -> K) (M : nat) (d : list (nat * Z)) :
  NoDup (map fst d) -> (forall m, g m 0%Z = r0 K) -> (forall m c, (M <= m)%nat -> g m c = r0 K) ->
  sumf (fun mc => g (fst mc) (snd mc)) d = sumf (fun m => g m (dget d m)) (seq O M).
Proof.
  intros ND G0 GM. induction d as [|[k c] r IH]; cbn [sumf map fst snd dget].
  - rewrite (sumf_ext K _ (fun _ => r0 K)); [rewrite sumf_zero; reflexivity | intros; apply G0].
  - inversion ND as [|? ? Hk Hr]; subst. rewrite (IH Hr).
    rewrite (sumf_seq_change (fun m => g m (if Nat.eqb k m then c else dget r m)) (fun m => g m (dget r m)) k).
    + rewrite Nat.eqb_refl. rewrite (dget_notin r k Hk), G0. cbn [Nat.leb andb]. cbn [Nat.add].
      destruct (Nat.ltb_spec k M); [ring | rewrite GM by lia; ring].
    + intros m Hm. destruct (Nat.eqb_spec k m); [subst; contradiction | reflexivity].
Qed.

Variable sd : static K.
Notation Nsites := (Nsites K sd). Notation Nint := (Nint K sd).
Notation row := (row K sd). Notation val := (val K sd). Notation is_vac := (is_vac K sd).
Notation cnt := (cnt K sd). Notation cnt_list := (cnt_list K sd).
Notation start := (start K sd). Notation update := (update K sd). Notation E := (E K sd).
Notation deltaE_trial := (deltaE_trial K sd).

(* ------------------------------------------------------------------------------- counts -- *)
Lemma cnt_rows_upd (si : list (list nat)) : forall (o : list Z) i x m,
  (i < length o)%nat -> (i < length si)%nat ->
  cnt_rows (combine (upd o i x) si) m =
  cnt_rows (combine o si) m + (if x =? 0 then cnto (nth i si []) m else 0)
                            - (if nth i o 2 =? 0 then cnto (nth i si []) m else 0).
Proof.
  induction si as [|r si IH]; intros o i x m Ho Hs; cbn [length] in Hs; [lia|].
  destruct o as [|a o]; cbn [length] in Ho; [lia|].
  destruct i as [|i]; cbn [upd combine cnt_rows nth].
  - unfold cnto. lia.
  - rewrite IH by lia. lia.
Qed.

Lemma cnt_upd o i x m : (i < length o)%nat -> length o = Nsites ->
  cnt (upd o i x) m = cnt o m + (if x =? 0 then cnto (row i) m else 0) - (if nth i o 2 =? 0 then cnto (row i) m else 0).
Proof. intros H L. unfold cnt, Sampler.cnt, Sampler.row. apply cnt_rows_upd; [exact H|]. unfold Sampler.Nsites in L. lia. Qed.

Lemma cnt_list_length o : length (cnt_list o) = Nint.
Proof. unfold Sampler.cnt_list. rewrite map_length, seq_length. reflexivity. Qed.

Lemma nth_cnt_list o m : (m < Nint)%nat -> nth m (cnt_list o) 0 = cnt o m.
Proof.
  intro H. unfold Sampler.cnt_list.
  rewrite (nth_indep _ 0 (cnt o O)) by (rewrite map_length, seq_length; exact H).
  rewrite map_nth. rewrite seq_nth by exact H. reflexivity.
Qed.

(* ------------------------------------------------------------------------------- invariant -- *)
Definition occ_ok (o : list Z) : Prop :=
  (0 <= vacancy sd -> nth (Z.to_nat (vacancy sd)) o 0 = -1) /\
  forall i, (i < length o)%nat ->
    ((nth i o 2 = 0 \/ nth i o 2 = 1) /\ is_vac i = false) \/ (is_vac i = true /\ nth i o 2 <> 0 /\ nth i o 2 <> 1).

Record Inv (st : mcstate) : Prop := mkInv {
  inv_len : length (occ st) = Nsites;
  inv_cc : cc st = cnt_list (occ st);
  inv_ond : NoDup (oset st);
  inv_und : NoDup (uset st);
  inv_oset : forall i, In i (oset st) <-> ((i < Nsites)%nat /\ nth i (occ st) 2 = 1);
  inv_uset : forall i, In i (uset st) <-> ((i < Nsites)%nat /\ nth i (occ st) 2 = 0);
  inv_occ : occ_ok (occ st)
}.

(* two states on the same occupation that satisfy the invariant are the same sampler state
   (same counts, same sets as sets) *)
Definition same_state (s t : mcstate) : Prop :=
  occ s = occ t /\ cc s = cc t /\ (forall i, In i (oset s) <-> In i (oset t)) /\ (forall i, In i (uset s) <-> In i (uset t)).

Lemma Inv_unique s t : Inv s -> Inv t -> occ s = occ t -> same_state s t.
Proof.
  intros Hs Ht Ho. split; [exact Ho|]. split; [|split].
  - rewrite (inv_cc s Hs), (inv_cc t Ht), Ho. reflexivity.
  - intro i. rewrite (inv_oset s Hs), (inv_oset t Ht), Ho. reflexivity.
  - intro i. rewrite (inv_uset s Hs), (inv_uset t Ht), Ho. reflexivity.
Qed.

(* ------------------------------------------------------------------------------- start -- *)
Lemma start_loop_spec : forall rows i c ol ul c' ol' ul',
  start_loop K sd i rows c ol ul = Some (c', ol', ul') ->
  length c' = length c /\
  (forall m, (m < length c)%nat -> nth m c' 0 = nth m c 0 + cnt_rows rows m) /\
  (forall x, In x ol' <-> In x ol \/ exists k, (k < length rows)%nat /\ x = (i + k)%nat /\ fst (nth k rows (2, [])) = 1) /\
  (forall x, In x ul' <-> In x ul \/ exists k, (k < length rows)%nat /\ x = (i + k)%nat /\ fst (nth k rows (2, [])) = 0) /\
  (NoDup ol -> (forall x, In x ol -> (x < i)%nat) -> NoDup ol') /\
  (NoDup ul -> (forall x, In x ul -> (x < i)%nat) -> NoDup ul') /\
  (forall k, (k < length rows)%nat ->
     ((fst (nth k rows (2, [])) = 0 \/ fst (nth k rows (2, [])) = 1)) \/ is_vac (i + k) = true).
Proof.
  induction rows as [|[o r] rest IH]; intros i c ol ul c' ol' ul' H; cbn [start_loop] in H.
  - inversion H; subst. cbn [length cnt_rows]. repeat split; try tauto; try (intros; lia).
    + intros [?|[k [Hk _]]]; [assumption | lia].
    + intros [?|[k [Hk _]]]; [assumption | lia].
  - assert (NDapp : forall (l : list nat), NoDup l -> (forall x, In x l -> (x < i)%nat) -> NoDup (l ++ [i]) /\ forall x, In x (l ++ [i]) -> (x < S i)%nat).
    { intros l ND Hl. split.
      - apply NoDup_snoc; [exact ND|]. intro Hx. specialize (Hl i Hx). lia.
      - intros x Hx. apply in_app_iff in Hx. cbn [In] in Hx. destruct Hx as [Hx|[<-|[]]]; [specialize (Hl x Hx)|]; lia. }
    assert (SH : forall (P : nat -> Prop), (exists k, (k < length ((o, r) :: rest))%nat /\ P k) <->
                   (P O \/ exists k, (k < length rest)%nat /\ P (S k))).
    { intro P. cbn [length]. split.
      - intros [[|k] [Hk HP]]; [left; exact HP | right; exists k; split; [lia | exact HP]].
      - intros [HP|[k [Hk HP]]]; [exists O; split; [lia | exact HP] | exists (S k); split; [lia | exact HP]]. }
    destruct (Z.eqb_spec o 0) as [->|N0]; [|destruct (Z.eqb_spec o 1) as [->|N1]; [|destruct (is_vac i) eqn:V; [|discriminate]]];
      destruct (IH _ _ _ _ _ _ _ H) as [L [C [O [U [NO [NU VK]]]]]]; clear IH.
    + (* unoccupied *)
      rewrite bump_all_length in L, C. split; [exact L|]. split; [|split; [|split; [|split; [|split]]]].
      * intros m Hm. rewrite (C m Hm). rewrite nth_bump_all by exact Hm. cbn [cnt_rows]. change (0 =? 0) with true. cbv iota. unfold cnto. lia.
      * intro x. rewrite O. apply or_iff_compat_l.
        rewrite (SH (fun k => x = (i + k)%nat /\ fst (nth k ((0, r) :: rest) (2, [])) = 1)). cbn [nth fst].
        split; [intros [k [Hk [-> F]]]; right; exists k; repeat split; [exact Hk | lia | exact F] |].
        intros [[_ F]|[k [Hk [-> F]]]]; [discriminate | exists k; repeat split; [exact Hk | lia | exact F]].
      * intro x. rewrite U, in_app_iff. cbn [In].
        rewrite (SH (fun k => x = (i + k)%nat /\ fst (nth k ((0, r) :: rest) (2, [])) = 0)). cbn [nth fst].
        split.
        -- intros [[?|[<-|[]]]|[k [Hk [-> F]]]]; [left; assumption | right; left; split; [lia | reflexivity] |
                                              right; right; exists k; repeat split; [exact Hk | lia | exact F]].
        -- intros [?|[[-> _]|[k [Hk [-> F]]]]]; [left; left; assumption | left; right; left; lia |
                                              right; exists k; repeat split; [exact Hk | lia | exact F]].
      * intros ND Hl. apply NO; [exact ND | intros x Hx; specialize (Hl x Hx); lia].
      * intros ND Hl. destruct (NDapp ul ND Hl) as [A B]. apply NU; assumption.
      * intros [|k] Hk; cbn [length] in Hk; cbn [nth fst]; [left; left; reflexivity|].
        replace (i + S k)%nat with (S i + k)%nat by lia. apply VK. lia.
    + (* occupied *)
      split; [exact L|]. split; [|split; [|split; [|split; [|split]]]].
      * intros m Hm. rewrite (C m Hm). cbn [cnt_rows]. change (1 =? 0) with false. cbv iota. lia.
      * intro x. rewrite O, in_app_iff. cbn [In].
        rewrite (SH (fun k => x = (i + k)%nat /\ fst (nth k ((1, r) :: rest) (2, [])) = 1)). cbn [nth fst].
        split.
        -- intros [[?|[<-|[]]]|[k [Hk [-> F]]]]; [left; assumption | right; left; split; [lia | reflexivity] |
                                              right; right; exists k; repeat split; [exact Hk | lia | exact F]].
        -- intros [?|[[-> _]|[k [Hk [-> F]]]]]; [left; left; assumption | left; right; left; lia |
                                              right; exists k; repeat split; [exact Hk | lia | exact F]].
      * intro x. rewrite U. apply or_iff_compat_l.
        rewrite (SH (fun k => x = (i + k)%nat /\ fst (nth k ((1, r) :: rest) (2, [])) = 0)). cbn [nth fst].
        split; [intros [k [Hk [-> F]]]; right; exists k; repeat split; [exact Hk | lia | exact F] |].
        intros [[_ F]|[k [Hk [-> F]]]]; [discriminate | exists k; repeat split; [exact Hk | lia | exact F]].
      * intros ND Hl. destruct (NDapp ol ND Hl) as [A B]. apply NO; assumption.
      * intros ND Hl. apply NU; [exact ND | intros x Hx; specialize (Hl x Hx); lia].
      * intros [|k] Hk; cbn [length] in Hk; cbn [nth fst]; [left; right; reflexivity|].
        replace (i + S k)%nat with (S i + k)%nat by lia. apply VK. lia.
    + (* the vacancy *)
      split; [exact L|]. split; [|split; [|split; [|split; [|split]]]].
      * intros m Hm. rewrite (C m Hm). cbn [cnt_rows]. destruct (Z.eqb_spec o 0); [contradiction|]. lia.
      * intro x. rewrite O. apply or_iff_compat_l.
        rewrite (SH (fun k => x = (i + k)%nat /\ fst (nth k ((o, r) :: rest) (2, [])) = 1)). cbn [nth fst].
        split; [intros [k [Hk [-> F]]]; right; exists k; repeat split; [exact Hk | lia | exact F] |].
        intros [[_ F]|[k [Hk [-> F]]]]; [contradiction | exists k; repeat split; [exact Hk | lia | exact F]].
      * intro x. rewrite U. apply or_iff_compat_l.
        rewrite (SH (fun k => x = (i + k)%nat /\ fst (nth k ((o, r) :: rest) (2, [])) = 0)). cbn [nth fst].
        split; [intros [k [Hk [-> F]]]; right; exists k; repeat split; [exact Hk | lia | exact F] |].
        intros [[_ F]|[k [Hk [-> F]]]]; [contradiction | exists k; repeat split; [exact Hk | lia | exact F]].
      * intros ND Hl. apply NO; [exact ND | intros x Hx; specialize (Hl x Hx); lia].
      * intros ND Hl. apply NU; [exact ND | intros x Hx; specialize (Hl x Hx); lia].
      * intros [|k] Hk; cbn [length] in Hk; cbn [nth fst]; [right; rewrite Nat.add_0_r; exact V|].
        replace (i + S k)%nat with (S i + k)%nat by lia. apply VK. lia.
Qed.


Lemma start_loop_total : forall rows i c ol ul,
  (forall k, (k < length rows)%nat ->
     ((fst (nth k rows (2, [])) = 0 \/ fst (nth k rows (2, [])) = 1)) \/ is_vac (i + k) = true) ->
  exists res, start_loop K sd i rows c ol ul = Some res.
Proof.
  induction rows as [|[o r] rest IH]; intros i c ol ul H; cbn [start_loop]; [eexists; reflexivity|].
  assert (H' : forall k, (k < length rest)%nat ->
     ((fst (nth k rest (2, [])) = 0 \/ fst (nth k rest (2, [])) = 1)) \/ is_vac (S i + k) = true).
  { intros k Hk. specialize (H (S k)). cbn [length nth] in H. replace (i + S k)%nat with (S i + k)%nat in H by lia.
    apply H. lia. }
  destruct (Z.eqb_spec o 0); [apply IH; exact H'|]. destruct (Z.eqb_spec o 1); [apply IH; exact H'|].
  specialize (H O). cbn [length nth fst] in H. rewrite Nat.add_0_r in H.
  destruct H as [[?|?]|V]; [lia | contradiction | contradiction | rewrite V; apply IH; exact H'].
Qed.

Lemma nth_combine_rows (o : list Z) k : length o = Nsites -> (k < Nsites)%nat ->
  nth k (combine o (siteinteract sd)) (2, []) = (nth k o 2, row k).
Proof. intros L Hk. unfold Sampler.row. apply combine_nth. exact L. Qed.

Lemma is_vac_true i : is_vac i = true -> 0 <= vacancy sd /\ i = Z.to_nat (vacancy sd).
Proof. unfold Sampler.is_vac. intro H. apply Z.eqb_eq in H. lia. Qed.

Theorem start_Inv o st : start o = Some st -> Inv st /\ occ st = o.
Proof.
  unfold Sampler.start. intro H.
  destruct ((0 <=? vacancy sd) && negb (nth (Z.to_nat (vacancy sd)) o 0 =? -1))%bool eqn:V; [discriminate|].
  destruct (Nat.eqb_spec (length o) Nsites) as [L|]; [|discriminate]. cbn [negb] in H.
  destruct (start_loop K sd O (combine o (siteinteract sd)) (repeat 0 Nint) [] []) as [[[c ol] ul]|] eqn:SL; [|discriminate].
  inversion H; subst; clear H. split; [|reflexivity].
  destruct (start_loop_spec _ _ _ _ _ _ _ _ SL) as [Lc [C [O [U [NO [NU VK]]]]]].
  assert (LR : length (combine o (siteinteract sd)) = Nsites).
  { rewrite combine_length. unfold Sampler.Nsites in *. lia. }
  rewrite LR in *. rewrite repeat_length in *.
  assert (V1 : 0 <= vacancy sd -> nth (Z.to_nat (vacancy sd)) o 0 = -1).
  { intro Hv. apply andb_false_iff in V. destruct V as [V|V]; [apply Z.leb_gt in V; lia|].
    apply negb_false_iff in V. apply Z.eqb_eq in V. exact V. }
  constructor; cbn [occ cc oset uset].
  - exact L.
  - apply nth_ext_Z; [rewrite cnt_list_length; exact Lc|]. intros m Hm. rewrite Lc in Hm.
    rewrite (C m Hm), nth_cnt_list by exact Hm. rewrite nth_repeat. reflexivity.
  - apply NO; [constructor | intros x []].
  - apply NU; [constructor | intros x []].
  - intro x. rewrite O. cbn [In Nat.add]. split.
    + intros [[]|[k [Hk [-> F]]]]. rewrite nth_combine_rows in F by assumption. cbn [fst] in F. split; assumption.
    + intros [Hk F]. right. exists x. rewrite nth_combine_rows by assumption. cbn [fst]. repeat split; assumption.
  - intro x. rewrite U. cbn [In Nat.add]. split.
    + intros [[]|[k [Hk [-> F]]]]. rewrite nth_combine_rows in F by assumption. cbn [fst] in F. split; assumption.
    + intros [Hk F]. right. exists x. rewrite nth_combine_rows by assumption. cbn [fst]. repeat split; assumption.
  - split; [exact V1|]. intros i Hi. rewrite L in Hi. specialize (VK i Hi).
    rewrite nth_combine_rows in VK by assumption. cbn [fst Nat.add] in VK.
    destruct (is_vac i) eqn:Vi.
    + right. destruct (is_vac_true i Vi) as [Hv ->]. specialize (V1 Hv).
      rewrite (nth_indep o 2 0) by lia. split; [reflexivity|]. lia.
    + left. split; [|reflexivity]. destruct VK as [?|?]; [assumption|discriminate].
Qed.

Lemma start_total st : Inv st -> exists st', start (occ st) = Some st'.
Proof.
  intros [L _ _ _ _ _ [V1 V2]]. unfold Sampler.start.
  assert (V : ((0 <=? vacancy sd) && negb (nth (Z.to_nat (vacancy sd)) (occ st) 0 =? -1))%bool = false).
  { destruct (Z.leb_spec 0 (vacancy sd)) as [Hv|]; [|reflexivity]. rewrite (V1 Hv). reflexivity. }
  rewrite V. rewrite L, Nat.eqb_refl. cbn [negb].
  destruct (start_loop_total (combine (occ st) (siteinteract sd)) O (repeat 0 Nint) [] []) as [[[c ol] ul] ->].
  - intros k Hk. rewrite combine_length in Hk. assert (k < Nsites)%nat by (unfold Sampler.Nsites in *; lia).
    rewrite nth_combine_rows by assumption. cbn [fst Nat.add].
    destruct (V2 k ltac:(lia)) as [[H1 _]|[H1 _]]; [left; exact H1 | right; exact H1].
  - eexists; reflexivity.
Qed.

(* ------------------------------------------------------------------------------- update -- *)
Lemma occupy_Inv st i st' : Inv st -> is_vac i = false ->
  Sampler.occupy K sd (Some st) i = Some st' -> Inv st'.
Proof.
  intros I Vi H. cbn [Sampler.occupy] in H. destruct I as [L C NO NU O U [V1 V2]].
  destruct (Nat.leb_spec (length (occ st)) i) as [|Hi]; [discriminate|].
  destruct (Z.eqb_spec (nth i (occ st) 2) 0) as [Oi|Oi].
  2:{ inversion H; subst. constructor; try assumption. split; assumption. }
  destruct (set_remove i (uset st)) as [u'|] eqn:R; [|discriminate]. inversion H; subst; clear H.
  destruct (set_remove_spec _ _ _ NU R) as [NU' [_ U']].
  constructor; cbn [occ cc oset uset].
  - rewrite upd_length. exact L.
  - apply nth_ext_Z; [rewrite bump_all_length, cnt_list_length, C, cnt_list_length; reflexivity|].
    intros m Hm. rewrite bump_all_length, C, cnt_list_length in Hm.
    rewrite nth_bump_all by (rewrite C, cnt_list_length; exact Hm).
    rewrite C, !nth_cnt_list by exact Hm. rewrite cnt_upd by assumption. rewrite Oi. change (1 =? 0) with false. change (0 =? 0) with true. cbv iota. lia.
  - apply set_add_NoDup; exact NO.
  - exact NU'.
  - intro x. rewrite set_add_In, O. destruct (Nat.eq_dec x i) as [->|N].
    + rewrite nth_upd_eq by exact Hi. split; [intros _; split; [lia | reflexivity] | left; reflexivity].
    + rewrite nth_upd_neq by exact N. split; [intros [?|?]; [contradiction | assumption] | right; assumption].
  - intro x. rewrite U', U. destruct (Nat.eq_dec x i) as [->|N].
    + rewrite nth_upd_eq by exact Hi. split; [intros [_ ?]; contradiction | intros [_ ?]; discriminate].
    + rewrite nth_upd_neq by exact N. split; [intros [? _]; assumption | intro; split; assumption].
  - split.
    + intro Hv. rewrite nth_upd_neq; [exact (V1 Hv)|]. intro E. unfold Sampler.is_vac in Vi. apply Z.eqb_neq in Vi. lia.
    + intros j Hj. rewrite upd_length in Hj. destruct (Nat.eq_dec j i) as [->|N].
      * rewrite nth_upd_eq by exact Hi. left. split; [right; reflexivity | exact Vi].
      * rewrite nth_upd_neq by exact N. apply V2. exact Hj.
Qed.

Lemma unoccupy_Inv st i st' : Inv st -> is_vac i = false ->
  Sampler.unoccupy K sd (Some st) i = Some st' -> Inv st'.
Proof.
  intros I Vi H. cbn [Sampler.unoccupy] in H. destruct I as [L C NO NU O U [V1 V2]].
  destruct (Nat.leb_spec (length (occ st)) i) as [|Hi]; [discriminate|].
  destruct (Z.eqb_spec (nth i (occ st) 2) 1) as [Oi|Oi].
  2:{ inversion H; subst. constructor; try assumption. split; assumption. }
  destruct (set_remove i (oset st)) as [o'|] eqn:R; [|discriminate]. inversion H; subst; clear H.
  destruct (set_remove_spec _ _ _ NO R) as [NO' [_ O']].
  constructor; cbn [occ cc oset uset].
  - rewrite upd_length. exact L.
  - apply nth_ext_Z; [rewrite bump_all_length, cnt_list_length, C, cnt_list_length; reflexivity|].
    intros m Hm. rewrite bump_all_length, C, cnt_list_length in Hm.
    rewrite nth_bump_all by (rewrite C, cnt_list_length; exact Hm).
    rewrite C, !nth_cnt_list by exact Hm. rewrite cnt_upd by assumption. rewrite Oi. change (1 =? 0) with false. change (0 =? 0) with true. cbv iota. lia.
  - exact NO'.
  - apply set_add_NoDup; exact NU.
  - intro x. rewrite O', O. destruct (Nat.eq_dec x i) as [->|N].
    + rewrite nth_upd_eq by exact Hi. split; [intros [_ ?]; contradiction | intros [_ ?]; discriminate].
    + rewrite nth_upd_neq by exact N. split; [intros [? _]; assumption | intro; split; assumption].
  - intro x. rewrite set_add_In, U. destruct (Nat.eq_dec x i) as [->|N].
    + rewrite nth_upd_eq by exact Hi. split; [intros _; split; [lia | reflexivity] | left; reflexivity].
    + rewrite nth_upd_neq by exact N. split; [intros [?|?]; [contradiction | assumption] | right; assumption].
  - split.
    + intro Hv. rewrite nth_upd_neq; [exact (V1 Hv)|]. intro E. unfold Sampler.is_vac in Vi. apply Z.eqb_neq in Vi. lia.
    + intros j Hj. rewrite upd_length in Hj. destruct (Nat.eq_dec j i) as [->|N].
      * rewrite nth_upd_eq by exact Hi. left. split; [left; reflexivity | exact Vi].
      * rewrite nth_upd_neq by exact N. apply V2. exact Hj.
Qed.

Lemma fold_occupy_None a : fold_left (Sampler.occupy K sd) a None = None.
Proof. induction a; cbn [fold_left Sampler.occupy]; auto. Qed.
Lemma fold_unoccupy_None a : fold_left (Sampler.unoccupy K sd) a None = None.
Proof. induction a; cbn [fold_left Sampler.unoccupy]; auto. Qed.

Lemma vac_in_false l : Sampler.vac_in K sd l = false -> forall i, In i l -> is_vac i = false.
Proof.
  unfold Sampler.vac_in. intros H i Hi. destruct (is_vac i) eqn:V; [|reflexivity].
  assert (existsb is_vac l = true) by (apply existsb_exists; exists i; split; assumption). congruence.
Qed.

Lemma fold_occupy_Inv : forall a st st', (forall i, In i a -> is_vac i = false) -> Inv st ->
  fold_left (Sampler.occupy K sd) a (Some st) = Some st' -> Inv st'.
Proof.
  induction a as [|i a IH]; intros st st' Hv I H; cbn [fold_left] in H; [inversion H; subst; exact I|].
  destruct (Sampler.occupy K sd (Some st) i) as [s1|] eqn:O1; [|rewrite fold_occupy_None in H; discriminate].
  apply (IH s1); [intros; apply Hv; right; assumption | | exact H].
  apply (occupy_Inv st i); [exact I | apply Hv; left; reflexivity | exact O1].
Qed.

Lemma fold_unoccupy_Inv : forall a st st', (forall i, In i a -> is_vac i = false) -> Inv st ->
  fold_left (Sampler.unoccupy K sd) a (Some st) = Some st' -> Inv st'.
Proof.
  induction a as [|i a IH]; intros st st' Hv I H; cbn [fold_left] in H; [inversion H; subst; exact I|].
  destruct (Sampler.unoccupy K sd (Some st) i) as [s1|] eqn:O1; [|rewrite fold_unoccupy_None in H; discriminate].
  apply (IH s1); [intros; apply Hv; right; assumption | | exact H].
  apply (unoccupy_Inv st i); [exact I | apply Hv; left; reflexivity | exact O1].
Qed.

Theorem update_Inv st a b st' : Inv st -> update st a b = Some st' -> Inv st'.
Proof.
  unfold Sampler.update. intros I H.
  destruct (Sampler.vac_in K sd a) eqn:Va; [discriminate|]. destruct (Sampler.vac_in K sd b) eqn:Vb; [discriminate|].
  cbn [orb] in H.
  destruct (fold_left (Sampler.occupy K sd) a (Some st)) as [s1|] eqn:F1; [|rewrite fold_unoccupy_None in H; discriminate].
  apply (fold_unoccupy_Inv b s1); [apply vac_in_false; exact Vb | | exact H].
  apply (fold_occupy_Inv a st); [apply vac_in_false; exact Va | exact I | exact F1].
Qed.

(* under the invariant, an update with in-range non-vacancy sites never raises (no KeyError from set.remove) *)
Lemma occupy_total st i : Inv st -> (i < Nsites)%nat -> exists st', Sampler.occupy K sd (Some st) i = Some st'.
Proof.
  intros I Hi. cbn [Sampler.occupy]. rewrite (inv_len st I).
  destruct (Nat.leb_spec Nsites i); [lia|].
  destruct (Z.eqb_spec (nth i (occ st) 2) 0) as [Oi|]; [|eexists; reflexivity].
  destruct (set_remove_Some i (uset st)) as [u' ->]; [apply (inv_uset st I); split; assumption | eexists; reflexivity].
Qed.

Lemma unoccupy_total st i : Inv st -> (i < Nsites)%nat -> exists st', Sampler.unoccupy K sd (Some st) i = Some st'.
Proof.
  intros I Hi. cbn [Sampler.unoccupy]. rewrite (inv_len st I).
  destruct (Nat.leb_spec Nsites i); [lia|].
  destruct (Z.eqb_spec (nth i (occ st) 2) 1) as [Oi|]; [|eexists; reflexivity].
  destruct (set_remove_Some i (oset st)) as [u' ->]; [apply (inv_oset st I); split; assumption | eexists; reflexivity].
Qed.

Theorem update_total st a b : Inv st ->
  Sampler.vac_in K sd a = false -> Sampler.vac_in K sd b = false ->
  (forall i, In i a -> (i < Nsites)%nat) -> (forall i, In i b -> (i < Nsites)%nat) ->
  exists st', update st a b = Some st'.
Proof.
  intros I Va Vb Ra Rb. unfold Sampler.update. rewrite Va, Vb. cbn [orb].
  assert (A : forall a st, Inv st -> (forall i, In i a -> is_vac i = false) -> (forall i, In i a -> (i < Nsites)%nat) ->
              exists s1, fold_left (Sampler.occupy K sd) a (Some st) = Some s1 /\ Inv s1).
  { clear. induction a as [|i a IH]; intros st I Hv Hr; cbn [fold_left]; [exists st; split; [reflexivity | exact I]|].
    destruct (occupy_total st i I (Hr i (or_introl eq_refl))) as [s1 O1]. rewrite O1.
    apply IH; [apply (occupy_Inv st i); [exact I | apply Hv; left; reflexivity | exact O1] | |];
      intros; [apply Hv | apply Hr]; right; assumption. }
  assert (B : forall a st, Inv st -> (forall i, In i a -> is_vac i = false) -> (forall i, In i a -> (i < Nsites)%nat) ->
              exists s1, fold_left (Sampler.unoccupy K sd) a (Some st) = Some s1 /\ Inv s1).
  { clear. induction a as [|i a IH]; intros st I Hv Hr; cbn [fold_left]; [exists st; split; [reflexivity | exact I]|].
    destruct (unoccupy_total st i I (Hr i (or_introl eq_refl))) as [s1 O1]. rewrite O1.
    apply IH; [apply (unoccupy_Inv st i); [exact I | apply Hv; left; reflexivity | exact O1] | |];
      intros; [apply Hv | apply Hr]; right; assumption. }
  destruct (A a st I (vac_in_false a Va) Ra) as [s1 [-> I1]].
  destruct (B b s1 I1 (vac_in_false b Vb) Rb) as [s2 [-> _]]. eexists; reflexivity.
Qed.

(* ------------------------------------------------------------------------------- histories -- *)
Definition optInv (s : option mcstate) : Prop := match s with Some st => Inv st | None => True end.

Lemma step_optInv s x : optInv s -> optInv (Sampler.step K sd s x).
Proof.
  intro I. destruct x as [o|a b]; cbn [Sampler.step].
  - destruct (start o) as [st|] eqn:S; cbn [optInv]; [|exact Logic.I]. apply (start_Inv o st S).
  - destruct s as [st|]; [|exact Logic.I]. destruct (update st a b) as [st'|] eqn:U; cbn [optInv]; [|exact Logic.I].
    apply (update_Inv st a b st' I U).
Qed.

Lemma fold_step_optInv ops : forall s, optInv s -> optInv (fold_left (Sampler.step K sd) ops s).
Proof. induction ops as [|x ops IH]; intros s I; cbn [fold_left]; [exact I | apply IH, step_optInv, I]. Qed.

Theorem run_Inv o0 ops st : Sampler.run K sd o0 ops = Some st -> Inv st.
Proof.
  unfold Sampler.run. intro H.
  assert (I : optInv (fold_left (Sampler.step K sd) ops (start o0))).
  { apply fold_step_optInv. destruct (start o0) as [s0|] eqn:S; cbn [optInv]; [apply (start_Inv o0 s0 S) | exact Logic.I]. }
  rewrite H in I. exact I.
Qed.

(* observations depend on (occ, clustercount) only *)
Lemma E_same s t : cc s = cc t -> E s = E t.
Proof. unfold Sampler.E. intros ->. reflexivity. Qed.

Lemma deltaE_same s t a b : occ s = occ t -> cc s = cc t -> deltaE_trial s a b = deltaE_trial t a b.
Proof.
  intros Ho Hc. unfold Sampler.deltaE_trial, Sampler.in_range, Sampler.trial_dict. rewrite Ho.
  replace (Sampler.trial_occ K sd s) with (Sampler.trial_occ K sd t)
    by (unfold Sampler.trial_occ; rewrite Ho; reflexivity).
  replace (Sampler.trial_unocc K sd s) with (Sampler.trial_unocc K sd t)
    by (unfold Sampler.trial_unocc; rewrite Ho; reflexivity).
  replace (Sampler.trial_term K sd s) with (Sampler.trial_term K sd t)
    by (unfold Sampler.trial_term; rewrite Hc; reflexivity).
  reflexivity.
Qed.

Lemma transitions_same s t : occ s = occ t -> cc s = cc t -> Sampler.transitions K sd s = Sampler.transitions K sd t.
Proof.
  intros Ho Hc. unfold Sampler.transitions. destruct (jumps sd) as [js|]; [|reflexivity]. f_equal.
  generalize O. induction js as [|[i j] js IH]; intro n; cbn [Sampler.trans_loop]; [reflexivity|].
  rewrite Ho, Hc, IH. reflexivity.
Qed.

(* C33, first half: after ANY history the state is the state of a fresh start on the current occupation *)
Theorem history_fresh o0 ops st : Sampler.run K sd o0 ops = Some st ->
  exists st', start (occ st) = Some st' /\ same_state st st' /\
              NoDup (oset st) /\ NoDup (uset st) /\ NoDup (oset st') /\ NoDup (uset st') /\
              E st = E st' /\ (forall a b, deltaE_trial st a b = deltaE_trial st' a b) /\
              Sampler.transitions K sd st = Sampler.transitions K sd st'.
Proof.
  intro H. pose proof (run_Inv o0 ops st H) as I.
  destruct (start_total st I) as [st' S]. exists st'. split; [exact S|].
  destruct (start_Inv _ _ S) as [I' Ho].
  pose proof (Inv_unique st st' I I' (eq_sym Ho)) as SS. split; [exact SS|].
  destruct SS as [So [Sc _]].
  repeat split; try (apply inv_ond; assumption); try (apply inv_und; assumption).
  - apply E_same; exact Sc.
  - intros a b. apply deltaE_same; assumption.
  - apply transitions_same; assumption.
Qed.

(* the two sets and the vacancy partition the sites *)
Theorem partition st : Inv st -> forall i, (i < Nsites)%nat ->
  (In i (oset st) /\ ~ In i (uset st) /\ is_vac i = false) \/
  (~ In i (oset st) /\ In i (uset st) /\ is_vac i = false) \/
  (~ In i (oset st) /\ ~ In i (uset st) /\ is_vac i = true).
Proof.
  intros I i Hi. destruct (inv_occ st I) as [_ V2]. rewrite (inv_oset st I), (inv_uset st I).
  destruct (V2 i ltac:(rewrite (inv_len st I); exact Hi)) as [[[H|H] V]|[V [H0 H1]]].
  - right; left. repeat split; try assumption. intros [_ ?]; lia.
  - left. repeat split; try assumption. intros [_ ?]; lia.
  - right; right. repeat split; try assumption; intros [_ ?]; contradiction.
Qed.


(* the invariant after any history, spelled out *)
Theorem run_invariant o0 ops st : Sampler.run K sd o0 ops = Some st ->
  length (occ st) = Nsites /\
  cc st = cnt_list (occ st) /\
  NoDup (oset st) /\ NoDup (uset st) /\
  (forall i, In i (oset st) <-> ((i < Nsites)%nat /\ nth i (occ st) 2 = 1)) /\
  (forall i, In i (uset st) <-> ((i < Nsites)%nat /\ nth i (occ st) 2 = 0)) /\
  (forall i, (i < Nsites)%nat -> nth i (occ st) 2 = 0 \/ nth i (occ st) 2 = 1 \/ is_vac i = true).
Proof.
  intro H. destruct (run_Inv o0 ops st H) as [L C NO NU O U [V1 V2]].
  split; [exact L|]. split; [exact C|]. split; [exact NO|]. split; [exact NU|]. split; [exact O|]. split; [exact U|].
  intros i Hi. rewrite <- L in Hi. destruct (V2 i Hi) as [[[?|?] _]|[? _]]; auto.
Qed.

(* ------------------------------------------------------------------------------- deltaE_trial -- *)
Fixpoint zsum (f : nat -> Z) (l : list nat) : Z := match l with [] => 0 | i :: r => f i + zsum f r end.

Lemma zsum_ext f g l : (forall i, In i l -> f i = g i) -> zsum f l = zsum g l.
Proof.
  induction l as [|i l IH]; intro H; cbn [zsum]; [reflexivity|].
  rewrite (H i (or_introl eq_refl)), IH; [reflexivity | intros; apply H; right; assumption].
Qed.

Definition oterm (o : list Z) (m i : nat) : Z := if nth i o 2 =? 0 then cnto (row i) m else 0.
Definition uterm (o : list Z) (m i : nat) : Z := if nth i o 2 =? 1 then cnto (row i) m else 0.
(* the (negative of the) change of clustercount[m] that the trial move would make *)
Definition dsem (o : list Z) (a b : list nat) (m : nat) : Z := zsum (oterm o m) a - zsum (uterm o m) b.

Lemma fold_trial_occ st a : forall d m,
  dget (fold_left (Sampler.trial_occ K sd st) a d) m = dget d m + zsum (oterm (occ st) m) a /\
  (NoDup (map fst d) -> NoDup (map fst (fold_left (Sampler.trial_occ K sd st) a d))).
Proof.
  induction a as [|i a IH]; intros d m; cbn [fold_left zsum]; [split; [lia | auto]|].
  destruct (IH (Sampler.trial_occ K sd st d i) m) as [G N]. split.
  - rewrite G. unfold Sampler.trial_occ, oterm. destruct (nth i (occ st) 2 =? 0); [rewrite dget_dadd_all|]; lia.
  - intro H. apply N. unfold Sampler.trial_occ. destruct (nth i (occ st) 2 =? 0); [apply dadd_all_NoDup|]; exact H.
Qed.

Lemma fold_trial_unocc st b : forall d m,
  dget (fold_left (Sampler.trial_unocc K sd st) b d) m = dget d m - zsum (uterm (occ st) m) b /\
  (NoDup (map fst d) -> NoDup (map fst (fold_left (Sampler.trial_unocc K sd st) b d))).
Proof.
  induction b as [|i b IH]; intros d m; cbn [fold_left zsum]; [split; [lia | auto]|].
  destruct (IH (Sampler.trial_unocc K sd st d i) m) as [G N]. split.
  - rewrite G. unfold Sampler.trial_unocc, uterm. destruct (nth i (occ st) 2 =? 1); [rewrite dget_dadd_all|]; lia.
  - intro H. apply N. unfold Sampler.trial_unocc. destruct (nth i (occ st) 2 =? 1); [apply dadd_all_NoDup|]; exact H.
Qed.

Lemma trial_dict_spec st a b :
  NoDup (map fst (Sampler.trial_dict K sd st a b)) /\
  forall m, dget (Sampler.trial_dict K sd st a b) m = dsem (occ st) a b m.
Proof.
  unfold Sampler.trial_dict, dsem. split.
  - apply fold_trial_unocc; [exact O|]. apply fold_trial_occ; [exact O|]. constructor.
  - intro m. rewrite (proj1 (fold_trial_unocc st b _ m)), (proj1 (fold_trial_occ st a _ m)). cbn [dget]. lia.
Qed.

Lemma fold_occupy_cc : forall a st st', NoDup a ->
  fold_left (Sampler.occupy K sd) a (Some st) = Some st' ->
  length (cc st') = length (cc st) /\ length (occ st') = length (occ st) /\
  (forall m, (m < length (cc st))%nat -> nth m (cc st') 0 = nth m (cc st) 0 - zsum (oterm (occ st) m) a) /\
  (forall j, ~ In j a -> nth j (occ st') 2 = nth j (occ st) 2).
Proof.
  induction a as [|i a IH]; intros st st' ND H; cbn [fold_left] in H.
  - inversion H; subst. cbn [zsum]. repeat split; intros; lia.
  - inversion ND as [|? ? Hi Ha]; subst.
    destruct (Sampler.occupy K sd (Some st) i) as [s1|] eqn:O1; [|rewrite fold_occupy_None in H; discriminate].
    destruct (IH s1 st' Ha H) as [Lc [Lo [C Oc]]]; clear IH.
    cbn [Sampler.occupy] in O1. destruct (Nat.leb_spec (length (occ st)) i) as [|Hr]; [discriminate|].
    destruct (Z.eqb_spec (nth i (occ st) 2) 0) as [Oi|Oi].
    + destruct (set_remove i (uset st)) as [u'|]; [|discriminate]. inversion O1; subst; clear O1.
      cbn [occ cc] in *. rewrite bump_all_length in Lc, C. rewrite upd_length in Lo.
      split; [exact Lc|]. split; [exact Lo|]. split.
      * intros m Hm. rewrite (C m Hm), nth_bump_all by exact Hm. cbn [zsum].
        replace (oterm (occ st) m i) with (cnto (row i) m) by (unfold oterm; rewrite Oi; reflexivity).
        rewrite (zsum_ext (oterm (upd (occ st) i 1) m) (oterm (occ st) m) a); [lia|].
        intros j Hj. unfold oterm. rewrite nth_upd_neq; [reflexivity | intro; subst; contradiction].
      * intros j Hj. rewrite Oc by (intro; apply Hj; right; assumption).
        apply nth_upd_neq. intro; subst; apply Hj; left; reflexivity.
    + inversion O1; subst; clear O1. split; [exact Lc|]. split; [exact Lo|]. split.
      * intros m Hm. rewrite (C m Hm). cbn [zsum].
        replace (oterm (occ s1) m i) with 0; [lia|]. unfold oterm. destruct (Z.eqb_spec (nth i (occ s1) 2) 0); [contradiction | reflexivity].
      * intros j Hj. apply Oc. intro; apply Hj; right; assumption.
Qed.

Lemma fold_unoccupy_cc : forall a st st', NoDup a ->
  fold_left (Sampler.unoccupy K sd) a (Some st) = Some st' ->
  length (cc st') = length (cc st) /\ length (occ st') = length (occ st) /\
  (forall m, (m < length (cc st))%nat -> nth m (cc st') 0 = nth m (cc st) 0 + zsum (uterm (occ st) m) a) /\
  (forall j, ~ In j a -> nth j (occ st') 2 = nth j (occ st) 2).
Proof.
  induction a as [|i a IH]; intros st st' ND H; cbn [fold_left] in H.
  - inversion H; subst. cbn [zsum]. repeat split; intros; lia.
  - inversion ND as [|? ? Hi Ha]; subst.
    destruct (Sampler.unoccupy K sd (Some st) i) as [s1|] eqn:O1; [|rewrite fold_unoccupy_None in H; discriminate].
    destruct (IH s1 st' Ha H) as [Lc [Lo [C Oc]]]; clear IH.
    cbn [Sampler.unoccupy] in O1. destruct (Nat.leb_spec (length (occ st)) i) as [|Hr]; [discriminate|].
    destruct (Z.eqb_spec (nth i (occ st) 2) 1) as [Oi|Oi].
    + destruct (set_remove i (oset st)) as [u'|]; [|discriminate]. inversion O1; subst; clear O1.
      cbn [occ cc] in *. rewrite bump_all_length in Lc, C. rewrite upd_length in Lo.
      split; [exact Lc|]. split; [exact Lo|]. split.
      * intros m Hm. rewrite (C m Hm), nth_bump_all by exact Hm. cbn [zsum].
        replace (uterm (occ st) m i) with (cnto (row i) m) by (unfold uterm; rewrite Oi; reflexivity).
        rewrite (zsum_ext (uterm (upd (occ st) i 0) m) (uterm (occ st) m) a); [lia|].
        intros j Hj. unfold uterm. rewrite nth_upd_neq; [reflexivity | intro; subst; contradiction].
      * intros j Hj. rewrite Oc by (intro; apply Hj; right; assumption).
        apply nth_upd_neq. intro; subst; apply Hj; left; reflexivity.
    + inversion O1; subst; clear O1. split; [exact Lc|]. split; [exact Lo|]. split.
      * intros m Hm. rewrite (C m Hm). cbn [zsum].
        replace (uterm (occ s1) m i) with 0; [lia|]. unfold uterm. destruct (Z.eqb_spec (nth i (occ s1) 2) 1); [contradiction | reflexivity].
      * intros j Hj. apply Oc. intro; apply Hj; right; assumption.
Qed.

(* duplicate-free, disjoint argument lists: update changes every count by exactly -dsem *)
Lemma update_cc st a b st' : NoDup a -> NoDup b -> (forall i, In i a -> ~ In i b) ->
  update st a b = Some st' ->
  length (cc st') = length (cc st) /\
  forall m, (m < length (cc st))%nat -> nth m (cc st') 0 = nth m (cc st) 0 - dsem (occ st) a b m.
Proof.
  intros Na Nb D H. unfold Sampler.update in H.
  destruct (Sampler.vac_in K sd a || Sampler.vac_in K sd b)%bool; [discriminate|].
  destruct (fold_left (Sampler.occupy K sd) a (Some st)) as [s1|] eqn:F1; [|rewrite fold_unoccupy_None in H; discriminate].
  destruct (fold_occupy_cc a st s1 Na F1) as [L1 [_ [C1 O1]]].
  destruct (fold_unoccupy_cc b s1 st' Nb H) as [L2 [_ [C2 _]]].
  split; [lia|]. intros m Hm. rewrite C2 by lia. rewrite C1 by exact Hm. unfold dsem.
  rewrite (zsum_ext (uterm (occ s1) m) (uterm (occ st) m) b); [lia|].
  intros j Hj. unfold uterm. rewrite O1; [reflexivity|]. intro Ha. exact (D j Ha Hj).
Qed.

Lemma sumf_combine_firstn (f : Z * K -> K) : forall n (a : list Z) (b : list K),
  (n <= length a)%nat -> (n <= length b)%nat ->
  sumf f (combine (firstn n a) (firstn n b)) = sumf (fun m => f (nth m a 0%Z, nth m b (r0 K))) (seq O n).
Proof.
  induction n as [|n IH]; intros a b Ha Hb; [reflexivity|].
  destruct a as [|x a]; cbn [length] in Ha; [lia|]. destruct b as [|y b]; cbn [length] in Hb; [lia|].
  cbn [firstn combine sumf seq nth]. rewrite IH by lia. f_equal.
  rewrite <- seq_shift, sumf_map. reflexivity.
Qed.

Lemma E_seq st : length (cc st) = Nint -> (Nenergy sd <= Nint)%nat ->
  E st = sumf (fun m => if nth m (cc st) 0%Z =? 0 then val m else r0 K) (seq O (Nenergy sd)).
Proof.
  intros L N. unfold Sampler.E. rewrite sumf_combine_firstn by (unfold Sampler.Nint in *; lia). reflexivity.
Qed.

(* C33, second half: the trial energy change is the energy change the update produces *)
Theorem deltaE_correct st a b st' dE :
  length (cc st) = Nint -> (Nenergy sd <= Nint)%nat ->
  NoDup a -> NoDup b -> (forall i, In i a -> ~ In i b) ->
  update st a b = Some st' -> deltaE_trial st a b = Some dE ->
  dE = (E st' - E st)%K.
Proof.
  intros L N Na Nb D U T. destruct (update_cc st a b st' Na Nb D U) as [L' C].
  rewrite (E_seq st L N), (E_seq st' (eq_trans L' L) N). rewrite <- sumf_sub.
  unfold Sampler.deltaE_trial in T.
  destruct (Sampler.vac_in K sd a || Sampler.vac_in K sd b)%bool; [discriminate|].
  destruct (negb (Sampler.in_range st a && Sampler.in_range st b)); [discriminate|]. inversion T; subst dE; clear T.
  destruct (trial_dict_spec st a b) as [ND G].
  set (g := fun (m : nat) (c : Z) => Sampler.trial_term K sd st (m, c)).
  rewrite (sumf_ext K (Sampler.trial_term K sd st) (fun mc => g (fst mc) (snd mc)))
    by (intros [m c] _; reflexivity).
  rewrite (sum_dict g (Nenergy sd) _ ND).
  - apply sumf_ext. intros m Hm. apply in_seq in Hm. rewrite G.
    assert (Hm' : (m < length (cc st))%nat) by lia. specialize (C m Hm').
    unfold g, Sampler.trial_term. set (c := dsem (occ st) a b m) in *.
    destruct (Nat.leb_spec (Nenergy sd) m); [lia|].
    destruct (Z.eqb_spec c 0) as [C0|C0].
    + replace (nth m (cc st') 0%Z) with (nth m (cc st) 0%Z) by lia.
      destruct (nth m (cc st) 0%Z =? 0); ring.
    + destruct (Z.eqb_spec (nth m (cc st) 0%Z) 0) as [A|A].
      * destruct (Z.eqb_spec (nth m (cc st') 0%Z) 0); [lia | ring].
      * destruct (Z.eqb_spec (nth m (cc st) 0%Z) c) as [B|B];
          destruct (Z.eqb_spec (nth m (cc st') 0%Z) 0); try lia; ring.
  - intro m. unfold g, Sampler.trial_term. reflexivity.
  - intros m c Hm. unfold g, Sampler.trial_term. destruct (c =? 0); [reflexivity|].
    destruct (Nat.leb_spec (Nenergy sd) m); [reflexivity | lia].
Qed.

End WithRing.

(* ------------------------------------------------------------------------------- witnesses -- *)
(* The hypotheses of deltaE_correct are needed (the code's docstring says so): a site listed twice, or listed
   in both arguments, makes deltaE_trial differ from the energy change of update.                           *)
Definition sdW : static Zring := mkStatic (K:=Zring) [[O]] [5] 1 (-1) None [].
Definition stW : mcstate := mkState [0] [1] [] [O].

Lemma witness_is_reachable : Sampler.start Zring sdW [0] = Some stW.
Proof. reflexivity. Qed.

Theorem deltaE_dup_refuted :
  exists st a b st' dE, NoDup b /\ (forall i, In i a -> ~ In i b) /\ Inv Zring sdW st /\
    Sampler.update Zring sdW st a b = Some st' /\ Sampler.deltaE_trial Zring sdW st a b = Some dE /\
    dE <> (Sampler.E Zring sdW st' - Sampler.E Zring sdW st).
Proof.
  exists stW, [O; O], [], (mkState [1] [0] [O] []), 0.
  split; [constructor|]. split; [intros i _ []|]. split.
  - apply (start_Inv Zring sdW [0] stW). reflexivity.
  - repeat split; try reflexivity. vm_compute. discriminate.
Qed.

Theorem deltaE_overlap_refuted :
  exists st a b st' dE, NoDup a /\ NoDup b /\ Inv Zring sdW st /\
    Sampler.update Zring sdW st a b = Some st' /\ Sampler.deltaE_trial Zring sdW st a b = Some dE /\
    dE <> (Sampler.E Zring sdW st' - Sampler.E Zring sdW st).
Proof.
  exists stW, [O], [O], (mkState [0] [1] [] [O]), 5.
  split; [repeat constructor; intros []|]. split; [repeat constructor; intros []|]. split.
  - apply (start_Inv Zring sdW [0] stW). reflexivity.
  - repeat split; try reflexivity. vm_compute. discriminate.
Qed.

(* non-vacuity: a two-site chain with a pair interaction, a history with a restart, and a swap *)
Definition sdX : static Zring := mkStatic (K:=Zring) [[O; 2%nat]; [1%nat; 2%nat]] [3; 5; 7; 11] 4 (-1) None [].
Example history_example :
  exists st, Sampler.run Zring sdX [0; 1] [OUpdate [O] [1%nat]; OStart [1; 1]; OUpdate [] [O]] = Some st /\
             occ st = [0; 1] /\ cc st = [1; 0; 1; 0] /\ Sampler.E Zring sdX st = 16.
Proof. eexists. split; [reflexivity|]. repeat split. Qed.

Example deltaE_example :
  Sampler.deltaE_trial Zring sdX (mkState [0; 1] [1; 0; 1; 0] [1%nat] [O]) [O] [1%nat] = Some (3 - 5) /\
  Sampler.update Zring sdX (mkState [0; 1] [1; 0; 1; 0] [1%nat] [O]) [O] [1%nat] = Some (mkState [1; 0] [0; 1; 1; 0] [O] [1%nat]).
Proof. split; reflexivity. Qed.
