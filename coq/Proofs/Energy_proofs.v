(* C32: the four cluster-expansion evaluators of Model/Energy.v equal the brute-force energy,
   for every ordered commutative ring of values, every supercell (any index map / periodic
   wrap / site numbering), every list of cluster groups, values, spectator and mobile
   occupations, with or without a vacancy.  No bound on any size. *)
From Coq Require Import List Arith Bool ZArith Lia Ring Permutation.
From Onsager Require Import Base.OrdRing Base.Instances Model.Energy.
Import ListNotations.

(* ------------------------------------------------------------------ list utilities *)
Lemma list_nat_eqb_eq a b : list_nat_eqb a b = true <-> a = b.
Proof.
  revert b; induction a as [|x a IH]; intros [|y b]; cbn [list_nat_eqb]; split; intro H;
    try reflexivity; try discriminate.
  - apply andb_true_iff in H. destruct H as [H1 H2]. apply Nat.eqb_eq in H1. apply IH in H2. subst; reflexivity.
  - injection H as -> ->. rewrite Nat.eqb_refl. cbn. apply IH. reflexivity.
Qed.

Lemma find_key_some t ks m : find_key t ks = Some m -> m < length ks /\ nth m ks [] = t.
Proof.
  revert m; induction ks as [|k ks IH]; intros m H; cbn [find_key] in H; [discriminate|].
  destruct (list_nat_eqb t k) eqn:E.
  - injection H as <-. apply list_nat_eqb_eq in E. subst k. cbn. split; [lia | reflexivity].
  - destruct (find_key t ks) as [m'|] eqn:F; [|discriminate]. injection H as <-.
    destruct (IH m' eq_refl) as [H1 H2]. cbn. split; [lia | exact H2].
Qed.

Lemma insert_nat_perm a l : Permutation (insert_nat a l) (a :: l).
Proof.
  induction l as [|b l IH]; cbn [insert_nat]; [apply Permutation_refl|].
  destruct (Nat.leb a b); [apply Permutation_refl|].
  eapply Permutation_trans; [apply perm_skip; exact IH | apply perm_swap].
Qed.

Lemma isort_perm l : Permutation (isort l) l.
Proof.
  induction l as [|a l IH]; cbn [isort]; [apply Permutation_refl|].
  eapply Permutation_trans; [apply insert_nat_perm | apply perm_skip; exact IH].
Qed.

Lemma forallb_perm {A} (f : A -> bool) l l' : Permutation l l' -> forallb f l = forallb f l'.
Proof.
  induction 1 as [| x l l' _ IH | x y l | l l' l'' _ IH1 _ IH2]; cbn [forallb].
  - reflexivity.
  - rewrite IH; reflexivity.
  - destruct (f x), (f y); reflexivity.
  - rewrite IH1; exact IH2.
Qed.

Lemma memb_In x l : memb x l = true <-> In x l.
Proof.
  unfold memb. rewrite existsb_exists. split.
  - intros [y [Hy E]]. apply Nat.eqb_eq in E. subst; exact Hy.
  - intro H. exists x. split; [exact H | apply Nat.eqb_refl].
Qed.

Lemma length_incr m l : length (incr m l) = length l.
Proof. revert m; induction l as [|c l IH]; intros [|m]; cbn [incr length]; try reflexivity. rewrite IH; reflexivity. Qed.

Lemma nth_incr k m l : nth k (incr m l) 0 = nth k l 0 + (if Nat.eqb k m && Nat.ltb m (length l) then 1 else 0).
Proof.
  revert k m; induction l as [|c l IH]; intros k m.
  - destruct m; cbn [incr length]; destruct k; cbn [nth]; rewrite andb_false_r; reflexivity.
  - destruct m as [|m]; cbn [incr].
    + destruct k as [|k]; cbn [nth length Nat.eqb andb].
      * cbn. lia.
      * lia.
    + destruct k as [|k]; cbn [nth length Nat.eqb andb].
      * lia.
      * rewrite IH. change (Nat.ltb (S m) (S (length l))) with (Nat.ltb m (length l)). reflexivity.
Qed.

Lemma length_count_site ms cc : length (count_site cc ms) = length cc.
Proof.
  unfold count_site. revert cc; induction ms as [|m ms IH]; intro cc; cbn [fold_left]; [reflexivity|].
  rewrite IH. apply length_incr.
Qed.

Lemma nth_count_site ms cc k :
  k < length cc -> nth k (count_site cc ms) 0 = nth k cc 0 + count_occ Nat.eq_dec ms k.
Proof.
  unfold count_site. revert cc; induction ms as [|m ms IH]; intros cc Hk; cbn [fold_left count_occ]; [lia|].
  rewrite IH by (rewrite length_incr; exact Hk). rewrite nth_incr.
  destruct (Nat.eq_dec m k) as [E|E].
  - subst m. rewrite Nat.eqb_refl. cbn [andb]. destruct (Nat.ltb_spec k (length cc)); lia.
  - destruct (Nat.eqb_spec k m); [congruence|]. cbn [andb]. lia.
Qed.

Lemma length_app_at n x l : length (app_at n x l) = length l.
Proof. revert n; induction l as [|r l IH]; intros [|n]; cbn [app_at length]; try reflexivity. rewrite IH; reflexivity. Qed.

Lemma nth_app_at i n x l :
  nth i (app_at n x l) [] = if Nat.eqb i n && Nat.ltb n (length l) then nth i l [] ++ [x] else nth i l [].
Proof.
  revert i n; induction l as [|r l IH]; intros i n.
  - destruct n; cbn [app_at length]; rewrite andb_false_r; reflexivity.
  - destruct n as [|n]; cbn [app_at].
    + destruct i as [|i]; cbn [nth length Nat.eqb andb]; reflexivity.
    + destruct i as [|i]; cbn [nth length Nat.eqb andb]; [reflexivity|].
      rewrite IH. change (Nat.ltb (S n) (S (length l))) with (Nat.ltb n (length l)). reflexivity.
Qed.

Lemma length_fold_app_at x t si : length (fold_left (fun si n => app_at n x si) t si) = length si.
Proof. revert si; induction t as [|n t IH]; intro si; cbn [fold_left]; [reflexivity|]. rewrite IH. apply length_app_at. Qed.

Lemma nth_fold_app_at x t si i :
  i < length si ->
  nth i (fold_left (fun si n => app_at n x si) t si) [] = nth i si [] ++ repeat x (count_occ Nat.eq_dec t i).
Proof.
  revert si; induction t as [|n t IH]; intros si Hi; cbn [fold_left count_occ repeat].
  - rewrite app_nil_r. reflexivity.
  - rewrite IH by (rewrite length_app_at; exact Hi). rewrite nth_app_at.
    destruct (Nat.eq_dec n i) as [E|E].
    + subst n. rewrite Nat.eqb_refl. cbn [andb]. destruct (Nat.ltb_spec i (length si)); [|lia].
      rewrite <- app_assoc. reflexivity.
    + destruct (Nat.eqb_spec i n); [congruence|]. cbn [andb]. reflexivity.
Qed.

Lemma count_occ_repeat x k m : count_occ Nat.eq_dec (repeat x k) m = if Nat.eqb x m then k else 0.
Proof.
  induction k as [|k IH]; cbn [repeat count_occ].
  - destruct (Nat.eqb x m); reflexivity.
  - destruct (Nat.eq_dec x m) as [E|E]; rewrite IH.
    + subst. rewrite Nat.eqb_refl. reflexivity.
    + destruct (Nat.eqb_spec x m); [congruence | reflexivity].
Qed.

Lemma list_sum_map_zero {A} (f : A -> nat) l : list_sum (map f l) = 0 <-> (forall a, In a l -> f a = 0).
Proof.
  induction l as [|a l IH].
  - split; [intros _ a [] | reflexivity].
  - change (list_sum (map f (a :: l))) with (f a + list_sum (map f l)). split.
    + intros H b [<-|Hb]; [lia | apply IH; [lia | exact Hb]].
    + intro H. rewrite (H a) by (left; reflexivity). apply IH. intros b Hb. apply H. right; exact Hb.
Qed.

Lemma list_sum_cons a l : list_sum (a :: l) = a + list_sum l.
Proof. reflexivity. Qed.

Lemma fold_left_ext_in {A B} (f g : A -> B -> A) l a :
  (forall a b, In b l -> f a b = g a b) -> fold_left f l a = fold_left g l a.
Proof.
  revert a; induction l as [|b l IH]; intros a H; cbn [fold_left]; [reflexivity|].
  rewrite H by (left; reflexivity). apply IH. intros a' b' Hb. apply H. right; exact Hb.
Qed.

Lemma fold_left_flat_map {A B C} (f : A -> C -> A) (g : B -> list C) l a :
  fold_left f (flat_map g l) a = fold_left (fun a b => fold_left f (g b) a) l a.
Proof.
  revert a; induction l as [|b l IH]; intro a; cbn [flat_map fold_left]; [reflexivity|].
  rewrite fold_left_app. apply IH.
Qed.

Section Proofs.
Variable K : ordring.
Notation "0" := (r0 K). Notation "1" := (r1 K).
Infix "+" := (radd K). Infix "*" := (rmul K).
Add Ring Kring3 : (r_ring K).

Variables S V : Type.
Variable idx : V -> S -> bool * nat.
Variable Rvecs : list V.
Variable vacancy : option nat.
Variable Rvac : V.
Variable vmatch : S -> bool.

Notation cluster := (@cluster S).
Notation rvecs_for := (rvecs_for S V Rvecs vacancy Rvac vmatch).
Notation skipped := (skipped S vacancy vmatch).
Notation isocc := (isocc S V idx).
Notation ofnat := (ofnat K).
Notation size := (size V Rvecs).
Notation occK := (occK K).
Notation mobile_idx := (mobile_idx S V idx).
Notation spec_ok := (spec_ok S V idx).
Notation cev := (cev K).

Implicit Types (cl : cluster) (R : V) (st : cev) (mo so : nat -> Z).

(* ------------------------------------------------------------------ ring-valued counting *)
Lemma ofnat_add a b : ofnat (a + b)%nat = ofnat a + ofnat b.
Proof. induction a as [|a IH]; cbn [Nat.add Energy.ofnat]; [ring | rewrite IH; ring]. Qed.

Lemma occK_and a b : occK (a && b) = occK a * occK b.
Proof. destruct a, b; cbn; ring. Qed.

Lemma prodK_occK {A} (f : A -> bool) l : prodK K (map (fun s => occK (f s)) l) = occK (forallb f l).
Proof.
  induction l as [|a l IH]; cbn [map prodK fold_right forallb]; [reflexivity|].
  fold (prodK K (map (fun s => occK (f s)) l)). rewrite IH. symmetry. apply occK_and.
Qed.

Lemma ofnat_fold_count {A} (p : A -> bool) l c :
  ofnat (fold_left (fun c a => if p a then Datatypes.S c else c) l c) = ofnat c + sumf (fun a => occK (p a)) l.
Proof.
  revert c; induction l as [|a l IH]; intro c; cbn [fold_left sumf]; [ring|].
  rewrite IH. destruct (p a); cbn [Energy.ofnat Energy.occK]; ring.
Qed.

(* np.dot(values, counts ++ [size]) = sum over groups + the empty cluster *)
Lemma dot_split {G} (f : G -> nat) (gs : list G) (vs : list K) z :
  dotK K vs (map f gs ++ [z])
  = sumf (fun gv => snd gv * ofnat (f (fst gv))) (combine gs vs) + ofnat z * nth (length gs) vs 0.
Proof.
  unfold dotK. revert vs; induction gs as [|g gs IH]; intros vs; cbn [map app length].
  - destruct vs as [|v vs]; cbn [combine sumf nth fst snd]; [ring|].
    rewrite combine_nil. cbn [sumf]. ring.
  - destruct vs as [|v vs]; cbn [combine sumf nth fst snd]; [ring|].
    rewrite IH. ring.
Qed.

Section WithOcc.
Variables mo so : nat -> Z.

Notation on t := (forallb (fun n => Z.eqb (mo n) 1) t).

(* all sites occupied  <->  spectator part active and every mobile index occupied *)
Lemma isocc_split cl R :
  forallb (isocc mo so R) (csites cl) = spec_ok so cl R && on (mobile_idx cl R).
Proof.
  unfold Energy.spec_ok, Energy.mobile_idx. induction (csites cl) as [|s l IH]; cbn [forallb flat_map]; [reflexivity|].
  rewrite IH. unfold Energy.isocc. destruct (idx R s) as [[|] n]; cbn [app forallb].
  - destruct (Z.eqb (mo n) 1); cbn [andb]; [reflexivity | rewrite andb_false_r; reflexivity].
  - destruct (Z.eqb (so n) 1); reflexivity.
Qed.

Definition contrib (v : K) cl R : K := if spec_ok so cl R && on (mobile_idx cl R) then v else 0.

Lemma bf_term_contrib v cl R : v * bf_term K S V idx mo so cl R = contrib v cl R.
Proof.
  unfold bf_term, contrib. rewrite prodK_occK, isocc_split.
  destruct (spec_ok so cl R && on (mobile_idx cl R)); cbn; ring.
Qed.

(* ---------------------------------------------------------------- 1. evalcluster *)
Lemma ec_count_bf grp :
  ofnat (ec_count S V idx Rvecs vacancy Rvac vmatch mo so grp) = bf_count K S V idx Rvecs vacancy Rvac vmatch mo so grp.
Proof.
  unfold ec_count, bf_count.
  assert (G : forall c, ofnat (fold_left (fun c cl => fold_left (fun c R => if forallb (isocc mo so R) (csites cl) then Datatypes.S c else c)
                                                    (rvecs_for cl) c) grp c)
                        = ofnat c + sumf (fun cl => sumf (bf_term K S V idx mo so cl) (rvecs_for cl)) grp).
  { induction grp as [|cl grp IH]; intro c; cbn [fold_left sumf]; [ring|].
    rewrite IH, ofnat_fold_count.
    rewrite (sumf_ext K (fun R => occK (forallb (isocc mo so R) (csites cl))) (bf_term K S V idx mo so cl)).
    - ring.
    - intros R _. unfold bf_term. rewrite prodK_occK. reflexivity. }
  rewrite G. cbn [Energy.ofnat]. ring.
Qed.

Theorem counter_brute clusters values :
  E_counter K S V idx Rvecs vacancy Rvac vmatch mo so clusters values
  = Ebrute K S V idx Rvecs vacancy Rvac vmatch mo so clusters values.
Proof.
  unfold E_counter, evalcluster, Ebrute. rewrite dot_split. f_equal.
  apply sumf_ext. intros [g v] _. cbn [fst snd]. rewrite ec_count_bf. reflexivity.
Qed.

(* ---------------------------------------------------------------- 2. expandcluster_matrices *)
Lemma row_spec cl R : row S V idx so cl R = (mobile_idx cl R, spec_ok so cl R).
Proof.
  unfold row, Energy.mobile_idx, Energy.spec_ok.
  assert (G : forall l ind act,
    fold_left (fun ia s => let (mob, n) := idx R s in
                           if mob then (fst ia ++ [n], snd ia) else (fst ia, snd ia && Z.eqb (so n) 1)) l (ind, act)
    = (ind ++ flat_map (fun s => let (mob, n) := idx R s in if mob then [n] else []) l,
       act && forallb (fun s => let (mob, n) := idx R s in if mob then true else Z.eqb (so n) 1) l)).
  { induction l as [|s l IH]; intros ind act; cbn [fold_left flat_map forallb].
    - rewrite app_nil_r, andb_true_r. reflexivity.
    - destruct (idx R s) as [[|] n]; cbn [fst snd]; rewrite IH.
      + rewrite <- app_assoc. reflexivity.
      + cbn [app]. rewrite andb_assoc. reflexivity. }
  rewrite G. reflexivity.
Qed.

Lemma rows_count_clmat cl :
  ofnat (rows_count mo (clmat S V idx Rvecs vacancy Rvac vmatch so cl))
  = sumf (bf_term K S V idx mo so cl) (rvecs_for cl).
Proof.
  unfold rows_count, clmat. induction (rvecs_for cl) as [|R l IH]; cbn [flat_map sumf]; [reflexivity|].
  rewrite filter_app, app_length, ofnat_add, IH. f_equal.
  rewrite row_spec. cbn [fst snd]. unfold bf_term. rewrite prodK_occK, isocc_split.
  destruct (spec_ok so cl R); cbn [andb filter length Energy.ofnat Energy.occK]; [|reflexivity].
  destruct (on (mobile_idx cl R)); cbn [length Energy.ofnat Energy.occK]; ring.
Qed.

Lemma skipped_rvecs cl : skipped cl = true -> rvecs_for cl = [].
Proof. unfold Energy.rvecs_for, Energy.skipped. destruct (cvac cl); [|discriminate]. intros ->. reflexivity. Qed.

Lemma mats_count_bf grp :
  ofnat (mats_count mo (map (clmat S V idx Rvecs vacancy Rvac vmatch so) (filter (fun cl => negb (skipped cl)) grp)))
  = bf_count K S V idx Rvecs vacancy Rvac vmatch mo so grp.
Proof.
  unfold mats_count, bf_count.
  assert (G : forall ms c, ofnat (fold_left (fun c m => (c + rows_count mo m)%nat) ms c)
                           = ofnat c + sumf (fun m => ofnat (rows_count mo m)) ms).
  { induction ms as [|m ms IH]; intro c; cbn [fold_left sumf]; [ring|]. rewrite IH, ofnat_add. ring. }
  rewrite G. cbn [Energy.ofnat]. rewrite sumf_map.
  induction grp as [|cl grp IH]; cbn [filter sumf]; [ring|].
  destruct (skipped cl) eqn:E; cbn [negb].
  - rewrite (skipped_rvecs cl E). cbn [sumf]. rewrite <- IH. ring.
  - cbn [sumf]. rewrite rows_count_clmat.
    replace (sumf (fun a => ofnat (rows_count mo (clmat S V idx Rvecs vacancy Rvac vmatch so a)))
                  (filter (fun cl0 => negb (skipped cl0)) grp))
      with (sumf (fun cl0 => sumf (bf_term K S V idx mo so cl0) (rvecs_for cl0)) grp).
    + ring.
    + rewrite <- IH. ring.
Qed.

Theorem matrices_brute clusters values :
  E_matrices K S V idx Rvecs vacancy Rvac vmatch mo so clusters values
  = Ebrute K S V idx Rvecs vacancy Rvac vmatch mo so clusters values.
Proof.
  unfold E_matrices, expand_matrices, Ebrute. rewrite map_map.
  rewrite (dot_split (fun grp => mats_count mo (map (clmat S V idx Rvecs vacancy Rvac vmatch so)
                                                   (filter (fun cl => negb (skipped cl)) grp)))).
  f_equal. apply sumf_ext. intros [g v] _. cbn [fst snd]. rewrite mats_count_bf. reflexivity.
Qed.

(* ---------------------------------------------------------------- 3. clusterevaluator *)
Variable N : nat.

(* the meaning of an evaluator state: sum of the values of the interactions all of whose sites
   are occupied, plus the constant.  THE REGROUPING LEMMA (sum_group_by) is that every step of
   the de-duplicating construction adds exactly the contribution of the processed cluster image. *)
Definition semB st : K :=
  sumf (fun kv => if on (fst kv) then snd kv else 0) (combine (keys K st) (interact K st)) + e0 K st.

Definition Inv st : Prop :=
  length (interact K st) = length (keys K st) /\
  length (sitei K st) = N /\
  (forall i m, i < N ->
     count_occ Nat.eq_dec (nth i (sitei K st) []) m
     = if Nat.ltb m (length (keys K st)) then count_occ Nat.eq_dec (nth m (keys K st) []) i else O) /\
  (forall t n, In t (keys K st) -> In n t -> n < N /\ vacancy <> Some n).

Lemma length_add_at m v (l : list K) : length (add_at K m v l) = length l.
Proof. revert m; induction l as [|x l IH]; intros [|m]; cbn [add_at length]; try reflexivity. rewrite IH; reflexivity. Qed.

Lemma sem_add_at (f : list nat -> bool) ks : forall m v (ia : list K),
  m < length ks -> length ia = length ks ->
  sumf (fun kv => if f (fst kv) then snd kv else 0) (combine ks (add_at K m v ia))
  = sumf (fun kv => if f (fst kv) then snd kv else 0) (combine ks ia) + (if f (nth m ks []) then v else 0).
Proof.
  induction ks as [|k ks IH]; intros m v ia Hm Hl; cbn [length] in *; [lia|].
  destruct ia as [|x ia]; [discriminate|]. cbn [length] in Hl.
  destruct m as [|m]; cbn [add_at combine sumf fst snd nth].
  - destruct (f k); ring.
  - rewrite IH by lia. ring.
Qed.

Lemma sem_app (f : list nat -> bool) ks : forall (ia : list K) t v,
  length ia = length ks ->
  sumf (fun kv => if f (fst kv) then snd kv else 0) (combine (ks ++ [t]) (ia ++ [v]))
  = sumf (fun kv => if f (fst kv) then snd kv else 0) (combine ks ia) + (if f t then v else 0).
Proof.
  induction ks as [|k ks IH]; intros ia t v Hl; destruct ia as [|x ia]; try discriminate; cbn [app combine sumf fst snd].
  - ring.
  - cbn [length] in Hl. rewrite IH by lia. ring.
Qed.

Hypothesis vac_not_1 : forall v, vacancy = Some v -> mo v <> 1%Z.

Lemma on_isort ms : on (isort ms) = on ms.
Proof. apply forallb_perm. apply isort_perm. Qed.

Lemma has_vac_off t : has_vac vacancy t = true -> on t = false.
Proof.
  unfold has_vac. destruct vacancy as [v|] eqn:E; [|discriminate]. intro H. apply memb_In in H.
  destruct (on t) eqn:F; [|reflexivity]. rewrite forallb_forall in F. specialize (F v H).
  apply Z.eqb_eq in F. exfalso. exact (vac_not_1 v eq_refl F).
Qed.

Lemma step_B value cl R st :
  (forall n, In n (mobile_idx cl R) -> n < N) ->
  Inv st ->
  Inv (cev_step K S V idx vacancy so value cl st R) /\
  semB (cev_step K S V idx vacancy so value cl st R) = semB st + contrib value cl R.
Proof.
  intros Hr HI. pose proof HI as (I1 & I2 & I3 & I4).
  unfold cev_step, contrib. destruct (spec_ok so cl R); cbn [andb].
  2:{ split; [exact HI | ring]. }
  destruct (mobile_idx cl R) as [|n0 ms'] eqn:Ems.
  - (* spectator-only image: constant *)
    split; [exact HI|]. unfold semB. cbn [interact keys e0 forallb]. ring.
  - rewrite <- Ems in *. set (ms := mobile_idx cl R) in *. set (t := isort ms).
    destruct (has_vac vacancy t) eqn:Ev.
    + (* touches the vacancy: dropped; the brute-force term vanishes as well *)
      split; [exact HI|].
      assert (F : on ms = false) by (rewrite <- on_isort; apply has_vac_off; exact Ev).
      rewrite F. ring.
    + destruct (find_key t (keys K st)) as [m|] eqn:Ef.
      * (* seen before: add to the value *)
        destruct (find_key_some _ _ _ Ef) as [Hm Hn].
        split.
        -- unfold Inv. cbn [interact keys sitei e0]. rewrite length_add_at. exact HI.
        -- unfold semB. cbn [interact keys e0]. rewrite sem_add_at by assumption. rewrite Hn.
           unfold t. rewrite on_isort. ring.
      * (* new interaction *)
        split.
        -- unfold Inv. cbn [interact keys sitei e0]. split; [|split; [|split]].
           ++ rewrite !app_length. cbn [length]. lia.
           ++ rewrite length_fold_app_at. exact I2.
           ++ intros i m Hi. rewrite nth_fold_app_at by lia. rewrite count_occ_app, count_occ_repeat.
              rewrite I3 by exact Hi. rewrite app_length. cbn [length]. rewrite I1.
              destruct (Nat.ltb_spec m (length (keys K st))) as [L|L].
              ** destruct (Nat.eqb_spec (length (keys K st)) m); [lia|].
                 destruct (Nat.ltb_spec m (length (keys K st) + 1)); [|lia].
                 rewrite app_nth1 by exact L. lia.
              ** destruct (Nat.eqb_spec (length (keys K st)) m) as [E|E].
                 --- subst m. destruct (Nat.ltb_spec (length (keys K st)) (length (keys K st) + 1)); [|lia].
                     rewrite app_nth2 by lia. rewrite Nat.sub_diag. cbn [nth]. unfold t.
                     rewrite (proj1 (Permutation_count_occ Nat.eq_dec _ _) (isort_perm ms)). lia.
                 --- destruct (Nat.ltb_spec m (length (keys K st) + 1)); [lia | lia].
           ++ intros t' n Ht' Hn. apply in_app_or in Ht'. destruct Ht' as [Ht'|[<-|[]]]; [exact (I4 t' n Ht' Hn)|].
              assert (Hn' : In n ms) by (eapply Permutation_in; [apply isort_perm | exact Hn]).
              split; [apply Hr; exact Hn'|].
              intro Ec. unfold has_vac in Ev. rewrite Ec in Ev.
              assert (memb n t = true) by (apply memb_In; exact Hn). congruence.
        -- unfold semB. cbn [interact keys e0]. rewrite sem_app by exact I1.
           unfold t. rewrite on_isort. ring.
Qed.

(* generic: a fold whose every step preserves Inv and adds c(a) to semB adds the sum *)
Lemma fold_sum {A} (step : cev -> A -> cev) (c : A -> K) l :
  (forall st a, In a l -> Inv st -> Inv (step st a) /\ semB (step st a) = semB st + c a) ->
  forall st, Inv st -> Inv (fold_left step l st) /\ semB (fold_left step l st) = semB st + sumf c l.
Proof.
  induction l as [|a l IH]; intros H st HI; cbn [fold_left sumf].
  - split; [exact HI | ring].
  - destruct (H st a (or_introl eq_refl) HI) as [HI' E'].
    destruct (IH (fun st0 a0 Ha => H st0 a0 (or_intror Ha)) _ HI') as [HI'' E''].
    split; [exact HI''|]. rewrite E'', E'. ring.
Qed.

Definition in_range_cl cl : Prop :=
  forall R s n, In R (rvecs_for cl) -> In s (csites cl) -> idx R s = (true, n) -> n < N.

Lemma mobile_idx_in cl R n : In n (mobile_idx cl R) -> exists s, In s (csites cl) /\ idx R s = (true, n).
Proof.
  unfold Energy.mobile_idx. rewrite in_flat_map. intros [s [Hs Hn]]. exists s. split; [exact Hs|].
  destruct (idx R s) as [[|] k]; [|destruct Hn]. destruct Hn as [->|[]]. reflexivity.
Qed.

Lemma cluster_B value cl st :
  in_range_cl cl -> Inv st ->
  Inv (cev_cluster K S V idx Rvecs vacancy Rvac vmatch so value st cl) /\
  semB (cev_cluster K S V idx Rvecs vacancy Rvac vmatch so value st cl)
  = semB st + sumf (contrib value cl) (rvecs_for cl).
Proof.
  intros Hr HI. unfold cev_cluster. apply fold_sum; [|exact HI].
  intros st0 R HR HI0. apply step_B; [|exact HI0].
  intros n Hn. destruct (mobile_idx_in cl R n Hn) as [s [Hs E]]. exact (Hr R s n HR Hs E).
Qed.

Lemma group_B (gv : list cluster * K) st :
  (forall cl, In cl (fst gv) -> in_range_cl cl) -> Inv st ->
  Inv (cev_group K S V idx Rvecs vacancy Rvac vmatch so st gv) /\
  semB (cev_group K S V idx Rvecs vacancy Rvac vmatch so st gv)
  = semB st + snd gv * bf_count K S V idx Rvecs vacancy Rvac vmatch mo so (fst gv).
Proof.
  intros Hr HI. unfold cev_group.
  destruct (fold_sum (cev_cluster K S V idx Rvecs vacancy Rvac vmatch so (snd gv))
                     (fun cl => sumf (contrib (snd gv) cl) (rvecs_for cl)) (fst gv)) with (st := st) as [HI' E'].
  - intros st0 cl Hcl HI0. apply cluster_B; [apply Hr; exact Hcl | exact HI0].
  - exact HI.
  - split; [exact HI'|]. rewrite E'. f_equal. unfold bf_count. rewrite <- sumf_scal. apply sumf_ext.
    intros cl _. rewrite <- sumf_scal. apply sumf_ext. intros R _. symmetry. apply bf_term_contrib.
Qed.

Lemma nth_repeat_nil {A} i n : nth i (repeat (@nil A) n) [] = [].
Proof. revert i; induction n as [|n IH]; intros [|i]; cbn [repeat nth]; try reflexivity. apply IH. Qed.

Lemma Inv_init clusters values : Inv (cev_init K S V Rvecs N clusters values).
Proof.
  unfold cev_init, Inv. cbn [interact keys sitei e0 length]. split; [|split; [|split]].
  - reflexivity.
  - apply repeat_length.
  - intros i m _. rewrite nth_repeat_nil. reflexivity.
  - intros t n [].
Qed.

Lemma last_nth (l : list K) n : length l = Datatypes.S n -> last l 0 = nth n l 0.
Proof.
  revert n; induction l as [|a l IH]; intros n H; [discriminate|].
  destruct l as [|b l].
  - cbn [length] in H. assert (n = O) by lia. subst. reflexivity.
  - destruct n as [|n]; [cbn [length] in H; lia|].
    change (last (a :: b :: l) 0) with (last (b :: l) 0).
    change (nth (Datatypes.S n) (a :: b :: l) 0) with (nth n (b :: l) 0).
    apply IH. cbn [length] in *. lia.
Qed.

Theorem run_B clusters values :
  in_range S V idx Rvecs vacancy Rvac vmatch N clusters ->
  length values <= Datatypes.S (length clusters) ->
  Inv (cev_run K S V idx Rvecs vacancy Rvac vmatch so N clusters values) /\
  semB (cev_run K S V idx Rvecs vacancy Rvac vmatch so N clusters values)
  = Ebrute K S V idx Rvecs vacancy Rvac vmatch mo so clusters values.
Proof.
  intros Hr Hl. unfold cev_run.
  destruct (fold_sum (cev_group K S V idx Rvecs vacancy Rvac vmatch so)
                     (fun gv => snd gv * bf_count K S V idx Rvecs vacancy Rvac vmatch mo so (fst gv))
                     (combine clusters values)) with (st := cev_init K S V Rvecs N clusters values) as [HI E].
  - intros st gv Hgv HI0. apply group_B; [|exact HI0].
    intros cl Hcl R s n HR Hs Ei. destruct gv as [g v]. apply in_combine_l in Hgv.
    exact (Hr g cl R s n Hgv Hcl HR Hs Ei).
  - apply Inv_init.
  - split; [exact HI|]. rewrite E. unfold Ebrute, semB, cev_init. cbn [interact keys e0 combine sumf].
    destruct (Nat.ltb_spec (length clusters) (length values)) as [L|L].
    + rewrite (last_nth values (length clusters)) by lia. ring.
    + rewrite (nth_overflow values) by lia. ring.
Qed.

(* ---------------------------------------------------------------- evaluation of (siteinteract, interact) *)
Hypothesis occ01 : forall i, i < N -> Some i <> vacancy -> mo i = 0%Z \/ mo i = 1%Z.

Definition cnt (si : list (list nat)) (m : nat) : nat :=
  list_sum (map (fun i => if Z.eqb (mo i) 0 then count_occ Nat.eq_dec (nth i si []) m else O) (seq O (length si))).

Lemma length_start_fold si l cc :
  length (fold_left (fun cc i => if Z.eqb (mo i) 0 then count_site cc (nth i si []) else cc) l cc) = length cc.
Proof.
  revert cc; induction l as [|i l IH]; intro cc; cbn [fold_left]; [reflexivity|].
  rewrite IH. destruct (Z.eqb (mo i) 0); [apply length_count_site | reflexivity].
Qed.

Lemma nth_start_counts L si m : m < L -> nth m (start_counts L si mo) O = cnt si m.
Proof.
  intro Hm. unfold start_counts, cnt.
  assert (G : forall l cc, m < length cc ->
     nth m (fold_left (fun cc i => if Z.eqb (mo i) 0 then count_site cc (nth i si []) else cc) l cc) O
     = (nth m cc O + list_sum (map (fun i => if Z.eqb (mo i) 0 then count_occ Nat.eq_dec (nth i si []) m else O) l))%nat).
  { induction l as [|i l IH]; intros cc Hc; cbn [fold_left map]; [cbn; lia|].
    rewrite list_sum_cons. rewrite IH.
    - destruct (Z.eqb (mo i) 0); [rewrite nth_count_site by exact Hc; lia | lia].
    - destruct (Z.eqb (mo i) 0); [rewrite length_count_site; exact Hc | exact Hc]. }
  rewrite G by (rewrite repeat_length; exact Hm).
  rewrite nth_repeat. reflexivity.
Qed.

Lemma sum_on_nth : forall (cc : list nat) (vs : list K), length cc = length vs ->
  sum_on K cc vs = sumf (fun m => if Nat.eqb (nth m cc O) O then nth m vs 0 else 0) (seq O (length vs)).
Proof.
  unfold sum_on. induction cc as [|c cc IH]; intros [|v vs] Hl; try discriminate; cbn [combine sumf length seq]; [reflexivity|].
  cbn [fst snd nth]. rewrite IH by (cbn [length] in Hl; lia). f_equal.
  rewrite <- seq_shift, sumf_map. apply sumf_ext. intros m _. reflexivity.
Qed.

Lemma combine_sum_nth (f : list nat -> bool) : forall ks (ia : list K), length ia = length ks ->
  sumf (fun kv => if f (fst kv) then snd kv else 0) (combine ks ia)
  = sumf (fun m => if f (nth m ks []) then nth m ia 0 else 0) (seq O (length ks)).
Proof.
  induction ks as [|k ks IH]; intros [|x ia] Hl; try discriminate; cbn [combine sumf length seq]; [reflexivity|].
  cbn [fst snd nth]. rewrite IH by (cbn [length] in Hl; lia). f_equal.
  rewrite <- seq_shift, sumf_map. apply sumf_ext. intros m _. reflexivity.
Qed.

(* counter of interaction m is zero  <->  all of its sites are occupied *)
Lemma cnt_zero_on st m : Inv st -> m < length (keys K st) ->
  Nat.eqb (cnt (sitei K st) m) O = on (nth m (keys K st) []).
Proof.
  intros (I1 & I2 & I3 & I4) Hm.
  assert (Hk : In (nth m (keys K st) []) (keys K st)) by (apply nth_In; exact Hm).
  destruct (on (nth m (keys K st) [])) eqn:F.
  - apply Nat.eqb_eq. unfold cnt. apply list_sum_map_zero. intros i Hi. apply in_seq in Hi. rewrite I2 in Hi.
    destruct (Z.eqb_spec (mo i) 0) as [E|E]; [|reflexivity].
    rewrite I3 by lia. destruct (Nat.ltb_spec m (length (keys K st))); [|lia].
    apply count_occ_not_In. intro Hin. rewrite forallb_forall in F. specialize (F i Hin).
    apply Z.eqb_eq in F. lia.
  - apply Nat.eqb_neq. intro Hz. unfold cnt in Hz. rewrite list_sum_map_zero in Hz.
    assert (on (nth m (keys K st) []) = true); [|congruence].
    apply forallb_forall. intros n Hn. destruct (I4 _ n Hk Hn) as [HnN Hnv].
    destruct (occ01 n HnN (fun E => Hnv (eq_sym E))) as [E0|E1]; [|rewrite E1; reflexivity].
    exfalso. specialize (Hz n). rewrite I2 in Hz. specialize (Hz (proj2 (in_seq N O n) (conj (Nat.le_0_l n) HnN))).
    rewrite E0 in Hz. cbn [Z.eqb] in Hz. rewrite I3 in Hz by exact HnN.
    destruct (Nat.ltb_spec m (length (keys K st))); [|lia].
    apply (proj1 (count_occ_In Nat.eq_dec _ _)) in Hn. lia.
Qed.

Lemma cnt_zero_last st m : Inv st -> length (keys K st) <= m -> cnt (sitei K st) m = O.
Proof.
  intros (I1 & I2 & I3 & I4) Hm. unfold cnt. apply list_sum_map_zero. intros i Hi. apply in_seq in Hi. rewrite I2 in Hi.
  destruct (Z.eqb (mo i) 0); [|reflexivity]. rewrite I3 by lia.
  destruct (Nat.ltb_spec m (length (keys K st))); [lia | reflexivity].
Qed.

Lemma eval_state st : Inv st ->
  sum_on K (start_counts (length (interact K st ++ [e0 K st])) (sitei K st) mo) (interact K st ++ [e0 K st]) = semB st.
Proof.
  intro HI. pose proof HI as (I1 & I2 & I3 & I4).
  rewrite sum_on_nth by (unfold start_counts; rewrite length_start_fold, repeat_length; reflexivity).
  rewrite app_length. cbn [length]. rewrite Nat.add_1_r, seq_S, sumf_app. cbn [sumf Nat.add].
  unfold semB. rewrite combine_sum_nth by exact I1.
  f_equal.
  - rewrite I1. apply sumf_ext. intros m Hm. apply in_seq in Hm.
    rewrite nth_start_counts by lia.
    rewrite cnt_zero_on by (exact HI || lia). rewrite app_nth1 by lia. reflexivity.
  - rewrite nth_start_counts by lia.
    rewrite cnt_zero_last by (exact HI || lia). cbn [Nat.eqb].
    rewrite app_nth2 by lia. rewrite Nat.sub_diag. cbn [nth]. ring.
Qed.

Theorem interact_brute clusters values :
  in_range S V idx Rvecs vacancy Rvac vmatch N clusters ->
  length values <= Datatypes.S (length clusters) ->
  E_interact K S V idx Rvecs vacancy Rvac vmatch so mo N clusters values
  = Ebrute K S V idx Rvecs vacancy Rvac vmatch mo so clusters values.
Proof.
  intros Hr Hl. destruct (run_B clusters values Hr Hl) as [HI E].
  unfold E_interact, clusterevaluator. rewrite <- E. apply eval_state. exact HI.
Qed.

(* ---------------------------------------------------------------- 4. sampler arrays *)
Fixpoint walk (i : nat) (si : list (list nat)) (cc : list nat) : list nat :=
  match si with
  | [] => cc
  | r :: si' => walk (Datatypes.S i) si' (if Z.eqb (mo i) 0 then count_site cc r else cc)
  end.

Lemma walk_seq : forall si i cc,
  walk i si cc = fold_left (fun cc j => if Z.eqb (mo j) 0 then count_site cc (nth (j - i) si []) else cc) (seq i (length si)) cc.
Proof.
  induction si as [|r si IH]; intros i cc; cbn [walk length seq fold_left]; [reflexivity|].
  rewrite IH, Nat.sub_diag. cbn [nth]. apply fold_left_ext_in. intros a j Hj. apply in_seq in Hj.
  replace (j - i) with (Datatypes.S (j - Datatypes.S i)) by lia. reflexivity.
Qed.

Lemma start_counts_walk L si : start_counts L si mo = walk O si (repeat O L).
Proof.
  unfold start_counts. rewrite walk_seq. apply fold_left_ext_in. intros a j _. rewrite Nat.sub_0_r. reflexivity.
Qed.

Lemma firstn_pad w r : map Z.to_nat (firstn (length r) (pad_row w r)) = r.
Proof.
  unfold pad_row. rewrite <- (map_length Z.of_nat r) at 1. rewrite firstn_app, Nat.sub_diag, firstn_all.
  cbn [firstn]. rewrite app_nil_r, map_map. rewrite <- (map_id r) at 2. apply map_ext. intro a. apply Nat2Z.id.
Qed.

Lemma sampler_walk w : forall si i cc,
  sampler_start i mo (map (pad_row w) si) (map (@length nat) si) cc = walk i si cc.
Proof.
  induction si as [|r si IH]; intros i cc; cbn [map sampler_start walk]; [reflexivity|].
  rewrite firstn_pad. apply IH.
Qed.

Lemma walk_all_nil : forall si i cc, (forall r, In r si -> r = []) -> walk i si cc = cc.
Proof.
  induction si as [|r si IH]; intros i cc H; cbn [walk]; [reflexivity|].
  rewrite (H r (or_introl eq_refl)). unfold count_site. cbn [fold_left].
  destruct (Z.eqb (mo i) 0); apply IH; intros r' Hr'; apply H; right; exact Hr'.
Qed.

Lemma maxlen_zero (si : list (list nat)) :
  fold_right Nat.max O (map (@length nat) si) = O -> forall r, In r si -> r = [].
Proof.
  induction si as [|r si IH]; cbn [map fold_right]; intros H r' Hr'; [destruct Hr'|].
  destruct Hr' as [<-|Hr'].
  - destruct r; [reflexivity | cbn [length] in H; lia].
  - apply IH; [lia | exact Hr'].
Qed.

Lemma length_walk : forall si i cc, length (walk i si cc) = length cc.
Proof.
  induction si as [|r si IH]; intros i cc; cbn [walk]; [reflexivity|].
  rewrite IH. destruct (Z.eqb (mo i) 0); [apply length_count_site | reflexivity].
Qed.

Theorem sampler_interact clusters values :
  E_sampler K S V idx Rvecs vacancy Rvac vmatch so mo N clusters values
  = E_interact K S V idx Rvecs vacancy Rvac vmatch so mo N clusters values.
Proof.
  unfold E_sampler, E_interact. destruct (clusterevaluator K S V idx Rvecs vacancy Rvac vmatch so N clusters values) as [si ia].
  assert (G : sampler_start O mo (sampler_array si) (map (@length nat) si) (repeat O (length ia))
              = start_counts (length ia) si mo).
  { rewrite start_counts_walk. unfold sampler_array.
    destruct (Nat.eqb_spec (fold_right Nat.max O (map (@length nat) si)) O) as [E|E].
    - destruct si as [|r si']; cbn [map sampler_start]; [reflexivity|].
      symmetry. apply walk_all_nil. apply maxlen_zero. exact E.
    - apply sampler_walk. }
  rewrite G. rewrite !firstn_all2; [reflexivity | lia |].
  rewrite start_counts_walk, length_walk, repeat_length. lia.
Qed.

End WithOcc.

(* ---------------------------------------------------------------- the property *)
Theorem evaluators_agree (N : nat) (clusters : list (list cluster)) (values : list K) (mo so : nat -> Z) :
  in_range S V idx Rvecs vacancy Rvac vmatch N clusters ->
  length values <= Datatypes.S (length clusters) ->
  valid_occ vacancy N mo ->
  let Eb := Ebrute K S V idx Rvecs vacancy Rvac vmatch mo so clusters values in
  E_counter K S V idx Rvecs vacancy Rvac vmatch mo so clusters values = Eb /\
  E_matrices K S V idx Rvecs vacancy Rvac vmatch mo so clusters values = Eb /\
  E_interact K S V idx Rvecs vacancy Rvac vmatch so mo N clusters values = Eb /\
  E_sampler K S V idx Rvecs vacancy Rvac vmatch so mo N clusters values = Eb.
Proof.
  intros Hr Hl [H01 Hv]. cbn zeta. split; [apply counter_brute|]. split; [apply matrices_brute|].
  assert (E3 := interact_brute mo so N Hv H01 clusters values Hr Hl).
  split; [exact E3|]. rewrite sampler_interact. exact E3.
Qed.

Lemma in_rangeb_sound N clusters :
  in_rangeb S V idx Rvecs vacancy Rvac vmatch N clusters = true ->
  in_range S V idx Rvecs vacancy Rvac vmatch N clusters.
Proof.
  unfold in_rangeb, in_range. intros H grp cl R s n Hg Hc HR Hs E.
  rewrite forallb_forall in H. specialize (H grp Hg).
  rewrite forallb_forall in H. specialize (H cl Hc).
  rewrite forallb_forall in H. specialize (H R HR).
  rewrite forallb_forall in H. specialize (H s Hs).
  rewrite E in H. apply Nat.ltb_lt in H. exact H.
Qed.

Lemma valid_occb_sound N mo : valid_occb vacancy N mo = true -> valid_occ vacancy N mo.
Proof.
  unfold valid_occb, valid_occ. intro H. apply andb_true_iff in H. destruct H as [H1 H2].
  rewrite forallb_forall in H1. split.
  - intros i Hi Hv. specialize (H1 i (proj2 (in_seq N O i) (conj (Nat.le_0_l i) Hi))).
    destruct vacancy as [v|].
    + destruct (Nat.eqb_spec v i) as [E|E]; [subst; congruence|].
      apply orb_true_iff in H1. destruct H1 as [H1|H1]; apply Z.eqb_eq in H1; [left | right]; exact H1.
    + apply orb_true_iff in H1. destruct H1 as [H1|H1]; apply Z.eqb_eq in H1; [left | right]; exact H1.
  - intros v Ev. rewrite Ev in H2. apply negb_true_iff in H2. apply Z.eqb_neq in H2. exact H2.
Qed.

(* the regrouping lemma by its design name: after the de-duplicating construction, the sum over
   the distinct interactions (grouped values) equals the sum over all cluster images *)
Definition sum_group_by := run_B.

End Proofs.

(* ---------------------------------------------------------------- the concrete supercell *)
Theorem concrete_agree (K : ordring) (sc : supercell) clusters (values : list K) (mocc socc : list Z) :
  c_in_range sc clusters = true ->
  length values <= Datatypes.S (length clusters) ->
  c_valid_occ sc mocc = true ->
  c_counter K sc clusters values mocc socc = c_brute K sc clusters values mocc socc /\
  c_Ematrices K sc clusters values mocc socc = c_brute K sc clusters values mocc socc /\
  c_Einteract K sc clusters values mocc socc = c_brute K sc clusters values mocc socc /\
  c_Esampler K sc clusters values mocc socc = c_brute K sc clusters values mocc socc.
Proof.
  intros H1 H2 H3. unfold c_counter, c_Ematrices, c_Einteract, c_Esampler, c_brute.
  apply evaluators_agree; [apply in_rangeb_sound; exact H1 | exact H2 | apply valid_occb_sound; exact H3].
Qed.

(* ---------------------------------------------------------------- non-vacuity *)
(* a ring of 3 cells, one mobile site per cell, sites = offsets, a pair and a point group, a
   vacancy at site 1 with a vacancy pair cluster; values 2, 3, 7 and constant 5 *)
Module Example.
Local Open Scope Z_scope.
Definition idx (R s : nat) : bool * nat := (true, Nat.modulo (R + s) 3).
Definition cls : list (list (@cluster nat)) := [[mkCl None [0; 1]%nat]; [mkCl None [0%nat]]; [mkCl (Some 0%nat) [1%nat]; mkCl (Some 0%nat) [2%nat]]].
Definition vals : list Zring := [2; 3; 7; 5].
Definition mo (n : nat) : Z := nth n [1; -1; 1] 0.
Definition so (n : nat) : Z := 0.
Definition vm (s : nat) := true.

Example ex_hyp : in_rangeb nat nat idx [0; 1; 2]%nat (Some 1%nat) 1%nat vm 3 cls = true
                 /\ valid_occb (Some 1%nat) 3 mo = true /\ (length vals <= Datatypes.S (length cls))%nat.
Proof. vm_compute. repeat split; try reflexivity; try lia. Qed.

Example ex_values :
  Ebrute Zring nat nat idx [0; 1; 2]%nat (Some 1%nat) 1%nat vm mo so cls vals = 37 /\
  E_counter Zring nat nat idx [0; 1; 2]%nat (Some 1%nat) 1%nat vm mo so cls vals = 37 /\
  E_matrices Zring nat nat idx [0; 1; 2]%nat (Some 1%nat) 1%nat vm mo so cls vals = 37 /\
  E_interact Zring nat nat idx [0; 1; 2]%nat (Some 1%nat) 1%nat vm so mo 3 cls vals = 37 /\
  E_sampler Zring nat nat idx [0; 1; 2]%nat (Some 1%nat) 1%nat vm so mo 3 cls vals = 37.
Proof. vm_compute. repeat split; reflexivity. Qed.

(* the hypothesis on the vacancy occupation is needed: with mocc[vacancy] = 1 the evaluators differ *)
Definition mo_bad (n : nat) : Z := nth n [1; 1; 1] 0.
Example ex_vacancy_hyp_needed :
  E_interact Zring nat nat idx [0; 1; 2]%nat (Some 1%nat) 1%nat vm so mo_bad 3 cls vals
  <> Ebrute Zring nat nat idx [0; 1; 2]%nat (Some 1%nat) 1%nat vm mo_bad so cls vals.
Proof. vm_compute. discriminate. Qed.
End Example.
