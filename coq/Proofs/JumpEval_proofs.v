(* Detailed balance of the jump evaluators (Model/JumpEval.v): for every translation structure obeying the
   three laws below, every cluster expansion, half values, KRA values, TS clusters, occupation:
       Q(forward) - Q(reverse, from the final configuration) = E(final) - E(initial).                   *)
From Coq Require Import List ZArith Bool Arith Lia Ring.
From Onsager Require Import Base.OrdRing Base.Instances Model.JumpEval Proofs.Sampler_proofs.
Import ListNotations.
Local Open Scope Z_scope.

(* ------------------------------------------------------------------------------- vectors -- *)
Ltac vsolve := repeat match goal with v : V |- _ => destruct v as [[? ?] ?] end;
               unfold vsub, vadd, vneg, v0; cbn [fst snd]; repeat (f_equal; try lia).

Lemma vadd_assoc a b c : vadd (vadd a b) c = vadd a (vadd b c). Proof. vsolve. Qed.
Lemma vadd_comm a b : vadd a b = vadd b a. Proof. vsolve. Qed.
Lemma vadd_0_r a : vadd a v0 = a. Proof. vsolve. Qed.
Lemma vadd_neg_r a : vadd a (vneg a) = v0. Proof. vsolve. Qed.
Lemma vneg_neg a : vneg (vneg a) = a. Proof. vsolve. Qed.
Lemma vadd_cancel a b : vadd (vadd a b) (vneg b) = a. Proof. vsolve. Qed.
Lemma vadd_cancel2 a b : vadd (vadd a (vneg b)) b = a. Proof. vsolve. Qed.

Lemma vec_step (a s R d : V) : vadd s (vneg a) = d -> vadd R s = vadd (vadd R a) d.
Proof. intros <-. vsolve. Qed.
Lemma vec_flip (a b d : V) : vadd b (vneg a) = d -> vadd a (vneg b) = vneg d.
Proof. intros <-. vsolve. Qed.
Lemma vec_flip' (a b d : V) : vadd a (vneg b) = vneg d -> vadd b (vneg a) = d.
Proof. intro H. apply vec_flip in H. rewrite vneg_neg in H. exact H. Qed.

Lemma vec_ts (Ri d r0 r1 : V) : vadd r1 (vneg r0) = d -> vadd (vadd Ri d) (vneg r1) = vadd Ri (vneg r0).
Proof. intros <-. vsolve. Qed.
Lemma vec_ts2 (Ri r0 r1 : V) : vadd (vadd Ri (vneg r0)) r0 = Ri.
Proof. vsolve. Qed.
Lemma vec_ts3 (Ri d r0 r1 : V) : vadd r1 (vneg r0) = d -> vadd (vadd Ri (vneg r0)) r1 = vadd Ri d.
Proof. intros <-. vsolve. Qed.

Lemma v_eqb_spec a b : reflect (a = b) (v_eqb a b).
Proof.
  destruct a as [[a1 a2] a3], b as [[b1 b2] b3]. unfold v_eqb.
  destruct (Z.eqb_spec a1 b1), (Z.eqb_spec a2 b2), (Z.eqb_spec a3 b3); cbn; constructor; congruence.
Qed.

Lemma cs_eqb_spec a b : reflect (a = b) (cs_eqb a b).
Proof.
  destruct a as [m1 c1 R1], b as [m2 c2 R2]. unfold cs_eqb; cbn [smob sci sR].
  destruct (Bool.eqb_spec m1 m2), (Nat.eqb_spec c1 c2), (v_eqb_spec R1 R2); cbn; constructor; congruence.
Qed.

Lemma cs_eqb_refl a : cs_eqb a a = true.
Proof. destruct (cs_eqb_spec a a); congruence. Qed.

Lemma cs_eqb_sym a b : cs_eqb a b = cs_eqb b a.
Proof. destruct (cs_eqb_spec a b), (cs_eqb_spec b a); congruence. Qed.

(* ------------------------------------------------------------------------------- generic sums -- *)
Section Generic.
Variable K : ordring.
Add Ring Kr3 : (r_ring K).
Notation "0" := (r0 K) : K_scope.
Infix "+" := (radd K) : K_scope. Infix "-" := (rsub K) : K_scope.
Notation "- x" := (ropp K x) : K_scope.
Local Open Scope K_scope.

Lemma sumf_filter {A} (p : A -> bool) (f : A -> K) l :
  sumf f (filter p l) = sumf (fun a => if p a then f a else 0) l.
Proof.
  induction l as [|a l IH]; cbn [filter sumf]; [reflexivity|].
  destruct (p a); cbn [sumf]; rewrite IH; ring.
Qed.

Lemma sumf_pick (phi : nat -> K) k0 n : (k0 < n)%nat ->
  sumf (fun k => if Nat.eqb k k0 then phi k else 0) (seq O n) = phi k0.
Proof.
  intro H. rewrite (sumf_seq_change K (fun k => if Nat.eqb k k0 then phi k else 0) (fun _ => 0) k0).
  - rewrite sumf_zero, Nat.eqb_refl. cbn [Nat.leb andb Nat.add]. destruct (Nat.ltb_spec k0 n); [ring | lia].
  - intros m Hm. destruct (Nat.eqb_spec m k0); [contradiction | reflexivity].
Qed.

Lemma list_as_map_nth {A} (l : list A) d : l = map (fun k => nth k l d) (seq O (length l)).
Proof.
  induction l as [|a l IH]; [reflexivity|]. cbn [length seq map nth]. f_equal.
  rewrite <- seq_shift, map_map. exact IH.
Qed.

Lemma filter_filter {A} (p q : A -> bool) l : filter p (filter q l) = filter (fun x => q x && p x) l.
Proof.
  induction l as [|a l IH]; cbn [filter]; [reflexivity|].
  destruct (q a); cbn [filter andb]; [destruct (p a)|]; rewrite IH; reflexivity.
Qed.

Lemma filter_comm {A} (p q : A -> bool) l : filter p (filter q l) = filter q (filter p l).
Proof.
  rewrite !filter_filter. apply filter_ext. intro a. apply andb_comm.
Qed.

(* a sum with at most one non-zero term, found by `find` *)
Lemma sumf_find {A} (p : A -> bool) (f : A -> K) (l : list A) :
  (length (filter p l) <= 1)%nat ->
  sumf (fun a => if p a then f a else 0) l = match find p l with Some a => f a | None => 0 end.
Proof.
  induction l as [|a l IH]; intro U; cbn [sumf find filter] in *; [reflexivity|].
  destruct (p a) eqn:Pa.
  - cbn [length] in U. rewrite (sumf_ext K _ (fun _ => 0)); [rewrite sumf_zero; ring|].
    intros b Hb. destruct (p b) eqn:Pb; [|reflexivity]. exfalso.
    assert (In b (filter p l)) by (apply filter_In; split; assumption).
    destruct (filter p l); [contradiction | cbn [length] in U; lia].
  - rewrite IH by exact U. ring.
Qed.

Lemma find_none_all {A} (p : A -> bool) l : find p l = None -> forall a, In a l -> p a = false.
Proof. intros H a Ha. apply (find_none p l H a Ha). Qed.

Lemma nodup_key_filter {A} (key : A -> nat) (i : nat) (l : list A) :
  NoDup (map key l) -> (length (filter (fun s => Nat.eqb (key s) i) l) <= 1)%nat.
Proof.
  induction l as [|a l IH]; intro ND; cbn [filter length map] in *; [lia|].
  inversion ND as [|? ? Ha Hl]; subst. destruct (Nat.eqb_spec (key a) i) as [E|E]; [|apply IH; exact Hl].
  cbn [length]. assert (filter (fun s => Nat.eqb (key s) i) l = []) as ->; [|cbn; lia].
  destruct (filter (fun s => Nat.eqb (key s) i) l) as [|b r] eqn:F; [reflexivity|]. exfalso.
  assert (Hb : In b (filter (fun s => Nat.eqb (key s) i) l)) by (rewrite F; left; reflexivity).
  apply filter_In in Hb. destruct Hb as [Hb Kb]. apply Nat.eqb_eq in Kb.
  apply Ha. rewrite E, <- Kb. apply in_map. exact Hb.
Qed.

Definition bvalK (b : bool) (x : K) : K := if b then x else 0.

End Generic.

Lemma forallb_ext_in' {A} (f g : A -> bool) l : (forall a, In a l -> f a = g a) -> forallb f l = forallb g l.
Proof.
  induction l as [|a l IH]; intro H; cbn [forallb]; [reflexivity|].
  rewrite (H a (or_introl eq_refl)), IH; [reflexivity | intros; apply H; right; assumption].
Qed.

Lemma forallb_map' {A B} (h : A -> B) (f : B -> bool) l : forallb f (map h l) = forallb (fun a => f (h a)) l.
Proof. induction l as [|a l IH]; cbn [map forallb]; [reflexivity | rewrite IH; reflexivity]. Qed.

(* ------------------------------------------------------------------------------- translations -- *)
Section DB.
Variable K : ordring.
Add Ring Kr4 : (r_ring K).
Notation "0" := (r0 K) : K_scope.
Infix "+" := (radd K) : K_scope. Infix "-" := (rsub K) : K_scope.
Notation "- x" := (ropp K x) : K_scope.
Local Open Scope K_scope.

Variable tidx : V -> nat.
Variable Rvec : list V.
Variable Nmob Nspec : nat.
Variable socc : nat -> bool.

Notation NT := (length Rvec).

(* the three laws of ClusterSupercell.index / Rveclist *)
Hypothesis T1 : forall R1 R2 T, tidx R1 = tidx R2 -> tidx (vadd R1 T) = tidx (vadd R2 T).
Hypothesis T2 : forall k, (k < NT)%nat -> tidx (nth k Rvec v0) = k.
Hypothesis T3 : forall R, (tidx R < NT)%nat.

Notation gidx := (gidx tidx Nmob Nspec).
Notation isocc := (isocc tidx Nmob Nspec socc).
Notation act := (act tidx Nmob Nspec socc).
Notation bval := (bval K).

Definition rep (R : V) : V := nth (tidx R) Rvec v0.

Lemma tidx_rep R : tidx (rep R) = tidx R.
Proof. unfold rep. apply T2. apply T3. Qed.

Lemma tidx_shift_inj R1 R2 T : tidx (vadd R1 T) = tidx (vadd R2 T) -> tidx R1 = tidx R2.
Proof.
  intro H. apply (T1 _ _ (vneg T)) in H. rewrite !vadd_cancel in H. exact H.
Qed.

Lemma gidx_class R1 R2 s : tidx R1 = tidx R2 -> gidx R1 s = gidx R2 s.
Proof. intro H. unfold JumpEval.gidx. rewrite (T1 R1 R2 (sR s) H). reflexivity. Qed.

Lemma isocc_class m R1 R2 s : tidx R1 = tidx R2 -> isocc m R1 s = isocc m R2 s.
Proof. intro H. unfold JumpEval.isocc. rewrite (gidx_class R1 R2 s H). reflexivity. Qed.

Lemma act_class m l R1 R2 : tidx R1 = tidx R2 -> act m l R1 = act m l R2.
Proof.
  intro H. unfold JumpEval.act. apply forallb_ext_in'. intros s _. apply isocc_class. exact H.
Qed.

Lemma gidx_shift R T s : gidx R (shift T s) = gidx (vadd R T) s.
Proof.
  unfold JumpEval.gidx, shift. cbn [smob sci sR].
  replace (vadd R (vadd (sR s) T)) with (vadd (vadd R T) (sR s)); [reflexivity|].
  rewrite !vadd_assoc. f_equal. apply vadd_comm.
Qed.

Lemma isocc_shift m R T s : isocc m R (shift T s) = isocc m (vadd R T) s.
Proof. unfold JumpEval.isocc. rewrite gidx_shift. reflexivity. Qed.

Lemma act_shift m l R T : act m (map (shift T) l) R = act m l (vadd R T).
Proof.
  unfold JumpEval.act. rewrite forallb_map'. apply forallb_ext_in'. intros s _. apply isocc_shift.
Qed.

(* the sum over the representatives picks the one translation class that puts site (T) on class Rt *)
Lemma sum_Rvec_pick (g : V -> K) (T Rt : V) :
  sumf (fun R => if Nat.eqb (tidx (vadd R T)) (tidx Rt) then g R else 0) Rvec = g (rep (vadd Rt (vneg T))).
Proof.
  rewrite (list_as_map_nth Rvec v0) at 1. rewrite sumf_map.
  set (k0 := tidx (vadd Rt (vneg T))).
  rewrite (sumf_ext K _ (fun k => if Nat.eqb k k0 then g (nth k Rvec v0) else 0)).
  - rewrite sumf_pick by apply T3. reflexivity.
  - intros k Hk. apply in_seq in Hk.
    destruct (Nat.eqb_spec k k0) as [->|N].
    + assert (E : tidx (vadd (nth k0 Rvec v0) T) = tidx Rt).
      { rewrite (T1 (nth k0 Rvec v0) (vadd Rt (vneg T)) T) by (apply T2; apply T3).
        rewrite vadd_cancel2. reflexivity. }
      rewrite E, Nat.eqb_refl. reflexivity.
    + destruct (Nat.eqb_spec (tidx (vadd (nth k Rvec v0) T)) (tidx Rt)) as [E|E]; [|reflexivity].
      exfalso. apply N. unfold k0.
      rewrite <- (T2 k) by lia. apply (tidx_shift_inj _ _ T). rewrite vadd_cancel2. exact E.
Qed.

(* index arithmetic: site index = class * Nmob + basis index *)
Lemma idx_split a b c d n : (b < n)%nat -> (d < n)%nat -> (a * n + b = c * n + d)%nat -> a = c /\ b = d.
Proof.
  intros Hb Hd E.
  assert (A : a = ((a * n + b) / n)%nat) by (apply (Nat.div_unique _ n a b); lia).
  assert (C : c = ((c * n + d) / n)%nat) by (apply (Nat.div_unique _ n c d); lia).
  assert (a = c) by (rewrite A, C, E; reflexivity). subst c. split; [reflexivity | lia].
Qed.

(* Lemma A: a sum over the sites of a cluster that can be centred on basis site c, each placed on class Rs,
   is the sum over ALL instances of the cluster of the sites of the instance that sit on that supercell site *)
Lemma centered_sum (cl : list csite) (c : nat) (Rs : V) (F : csite -> V -> K) :
  (c < Nmob)%nat -> (forall s, In s cl -> smob s = true -> (sci s < Nmob)%nat) ->
  sumf (fun cs => F cs (rep (vadd Rs (vneg (sR cs))))) (centered c cl) =
  sumf (fun R => sumf (fun cs => if smob cs && Nat.eqb (gidx R cs) (tidx Rs * Nmob + c) then F cs R else 0) cl) Rvec.
Proof.
  intros Hc Wf. rewrite sumf_swap. unfold centered. rewrite sumf_filter. apply sumf_ext. intros cs Hcs.
  destruct (smob cs) eqn:M; cbn [andb]; [|rewrite sumf_zero; reflexivity].
  destruct (Nat.eqb_spec (sci cs) c) as [E|E].
  - rewrite <- (sum_Rvec_pick (F cs) (sR cs) Rs). apply sumf_ext. intros R _.
    unfold JumpEval.gidx. rewrite M, E.
    destruct (Nat.eqb_spec (tidx (vadd R (sR cs))) (tidx Rs)) as [E2|E2].
    + rewrite E2, Nat.eqb_refl. reflexivity.
    + destruct (Nat.eqb_spec (tidx (vadd R (sR cs)) * Nmob + c) (tidx Rs * Nmob + c)) as [E3|]; [|reflexivity].
      exfalso. apply E2. apply (idx_split _ _ _ _ Nmob) in E3; [tauto | exact Hc | exact Hc].
  - rewrite (sumf_ext K _ (fun _ => 0)); [rewrite sumf_zero; reflexivity|]. intros R _.
    unfold JumpEval.gidx. rewrite M.
    destruct (Nat.eqb_spec (tidx (vadd R (sR cs)) * Nmob + sci cs) (tidx Rs * Nmob + c)) as [E2|]; [|reflexivity].
    exfalso. apply E. apply (idx_split _ _ _ _ Nmob) in E2; [tauto | apply Wf; assumption | exact Hc].
Qed.


(* a property of translations that only depends on the class holds everywhere once it holds on Rveclist *)
Lemma forall_reps (P : V -> Prop) :
  (forall R R', tidx R = tidx R' -> P R -> P R') -> (forall k, (k < NT)%nat -> P (nth k Rvec v0)) -> forall R, P R.
Proof.
  intros Inv H R. apply (Inv (rep R) R (tidx_rep R)). unfold rep. apply H. apply T3.
Qed.

Lemma inj_from_reps (cl : list csite) :
  (forall k, (k < NT)%nat -> NoDup (map (gidx (nth k Rvec v0)) (filter smob cl))) ->
  forall R, NoDup (map (gidx R) (filter smob cl)).
Proof.
  apply (forall_reps (fun R => NoDup (map (gidx R) (filter smob cl)))).
  intros R R' E H. rewrite (map_ext (gidx R') (gidx R)); [exact H|]. intro s. apply gidx_class. symmetry. exact E.
Qed.

(* ------------------------------------------------------------------------------- one instance -- *)
Definition others (cl : list csite) (cs : csite) : list csite := filter (fun s => negb (cs_eqb s cs)) cl.

Lemma forallb_split {A} (f p : A -> bool) l :
  forallb f l = forallb f (filter p l) && forallb f (filter (fun a => negb (p a)) l).
Proof.
  induction l as [|a l IH]; cbn [forallb filter]; [reflexivity|].
  destruct (p a); cbn [negb forallb]; rewrite IH; destruct (f a); cbn [andb]; try reflexivity;
    destruct (forallb f (filter p l)); reflexivity.
Qed.

Lemma forallb_all_eq (f : csite -> bool) a l : In a l -> forallb f (filter (fun s => cs_eqb s a) l) = f a.
Proof.
  intro H. induction l as [|b l IH]; [destruct H|]. cbn [filter].
  destruct (cs_eqb_spec b a) as [->|N].
  - cbn [forallb]. destruct (in_dec (fun x y => match cs_eqb_spec x y with ReflectT _ e => left e | ReflectF _ n => right n end) a l) as [I|I].
    + rewrite (IH I). destruct (f a); reflexivity.
    + assert (filter (fun s => cs_eqb s a) l = []) as ->.
      { clear - I. induction l as [|c l IHl]; [reflexivity|]. cbn [filter].
        destruct (cs_eqb_spec c a) as [->|]; [exfalso; apply I; left; reflexivity | apply IHl; intro; apply I; right; assumption]. }
      cbn. destruct (f a); reflexivity.
  - apply IH. destruct H as [->|H]; [contradiction | exact H].
Qed.

Lemma act_split m cl a R : In a cl -> act m cl R = isocc m R a && act m (others cl a) R.
Proof.
  intro H. unfold JumpEval.act, others. rewrite (forallb_split _ (fun s => cs_eqb s a) cl).
  rewrite (forallb_all_eq _ a cl H). reflexivity.
Qed.

Lemma act_agree m1 m2 l R :
  (forall s, In s l -> smob s = true -> m1 (gidx R s) = m2 (gidx R s)) -> act m1 l R = act m2 l R.
Proof.
  intro H. unfold JumpEval.act. apply forallb_ext_in'. intros s Hs. unfold JumpEval.isocc.
  destruct (smob s) eqn:M; [apply H; assumption | reflexivity].
Qed.

Section Instance.
Variable mocc : nat -> bool.
Variables i j : nat.
Hypothesis Hi : mocc i = true.
Hypothesis Hj : mocc j = false.
Notation mocc' := (swap_occ mocc i j).

Lemma ij_neq : i <> j. Proof. intro; subst; congruence. Qed.
Lemma mocc'_i : mocc' i = false. Proof. unfold swap_occ. rewrite Nat.eqb_refl. exact Hj. Qed.
Lemma mocc'_j : mocc' j = true.
Proof. unfold swap_occ. destruct (Nat.eqb_spec j i) as [E|_]; [exfalso; apply ij_neq; auto|]. rewrite Nat.eqb_refl. exact Hi. Qed.
Lemma mocc'_other x : x <> i -> x <> j -> mocc' x = mocc x.
Proof. intros A B. unfold swap_occ. destruct (Nat.eqb_spec x i); [contradiction|]. destruct (Nat.eqb_spec x j); [contradiction | reflexivity]. Qed.

Variable cl : list csite.
Variable R : V.
Variable hv : K.
Variables ex_i ex_j : csite -> bool.
Notation key := (gidx R).

Hypothesis ND : NoDup (map key (filter smob cl)).
Hypothesis X1i : forall a, In a cl -> smob a = true -> key a = i -> ex_i a = true ->
                 exists b, In b cl /\ smob b = true /\ key b = j.
Hypothesis X1j : forall b, In b cl -> smob b = true -> key b = j -> ex_j b = true ->
                 exists a, In a cl /\ smob a = true /\ key a = i.
Hypothesis X2 : forall a b, In a cl -> In b cl -> smob a = true -> smob b = true -> key a = i -> key b = j ->
                ex_i a = ex_j b.

Definition pk (x : nat) (s : csite) : bool := smob s && Nat.eqb (key s) x.

Definition Sx (ex : csite -> bool) (x : nat) (m : nat -> bool) (v : K) : K :=
  sumf (fun cs => if pk x cs then (if ex cs then 0 else bval (act m (others cl cs) R) v) else 0) cl.

Lemma pk_unique x : (length (filter (pk x) cl) <= 1)%nat.
Proof.
  unfold pk. rewrite <- (filter_filter (fun s => Nat.eqb (key s) x) smob cl).
  apply nodup_key_filter. exact ND.
Qed.

Lemma key_inj a b : In a cl -> In b cl -> smob a = true -> smob b = true -> key a = key b -> a = b.
Proof.
  intros Ha Hb Ma Mb E.
  pose proof (pk_unique (key a)) as U.
  assert (A : In a (filter (pk (key a)) cl)) by (apply filter_In; split; [exact Ha | unfold pk; rewrite Ma, Nat.eqb_refl; reflexivity]).
  assert (B : In b (filter (pk (key a)) cl)) by (apply filter_In; split; [exact Hb | unfold pk; rewrite Mb, E, Nat.eqb_refl; reflexivity]).
  destruct (filter (pk (key a)) cl) as [|c [|d r]]; cbn [length] in U; [destruct A | | lia].
  destruct A as [<-|[]], B as [<-|[]]. reflexivity.
Qed.

Lemma Sx_find ex x m v :
  Sx ex x m v = match find (pk x) cl with
                | Some cs => if ex cs then 0 else bval (act m (others cl cs) R) v
                | None => 0 end.
Proof. unfold Sx. apply sumf_find. apply pk_unique. Qed.

(* the sites of `others cl a` avoid the site of a *)
Lemma others_key a s : In a cl -> smob a = true -> In s (others cl a) -> smob s = true -> key s <> key a.
Proof.
  intros Ha Ma Hs Ms E. unfold others in Hs. apply filter_In in Hs. destruct Hs as [Hs N].
  assert (s = a) by (apply key_inj; assumption). subst s. rewrite cs_eqb_refl in N. discriminate.
Qed.

Lemma isocc_mob m a : smob a = true -> isocc m R a = m (key a).
Proof. intro M. unfold JumpEval.isocc. rewrite M. reflexivity. Qed.

Theorem instance_balance :
  (Sx ex_i i mocc (- hv) + Sx ex_j j mocc hv) - (Sx ex_j j mocc' (- hv) + Sx ex_i i mocc' hv)
  = bval (act mocc' cl R) (hv + hv) - bval (act mocc cl R) (hv + hv).
Proof.
  rewrite !Sx_find.
  destruct (find (pk i) cl) as [a|] eqn:Fi; destruct (find (pk j) cl) as [b|] eqn:Fj.
  - (* the instance holds both end points *)
    apply find_some in Fi. destruct Fi as [Ha Pa]. apply find_some in Fj. destruct Fj as [Hb Pb].
    unfold pk in Pa, Pb. apply andb_true_iff in Pa. destruct Pa as [Ma Ka]. apply Nat.eqb_eq in Ka.
    apply andb_true_iff in Pb. destruct Pb as [Mb Kb]. apply Nat.eqb_eq in Kb.
    assert (Nab : a <> b) by (intro E; apply ij_neq; rewrite <- Ka, <- Kb, E; reflexivity).
    rewrite (X2 a b Ha Hb Ma Mb Ka Kb).
    assert (A0 : act mocc cl R = false).
    { rewrite (act_split mocc cl b R Hb), (isocc_mob mocc b Mb), Kb, Hj. reflexivity. }
    assert (A1 : act mocc' cl R = false).
    { rewrite (act_split mocc' cl a R Ha), (isocc_mob mocc' a Ma), Ka, mocc'_i. reflexivity. }
    rewrite A0, A1. cbn [JumpEval.bval]. destruct (ex_j b); [ring|].
    assert (Hba : In b (others cl a)).
    { unfold others. apply filter_In. split; [exact Hb|]. destruct (cs_eqb_spec b a) as [E|]; [exfalso; apply Nab; symmetry; exact E | reflexivity]. }
    assert (Hab : In a (others cl b)).
    { unfold others. apply filter_In. split; [exact Ha|]. destruct (cs_eqb_spec a b); [contradiction | reflexivity]. }
    assert (B1 : act mocc (others cl a) R = false).
    { rewrite (act_split mocc _ b R Hba), (isocc_mob mocc b Mb), Kb, Hj. reflexivity. }
    assert (B2 : act mocc' (others cl b) R = false).
    { rewrite (act_split mocc' _ a R Hab), (isocc_mob mocc' a Ma), Ka, mocc'_i. reflexivity. }
    assert (B3 : act mocc (others cl b) R = act mocc' (others cl a) R).
    { rewrite (act_split mocc _ a R Hab), (isocc_mob mocc a Ma), Ka, Hi.
      rewrite (act_split mocc' _ b R Hba), (isocc_mob mocc' b Mb), Kb, mocc'_j. cbn [andb].
      unfold others. rewrite (filter_comm (fun s => negb (cs_eqb s a)) (fun s => negb (cs_eqb s b)) cl).
      apply act_agree. intros s Hs Ms. symmetry. apply mocc'_other.
      - apply filter_In in Hs. destruct Hs as [Hs _]. rewrite <- Ka. apply (others_key a s Ha Ma Hs Ms).
      - apply filter_In in Hs. destruct Hs as [Hs N]. rewrite <- Kb. apply (others_key b s Hb Mb); [|exact Ms].
        unfold others in *. apply filter_In in Hs. destruct Hs as [Hs N2]. apply filter_In. split; assumption. }
    rewrite B1, B2, B3. cbn [JumpEval.bval]. ring.
  - (* only the initial site *)
    apply find_some in Fi. destruct Fi as [Ha Pa]. unfold pk in Pa. apply andb_true_iff in Pa.
    destruct Pa as [Ma Ka]. apply Nat.eqb_eq in Ka.
    assert (NJ : forall s, In s cl -> smob s = true -> key s <> j).
    { intros s Hs Ms E. pose proof (find_none _ _ Fj s Hs) as P. unfold pk in P. rewrite Ms, E, Nat.eqb_refl in P. discriminate. }
    assert (Ex : ex_i a = false).
    { destruct (ex_i a) eqn:E; [|reflexivity]. destruct (X1i a Ha Ma Ka E) as [b [Hb [Mb Kb]]]. exfalso. exact (NJ b Hb Mb Kb). }
    rewrite Ex.
    assert (Ag : act mocc' (others cl a) R = act mocc (others cl a) R).
    { apply act_agree. intros s Hs Ms. apply mocc'_other.
      - rewrite <- Ka. apply (others_key a s Ha Ma Hs Ms).
      - apply NJ; [|exact Ms]. unfold others in Hs. apply filter_In in Hs. tauto. }
    rewrite (act_split mocc cl a R Ha), (isocc_mob mocc a Ma), Ka, Hi.
    rewrite (act_split mocc' cl a R Ha), (isocc_mob mocc' a Ma), Ka, mocc'_i, Ag. cbn [andb].
    destruct (act mocc (others cl a) R); cbn [JumpEval.bval]; ring.
  - (* only the final site *)
    apply find_some in Fj. destruct Fj as [Hb Pb]. unfold pk in Pb. apply andb_true_iff in Pb.
    destruct Pb as [Mb Kb]. apply Nat.eqb_eq in Kb.
    assert (NI : forall s, In s cl -> smob s = true -> key s <> i).
    { intros s Hs Ms E. pose proof (find_none _ _ Fi s Hs) as P. unfold pk in P. rewrite Ms, E, Nat.eqb_refl in P. discriminate. }
    assert (Ex : ex_j b = false).
    { destruct (ex_j b) eqn:E; [|reflexivity]. destruct (X1j b Hb Mb Kb E) as [a [Ha [Ma Ka]]]. exfalso. exact (NI a Ha Ma Ka). }
    rewrite Ex.
    assert (Ag : act mocc' (others cl b) R = act mocc (others cl b) R).
    { apply act_agree. intros s Hs Ms. apply mocc'_other.
      - apply NI; [|exact Ms]. unfold others in Hs. apply filter_In in Hs. tauto.
      - rewrite <- Kb. apply (others_key b s Hb Mb Hs Ms). }
    rewrite (act_split mocc cl b R Hb), (isocc_mob mocc b Mb), Kb, Hj.
    rewrite (act_split mocc' cl b R Hb), (isocc_mob mocc' b Mb), Kb, mocc'_j, Ag. cbn [andb].
    destruct (act mocc (others cl b) R); cbn [JumpEval.bval]; ring.
  - (* neither *)
    assert (Ag : act mocc' cl R = act mocc cl R).
    { apply act_agree. intros s Hs Ms. apply mocc'_other.
      - intro E. pose proof (find_none _ _ Fi s Hs) as P. unfold pk in P. rewrite Ms, E, Nat.eqb_refl in P. discriminate.
      - intro E. pose proof (find_none _ _ Fj s Hs) as P. unfold pk in P. rewrite Ms, E, Nat.eqb_refl in P. discriminate. }
    rewrite Ag. ring.
Qed.

End Instance.


(* ------------------------------------------------------------------------------- assembling -- *)
Lemma act_rest m cl cs Rs :
  act m (rest cl cs) Rs = act m (others cl cs) (rep (vadd Rs (vneg (sR cs)))).
Proof.
  unfold rest. fold (others cl cs). rewrite act_shift. apply act_class. symmetry. apply tidx_rep.
Qed.

Lemma hasm_rest x cl a : smob x = true ->
  (hasm x (rest cl a) = true <->
   exists s, In s cl /\ s <> a /\ smob s = true /\ sci s = sci x /\ vadd (sR s) (vneg (sR a)) = sR x).
Proof.
  intro Mx. unfold hasm, rest. rewrite existsb_exists. split.
  - intros [y [Hy P]]. apply in_map_iff in Hy. destruct Hy as [s [<- Hs]]. apply filter_In in Hs. destruct Hs as [Hs N].
    apply andb_true_iff in P. destruct P as [Ms E]. destruct (cs_eqb_spec x (shift (vneg (sR a)) s)) as [E2|]; [|discriminate].
    exists s. cbn [shift smob] in Ms. repeat split; try assumption.
    + intro; subst s. rewrite cs_eqb_refl in N. discriminate.
    + rewrite E2. reflexivity.
    + rewrite E2. reflexivity.
  - intros [s [Hs [N [Ms [C E]]]]]. exists (shift (vneg (sR a)) s). split.
    + apply in_map. apply filter_In. split; [exact Hs|]. destruct (cs_eqb_spec s a); [contradiction | reflexivity].
    + cbn [shift smob]. rewrite Ms. cbn [andb]. destruct x as [mx cx Rx]. cbn [smob sci sR] in *. subst mx cx Rx.
      unfold cs_eqb, shift. cbn [smob sci sR]. rewrite Ms, Nat.eqb_refl. cbn.
      destruct (v_eqb_spec (vadd (sR s) (vneg (sR a))) (vadd (sR s) (vneg (sR a)))); congruence.
Qed.

Lemma side_as_instances m c other Rs sgn cl hv :
  (c < Nmob)%nat -> (forall s, In s cl -> smob s = true -> (sci s < Nmob)%nat) ->
  side K tidx Nmob Nspec socc m c other Rs sgn (cl, hv) =
  sumf (fun R => Sx cl R (fun cs => hasm other (rest cl cs)) (tidx Rs * Nmob + c) m (sgn hv)) Rvec.
Proof.
  intros Hc Wf. unfold side. cbn [fst snd].
  set (F := fun (cs : csite) (R : V) => if hasm other (rest cl cs) then 0 else bval (act m (others cl cs) R) (sgn hv)).
  transitivity (sumf (fun cs => F cs (rep (vadd Rs (vneg (sR cs))))) (centered c cl)).
  - apply sumf_ext. intros cs _. unfold F. rewrite act_rest. reflexivity.
  - rewrite (centered_sum cl c Rs F Hc Wf). apply sumf_ext. intros R _. unfold Sx, pk, F. reflexivity.
Qed.

(* the site index of basis site c on the class of Rs *)
Lemma gidx_origin Rs c : gidx Rs (mkCS true c v0) = (tidx Rs * Nmob + c)%nat.
Proof. unfold JumpEval.gidx. cbn [smob sci sR]. rewrite vadd_0_r. reflexivity. Qed.

Section Geo.
Variable J : jspec K.
Variable Ri : V.
Notation Rj := (vadd Ri (jdR J)).
Notation i := (tidx Ri * Nmob + jci J)%nat.
Notation j := (tidx Rj * Nmob + jcj J)%nat.
Hypothesis Nij : i <> j.
Hypothesis Wi : (jci J < Nmob)%nat.
Hypothesis Wj : (jcj J < Nmob)%nat.
Variable cl : list csite.
Hypothesis Wf : forall s, In s cl -> smob s = true -> (sci s < Nmob)%nat.
Hypothesis Inj : forall R, NoDup (map (gidx R) (filter smob cl)).

Lemma key_i R a : In a cl -> smob a = true -> gidx R a = i -> tidx (vadd R (sR a)) = tidx Ri /\ sci a = jci J.
Proof.
  intros Ha Ma E. unfold JumpEval.gidx in E. rewrite Ma in E.
  apply (idx_split _ _ _ _ Nmob) in E; [exact E | apply Wf; assumption | exact Wi].
Qed.

Lemma key_j R b : In b cl -> smob b = true -> gidx R b = j -> tidx (vadd R (sR b)) = tidx Rj /\ sci b = jcj J.
Proof.
  intros Hb Mb E. unfold JumpEval.gidx in E. rewrite Mb in E.
  apply (idx_split _ _ _ _ Nmob) in E; [exact E | apply Wf; assumption | exact Wj].
Qed.

Definition exI (cs : csite) : bool := hasm (cs_fin J) (rest cl cs).
Definition exJ (cs : csite) : bool := hasm (cs_ini J) (rest cl cs).

(* a left-out cluster (it contains the other end point at exactly the jump vector) holds both sites *)
Lemma exX1i R a : In a cl -> smob a = true -> gidx R a = i -> exI a = true ->
  exists b, In b cl /\ smob b = true /\ gidx R b = j.
Proof.
  intros Ha Ma Ka E. apply (hasm_rest (cs_fin J) cl a eq_refl) in E.
  destruct E as [s [Hs [N [Ms [C E]]]]]. exists s. split; [exact Hs|]. split; [exact Ms|].
  destruct (key_i R a Ha Ma Ka) as [Ta _]. cbn [cs_fin sci sR] in C, E.
  unfold JumpEval.gidx. rewrite Ms, C, (vec_step _ _ R _ E), (T1 _ _ (jdR J) Ta). reflexivity.
Qed.

Lemma exX1j R b : In b cl -> smob b = true -> gidx R b = j -> exJ b = true ->
  exists a, In a cl /\ smob a = true /\ gidx R a = i.
Proof.
  intros Hb Mb Kb E. apply (hasm_rest (cs_ini J) cl b eq_refl) in E.
  destruct E as [s [Hs [N [Ms [C E]]]]]. exists s. split; [exact Hs|]. split; [exact Ms|].
  destruct (key_j R b Hb Mb Kb) as [Tb _]. cbn [cs_ini sci sR] in C, E.
  unfold JumpEval.gidx. rewrite Ms, C, (vec_step _ _ R _ E), (T1 _ _ (vneg (jdR J)) Tb), vadd_cancel. reflexivity.
Qed.

(* and it is left out on both sides *)
Lemma exX2 R a b : In a cl -> In b cl -> smob a = true -> smob b = true -> gidx R a = i -> gidx R b = j ->
  exI a = exJ b.
Proof.
  intros Ha Hb Ma Mb Ka Kb. apply eq_true_iff_eq.
  destruct (key_i R a Ha Ma Ka) as [Ta Ca]. destruct (key_j R b Hb Mb Kb) as [Tb Cb].
  assert (Nab : a <> b) by (intro E; apply Nij; rewrite <- Ka, <- Kb, E; reflexivity).
  unfold exI, exJ.
  rewrite (hasm_rest (cs_fin J) cl a eq_refl), (hasm_rest (cs_ini J) cl b eq_refl). cbn [cs_fin cs_ini sci sR]. split.
  - intros [s [Hs [N [Ms [C E]]]]].
    assert (Es : s = b).
    { apply (key_inj cl R (Inj R)); try assumption. rewrite Kb. unfold JumpEval.gidx.
      rewrite Ms, C, (vec_step _ _ R _ E), (T1 _ _ (jdR J) Ta). reflexivity. }
    rewrite Es in E, N. exists a. split; [exact Ha|]. split; [exact Nab|]. split; [exact Ma|]. split; [exact Ca|].
    apply vec_flip. exact E.
  - intros [s [Hs [N [Ms [C E]]]]].
    assert (Es : s = a).
    { apply (key_inj cl R (Inj R)); try assumption. rewrite Ka. unfold JumpEval.gidx.
      rewrite Ms, C, (vec_step _ _ R _ E), (T1 _ _ (vneg (jdR J)) Tb), vadd_cancel. reflexivity. }
    rewrite Es in E, N. exists b. split; [exact Hb|]. split; [intro X; apply Nab; symmetry; exact X|]. split; [exact Mb|]. split; [exact Cb|].
    apply vec_flip'. exact E.
Qed.

End Geo.

Section Cluster.
Variable mocc : nat -> bool.
Variable J : jspec K.
Variable Ri : V.
Notation Rj := (vadd Ri (jdR J)).
Notation i := (tidx Ri * Nmob + jci J)%nat.
Notation j := (tidx Rj * Nmob + jcj J)%nat.
Hypothesis Hi : mocc i = true.
Hypothesis Hj : mocc j = false.
Hypothesis Wi : (jci J < Nmob)%nat.
Hypothesis Wj : (jcj J < Nmob)%nat.
Notation mocc' := (swap_occ mocc i j).

Variable cl : list csite.
Variable hv : K.
Hypothesis Wf : forall s, In s cl -> smob s = true -> (sci s < Nmob)%nat.
Hypothesis Inj : forall R, NoDup (map (gidx R) (filter smob cl)).

Lemma cluster_balance :
  (side K tidx Nmob Nspec socc mocc (jci J) (cs_fin J) Ri (ropp K) (cl, hv)
   + side K tidx Nmob Nspec socc mocc (jcj J) (cs_ini J) Rj (fun x => x) (cl, hv))
  - (side K tidx Nmob Nspec socc mocc' (jcj J) (cs_ini J) Rj (ropp K) (cl, hv)
     + side K tidx Nmob Nspec socc mocc' (jci J) (cs_fin J) Ri (fun x => x) (cl, hv))
  = Ecl K tidx Rvec Nmob Nspec socc mocc' (cl, hv) - Ecl K tidx Rvec Nmob Nspec socc mocc (cl, hv).
Proof.
  assert (Nij : i <> j) by (intro E; rewrite E in Hi; rewrite Hi in Hj; discriminate).
  rewrite !side_as_instances by assumption. unfold Ecl. cbn [fst snd].
  rewrite <- !sumf_add, <- !sumf_sub. apply sumf_ext. intros R _.
  apply (instance_balance mocc i j Hi Hj cl R hv).
  - apply Inj.
  - intros a Ha Ma Ka E. apply (exX1i J Ri Wi cl Wf R a Ha Ma Ka E).
  - intros b Hb Mb Kb E. apply (exX1j J Ri Wj cl Wf R b Hb Mb Kb E).
  - intros a b Ha Hb Ma Mb Ka Kb. apply (exX2 J Ri Nij Wi Wj cl Wf Inj R a b Ha Hb Ma Mb Ka Kb).
Qed.

End Cluster.


(* ------------------------------------------------------------------------------- transition-state clusters -- *)
Lemma ts_match_rev (a b : csite) (J : jspec K) : ts_match K a b (jrev J) = ts_match K b a J.
Proof.
  unfold ts_match, jrev. cbn [jci jcj jdR]. unfold vsub.
  destruct (smob a), (smob b); cbn [andb]; try reflexivity.
  destruct (Nat.eqb (sci a) (jcj J)), (Nat.eqb (sci b) (jci J)); cbn [andb]; try reflexivity.
  destruct (v_eqb_spec (vadd (sR b) (vneg (sR a))) (vneg (jdR J))) as [E|E],
           (v_eqb_spec (vadd (sR a) (vneg (sR b))) (jdR J)) as [E2|E2]; try reflexivity; exfalso.
  - apply E2. apply vec_flip'. exact E.
  - apply E. apply vec_flip. exact E2.
Qed.

Lemma ts_match_true (a b : csite) (J : jspec K) : ts_match K a b J = true ->
  smob a = true /\ smob b = true /\ sci a = jci J /\ sci b = jcj J /\ vadd (sR b) (vneg (sR a)) = jdR J.
Proof.
  unfold ts_match, vsub. intro H. repeat (apply andb_true_iff in H; destruct H as [H ?]).
  repeat split; try assumption; try (apply Nat.eqb_eq; assumption).
  destruct (v_eqb_spec (vadd (sR b) (vneg (sR a))) (jdR J)); [assumption | discriminate].
Qed.

Section Main.
Variable mocc : nat -> bool.
Variable J : jspec K.
Variable Ri : V.
Notation Rj := (vadd Ri (jdR J)).
Notation i := (tidx Ri * Nmob + jci J)%nat.
Notation j := (tidx Rj * Nmob + jcj J)%nat.
Hypothesis Hi : mocc i = true.
Hypothesis Hj : mocc j = false.
Hypothesis Wi : (jci J < Nmob)%nat.
Hypothesis Wj : (jcj J < Nmob)%nat.
Notation mocc' := (swap_occ mocc i j).

(* other sites of a TS cluster never sit on its end points (no self-wrapping) *)
Definition ts_inj (ts : tsclust K) : Prop :=
  forall R s, In s (tsoth ts) -> smob s = true -> gidx R s <> gidx R (ts0 ts) /\ gidx R s <> gidx R (ts1 ts).

(* the other sites of a matching TS cluster, placed for the jump, see the same occupation before and after *)
Lemma ts_act_same (a b : csite) (oth : list csite) :
  ts_match K a b J = true ->
  (forall R s, In s oth -> smob s = true -> gidx R s <> gidx R a /\ gidx R s <> gidx R b) ->
  act mocc' oth (vadd Ri (vneg (sR a))) = act mocc oth (vadd Ri (vneg (sR a))).
Proof.
  intros M TI. apply ts_match_true in M. destruct M as [Ma [Mb [Ca [Cb E]]]].
  apply act_agree. intros s Hs Ms. destruct (TI (vadd Ri (vneg (sR a))) s Hs Ms) as [N0 N1].
  apply mocc'_other.
  - intro X. apply N0. rewrite X. unfold JumpEval.gidx. rewrite Ma, Ca, vec_ts2; [reflexivity | exact v0].
  - intro X. apply N1. rewrite X. unfold JumpEval.gidx. rewrite Mb, Cb, (vec_ts3 Ri _ _ _ E). reflexivity.
Qed.

Lemma ts_balance (ts : tsclust K) : ts_inj ts ->
  ts_term K tidx Nmob Nspec socc mocc J Ri true ts = ts_term K tidx Nmob Nspec socc mocc' (jrev J) Rj true ts.
Proof.
  intro TI. unfold ts_term. rewrite !ts_match_rev. cbn [andb].
  assert (A : ts_match K (ts0 ts) (ts1 ts) J = true ->
              act mocc' (map (shift (vneg (sR (ts1 ts)))) (tsoth ts)) Rj = act mocc (map (shift (vneg (sR (ts0 ts)))) (tsoth ts)) Ri).
  { intro M. rewrite !act_shift. pose proof (ts_match_true _ _ _ M) as [_ [_ [_ [_ E]]]].
    rewrite (vec_ts Ri _ _ _ E). apply (ts_act_same (ts0 ts) (ts1 ts)); [exact M|]. intros R s Hs Ms. apply TI; assumption. }
  assert (B : ts_match K (ts1 ts) (ts0 ts) J = true ->
              act mocc' (map (shift (vneg (sR (ts0 ts)))) (tsoth ts)) Rj = act mocc (map (shift (vneg (sR (ts1 ts)))) (tsoth ts)) Ri).
  { intro M. rewrite !act_shift. pose proof (ts_match_true _ _ _ M) as [_ [_ [_ [_ E]]]].
    rewrite (vec_ts Ri _ _ _ E). apply (ts_act_same (ts1 ts) (ts0 ts)); [exact M|]. intros R s Hs Ms.
    destruct (TI R s Hs Ms). split; assumption. }
  destruct (ts_match K (ts0 ts) (ts1 ts) J) eqn:M01; destruct (ts_match K (ts1 ts) (ts0 ts) J) eqn:M10;
    try rewrite (A eq_refl); try rewrite (B eq_refl); ring.
Qed.

Variable CE : list (list csite * K).
Variable TSL : list (tsclust K).
Variable c0 : K.
Hypothesis WfC : forall cl hv s, In (cl, hv) CE -> In s cl -> smob s = true -> (sci s < Nmob)%nat.
Hypothesis InjC : forall cl hv R, In (cl, hv) CE -> NoDup (map (gidx R) (filter smob cl)).
Hypothesis InjT : forall ts, In ts TSL -> ts_inj ts.

(* C34, no vacancy: forward barrier minus the barrier of the reverse jump from the final configuration
   equals the energy of the final configuration minus that of the initial one *)
Theorem detailed_balance :
  Qjump K tidx Nmob Nspec socc mocc CE TSL J Ri - Qjump K tidx Nmob Nspec socc mocc' CE TSL (jrev J) Rj
  = Energy K tidx Rvec Nmob Nspec socc mocc' c0 CE - Energy K tidx Rvec Nmob Nspec socc mocc c0 CE.
Proof.
  unfold Qjump, Energy.
  replace (cs_ini (jrev J)) with (cs_fin J) by (unfold cs_ini, cs_fin, jrev; cbn [jci jcj jdR]; rewrite vneg_neg; reflexivity).
  replace (cs_fin (jrev J)) with (cs_ini J) by reflexivity.
  cbn [jrev jci jcj jdR jkra]. rewrite vadd_cancel.
  rewrite (sumf_ext K (ts_term K tidx Nmob Nspec socc mocc J Ri true) (ts_term K tidx Nmob Nspec socc mocc' (jrev J) Rj true))
    by (intros ts Hts; apply ts_balance; apply InjT; exact Hts).
  assert (S : (sumf (side K tidx Nmob Nspec socc mocc (jci J) (cs_fin J) Ri (ropp K)) CE
               + sumf (side K tidx Nmob Nspec socc mocc (jcj J) (cs_ini J) Rj (fun x => x)) CE)
              - (sumf (side K tidx Nmob Nspec socc mocc' (jcj J) (cs_ini J) Rj (ropp K)) CE
                 + sumf (side K tidx Nmob Nspec socc mocc' (jci J) (cs_fin J) Ri (fun x => x)) CE)
              = sumf (Ecl K tidx Rvec Nmob Nspec socc mocc') CE - sumf (Ecl K tidx Rvec Nmob Nspec socc mocc) CE).
  { rewrite <- !sumf_add, <- !sumf_sub. apply sumf_ext. intros [cl hv] Hc.
    apply (cluster_balance mocc J Ri Hi Hj Wi Wj cl hv).
    - intros s Hs Ms. apply (WfC cl hv s Hc Hs Ms).
    - intro R. apply (InjC cl hv R Hc). }
  set (A1 := sumf (side K tidx Nmob Nspec socc mocc (jci J) (cs_fin J) Ri (ropp K)) CE) in *.
  set (A2 := sumf (side K tidx Nmob Nspec socc mocc (jcj J) (cs_ini J) Rj (fun x => x)) CE) in *.
  set (B1 := sumf (side K tidx Nmob Nspec socc mocc' (jcj J) (cs_ini J) Rj (ropp K)) CE) in *.
  set (B2 := sumf (side K tidx Nmob Nspec socc mocc' (jci J) (cs_fin J) Ri (fun x => x)) CE) in *.
  set (E1 := sumf (Ecl K tidx Rvec Nmob Nspec socc mocc') CE) in *.
  set (E0 := sumf (Ecl K tidx Rvec Nmob Nspec socc mocc) CE) in *.
  set (T := sumf (ts_term K tidx Nmob Nspec socc mocc' (jrev J) Rj true) TSL).
  transitivity ((A1 + A2) - (B1 + B2)); [ring|]. rewrite S. ring.
Qed.

End Main.


(* =============================================================================== with a vacancy == *)
(* occupation seen by the jump interactions of the vacancy sampler: indices go through `mapping`, and the
   vacancy index counts as occupied *)
Definition Tocc (m : nat -> bool) (vac : nat) (mapping : nat -> nat) (y : nat) : bool :=
  Nat.eqb (mapping y) vac || m (mapping y).

Lemma actV_act m vac mapping sites R :
  actV tidx Nmob Nspec socc m vac mapping sites R = act (Tocc m vac mapping) sites R.
Proof. unfold actV, JumpEval.act, JumpEval.isocc, Tocc. apply forallb_ext_in'. intros s _. reflexivity. Qed.

Section InstanceV.
Variables Ti Tj mi mj : nat -> bool.
Variables i j : nat.
Hypothesis Nij : i <> j.
Hypothesis Ti_i : Ti i = true.
Hypothesis Tj_j : Tj j = true.
Hypothesis Tij : Ti j = Tj i.
Hypothesis mi_i : mi i = false.
Hypothesis mj_j : mj j = false.
Hypothesis mi_j : mi j = Ti j.
Hypothesis mj_i : mj i = Tj i.
Hypothesis Oth : forall y, y <> i -> y <> j -> Ti y = mi y /\ Tj y = mi y /\ mj y = mi y.

Variable cl : list csite.
Variable R : V.
Variable hv : K.
Variables ex_i ex_j : csite -> bool.
Notation key := (gidx R).
Hypothesis ND : NoDup (map key (filter smob cl)).
Hypothesis X1i : forall a, In a cl -> smob a = true -> key a = i -> ex_i a = true ->
                 exists b, In b cl /\ smob b = true /\ key b = j.
Hypothesis X1j : forall b, In b cl -> smob b = true -> key b = j -> ex_j b = true ->
                 exists a, In a cl /\ smob a = true /\ key a = i.
Hypothesis X2 : forall a b, In a cl -> In b cl -> smob a = true -> smob b = true -> key a = i -> key b = j ->
                ex_i a = ex_j b.

Definition SV (ex : csite -> bool) (x : nat) (T : nat -> bool) (v : K) : K :=
  sumf (fun cs => if pk R x cs then (if ex cs then 0 else bval (act T cl R) v) else 0) cl.

Lemma SV_find ex x T v :
  SV ex x T v = match find (pk R x) cl with
                | Some cs => if ex cs then 0 else bval (act T cl R) v
                | None => 0 end.
Proof. unfold SV. apply sumf_find. apply (pk_unique cl R ND). Qed.

Theorem instance_balance_V :
  (SV ex_j j Ti (- hv) + SV ex_i i Tj hv) - (SV ex_i i Tj (- hv) + SV ex_j j Ti hv)
  = bval (act mj cl R) (hv + hv) - bval (act mi cl R) (hv + hv).
Proof.
  rewrite !SV_find.
  destruct (find (pk R i) cl) as [a|] eqn:Fi; destruct (find (pk R j) cl) as [b|] eqn:Fj.
  - apply find_some in Fi. destruct Fi as [Ha Pa]. apply find_some in Fj. destruct Fj as [Hb Pb].
    unfold pk in Pa, Pb. apply andb_true_iff in Pa. destruct Pa as [Ma Ka]. apply Nat.eqb_eq in Ka.
    apply andb_true_iff in Pb. destruct Pb as [Mb Kb]. apply Nat.eqb_eq in Kb.
    assert (Nab : a <> b) by (intro E; apply Nij; rewrite <- Ka, <- Kb, E; reflexivity).
    rewrite (X2 a b Ha Hb Ma Mb Ka Kb).
    assert (A0 : act mi cl R = false).
    { rewrite (act_split mi cl a R Ha). unfold JumpEval.isocc. rewrite Ma, Ka, mi_i. reflexivity. }
    assert (A1 : act mj cl R = false).
    { rewrite (act_split mj cl b R Hb). unfold JumpEval.isocc. rewrite Mb, Kb, mj_j. reflexivity. }
    rewrite A0, A1. cbn [JumpEval.bval]. destruct (ex_j b); [ring|].
    assert (Hba : In b (others cl a)).
    { unfold others. apply filter_In. split; [exact Hb|]. destruct (cs_eqb_spec b a) as [E|]; [exfalso; apply Nab; symmetry; exact E | reflexivity]. }
    assert (E : act Ti cl R = act Tj cl R).
    { rewrite (act_split Ti cl a R Ha), (act_split Ti _ b R Hba).
      rewrite (act_split Tj cl a R Ha), (act_split Tj _ b R Hba).
      unfold JumpEval.isocc. rewrite Ma, Mb, Ka, Kb, Ti_i, Tj_j, Tij. cbn [andb]. f_equal.
      apply act_agree. intros s Hs Ms.
      assert (Hs1 : In s (others cl a)) by (unfold others in *; apply filter_In in Hs; tauto).
      assert (Hs2 : In s (others cl b)).
      { unfold others in *. apply filter_In in Hs. destruct Hs as [Hs N]. apply filter_In in Hs. destruct Hs as [Hs _].
        apply filter_In. split; assumption. }
      destruct (Oth (key s)) as [O1 [O2 _]].
      - rewrite <- Ka. apply (others_key cl R ND a s Ha Ma Hs1 Ms).
      - rewrite <- Kb. apply (others_key cl R ND b s Hb Mb Hs2 Ms).
      - rewrite O1, O2. reflexivity. }
    rewrite E. destruct (act Tj cl R); cbn [JumpEval.bval]; ring.
  - (* only the vacancy site i *)
    apply find_some in Fi. destruct Fi as [Ha Pa]. unfold pk in Pa. apply andb_true_iff in Pa.
    destruct Pa as [Ma Ka]. apply Nat.eqb_eq in Ka.
    assert (NJ : forall s, In s cl -> smob s = true -> key s <> j).
    { intros s Hs Ms E. pose proof (find_none _ _ Fj s Hs) as P. unfold pk in P. rewrite Ms, E, Nat.eqb_refl in P. discriminate. }
    assert (Ex : ex_i a = false).
    { destruct (ex_i a) eqn:E; [|reflexivity]. destruct (X1i a Ha Ma Ka E) as [b [Hb [Mb Kb]]]. exfalso. exact (NJ b Hb Mb Kb). }
    rewrite Ex.
    assert (A0 : act mi cl R = false).
    { rewrite (act_split mi cl a R Ha). unfold JumpEval.isocc. rewrite Ma, Ka, mi_i. reflexivity. }
    assert (E : act Tj cl R = act mj cl R).
    { apply act_agree. intros s Hs Ms. destruct (Nat.eq_dec (key s) i) as [Ei|Ni].
      - rewrite Ei. symmetry. exact mj_i.
      - destruct (Oth (key s) Ni (NJ s Hs Ms)) as [_ [O2 O3]]. rewrite O2, O3. reflexivity. }
    rewrite A0, E. destruct (act mj cl R); cbn [JumpEval.bval]; ring.
  - (* only the final site j *)
    apply find_some in Fj. destruct Fj as [Hb Pb]. unfold pk in Pb. apply andb_true_iff in Pb.
    destruct Pb as [Mb Kb]. apply Nat.eqb_eq in Kb.
    assert (NI : forall s, In s cl -> smob s = true -> key s <> i).
    { intros s Hs Ms E. pose proof (find_none _ _ Fi s Hs) as P. unfold pk in P. rewrite Ms, E, Nat.eqb_refl in P. discriminate. }
    assert (Ex : ex_j b = false).
    { destruct (ex_j b) eqn:E; [|reflexivity]. destruct (X1j b Hb Mb Kb E) as [a [Ha [Ma Ka]]]. exfalso. exact (NI a Ha Ma Ka). }
    rewrite Ex.
    assert (A1 : act mj cl R = false).
    { rewrite (act_split mj cl b R Hb). unfold JumpEval.isocc. rewrite Mb, Kb, mj_j. reflexivity. }
    assert (E : act Ti cl R = act mi cl R).
    { apply act_agree. intros s Hs Ms. destruct (Nat.eq_dec (key s) j) as [Ej|Nj].
      - rewrite Ej. symmetry. exact mi_j.
      - destruct (Oth (key s) (NI s Hs Ms) Nj) as [O1 _]. exact O1. }
    rewrite A1, E. destruct (act mi cl R); cbn [JumpEval.bval]; ring.
  - assert (E : act mj cl R = act mi cl R).
    { apply act_agree. intros s Hs Ms. destruct (Oth (key s)) as [_ [_ O3]]; [| |exact O3].
      - intro E. pose proof (find_none _ _ Fi s Hs) as P. unfold pk in P. rewrite Ms, E, Nat.eqb_refl in P. discriminate.
      - intro E. pose proof (find_none _ _ Fj s Hs) as P. unfold pk in P. rewrite Ms, E, Nat.eqb_refl in P. discriminate. }
    rewrite E. ring.
Qed.

End InstanceV.


(* ------------------------------------------------------------------------------- assembling, vacancy -- *)
Lemma SV_ext cl R ex x T T' v : (forall y, T y = T' y) -> SV cl R ex x T v = SV cl R ex x T' v.
Proof.
  intro H. unfold SV. apply sumf_ext. intros cs _. destruct (pk R x cs); [|reflexivity].
  destruct (ex cs); [reflexivity|]. rewrite (act_agree T T' cl R); [reflexivity|]. intros; apply H.
Qed.

Lemma act_ext T T' l R : (forall y, T y = T' y) -> act T l R = act T' l R.
Proof. intro H. apply act_agree. intros; apply H. Qed.

Lemma sideV_as_instances m vac mapping c other Rs sgn cl hv :
  (c < Nmob)%nat -> (forall s, In s cl -> smob s = true -> (sci s < Nmob)%nat) ->
  sideV K tidx Nmob Nspec socc m vac mapping c other Rs sgn (cl, hv) =
  sumf (fun R => SV cl R (fun cs => hasm other (mkCS true (sci cs) v0 :: rest cl cs)) (tidx Rs * Nmob + c)
                    (Tocc m vac mapping) (sgn hv)) Rvec.
Proof.
  intros Hc Wf. unfold sideV. cbn [fst snd].
  set (T := Tocc m vac mapping).
  set (F := fun (cs : csite) (R : V) => if hasm other (mkCS true (sci cs) v0 :: rest cl cs) then 0
                                        else bval (T (tidx Rs * Nmob + c)%nat && act T (others cl cs) R) (sgn hv)).
  transitivity (sumf (fun cs => F cs (rep (vadd Rs (vneg (sR cs))))) (centered c cl)).
  - apply sumf_ext. intros cs Hcs. unfold centered in Hcs. apply filter_In in Hcs. destruct Hcs as [_ P].
    apply andb_true_iff in P. destruct P as [M C]. apply Nat.eqb_eq in C. unfold F. rewrite M.
    destruct (hasm other (mkCS true (sci cs) v0 :: rest cl cs)); [reflexivity|].
    rewrite actV_act. fold T. unfold JumpEval.act at 1. cbn [forallb]. fold (act T (rest cl cs) Rs).
    unfold JumpEval.isocc at 1. cbn [smob]. rewrite gidx_origin, C, act_rest. reflexivity.
  - rewrite (centered_sum cl c Rs F Hc Wf). apply sumf_ext. intros R _. unfold SV. apply sumf_ext. intros cs Hcs.
    unfold pk. destruct (smob cs) eqn:M; cbn [andb]; [|reflexivity].
    destruct (Nat.eqb_spec (gidx R cs) (tidx Rs * Nmob + c)%nat) as [E|]; [|reflexivity].
    unfold F. destruct (hasm other (mkCS true (sci cs) v0 :: rest cl cs)); [reflexivity|].
    rewrite (act_split T cl cs R Hcs). unfold JumpEval.isocc at 1. rewrite M, E. reflexivity.
Qed.

Section MainV.
Variable mocc : nat -> bool.
Variable J : jspec K.
Variable Rv : V.
Notation Rj := (vadd Rv (jdR J)).
Notation i := (tidx Rv * Nmob + jci J)%nat.
Notation j := (tidx Rj * Nmob + jcj J)%nat.
Hypothesis Nij : i <> j.
Hypothesis Wi : (jci J < Nmob)%nat.
Hypothesis Wj : (jcj J < Nmob)%nat.
Notation mocc2 := (swap_occ mocc i j).

Definition idm (x : nat) : nat := x.
Definition revm (a b x : nat) : nat := if Nat.eqb x a then b else if Nat.eqb x b then a else x.
Notation Ti := (Tocc mocc i idm).
Notation Tj := (Tocc mocc2 j idm).
Definition mI (x : nat) : bool := if Nat.eqb x i then false else mocc x.
Definition mJ (x : nat) : bool := if Nat.eqb x j then false else mocc2 x.

Lemma nji : Nat.eqb j i = false. Proof. apply Nat.eqb_neq. intro E. apply Nij. symmetry. exact E. Qed.
Lemma nij : Nat.eqb i j = false. Proof. apply Nat.eqb_neq. exact Nij. Qed.

Lemma mocc2_i : mocc2 i = mocc j. Proof. unfold swap_occ. rewrite Nat.eqb_refl. reflexivity. Qed.
Lemma mocc2_other y : y <> i -> y <> j -> mocc2 y = mocc y.
Proof. intros A B. unfold swap_occ. destruct (Nat.eqb_spec y i); [contradiction|]. destruct (Nat.eqb_spec y j); [contradiction | reflexivity]. Qed.

Lemma Ti_spec y : Ti y = if Nat.eqb y i then true else mocc y.
Proof. unfold Tocc, idm. destruct (Nat.eqb y i); reflexivity. Qed.
Lemma Tj_spec y : Tj y = if Nat.eqb y j then true else if Nat.eqb y i then mocc j else mocc y.
Proof.
  unfold Tocc, idm. destruct (Nat.eqb_spec y j) as [->|N]; [reflexivity|]. cbn [orb].
  destruct (Nat.eqb_spec y i) as [->|N2]; [apply mocc2_i | apply mocc2_other; assumption].
Qed.
(* the exchanged view of sampler i is the plain view of sampler j, and vice versa *)
Lemma Trev_i y : Tocc mocc i (revm i j) y = Tj y.
Proof.
  rewrite Tj_spec. unfold Tocc, revm. destruct (Nat.eqb_spec y i) as [->|N].
  - rewrite nij, nji. reflexivity.
  - destruct (Nat.eqb_spec y j) as [->|N2]; [rewrite Nat.eqb_refl; reflexivity|].
    destruct (Nat.eqb_spec y i); [contradiction | reflexivity].
Qed.
Lemma Trev_j y : Tocc mocc2 j (revm j i) y = Ti y.
Proof.
  rewrite Ti_spec. unfold Tocc, revm. destruct (Nat.eqb_spec y j) as [->|N].
  - rewrite nji, nij. cbn [orb]. apply mocc2_i.
  - destruct (Nat.eqb_spec y i) as [->|N2]; [rewrite Nat.eqb_refl; reflexivity|].
    destruct (Nat.eqb_spec y j); [contradiction|]. cbn [orb]. apply mocc2_other; assumption.
Qed.

Variable cl : list csite.
Variable hv : K.
Hypothesis Wf : forall s, In s cl -> smob s = true -> (sci s < Nmob)%nat.
Hypothesis Inj : forall R, NoDup (map (gidx R) (filter smob cl)).

(* the origin copy of the centre site is never the excluded end point (the two end points differ) *)
Lemma hasm_cons_ini cs l : sci cs = jcj J -> hasm (cs_ini J) (mkCS true (sci cs) v0 :: l) = hasm (cs_ini J) l.
Proof.
  intro C. unfold hasm. cbn [existsb smob andb]. destruct (cs_eqb_spec (cs_ini J) (mkCS true (sci cs) v0)) as [E|]; [|reflexivity].
  exfalso. apply Nij. unfold cs_ini in E. injection E as E1 E2. rewrite C in E1.
  assert (jdR J = v0) by (rewrite <- (vneg_neg (jdR J)), E2; reflexivity).
  rewrite H, vadd_0_r, E1. reflexivity.
Qed.
Lemma hasm_cons_fin cs l : sci cs = jci J -> hasm (cs_fin J) (mkCS true (sci cs) v0 :: l) = hasm (cs_fin J) l.
Proof.
  intro C. unfold hasm. cbn [existsb smob andb]. destruct (cs_eqb_spec (cs_fin J) (mkCS true (sci cs) v0)) as [E|]; [|reflexivity].
  exfalso. apply Nij. unfold cs_fin in E. injection E as E1 E2. rewrite C in E1.
  rewrite E2, vadd_0_r, E1. reflexivity.
Qed.

Lemma cluster_balance_V :
  (sideV K tidx Nmob Nspec socc mocc i idm (jcj J) (cs_ini J) Rj (ropp K) (cl, hv)
   + sideV K tidx Nmob Nspec socc mocc i (revm i j) (jci J) (cs_fin J) Rv (fun x => x) (cl, hv))
  - (sideV K tidx Nmob Nspec socc mocc2 j idm (jci J) (cs_fin J) Rv (ropp K) (cl, hv)
     + sideV K tidx Nmob Nspec socc mocc2 j (revm j i) (jcj J) (cs_ini J) Rj (fun x => x) (cl, hv))
  = Ecl K tidx Rvec Nmob Nspec socc mJ (cl, hv) - Ecl K tidx Rvec Nmob Nspec socc mI (cl, hv).
Proof.
  rewrite !sideV_as_instances by assumption. unfold Ecl. cbn [fst snd].
  rewrite <- !sumf_add, <- !sumf_sub. apply sumf_ext. intros R _.
  rewrite (SV_ext cl R _ _ (Tocc mocc i (revm i j)) Tj) by apply Trev_i.
  rewrite (SV_ext cl R _ _ (Tocc mocc2 j (revm j i)) Ti) by apply Trev_j.
  apply (instance_balance_V Ti Tj mI mJ i j Nij).
  - rewrite Ti_spec, Nat.eqb_refl. reflexivity.
  - rewrite Tj_spec, Nat.eqb_refl. reflexivity.
  - rewrite Ti_spec, Tj_spec, nji, nij, Nat.eqb_refl. reflexivity.
  - unfold mI. rewrite Nat.eqb_refl. reflexivity.
  - unfold mJ. rewrite Nat.eqb_refl. reflexivity.
  - unfold mI. rewrite nji, Ti_spec, nji. reflexivity.
  - unfold mJ. rewrite nij, Tj_spec, nij, Nat.eqb_refl. apply mocc2_i.
  - intros y A B. rewrite Ti_spec, Tj_spec. unfold mI, mJ.
    destruct (Nat.eqb_spec y i); [contradiction|]. destruct (Nat.eqb_spec y j); [contradiction|].
    repeat split; try reflexivity. apply mocc2_other; assumption.
  - apply Inj.
  - intros a Ha Ma Ka E. destruct (key_i J Rv Wi cl Wf R a Ha Ma Ka) as [_ Ca].
    rewrite (hasm_cons_fin a _ Ca) in E. apply (exX1i J Rv Wi cl Wf R a Ha Ma Ka E).
  - intros b Hb Mb Kb E. destruct (key_j J Rv Wj cl Wf R b Hb Mb Kb) as [_ Cb].
    rewrite (hasm_cons_ini b _ Cb) in E. apply (exX1j J Rv Wj cl Wf R b Hb Mb Kb E).
  - intros a b Ha Hb Ma Mb Ka Kb.
    destruct (key_i J Rv Wi cl Wf R a Ha Ma Ka) as [_ Ca]. destruct (key_j J Rv Wj cl Wf R b Hb Mb Kb) as [_ Cb].
    rewrite (hasm_cons_fin a _ Ca), (hasm_cons_ini b _ Cb).
    apply (exX2 J Rv Nij Wi Wj cl Wf Inj R a b Ha Hb Ma Mb Ka Kb).
Qed.

End MainV.


Section FinalV.
Variable mocc : nat -> bool.
Variable J : jspec K.
Variable Rv : V.
Notation Rj := (vadd Rv (jdR J)).
Notation i := (tidx Rv * Nmob + jci J)%nat.
Notation j := (tidx Rj * Nmob + jcj J)%nat.
Hypothesis Nij : i <> j.
Hypothesis Wi : (jci J < Nmob)%nat.
Hypothesis Wj : (jcj J < Nmob)%nat.
Notation mocc2 := (swap_occ mocc i j).

Variable CE : list (list csite * K).
Variable VCE : list (vclust K).
Variable TSL : list (tsclust K).
Variable c0 : K.
Hypothesis WfC : forall cl hv s, In (cl, hv) CE -> In s cl -> smob s = true -> (sci s < Nmob)%nat.
Hypothesis InjC : forall cl hv R, In (cl, hv) CE -> NoDup (map (gidx R) (filter smob cl)).
(* a vacancy cluster does not wrap onto its own vacancy site *)
Hypothesis InjV : forall vc R s, In vc VCE -> In s (voth vc) -> smob s = true ->
                  gidx R s <> gidx R (mkCS true (vci vc) v0).

Definition tsV (m : nat -> bool) (vac : nat) (JJ : jspec K) (R : V) (ts : tsclust K) : K :=
  if ts_match K (ts0 ts) (ts1 ts) JJ
  then bval (actV tidx Nmob Nspec socc m vac (fun x => x) (map (shift (vneg (sR (ts0 ts)))) (tsoth ts)) R) (tsw ts) else 0.

(* the transition-state expansion gives the reverse jump (vacancy at the final site) the same value *)
Hypothesis TSsym : sumf (tsV mocc i J Rv) TSL = sumf (tsV mocc2 j (jrev J) Rj) TSL.

Theorem detailed_balance_V :
  QjumpV K tidx Nmob Nspec socc mocc CE VCE TSL J Rv - QjumpV K tidx Nmob Nspec socc mocc2 CE VCE TSL (jrev J) Rj
  = EnergyV K tidx Rvec Nmob Nspec socc mocc2 c0 CE VCE Rj (jcj J) - EnergyV K tidx Rvec Nmob Nspec socc mocc c0 CE VCE Rv (jci J).
Proof.
  unfold QjumpV, EnergyV, vac_index. cbv zeta. rewrite !gidx_origin. cbn [jrev jci jcj jdR jkra]. rewrite vadd_cancel.
  change (sumf (fun ts : tsclust K => if ts_match K (ts0 ts) (ts1 ts) J
            then bval (actV tidx Nmob Nspec socc mocc i (fun x : nat => x) (map (shift (vneg (sR (ts0 ts)))) (tsoth ts)) Rv) (tsw ts)
            else 0) TSL) with (sumf (tsV mocc i J Rv) TSL).
  change (sumf (fun ts : tsclust K => if ts_match K (ts0 ts) (ts1 ts) (jrev J)
            then bval (actV tidx Nmob Nspec socc mocc2 j (fun x : nat => x) (map (shift (vneg (sR (ts0 ts)))) (tsoth ts)) Rj) (tsw ts)
            else 0) TSL) with (sumf (tsV mocc2 j (jrev J) Rj) TSL).
  rewrite TSsym.
  replace (cs_ini (jrev J)) with (cs_fin J) by (unfold cs_ini, cs_fin, jrev; cbn [jci jcj jdR]; rewrite vneg_neg; reflexivity).
  change (cs_fin (jrev J)) with (cs_ini J).
  change (fun x : nat => if Nat.eqb x i then j else if Nat.eqb x j then i else x) with (revm i j).
  change (fun x : nat => if Nat.eqb x j then i else if Nat.eqb x i then j else x) with (revm j i).
  change (fun x : nat => x) with idm.
  change (fun x : nat => if Nat.eqb x j then false else mocc2 x) with (mJ mocc J Rv).
  change (fun x : nat => if Nat.eqb x i then false else mocc x) with (mI mocc J Rv).
  (* normal clusters *)
  assert (S : (sumf (sideV K tidx Nmob Nspec socc mocc i idm (jcj J) (cs_ini J) Rj (ropp K)) CE
               + sumf (sideV K tidx Nmob Nspec socc mocc i (revm i j) (jci J) (cs_fin J) Rv (fun x => x)) CE)
              - (sumf (sideV K tidx Nmob Nspec socc mocc2 j idm (jci J) (cs_fin J) Rv (ropp K)) CE
                 + sumf (sideV K tidx Nmob Nspec socc mocc2 j (revm j i) (jcj J) (cs_ini J) Rj (fun x => x)) CE)
              = sumf (Ecl K tidx Rvec Nmob Nspec socc (mJ mocc J Rv)) CE - sumf (Ecl K tidx Rvec Nmob Nspec socc (mI mocc J Rv)) CE).
  { rewrite <- !sumf_add, <- !sumf_sub. apply sumf_ext. intros [cl hv] Hc.
    apply (cluster_balance_V mocc J Rv Nij Wi Wj cl hv).
    - intros s Hs Ms. apply (WfC cl hv s Hc Hs Ms).
    - intro R. apply (InjC cl hv R Hc). }
  (* vacancy clusters *)
  assert (Ai : forall vc, In vc VCE -> vci vc = jci J ->
               actV tidx Nmob Nspec socc mocc i idm (voth vc) Rv = act (mI mocc J Rv) (voth vc) Rv /\
               actV tidx Nmob Nspec socc mocc2 j (revm j i) (voth vc) Rv = act (mI mocc J Rv) (voth vc) Rv).
  { intros vc Hvc C. rewrite !actV_act.
    assert (G : forall T, (forall y, y <> i -> T y = mI mocc J Rv y) -> act T (voth vc) Rv = act (mI mocc J Rv) (voth vc) Rv).
    { intros T HT. apply act_agree. intros s Hs Ms. apply HT. intro E. apply (InjV vc Rv s Hvc Hs Ms).
      rewrite gidx_origin, C. exact E. }
    split; apply G; intros y Ny.
    - rewrite Ti_spec. unfold mI. destruct (Nat.eqb_spec y i); [contradiction | reflexivity].
    - rewrite (Trev_j mocc J Rv Nij), Ti_spec. unfold mI. destruct (Nat.eqb_spec y i); [contradiction | reflexivity]. }
  assert (Aj : forall vc, In vc VCE -> vci vc = jcj J ->
               actV tidx Nmob Nspec socc mocc i (revm i j) (voth vc) Rj = act (mJ mocc J Rv) (voth vc) Rj /\
               actV tidx Nmob Nspec socc mocc2 j idm (voth vc) Rj = act (mJ mocc J Rv) (voth vc) Rj).
  { intros vc Hvc C. rewrite !actV_act.
    assert (G : forall T, (forall y, y <> j -> T y = mJ mocc J Rv y) -> act T (voth vc) Rj = act (mJ mocc J Rv) (voth vc) Rj).
    { intros T HT. apply act_agree. intros s Hs Ms. apply HT. intro E. apply (InjV vc Rj s Hvc Hs Ms).
      rewrite gidx_origin, C. exact E. }
    assert (TM : forall y, y <> j -> Tocc mocc2 j idm y = mJ mocc J Rv y).
    { intros y Ny. rewrite (Tj_spec mocc J Rv). unfold mJ. destruct (Nat.eqb_spec y j); [contradiction|].
      destruct (Nat.eqb_spec y i) as [->|N2]; [symmetry; apply mocc2_i | symmetry; apply mocc2_other; assumption]. }
    split; apply G; intros y Ny.
    - rewrite (Trev_i mocc J Rv Nij). apply TM. exact Ny.
    - apply TM. exact Ny. }
  assert (W : (sumf (fun vc : vclust K => if Nat.eqb (vci vc) (jci J)
                       then bval (actV tidx Nmob Nspec socc mocc i idm (voth vc) Rv) (- vhv vc) else 0) VCE
               + sumf (fun vc : vclust K => if Nat.eqb (vci vc) (jcj J)
                       then bval (actV tidx Nmob Nspec socc mocc i (revm i j) (voth vc) Rj) (vhv vc) else 0) VCE)
              - (sumf (fun vc : vclust K => if Nat.eqb (vci vc) (jcj J)
                       then bval (actV tidx Nmob Nspec socc mocc2 j idm (voth vc) Rj) (- vhv vc) else 0) VCE
                 + sumf (fun vc : vclust K => if Nat.eqb (vci vc) (jci J)
                       then bval (actV tidx Nmob Nspec socc mocc2 j (revm j i) (voth vc) Rv) (vhv vc) else 0) VCE)
              = sumf (fun vc : vclust K => if Nat.eqb (vci vc) (jcj J)
                       then bval (act (mJ mocc J Rv) (voth vc) Rj) (vhv vc + vhv vc) else 0) VCE
                - sumf (fun vc : vclust K => if Nat.eqb (vci vc) (jci J)
                       then bval (act (mI mocc J Rv) (voth vc) Rv) (vhv vc + vhv vc) else 0) VCE).
  { rewrite <- !sumf_add, <- !sumf_sub. apply sumf_ext. intros vc Hvc.
    destruct (Nat.eqb_spec (vci vc) (jci J)) as [Ci|Ci]; destruct (Nat.eqb_spec (vci vc) (jcj J)) as [Cj|Cj].
    - destruct (Ai vc Hvc Ci) as [-> ->]. destruct (Aj vc Hvc Cj) as [-> ->].
      destruct (act (mI mocc J Rv) (voth vc) Rv), (act (mJ mocc J Rv) (voth vc) Rj); cbn [JumpEval.bval]; ring.
    - destruct (Ai vc Hvc Ci) as [-> ->].
      destruct (act (mI mocc J Rv) (voth vc) Rv); cbn [JumpEval.bval]; ring.
    - destruct (Aj vc Hvc Cj) as [-> ->].
      destruct (act (mJ mocc J Rv) (voth vc) Rj); cbn [JumpEval.bval]; ring.
    - ring. }
  set (V1 := sumf (fun vc : vclust K => if Nat.eqb (vci vc) (jci J)
                       then bval (actV tidx Nmob Nspec socc mocc i idm (voth vc) Rv) (- vhv vc) else 0) VCE) in *.
  set (V2 := sumf (fun vc : vclust K => if Nat.eqb (vci vc) (jcj J)
                       then bval (actV tidx Nmob Nspec socc mocc i (revm i j) (voth vc) Rj) (vhv vc) else 0) VCE) in *.
  set (V3 := sumf (fun vc : vclust K => if Nat.eqb (vci vc) (jcj J)
                       then bval (actV tidx Nmob Nspec socc mocc2 j idm (voth vc) Rj) (- vhv vc) else 0) VCE) in *.
  set (V4 := sumf (fun vc : vclust K => if Nat.eqb (vci vc) (jci J)
                       then bval (actV tidx Nmob Nspec socc mocc2 j (revm j i) (voth vc) Rv) (vhv vc) else 0) VCE) in *.
  set (S1 := sumf (sideV K tidx Nmob Nspec socc mocc i idm (jcj J) (cs_ini J) Rj (ropp K)) CE) in *.
  set (S2 := sumf (sideV K tidx Nmob Nspec socc mocc i (revm i j) (jci J) (cs_fin J) Rv (fun x => x)) CE) in *.
  set (S3 := sumf (sideV K tidx Nmob Nspec socc mocc2 j idm (jci J) (cs_fin J) Rv (ropp K)) CE) in *.
  set (S4 := sumf (sideV K tidx Nmob Nspec socc mocc2 j (revm j i) (jcj J) (cs_ini J) Rj (fun x => x)) CE) in *.
  set (TT := sumf (tsV mocc2 j (jrev J) Rj) TSL).
  transitivity (((S1 + S2) - (S3 + S4)) + ((V1 + V2) - (V3 + V4))); [ring|]. rewrite S, W. ring.
Qed.

End FinalV.

End DB.

(* ------------------------------------------------------------------------------- non-vacuity -- *)
(* a chain of four cells: translation class = x mod 4 *)
Definition tidx4 (R : V) : nat := let '(x, _, _) := R in Z.to_nat (x mod 4).
Definition Rvec4 : list V := [(0, 0, 0); (1, 0, 0); (2, 0, 0); (3, 0, 0)].

Lemma T1_4 R1 R2 T : tidx4 R1 = tidx4 R2 -> tidx4 (vadd R1 T) = tidx4 (vadd R2 T).
Proof.
  destruct R1 as [[x1 y1] z1], R2 as [[x2 y2] z2], T as [[t ?] ?]. unfold tidx4, vadd. intro H.
  assert (E : x1 mod 4 = x2 mod 4).
  { pose proof (Z.mod_pos_bound x1 4 ltac:(lia)). pose proof (Z.mod_pos_bound x2 4 ltac:(lia)). lia. }
  rewrite <- (Z.add_mod_idemp_l x1), <- (Z.add_mod_idemp_l x2) by lia. rewrite E. reflexivity.
Qed.
Lemma T2_4 k : (k < length Rvec4)%nat -> tidx4 (nth k Rvec4 v0) = k.
Proof. cbn [length Rvec4]. intro H. destruct k as [|[|[|[|k]]]]; try reflexivity. lia. Qed.
Lemma T3_4 R : (tidx4 R < length Rvec4)%nat.
Proof. destruct R as [[x y] z]. unfold tidx4. cbn [length Rvec4]. pose proof (Z.mod_pos_bound x 4 ltac:(lia)). lia. Qed.

Definition sA := mkCS true O (0, 0, 0).
Definition sB := mkCS true O (1, 0, 0).
Definition sC := mkCS true O (2, 0, 0).
Definition CE4 : list (list csite * Z) := [([sA], 2); ([sA; sB], 5)].
Definition TS4 : list (tsclust Zring) := [mkTS (K:=Zring) sA sB [sC] 3; mkTS (K:=Zring) sA sC [sB] 4].
Definition J4 : jspec Zring := mkJS (K:=Zring) O O (1, 0, 0) 7.
Definition occ4 (x : nat) : bool := Nat.eqb x 0 || Nat.eqb x 2.     (* sites 0 and 2 occupied, 1 and 3 empty *)

Example detailed_balance_example :
  Qjump Zring tidx4 1 0 (fun _ => true) occ4 CE4 TS4 J4 (0, 0, 0)
  - Qjump Zring tidx4 1 0 (fun _ => true) (swap_occ occ4 0 1) CE4 TS4 (jrev J4) (1, 0, 0)
  = Energy Zring tidx4 Rvec4 1 0 (fun _ => true) (swap_occ occ4 0 1) 0 CE4
    - Energy Zring tidx4 Rvec4 1 0 (fun _ => true) occ4 0 CE4
  /\ Energy Zring tidx4 Rvec4 1 0 (fun _ => true) (swap_occ occ4 0 1) 0 CE4
     - Energy Zring tidx4 Rvec4 1 0 (fun _ => true) occ4 0 CE4 = 10.
Proof.
  split; [|reflexivity].
  apply (detailed_balance Zring tidx4 Rvec4 1 0 (fun _ => true) T1_4 T2_4 T3_4 occ4 J4 (0, 0, 0)); try reflexivity.
  - cbn. lia.
  - cbn. lia.
  - intros cl hv s H Hs Ms. cbn [CE4 In] in H. destruct H as [H|[H|[]]]; inversion H; subst; cbn [In] in Hs;
      repeat (destruct Hs as [<-|Hs]; [cbn; lia|]); destruct Hs.
  - intros cl hv R H. apply (inj_from_reps tidx4 Rvec4 1 0 T1_4 T2_4 T3_4).
    intros k Hk. cbn [CE4 In] in H. cbn [length Rvec4] in Hk.
    destruct H as [H|[H|[]]]; inversion H; subst; destruct k as [|[|[|[|k]]]]; try lia; vm_compute; repeat constructor; cbn; intuition discriminate.
  - intros ts H. cbn [TS4 In] in H. unfold ts_inj.
    apply (forall_reps tidx4 Rvec4 T2_4 T3_4
             (fun R => forall s, In s (tsoth ts) -> smob s = true ->
                                 gidx tidx4 1 0 R s <> gidx tidx4 1 0 R (ts0 ts) /\ gidx tidx4 1 0 R s <> gidx tidx4 1 0 R (ts1 ts))).
    + intros R R' E HR s Hs Ms. rewrite <- !(gidx_class tidx4 1 0 T1_4 R R' _ E). apply HR; assumption.
    + intros k Hk s Hs Ms. cbn [length Rvec4] in Hk.
      destruct H as [H|[H|[]]]; subst ts; cbn [tsoth In] in Hs; destruct Hs as [<-|[]];
        destruct k as [|[|[|[|k]]]]; try lia; vm_compute; split; discriminate.
Qed.

(* the same ring with a vacancy at site 0 jumping to site 1 (occupied by an atom of species 1) *)
Definition sL := mkCS true O (-1, 0, 0).
Definition VC4 : list (vclust Zring) := [mkVC (K:=Zring) O [sB] 3; mkVC (K:=Zring) O [sL] 3; mkVC (K:=Zring) O [sB; sC] 1].
Definition occV (x : nat) : bool := Nat.eqb x 1 || Nat.eqb x 2.

Example detailed_balance_V_example :
  QjumpV Zring tidx4 1 0 (fun _ => true) occV CE4 VC4 [] J4 (0, 0, 0)
  - QjumpV Zring tidx4 1 0 (fun _ => true) (swap_occ occV 0 1) CE4 VC4 [] (jrev J4) (1, 0, 0)
  = EnergyV Zring tidx4 Rvec4 1 0 (fun _ => true) (swap_occ occV 0 1) 0 CE4 VC4 (1, 0, 0) O
    - EnergyV Zring tidx4 Rvec4 1 0 (fun _ => true) occV 0 CE4 VC4 (0, 0, 0) O
  /\ EnergyV Zring tidx4 Rvec4 1 0 (fun _ => true) (swap_occ occV 0 1) 0 CE4 VC4 (1, 0, 0) O
     - EnergyV Zring tidx4 Rvec4 1 0 (fun _ => true) occV 0 CE4 VC4 (0, 0, 0) O = -6.
Proof.
  split; [|reflexivity].
  apply (detailed_balance_V Zring tidx4 Rvec4 1 0 (fun _ => true) T1_4 T2_4 T3_4 occV J4 (0, 0, 0)); try reflexivity.
  - cbn. lia.
  - cbn. lia.
  - cbn. lia.
  - intros cl hv s H Hs Ms. cbn [CE4 In] in H. destruct H as [H|[H|[]]]; inversion H; subst; cbn [In] in Hs;
      repeat (destruct Hs as [<-|Hs]; [cbn; lia|]); destruct Hs.
  - intros cl hv R H. apply (inj_from_reps tidx4 Rvec4 1 0 T1_4 T2_4 T3_4).
    intros k Hk. cbn [CE4 In] in H. cbn [length Rvec4] in Hk.
    destruct H as [H|[H|[]]]; inversion H; subst; destruct k as [|[|[|[|k]]]]; try lia; vm_compute; repeat constructor; cbn; intuition discriminate.
  - intros vc R s H. revert s.
    apply (forall_reps tidx4 Rvec4 T2_4 T3_4
             (fun R => forall s, In s (voth vc) -> smob s = true -> gidx tidx4 1 0 R s <> gidx tidx4 1 0 R (mkCS true (vci vc) v0))).
    + intros R1 R' E HR s Hs Ms. rewrite <- !(gidx_class tidx4 1 0 T1_4 R1 R' _ E). apply HR; assumption.
    + intros k Hk s Hs Ms. cbn [length Rvec4] in Hk. cbn [VC4 In] in H.
      destruct H as [H|[H|[H|[]]]]; subst vc; cbn [voth In] in Hs;
        repeat (destruct Hs as [<-|Hs]; [destruct k as [|[|[|[|k]]]]; try lia; vm_compute; discriminate|]); destruct Hs.
Qed.

(* KRA values only (no transition-state clusters): no premise about the TS expansion is left *)
Corollary detailed_balance_V_kra :
  forall (K : ordring) (tidx : V -> nat) (Rvec : list V) (Nmob Nspec : nat) (socc : nat -> bool),
    (forall R1 R2 T : V, tidx R1 = tidx R2 -> tidx (vadd R1 T) = tidx (vadd R2 T)) ->
    (forall k : nat, (k < length Rvec)%nat -> tidx (nth k Rvec v0) = k) ->
    (forall R : V, (tidx R < length Rvec)%nat) ->
    forall (mocc : nat -> bool) (J : jspec K) (Rv : V),
    (tidx Rv * Nmob + jci J)%nat <> (tidx (vadd Rv (jdR J)) * Nmob + jcj J)%nat ->
    (jci J < Nmob)%nat -> (jcj J < Nmob)%nat ->
    forall (CE : list (list csite * K)) (VCE : list (vclust K)) (c0 : K),
    (forall cl hv s, In (cl, hv) CE -> In s cl -> smob s = true -> (sci s < Nmob)%nat) ->
    (forall cl hv R, In (cl, hv) CE -> NoDup (map (gidx tidx Nmob Nspec R) (filter smob cl))) ->
    (forall vc R s, In vc VCE -> In s (voth vc) -> smob s = true ->
                    gidx tidx Nmob Nspec R s <> gidx tidx Nmob Nspec R (mkCS true (vci vc) v0)) ->
    rsub K (QjumpV K tidx Nmob Nspec socc mocc CE VCE [] J Rv)
           (QjumpV K tidx Nmob Nspec socc
              (swap_occ mocc (tidx Rv * Nmob + jci J) (tidx (vadd Rv (jdR J)) * Nmob + jcj J)) CE VCE []
              (jrev J) (vadd Rv (jdR J)))
    = rsub K (EnergyV K tidx Rvec Nmob Nspec socc
                (swap_occ mocc (tidx Rv * Nmob + jci J) (tidx (vadd Rv (jdR J)) * Nmob + jcj J)) c0 CE VCE
                (vadd Rv (jdR J)) (jcj J))
             (EnergyV K tidx Rvec Nmob Nspec socc mocc c0 CE VCE Rv (jci J)).
Proof.
  intros. apply detailed_balance_V; try assumption. reflexivity.
Qed.
