(* Detailed balance of the jump evaluators (Model/JumpEval.v): for every translation structure obeying the
   three laws below, every cluster expansion, half values, KRA values, TS clusters, occupation:
       Q(forward) - Q(reverse, from the final configuration) = E(final) - E(initial).                   *)
From Coq Require Import List ZArith Bool Arith Lia Ring.
From Onsager Require Import Base.OrdRing Base.Instances Model.JumpEval Proofs.Sampler_proofs.
Import ListNotations.
Local Open Scope Z_scope.

(* ------------------------------------------------------------------------------- vectors -- *)
Ltac vsolve := repeat match goal with v : V |- _ => destruct v as [[? ?] ?] end;
               unfold vsub, vadd, vneg, v0; cbn [fst snd]; repeat (f_equal; try lia).

Lemma vadd_assoc a b c : vadd (vadd a b) c = vadd a (vadd b c). Proof. vsolve. Qed.
Lemma vadd_comm a b : vadd a b = vadd b a. Proof. vsolve. Qed.
Lemma vadd_0_r a : vadd a v0 = a. Proof. vsolve. Qed.
Lemma vadd_neg_r a : vadd a (vneg a) = v0. Proof. vsolve. Qed.
Lemma vneg_neg a : vneg (vneg a) = a. Proof. vsolve. Qed.
Lemma vadd_cancel a b : vadd (vadd a b) (vneg b) = a. Proof. vsolve. Qed.
Lemma vadd_cancel2 a b : vadd (vadd a (vneg b)) b = a. Proof. vsolve. Qed.

Lemma vec_step (a s R d : V) : vadd s (vneg a) = d -> vadd R s = vadd (vadd R a) d.
Proof. intros <-. vsolve. Qed.
Lemma vec_flip (a b d : V) : vadd b (vneg a) = d -> vadd a (vneg b) = vneg d.
Proof. intros <-. vsolve. Qed.
Lemma vec_flip' (a b d : V) : vadd a (vneg b) = vneg d -> vadd b (vneg a) = d.
Proof. intro H. apply vec_flip in H. rewrite vneg_neg in H. exact H. Qed.

Lemma vec_ts (Ri d r0 r1 : V) : vadd r1 (vneg r0) = d -> vadd (vadd Ri d) (vneg r1) = vadd Ri (vneg r0).
Proof. intros <-. vsolve. Qed.
Lemma vec_ts2 (Ri r0 r1 : V) : vadd (vadd Ri (vneg r0)) r0 = Ri.
Proof. vsolve. Qed.
Lemma vec_ts3 (Ri d r0 r1 : V) : vadd r1 (vneg r0) = d -> vadd (vadd Ri (vneg r0)) r1 = vadd Ri d.
Proof. intros <-. vsolve. Qed.

Lemma v_eqb_spec a b : reflect (a = b) (v_eqb a b).
Proof.
  destruct a as [[a1 a2] a3], b as [[b1 b2] b3]. unfold v_eqb.
  destruct (Z.eqb_spec a1 b1), (Z.eqb_spec a2 b2), (Z.eqb_spec a3 b3); cbn; constructor; congruence.
Qed.

Lemma cs_eqb_spec a b : reflect (a = b) (cs_eqb a b).
Proof.
  destruct a as [m1 c1 R1], b as [m2 c2 R2]. unfold cs_eqb; cbn [smob sci sR].
  destruct (Bool.eqb_spec m1 m2), (Nat.eqb_spec c1 c2), (v_eqb_spec R1 R2); cbn; constructor; congruence.
Qed.

Lemma cs_eqb_refl a : cs_eqb a a = true.
Proof. destruct (cs_eqb_spec a a); congruence. Qed.

Lemma cs_eqb_sym a b : cs_eqb a b = cs_eqb b a.
Proof. destruct (cs_eqb_spec a b), (cs_eqb_spec b a); congruence. Qed.

(* ------------------------------------------------------------------------------- generic sums -- *)
Section Generic.
Variable K : ordring.
Add Ring Kr3 : (r_ring K).
Notation "0" := (r0 K) : K_scope.
Infix "+" := (radd K) : K_scope. Infix "-" := (rsub K) : K_scope.
Notation "- x" := (ropp K x) : K_scope.
Local Open Scope K_scope.

Lemma sumf_filter {A} (p : A -> bool) (f : A -> K) l :
  sumf f (filter p l) = sumf (fun a => if p a then f a else 0) l.
Proof.
  induction l as [|a l IH]; cbn [filter sumf]; [reflexivity|].
  destruct (p a); cbn [sumf]; rewrite IH; ring.
Qed.

Lemma sumf_pick (phi : nat -> K) k0 n : (k0 < n)%nat ->
  sumf (fun k => if Nat.eqb k k0 then phi k else 0) (seq O n) = phi k0.
Proof.
  intro H. rewrite (sumf_seq_change K (fun k => if Nat.eqb k k0 then phi k else 0) (fun _ => 0) k0).
  - rewrite sumf_zero, Nat.eqb_refl. cbn [Nat.leb andb Nat.add]. destruct (Nat.ltb_spec k0 n); [ring | lia].
  - intros m Hm. destruct (Nat.eqb_spec m k0); [contradiction | reflexivity].
Qed.

Lemma list_as_map_nth {A} (l : list A) d : l = map (fun k => nth k l d) (seq O (length l)).
Proof.
  induction l as [|a l IH]; [reflexivity|]. cbn [length seq map nth]. f_equal.
  rewrite <- seq_shift, map_map. exact IH.
Qed.

Lemma filter_filter {A} (p q : A -> bool) l : filter p (filter q l) = filter (fun x => q x && p x) l.
Proof.
  induction l as [|a l IH]; cbn [filter]; [reflexivity|].
  destruct (q a); cbn [filter andb]; [destruct (p a)|]; rewrite IH; reflexivity.
Qed.

Lemma filter_comm {A} (p q : A -> bool) l : filter p (filter q l) = filter q (filter p l).
Proof.
  rewrite !filter_filter. apply filter_ext. intro a. apply andb_comm.
Qed.

(* a sum with at most one non-zero term, found by `find` *)
Lemma sumf_find {A} (p : A -> bool) (f : A -> K) (l : list A) :
  (length (filter p l) <= 1)%nat ->
  sumf (fun a => if p a then f a else 0) l = match find p l with Some a => f a | None => 0 end.
Proof.
  induction l as [|a l IH]; intro U; cbn [sumf find filter] in *; [reflexivity|].
  destruct (p a) eqn:Pa.
  - cbn [length] in U. rewrite (sumf_ext K _ (fun _ => 0)); [rewrite sumf_zero; ring|].
    intros b Hb. destruct (p b) eqn:Pb; [|reflexivity]. exfalso.
    assert (In b (filter p l)) by (apply filter_In; split; assumption).
    destruct (filter p l); [contradiction | cbn [length] in U; lia].
  - rewrite IH by exact U. ring.
Qed.

Lemma find_none_all {A} (p : A -> bool) l : find p l = None -> forall a, In a l -> p a = false.
Proof. intros H a Ha. apply (find_none p l H a Ha). Qed.

Lemma nodup_key_filter {A} (key : A -> nat) (i : nat) (l : list A) :
  NoDup (map key l) -> (length (filter (fun s => Nat.eqb (key s) i) l) <= 1)%nat.
Proof.
  induction l as [|a l IH]; intro ND; cbn [filter length map] in *; [lia|].
  inversion ND as [|? ? Ha Hl]; subst. destruct (Nat.eqb_spec (key a) i) as [E|E]; [|apply IH; exact Hl].
  cbn [length]. assert (filter (fun s => Nat.eqb (key s) i) l = []) as ->; [|cbn; lia].
  destruct (filter (fun s => Nat.eqb (key s) i) l) as [|b r] eqn:F; [reflexivity|]. exfalso.
  assert (Hb : In b (filter (fun s => Nat.eqb (key s) i) l)) by (rewrite F; left; reflexivity).
  apply filter_In in Hb. destruct Hb as [Hb Kb]. apply Nat.eqb_eq in Kb.
  apply Ha. rewrite E, <- Kb. apply in_map. exact Hb.
Qed.

Definition bvalK (b : bool) (x : K) : K := if b then x else 0.

End Generic.

Lemma forallb_ext_in' {A} (f g : A -> bool) l : (forall a, In a l -> f a = g a) -> forallb f l = forallb g l.
Proof.
  induction l as [|a l IH]; intro H; cbn [forallb]; [reflexivity|].
  rewrite (H a (or_introl eq_refl)), IH; [reflexivity | intros; apply H; right; assumption].
Qed.

Lemma forallb_map' {A B} (h : A -> B) (f : B -> bool) l : forallb f (map h l) = forallb (fun a => f (h a)) l.
Proof. induction l as [|a l IH]; cbn [map forallb]; [reflexivity | rewrite IH; reflexivity]. Qed.

(* ------------------------------------------------------------------------------- translations -- *)
Section DB.
Variable K : ordring.
Add Ring Kr4 : (r_ring K).
Notation "0" := (r0 K) : K_scope.
Infix "+" := (radd K) : K_scope. Infix "-" := (rsub K) : K_scope.
Notation "- x" := (ropp K x) : K_scope.
Local Open Scope K_scope.

Variable tidx : V -> nat.
Variable Rvec : list V.
Variable Nmob Nspec : nat.
Variable socc : nat -> bool.

Notation NT := (length Rvec).

(* the three laws of ClusterSupercell.index / Rveclist *)
Hypothesis T1 : forall R1 R2 T, tidx R1 = tidx R2 -> tidx (vadd R1 T) = tidx (vadd R2 T).
Hypothesis T2 : forall k, (k < NT)%nat -> tidx (nth k Rvec v0) = k.
Hypothesis T3 : forall R, (tidx R < NT)%nat.

Notation gidx := (gidx tidx Nmob Nspec).
Notation isocc := (isocc tidx Nmob Nspec socc).
Notation act := (act tidx Nmob Nspec socc).
Notation bval := (bval K).

Definition rep (R : V) : V := nth (tidx R) Rvec v0.

Lemma tidx_rep R : tidx (rep R) = tidx R.
Proof. unfold rep. apply T2. apply T3. Qed.

Lemma tidx_shift_inj R1 R2 T : tidx (vadd R1 T) = tidx (vadd R2 T) -> tidx R1 = tidx R2.
Proof.
  intro H. apply (T1 _ _ (vneg T)) in H. rewrite !vadd_cancel in H. exact H.
Qed.

Lemma gidx_class R1 R2 s : tidx R1 = tidx R2 -> gidx R1 s = gidx R2 s.
Proof. intro H. unfold JumpEval.gidx. rewrite (T1 R1 R2 (sR s) H). reflexivity. Qed.

Lemma isocc_class m R1 R2 s : tidx R1 = tidx R2 -> isocc m R1 s = isocc m R2 s.
Proof. intro H. unfold JumpEval.isocc. rewrite (gidx_class R1 R2 s H). reflexivity. Qed.

Lemma act_class m l R1 R2 : tidx R1 = tidx R2 -> act m l R1 = act m l R2.
Proof.
  intro H. unfold JumpEval.act. apply forallb_ext_in'. intros s _. apply isocc_class. exact H.
Qed.

Lemma gidx_shift R T s : gidx R (shift T s) = gidx (vadd R T) s.
Proof.
  unfold JumpEval.gidx, shift. cbn [smob sci sR].
  replace (vadd R (vadd (sR s) T)) with (vadd (vadd R T) (sR s)); [reflexivity|].
  rewrite !vadd_assoc. f_equal. apply vadd_comm.
Qed.

Lemma isocc_shift m R T s : isocc m R (shift T s) = isocc m (vadd R T) s.
Proof. unfold JumpEval.isocc. rewrite gidx_shift. reflexivity. Qed.

Lemma act_shift m l R T : act m (map (shift T) l) R = act m l (vadd R T).
Proof.
  unfold JumpEval.act. rewrite forallb_map'. apply forallb_ext_in'. intros s _. apply isocc_shift.
Qed.

(* the sum over the representatives picks the one translation class that puts site (T) on class Rt *)
Lemma sum_Rvec_pick (g : V -> K) (T Rt : V) :
  sumf (fun R => if Nat.eqb (tidx (vadd R T)) (tidx Rt) then g R else 0) Rvec = g (rep (vadd Rt (vneg T))).
Proof.
  rewrite (list_as_map_nth Rvec v0) at 1. rewrite sumf_map.
  set (k0 := tidx (vadd Rt (vneg T))).
  rewrite (sumf_ext K _ (fun k => if Nat.eqb k k0 then g (nth k Rvec v0) else 0)).
  - rewrite sumf_pick by apply T3. reflexivity.
  - intros k Hk. apply in_seq in Hk.
    destruct (Nat.eqb_spec k k0) as [->|N].
    + assert (E : tidx (vadd (nth k0 Rvec v0) T) = tidx Rt).
      { rewrite (T1 (nth k0 Rvec v0) (vadd Rt (vneg T)) T) by (apply T2; apply T3).
        rewrite vadd_cancel2. reflexivity. }
      rewrite E, Nat.eqb_refl. reflexivity.
    + destruct (Nat.eqb_spec (tidx (vadd (nth k Rvec v0) T)) (tidx Rt)) as [E|E]; [|reflexivity].
      exfalso. apply N. unfold k0.
      rewrite <- (T2 k) by lia. apply (tidx_shift_inj _ _ T). rewrite vadd_cancel2. exact E.
Qed.

(* index arithmetic: site index = class * Nmob + basis index *)
Lemma idx_split a b c d n : (b < n)%nat -> (d < n)%nat -> (a * n + b = c * n + d)%nat -> a = c /\ b = d.
Proof.
  intros Hb Hd E.
  assert (A : a = ((a * n + b) / n)%nat) by (apply (Nat.div_unique _ n a b); lia).
  assert (C : c = ((c * n + d) / n)%nat) by (apply (Nat.div_unique _ n c d); lia).
  assert (a = c) by (rewrite A, C, E; reflexivity). subst c. split; [reflexivity | lia].
Qed.

(* Lemma A: a sum over the sites of a cluster that can be centred on basis site c, each placed on class Rs,
   is the sum over ALL instances of the cluster of the sites of the instance that sit on that supercell site *)
Lemma centered_sum (cl : list csite) (c : nat) (Rs : V) (F : csite -> V -> K) :
  (c < Nmob)%nat -> (forall s, In s cl -> smob s = true -> (sci s < Nmob)%nat) ->
  sumf (fun cs => F cs (rep (vadd Rs (vneg (sR cs))))) (centered c cl) =
  sumf (fun R => sumf (fun cs => if smob cs && Nat.eqb (gidx R cs) (tidx Rs * Nmob + c) then F cs R else 0) cl) Rvec.
Proof.
  intros Hc Wf. rewrite sumf_swap. unfold centered. rewrite sumf_filter. apply sumf_ext. intros cs Hcs.
  destruct (smob cs) eqn:M; cbn [andb]; [|rewrite sumf_zero; reflexivity].
  destruct (Nat.eqb_spec (sci cs) c) as [E|E].
  - rewrite <- (sum_Rvec_pick (F cs) (sR cs) Rs). apply sumf_ext. intros R _.
    unfold JumpEval.gidx. rewrite M, E.
    destruct (Nat.eqb_spec (tidx (vadd R (sR cs))) (tidx Rs)) as [E2|E2].
    + rewrite E2, Nat.eqb_refl. reflexivity.
    + destruct (Nat.eqb_spec (tidx (vadd R (sR cs)) * Nmob + c) (tidx Rs * Nmob + c)) as [E3|]; [|reflexivity].
      exfalso. apply E2. apply (idx_split _ _ _ _ Nmob) in E3; [tauto | exact Hc | exact Hc].
  - rewrite (sumf_ext K _ (fun _ => 0)); [rewrite sumf_zero; reflexivity|]. intros R _.
    unfold JumpEval.gidx. rewrite M.
    destruct (Nat.eqb_spec (tidx (vadd R (sR cs)) * Nmob + sci cs) (tidx Rs * Nmob + c)) as [E2|]; [|reflexivity].
    exfalso. apply E. apply (idx_split _ _ _ _ Nmob) in E2; [tauto | apply Wf; assumption | exact Hc].
Qed.


(* ------------------------------------------------------------------------------- one instance -- *)
Definition others (cl : list csite) (cs : csite) : list csite := filter (fun s => negb (cs_eqb s cs)) cl.

Lemma forallb_split {A} (f p : A -> bool) l :
  forallb f l = forallb f (filter p l) && forallb f (filter (fun a => negb (p a)) l).
Proof.
  induction l as [|a l IH]; cbn [forallb filter]; [reflexivity|].
  destruct (p a); cbn [negb forallb]; rewrite IH; destruct (f a); cbn [andb]; try reflexivity;
    destruct (forallb f (filter p l)); reflexivity.
Qed.

Lemma forallb_all_eq (f : csite -> bool) a l : In a l -> forallb f (filter (fun s => cs_eqb s a) l) = f a.
Proof.
  intro H. induction l as [|b l IH]; [destruct H|]. cbn [filter].
  destruct (cs_eqb_spec b a) as [->|N].
  - cbn [forallb]. destruct (in_dec (fun x y => match cs_eqb_spec x y with ReflectT _ e => left e | ReflectF _ n => right n end) a l) as [I|I].
    + rewrite (IH I). destruct (f a); reflexivity.
    + assert (filter (fun s => cs_eqb s a) l = []) as ->.
      { clear - I. induction l as [|c l IHl]; [reflexivity|]. cbn [filter].
        destruct (cs_eqb_spec c a) as [->|]; [exfalso; apply I; left; reflexivity | apply IHl; intro; apply I; right; assumption]. }
      cbn. destruct (f a); reflexivity.
  - apply IH. destruct H as [->|H]; [contradiction | exact H].
Qed.

Lemma act_split m cl a R : In a cl -> act m cl R = isocc m R a && act m (others cl a) R.
Proof.
  intro H. unfold JumpEval.act, others. rewrite (forallb_split _ (fun s => cs_eqb s a) cl).
  rewrite (forallb_all_eq _ a cl H). reflexivity.
Qed.

Lemma act_agree m1 m2 l R :
  (forall s, In s l -> smob s = true -> m1 (gidx R s) = m2 (gidx R s)) -> act m1 l R = act m2 l R.
Proof.
  intro H. unfold JumpEval.act. apply forallb_ext_in'. intros s Hs. unfold JumpEval.isocc.
  destruct (smob s) eqn:M; [apply H; assumption | reflexivity].
Qed.

Section Instance.
Variable mocc : nat -> bool.
Variables i j : nat.
Hypothesis Hi : mocc i = true.
Hypothesis Hj : mocc j = false.
Notation mocc' := (swap_occ mocc i j).

Lemma ij_neq : i <> j. Proof. intro; subst; congruence. Qed.
Lemma mocc'_i : mocc' i = false. Proof. unfold swap_occ. rewrite Nat.eqb_refl. exact Hj. Qed.
Lemma mocc'_j : mocc' j = true.
Proof. unfold swap_occ. destruct (Nat.eqb_spec j i) as [E|_]; [exfalso; apply ij_neq; auto|]. rewrite Nat.eqb_refl. exact Hi. Qed.
Lemma mocc'_other x : x <> i -> x <> j -> mocc' x = mocc x.
Proof. intros A B. unfold swap_occ. destruct (Nat.eqb_spec x i); [contradiction|]. destruct (Nat.eqb_spec x j); [contradiction | reflexivity]. Qed.

Variable cl : list csite.
Variable R : V.
Variable hv : K.
Variables ex_i ex_j : csite -> bool.
Notation key := (gidx R).

Hypothesis ND : NoDup (map key (filter smob cl)).
Hypothesis X1i : forall a, In a cl -> smob a = true -> key a = i -> ex_i a = true ->
                 exists b, In b cl /\ smob b = true /\ key b = j.
Hypothesis X1j : forall b, In b cl -> smob b = true -> key b = j -> ex_j b = true ->
                 exists a, In a cl /\ smob a = true /\ key a = i.
Hypothesis X2 : forall a b, In a cl -> In b cl -> smob a = true -> smob b = true -> key a = i -> key b = j ->
                ex_i a = ex_j b.

Definition pk (x : nat) (s : csite) : bool := smob s && Nat.eqb (key s) x.

Definition Sx (ex : csite -> bool) (x : nat) (m : nat -> bool) (v : K) : K :=
  sumf (fun cs => if pk x cs then (if ex cs then 0 else bval (act m (others cl cs) R) v) else 0) cl.

Lemma pk_unique x : (length (filter (pk x) cl) <= 1)%nat.
Proof.
  unfold pk. rewrite <- (filter_filter (fun s => Nat.eqb (key s) x) smob cl).
  apply nodup_key_filter. exact ND.
Qed.

Lemma key_inj a b : In a cl -> In b cl -> smob a = true -> smob b = true -> key a = key b -> a = b.
Proof.
  intros Ha Hb Ma Mb E.
  pose proof (pk_unique (key a)) as U.
  assert (A : In a (filter (pk (key a)) cl)) by (apply filter_In; split; [exact Ha | unfold pk; rewrite Ma, Nat.eqb_refl; reflexivity]).
  assert (B : In b (filter (pk (key a)) cl)) by (apply filter_In; split; [exact Hb | unfold pk; rewrite Mb, E, Nat.eqb_refl; reflexivity]).
  destruct (filter (pk (key a)) cl) as [|c [|d r]]; cbn [length] in U; [destruct A | | lia].
  destruct A as [<-|[]], B as [<-|[]]. reflexivity.
Qed.

Lemma Sx_find ex x m v :
  Sx ex x m v = match find (pk x) cl with
                | Some cs => if ex cs then 0 else bval (act m (others cl cs) R) v
                | None => 0 end.
Proof. unfold Sx. apply sumf_find. apply pk_unique. Qed.

(* the sites of `others cl a` avoid the site of a *)
Lemma others_key a s : In a cl -> smob a = true -> In s (others cl a) -> smob s = true -> key s <> key a.
Proof.
  intros Ha Ma Hs Ms E. unfold others in Hs. apply filter_In in Hs. destruct Hs as [Hs N].
  assert (s = a) by (apply key_inj; assumption). subst s. rewrite cs_eqb_refl in N. discriminate.
Qed.

Lemma isocc_mob m a : smob a = true -> isocc m R a = m (key a).
Proof. intro M. unfold JumpEval.isocc. rewrite M. reflexivity. Qed.

Theorem instance_balance :
  (Sx ex_i i mocc (- hv) + Sx ex_j j mocc hv) - (Sx ex_j j mocc' (- hv) + Sx ex_i i mocc' hv)
  = bval (act mocc' cl R) (hv + hv) - bval (act mocc cl R) (hv + hv).
Proof.
  rewrite !Sx_find.
  destruct (find (pk i) cl) as [a|] eqn:Fi; destruct (find (pk j) cl) as [b|] eqn:Fj.
  - (* the instance holds both end points *)
    apply find_some in Fi. destruct Fi as [Ha Pa]. apply find_some in Fj. destruct Fj as [Hb Pb].
    unfold pk in Pa, Pb. apply andb_true_iff in Pa. destruct Pa as [Ma Ka]. apply Nat.eqb_eq in Ka.
    apply andb_true_iff in Pb. destruct Pb as [Mb Kb]. apply Nat.eqb_eq in Kb.
    assert (Nab : a <> b) by (intro E; apply ij_neq; rewrite <- Ka, <- Kb, E; reflexivity).
    rewrite (X2 a b Ha Hb Ma Mb Ka Kb).
    assert (A0 : act mocc cl R = false).
    { rewrite (act_split mocc cl b R Hb), (isocc_mob mocc b Mb), Kb, Hj. reflexivity. }
    assert (A1 : act mocc' cl R = false).
    { rewrite (act_split mocc' cl a R Ha), (isocc_mob mocc' a Ma), Ka, mocc'_i. reflexivity. }
    rewrite A0, A1. cbn [JumpEval.bval]. destruct (ex_j b); [ring|].
    assert (Hba : In b (others cl a)).
    { unfold others. apply filter_In. split; [exact Hb|]. destruct (cs_eqb_spec b a) as [E|]; [exfalso; apply Nab; symmetry; exact E | reflexivity]. }
    assert (Hab : In a (others cl b)).
    { unfold others. apply filter_In. split; [exact Ha|]. destruct (cs_eqb_spec a b); [contradiction | reflexivity]. }
    assert (B1 : act mocc (others cl a) R = false).
    { rewrite (act_split mocc _ b R Hba), (isocc_mob mocc b Mb), Kb, Hj. reflexivity. }
    assert (B2 : act mocc' (others cl b) R = false).
    { rewrite (act_split mocc' _ a R Hab), (isocc_mob mocc' a Ma), Ka, mocc'_i. reflexivity. }
    assert (B3 : act mocc (others cl b) R = act mocc' (others cl a) R).
    { rewrite (act_split mocc _ a R Hab), (isocc_mob mocc a Ma), Ka, Hi.
      rewrite (act_split mocc' _ b R Hba), (isocc_mob mocc' b Mb), Kb, mocc'_j. cbn [andb].
      unfold others. rewrite (filter_comm (fun s => negb (cs_eqb s a)) (fun s => negb (cs_eqb s b)) cl).
      apply act_agree. intros s Hs Ms. symmetry. apply mocc'_other.
      - apply filter_In in Hs. destruct Hs as [Hs _]. rewrite <- Ka. apply (others_key a s Ha Ma Hs Ms).
      - apply filter_In in Hs. destruct Hs as [Hs N]. rewrite <- Kb. apply (others_key b s Hb Mb); [|exact Ms].
        unfold others in *. apply filter_In in Hs. destruct Hs as [Hs N2]. apply filter_In. split; assumption. }
    rewrite B1, B2, B3. cbn [JumpEval.bval]. ring.
  - (* only the initial site *)
    apply find_some in Fi. destruct Fi as [Ha Pa]. unfold pk in Pa. apply andb_true_iff in Pa.
    destruct Pa as [Ma Ka]. apply Nat.eqb_eq in Ka.
    assert (NJ : forall s, In s cl -> smob s = true -> key s <> j).
    { intros s Hs Ms E. pose proof (find_none _ _ Fj s Hs) as P. unfold pk in P. rewrite Ms, E, Nat.eqb_refl in P. discriminate. }
    assert (Ex : ex_i a = false).
    { destruct (ex_i a) eqn:E; [|reflexivity]. destruct (X1i a Ha Ma Ka E) as [b [Hb [Mb Kb]]]. exfalso. exact (NJ b Hb Mb Kb). }
    rewrite Ex.
    assert (Ag : act mocc' (others cl a) R = act mocc (others cl a) R).
    { apply act_agree. intros s Hs Ms. apply mocc'_other.
      - rewrite <- Ka. apply (others_key a s Ha Ma Hs Ms).
      - apply NJ; [|exact Ms]. unfold others in Hs. apply filter_In in Hs. tauto. }
    rewrite (act_split mocc cl a R Ha), (isocc_mob mocc a Ma), Ka, Hi.
    rewrite (act_split mocc' cl a R Ha), (isocc_mob mocc' a Ma), Ka, mocc'_i, Ag. cbn [andb].
    destruct (act mocc (others cl a) R); cbn [JumpEval.bval]; ring.
  - (* only the final site *)
    apply find_some in Fj. destruct Fj as [Hb Pb]. unfold pk in Pb. apply andb_true_iff in Pb.
    destruct Pb as [Mb Kb]. apply Nat.eqb_eq in Kb.
    assert (NI : forall s, In s cl -> smob s = true -> key s <> i).
    { intros s Hs Ms E. pose proof (find_none _ _ Fi s Hs) as P. unfold pk in P. rewrite Ms, E, Nat.eqb_refl in P. discriminate. }
    assert (Ex : ex_j b = false).
    { destruct (ex_j b) eqn:E; [|reflexivity]. destruct (X1j b Hb Mb Kb E) as [a [Ha [Ma Ka]]]. exfalso. exact (NI a Ha Ma Ka). }
    rewrite Ex.
    assert (Ag : act mocc' (others cl b) R = act mocc (others cl b) R).
    { apply act_agree. intros s Hs Ms. apply mocc'_other.
      - apply NI; [|exact Ms]. unfold others in Hs. apply filter_In in Hs. tauto.
      - rewrite <- Kb. apply (others_key b s Hb Mb Hs Ms). }
    rewrite (act_split mocc cl b R Hb), (isocc_mob mocc b Mb), Kb, Hj.
    rewrite (act_split mocc' cl b R Hb), (isocc_mob mocc' b Mb), Kb, mocc'_j, Ag. cbn [andb].
    destruct (act mocc (others cl b) R); cbn [JumpEval.bval]; ring.
  - (* neither *)
    assert (Ag : act mocc' cl R = act mocc cl R).
    { apply act_agree. intros s Hs Ms. apply mocc'_other.
      - intro E. pose proof (find_none _ _ Fi s Hs) as P. unfold pk in P. rewrite Ms, E, Nat.eqb_refl in P. discriminate.
      - intro E. pose proof (find_none _ _ Fj s Hs) as P. unfold pk in P. rewrite Ms, E, Nat.eqb_refl in P. discriminate. }
    rewrite Ag. ring.
Qed.

End Instance.


(* ------------------------------------------------------------------------------- assembling -- *)
Lemma act_rest m cl cs Rs :
  act m (rest cl cs) Rs = act m (others cl cs) (rep (vadd Rs (vneg (sR cs)))).
Proof.
  unfold rest. fold (others cl cs). rewrite act_shift. apply act_class. symmetry. apply tidx_rep.
Qed.

Lemma hasm_rest x cl a : smob x = true ->
  (hasm x (rest cl a) = true <->
   exists s, In s cl /\ s <> a /\ smob s = true /\ sci s = sci x /\ vadd (sR s) (vneg (sR a)) = sR x).
Proof.
  intro Mx. unfold hasm, rest. rewrite existsb_exists. split.
  - intros [y [Hy P]]. apply in_map_iff in Hy. destruct Hy as [s [<- Hs]]. apply filter_In in Hs. destruct Hs as [Hs N].
    apply andb_true_iff in P. destruct P as [Ms E]. destruct (cs_eqb_spec x (shift (vneg (sR a)) s)) as [E2|]; [|discriminate].
    exists s. cbn [shift smob] in Ms. repeat split; try assumption.
    + intro; subst s. rewrite cs_eqb_refl in N. discriminate.
    + rewrite E2. reflexivity.
    + rewrite E2. reflexivity.
  - intros [s [Hs [N [Ms [C E]]]]]. exists (shift (vneg (sR a)) s). split.
    + apply in_map. apply filter_In. split; [exact Hs|]. destruct (cs_eqb_spec s a); [contradiction | reflexivity].
    + cbn [shift smob]. rewrite Ms. cbn [andb]. destruct x as [mx cx Rx]. cbn [smob sci sR] in *. subst mx cx Rx.
      unfold cs_eqb, shift. cbn [smob sci sR]. rewrite Ms, Nat.eqb_refl. cbn.
      destruct (v_eqb_spec (vadd (sR s) (vneg (sR a))) (vadd (sR s) (vneg (sR a)))); congruence.
Qed.

Lemma side_as_instances m c other Rs sgn cl hv :
  (c < Nmob)%nat -> (forall s, In s cl -> smob s = true -> (sci s < Nmob)%nat) ->
  side K tidx Nmob Nspec socc m c other Rs sgn (cl, hv) =
  sumf (fun R => Sx cl R (fun cs => hasm other (rest cl cs)) (tidx Rs * Nmob + c) m (sgn hv)) Rvec.
Proof.
  intros Hc Wf. unfold side. cbn [fst snd].
  set (F := fun (cs : csite) (R : V) => if hasm other (rest cl cs) then 0 else bval (act m (others cl cs) R) (sgn hv)).
  transitivity (sumf (fun cs => F cs (rep (vadd Rs (vneg (sR cs))))) (centered c cl)).
  - apply sumf_ext. intros cs _. unfold F. rewrite act_rest. reflexivity.
  - rewrite (centered_sum cl c Rs F Hc Wf). apply sumf_ext. intros R _. unfold Sx, pk, F. reflexivity.
Qed.

(* the site index of basis site c on the class of Rs *)
Lemma gidx_origin Rs c : gidx Rs (mkCS true c v0) = (tidx Rs * Nmob + c)%nat.
Proof. unfold JumpEval.gidx. cbn [smob sci sR]. rewrite vadd_0_r. reflexivity. Qed.

Section Cluster.
Variable mocc : nat -> bool.
Variable J : jspec K.
Variable Ri : V.
Notation Rj := (vadd Ri (jdR J)).
Notation i := (tidx Ri * Nmob + jci J)%nat.
Notation j := (tidx Rj * Nmob + jcj J)%nat.
Hypothesis Hi : mocc i = true.
Hypothesis Hj : mocc j = false.
Hypothesis Wi : (jci J < Nmob)%nat.
Hypothesis Wj : (jcj J < Nmob)%nat.
Notation mocc' := (swap_occ mocc i j).

Variable cl : list csite.
Variable hv : K.
Hypothesis Wf : forall s, In s cl -> smob s = true -> (sci s < Nmob)%nat.
Hypothesis Inj : forall R, NoDup (map (gidx R) (filter smob cl)).

Lemma key_i R a : In a cl -> smob a = true -> gidx R a = i -> tidx (vadd R (sR a)) = tidx Ri /\ sci a = jci J.
Proof.
  intros Ha Ma E. unfold JumpEval.gidx in E. rewrite Ma in E.
  apply (idx_split _ _ _ _ Nmob) in E; [exact E | apply Wf; assumption | exact Wi].
Qed.

Lemma key_j R b : In b cl -> smob b = true -> gidx R b = j -> tidx (vadd R (sR b)) = tidx Rj /\ sci b = jcj J.
Proof.
  intros Hb Mb E. unfold JumpEval.gidx in E. rewrite Mb in E.
  apply (idx_split _ _ _ _ Nmob) in E; [exact E | apply Wf; assumption | exact Wj].
Qed.

Lemma cluster_balance :
  (side K tidx Nmob Nspec socc mocc (jci J) (cs_fin J) Ri (ropp K) (cl, hv)
   + side K tidx Nmob Nspec socc mocc (jcj J) (cs_ini J) Rj (fun x => x) (cl, hv))
  - (side K tidx Nmob Nspec socc mocc' (jcj J) (cs_ini J) Rj (ropp K) (cl, hv)
     + side K tidx Nmob Nspec socc mocc' (jci J) (cs_fin J) Ri (fun x => x) (cl, hv))
  = Ecl K tidx Rvec Nmob Nspec socc mocc' (cl, hv) - Ecl K tidx Rvec Nmob Nspec socc mocc (cl, hv).
Proof.
  rewrite !side_as_instances by assumption. unfold Ecl. cbn [fst snd].
  rewrite <- !sumf_add, <- !sumf_sub. apply sumf_ext. intros R _.
  apply (instance_balance mocc i j Hi Hj cl R hv).
  - apply Inj.
  - (* X1i *)
    intros a Ha Ma Ka E. apply (hasm_rest (cs_fin J) cl a eq_refl) in E.
    destruct E as [s [Hs [N [Ms [C E]]]]]. exists s. split; [exact Hs|]. split; [exact Ms|].
    destruct (key_i R a Ha Ma Ka) as [Ta _]. cbn [cs_fin sci sR] in C, E.
    unfold JumpEval.gidx. rewrite Ms, C, (vec_step _ _ R _ E), (T1 _ _ (jdR J) Ta). reflexivity.
  - (* X1j *)
    intros b Hb Mb Kb E. apply (hasm_rest (cs_ini J) cl b eq_refl) in E.
    destruct E as [s [Hs [N [Ms [C E]]]]]. exists s. split; [exact Hs|]. split; [exact Ms|].
    destruct (key_j R b Hb Mb Kb) as [Tb _]. cbn [cs_ini sci sR] in C, E.
    unfold JumpEval.gidx. rewrite Ms, C, (vec_step _ _ R _ E), (T1 _ _ (vneg (jdR J)) Tb), vadd_cancel. reflexivity.
  - (* X2 *)
    intros a b Ha Hb Ma Mb Ka Kb. apply eq_true_iff_eq.
    destruct (key_i R a Ha Ma Ka) as [Ta Ca]. destruct (key_j R b Hb Mb Kb) as [Tb Cb].
    assert (Nab : a <> b).
    { intro E. rewrite E in Ka. rewrite Ka in Kb. rewrite Kb in Hi. rewrite Hi in Hj. discriminate. }
    rewrite (hasm_rest (cs_fin J) cl a eq_refl), (hasm_rest (cs_ini J) cl b eq_refl). cbn [cs_fin cs_ini sci sR]. split.
    + intros [s [Hs [N [Ms [C E]]]]].
      assert (Es : s = b).
      { apply (key_inj cl R (Inj R)); try assumption. rewrite Kb. unfold JumpEval.gidx.
        rewrite Ms, C, (vec_step _ _ R _ E), (T1 _ _ (jdR J) Ta). reflexivity. }
      rewrite Es in E, N. exists a. split; [exact Ha|]. split; [exact Nab|]. split; [exact Ma|]. split; [exact Ca|].
      apply vec_flip. exact E.
    + intros [s [Hs [N [Ms [C E]]]]].
      assert (Es : s = a).
      { apply (key_inj cl R (Inj R)); try assumption. rewrite Ka. unfold JumpEval.gidx.
        rewrite Ms, C, (vec_step _ _ R _ E), (T1 _ _ (vneg (jdR J)) Tb), vadd_cancel. reflexivity. }
      rewrite Es in E, N. exists b. split; [exact Hb|]. split; [intro X; apply Nab; symmetry; exact X|]. split; [exact Mb|]. split; [exact Cb|].
      apply vec_flip'. exact E.
Qed.

End Cluster.


(* ------------------------------------------------------------------------------- transition-state clusters -- *)
Lemma ts_match_rev (a b : csite) (J : jspec K) : ts_match K a b (jrev J) = ts_match K b a J.
Proof.
  unfold ts_match, jrev. cbn [jci jcj jdR]. unfold vsub.
  destruct (smob a), (smob b); cbn [andb]; try reflexivity.
  destruct (Nat.eqb (sci a) (jcj J)), (Nat.eqb (sci b) (jci J)); cbn [andb]; try reflexivity.
  destruct (v_eqb_spec (vadd (sR b) (vneg (sR a))) (vneg (jdR J))) as [E|E],
           (v_eqb_spec (vadd (sR a) (vneg (sR b))) (jdR J)) as [E2|E2]; try reflexivity; exfalso.
  - apply E2. apply vec_flip'. exact E.
  - apply E. apply vec_flip. exact E2.
Qed.

Lemma ts_match_true (a b : csite) (J : jspec K) : ts_match K a b J = true ->
  smob a = true /\ smob b = true /\ sci a = jci J /\ sci b = jcj J /\ vadd (sR b) (vneg (sR a)) = jdR J.
Proof.
  unfold ts_match, vsub. intro H. repeat (apply andb_true_iff in H; destruct H as [H ?]).
  repeat split; try assumption; try (apply Nat.eqb_eq; assumption).
  destruct (v_eqb_spec (vadd (sR b) (vneg (sR a))) (jdR J)); [assumption | discriminate].
Qed.

Section Main.
Variable mocc : nat -> bool.
Variable J : jspec K.
Variable Ri : V.
Notation Rj := (vadd Ri (jdR J)).
Notation i := (tidx Ri * Nmob + jci J)%nat.
Notation j := (tidx Rj * Nmob + jcj J)%nat.
Hypothesis Hi : mocc i = true.
Hypothesis Hj : mocc j = false.
Hypothesis Wi : (jci J < Nmob)%nat.
Hypothesis Wj : (jcj J < Nmob)%nat.
Notation mocc' := (swap_occ mocc i j).

(* other sites of a TS cluster never sit on its end points (no self-wrapping) *)
Definition ts_inj (ts : tsclust K) : Prop :=
  forall R s, In s (tsoth ts) -> smob s = true -> gidx R s <> gidx R (ts0 ts) /\ gidx R s <> gidx R (ts1 ts).

(* the other sites of a matching TS cluster, placed for the jump, see the same occupation before and after *)
Lemma ts_act_same (a b : csite) (oth : list csite) :
  ts_match K a b J = true ->
  (forall R s, In s oth -> smob s = true -> gidx R s <> gidx R a /\ gidx R s <> gidx R b) ->
  act mocc' oth (vadd Ri (vneg (sR a))) = act mocc oth (vadd Ri (vneg (sR a))).
Proof.
  intros M TI. apply ts_match_true in M. destruct M as [Ma [Mb [Ca [Cb E]]]].
  apply act_agree. intros s Hs Ms. destruct (TI (vadd Ri (vneg (sR a))) s Hs Ms) as [N0 N1].
  apply mocc'_other.
  - intro X. apply N0. rewrite X. unfold JumpEval.gidx. rewrite Ma, Ca, vec_ts2; [reflexivity | exact v0].
  - intro X. apply N1. rewrite X. unfold JumpEval.gidx. rewrite Mb, Cb, (vec_ts3 Ri _ _ _ E). reflexivity.
Qed.

Lemma ts_balance (ts : tsclust K) : ts_inj ts ->
  ts_term K tidx Nmob Nspec socc mocc J Ri true ts = ts_term K tidx Nmob Nspec socc mocc' (jrev J) Rj true ts.
Proof.
  intro TI. unfold ts_term. rewrite !ts_match_rev. cbn [andb].
  assert (A : ts_match K (ts0 ts) (ts1 ts) J = true ->
              act mocc' (map (shift (vneg (sR (ts1 ts)))) (tsoth ts)) Rj = act mocc (map (shift (vneg (sR (ts0 ts)))) (tsoth ts)) Ri).
  { intro M. rewrite !act_shift. pose proof (ts_match_true _ _ _ M) as [_ [_ [_ [_ E]]]].
    rewrite (vec_ts Ri _ _ _ E). apply (ts_act_same (ts0 ts) (ts1 ts)); [exact M|]. intros R s Hs Ms. apply TI; assumption. }
  assert (B : ts_match K (ts1 ts) (ts0 ts) J = true ->
              act mocc' (map (shift (vneg (sR (ts0 ts)))) (tsoth ts)) Rj = act mocc (map (shift (vneg (sR (ts1 ts)))) (tsoth ts)) Ri).
  { intro M. rewrite !act_shift. pose proof (ts_match_true _ _ _ M) as [_ [_ [_ [_ E]]]].
    rewrite (vec_ts Ri _ _ _ E). apply (ts_act_same (ts1 ts) (ts0 ts)); [exact M|]. intros R s Hs Ms.
    destruct (TI R s Hs Ms). split; assumption. }
  destruct (ts_match K (ts0 ts) (ts1 ts) J) eqn:M01; destruct (ts_match K (ts1 ts) (ts0 ts) J) eqn:M10;
    try rewrite (A eq_refl); try rewrite (B eq_refl); ring.
Qed.

Variable CE : list (list csite * K).
Variable TSL : list (tsclust K).
Variable c0 : K.
Hypothesis WfC : forall cl hv s, In (cl, hv) CE -> In s cl -> smob s = true -> (sci s < Nmob)%nat.
Hypothesis InjC : forall cl hv R, In (cl, hv) CE -> NoDup (map (gidx R) (filter smob cl)).
Hypothesis InjT : forall ts, In ts TSL -> ts_inj ts.

(* C34, no vacancy: forward barrier minus the barrier of the reverse jump from the final configuration
   equals the energy of the final configuration minus that of the initial one *)
Theorem detailed_balance :
  Qjump K tidx Nmob Nspec socc mocc CE TSL J Ri - Qjump K tidx Nmob Nspec socc mocc' CE TSL (jrev J) Rj
  = Energy K tidx Rvec Nmob Nspec socc mocc' c0 CE - Energy K tidx Rvec Nmob Nspec socc mocc c0 CE.
Proof.
  unfold Qjump, Energy.
  replace (cs_ini (jrev J)) with (cs_fin J) by (unfold cs_ini, cs_fin, jrev; cbn [jci jcj jdR]; rewrite vneg_neg; reflexivity).
  replace (cs_fin (jrev J)) with (cs_ini J) by reflexivity.
  cbn [jrev jci jcj jdR jkra]. rewrite vadd_cancel.
  rewrite (sumf_ext K (ts_term K tidx Nmob Nspec socc mocc J Ri true) (ts_term K tidx Nmob Nspec socc mocc' (jrev J) Rj true))
    by (intros ts Hts; apply ts_balance; apply InjT; exact Hts).
  assert (S : (sumf (side K tidx Nmob Nspec socc mocc (jci J) (cs_fin J) Ri (ropp K)) CE
               + sumf (side K tidx Nmob Nspec socc mocc (jcj J) (cs_ini J) Rj (fun x => x)) CE)
              - (sumf (side K tidx Nmob Nspec socc mocc' (jcj J) (cs_ini J) Rj (ropp K)) CE
                 + sumf (side K tidx Nmob Nspec socc mocc' (jci J) (cs_fin J) Ri (fun x => x)) CE)
              = sumf (Ecl K tidx Rvec Nmob Nspec socc mocc') CE - sumf (Ecl K tidx Rvec Nmob Nspec socc mocc) CE).
  { rewrite <- !sumf_add, <- !sumf_sub. apply sumf_ext. intros [cl hv] Hc.
    apply (cluster_balance mocc J Ri Hi Hj Wi Wj cl hv).
    - intros s Hs Ms. apply (WfC cl hv s Hc Hs Ms).
    - intro R. apply (InjC cl hv R Hc). }
  set (A1 := sumf (side K tidx Nmob Nspec socc mocc (jci J) (cs_fin J) Ri (ropp K)) CE) in *.
  set (A2 := sumf (side K tidx Nmob Nspec socc mocc (jcj J) (cs_ini J) Rj (fun x => x)) CE) in *.
  set (B1 := sumf (side K tidx Nmob Nspec socc mocc' (jcj J) (cs_ini J) Rj (ropp K)) CE) in *.
  set (B2 := sumf (side K tidx Nmob Nspec socc mocc' (jci J) (cs_fin J) Ri (fun x => x)) CE) in *.
  set (E1 := sumf (Ecl K tidx Rvec Nmob Nspec socc mocc') CE) in *.
  set (E0 := sumf (Ecl K tidx Rvec Nmob Nspec socc mocc) CE) in *.
  set (T := sumf (ts_term K tidx Nmob Nspec socc mocc' (jrev J) Rj true) TSL).
  transitivity ((A1 + A2) - (B1 + B2)); [ring|]. rewrite S. ring.
Qed.

End Main.

End DB.
