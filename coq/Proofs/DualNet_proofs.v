(* Envelope theorem for the transport coefficient over dual numbers (C11):
   the derivative of  L = Bform(corrector)  along any parameter does not involve the derivative of
   the corrector -- it drops out by the weak Kirchhoff law of the real-part network.  Together with
   L_welldef instantiated at the dual ring (value AND derivative are independent of which dual
   corrector is used) this justifies computing derivative outputs without differentiating the solve.
   All statements for every ordered commutative ring K and every finite network over Dual K. *)
From Coq Require Import List Arith Bool Lia Ring.
From Onsager Require Import Base.OrdRing Base.Dual Base.Instances Model.Net Model.Interstitial Model.DualNet
     Proofs.Net_proofs Proofs.Interstitial_proofs.
Import ListNotations.

Section DualNetProofs.
Variable K : ordring.
Notation DK := (Dual K).
Notation "0" := (r0 K). Notation "1" := (r1 K).
Infix "+" := (radd K). Infix "*" := (rmul K). Infix "-" := (rsub K).
Add Ring KringDN : (r_ring K).

Implicit Types (N : net DK) (d : edge DK -> DK) (g : nat -> DK).

Lemma rp_sum {A} (f : A -> DK) l : rp (sumf (K:=DK) f l) = sumf (fun a => rp (f a)) l.
Proof. induction l as [|a l IH]; cbn [sumf]; [reflexivity|]. rewrite <- IH. reflexivity. Qed.

Lemma dp_sum {A} (f : A -> DK) l : dp (sumf (K:=DK) f l) = sumf (fun a => dp (f a)) l.
Proof. induction l as [|a l IH]; cbn [sumf]; [reflexivity|]. rewrite <- IH. reflexivity. Qed.

Definition dcst (a : K) : DK := dconst a.

(* eps-part of the force *)
Definition dforce d g (e : edge DK) : K := dp (d e) + (dp (g (dst e)) - dp (g (src e))).

Lemma rp_term dA dB gA gB (e : edge DK) :
  rp (rmul DK (flux dA gA e) (radd DK (dB e) (grad gB e))) = cre e * rforce dA gA e * rforce dB gB e.
Proof. reflexivity. Qed.

Lemma dp_term dA dB gA gB (e : edge DK) :
  dp (rmul DK (flux dA gA e) (radd DK (dB e) (grad gB e)))
  = cep e * rforce dA gA e * rforce dB gB e
    + cre e * dforce dA gA e * rforce dB gB e
    + cre e * rforce dA gA e * dforce dB gB e.
Proof.
  unfold flux, grad, dp, rp, cep, cre, rforce, dforce, dp, rp. cbn. ring.
Qed.

(* the real part of the dual model IS the model over K *)
Theorem re_Bform N dA dB gA gB :
  rp (Bform N dA dB gA gB) = sumf (fun e : edge DK => cre e * rforce dA gA e * rforce dB gB e) N.
Proof. unfold Bform. rewrite rp_sum. apply sumf_ext. intros e _. apply rp_term. Qed.

(* product rule *)
Theorem ep_Bform N dA dB gA gB :
  dp (Bform N dA dB gA gB)
  = sumf (fun e : edge DK => cep e * rforce dA gA e * rforce dB gB e) N
    + sumf (fun e : edge DK => cre e * dforce dA gA e * rforce dB gB e) N
    + sumf (fun e : edge DK => cre e * rforce dA gA e * dforce dB gB e) N.
Proof.
  unfold Bform. rewrite dp_sum. rewrite <- !sumf_add. apply sumf_ext. intros e _. apply dp_term.
Qed.

(* a corrector over the dual ring has a real part that is a corrector of the real-part network *)
Theorem dual_KCL_re N d g : weakKCL (K:=DK) N d g -> reKCL N d g.
Proof.
  intros H phi. specialize (H (fun x => dcst (phi x))).
  assert (E : rp (sumf (K:=DK) (fun e => rmul DK (flux d g e) (grad (fun x => dcst (phi x)) e)) N) = 0).
  { rewrite H. reflexivity. }
  rewrite rp_sum in E. rewrite <- E. apply sumf_ext. intros e _. reflexivity.
Qed.

(* ENVELOPE: the derivative of the transport coefficient needs the real corrector only *)
Theorem envelope N dA dB gA gB :
  reKCL N dA gA -> reKCL N dB gB ->
  dp (Bform N dA dB gA gB) = envelope_rhs N dA dB gA gB.
Proof.
  intros HA HB. rewrite ep_Bform. unfold envelope_rhs.
  assert (E1 : sumf (fun e : edge DK => cre e * dforce dA gA e * rforce dB gB e) N
               = sumf (fun e : edge DK => cre e * dp (dA e) * rforce dB gB e) N).
  { transitivity (sumf (fun e : edge DK => cre e * dp (dA e) * rforce dB gB e) N
                  + sumf (fun e : edge DK => cre e * rforce dB gB e * ((fun x => dp (gA x)) (dst e) - (fun x => dp (gA x)) (src e))) N).
    - rewrite <- sumf_add. apply sumf_ext. intros e _. unfold dforce. ring.
    - rewrite (HB (fun x => dp (gA x))). ring. }
  assert (E2 : sumf (fun e : edge DK => cre e * rforce dA gA e * dforce dB gB e) N
               = sumf (fun e : edge DK => cre e * rforce dA gA e * dp (dB e)) N).
  { transitivity (sumf (fun e : edge DK => cre e * rforce dA gA e * dp (dB e)) N
                  + sumf (fun e : edge DK => cre e * rforce dA gA e * ((fun x => dp (gB x)) (dst e) - (fun x => dp (gB x)) (src e))) N).
    - rewrite <- sumf_add. apply sumf_ext. intros e _. unfold dforce. ring.
    - rewrite (HA (fun x => dp (gB x))). ring. }
  rewrite E1, E2. reflexivity.
Qed.

(* for dual correctors (what differentiating the solve would give) the same formula holds, and
   by L_welldef over the dual ring value and derivative do not depend on the corrector chosen *)
Corollary envelope_dual N dA dB gA gB :
  weakKCL (K:=DK) N dA gA -> weakKCL (K:=DK) N dB gB ->
  dp (Bform N dA dB gA gB) = envelope_rhs N dA dB gA gB.
Proof. intros HA HB. apply envelope; apply dual_KCL_re; assumption. Qed.

(* diagonal case, the form quoted in the design:  sum c' f^2 + 2 sum c f d' *)
Corollary envelope_diag N d g :
  reKCL N d g ->
  dp (Bform N d d g g)
  = sumf (fun e : edge DK => cep e * (rforce d g e * rforce d g e)) N
    + (1 + 1) * sumf (fun e : edge DK => cre e * rforce d g e * dp (d e)) N.
Proof.
  intros H. rewrite (envelope N d d g g H H). unfold envelope_rhs.
  rewrite <- sumf_scal. rewrite <- !sumf_add. apply sumf_ext. intros e _. ring.
Qed.

(* the real-part network of Net.v: reKCL is its weak Kirchhoff law *)
Theorem reKCL_re_net N d g (dr : edge K -> K) :
  (forall e, In e N -> dr (re_edge e) = rp (d e)) ->
  (reKCL N d g <-> weakKCL (re_net N) dr (fun x => rp (g x))).
Proof.
  intros Hd. unfold reKCL, weakKCL, re_net. split; intros H phi; specialize (H phi).
  - rewrite sumf_map. rewrite <- H. apply sumf_ext. intros e He.
    unfold flux, grad, rforce; cbn [src dst cond re_edge]. rewrite (Hd e He). ring.
  - rewrite sumf_map in H. rewrite <- H. apply sumf_ext. intros e He.
    unfold flux, grad, rforce; cbn [src dst cond re_edge]. rewrite (Hd e He). ring.
Qed.

(* ---------------------------------------------------------------- checker soundness --- *)
Lemma all_kl_sound dim f : all_kl dim f = true -> forall k l, k < dim -> l < dim -> f k l = true.
Proof.
  unfold all_kl, dims. intros H k l Hk Hl. rewrite forallb_forall in H.
  assert (Ik : In k (seq 0 dim)) by (apply in_seq; lia).
  specialize (H k Ik). rewrite forallb_forall in H. apply H. apply in_seq. lia.
Qed.

Lemma in_bounds_sound (lo hi : list (list K)) k l v :
  in_bounds lo hi k l v = true ->
  rle K (nth l (nth k lo []) 0) v /\ rle K v (nth l (nth k hi []) 0).
Proof.
  unfold in_bounds. intro H. apply andb_true_iff in H. destruct H as [H1 H2].
  split; apply (rleb_spec K); assumption.
Qed.

(* When the checker answers 0: the supplied dual fields are correctors over the dual ring, and for
   ANY dual correctors whatsoever the value re(B) and the (division-free) derivative
   Z * envelope_rhs - re(B) * Z'  lie in the supplied bounds. *)
Theorem dual_check_sound n dim wT jumps gam Zw Zw' lo hi lo' hi' :
  dual_check n dim wT jumps gam Zw Zw' lo hi lo' hi' = 0%nat ->
  let N := net_of (K:=DK) wT jumps in
  (forall k, k < dim -> weakKCL (K:=DK) N (comp k) (fld (nth k gam []))) /\
  (forall k l, k < dim -> l < dim ->
     forall gk gl, weakKCL (K:=DK) N (comp k) gk -> weakKCL (K:=DK) N (comp l) gl ->
       (rle K (nth l (nth k lo []) 0) (rp (Bform N (comp k) (comp l) gk gl)) /\
        rle K (rp (Bform N (comp k) (comp l) gk gl)) (nth l (nth k hi []) 0)) /\
       (rle K (nth l (nth k lo' []) 0) (Zw * envelope_rhs N (comp k) (comp l) gk gl - rp (Bform N (comp k) (comp l) gk gl) * Zw') /\
        rle K (Zw * envelope_rhs N (comp k) (comp l) gk gl - rp (Bform N (comp k) (comp l) gk gl) * Zw') (nth l (nth k hi' []) 0))).
Proof.
  unfold dual_check. cbv zeta. set (N := net_of wT jumps).
  destruct (wfb N n) eqn:Hwf; cbn [negb]; [|discriminate].
  destruct (nonnegb N) eqn:Hnn; cbn [negb]; [|discriminate].
  destruct (revclosedb N) eqn:Hrev; cbn [negb]; [|discriminate].
  destruct (correctorsb N n dim gam) eqn:Hc; cbn [negb]; [|discriminate].
  destruct (all_kl dim (fun k l => in_bounds lo hi k l (rp (Lcomp N gam k l)))) eqn:Hb; cbn [negb]; [|discriminate].
  destruct (all_kl dim (fun k l => in_bounds lo' hi' k l (dquot Zw Zw' (Lcomp N gam k l)))) eqn:Hb'; cbn [negb]; [|discriminate].
  intros _.
  assert (Hcor := correctorsb_sound DK N n dim gam Hwf Hc).
  split; [exact Hcor|].
  intros k l Hk Hl gk gl Hgk Hgl.
  assert (EB : Bform N (comp k) (comp l) gk gl = Lcomp N gam k l).
  { unfold Lcomp. apply (L_welldef DK N (comp k) (comp l) gk (fld (nth k gam [])) gl (fld (nth l gam []))); [exact Hgk | apply Hcor; exact Hl]. }
  pose proof (all_kl_sound dim _ Hb k l Hk Hl) as B1. cbv beta in B1. apply in_bounds_sound in B1.
  pose proof (all_kl_sound dim _ Hb' k l Hk Hl) as B2. cbv beta in B2. apply in_bounds_sound in B2.
  rewrite <- (envelope_dual N (comp k) (comp l) gk gl Hgk Hgl).
  rewrite EB. split; [exact B1 | exact B2].
Qed.

End DualNetProofs.

(* ---------------------------------------------------------------- non-vacuity --------- *)
From Coq Require Import ZArith.
Module Example.
Local Open Scope Z_scope.
Notation DZ := (Dual Zring).
Definition dz (a b : Z) : DZ := mkD (K:=Zring) a b.
(* two sites joined by two kinds of bonds with displacements +2 and -4 (a 1-D chain with a 2-site cell),
   conductances c1 = 1 + eps, c2 = 1 + 3 eps.  Kirchhoff at site 1:  c1 (2 + g) + c2 (g - 4) = 0, so
   g = (4 c2 - 2 c1)/(c1 + c2) = 1 + 3 eps, and B = 2 c1 (2 + g)^2 + 2 c2 (g - 4)^2 = 36 + 72 eps:
   value 36, derivative 72 (with Z = 1, Z' = 0). *)
Definition jumpsE : list (jump DZ) :=
  [mkJump (K:=DZ) 0 1 0 [dz 2 0]; mkJump (K:=DZ) 1 0 0 [dz (-2) 0];
   mkJump (K:=DZ) 0 1 1 [dz (-4) 0]; mkJump (K:=DZ) 1 0 1 [dz 4 0]].
Definition wTE : list DZ := [dz 1 1; dz 1 3].
Definition gamE : list (list DZ) := [[dz 0 0; dz 1 3]].

Example dual_check_ex :
  dual_check (K:=Zring) 2 1 wTE jumpsE gamE 1 0 [[36]] [[36]] [[72]] [[72]] = 0%nat.
Proof. vm_compute. reflexivity. Qed.

Example dual_check_rejects :
  dual_check (K:=Zring) 2 1 wTE jumpsE [[dz 0 0; dz 1 0]] 1 0 [[36]] [[36]] [[72]] [[72]] = 4%nat
  /\ dual_check (K:=Zring) 2 1 wTE jumpsE gamE 1 0 [[36]] [[36]] [[73]] [[80]] = 6%nat.
Proof. split; vm_compute; reflexivity. Qed.
End Example.
