#!/bin/bash
# tools/seedtest.sh <dir-with-patch.diff,demo.py,meta.json> <Cid> [extra check ids...]
# Confirms a seeded change (demo passes on the clean tree, fails with the change) and runs our checks against it.
# Uses a scratch worktree of /repo HEAD (so running builders are not disturbed); prints a summary and stores
# the result under /verif/seeded/<Cid>/.
set -u
SRC=$1; CID=$2; shift 2; EXTRA="$*"
W=/tmp/seedrun_$$_$CID
git -C /repo worktree add -f $W HEAD -q || exit 2
trap "git -C /repo worktree remove --force $W >/dev/null 2>&1" EXIT
OUT=/verif/seeded/${OUTNAME:-$CID}; mkdir -p $OUT
if [ "$(readlink -f $SRC)" != "$(readlink -f $OUT)" ]; then cp $SRC/patch.diff $SRC/demo.py $OUT/ ; cp $SRC/meta.json $OUT/meta.author.json; fi   # re-run mode: SRC is the stored copy
cd $W
PYTHONPATH=$W /venv/bin/python -W ignore $OUT/demo.py > $OUT/demo_clean.log 2>&1; RC0=$?
git apply $OUT/patch.diff || { echo "PATCH DOES NOT APPLY"; exit 2; }
PYTHONPATH=$W /venv/bin/python -W ignore $OUT/demo.py > $OUT/demo_changed.log 2>&1; RC1=$?
echo "demo clean rc=$RC0 changed rc=$RC1"
RES=""
for c in $CID $EXTRA; do
  VERIF_EVIDENCE_DIR=$OUT/evidence VERIF_REPLAY_DIR=$OUT/replays ONSAGER_REPO=$W timeout 2400 /verif/check $c --tier ${TIER:-quick} > $OUT/check_$c.log 2>&1; rc=$?
  nv=$(grep -c "^VIOLATION" $OUT/check_$c.log)
  keys=$(grep "^\[$c\] violation" $OUT/check_$c.log | cut -c1-160 | sort | uniq -c | sort -rn | head -3 | tr '\n' ';')
  echo "check $c rc=$rc violations=$nv :: $keys"
  RES="$RES $c:rc=$rc:nv=$nv"
done
echo "{\"demo_clean_rc\": $RC0, \"demo_changed_rc\": $RC1, \"checks\": \"$RES\", \"tier\": \"${TIER:-quick}\", \"base\": \"$(git -C /repo log --format=%h -1)\"}" > $OUT/result.json
rm -rf $OUT/replays/*/violation_[1-9]*.json 2>/dev/null  # keep one replay per run as the record
# meta.json merged: the author's description + what we ran to confirm it
python3 - "$OUT" "$CID" <<'PY'
import json, sys, os
out, cid = sys.argv[1], sys.argv[2]
a = json.load(open(os.path.join(out, "meta.author.json"))); r = json.load(open(os.path.join(out, "result.json")))
json.dump({"property": cid, "what": a.get("what"), "needs": a.get("needs"), "author_test_suite_line": a.get("tests"),
           "confirmed": {"demo_on_clean_tree_exit": r["demo_clean_rc"], "demo_with_change_exit": r["demo_changed_rc"],
                         "base_commit": r["base"], "how": "tools/seedtest.sh: scratch git worktree of /repo HEAD, demo run clean and after `git apply patch.diff`, then ./check <id> --tier %s with ONSAGER_REPO pointing at the changed tree; worktree removed afterwards" % r["tier"],
                         "checks": r["checks"].split()}}, open(os.path.join(out, "meta.json"), "w"), indent=1)
PY
