#!/usr/bin/env python3
"""Regenerate MANIFEST.json from the META dictionaries of harness/cXX.py (source of truth)."""
import ast, json, os, re, sys
V = os.path.dirname(os.path.dirname(os.path.abspath(__file__)))
props = [json.loads(l) for l in open(os.path.join(V, "properties.jsonl"))]
checks, na = [], []
NA_REASON = {}
nafile = os.path.join(V, "tools", "not_applicable.json")
if os.path.exists(nafile): NA_REASON = json.load(open(nafile))
READY = set(open(os.path.join(V, "tools", "ready.txt")).read().split())
for p in props:
    pid = p["id"]
    f = os.path.join(V, "harness", pid.lower() + ".py")
    meta = None
    if os.path.exists(f) and pid in READY:
        tree = ast.parse(open(f).read())
        for node in tree.body:
            if isinstance(node, ast.Assign) and getattr(node.targets[0], "id", None) == "META":
                v = node.value
                if isinstance(v, ast.Call):
                    meta = {k.arg: ast.literal_eval(k.value) for k in v.keywords}
                else:
                    meta = ast.literal_eval(v)
    if meta is None:
        na.append({"property_id": pid, "reason": NA_REASON.get(pid, "check not built yet in this round (planned: DESIGN.md section 4 %s); no claim is made" % pid)})
        continue
    checks.append({
        "property_id": pid,
        "quick_cmd": "./check %s --tier quick" % pid,
        "thorough_cmd": "./check %s --tier thorough" % pid,
        "evidence_file": "/verif/evidence/%s.json" % pid,
        "replay_cmd_template": "./check %s --replay {path}" % pid,
        "engine": "coq-proof+correspondence",
        "level_claimed": {"category": meta.get("level", "proof"), "text": meta["text"], "design_ref": meta.get("design_ref", "DESIGN.md section 4 " + pid)},
        "level_note": meta["note"],
        "technique": meta["technique"],
    })
hooks_commits = []
man = {
    "version": 1,
    "setup_cmd": "./check setup",
    "hooks": {"guard": "ONSAGER_VERIF", "enable": "no source hooks: checks set ONSAGER_VERIF=1 but /repo contains no guarded code; only unguarded fix: commits",
              "baseline_off_cmd": "cd /repo && /venv/bin/python -m pytest -ra -q -p no:cacheprovider --timeout=900 --continue-on-collection-errors",
              "source_commits": hooks_commits, "add_only": True},
    "engines": [{"name": "coq-proof+correspondence", "path": "/verif/check",
                 "serves_properties": [c["property_id"] for c in checks],
                 "kind_free_text": "Coq 8.16.1 theorems about executable Gallina models (coq/), tied to /repo on every run by a correspondence check (model evaluated by coqc/vm_compute on the same inputs as the implementation) plus a direct evaluator that searches for a failing input"}],
    "checks": checks,
    "notes": "See DESIGN.md. known_findings.txt lists repaired (fixed:) and recorded (known:) defects.",
    "not_applicable": na,
}
json.dump(man, open(os.path.join(V, "MANIFEST.json"), "w"), indent=1)
print("checks:", len(checks), "not claimed:", len(na))
