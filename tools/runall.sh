#!/bin/bash
# tools/runall.sh [tier] [parallel] : run every registered check on /repo, 1 summary line each
TIER=${1:-quick}; P=${2:-4}
cd /verif; mkdir -p build/logs
cat tools/ready.txt | tr ' ' '\n' | grep . | xargs -P $P -I{} bash -c 'timeout 3000 ./check {} --tier '$TIER' > build/logs/all_{}.log 2>&1; echo "{} exit $? $(tail -1 build/logs/all_{}.log | cut -c1-140)"'
