#!/usr/bin/env python3
"""assemble DESIGN.md from design_src/head.md, design_notes/Cxx.md, known_findings.txt, seeded/*/"""
import os, json, re, glob
V = os.path.dirname(os.path.dirname(os.path.abspath(__file__)))
out = [open(os.path.join(V, "design_src", "head.md")).read()]
props = [json.loads(l) for l in open(os.path.join(V, "properties.jsonl"))]
for p in props:
    f = os.path.join(V, "design_notes", p["id"] + ".md")
    if os.path.exists(f):
        t = open(f).read().strip()
        t = re.sub(r"^# ", "### ", t, flags=re.M) if t.startswith("# ") else t
        t = re.sub(r"^## ", "#### ", t, flags=re.M)
        out.append(t + "\n")
    else:
        out.append("### %s — %s\n\n(check not built yet; plan: round-0 design)\n" % (p["id"], p["title"]))
out.append("\n---------------------------------------------------------------------------\n\n## 5. Findings\n\n"
           "Every line of `known_findings.txt` (`fixed:` = repaired by a separate minimal `fix:` commit in /repo, suppresses nothing; "
           "`known:` = recorded, suppresses exactly its key):\n")
for l in open(os.path.join(V, "known_findings.txt")):
    l = l.strip()
    if l.startswith("fixed:") or l.startswith("known:"): out.append("* " + l)
out.append("")
out.append(open(os.path.join(V, "design_src", "tail.md")).read().split("## 10. Cost")[0])
out.append("## 9. Seeded changes (independent sub-agents, nothing from /verif) and which checks catch them\n\n"
           "Each change passes the unedited test suite (291 passed) and comes with a demo that passes on the clean tree and fails with the "
           "change; confirmed and run by `tools/seedtest.sh` in a scratch worktree of /repo HEAD.\n\n"
           "| property | change (author's description, abridged) | needs | our check(s) |\n|---|---|---|---|")
for d in sorted(glob.glob(os.path.join(V, "seeded", "C*"))):
    try:
        m = json.load(open(os.path.join(d, "meta.author.json"))); r = json.load(open(os.path.join(d, "result.json")))
    except Exception:
        continue
    res = []
    for tok in r.get("checks", "").split():
        c, rc, nv = tok.split(":")
        res.append("%s %s" % (c, "CAUGHT" if rc == "rc=1" else ("missed" if rc == "rc=0" else rc)))
    extra = ""
    nf = os.path.join(d, "note.txt")
    if os.path.exists(nf): extra = " — " + open(nf).read().strip()
    out.append("| %s | %s | %s | %s (%s tier)%s |" % (os.path.basename(d).replace("-r2", " (2nd)"), str(m.get("what", ""))[:260].replace("|", "/").replace("\n", " "),
                                                     str(m.get("needs", ""))[:200].replace("|", "/").replace("\n", " "), ", ".join(res), r.get("tier", "quick"), extra))
out.append("")
out.append("## 10. Cost" + open(os.path.join(V, "design_src", "tail.md")).read().split("## 10. Cost")[1])
open(os.path.join(V, "DESIGN.md"), "w").write("\n".join(out))
print("DESIGN.md written,", sum(len(x) for x in out), "chars")
