#!/bin/bash
# independent re-check of every compiled property file (and everything it depends on) with coqchk; prints the axiom summary
cd /verif/coq || exit 2
mods=$(ls Properties/*.vo | sed 's/\.vo$//; s#/#.#; s/^/Onsager./')
( ulimit -s unlimited 2>/dev/null; timeout 7200 coqchk -silent -o -Q . Onsager $mods ) > /verif/build/coqchk.log 2>&1
rc=$?
tail -40 /verif/build/coqchk.log
echo "coqchk rc=$rc"
exit $rc
