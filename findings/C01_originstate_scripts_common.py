import random, sys
import numpy as np
np.set_printoptions(linewidth=200, precision=6, suppress=True)
from harness import gen, vm
from harness.c01 import polar_projector, site_contrib, probs

def build(name, Nth=1, seed=1, maxshell=1):
    rng = random.Random(seed)
    crys, chem = gen.named(name)
    cut, sl, jn = gen.percolating_network(crys, chem, rng, maxshell=maxshell, maxjumps=30)
    d = vm.make(crys, chem, sl, jn, Nth)
    return d, rng

def site_contrib_gauged(d, bFV, bFT0):
    """as c01.site_contrib, but with the unit-cell corrector in the gauge of GFcalc.biascorrection (sum_v pV[v] gamma[v] = 0);
    only matters for truly polar crystals, where the origin-state ghost term depends on the gauge"""
    N = d.N; dim = d.crys.dim; invmap = d.invmap
    W = np.zeros((N, N)); b = np.zeros((N, dim)); c0 = np.zeros((N, dim, dim))
    for jt, jl in enumerate(d.om0_jn):
        for (i, j), dx in jl:
            r = np.exp(-bFT0[jt] + bFV[invmap[i]]); W[i, j] += r; W[i, i] -= r; b[i] += r * dx; c0[i] += 0.5 * r * np.outer(dx, dx)
    gam = np.linalg.lstsq(W, -b, rcond=None)[0]
    pV = np.array([np.exp(min(bFV) - bFV[invmap[i]]) for i in range(N)]); pV *= N / pV.sum()
    gam = gam - (pV[:, None] * gam).sum(0) / N
    return np.array([c0[i] - 0.5 * (np.outer(b[i], gam[i]) + np.outer(gam[i], b[i])) for i in range(N)])

def chainvals(d, args, M):
    o = vm.oracle(d, args, M)
    pV, pS = probs(d, args[0], args[1]); cc = site_contrib_gauged(d, args[0], args[3])
    X = sum(pS[s_] * pV[s_] * cc[s_] for s_ in range(d.N)) / d.N
    return [o["L0vv"], o["Lss"], o["Lsv"], o["Lvv"] - o["Lvv0"] + X]

def extrap(d, args, Ms):
    dd = d.crys.dim
    vals = [chainvals(d, args, M) for M in Ms]
    # Richardson with last two
    M1, M2 = Ms[-2], Ms[-1]
    ext = [(M2**dd*b - M1**dd*a)/(M2**dd - M1**dd) for a, b in zip(vals[-2], vals[-1])]
    return vals, ext
