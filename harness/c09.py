"""C09  Equivalent descriptions of the same crystal give the same transport.

Theorems (Properties/C09.v): a re-description by a state relabelling and an invertible integer matrix on
lattice-coordinate displacements transforms the tensor as Rm L Rm^T (=> same Cartesian tensor); a non-reduced
supercell description fibres over the primitive one (lumping: pulled-back corrector, k-fold coefficient, same
per-site normalisation).
Tie / evaluator: for crystals of the pool build (a) a random unimodular re-description (new primitive basis
A U, positions U^-1 u + integer shifts, atom order permuted) and (b) a non-reduced supercell description (integer
matrix of determinant 2..4, all translates listed), both kept as given (noreduce=True); sites and jump classes of the
new description are matched to the original by Cartesian geometry (translation of the origin allowed) and given the
same data; Interstitial.diffusivity must agree to 1e-9, VacancyMediated.Lij (2-D, unimodular) within
Green-function accuracy 2e-3 (different k-meshes).  (a) also as an exact Coq tier: the integer network of the new
description is map_net (U^-1, p) of the old one up to permutation (decided over Z), which is the premise of
C09_redescription.
Descriptions on which crys.G of the non-reduced cell is not a group (known C18 findings for noreduce input) are
skipped and counted."""
META = dict(
    level="proof",
    text=("Theorems: tensor transformation under relabelling + integer basis change (L_transform) and lumping for supercell "
          "descriptions. Tie: Coq decides over Z that the re-described network is the map_net image of the original; evaluator "
          "compares Interstitial.diffusivity (1e-9) and VacancyMediated.Lij (2e-3, GF accuracy) between original, unimodular "
          "re-descriptions and non-reduced supercells with data assigned by Cartesian equivalence."),
    note=("Trusted: Coq kernel/vm_compute; harness matching of sites/jumps by Cartesian geometry; non-reduced descriptions whose "
          "symmetry group is incomplete (C18 known findings) are skipped; tolerance 1e-9 (interstitial), 2e-3 (Lij, k-mesh differs)."),
    technique="Coq proof (L_transform, lumping) + map_net correspondence over Z + re-description evaluator",
)

import itertools
import numpy as np
from fractions import Fraction
from . import gen, vm, tcommon
from .lib import CoqFailure, coq_Z, coq_nat, coq_list
from . import exact


def random_unimodular(rng, dim):
    U = np.eye(dim, dtype=int)
    for _ in range(rng.randint(1, 3)):
        kind = rng.choice(["shear", "perm", "sign"])
        E = np.eye(dim, dtype=int)
        if kind == "shear":
            i, j = rng.sample(range(dim), 2); E[i, j] = rng.choice([-1, 1])
        elif kind == "perm":
            i, j = rng.sample(range(dim), 2); E[[i, j]] = E[[j, i]]
            E[:, 0] *= -1   # keep det +1
        else:
            i, j = rng.sample(range(dim), 2); E[i, i] = -1; E[j, j] = -1
        U = U @ E
    if round(np.linalg.det(U)) != 1: U[:, 0] *= -1
    return U


def strong_shear(rng, dim):
    U = np.eye(dim, dtype=int)
    for _ in range(rng.randint(1, 2)):
        E = np.eye(dim, dtype=int)
        i, j = rng.sample(range(dim), 2); E[i, j] = rng.choice([-3, -2, 2, 3])
        U = U @ E
    return U


def redescribe(crys, rng, kind):
    """returns (crys2, label) : same physical crystal, different description"""
    from onsager import crystal
    dim = crys.dim
    if kind in ("unimodular", "sheared"):
        U = random_unimodular(rng, dim) if kind == "unimodular" else strong_shear(rng, dim)
        Ui = np.round(np.linalg.inv(U)).astype(int)
        basis = []
        for atoms in crys.basis:
            ul = [Ui @ u + np.array([rng.randint(-1, 1) for _ in range(dim)]) for u in atoms]
            rng.shuffle(ul)
            basis.append(ul)
        return crystal.Crystal(crys.lattice @ U, basis, chemistry=crys.chemistry, noreduce=True), "U=%s" % U.tolist()
    else:
        for _ in range(20):
            S = np.eye(dim, dtype=int)
            i = rng.randrange(dim); S[i, i] = rng.choice([2, 3])
            if rng.random() < 0.5:
                j = rng.choice([k for k in range(dim) if k != i]); S[j, i] = rng.choice([0, 1])
            if 2 <= round(abs(np.linalg.det(S))) <= 4: break
        Si = np.linalg.inv(S)
        n = int(round(abs(np.linalg.det(S))))
        shifts = []
        for R in itertools.product(range(-3, 4), repeat=dim):
            v = Si @ np.array(R)
            v = v - np.floor(v + 1e-9)
            if not any(np.allclose(v, w, atol=1e-9) for w in shifts): shifts.append(v)
        shifts = shifts[:n] if len(shifts) >= n else shifts
        if len(shifts) != n: return None, None
        basis = [[(Si @ u + s) for u in atoms for s in shifts] for atoms in crys.basis]
        for b in basis: rng.shuffle(b)
        if kind == "supercell-reduced":
            # the library itself folds the listed supercell back (Crystal.reduce + minlattice): atoms listed in random order
            return crystal.Crystal(crys.lattice @ S, basis, chemistry=crys.chemistry), "S=%s reduced by the constructor" % S.tolist()
        return crystal.Crystal(crys.lattice @ S, basis, chemistry=crys.chemistry, noreduce=True), "S=%s" % S.tolist()


def obstruction_bounds(crys, chem, cutoff, cd, eps=1e-6):
    """(lo, hi): number of jumps of species chem shorter than the cutoff (per cell, directed) that are certainly / possibly
    unobstructed: a jump is obstructed when an atom of another species lies within cd of the CLOSED segment between its end
    points (0 <= t <= 1, the library's rule).  'Certainly unobstructed': no atom with -eps <= t <= 1+eps within cd+eps;
    'possibly': no atom with eps <= t <= 1-eps within cd-eps.  Brute force over a box that covers cutoff + cd."""
    A = crys.lattice; dim = crys.dim
    nbox = [int(np.ceil((cutoff + cd + 1e-9) * np.linalg.norm(crys.invlatt[i])) + 1) for i in range(dim)]   # |row i of A^-1| bounds coefficients
    cells = np.array(list(itertools.product(*[range(-n, n + 1) for n in nbox])))
    T = cells @ A.T
    sites = [A @ u for u in crys.basis[chem]]
    hosts = np.array([A @ u for c, b in enumerate(crys.basis) if c != chem for u in b])
    lo = hi = 0
    for xi in sites:
        H = (hosts[:, None, :] + T[None, :, :]).reshape(-1, dim) - xi if len(hosts) else np.zeros((0, dim))
        for xj in sites:
            dxs = xj + T - xi
            L2 = np.einsum("ij,ij->i", dxs, dxs)
            for dx, l2 in zip(dxs[(L2 > 1e-12) & (L2 < cutoff * cutoff)], L2[(L2 > 1e-12) & (L2 < cutoff * cutoff)]):
                if len(H) == 0: lo += 1; hi += 1; continue
                t = H @ dx / l2
                perp = np.sqrt(np.maximum(np.einsum("ij,ij->i", H, H) - t * t * l2, 0.0))
                sure_block = np.any((t >= eps) & (t <= 1 - eps) & (perp < cd - eps)) if cd > eps else np.any((t >= eps) & (t <= 1 - eps) & (perp < 1e-9))
                maybe_block = np.any((t >= -eps) & (t <= 1 + eps) & (perp < cd + eps))
                if not maybe_block: lo += 1
                if not sure_block: hi += 1
    return lo, hi


def match(crys, chem, sl, jn, crys2, sl2, jn2):
    """map Wyckoff sets and jump classes of crys2 to those of crys by Cartesian geometry (origin shift allowed).
    Returns (wmap, tmap, sitemap) or None"""
    A, A2 = crys.lattice, crys2.lattice
    x1 = [A @ u for u in crys.basis[chem]]
    x2 = [A2 @ u for u in crys2.basis[chem]]
    def site_of(x):   # index in crys of Cartesian point x (mod lattice)
        for i, xi in enumerate(x1):
            d = crys.invlatt @ (x - xi)
            if np.allclose(d, np.round(d), atol=1e-7): return i
        return None
    for k in range(len(x1)):
        tau = x1[k] - x2[0]
        sm = [site_of(x + tau) for x in x2]
        if any(s is None for s in sm): continue
        # jumps must map as well
        jset = {}
        for t, jl in enumerate(jn):
            for (i, j), dx in jl: jset.setdefault((i, j), []).append((dx, t))
        tmap = []
        ok = True
        for jl in jn2:
            cls = set()
            for (i2, j2), dx2 in jl:
                cand = [t for (dx, t) in jset.get((sm[i2], sm[j2]), []) if np.allclose(dx, dx2, atol=1e-7)]
                if len(cand) != 1: ok = False; break
                cls.add(cand[0])
            if not ok or len(cls) != 1: ok = False; break
            tmap.append(cls.pop())
        if not ok: continue
        inv1 = {i: w for w, ws in enumerate(sl) for i in ws}
        wmap = []
        for ws in sl2:
            c = {inv1[sm[i]] for i in ws}
            if len(c) != 1: ok = False; break
            wmap.append(c.pop())
        if ok: return wmap, tmap, sm
    return None


MAP_IMPORTS = """From Coq Require Import List ZArith Bool Arith.
From Onsager Require Import Base.OrdRing Base.Instances Model.Net Model.Interstitial Model.NetMaps.
Import ListNotations.
Local Open Scope Z_scope.
Definition runmap (c : nat * list Z * list (jump Zring) * list Z * list (jump Zring) * list (list Z) * list nat) : bool :=
  let '(dim, wT, jumps, wT2, jumps2, Rm, p) := c in
  permb (K:=Zring) (map_net (K:=Zring) dim Rm (permfun p) (net_of (K:=Zring) wT2 jumps2)) (net_of (K:=Zring) wT jumps).
"""


def run(ck):
    from onsager import OnsagerCalc
    ck.rule = ("interstitial pool (named + random, 2-D/3-D) x {random unimodular basis change with atom permutation and integer shifts, "
               "non-reduced supercell det 2..4} x random data assigned by Cartesian equivalence; vacancy-mediated: 2-D unimodular; "
               "distinct = (crystal, re-description, data); non-trivial = re-description differs from identity")
    ck.trusted += ["harness/c09.py matching of sites and jump classes by Cartesian geometry"]
    ck.theorems()
    rng = ck.rng
    nr = ck.nprng(9)
    skipped = {"group-incomplete": 0, "no-match": 0, "construct-failed": 0}
    nint = 0
    map_terms, map_meta = [], []
    for label, crys, chem, cut, sl, jn, d in tcommon.interstitial_pool(ck, rng, ck.n(12, 50)):
        pre, bE, preT, bET = tcommon.random_interstitial_data(nr, sl, jn)
        D = d.diffusivity(pre, bE, preT, bET)
        for kind in ("unimodular", "sheared", "supercell", "supercell-reduced"):
            try:
                crys2, what = redescribe(crys, rng, kind)
            except Exception:
                crys2 = None
            if crys2 is None: skipped["construct-failed"] += 1; continue
            try:
                sl2 = crys2.sitelist(chem); jn2 = crys2.jumpnetwork(chem, cut)
            except Exception as e:
                ck.violation("sitelist/jumpnetwork raised %r on a re-described crystal" % e, {"crystal": repr(crys), "redescribed": repr(crys2), "how": what}, key="c09-raise"); continue
            # the SET of jumps within the cutoff is pure geometry: whatever symmetry group the (possibly non-reduced, strongly
            # sheared) description found, the number of distinct jumps per primitive cell must be the same
            ncell = int(round(abs(np.linalg.det(crys2.lattice) / np.linalg.det(crys.lattice))))
            j1 = {(i, j, tuple(np.round(dx, 6))) for t in jn for (i, j), dx in t}
            j2 = {(i, j, tuple(np.round(dx, 6))) for t in jn2 for (i, j), dx in t}
            ck.case(key=("count", label, round(cut, 5), kind, what), nontrivial=True, kind="jumpcount:" + kind)
            if len(j2) != ncell * len(j1):
                ck.violation("re-described crystal (%s) has %d distinct jumps within the cutoff, the original %d per primitive cell (x%d cells)" % (kind, len(j2), len(j1), ncell),
                             {"crystal": repr(crys), "chem": chem, "cutoff": cut, "redescribed": repr(crys2), "how": what}, key="c09-jump-count")
                continue
            # the same with an obstruction distance and a longer cutoff (jumps spanning several cells of the re-described lattice,
            # blocking atoms of the other species far from the initial site in cell units): still pure geometry
            if crys.Nchem > 1:
                cd = rng.choice([0.0, rng.uniform(0.1, 0.5)]); cut2 = cut * rng.choice([1.3, 1.7])
                try:
                    o1 = {(i, j, tuple(np.round(dx, 6))) for t in crys.jumpnetwork(chem, cut2, cd) for (i, j), dx in t}
                    o2 = {(i, j, tuple(np.round(dx, 6))) for t in crys2.jumpnetwork(chem, cut2, cd) for (i, j), dx in t}
                except Exception as e:
                    ck.violation("jumpnetwork(closestdistance=%.3g) raised %r" % (cd, e), {"crystal": repr(crys), "redescribed": repr(crys2), "how": what}, key="c09-raise"); o1 = o2 = None
                if o1 is not None:
                    lo, hi = obstruction_bounds(crys, chem, cut2, cd)
                    ck.case(key=("count-obstructed", label, round(cut2, 5), round(cd, 5), kind, what), nontrivial=True, kind="jumpcount-obstructed:" + kind)
                    # knife-edge geometry (a blocking atom exactly abreast of an end point, or exactly at the obstruction distance)
                    # is decided by roundoff in either description: both counts must lie between the robust bounds of the exact
                    # geometric count; when the bounds coincide this is equality
                    if not (lo <= len(o1) <= hi and ncell * lo <= len(o2) <= ncell * hi):
                        ck.violation("with closestdistance=%.3g and cutoff %.4g the original description has %d unobstructed jumps and the re-described crystal (%s) "
                                     "%d (x%d cells); exact geometric count per primitive cell between %d and %d" % (cd, cut2, len(o1), kind, len(o2), ncell, lo, hi),
                                     {"crystal": repr(crys), "chem": chem, "cutoff": cut2, "closestdistance": cd, "redescribed": repr(crys2), "how": what},
                                     key="c09-jump-count-obstructed")
                    if False:
                        ck.violation("with closestdistance=%.3g and cutoff %.4g the re-described crystal (%s) has %d distinct unobstructed jumps, the original %d per "
                                     "primitive cell (x%d cells)" % (cd, cut2, kind, len(o2), len(o1), ncell),
                                     {"crystal": repr(crys), "chem": chem, "cutoff": cut2, "closestdistance": cd, "redescribed": repr(crys2), "how": what},
                                     key="c09-jump-count-obstructed")
            if kind == "supercell-reduced" and (ncell != 1 or len(crys2.G) != len(crys.G)):
                ck.violation("a supercell listing handed to Crystal() is not folded back to the same crystal: volume ratio %d, %d operations instead of %d"
                             % (ncell, len(crys2.G), len(crys.G)),
                             {"crystal": repr(crys), "chem": chem, "redescribed": repr(crys2), "how": what}, key="c09-reduced-crystal")
                continue
            if kind in ("unimodular", "sheared") and len(crys2.G) != len(crys.G): skipped["group-incomplete"] += 1; continue
            flat = sorted(i for w in sl2 for i in w)
            if flat != list(range(len(crys2.basis[chem]))):
                # Wyckoff sets of a non-reduced cell overlap: its symmetry group lacks the pure translations (C18 known
                # finding c18-noreduce-nonprimitive); such a description is outside what the calculators accept
                skipped["group-incomplete"] += 1; continue
            jkeys = [(i, j, tuple(np.round(dx, 6))) for jl in jn2 for (i, j), dx in jl]
            if len(set(jkeys)) != len(jkeys):
                # a jump listed in two classes: the group of the non-reduced description is not closed (C18 known findings)
                skipped["group-incomplete"] += 1; continue
            m = match(crys, chem, sl, jn, crys2, sl2, jn2)
            if m is None:
                # jump multiset differs: only legitimate when the (incomplete) group of a non-reduced cell split classes inconsistently
                n1 = sum(len(t) for t in jn) * (1 if kind == "unimodular" else int(round(abs(np.linalg.det(crys2.lattice) / np.linalg.det(crys.lattice)))))
                n2 = sum(len(t) for t in jn2)
                if n1 != n2:
                    ck.violation("re-described crystal has %d jumps within the cutoff, the original %d (per cell ratio accounted for)" % (n2, n1),
                                 {"crystal": repr(crys), "chem": chem, "cutoff": cut, "redescribed": repr(crys2), "how": what}, key="c09-jump-count")
                else:
                    skipped["no-match"] += 1
                continue
            wmap, tmap, sm = m
            pre2 = np.array([pre[w] for w in wmap]); bE2 = np.array([bE[w] for w in wmap])
            preT2 = np.array([preT[t] for t in tmap]); bET2 = np.array([bET[t] for t in tmap])
            try:
                d2 = OnsagerCalc.Interstitial(crys2, chem, sl2, jn2)
                D2 = d2.diffusivity(pre2, bE2, preT2, bET2)
            except Exception as e:
                ck.violation("Interstitial raised %r on a re-described crystal" % e,
                             {"crystal": repr(crys), "chem": chem, "cutoff": cut, "redescribed": repr(crys2), "how": what}, key="c09-raise"); continue
            nint += 1
            err = np.abs(D2 - D).max() / np.abs(D).max()
            ck.case(key=("int", label, round(cut, 5), kind, what, pre.round(10).tolist()), nontrivial=True, kind="interstitial:" + kind,
                    sample={"crystal": label, "how": what, "rel_err": float(err), "sites": [d.N, d2.N]} if nint <= 3 else None)
            if err > 1e-9:
                ck.violation("interstitial diffusivity differs between equivalent descriptions (%s): %.3g relative" % (kind, err),
                             {"crystal": repr(crys), "chem": chem, "cutoff": cut, "redescribed": repr(crys2), "how": what,
                              "pre": pre.tolist(), "betaene": bE.tolist(), "preT": preT.tolist(), "betaeneT": bET.tolist(),
                              "D": D.tolist(), "D2": D2.tolist()}, key="c09-int-" + kind)
            # exact tier (unimodular): network of description 2 mapped by (Rm = lattice-coordinate change, p = site map) is the original
            if kind in ("unimodular", "sheared"):
                j1 = tcommon.unitcell_network(crys, jn); j2 = tcommon.unitcell_network(crys2, jn2)
                if j1 is not None and j2 is not None and len(j1) <= 60:
                    Rm = np.round(crys.invlatt @ crys2.lattice).astype(int)   # dx_latt(1) = Rm dx_latt(2)
                    wT = [Fraction(gen.dyadic(rng, 0.25, 4, 3)) for _ in jn]
                    wT2 = [wT[t] for t in tmap]
                    sd = exact.lcm_den([x for (_, _, _, dx) in j1 + j2 for x in dx])
                    def jl(js): return coq_list(["mkJump (K:=Zring) %s %s %s %s" % (coq_nat(i), coq_nat(j), coq_nat(c), coq_list([coq_Z(int(x * sd)) for x in dx])) for (i, j, c, dx) in js])
                    map_terms.append("(%s, %s, %s, %s, %s, %s, %s)" % (coq_nat(crys.dim), coq_list([coq_Z(int(w * 8)) for w in wT]), jl(j1),
                                     coq_list([coq_Z(int(w * 8)) for w in wT2]), jl(j2), coq_list([coq_list([coq_Z(int(x)) for x in row]) for row in Rm]),
                                     coq_list([coq_nat(s) for s in sm])))
                    map_meta.append(dict(crystal=repr(crys), redescribed=repr(crys2), how=what, cutoff=cut))
    import re
    try:
        res = []
        for a in range(0, len(map_terms), 20):
            out = ck.coq_cases("map_%d" % a, "Eval vm_compute in (map runmap %s)." % coq_list(map_terms[a:a + 20]), MAP_IMPORTS)
            res += re.findall(r"true|false", out[out.index("="):].split(":")[0])
        if len(res) != len(map_terms): raise CoqFailure("could not parse map_net output")
    except CoqFailure as e:
        ck.broken_proof = "correspondence (map_net image of the re-described network): %s" % e
        res = []
    for m, r in zip(map_meta, res):
        ck.case(key=("exact-map", m["crystal"], m["how"]), nontrivial=True, kind="exact:map_net")
        if r != "true":
            ck.violation("the jump network of the re-described crystal is not the (basis change, site map) image of the original network", m, key="c09-exact-map")
    ck.extra["traces_validated_against_impl"] = len(res)
    # ---------------- vacancy-mediated, 2-D, unimodular ---------------------------------------------------
    nvm = 0
    for nm in (["square", "honeycomb"] if ck.quick else ["square", "honeycomb", "tria", "sq2w", "rect"]):
        crys, chem = gen.named(nm)
        net = gen.percolating_network(crys, chem, rng, maxshell=1, maxjumps=30)
        if net is None: continue
        cut, sl, jn = net
        try:
            crys2, what = redescribe(crys, rng, "unimodular")
        except Exception:
            continue
        if len(crys2.G) != len(crys.G): skipped["group-incomplete"] += 1; continue
        sl2 = crys2.sitelist(chem); jn2 = crys2.jumpnetwork(chem, cut)
        m = match(crys, chem, sl, jn, crys2, sl2, jn2)
        if m is None: skipped["no-match"] += 1; continue
        d1 = vm.make(crys, chem, sl, jn, 1); d2 = vm.make(crys2, chem, sl2, jn2, 1)
        # physically identical data through tags is not possible across descriptions (tags are description dependent):
        # use data that depend only on the omega0 class / Wyckoff set plus LIMB, i.e. pure functions of matched classes
        wmap, tmap, sm = m
        Nw = len(sl)
        preV = np.array([rng.uniform(.5, 2) for _ in range(Nw)]); eneV = np.array([rng.uniform(0, .4) for _ in range(Nw)])
        preS = np.array([rng.uniform(.5, 2) for _ in range(Nw)]); eneS = np.array([rng.uniform(0, .4) for _ in range(Nw)])
        preT0 = np.array([rng.uniform(.5, 2) for _ in jn]); eneT0 = np.array([rng.uniform(.6, 1.2) for _ in jn])
        def data(dd, wm, tm):
            th = dict(preV=np.array([preV[w] for w in wm]), eneV=np.array([eneV[w] for w in wm]),
                      preS=np.array([preS[w] for w in wm]), eneS=np.array([eneS[w] for w in wm]),
                      preSV=np.ones(dd.thermo.Nstars), eneSV=np.zeros(dd.thermo.Nstars),
                      preT0=np.array([preT0[t] for t in tm]), eneT0=np.array([eneT0[t] for t in tm]))
            th.update(dd.makeLIMBpreene(**th))
            # a physical interaction both descriptions can express identically: all exchange barriers lowered by 0.3
            th["eneT2"] = th["eneT2"] - 0.3
            return th
        L1 = [np.array(x) for x in d1.Lij(*d1.preene2betafree(1.0, **data(d1, list(range(Nw)), list(range(len(jn))))))]
        L2 = [np.array(x) for x in d2.Lij(*d2.preene2betafree(1.0, **data(d2, wmap, tmap)))]
        nvm += 1
        err = max(np.abs(a - b).max() for a, b in zip(L1, L2)) / np.abs(L1[0]).max()
        ck.case(key=("vm", nm, what), nontrivial=True, kind="vm:unimodular", sample={"crystal": nm, "how": what, "rel_err": float(err)})
        if err > 2e-3:
            ck.violation("vacancy-mediated coefficients differ between equivalent descriptions: %.3g relative" % err,
                         {"crystal": nm, "redescribed": repr(crys2), "how": what, "L": [x.tolist() for x in L1], "L2": [x.tolist() for x in L2]}, key="c09-vm")
    # ---------------- vacancy-mediated, several Wyckoff sets, pure re-ordering of the atom list -------------------------
    # (same lattice, same k-mesh: agreement to rounding; every order in which a later-listed atom belongs to an
    #  earlier Wyckoff set, so that "index of the set" and "index of its first site" differ)
    from onsager import crystal as _cr
    s3 = np.sqrt(3.0)
    multi = [("sq2w", gen.named("sq2w")[0]),
             ("rect3", _cr.Crystal(np.diag([1., 1.2]), [np.array([0., 0.]), np.array([.5, .3]), np.array([.5, .7])]))]
    if not ck.quick:
        multi.append(("omega3d", _cr.Crystal(np.array([[1., 0, 0], [-.5, s3 / 2, 0], [0, 0, .62]]).T,
                                            [np.array([0., 0, 0]), np.array([1. / 3, 2. / 3, .5]), np.array([2. / 3, 1. / 3, .5])])))
    nperm = 0
    for nm, crys in multi:
        chem = 0
        net = gen.percolating_network(crys, chem, rng, maxshell=1, maxjumps=40)
        if net is None: continue
        cut, sl, jn = net
        if len(sl) < 2: raise RuntimeError("harness: %s should have several Wyckoff sets" % nm)
        d1 = vm.make(crys, chem, sl, jn, 1)
        Nw = len(sl)
        preV = np.array([rng.uniform(.5, 2) for _ in range(Nw)]); eneV = np.array([0.5 * w + rng.uniform(0, .2) for w in range(Nw)])
        preS = np.array([rng.uniform(.5, 2) for _ in range(Nw)]); eneS = np.array([rng.uniform(0, .4) - 0.3 * w for w in range(Nw)])
        preT0 = np.array([rng.uniform(.5, 2) for _ in jn]); eneT0 = np.array([rng.uniform(.9, 1.4) for _ in jn])
        def data(dd, wm, tm):
            th = dict(preV=np.array([preV[w] for w in wm]), eneV=np.array([eneV[w] for w in wm]),
                      preS=np.array([preS[w] for w in wm]), eneS=np.array([eneS[w] for w in wm]),
                      preSV=np.ones(dd.thermo.Nstars), eneSV=np.zeros(dd.thermo.Nstars),
                      preT0=np.array([preT0[t] for t in tm]), eneT0=np.array([eneT0[t] for t in tm]))
            th.update(dd.makeLIMBpreene(**th))
            th["eneT2"] = th["eneT2"] - 0.3
            return th
        L1 = [np.array(x) for x in d1.Lij(*d1.preene2betafree(1.0, **data(d1, list(range(Nw)), list(range(len(jn))))))]
        nat = len(crys.basis[chem])
        orders = [list(range(nat))[::-1], list(range(1, nat)) + [0], [nat - 1] + list(range(nat - 1))]
        for order in (orders[:2] if ck.quick else orders):
            crys2 = _cr.Crystal(crys.lattice, [[crys.basis[chem][i] for i in order]], chemistry=crys.chemistry)
            sl2 = crys2.sitelist(chem); jn2 = crys2.jumpnetwork(chem, cut)
            m = match(crys, chem, sl, jn, crys2, sl2, jn2)
            if m is None: skipped["no-match"] += 1; continue
            wmap, tmap, sm = m
            d2 = vm.make(crys2, chem, sl2, jn2, 1)
            L2 = [np.array(x) for x in d2.Lij(*d2.preene2betafree(1.0, **data(d2, wmap, tmap)))]
            nperm += 1
            err = max(np.abs(a - b).max() for a, b in zip(L1, L2)) / np.abs(L1[0]).max()
            ck.case(key=("vm-perm", nm, order, preV.round(10).tolist()), nontrivial=True, kind="vm:atom-order",
                    sample={"crystal": nm, "order": order, "sitelist": [list(w) for w in sl2], "rel_err": float(err)} if nperm <= 2 else None)
            if err > 1e-7:
                ck.violation("vacancy-mediated coefficients depend on the order in which the atoms are listed: %.3g relative (sitelist %s vs %s)"
                             % (err, [list(w) for w in sl], [list(w) for w in sl2]),
                             {"crystal": nm, "order": order, "L": [x.tolist() for x in L1], "L2": [x.tolist() for x in L2]}, key="c09-vm-atom-order")
    ck.extra["vm_atom_order_cases"] = nperm
    ck.extra["skipped"] = skipped
    ck.extra["interstitial_cases"] = nint
    ck.extra["vm_cases"] = nvm
