"""C07  Results do not depend on the thermodynamic range beyond the interactions.

Theorems (Properties/C07.v): LIMB back-fill between non-interacting states is exactly the bare rate; equal edge
multisets give equal transport coefficients (any correctors, every torus).
Tie / evaluator: for Nthermo pairs (1,2) and (2,3) (2-D) build both calculators on the same crystal and network, draw
random tag data for ONE member tag of every class of the smaller calculator, feed the SAME tag dictionary to both
(tags2preene; the larger calculator back-fills the rest), and compare
 (a) the two one-solute/one-vacancy torus chains (same torus): rate matrices must be identical (1e-10) - the premise
     "same network" checked on the implementation's own classes;
 (b) all four tensors of Lij with the real Green function: 1e-7 relative (same GF calculator settings; the range
     dependence enters only through the Dyson truncation which is exact when there is no interaction outside);
crystals with 1- and 2-site bases, several Wyckoff sets, with and without origin-state vector bases."""
META = dict(
    level="proof",
    text=("Theorems: LIMB between non-interacting states is the bare rate; equal networks give equal coefficients. Tie: the "
          "torus chains built from the two calculators' own classes with the same tag data are compared edge by edge, and "
          "all four Lij tensors of the (N, N+1) calculators are compared, on 1- and 2-site crystals, pairs (1,2) and (2,3)."),
    note=("Trusted: Coq kernel; harness tag selection and torus chain construction; tolerance 1e-7 relative on Lij (two "
          "independent Green-function evaluations of the same rates), 1e-10 on chain rates."),
    technique="Coq proof (LIMB lemma, network equality) + same-chain comparison + two-calculator evaluator",
)

import numpy as np
from . import gen, vm, tcommon
from .c01 import polar_projector


def tagdata(d, rng):
    """random (pre, ene) for one randomly chosen member tag of every class of calculator d"""
    ud = {}
    for typ, (plo, phi, elo, ehi) in (("vacancy", (.5, 2, 0, .4)), ("solute", (.5, 2, 0, .4)), ("solute-vacancy", (.5, 2, -.4, .4)),
                                      ("omega0", (.5, 2, .6, 1.2)), ("omega1", (.5, 2, .6, 1.4)), ("omega2", (.5, 2, .4, 1.4))):
        for tags in d.tags[typ]:
            ud[rng.choice(tags)] = (rng.uniform(plo, phi), rng.uniform(elo, ehi))
    return ud


def chain_W(d, args, M):
    c = vm.torus_chain(d, *args, M=M, solute=True)
    W = np.zeros((c.n, c.n))
    for (x, y, rate, ds, dv, kind, k) in c.edges: W[x, y] += rate
    return W, c.w


def run(ck):
    ck.rule = ("named 1- and 2-site crystals (2-D and small 3-D) x Nthermo pair (1,2) [and (2,3) in 2-D] x random tag data "
               "for every class of the smaller calculator; distinct = (crystal, pair, data); non-trivial = interaction data differ "
               "from LIMB defaults (always, random)")
    ck.trusted += ["harness/c07.py tag selection; vm.torus_chain"]
    ck.theorems()
    rng = ck.rng
    names2 = ["square", "tria", "honeycomb", "sq2w", "rect", "rect-polar2d", "oblique2d"]
    names3 = ["sc", "b2", "tet"] + ([] if ck.quick else ["fcc", "bcc", "polar"])
    plan = [(nm, (1, 2)) for nm in names2] + [(nm, (2, 3)) for nm in (["square", "honeycomb"] if ck.quick else ["square", "tria", "honeycomb", "rect"])] + \
           [(nm, (1, 2)) for nm in names3]
    rng.shuffle(plan)
    plan = plan[:ck.n(5, len(plan))]
    # always: a crystal where a state of the OUTER kinetic shell is closer than a thermodynamic state (rect, b/a = 1.25, range 2:
    # (2a,b) at 2.36 is outer, (0,2b) at 2.5 is thermodynamic), so the star ordering by distance interleaves the two sets
    plan = [("rect", (2, 3))] + [x for x in plan if x != ("rect", (2, 3))]
    n = 0
    for nm, (N1, N2) in plan:
        crys, chem = gen.named(nm)
        net = gen.percolating_network(crys, chem, rng, maxshell=1, maxjumps=30)
        if net is None: continue
        cut, sl, jn = net
        d1 = vm.make(crys, chem, sl, jn, N1); d2 = vm.make(crys, chem, sl, jn, N2)
        for rep in range(ck.n(1, 2)):
            ud = tagdata(d1, rng)
            kT = rng.choice([0.6, 1.0])
            t1, miss1, dup1, bad1 = d1.tags2preene(ud, VERBOSE=True)
            t2, miss2, dup2, bad2 = d2.tags2preene(ud, VERBOSE=True)
            doc = {"crystal": nm, "cutoff": cut, "Nthermo": [N1, N2], "kT": kT, "tags": {k: list(v) for k, v in ud.items()}}
            if bad1 or bad2 or dup1 or dup2 or miss1:
                ck.violation("tag data of the smaller calculator not accepted cleanly: bad=%r/%r dup=%r/%r missing1=%r" % (bad1, bad2, dup1, dup2, list(miss1)),
                             doc, key="c07-tags")
            a1 = d1.preene2betafree(kT, **t1); a2 = d2.preene2betafree(kT, **t2)
            # (a) same chain
            M = vm.min_torus(d2)
            if d2.N * d2.N * M ** crys.dim <= (900 if ck.quick else 3000):
                W1, w1 = chain_W(d1, a1, M); W2, w2 = chain_W(d2, a2, M)
                e = max(np.abs(W1 - W2).max() / np.abs(W1).max(), np.abs(w1 - w2).max() / np.abs(w1).max())
                ck.case(key=("chain", nm, N1, N2, sorted(ud.items())), nontrivial=True, kind="chain:%s-(%d,%d)" % (nm, N1, N2),
                        sample={"tier": "same-chain", "crystal": nm, "pair": [N1, N2], "M": M, "states": len(w1), "max_rel_rate_diff": float(e)} if n < 2 else None)
                if e > 1e-10:
                    ck.violation("the (%d) and (%d) calculators describe different chains for the same tag data: rates differ by %.3g" % (N1, N2, e), doc, key="c07-chain")
            # (b) tensors
            try:
                L1 = [np.array(x) for x in d1.Lij(*a1)]; L2 = [np.array(x) for x in d2.Lij(*a2)]
            except Exception as ex:
                ck.violation("Lij raised %r" % ex, doc, key="c07-raise"); continue
            n += 1
            scale = np.abs(L1[0]).max()
            errs = [np.abs(x - y).max() / scale for x, y in zip(L1, L2)]
            ck.case(key=("Lij", nm, N1, N2, sorted(ud.items()), kT), nontrivial=True, kind="Lij:%s-(%d,%d)" % (nm, N1, N2),
                    sample={"tier": "Lij", "crystal": nm, "pair": [N1, N2], "rel_diff": [float(e) for e in errs]} if n <= 3 else None)
            doc.update(L_small=[x.tolist() for x in L1], L_large=[x.tolist() for x in L2])
            if max(errs) > 1e-7:
                Q, npolar = polar_projector(d1)
                eq = max(np.abs(Q @ (x - y) @ Q).max() / scale for x, y in zip(L1, L2))
                if npolar and eq <= 1e-7:
                    ck.violation("Nthermo %d vs %d differ by %.3g in the span of the site vector basis" % (N1, N2, max(errs)), doc, key="c07-originstate-vectorbasis")
                else:
                    ck.violation("Nthermo %d vs %d give different tensors (L0vv,Lss,Lsv,L1vv rel. diffs %s)" % (N1, N2, ["%.2g" % e for e in errs]), doc, key="c07-Lij")
    ck.extra["pairs_compared"] = n
