"""C07  Results do not depend on the thermodynamic range beyond the interactions.

Theorems (Properties/C07.v): LIMB back-fill between non-interacting states is exactly the bare rate; equal edge
multisets give equal transport coefficients (any correctors, every torus).
Tie / evaluator: for Nthermo pairs (1,2) and (2,3) (2-D) build both calculators on the same crystal and network, draw
random tag data for ONE member tag of every class of the smaller calculator, feed the SAME tag dictionary to both
(tags2preene; the larger calculator back-fills the rest), and compare
 (a) the two one-solute/one-vacancy torus chains (same torus): rate matrices must be identical (1e-10) - the premise
     "same network" checked on the implementation's own classes;
 (a') exact tier: for dyadic tag data on single-Wyckoff crystals the two chains are compared as integer edge multisets inside
     Coq (`permb` over Z) - the premise of C07_same_network_same_L decided exactly;
 (b) all four tensors of Lij with the real Green function: 1e-7 relative (same GF calculator settings; the range
     dependence enters only through the Dyson truncation which is exact when there is no interaction outside);
crystals with 1- and 2-site bases, several Wyckoff sets, with and without origin-state vector bases."""
META = dict(
    level="proof",
    text=("Theorems: LIMB between non-interacting states is the bare rate; equal networks give equal coefficients. Tie: the "
          "torus chains built from the two calculators' own classes with the same tag data are compared edge by edge, and "
          "all four Lij tensors of the (N, N+1) calculators are compared, on 1- and 2-site crystals, pairs (1,2) and (2,3)."),
    note=("Trusted: Coq kernel; harness tag selection and torus chain construction; tolerance 1e-7 relative on Lij (two "
          "independent Green-function evaluations of the same rates), 1e-10 on chain rates."),
    technique="Coq proof (LIMB lemma, network equality) + same-chain comparison + two-calculator evaluator",
)

import numpy as np
from fractions import Fraction
from . import gen, vm, tcommon, exact
from .c01 import polar_projector
from .lib import CoqFailure, coq_Z, coq_nat, coq_list

NET_IMPORTS = """From Coq Require Import List ZArith Bool Arith.
From Onsager Require Import Base.OrdRing Base.Instances Model.Net Model.Interstitial Model.NetMaps.
Import ListNotations.
Local Open Scope Z_scope.
Definition mk (a : nat * nat * Z * list Z) : edge Zring := let '(s, t, c, d) := a in mkEdge (K:=Zring) s t c d.
Definition runeq (c : list (nat * nat * Z * list Z) * list (nat * nat * Z * list Z)) : bool :=
  let '(n1, n2) := c in permb (K:=Zring) (map mk n1) (map mk n2).
"""


def dyadic_tagdata(d, rng):
    """dyadic prefactors, zero energies, one random member tag per class"""
    ud = {}
    for typ in ("vacancy", "solute", "solute-vacancy", "omega0", "omega1", "omega2"):
        for tags in d.tags[typ]:
            ud[rng.choice(tags)] = (rng.randint(4, 16) / 8., 0.0)
    return ud


def exact_edges(d, th, M):
    """integer-scalable exact edge list (x, y, cond Fraction, [ds, dv] lattice coordinates) of the torus chain"""
    crys = d.crys; invmap = d.invmap
    args = d.preene2betafree(1.0, **th)
    c = vm.torus_chain(d, *args, M=M, solute=True)
    F = lambda x: Fraction(float(x))
    out = []
    for (x, y, rate, ds, dv, kind, k) in c.edges:
        cf = F(th["preS"][invmap[c.states[x][0]]]) * F(th["preT0"][k]) if kind == 0 else (F(th["preT1"][k]) if kind == 1 else F(th["preT2"][k]))
        fl = c.w[x] * rate
        ZV = sum(F(th["preV"][invmap[i]]) for i in range(d.N)); ZS = sum(F(th["preS"][invmap[i]]) for i in range(d.N))
        if abs(fl - float(cf) * d.N * d.N / float(ZV * ZS)) > 1e-11 * abs(fl): return None   # LIMB value not dyadic-exact
        dl = [gen.rationalize(v) for v in np.dot(crys.invlatt, ds)] + [gen.rationalize(v) for v in np.dot(crys.invlatt, dv)]
        if any(v is None for v in dl): return None
        out.append((x, y, cf, dl))
    return out


def tagdata(d, rng):
    """random (pre, ene) for one randomly chosen member tag of every class of calculator d"""
    ud = {}
    for typ, (plo, phi, elo, ehi) in (("vacancy", (.5, 2, 0, .4)), ("solute", (.5, 2, 0, .4)), ("solute-vacancy", (.5, 2, -.4, .4)),
                                      ("omega0", (.5, 2, .6, 1.2)), ("omega1", (.5, 2, .6, 1.4)), ("omega2", (.5, 2, .4, 1.4))):
        for tags in d.tags[typ]:
            ud[rng.choice(tags)] = (rng.uniform(plo, phi), rng.uniform(elo, ehi))
    return ud


def chain_W(d, args, M):
    c = vm.torus_chain(d, *args, M=M, solute=True)
    W = np.zeros((c.n, c.n))
    for (x, y, rate, ds, dv, kind, k) in c.edges: W[x, y] += rate
    return W, c.w


def run(ck):
    ck.rule = ("named 1- and 2-site crystals (2-D and small 3-D) x Nthermo pair (1,2) [and (2,3) in 2-D] x random tag data "
               "for every class of the smaller calculator; distinct = (crystal, pair, data); non-trivial = interaction data differ "
               "from LIMB defaults (always, random)")
    ck.trusted += ["harness/c07.py tag selection; vm.torus_chain"]
    ck.theorems()
    rng = ck.rng
    names2 = ["square", "tria", "honeycomb", "sq2w", "rect", "rect-polar2d", "oblique2d"]
    names3 = ["sc", "b2", "tet"] + ([] if ck.quick else ["fcc", "bcc", "polar"])
    plan = [(nm, (1, 2)) for nm in names2] + [(nm, (2, 3)) for nm in (["square", "honeycomb"] if ck.quick else ["square", "tria", "honeycomb", "rect"])] + \
           [(nm, (1, 2)) for nm in names3]
    rng.shuffle(plan)
    plan = plan[:ck.n(6, len(plan))]
    # always: a crystal where a state of the OUTER kinetic shell is closer than a thermodynamic state (rect, b/a = 1.25, range 2:
    # (2a,b) at 2.36 is outer, (0,2b) at 2.5 is thermodynamic), so the star ordering by distance interleaves the two sets
    # always as well: several Wyckoff sets with different solute site energies (sq2w; non-uniform solute probability in every
    # bare-reference term of Lij)
    forced = [("rect", (2, 3)), ("sq2w", (1, 2))]
    plan = forced + [x for x in plan if x not in forced]
    n = 0
    for nm, (N1, N2) in plan:
        crys, chem = gen.named(nm)
        net = gen.percolating_network(crys, chem, rng, maxshell=1, maxjumps=30)
        if net is None: continue
        cut, sl, jn = net
        d1 = vm.make(crys, chem, sl, jn, N1); d2 = vm.make(crys, chem, sl, jn, N2)
        for rep in range(ck.n(1, 2)):
            ud = tagdata(d1, rng)
            kT = rng.choice([0.6, 1.0])
            t1, miss1, dup1, bad1 = d1.tags2preene(ud, VERBOSE=True)
            t2, miss2, dup2, bad2 = d2.tags2preene(ud, VERBOSE=True)
            doc = {"crystal": nm, "cutoff": cut, "Nthermo": [N1, N2], "kT": kT, "tags": {k: list(v) for k, v in ud.items()}}
            if bad1 or bad2 or dup1 or dup2 or miss1:
                ck.violation("tag data of the smaller calculator not accepted cleanly: bad=%r/%r dup=%r/%r missing1=%r" % (bad1, bad2, dup1, dup2, list(miss1)),
                             doc, key="c07-tags")
            a1 = d1.preene2betafree(kT, **t1); a2 = d2.preene2betafree(kT, **t2)
            # (a) same chain
            M = vm.min_torus(d2)
            if d2.N * d2.N * M ** crys.dim <= (900 if ck.quick else 3000):
                W1, w1 = chain_W(d1, a1, M); W2, w2 = chain_W(d2, a2, M)
                e = max(np.abs(W1 - W2).max() / np.abs(W1).max(), np.abs(w1 - w2).max() / np.abs(w1).max())
                ck.case(key=("chain", nm, N1, N2, sorted(ud.items())), nontrivial=True, kind="chain:%s-(%d,%d)" % (nm, N1, N2),
                        sample={"tier": "same-chain", "crystal": nm, "pair": [N1, N2], "M": M, "states": len(w1), "max_rel_rate_diff": float(e)} if n < 2 else None)
                if e > 1e-10:
                    ck.violation("the (%d) and (%d) calculators describe different chains for the same tag data: rates differ by %.3g" % (N1, N2, e), doc, key="c07-chain")
            # (b) tensors
            try:
                L1 = [np.array(x) for x in d1.Lij(*a1)]; L2 = [np.array(x) for x in d2.Lij(*a2)]
            except Exception as ex:
                ck.violation("Lij raised %r" % ex, doc, key="c07-raise"); continue
            n += 1
            scale = np.abs(L1[0]).max()
            errs = [np.abs(x - y).max() / scale for x, y in zip(L1, L2)]
            ck.case(key=("Lij", nm, N1, N2, sorted(ud.items()), kT), nontrivial=True, kind="Lij:%s-(%d,%d)" % (nm, N1, N2),
                    sample={"tier": "Lij", "crystal": nm, "pair": [N1, N2], "rel_diff": [float(e) for e in errs]} if n <= 3 else None)
            doc.update(L_small=[x.tolist() for x in L1], L_large=[x.tolist() for x in L2])
            if max(errs) > 1e-7:
                ck.violation("Nthermo %d vs %d give different tensors (L0vv,Lss,Lsv,L1vv rel. diffs %s)" % (N1, N2, ["%.2g" % e for e in errs]), doc, key="c07-Lij")
    # ---- exact tier: the two chains are the SAME edge multiset, decided in Coq over Z (single-Wyckoff crystals, dyadic tag data,
    # zero energies: every rate, including the LIMB back-fill sqrt(p*p) = p, is an exact dyadic rational)
    import re
    terms, metas = [], []
    for nm, (N1, N2) in [("square", (1, 2)), ("rect", (1, 2)), ("tria", (1, 2))] + ([] if ck.quick else [("rect", (2, 3)), ("honeycomb", (1, 2))]):
        crys, chem = gen.named(nm)
        cut, sl, jn = gen.percolating_network(crys, chem, rng, maxshell=1, maxjumps=30)
        d1 = vm.make(crys, chem, sl, jn, N1); d2 = vm.make(crys, chem, sl, jn, N2)
        ud = dyadic_tagdata(d1, rng)
        t1 = d1.tags2preene(ud); t2 = d2.tags2preene(ud)
        M = vm.min_torus(d2)
        e1 = exact_edges(d1, t1, M); e2 = exact_edges(d2, t2, M)
        if e1 is None or e2 is None: continue
        sc = exact.lcm_den([e[2] for e in e1 + e2]); sd = exact.lcm_den([v for e in e1 + e2 for v in e[3]])
        def enc(e): return "(%s, %s, %s, %s)" % (coq_nat(e[0]), coq_nat(e[1]), coq_Z(int(e[2] * sc)), coq_list([coq_Z(int(v * sd)) for v in e[3]]))
        terms.append("(%s, %s)" % (coq_list([enc(e) for e in e1]), coq_list([enc(e) for e in e2])))
        metas.append(dict(crystal=nm, pair=[N1, N2], M=M, edges=len(e1), tags={k: list(v) for k, v in ud.items()}))
    try:
        res = []
        for a in range(0, len(terms), 2):
            out = ck.coq_cases("neteq_%d" % a, "Eval vm_compute in (map runeq %s)." % coq_list(terms[a:a + 2]), NET_IMPORTS)
            res += re.findall(r"true|false", out[out.index("="):].split(":")[0])
        if len(res) != len(terms): raise CoqFailure("could not parse permb output")
    except CoqFailure as e:
        ck.broken_proof = "correspondence (chain equality over Z): %s" % e
        res = []
    for m, r in zip(metas, res):
        ck.case(key=("exact-chain", m["crystal"], m["pair"], sorted(m["tags"].items())), nontrivial=True, kind="exact-chain:%s-%s" % (m["crystal"], m["pair"]),
                sample={"tier": "exact-chain-equality", "crystal": m["crystal"], "pair": m["pair"], "M": m["M"], "edges": m["edges"]})
        if r != "true":
            ck.violation("exact tier: the chains of the (%d) and (%d) calculators are not the same edge multiset" % tuple(m["pair"]), m, key="c07-exact-chain")
    ck.extra["traces_validated_against_impl"] = len(res)
    ck.extra["pairs_compared"] = n
