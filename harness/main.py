"""entry point:  python -m harness.main Cxx [--tier quick|thorough] [--seed N] [--replay file]"""
import sys, os, argparse, importlib, traceback
from . import lib


def main():
    ap = argparse.ArgumentParser()
    ap.add_argument("pid")
    ap.add_argument("--tier", default=os.environ.get("VERIF_TIER", "quick"), choices=["quick", "thorough"])
    ap.add_argument("--seed", type=int, default=int(os.environ.get("VERIF_SEED", "0") or 0))
    ap.add_argument("--replay", default=None)
    a = ap.parse_args()
    if a.pid == "setup":
        ok, out = lib.coq_make(strict=True)
        print(out[-3000:])
        sys.exit(0 if ok else 1)
    mod = importlib.import_module("harness." + a.pid.lower())
    ck = lib.Check(a.pid, a.tier, a.seed, level=getattr(mod, "LEVEL", "proof"))
    if a.replay:
        rc = mod.replay(ck, a.replay) if hasattr(mod, "replay") else 2
        sys.exit(rc)
    try:
        mod.run(ck)
    except Exception:
        # a crash of the harness itself is not a verdict about the property
        traceback.print_exc()
        print("[%s] HARNESS ERROR (no verdict)" % a.pid)
        sys.exit(2)
    sys.exit(ck.finish())


if __name__ == "__main__":
    main()
