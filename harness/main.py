"""entry point:  python -m harness.main Cxx [--tier quick|thorough] [--seed N] [--replay file]"""
import sys, os, argparse, importlib, traceback
from . import lib


def main():
    ap = argparse.ArgumentParser()
    ap.add_argument("pid")
    ap.add_argument("--tier", default=os.environ.get("VERIF_TIER", "quick"), choices=["quick", "thorough"])
    ap.add_argument("--seed", type=int, default=int(os.environ.get("VERIF_SEED", "0") or 0))
    ap.add_argument("--replay", default=None)
    a = ap.parse_args()
    if a.pid == "setup":
        # build everything (make -k: one broken file must not take the whole framework down), then require that the
        # property file of every registered check compiles; report any other file that failed to build
        import subprocess, concurrent.futures
        ok, out = lib.coq_make(strict=False)
        print(out[-2000:])
        ready = open(os.path.join(lib.VERIF, "tools", "ready.txt")).read().split()
        def comp(pid):
            rc, o = lib.sh("timeout %d coqc -Q . Onsager Properties/%s.v" % (lib.PERFILE_TIMEOUT, pid), cwd=lib.COQDIR)
            return pid, rc, o
        bad = []
        with concurrent.futures.ThreadPoolExecutor(8) as ex:
            for pid, rc, o in ex.map(comp, ready):
                if rc != 0:
                    bad.append(pid); print("[setup] Properties/%s.v FAILED:\n%s" % (pid, o[-800:]))
        missing = [f for sub in ("Base", "Model", "Proofs") for f in sorted(os.listdir(os.path.join(lib.COQDIR, sub)))
                   if f.endswith(".v") and not os.path.exists(os.path.join(lib.COQDIR, sub, f[:-2] + ".vo"))]
        if missing: print("[setup] files that did not build (not needed by a registered check unless listed above):", missing)
        print("[setup] %d property files compiled, %d failed" % (len(ready) - len(bad), len(bad)))
        sys.exit(1 if bad else 0)
    mod = importlib.import_module("harness." + a.pid.lower())
    ck = lib.Check(a.pid, a.tier, a.seed, level=getattr(mod, "LEVEL", "proof"))
    if a.replay:
        # a replay file records the seed and tier of the run that produced it (all generators are deterministic in the
        # seed), the failing input and what was observed; modules may provide a focused replay(), otherwise the check is
        # re-run with the recorded seed/tier, which regenerates and re-evaluates the same input
        import json
        doc = json.load(open(a.replay))
        print("[replay] %s: %s" % (doc.get("property"), doc.get("what")))
        if hasattr(mod, "replay"):
            sys.exit(mod.replay(ck, a.replay))
        ck = lib.Check(a.pid, doc.get("tier", a.tier), int(doc.get("seed", a.seed)), level=getattr(mod, "LEVEL", "proof"))
    try:
        mod.run(ck)
    except (KeyboardInterrupt, MemoryError):
        traceback.print_exc()
        print("[%s] HARNESS ERROR (no verdict)" % a.pid)
        sys.exit(2)
    except Exception as e:
        # The harness runs to completion on the unchanged tree.  If it cannot complete, the correspondence between model and
        # implementation can no longer be established on this tree: the property is no longer shown to hold.  Concrete
        # violations found before the crash are reported as such; otherwise the violation names the step that failed
        # (no-failing-input-found), as for a broken proof obligation.
        tb = traceback.format_exc()
        print(tb)
        print("[%s] correspondence could not be completed: %r" % (a.pid, e))
        if not hasattr(ck, "broken_proof"):
            ck.broken_proof = "correspondence could not be completed (harness step raised %r)\n%s" % (e, tb[-3000:])
    sys.exit(ck.finish())


if __name__ == "__main__":
    main()
