"""helpers shared by the transport-tensor checks C03-C09"""
import numpy as np
from fractions import Fraction
from . import gen, netcase
from .lib import coq_Z, coq_list, coq_nat


FORCED = ["hcp-oct-tet", "pmm2-3w", "wurtzite-int", "polar2w", "sq2w", "fcc-oct-tet"]


def interstitial_pool(ck, rng, n, random_frac=0.6, dims=(2, 3), names=None, forced=True):
    """yield (label, crys, chem, cut, sl, jn, calc) for percolating interstitial-type networks.  The first entries are
    always the multi-Wyckoff / polar crystals of FORCED with the atoms listed in a random (interleaving) order."""
    from onsager import OnsagerCalc
    out = 0
    def source():
        if forced:
            fl = list(FORCED); rng.shuffle(fl)
            for nm in fl[:max(3, n // 2)]:
                crys, chem = gen.named(nm)
                if crys.dim in dims: yield nm + "~perm", gen.shuffled(crys, rng), chem
            # site vectors related by rotations of order >= 3 and not along the axis (FullVectorBasis must carry g^-1 v, not g v)
            rot_names = [nm for nm in ("sq-x4", "cub-x6") if gen.named(nm)[0].dim in dims]
            for nm in (rot_names if n >= 20 else rng.sample(rot_names, min(2, len(rot_names)))):
                crys, chem = gen.named(nm)
                yield nm + "~perm", gen.shuffled(crys, rng), chem
            if 2 in dims:
                # 2-D sites on a mirror LINE that is oblique to the Cartesian axes (eigen-analysis of 2-D mirrors, 2-D tensor
                # bases): rigidly rotated rectangular / square cells, and a centred rectangular cell
                for nm in ("rect-polar2d", "sq-x4"):
                    crys, chem = gen.named(nm)
                    yield nm + "~rot2d", gen.rotated(crys, gen.rotation([0, 0, 1], rng.choice([17, 30, 45, 73]))), chem
            if 3 in dims:
                # sites whose site symmetry is a single mirror, in Cartesian frames where the mirror normal is neither along
                # an axis nor in a coordinate plane (vectlist / VectorBasis branches on the components of the normal)
                crys, chem = gen.named("mono-m")
                yield "mono-m~rot", gen.rotated(crys, gen.rotation([0, 1, 0], rng.choice([10, 25, 40]))), chem
                yield "mono-m~rot", gen.rotated(crys, gen.random_rotation(rng, 3)), chem
        for label, crys, chem in gen.pool(rng, 4 * n, random_frac=random_frac, dims=dims, names=names):
            if rng.random() < 0.3:
                crys = gen.rotated(crys, gen.random_rotation(rng, crys.dim)); label += "~rot"
            yield label, crys, chem
    for label, crys, chem in source():
        if out >= n: break
        try:
            net = gen.percolating_network(crys, chem, rng, **(dict(maxshell=8, maxjumps=120) if label.startswith(("mono-m", "sq-x4", "cub-x6", "hex-x6")) else {}))
        except Exception:
            net = None
        if net is None: continue
        cut, sl, jn = net
        from . import vm
        d = vm.guard_inputs(OnsagerCalc.Interstitial(crys, chem, sl, jn), ["diffusivity", "elastodiffusion", "losstensors"])
        out += 1
        yield label, crys, chem, cut, sl, jn, d


def random_interstitial_data(nr, sl, jn, spread=1.0):
    pre = nr.uniform(0.5, 2, len(sl)); bE = nr.uniform(0, 2 * spread, len(sl))
    preT = nr.uniform(0.5, 2, len(jn)); bET = nr.uniform(2 * spread, 4 * spread, len(jn))
    return pre, bE, preT, bET


def sym_err(T):
    T = np.asarray(T)
    return np.abs(T - T.T).max()


def inv_err(crys, T):
    """max over g of |g T g^T - T| for a rank-2 Cartesian tensor"""
    return max(np.abs(g.cartrot @ T @ g.cartrot.T - T).max() for g in crys.G)


def axial_dim(crys):
    """dimension of the space of antisymmetric rank-2 tensors invariant under the point group (0 for every group
    that contains a mirror / two-fold axis not along a common axis: then invariant tensors are symmetric)"""
    dim = crys.dim
    imgs = []
    for i in range(dim):
        for j in range(i + 1, dim):
            E = np.zeros((dim, dim)); E[i, j] = 1; E[j, i] = -1
            imgs.append(sum(g.cartrot @ E @ g.cartrot.T for g in crys.G).ravel() / len(crys.G))
    return int(np.linalg.matrix_rank(np.array(imgs), tol=1e-8)) if imgs else 0


def inv_err4(crys, T):
    w = 0.0
    for g in crys.G:
        R = g.cartrot
        T2 = np.einsum("ai,bj,ck,dl,ijkl->abcd", R, R, R, R, T)
        w = max(w, np.abs(T2 - T).max())
    return w


def min_eig(T):
    T = np.asarray(T)
    return np.linalg.eigvalsh(0.5 * (T + T.T)).min()


def unitcell_network(crys, jn):
    """jumps in lattice coordinates (rationalised) -> list (i, j, class, [Fraction]) or None"""
    jumps = []
    for t, jl in enumerate(jn):
        for (i, j), dx in jl:
            dxl = [gen.rationalize(x) for x in np.dot(crys.invlatt, dx)]
            if any(x is None for x in dxl): return None
            jumps.append((i, j, t, dxl))
    return jumps


SYM_IMPORTS = """From Coq Require Import List ZArith Bool Arith.
From Onsager Require Import Base.OrdRing Base.Instances Model.Net Model.Interstitial Model.NetMaps.
Import ListNotations.
Local Open Scope Z_scope.
Definition runsym (c : nat * nat * list Z * list (jump Zring) * list (list (list Z) * list nat * list nat)) : nat :=
  let '(n, dim, wT, jumps, ops) := c in
  let N := net_of (K:=Zring) wT jumps in
  length (filter (fun op : list (list Z) * list nat * list nat =>
                    let '(Rm, p, q) := op in
                    negb (Nat.eqb (length p) n && Nat.eqb (length q) n && inverseb n p q
                          && isob (K:=Zring) dim Rm (permfun p) N)) ops).
"""


def sym_term(n, dim, wT, jumps, ops):
    """integer network + list of operations (Rm integer matrix, perm p, inverse q) -> Coq term"""
    sw = 1
    from .exact import lcm_den
    sw = lcm_den(wT)
    sd = lcm_den([x for (_, _, _, dx) in jumps for x in dx])
    wTi = [int(Fraction(w) * sw) for w in wT]
    ji = ["mkJump (K:=Zring) %s %s %s %s" % (coq_nat(i), coq_nat(j), coq_nat(c), coq_list([coq_Z(int(x * sd)) for x in dx]))
          for (i, j, c, dx) in jumps]
    opl = []
    for (Rm, p) in ops:
        q = [0] * len(p)
        for a, b in enumerate(p): q[b] = a
        opl.append("(%s, %s, %s)" % (coq_list([coq_list([coq_Z(int(x)) for x in row]) for row in Rm]),
                                     coq_list([coq_nat(x) for x in p]), coq_list([coq_nat(x) for x in q])))
    return "(%s, %s, %s, %s, %s)" % (coq_nat(n), coq_nat(dim), coq_list([coq_Z(w) for w in wTi]), coq_list(ji), coq_list(opl))


def run_sym(ck, name, terms, chunk=20):
    import re
    res = []
    for a in range(0, len(terms), chunk):
        body = "Eval vm_compute in (map runsym %s)." % coq_list(terms[a:a + chunk])
        out = ck.coq_cases("%s_%d" % (name, a), body, SYM_IMPORTS)
        txt = out[out.index("="):].split(":")[0] if "=" in out else ""
        got = [int(x) for x in re.findall(r"\d+", txt.replace("%nat", ""))]
        if len(got) != len(terms[a:a + chunk]):
            from .lib import CoqFailure
            raise CoqFailure("could not parse model output: " + out[:300])
        res += got
    return res
