"""C24  Star sets are complete symmetry orbits of reachable pair states.

Coq (Model/Stars.v, Proofs/Stars_proofs.v): executable model of StarSet.generate / __iadd__ /
diffgenerate over integer pair states, proved for every jump list and every N: the enumeration is
exactly the set of non-zero end points of chains of 1..N jumps (chains through zero add nothing), is
duplicate free, S(N1)+S(N2) = S(N1+N2), diffgenerate = the endpoint differences; and verified
checkers for "stars = partition into complete orbits", index and lookups.

Tie (every run): StarSet(jumpnetwork, crys, chem, N, originstates) of /repo for N = 0..3, both flags,
both jump-network forms, on the crystal pool.  The implementation's states / stars / index / lookup
answers are printed as Coq literals and judged INSIDE Coq by run_starset / run_add / run_diff (model
states compared as sets, verified star checker with the space group computed here from
rot/trans/indexmap).  Independently the same properties are evaluated in pure-Python integers
(brute-force chains that may pass through zero, orbit closure) on every case including the ones too
large for the Coq budget."""
META = dict(
    level="proof",
    text=("Theorems (all jump lists, all N): model enumeration = non-zero end points of chains of 1..N jumps (+ origin states), "
          "no duplicates, S(N1)+S(N2)=S(N1+N2) as modelled from __iadd__, diffgenerate = set of endpoint differences, soundness of "
          "the star-partition/orbit, index and lookup checkers, and of the correspondence runner. Tie: implementation StarSet "
          "states/stars/index/lookups, sums and difference sets judged in Coq by the model and verified checkers on the crystal "
          "pool (N<=3, origin states on/off), plus a pure-Python brute-force evaluation of the same statements on every case."),
    note=("Trusted: harness conversion of crys.G (rot, trans, indexmap) and of the jump network to integer lattice data "
          "(checked to be integer within 1e-8); that crys.G is the space group is C18, that the jump network is complete is C21. "
          "Sorting of states by |dx|^2 and the float grouping threshold inside generate are not modelled (only the resulting "
          "partition is checked). Mixed origin-state flags in S1+S2: the sum keeps the flag of the set with more shells "
          "(modelled so); only same-flag sums are required to equal generate(N1+N2) including origin states."),
    technique="Coq proof (induction on N, path algebra) + verified checkers + exact set correspondence",
)

import json
import numpy as np
from . import gen, starcase as sc
from .lib import CoqFailure

MEANING = {1: "jump network contains a zero jump", 2: "states list has duplicates", 3: "states differ from the model's reachable set",
           4: "stars are not the partition into complete orbits", 5: "index array inconsistent with stars",
           6: "stateindex/starindex lookups inconsistent"}


WMAX = 6e7       # weight of one coqc call (calibrated: see design_notes/C24.md, < ~40 s on an idle machine)


def wgen(n, J, g):
    """estimated work of run_starset on n states, J jumps, g operations (list model: quadratic in n)"""
    return 0.5 * n * n * J + n * g * g + n * n


def ckey(cut):
    return round(cut, 5) if isinstance(cut, float) else str(cut)


def impl_starset(jn, crys, chem, N, origin, lattice=False):
    from onsager import crystalStars
    if lattice:
        return crystalStars.StarSet(crys.jumpnetwork2lattice(chem, jn), crys, chem, N, originstates=origin, lattice=True)
    return crystalStars.StarSet(jn, crys, chem, N, originstates=origin)


def eval_structure(S, crys, chem, ops, expected, what):
    """direct evaluation of the statement on one StarSet-like object; returns list of (key, message, detail)"""
    bad = []
    sts = [sc.ps_of(s) for s in S.states]
    if len(set(sts)) != len(sts) or S.Nstates != len(sts):
        bad.append(("dup", "%s: duplicate states or wrong Nstates" % what, {}))
    if expected is not None and set(sts) != expected:
        miss = sorted(expected - set(sts))[:5]; extra = sorted(set(sts) - expected)[:5]
        bad.append(("states", "%s: state set differs from the reachable set (missing %d, extra %d)" %
                    (what, len(expected - set(sts)), len(set(sts) - expected)), {"missing": miss, "extra": extra}))
    # dx consistent with (i,j,R)
    u = crys.basis[chem]
    for s in S.states:
        dx = np.dot(crys.lattice, np.asarray(s.R) + u[s.j] - u[s.i])
        if np.abs(dx - s.dx).max() > 1e-10 * max(1., float(np.abs(dx).max())):
            bad.append(("dx", "%s: state dx differs from lattice.(R + u_j - u_i) by %.3g" % (what, np.abs(dx - s.dx).max()),
                        {"state": sc.ps_of(s), "dx": np.asarray(s.dx).tolist(), "expected": dx.tolist()})); break
    # stars: exact partition of the indices, each a complete orbit
    stars = [list(int(x) for x in st) for st in S.stars]
    if len(sts) == 0:
        if stars not in ([[]], []): bad.append(("stars", "%s: stars of an empty state list" % what, {"stars": stars}))
        return bad, sts, stars
    flat = sorted(x for st in stars for x in st)
    if flat != list(range(len(sts))) or S.Nstars != len(stars) or any(len(st) == 0 for st in stars):
        bad.append(("stars", "%s: stars do not cover each state index exactly once" % what, {"flat": flat[:40]}))
    else:
        orbs, outside = sc.orbits(ops, set(sts))
        if outside:
            bad.append(("stars", "%s: state set not closed under the space group" % what, {"outside": outside[:5]}))
        mine = set(frozenset(sts[x] for x in st) for st in stars)
        if mine != set(orbs):
            # stable class: noisy positions (loosened crystal threshold) and a code path that does not use the crystal's threshold
            noisy = crys.threshold > 1e-7 and what in ("sum", "diffgenerate", "history")
            bad.append(("noisy-default-threshold" if noisy else "stars",
                        "%s: stars are not the orbits (%d stars, %d orbits)" % (what, len(mine), len(orbs)), {}))
        idx = [int(x) for x in S.index]
        if len(idx) != len(sts) or any(idx[x] != k for k, st in enumerate(stars) for x in st):
            bad.append(("index", "%s: index[x] is not the star containing x" % what, {}))
    return bad, sts, stars


def lookup_queries(S, crys, chem, sts, rng, nq):
    """[(state tuple, stateindex answer, starindex answer)] for members and non-members + direct evaluation"""
    from onsager.crystalStars import PairState
    bad = []
    qs = []
    n = len(sts)
    members = list(range(n)) if n <= nq else rng.sample(range(n), nq)
    cand = [sts[x] for x in members]
    for x in members[:max(2, nq // 2)]:
        i, j, R = sts[x]
        cand.append((i, j, sc.vadd(R, (7, 0, 0))))     # far away: never a member for N <= 3
        cand.append((j, i, sc.vneg(R)))                # the reversed pair
    cand.append((0, 0, sc.Z3))
    pos = {s: x for x, s in enumerate(sts)}
    for s in cand:
        PS = PairState.fromcrys_latt(crys, chem, (s[0], s[1]), np.array(s[2][:crys.dim], dtype=int))
        a, b, c = S.stateindex(PS), S.starindex(PS), (PS in S)
        qs.append((s, a, b))
        ea = pos.get(s)
        eb = None if ea is None else int(S.index[ea])
        if a != ea or b != eb or c != (ea is not None):
            bad.append(("lookup", "stateindex/starindex/__contains__ wrong for %r: got %r %r %r expected %r %r" % (s, a, b, c, ea, eb),
                        {"state": s}))
    return qs, bad



# ---- history tier: ONE StarSet object driven through a history of operations ---------------------------
def full_lookup_check(S, crys, chem, sts, universe, rng, cap):
    """look-up consistency against the state list for every state of `universe` (all shells ever reachable + origins)
    or a sample of it: members -> their own index and star, everything else -> None / not contained; and the
    dictionary itself holds exactly the current states.  Returns (queries for Coq, violations)."""
    from onsager.crystalStars import PairState
    bad, qs = [], []
    pos = {s: x for x, s in enumerate(sts)}
    non = sorted(universe - set(sts))
    if len(non) > cap: non = rng.sample(non, cap)
    mem = list(sts) if len(sts) <= cap else rng.sample(list(sts), cap)
    for s in mem + non:
        PS = PairState.fromcrys_latt(crys, chem, (s[0], s[1]), np.array(s[2][:crys.dim], dtype=int))
        a, b, c = S.stateindex(PS), S.starindex(PS), (PS in S)
        ea = pos.get(s); eb = None if ea is None else int(S.index[ea])
        if len(qs) < 14 or (ea is None and a is not None and len(qs) < 20): qs.append((s, a, b))
        if a != ea or b != eb or c != (ea is not None):
            bad.append(("lookup", "stateindex/starindex/__contains__ of %r: got %r %r %r, the state list says %r %r" % (s, a, b, c, ea, eb),
                        {"state": s}))
            if len(bad) >= 4: break
    d = getattr(S, "indexdict", None)
    if d is not None:
        keys = set(sc.ps_of(k) for k in d)
        if keys != set(sts) or len(d) != len(sts):
            bad.append(("lookup", "indexdict holds %d entries for %d states (%d stale)" % (len(d), len(sts), len(keys - set(sts))),
                        {"stale": sorted(keys - set(sts))[:5]}))
    return qs, bad


def history_tier(ck, violation, label, crys, chem, jn, cut, jumps, ops, nsites, cid, runs, meta, stats, coq_ok):
    """one object: generate with growing, SHRINKING ranges and the origin-state flag toggled, interleaved with copy, +=
    and diffgenerate; after every step the object must be what the Coq state machine (hstep) says -- i.e. equal to a fresh
    star set of its current range/flag -- with consistent look-ups for every state it ever contained"""
    from onsager import crystalStars
    rng = ck.rng
    Nmax = 3
    universe = sc.reach_bruteforce(jumps, Nmax, nsites, True)
    info0 = {"crystal": repr(crys), "label": label, "chem": chem, "cutoff": cut, "tier": "history"}
    fixed = [[("gen", 0, True), ("add", 2, False), ("gen", 2, True), ("gen", 2, False)],      # empty set adopts the other's flag
             [("gen", 0, False), ("add", 1, True), ("gen", 1, False), ("copy",), ("gen", 1, True)],
             [("gen", 2, False), ("gen", 2, True), ("gen", 2, False), ("gen", 1, True), ("copy",), ("gen", 1, False)],
             [("gen", 3, True), ("gen", 1, True)],
             [("gen", 1, True), ("gen", 2, True), ("gen", 3, True), ("gen", 1, False), ("gen", 2, False)],
             [("gen", 2, True), ("gen", 1, False), ("copy",), ("add", 1, True), ("diff",), ("gen", 3, False), ("gen", 0, True), ("gen", 2, True)]]
    def rnd():
        h = [("gen", rng.randint(1, 3), rng.random() < 0.5)]
        for _ in range(rng.randint(3, 6)):
            r = rng.random()
            if r < 0.6: h.append(("gen", rng.randint(0, 3), rng.random() < 0.5))
            elif r < 0.75: h.append(("add", rng.randint(1, 2), rng.random() < 0.5))
            elif r < 0.9: h.append(("copy",))
            else: h.append(("diff",))
        return h
    for hist in fixed + [rnd() for _ in range(ck.n(1, 3))]:
        info = dict(info0, history=hist)
        try:
            _, N, o = hist[0]
            S = crystalStars.StarSet(jn, crys, chem, N, originstates=o)
            coqh = []
            copies = []
            desync = False
            for k, op_ in enumerate(hist[1:], 1):
                if op_[0] == "gen":
                    toggled = (op_[1] == N and op_[2] != o)
                    S.generate(op_[1], originstates=op_[2])
                    N, o = op_[1], op_[2]                       # the last request decides (C24_history_last_request)
                    coqh.append("HGen %d%%nat %s" % (op_[1], "true" if op_[2] else "false"))
                    if toggled:
                        stats["same-range-flag-changes"] += 1
                        have = any(x.iszero() for x in S.states)
                        if have != (o and nsites > 0):
                            # the request was ignored: report it under its own key, then follow the object as it is so that the
                            # rest of the history is still judged (the Coq machine is not consulted further for this history)
                            violation("same-range-flag-ignored", "generate(%d, originstates=%s) on an object of range %d built with "
                                      "originstates=%s left the origin states %s" % (N, o, N, not o, "in" if have else "out"),
                                      dict(info, step=k, op=op_))
                            o = have; desync = True
                elif op_[0] == "add":
                    if N + op_[1] > Nmax: continue                     # keep the object inside the explored ranges
                    other = crystalStars.StarSet(jn, crys, chem, op_[1], originstates=op_[2])
                    N_before = N
                    if N < 1: N, o = op_[1], op_[2]
                    else: N = N + op_[1]
                    try:
                        S += other
                    except IndexError as e:
                        if N_before >= 1 and not (sc.reach_bruteforce(jumps, N, nsites, False) - sc.reach_bruteforce(jumps, N_before, nsites, False)):
                            violation("iadd-no-new-states", "S += other raised IndexError: %s although the sum adds no new state" % e,
                                      dict(info, step=k, op=op_))
                            break                                    # the object is left half-updated: stop this history
                        raise
                    coqh.append("HAdd %d%%nat %s" % (op_[1], "true" if op_[2] else "false"))
                elif op_[0] == "copy":
                    C = S.copy()
                    copies.append((C, [sc.ps_of(x) for x in S.states], N, o)); continue
                elif op_[0] == "diff":
                    if N < 1: continue
                    D = S.copy(empty=True); D.diffgenerate(S, S)
                    dsts = [sc.ps_of(x) for x in D.states]
                    duni = set((a[1], b[1], sc.vsub(b[2], a[2])) for a in universe for b in universe if a[0] == b[0]) if len(universe) <= 120 else set(dsts)
                    q_, badd = full_lookup_check(D, crys, chem, dsts, duni, rng, 60)
                    for key, msg, detail in badd: violation("history-diff-" + key, msg, dict(info, step=k), detail)
                    continue
                stats["steps"] += 1
                step = dict(info, step=k, op=op_, N=N, originstates=o)
                expected = sc.reach_bruteforce(jumps, N, nsites, o)
                bad, sts, stars = eval_structure(S, crys, chem, ops, expected, "history")
                if S.Nshells != N: bad.append(("nshells", "Nshells after the history is %r, expected %d" % (S.Nshells, N), {}))
                qs, bad2 = full_lookup_check(S, crys, chem, sts, universe, rng, ck.n(120, 400))
                for key, msg, detail in bad + bad2:
                    violation(key if key == "noisy-default-threshold" else "history-" + key, msg, step, detail)
                # copies taken earlier are independent objects: unchanged and still consistent
                for (C, csts, cN, co) in copies:
                    if [sc.ps_of(x) for x in C.states] != csts or C.Nshells != cN:
                        violation("history-copy", "a copy changed when the original was regenerated", step)
                    else:
                        q_, badc = full_lookup_check(C, crys, chem, csts, universe, rng, 40)
                        for key, msg, detail in badc: violation("history-copy-" + key, msg, step, detail)
                ck.case(key=(label, repr(crys), ckey(cut), "hist", json.dumps(hist), k), nontrivial=len(stars) >= 2,
                        kind="history:%dD-%s" % (crys.dim, op_[0]),
                        sample={"tier": "history", "crystal": label, "history": hist, "step": k, "N": N, "originstates": o,
                                "Nstates": len(sts)} if stats["steps"] % 37 == 1 else None)
                if not desync and len(sts) > 0 and coq_ok(len(sts) * (len(coqh) + 2)):
                    runs.append("run_hist J%d %d%%nat %d%%nat %s [%s] G%d %s %s %s [%s]" % (
                        cid, nsites, hist[0][1], "true" if hist[0][2] else "false", "; ".join(coqh), cid, sc.c_pslist(sts),
                        sc.c_natlistlist(stars), sc.c_natlist(S.index),
                        "; ".join("(%s, %s, %s)" % (sc.c_ps(s_), sc.c_optnat(a), sc.c_optnat(b)) for s_, a, b in qs)))
                    meta.append(("hist", step, MEANING, (len(coqh) + 2) * wgen(len(sts), len(jumps), len(ops))))
        except sc.GeometryError:
            continue
        except Exception as e:
            violation("history-exception", "history raised %s: %s" % (type(e).__name__, e), info)


def run(ck):
    ck.rule = ("crystal pool (named + random crystal systems, 2-D/3-D, 1-3 atoms of the mobile species, optional spectator "
               "species) x percolating cutoff x N in 0..3 x originstates on/off x jump-network form (dx / lattice); sums "
               "S(N1)+S(N2) with N1+N2<=3(4 in 2-D) and all flag combinations, via __add__ and __iadd__; diffgenerate(S1,S2); "
               "distinct = distinct (crystal, cutoff, N, flag, operation); non-trivial = at least 2 stars; history tier: one StarSet "
               "object through fixed and random histories of generate (growing, shrinking, flag toggled), +=, copy, diffgenerate; "
               "after every step compared with the Coq state machine / a fresh set and all look-ups of every state ever held")
    ck.trusted += ["harness/starcase.py: integer lattice view of the jump network and of crys.G (checked integer to 1e-8)",
                   "crys.G is the space group (C18); crys.jumpnetwork is complete (C21)"]
    ck.theorems()
    rng = ck.rng
    ncrys = ck.n(17, 160)
    coq_budget_states = ck.n(80000, 900000)     # total number of states sent to the model
    max_case_states = ck.n(600, 1600)
    defs, runs, meta, wts = [], [], [], []
    spent = 0
    skipped = {"nonpercolating": 0, "construct-failed": 0, "geometry": 0, "coq-budget": 0}
    ncase = 0
    nhist = 0
    hstats = {"steps": 0, "same-range-flag-changes": 0}
    substats = {"subnetworks": 0, "not-touching-every-site": 0, "lowsym": 0}

    def violation(key, msg, info, detail=None):
        d = dict(info); d.update(detail or {})
        ck.violation(msg, d, key="c24-" + key)

    # fixed corpus first (several sites per cell on a non-cubic lattice: dx and lattice form must agree), then the pool
    import itertools
    corpus = [(nm,) + gen.named(nm) for nm in ("hcp", "honeycomb", "polar")] + \
             [("chiral-" + nm,) + sc.chiral_crystal(nm)[:2] for nm in ("p4", "P4/m", "P-3")]   # rotation axis without mirrors
    from onsager import crystal as _crystal
    pairlone = _crystal.Crystal(np.eye(2), [[np.array([0., 0.]), np.array([.3, 0.]), np.array([.5, .5])]])   # close pair + lone site

    def network_items():
        """(label, crys, chem, cutoff description, jump network): for every crystal its percolating network and, on purpose,
        networks that do NOT touch every site of the species / do not percolate: the shortest cutoff of a multi-site crystal
        and user-selected sub-networks (subsets of the symmetry classes of a wider network)"""
        fixed_sub = [("sub-hcp-oct-tet", ) + gen.named("hcp-oct-tet"), ("sub-pair-lone", pairlone, 0)]
        for label, crys, chem in fixed_sub:
            sh = gen.shells(crys, chem)
            yield label + ":shortest", crys, chem, sh[0] + 1e-4, crys.jumpnetwork(chem, sh[0] + 1e-4)
        # noisy positions + loosened symmetry threshold (relaxed coordinates): stars must be complete orbits under crys.G with
        # the crystal's own tolerance
        for nm in (("hcp", rng.choice(["honeycomb", "polar", "fcc"])) if ck.quick else ("hcp", "honeycomb", "polar", "fcc", "hcp-oct-tet")):
            r = sc.noisy_crystal(nm, rng)
            if r is None: continue
            cutn = gen.shells(r[3], r[2])[0] + 1e-2
            yield r[0], r[1], r[2], cutn, r[1].jumpnetwork(r[2], cutn)
        # low-symmetry multi-site crystals: completeness of the shell construction at N = 3 (a state that needs three jumps
        # can be closer to the solute than every two-jump state it is reached from)
        c_, chem_, cut_ = sc.lowsym_demo()
        yield "lowsym-demo", c_, chem_, cut_, c_.jumpnetwork(chem_, cut_)
        nlow = 0
        for _ in range(ck.n(12, 90)):
            if nlow >= ck.n(4, 30): break
            r = sc.lowsym_crystal(rng, 3 if rng.random() < 0.8 else 2)
            if r is None: continue
            net = sc.lowsym_network(r[1], r[2], rng, maxjumps=ck.n(30, 40))
            if net is None: continue
            nlow += 1; substats["lowsym"] += 1
            yield r[0], r[1], r[2], net[0], net[1]
        for label, crys, chem in itertools.chain(corpus, gen.pool(rng, ncrys, random_frac=0.55)):
            try:
                net = gen.percolating_network(crys, chem, rng, maxjumps=ck.n(40, 60))
            except Exception:
                skipped["construct-failed"] += 1; net = None
            else:
                if net is None: skipped["nonpercolating"] += 1
                else: yield label, crys, chem, net[0], net[2]
            ns = len(crys.basis[chem])
            try:
                sh = gen.shells(crys, chem)
                wide = crys.jumpnetwork(chem, sh[min(2, len(sh) - 1)] + 1e-4)
            except Exception:
                continue
            if sum(len(t) for t in wide) > ck.n(40, 60): wide = crys.jumpnetwork(chem, sh[min(1, len(sh) - 1)] + 1e-4)
            cands = []
            if ns >= 2: cands.append(("shortest", crys.jumpnetwork(chem, sh[0] + 1e-4)))
            if len(wide) >= 2:
                k = rng.randint(1, len(wide) - 1)
                pick = sorted(rng.sample(range(len(wide)), k))
                cands.append(("classes%s" % pick, [wide[t] for t in pick]))
            for tag, sub in cands:
                if not sub or sum(len(t) for t in sub) == 0: continue
                touched = set(i for t in sub for (i, j), dx in t)
                if len(touched) < ns or rng.random() < 0.35:
                    substats["subnetworks"] += 1
                    if len(touched) < ns: substats["not-touching-every-site"] += 1
                    yield "sub-" + label + ":" + tag, crys, chem, "sub-network %s" % tag, sub

    for label, crys, chem, cut, jn in network_items():
        try:
            jumps = sc.latt_jumps(crys, chem, jn)
            ops = sc.ops_of(crys, chem)
        except sc.GeometryError:
            skipped["geometry"] += 1; continue
        nsites = len(crys.basis[chem])
        cid = len(defs)
        info0 = {"crystal": repr(crys), "label": label, "chem": chem, "cutoff": cut}
        defs.append("Definition J%d : list ps := %s.\nDefinition G%d : list op := [%s].\n" %
                    (cid, sc.c_pslist([(i, j, R) for (i, j, R, t) in jumps]), cid, "; ".join(sc.c_op(g) for g in ops)))
        Nmax = 3
        if nhist < ck.n(7, 40):
            nhist += 1
            def coq_ok(cost):
                nonlocal spent
                if cost <= 4 * max_case_states and spent + cost <= coq_budget_states:
                    spent += cost; return True
                skipped["coq-budget"] += 1; return False
            history_tier(ck, violation, label, crys, chem, jn, cut, jumps, ops, nsites, cid, runs, meta, hstats, coq_ok)
        built = {}
        for N in range(0, Nmax + 1):
            for origin in (False, True):
                lattice_form = rng.random() < 0.3
                info = dict(info0, N=N, originstates=origin, lattice_form=lattice_form)
                try:
                    S = impl_starset(jn, crys, chem, N, origin, lattice_form)
                    if [sc.ps_of(s) for s in S.jumplist] != [(i, j, R) for (i, j, R, t) in jumps]:
                        violation("jumplist", "StarSet.jumplist differs from the lattice form of the jump network", info)
                    expected = sc.reach_bruteforce(jumps, N, nsites, origin)
                    bad, sts, stars = eval_structure(S, crys, chem, ops, expected, "generate")
                    qs, bad2 = lookup_queries(S, crys, chem, sts, rng, 6)
                    if S.Nshells != N: bad.append(("nshells", "Nshells attribute wrong", {}))
                except sc.GeometryError:
                    skipped["geometry"] += 1; continue
                except Exception as e:
                    violation("exception", "StarSet raised %s: %s" % (type(e).__name__, e), info); continue
                built[(N, origin)] = S
                for key, msg, detail in bad + bad2:
                    violation(key, msg, info, detail)
                # the other form of the jump network (dx <-> lattice): same checks, and agreement state by state
                info2 = dict(info, lattice_form=not lattice_form)
                try:
                    S2 = impl_starset(jn, crys, chem, N, origin, not lattice_form)
                    badf, sts2, stars2 = eval_structure(S2, crys, chem, ops, expected, "generate")
                    d1 = {sc.ps_of(x): np.asarray(x.dx) for x in S.states}; d2 = {sc.ps_of(x): np.asarray(x.dx) for x in S2.states}
                    if set(d1) != set(d2):
                        badf.append(("forms", "dx-form and lattice-form star sets contain different states", {}))
                    else:
                        e = max([float(np.abs(d1[k] - d2[k]).max()) for k in d1] + [0.])
                        if e > 1e-10: badf.append(("forms", "dx of the same state differs between dx-form and lattice-form star sets by %.3g" % e, {}))
                        if set(frozenset(sts[x] for x in st) for st in stars if st) != set(frozenset(sts2[x] for x in st) for st in stars2 if st):
                            badf.append(("forms", "dx-form and lattice-form star sets have different stars", {}))
                    ej = max([float(np.abs(np.asarray(a.dx) - np.asarray(b.dx)).max()) for a, b in zip(S.jumplist, S2.jumplist)] + [0.])
                    if len(S.jumplist) != len(S2.jumplist) or ej > 1e-10:
                        badf.append(("forms", "jumplist dx differs between dx-form and lattice-form construction by %.3g" % ej, {}))
                except sc.GeometryError:
                    badf = []
                except Exception as e:
                    violation("exception", "StarSet raised %s: %s" % (type(e).__name__, e), info2); badf = []
                for key, msg, detail in badf:
                    violation(key, msg, info2, detail)
                ck.case(key=(label, repr(crys), ckey(cut), N, origin, "gen-otherform"), nontrivial=len(stars) >= 2,
                        kind="forms:%dD-N%d" % (crys.dim, N))
                ncase += 1
                ck.case(key=(label, repr(crys), ckey(cut), N, origin, "gen"), nontrivial=len(stars) >= 2,
                        kind="gen:%dD-N%d-o%d" % (crys.dim, N, origin),
                        sample={"op": "generate", "crystal": label, "cutoff": cut, "N": N, "originstates": origin,
                                "Nstates": len(sts), "Nstars": len(stars), "G": len(ops)} if N == 2 and ncase % 7 == 0 else None)
                if N >= 1 and len(sts) <= max_case_states and spent + len(sts) <= coq_budget_states:
                    spent += len(sts)
                    runs.append("run_starset J%d %d%%nat %d%%nat %s G%d %s %s %s [%s]" % (
                        cid, nsites, N, "true" if origin else "false", cid, sc.c_pslist(sts), sc.c_natlistlist(stars),
                        sc.c_natlist(S.index), "; ".join("(%s, %s, %s)" % (sc.c_ps(s), sc.c_optnat(a), sc.c_optnat(b)) for s, a, b in qs)))
                    meta.append(("gen", info, MEANING, wgen(len(sts), len(jumps), len(ops))))
                elif N >= 1:
                    skipped["coq-budget"] += 1
        # sums
        pairs = [(1, 1), (1, 2), (2, 1)] + ([(2, 2), (1, 3), (3, 1)] if crys.dim == 2 and not ck.quick else [])
        for (N1, N2) in pairs:
            for o1, o2 in ((False, False), (True, True), (True, False), (False, True)):
                if (N1, o1) not in built or (N2, o2) not in built or (N1 + N2 > Nmax and crys.dim == 3): continue
                inplace = rng.random() < 0.5
                info = dict(info0, N1=N1, o1=o1, N2=N2, o2=o2, inplace=inplace)
                try:
                    A, B = built[(N1, o1)], built[(N2, o2)]
                    beforeA = [sc.ps_of(s) for s in A.states]; beforeB = [sc.ps_of(s) for s in B.states]
                    if inplace:
                        T = A.copy(); T += B
                        bN, bo, oN, oo = N1, o1, N2, o2
                    else:
                        T = A + B
                        (bN, bo, oN, oo) = (N1, o1, N2, o2) if N1 >= N2 else (N2, o2, N1, o1)
                    # same flags: must equal generate(N1+N2) including origin states; mixed: the base's flag (as modelled)
                    expected = sc.reach_bruteforce(jumps, N1 + N2, nsites, bo)
                    bad, sts, stars = eval_structure(T, crys, chem, ops, expected, "sum")
                    if T.Nshells != N1 + N2: bad.append(("nshells", "Nshells of the sum is not N1+N2", {}))
                    qs, bad2 = lookup_queries(T, crys, chem, sts, rng, 4)
                    # operands unchanged
                    if [sc.ps_of(s) for s in A.states] != beforeA or [sc.ps_of(s) for s in B.states] != beforeB \
                            or A.Nshells != N1 or B.Nshells != N2:
                        bad.append(("add-mutates", "operand modified by the sum", {}))
                except Exception as e:
                    grown = sc.reach_bruteforce(jumps, N1 + N2, nsites, False) - sc.reach_bruteforce(jumps, max(N1, N2) if not inplace else N1, nsites, False)
                    if isinstance(e, IndexError) and not grown:
                        # S(N1)+S(N2) must equal S(N1+N2) also when the wider range adds no state (finite / non-percolating network)
                        violation("iadd-no-new-states", "StarSet sum raised %s: %s although S(%d)+S(%d) = S(%d) simply adds no new state"
                                  % (type(e).__name__, e, N1, N2, N1 + N2), info)
                    else:
                        violation("exception", "StarSet sum raised %s: %s" % (type(e).__name__, e), info)
                    continue
                for key, msg, detail in bad + bad2:
                    violation(key if key == "noisy-default-threshold" else "add-" + key, msg, info, detail)
                ck.case(key=(label, repr(crys), ckey(cut), N1, o1, N2, o2, inplace, "add"), nontrivial=len(stars) >= 2,
                        kind="add:%dD-%d+%d" % (crys.dim, N1, N2),
                        sample={"op": "add", "crystal": label, "N1": N1, "o1": o1, "N2": N2, "o2": o2, "Nstates": len(sts)}
                        if (N1, N2, o1, o2) == (1, 2, True, True) and cid % 5 == 0 else None)
                if len(sts) <= max_case_states and spent + 2 * len(sts) <= coq_budget_states:
                    spent += 2 * len(sts)
                    runs.append("run_add J%d %d%%nat %d%%nat %d%%nat %s %s %s" % (
                        cid, nsites, bN, oN, "true" if bo else "false", "true" if oo else "false", sc.c_pslist(sts)))
                    meta.append(("add", info, {1: "sum's states differ from the model of __iadd__", 2: "model sum differs from generate(N1+N2)",
                                               3: "sum's state list has duplicates"}, 3 * wgen(len(sts), len(jumps), len(ops)) + float(len(beforeA)) * len(beforeB) * len(sts)))
                else:
                    skipped["coq-budget"] += 1
        # difference sets
        for (N1, o1, N2, o2) in ((1, True, 1, True), (2, True, 2, True), (1, False, 2, True), (2, False, 1, False)):
            if (N1, o1) not in built or (N2, o2) not in built: continue
            info = dict(info0, N1=N1, o1=o1, N2=N2, o2=o2, op="diffgenerate")
            try:
                A, B = built[(N1, o1)], built[(N2, o2)]
                D = A.copy(empty=True)
                D.diffgenerate(A, B)
                sa = [sc.ps_of(s) for s in A.states]; sb = [sc.ps_of(s) for s in B.states]
                expected = set((s1[1], s2[1], sc.vsub(s2[2], s1[2])) for s1 in sa for s2 in sb if s1[0] == s2[0])
                bad, sts, stars = eval_structure(D, crys, chem, ops, expected, "diffgenerate")
                # every endpoint difference is found by the lookups
                from onsager.crystalStars import PairState
                for s1 in rng.sample(A.states, min(6, len(A.states))):
                    for s2 in rng.sample(B.states, min(6, len(B.states))):
                        if s1.i != s2.i: continue
                        ds = s2 ^ s1
                        x = D.stateindex(ds)
                        if x is None or sc.ps_of(D.states[x]) != sc.ps_of(ds) or D.starindex(ds) != D.index[x]:
                            bad.append(("lookup", "endpoint difference not found in the difference set", {"s1": sc.ps_of(s1), "s2": sc.ps_of(s2)}))
            except Exception as e:
                violation("exception", "diffgenerate raised %s: %s" % (type(e).__name__, e), info); continue
            for key, msg, detail in bad:
                violation(key if key == "noisy-default-threshold" else "diff-" + key, msg, info, detail)
            ck.case(key=(label, repr(crys), ckey(cut), N1, o1, N2, o2, "diff"), nontrivial=len(stars) >= 2,
                    kind="diff:%dD-%d,%d" % (crys.dim, N1, N2))
            if len(sts) <= max_case_states and spent + len(sts) <= coq_budget_states:
                spent += len(sts)
                runs.append("run_diff J%d %d%%nat %d%%nat %d%%nat %s %s %s" % (
                    cid, nsites, N1, N2, "true" if o1 else "false", "true" if o2 else "false", sc.c_pslist(sts)))
                meta.append(("diff", info, {1: "difference set differs from the model", 3: "difference set has duplicates"},
                             wgen(len(sa), len(jumps), 1) + wgen(len(sb), len(jumps), 1) + 0.5 * len(sa) * len(sb) * len(sts)))
                # and its stars through the verified star checker
                runs.append("run_stars G%d %s %s %s" % (cid, sc.c_pslist(sts), sc.c_natlistlist(stars), sc.c_natlist(D.index)))
                meta.append(("diffstars", info, MEANING, wgen(len(sts), 0, len(ops))))
            else:
                skipped["coq-budget"] += 1

    # ---- the model / verified checkers judge the implementation's output ---------------------------
    codes = []
    try:
        heavy = [k for k, m in enumerate(meta) if m[3] > 3 * WMAX]      # a single case must stay far below the coqc timeout
        if heavy:
            skipped["coq-budget"] += len(heavy)
            runs = [r for k, r in enumerate(runs) if k not in set(heavy)]; meta = [m for k, m in enumerate(meta) if k not in set(heavy)]
        codes = sc.run_chunks(ck, "stars", defs, runs, sc.STARS_IMPORTS, chunk=40, workers=6, weights=[m[3] for m in meta], wmax=WMAX)
    except CoqFailure as e:
        ck.broken_proof = "correspondence Model/Stars.run_starset: %s" % e
    for (kind, info, meaning, w_), c in zip(meta, codes):
        if c != 0:
            key = "c24-model-%s-%d" % (kind, c)
            if c == 4 and kind in ("hist", "diffstars") and str(info.get("label", "")).startswith("noisy-"):
                key = "c24-noisy-default-threshold"
            ck.violation("model correspondence (%s): %s" % (kind, meaning.get(c, c)), dict(info, model_code=c), key=key)
    ck.extra["model_cases"] = len(codes)
    ck.extra["model_states_checked"] = spent
    ck.extra["skipped"] = skipped
    ck.extra["history_tier"] = hstats
    ck.extra["subnetworks"] = substats
    ck.extra["traces_validated_against_impl"] = len(codes)
