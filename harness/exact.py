"""Exact rational helpers for the correspondence harness (python Fractions)."""
from fractions import Fraction
from math import gcd, floor, ceil


def lcm(a, b): return a * b // gcd(a, b)


def lcm_den(xs):
    m = 1
    for x in xs: m = lcm(m, Fraction(x).denominator)
    return m


def solve_consistent(A, B):
    """Solve A X = B exactly (A n x n possibly singular, B n x m) by Gauss-Jordan with free
    variables set to 0; returns X or None when the system is inconsistent."""
    n = len(A); m = len(B[0])
    M = [list(map(Fraction, A[i])) + list(map(Fraction, B[i])) for i in range(n)]
    piv = []
    r = 0
    for c in range(n):
        p = next((i for i in range(r, n) if M[i][c] != 0), None)
        if p is None: continue
        M[r], M[p] = M[p], M[r]
        inv = 1 / M[r][c]
        M[r] = [v * inv for v in M[r]]
        for i in range(n):
            if i != r and M[i][c] != 0:
                f = M[i][c]
                M[i] = [a - f * b for a, b in zip(M[i], M[r])]
        piv.append((r, c)); r += 1
        if r == n: break
    for i in range(r, n):
        if any(v != 0 for v in M[i][n:]): return None
    X = [[Fraction(0)] * m for _ in range(n)]
    for (ri, c) in piv:
        X[c] = M[ri][n:]
    return X


def corrector(n, edges, dim):
    """edges: list of (src, dst, cond, [d_0..d_dim-1]) (any multiset closed or not under reversal).
    Kirchhoff at x: sum_e f_e ([x=dst]-[x=src]) = 0 with f_e = c (d + g_dst - g_src).
    Returns gamma[k][x] exact or None."""
    A = [[Fraction(0)] * n for _ in range(n)]
    B = [[Fraction(0)] * dim for _ in range(n)]
    for (s, t, c, d) in edges:
        c = Fraction(c)
        # row t: + c(d + g_t - g_s) ; row s: - c(d + g_t - g_s)
        A[t][t] += c; A[t][s] -= c; A[s][t] -= c; A[s][s] += c
        for k in range(dim):
            B[t][k] -= c * d[k]; B[s][k] += c * d[k]
    X = solve_consistent(A, B)
    if X is None: return None
    return [[X[x][k] for x in range(n)] for k in range(dim)]


def bform(edges, gam, k, l):
    tot = Fraction(0)
    for (s, t, c, d) in edges:
        tot += Fraction(c) * (d[k] + gam[k][t] - gam[k][s]) * (d[l] + gam[l][t] - gam[l][s])
    return tot


def ffloor(x): return floor(x)
def fceil(x): return ceil(x)
