"""Exact lattice-coordinate view of an onsager Crystal, crystal pools with rational metric, and Coq
literal printers -- shared by the C20 / C21 / C22 checks (Model/Geom3.v conventions).

A crystal is read back from the implementation object (crys.lattice / crys.basis / crys.metric /
crys.G) AFTER its constructor has reduced, re-oriented and centred it, and every number is
rationalised with verification (|float - fraction| <= 1e-10); a crystal whose metric or positions
are not rational on the expected grids is rejected (None) and counted by the caller.
Vectors are embedded in Z^3 (a 2-D crystal has third component 0)."""
import itertools, math
from fractions import Fraction
from math import gcd, isqrt
import numpy as np
from onsager import crystal
from . import gen
from .lib import coq_Z, coq_list, coq_nat


def lcm(a, b): return a * b // gcd(a, b)


def rat(x, maxden=200000, tol=1e-10):
    f = Fraction(float(x)).limit_denominator(maxden)
    if abs(float(f) - float(x)) > tol * max(1.0, abs(float(x))): return None
    return f


class Exact:
    """exact data of a crystal: dim, D, pos[c][i] (3 ints, scaled by D), g (dim x dim Fractions),
    Dg, Gs (dim x dim ints = g*Dg), ops: list of dict(S (dim x dim ints), t (dim Fractions), tD (3 ints),
    perm[c] (tuple), g=GroupOp)"""

    def __init__(self, crys, unit=None):
        """unit: exact Fraction s if the lattice is s times a lattice with small rational metric (length-unit sweeps)"""
        self.crys = crys
        self.dim = d = crys.dim
        self.ok = False
        u = [[[rat(x, 480) for x in at] for at in lst] for lst in crys.basis]
        if any(x is None for lst in u for at in lst for x in at): return
        if unit is None:
            g = [[rat(crys.metric[i, j]) for j in range(d)] for i in range(d)]
        else:
            u2 = Fraction(unit) ** 2
            g = [[rat(crys.metric[i, j] / float(u2)) for j in range(d)] for i in range(d)]
            if not any(x is None for r in g for x in r): g = [[x * u2 for x in r] for r in g]
        if any(x is None for r in g for x in r): return
        self.u, self.g = u, g
        D = 1
        for lst in u:
            for at in lst:
                for x in at: D = lcm(D, x.denominator)
        Dg = 1
        for r in g:
            for x in r: Dg = lcm(Dg, x.denominator)
        self.D, self.Dg = D, Dg
        self.pos = [[tuple([int(x * D) for x in at] + [0] * (3 - d)) for at in lst] for lst in u]
        self.Gs = [[int(g[i][j] * Dg) for j in range(d)] for i in range(d)]
        self.scale = D * D * Dg          # squared Cartesian length * scale = integer form value
        self.ops = []
        for gop in sorted(crys.G, key=lambda o: (o.rot.tolist(), o.trans.tolist())):
            S = [[int(x) for x in r] for r in gop.rot]
            t = [rat(x, 480) for x in gop.trans]
            if any(x is None for x in t): return
            tD = [x * D for x in t]
            if any(x.denominator != 1 for x in tD): return
            self.ops.append(dict(S=S, t=t, tD=tuple([int(x) for x in tD] + [0] * (3 - d)), perm=[tuple(p) for p in gop.indexmap], g=gop))
        self.ok = True

    # ---- integer forms (vectors: 3-tuples already scaled) ------------------------------------
    def _g6(self):
        g = getattr(self, "_g6c", None)
        if g is None:
            G = self.Gs
            g = (G[0][0], G[1][1], G[2][2], G[1][2], G[0][2], G[0][1]) if self.dim == 3 else (G[0][0], G[1][1], 0, 0, 0, G[0][1])
            self._g6c = g
        return g

    def bil(self, v, w):
        g11, g22, g33, g23, g13, g12 = self._g6()
        return (v[0] * (g11 * w[0] + g12 * w[1] + g13 * w[2]) + v[1] * (g12 * w[0] + g22 * w[1] + g23 * w[2])
                + v[2] * (g13 * w[0] + g23 * w[1] + g33 * w[2]))

    def qf(self, v): return self.bil(v, v)

    def S3(self, S):
        d = self.dim
        M = [[0] * 3 for _ in range(3)]
        for i in range(3): M[i][i] = 1
        for i in range(d):
            for j in range(d): M[i][j] = S[i][j]
        return M

    def apply(self, S, v):
        d = self.dim
        return tuple([sum(S[i][j] * v[j] for j in range(d)) for i in range(d)] + [0] * (3 - d))

    def metric6(self, g33):
        """(g11,g22,g33,g23,g13,g12) of the 3-D embedding; g33 only matters for 2-D"""
        G = self.Gs
        if self.dim == 3: return (G[0][0], G[1][1], G[2][2], G[1][2], G[0][2], G[0][1])
        return (G[0][0], G[1][1], int(g33), 0, 0, G[0][1])

    def adjdet(self, g33):
        g11, g22, g33, g23, g13, g12 = self.metric6(g33)
        a11 = g22 * g33 - g23 * g23; a22 = g11 * g33 - g13 * g13; a33 = g11 * g22 - g12 * g12
        a12 = g13 * g23 - g12 * g33; a13 = g12 * g23 - g13 * g22
        det = g11 * a11 + g12 * a12 + g13 * a13
        return (a11, a22, a33), det

    def spread(self, chem, species):
        s = [0, 0, 0]
        for c in species:
            for pa in self.pos[c]:
                for pi in self.pos[chem]:
                    for k in range(3): s[k] = max(s[k], abs(pa[k] - pi[k]))
        return tuple(s)

    def min_nmax(self, c2, spread, g33):
        """smallest box half-widths satisfying Geom3.range_okb for the integer cutoff c2"""
        adj, det = self.adjdet(g33)
        out = []
        for k in range(3):
            need = adj[k] * c2                      # need det*m^2 >= need
            m = isqrt(max(0, (need + det - 1) // det))
            while det * m * m < need: m += 1
            n = max(0, -((-(m + spread[k])) // self.D) - 1)
            while self.D * (n + 1) - spread[k] < m: n += 1
            out.append(n)
        if self.dim == 2: out[2] = 0
        return tuple(out)

    def site_shift(self, op, c, i):
        """g maps atom (c,i) of cell 0 to atom (c, perm[c][i]) of cell shift; None if it does not"""
        p = self.pos[c][i]
        j = op["perm"][c][i]
        sp = self.apply(op["S"], p)
        num = [sp[k] + op["tD"][k] - self.pos[c][j][k] for k in range(3)]
        if any(x % self.D for x in num): return None
        return j, tuple(x // self.D for x in num)


def adjdet6(m6):
    g11, g22, g33, g23, g13, g12 = m6
    a11 = g22 * g33 - g23 * g23; a22 = g11 * g33 - g13 * g13; a33 = g11 * g22 - g12 * g12
    a12 = g13 * g23 - g12 * g33; a13 = g12 * g23 - g13 * g22; a23 = g12 * g13 - g11 * g23
    det = g11 * a11 + g12 * a12 + g13 * a13
    return (a11, a22, a33, a23, a13, a12), det


def min_box6(m6, D, c2, spread, dim=3):
    """smallest half-widths n with Geom3.range_okb m6 D c2 n spread"""
    adj, det = adjdet6(m6)
    out = []
    for k in range(3):
        need = adj[k] * c2
        m = isqrt(max(0, (need + det - 1) // det))
        while det * m * m < need: m += 1
        n = 0
        while D * (n + 1) - spread[k] < m: n += 1
        out.append(n)
    if dim == 2: out[2] = 0
    return tuple(out)


def bil6(m6, v, w):
    g11, g22, g33, g23, g13, g12 = m6
    gw = (g11 * w[0] + g12 * w[1] + g13 * w[2], g12 * w[0] + g22 * w[1] + g23 * w[2], g13 * w[0] + g23 * w[1] + g33 * w[2])
    return v[0] * gw[0] + v[1] * gw[1] + v[2] * gw[2]


def int_inverse(S):
    """inverse of a unimodular integer matrix (list of lists), exact"""
    n = len(S)
    M = [[Fraction(S[i][j]) for j in range(n)] + [Fraction(int(i == j)) for j in range(n)] for i in range(n)]
    for c in range(n):
        p = next(r for r in range(c, n) if M[r][c] != 0)
        M[c], M[p] = M[p], M[c]
        M[c] = [x / M[c][c] for x in M[c]]
        for r in range(n):
            if r != c and M[r][c] != 0:
                M[r] = [a - M[r][c] * b for a, b in zip(M[r], M[c])]
    inv = [[M[i][n + j] for j in range(n)] for i in range(n)]
    assert all(x.denominator == 1 for r in inv for x in r)
    return [[int(x) for x in r] for r in inv]


# ---- object-state guard: queries must not change the crystal ------------------------------------------
def _deep(v):
    if isinstance(v, np.ndarray): return ("arr", v.shape, v.dtype.str, v.tobytes())
    if isinstance(v, (list, tuple)): return tuple(_deep(x) for x in v)
    if isinstance(v, (frozenset, set)): return ("set", len(v))
    if isinstance(v, (int, float, complex, str, bool, type(None), np.floating, np.integer)): return ("val", repr(v))
    return ("obj", type(v).__name__)


def state_snapshot(crys):
    """attribute names and a digest of every scalar / array / list attribute of a Crystal object"""
    return {k: _deep(v) for k, v in vars(crys).items()}


def state_diff(before, after):
    """human-readable list of attributes added / removed / changed between two snapshots"""
    out = ["+" + k for k in after if k not in before] + ["-" + k for k in before if k not in after]
    out += ["~" + k for k in before if k in after and before[k] != after[k]]
    return out


# ---- Coq literals -------------------------------------------------------------------------------
def cv3(v): return "(%s, %s, %s)" % (coq_Z(v[0]), coq_Z(v[1]), coq_Z(v[2]))


def cm3(M): return "(%s, %s, %s)" % (cv3(M[0]), cv3(M[1]), cv3(M[2]))


def cmetric(m6): return "(mkMetric %s)" % " ".join(coq_Z(x) for x in m6)


def ccrystal(ex, g33):
    return "(mkCrystal %s %s %s)" % (cmetric(ex.metric6(g33)), coq_Z(ex.D),
                                    coq_list([coq_list([cv3(p) for p in lst]) for lst in ex.pos]))


def cjump(x): return "(%s, %s, %s)" % (coq_nat(x[0]), coq_nat(x[1]), cv3(x[2]))


# ---- crystal pools ------------------------------------------------------------------------------
GRID12 = [Fraction(k, 12) for k in range(12)]


def _a(*x): return np.array(x, dtype=float)


def skew_lattice(rng, dim):
    """low-symmetry cells with rational lattice vectors whose reduced cell stays strongly skewed
    (angles near 60/120 degrees) -- the regime where a box |R_k| <= r/|a_k| + 1 is too small"""
    if dim == 2:
        x = rng.choice([-0.48, -0.45, 0.45, -0.4, 0.47])
        y = rng.choice([0.88, 0.9, 0.85, 0.92])
        return "oblique-skew", _a([1, 0], [x, y]).T
    t = rng.choice([0.45, 0.4, -0.3, 0.48])
    e = rng.choice([0.03, 0.05, -0.04])
    return "triclinic-skew", _a([1, t, t + e], [t - e, 1.05, t], [t, t + e, 0.95]).T


def random_rational_crystal(rng, dim=None, maxatoms=3, nchem=1, scale=1.0, skew=False):
    dim = dim or rng.choice([2, 3])
    if skew: sysm, latt = skew_lattice(rng, dim)
    else: sysm, latt = gen.random_lattice(rng, dim)
    latt = latt * scale
    def pos(): return np.array([float(rng.choice(GRID12)) for _ in range(dim)])
    basis = []
    for c in range(nchem):
        n = rng.randint(1, maxatoms)
        ul = []
        for _ in range(n):
            for _try in range(20):
                u = pos()
                if all(np.linalg.norm(np.dot(latt, crystal.inhalf(u - v))) > 0.3 * scale for l in basis + [ul] for v in l):
                    ul.append(u); break
        if not ul: return None
        basis.append(ul)
    try:
        crys = crystal.Crystal(latt, basis)
    except Exception:
        return None
    return sysm, crys


def pool(rng, n, dims=(2, 3), random_frac=0.6, nchem_max=2, maxatoms=3, scales=(1.0,), skew_frac=0.0, names=None):
    """yield (label, crys, chem, Exact) with rational exact data; rejected crystals are counted in pool.rejected"""
    names = names or ([x for x in gen.NAMES2 if 2 in dims] + [x for x in gen.NAMES3 if 3 in dims])
    out = tries = 0
    pool.rejected = 0
    while out < n and tries < 30 * n:
        tries += 1
        if rng.random() >= random_frac:
            nm = rng.choice(names)
            crys, chem = gen.named(nm)
            label = nm
        else:
            sk = rng.random() < skew_frac
            r = random_rational_crystal(rng, rng.choice(list(dims)), maxatoms=maxatoms, nchem=rng.randint(1, nchem_max),
                                        scale=rng.choice(list(scales)), skew=sk)
            if r is None: continue
            label, crys = "rand-" + r[0], r[1]
            chem = rng.randrange(crys.Nchem)
        ex = Exact(crys)
        if not ex.ok:
            pool.rejected += 1
            continue
        out += 1
        yield label, crys, chem, ex


pool.rejected = 0
