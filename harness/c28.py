"""C28  Supercell occupancy bookkeeping stays consistent over any edit history.

Model: coq/Model/Supercell.v (state = occ, chemorder of the object being edited + of the original of the last
copy + the content of the last POSCAR written; operations setocc / fillperiodic / reorder / __imul__ / copy /
POSCAR / POSCAR_occ with Python subscript and exception semantics).  Theorems: coq/Properties/C28.v.

Tie to /repo on every run
  (a) bounded-exhaustive: every operation sequence up to a fixed length over a small alphabet (declared and
      undeclared species, bad reorderings, every site map of the supercell group, copy/swap, POSCAR write/read)
      is executed on real Supercell objects of 2-site cells (0..2 solutes, with and without an interstitial
      sublattice).  Every executed transition (state before, operation, state after, exception class) is
      replayed inside Coq on the model's `step` with the guard the property demands (and, for diagnosis, with
      the guard of the pinned source); the distinct transitions are sent, which covers every step of every
      sequence because the model is a function of (state, operation).
  (b) random long histories on supercells of the 3-D crystal pool, compared step by step inside Coq
      (`first_diff`), plus "wild" histories (negative indices, malformed mappings, non-permutations) that only
      test that the model reproduces the Python semantics.
  (c) direct evaluator in Python after every operation: the invariant, the frame conditions (no aliasing between
      a copy and its original), the post-condition of each operation, acceptance of every declared species and
      clean rejection (IndexError, nothing changed) of every other one, and the real POSCAR text parsed by an
      independent reader.
"""
META = dict(
    level="proof",
    text=("Coq theorems over all histories (induction over operation lists, any number of sites/species): the invariant "
          "'chemorder lists are duplicate-free and i in chemorder[c] <-> occ[i]=c>=0, occ in -1..Nchem-1' is preserved by "
          "setocc/fillperiodic/reorder/__imul__/copy/POSCAR read for every argument (also failing calls), every declared "
          "species -1..Nchem-1 is accepted and every other one rejected without a change, POSCAR write then read reproduces "
          "occupation and ordering exactly; and a refutation theorem for the guard as written in the pinned source. "
          "Tie: bounded-exhaustive and random operation sequences run on real Supercell objects and on the model inside "
          "Coq, compared state by state, plus a direct evaluator of the invariant and of the text round trip."),
    note=("The model is hand-written from supercell.py (not machine-translated); it is validated against the implementation "
          "on every run. POSCAR is modelled at content level (which sites are listed for which species, in which order); "
          "the float formatting/parsing and the nearest-site search of POSCAR_occ are exercised on real text but not "
          "modelled. Domain of the invariant theorem: site indices that are not negative Python indices, site maps that are "
          "permutations, one mapping list per species. The setocc guard of the originally pinned source "
          "(c < -2 or c > crys.Nchem) is refuted by theorem C28_source_guard_refuted (about the model parameter guard_source); it "
          "was repaired in /repo (94bbf13, c < -1 or c >= self.Nchem); if it returns the check reports key c28-setocc-guard."),
    technique="Coq proof (state machine invariant, induction over histories) + trace correspondence inside Coq + direct evaluator",
)

import copy as _copy, json, collections
from concurrent.futures import ThreadPoolExecutor
import numpy as np
from . import gen, sclib
from .lib import CoqFailure
from .sclib import z, zl, zll

IMPORTS = """From Coq Require Import List ZArith Bool.
From Onsager Require Import Model.Supercell.
Import ListNotations.
Local Open Scope Z_scope.
"""

Obs = collections.namedtuple("Obs", "occ co socc sco clip")
CODES = {0: "ok", 1: "IndexError", 2: "ValueError", 3: "other exception"}


# ------------------------------------------------------------------------------------------------
class Cfg:
    """one supercell geometry + species declaration; holds a template object"""

    def __init__(self, label, crys, superlatt, interstitial=(), Nsolute=0):
        from onsager import supercell
        self.label, self.crys = label, crys
        self.superlatt = np.array(superlatt, dtype=int)
        self.interstitial, self.Nsolute = tuple(interstitial), Nsolute
        self.sup0 = supercell.Supercell(crys, self.superlatt, interstitial=self.interstitial, Nsolute=Nsolute)
        s = self.sup0
        self.N, self.Nchem, self.crysNchem = s.N * s.size, s.Nchem, crys.Nchem
        self.G = sclib.g_list(s)
        self.gof = {}
        for g in self.G: self.gof.setdefault(tuple(g.indexmap[0]), g)
        self.indexmaps = sorted(self.gof)
        # the site list fillperiodic visits, computed as the source does from the object's own tables
        self.fills = {}
        for ci in s.atomindices:
            ind = s.indexatom[ci]
            indlist = next(nset for nset in s.Wyckofflist if ind in nset)
            self.fills[ci] = [n * s.N + i for n in range(s.size) for i in indlist]
        self.poscache = {}

    def spec(self):
        return dict(label=self.label, lattice=self.crys.lattice.tolist(),
                    basis=[[u.tolist() for u in b] for b in self.crys.basis], superlatt=self.superlatt.tolist(),
                    interstitial=list(self.interstitial), Nsolute=self.Nsolute)

    @staticmethod
    def from_spec(d):
        from onsager import crystal
        crys = crystal.Crystal(np.array(d["lattice"]), [[np.array(u) for u in b] for b in d["basis"]])
        return Cfg(d["label"], crys, d["superlatt"], d["interstitial"], d["Nsolute"])

    def shell(self, occ, chemorder):
        t = object.__new__(type(self.sup0))
        t.__dict__.update(self.sup0.__dict__)
        t.occ, t.chemorder = occ, chemorder
        return t

    def declared(self, c):
        return -1 <= c < self.Nchem

    def guards_differ(self, c):
        """does the guard of the pinned source decide differently from the property's guard for species c"""
        return (c < -2 or c > self.crysNchem) != (c < -1 or c >= self.Nchem)

    def guard_wrong_at(self, c):
        """does the implementation treat species c differently from the property (probe on a fresh object, cached)"""
        if not hasattr(self, "_probe"): self._probe = probe_guard(self)
        r = self._probe.get(c)
        return r is not None and r != ("accepted" if self.declared(c) else "rejected")

    def content(self, text):
        r = self.poscache.get(text)
        if r is None:
            content, problems = sclib.parse_poscar(text, self.sup0)
            r = (tuple(tuple(l) for l in content) if content is not None else None, problems)
            self.poscache[text] = r
        return r


class Impl:
    """the implementation side of the machine: two real Supercell objects and a POSCAR text"""

    def __init__(self, cfg, fresh=True):
        self.cfg = cfg
        if fresh:
            s = cfg.sup0
            self.cur = cfg.shell(s.occ.copy(), [list(l) for l in s.chemorder])
            self.saved = cfg.shell(s.occ.copy(), [list(l) for l in s.chemorder])
            self.clip = self.cur.POSCAR()

    def clone(self):
        """snapshot that preserves any sharing between the two objects' attributes"""
        t = Impl(self.cfg, fresh=False)
        a, b, c, d = _copy.deepcopy((self.cur.occ, self.cur.chemorder, self.saved.occ, self.saved.chemorder))
        t.cur = self.cfg.shell(a, b)
        t.saved = t.cur if self.saved is self.cur else self.cfg.shell(c, d)
        t.clip = self.clip
        return t

    def obs(self):
        def one(s):
            return (tuple(int(x) for x in s.occ), tuple(tuple(int(i) for i in l) for l in s.chemorder))
        content, problems = self.cfg.content(self.clip)
        return Obs(*one(self.cur), *one(self.saved), content), problems

    def apply(self, op):
        kind = op[0]
        try:
            if kind == "set":
                if len(op) > 3 and op[3]: self.cur[op[1]] = op[2]
                else: self.cur.setocc(op[1], op[2])
            elif kind == "fill": self.cur.fillperiodic(tuple(op[1]))
            elif kind == "fillbad": self.cur.fillperiodic((self.cfg.crysNchem + 3, 0))
            elif kind == "reorder": self.cur.reorder([list(m) for m in op[1]])
            elif kind == "imul": self.cur.__imul__(self.cfg.gof[tuple(op[1])])
            elif kind == "imulraw":
                from onsager import crystal
                g0 = self.cfg.G[0]
                self.cur.__imul__(crystal.GroupOp(rot=g0.rot, cartrot=g0.cartrot, trans=g0.trans, indexmap=(tuple(op[1]),)))
            elif kind == "copy": self.saved, self.cur = self.cur, self.cur.copy()
            elif kind == "swap": self.saved, self.cur = self.cur, self.saved
            elif kind == "write": self.clip = self.cur.POSCAR()
            elif kind == "read": self.cur.POSCAR_occ(self.clip)
            else: raise RuntimeError("unknown op %r" % (op,))
            return 0, None
        except IndexError as e: return 1, repr(e)
        except ValueError as e: return 2, repr(e)
        except RuntimeError: raise
        except Exception as e: return 3, repr(e)


def op_lit(cfg, op):
    kind = op[0]
    if kind == "set": return "OSet %s %s" % (z(op[1]), z(op[2]))
    if kind == "fill": return "OFill %s %s" % (zl(cfg.fills[tuple(op[1])]), z(op[1][0]))
    if kind == "fillbad": return "OFillBad"
    if kind == "reorder": return "OReorder %s" % zll(op[1])
    if kind in ("imul", "imulraw"): return "OImul %s" % zl(op[1])
    return {"copy": "OCopy", "swap": "OSwap", "write": "OWrite", "read": "ORead"}[kind]


def op_key(op):
    return json.dumps(op[:3])


# ---- direct evaluator ------------------------------------------------------------------------------
def py_inv(occ, co, N, Nchem):
    """the invariant, computed independently of the implementation's __sane__ and of the model"""
    if len(occ) != N or len(co) != Nchem: return "shape"
    seen = {}
    for c, cl in enumerate(co):
        for i in cl:
            if not (0 <= i < N): return "chemorder entry %d out of range" % i
            if i in seen: return "site %d listed twice" % i
            seen[i] = c
            if occ[i] != c: return "site %d listed for species %d but occ=%d" % (i, c, occ[i])
    for i, c in enumerate(occ):
        if not (-1 <= c < Nchem): return "occ[%d]=%d is not a declared species" % (i, c)
        if c >= 0 and seen.get(i) != c: return "site %d holds species %d but is not listed" % (i, c)
    return None


def clip_ok(clip, N, Nchem):
    if clip is None or len(clip) != Nchem: return False
    flat = [i for l in clip for i in l]
    return len(set(flat)) == len(flat) and all(0 <= i < N for i in flat)


def norm_perm(cmap, n):
    """first n entries of cmap as Python indices into a list of length n, or None if that fails / is no permutation"""
    if len(cmap) < n: return None
    out = []
    for v in cmap[:n]:
        if not (-n <= v < n): return None
        out.append(v % n)
    return out if sorted(out) == list(range(n)) else None


def evaluate(cfg, pre, op, post, code, problems):
    """-> None or (class, message): does this transition satisfy the property?  pre is known to satisfy the invariant"""
    N, Nchem = cfg.N, cfg.Nchem
    kind = op[0]
    if problems: return "poscar-text", "POSCAR text: " + "; ".join(problems)
    if code == 3: return "exception", "unexpected exception class"
    # frame conditions
    if kind not in ("copy", "swap") and (post.socc, post.sco) != (pre.socc, pre.sco):
        return "aliasing", "operation %s on one object changed the other one" % kind
    if kind != "write" and post.clip != pre.clip: return "frame", "POSCAR text changed"
    unchanged = (post.occ, post.co) == (pre.occ, pre.co)
    if kind == "set":
        i, c = op[1], op[2]
        if -N <= i < 0: return None  # negative Python index: outside the property's domain (model correspondence only)
        if not (0 <= i < N) or not cfg.declared(c):
            if code != 1 or not unchanged:
                what = "undeclared species %d" % c if 0 <= i < N else "site %d out of range" % i
                return "reject", "%s: expected IndexError and no change, got %s%s" % (what, CODES[code], "" if unchanged else " and a changed state")
        else:
            if code != 0: return "accept", "declared species %d was not accepted: %s" % (c, CODES[code])
            o = list(pre.occ); o[i] = c
            co = [list(l) for l in pre.co]
            if pre.occ[i] != c:
                if pre.occ[i] >= 0: co[pre.occ[i]].remove(i)
                if c >= 0: co[c].append(i)
            if post.occ != tuple(o) or [list(l) for l in post.co] != co: return "setocc-post", "setocc result is not the edited state"
    elif kind == "fill":
        ci = tuple(op[1])
        if code != 0: return "accept", "fillperiodic%s raised %s" % (ci, CODES[code])
        sites = cfg.fills[ci]
        if any(post.occ[s] != ci[0] for s in sites) or any(post.occ[s] != pre.occ[s] for s in range(N) if s not in sites):
            return "fill-post", "fillperiodic did not fill exactly its sublattice"
    elif kind == "fillbad":
        if code != 1 or not unchanged: return "reject", "fillperiodic with a non-atom index: expected IndexError and no change"
    elif kind == "reorder":
        mp = op[1]
        perms = [norm_perm(list(mp[c]), len(pre.co[c])) if c < len(mp) else None for c in range(Nchem)]
        if all(p is not None for p in perms):
            exp = tuple(tuple(pre.co[c][k] for k in perms[c]) for c in range(Nchem))
            if code != 0 or post.co != exp or post.occ != pre.occ: return "reorder-post", "valid reordering not applied"
        elif len(mp) >= Nchem:
            if code not in (1, 2) or not unchanged: return "reorder-reject", "improper mapping: expected an exception and no change, got %s" % CODES[code]
    elif kind in ("imul", "imulraw"):
        idx = list(op[1])
        if sorted(idx) == list(range(N)):
            exp_occ = [None] * N
            for i, gi in enumerate(idx): exp_occ[gi] = pre.occ[i]
            exp_co = tuple(tuple(idx[i] for i in l) for l in pre.co)
            if code != 0 or post.occ != tuple(exp_occ) or post.co != exp_co: return "imul-post", "site map not applied"
    elif kind == "copy":
        if code != 0 or (post.occ, post.co) != (pre.occ, pre.co) or (post.socc, post.sco) != (pre.occ, pre.co):
            return "copy-post", "copy differs from its original"
    elif kind == "swap":
        pass
    elif kind == "write":
        if code != 0 or not unchanged: return "write-post", "POSCAR() raised or changed the object"
        if post.clip != pre.co: return "poscar-write", "POSCAR lists %r but the ordering is %r" % (post.clip, pre.co)
    elif kind == "read":
        exp = [-1] * N
        for c, l in enumerate(pre.clip):
            for i in l: exp[i] = c
        if code != 0: return "accept", "POSCAR_occ raised %s on a POSCAR written by the same supercell" % CODES[code]
        if post.co != pre.clip or post.occ != tuple(exp): return "poscar-roundtrip", "reading back does not reproduce occupation and ordering"
    # the invariant itself
    for who, (o, c_) in (("edited object", (post.occ, post.co)), ("other object", (post.socc, post.sco))):
        r = py_inv(o, c_, N, Nchem)
        if r: return "invariant", "%s after %s: %s" % (who, kind, r)
    if not clip_ok(post.clip, N, Nchem): return "invariant", "POSCAR content ill-formed"
    return None


def vkey(cfg, op, cls):
    """stable class key of a violation: failures at a setocc call whose species lies where the implementation's guard
    (observed from outside) decides differently from the property's guard belong to the guard defect"""
    if op[0] == "set" and cfg.guards_differ(op[2]) and cfg.guard_wrong_at(op[2]): return "c28-setocc-guard"
    return "c28-" + cls


# ---- collecting -----------------------------------------------------------------------------------
class Collector:
    def __init__(self, ck):
        self.ck = ck
        self.triples = {}       # cfg index -> {(pre, opkey, post, code): (op, seq)}
        self.found = {}         # key -> dict(msg, replay, count)
        self.nodes = 0
        self.roundtrips = 0
        self.sane_disagree = 0

    def violation(self, key, msg, replay):
        f = self.found.get(key)
        if f is None:
            self.found[key] = dict(msg=msg, replay=replay, count=1)
        else:
            f["count"] += 1
            if len(replay.get("ops", [])) < len(f["replay"].get("ops", [])):
                f["msg"], f["replay"] = msg, replay

    def flush(self):
        for key in sorted(self.found):
            f = self.found[key]
            f["replay"]["occurrences_in_this_run"] = f["count"]
            self.ck.violation("%s  (%d occurrences)" % (f["msg"], f["count"]), f["replay"], key=key)


def do_step(col, ci, cfg, impl, pre, op, seq, record=True):
    """run one operation on the implementation, evaluate, record; returns (post, code, ok)"""
    code, exc = impl.apply(op)
    post, problems = impl.obs()
    col.nodes += 1
    bad = evaluate(cfg, pre, op, post, code, problems)
    nontriv = (post != pre) or code != 0
    col.ck.case(key=(ci, hash((pre, op_key(op)))), nontrivial=nontriv, kind=op[0],
                sample={"cell": cfg.label, "Nsolute": cfg.Nsolute, "ops": [list(map(str, o)) for o in (seq + [op])[-8:]],
                        "occ": list(post.occ), "chemorder": [list(l) for l in post.co], "outcome": CODES[code]}
                if (col.nodes % 997 == 3) else None)
    if record and post.clip is not None:
        col.triples.setdefault(ci, {}).setdefault((pre, op_key(op), post, code), (op, seq))
    # the implementation's own consistency test must hold whenever the independent one does
    if py_inv(post.occ, post.co, cfg.N, cfg.Nchem) is None and not impl.cur.__sane__():
        col.violation("c28-sane", "%s: __sane__() is False on a consistent state" % cfg.label,
                      dict(cfg=cfg.spec(), ops=[list(o) for o in seq + [op]], state_after=post._asdict()))
    if bad:
        cls, msg = bad
        col.violation(vkey(cfg, op, cls), "%s, Nsolute=%d, after %s: %s" % (cfg.label, cfg.Nsolute, [tuple(o) for o in seq + [op]], msg),
                      dict(cfg=cfg.spec(), ops=[list(o) for o in seq + [op]], exception=exc, outcome=CODES[code],
                           state_before=pre._asdict(), state_after=post._asdict(), evaluator=cls, message=msg))
        return post, code, False
    return post, code, True


def canonical_poscar(sup):
    """harness-written POSCAR text of a supercell (all species on the counts line, zeros included); only used to go on
    exploring when the implementation's own text of the EMPTY supercell is already wrong (which is reported)"""
    a = sup.lattice
    t = "harness\n1.0\n" + "".join("%21.16f %21.16f %21.16f\n" % (a[0][k], a[1][k], a[2][k]) for k in range(3))
    t += " ".join(str(len(l)) for l in sup.chemorder) + "\nDirect\n"
    t += "\n".join(" %19.16f %19.16f %19.16f" % tuple(sup.pos[i]) for l in sup.chemorder for i in l)
    return t + "\n"


def start_impl(col, cfg):
    """fresh machine; its initial observation must be the model's initial state.  A wrong POSCAR of the empty supercell is
    reported (with the one-operation replay) and replaced by a harness-written text so that the exploration can go on;
    objects that are not empty are reported and the cell is skipped (None)."""
    impl = Impl(cfg)
    pre, problems = impl.obs()
    empty = ((-1,) * cfg.N, ((),) * cfg.Nchem)
    if (pre.occ, pre.co) != empty or (pre.socc, pre.sco) != empty:
        col.violation("c28-initial", "%s, Nsolute=%d: a new supercell is not empty" % (cfg.label, cfg.Nsolute),
                      dict(cfg=cfg.spec(), ops=[], state_after=pre._asdict()))
        return None
    if problems or pre.clip != ((),) * cfg.Nchem:
        col.violation("c28-poscar-write-empty", "%s, Nsolute=%d: POSCAR() of the empty supercell lists %r for %d declared species%s" %
                      (cfg.label, cfg.Nsolute, pre.clip, cfg.Nchem, "; " + "; ".join(problems) if problems else ""),
                      dict(cfg=cfg.spec(), ops=[["write"]], state_after=pre._asdict(), poscar_text=impl.clip, evaluator="poscar-write"))
        impl.clip = canonical_poscar(impl.cur)
        pre, problems = impl.obs()
        if problems or pre.clip != ((),) * cfg.Nchem:
            raise RuntimeError("harness POSCAR text is not read back by the harness reader")
    return impl, pre


def dfs(col, ci, cfg, impl, pre, depth, alphabet, seq):
    for op in alphabet:
        child = impl.clone()
        post, code, ok = do_step(col, ci, cfg, child, pre, op, seq)
        if ok and depth > 1:
            dfs(col, ci, cfg, child, post, depth - 1, alphabet, seq + [op])


def alphabets(cfg):
    N, Nchem = cfg.N, cfg.Nchem
    sites = list(range(min(N, 2)))
    full = [("set", i, c) for i in sites for c in range(-2, Nchem + 1)] + [("set", N, 0)]
    full += [("fill", ci) for ci in cfg.fills] + [("fillbad",)]
    full += [("reorder", [m] * Nchem) for m in ([0, 1], [1, 0], [0, 0], [0])]
    full += [("imul", list(im)) for im in cfg.indexmaps[:3]]
    full += [("copy",), ("swap",), ("write",), ("read",)]
    red = [("set", i, c) for i in sites for c in sorted({-1, 0, Nchem - 1})] + [("set", 0, -2), ("set", 0, Nchem)]
    red += [("fill", next(iter(cfg.fills)))] + [("reorder", [[1, 0]] * Nchem)]
    red += [("imul", list(im)) for im in cfg.indexmaps if list(im) != list(range(N))][:1]
    red += [("copy",), ("swap",), ("write",), ("read",)]
    return full, red


def small_cfgs(thorough):
    from onsager import crystal
    sc = crystal.Crystal(np.eye(3), [np.zeros(3)])
    two = crystal.Crystal(np.diag([1., 1., 1.3]), [np.zeros(3), np.array([.5, .5, .4])])           # two atoms, one species
    hi = crystal.Crystal(np.eye(3), [[np.zeros(3)], [np.array([.5, .5, .5])]])                        # host + interstitial site
    out = []
    for ns in (0, 1, 2):
        out.append(Cfg("sc-2x1x1", sc, np.diag([2, 1, 1]), (), ns))
        out.append(Cfg("host+interstitial-1x1x1", hi, np.eye(3), (1,), ns))
    out.append(Cfg("two-atom-1x1x1", two, np.eye(3), (), 1))
    if thorough:
        out.append(Cfg("host+interstitial-2x1x1", hi, np.diag([2, 1, 1]), (1,), 1))
    return out


# ---- Coq side -------------------------------------------------------------------------------------
class Namer:
    """shares literals of repeated states inside one cases file"""

    def __init__(self):
        self.defs, self.names = [], {}

    TYPES = {"s": "sc", "c": "list (list Z)", "m": "mach"}

    def name(self, prefix, key, lit):
        n = self.names.get((prefix, key))
        if n is None:
            n = "%s%d" % (prefix, len(self.names))
            self.names[(prefix, key)] = n
            self.defs.append("Definition %s : %s := %s." % (n, self.TYPES[prefix], lit))
        return n

    def mach(self, o):
        a = self.name("s", (o.occ, o.co), "mkSC %s %s" % (zl(o.occ), zll(o.co)))
        b = self.name("s", (o.socc, o.sco), "mkSC %s %s" % (zl(o.socc), zll(o.sco)))
        c = self.name("c", o.clip, zll(o.clip))
        return self.name("m", o, "mkM %s %s %s" % (a, b, c))


def triples_file(cfg, items):
    nm = Namer()
    rows = []
    for (pre, opk, post, code), (op, seq) in items:
        rows.append("(%s, %s, %s, %d%%nat)" % (nm.mach(pre), op_lit(cfg, op), nm.mach(post), code))
    body = "\n".join(nm.defs) + "\nDefinition T : list (mach * op * mach * nat) := [\n" + ";\n".join(rows) + "].\n"
    body += "Eval vm_compute in (falses (map (check_step (guard_declared %d)) T) 0).\n" % cfg.Nchem
    body += "Eval vm_compute in (falses (map (check_step (guard_source %d)) T) 0).\n" % cfg.crysNchem
    body += "Eval vm_compute in (falses (map (fun t => minvb %d %d (fst (fst (fst t)))) T) 0).\n" % (cfg.N, cfg.Nchem)
    body += "Eval vm_compute in (falses (map (fun t => minvb %d %d (snd (fst t))) T) 0).\n" % (cfg.N, cfg.Nchem)
    return body


def run_triples(ck, col, cfgs, chunk=1500):
    """replay every distinct observed transition on the model inside Coq"""
    jobs = []
    for ci, cfg in enumerate(cfgs):
        items = list(col.triples.get(ci, {}).items())
        for a in range(0, len(items), chunk):
            jobs.append((ci, cfg, items[a:a + chunk], "tr%d_%d" % (ci, a)))

    def work(job):
        ci, cfg, items, name = job
        out = ck.coq_cases(name, triples_file(cfg, items), IMPORTS)
        ev = sclib.parse_evals(out)
        if len(ev) != 4: raise CoqFailure("unexpected model output: " + out[:300])
        return [set(sclib.nats_of(e)) for e in ev]

    stats = dict(transitions=0, differ_declared=0, differ_source=0)
    with ThreadPoolExecutor(max_workers=8) as ex:
        results = list(ex.map(work, jobs))
    for (ci, cfg, items, name), (dd, ds, badpre, badpost) in zip(jobs, results):
        stats["transitions"] += len(items)
        stats["differ_declared"] += len(dd); stats["differ_source"] += len(ds)
        for k, ((pre, opk, post, code), (op, seq)) in enumerate(items):
            pyinv_post = all(py_inv(o, c_, cfg.N, cfg.Nchem) is None for o, c_ in ((post.occ, post.co), (post.socc, post.sco))) \
                         and clip_ok(post.clip, cfg.N, cfg.Nchem)
            if k in badpre:
                col.violation("c28-invariant", "%s, Nsolute=%d: after %s the implementation is in a state that the verified invariant checker "
                              "rejects (occ=%s chemorder=%s last POSCAR=%s)" % (cfg.label, cfg.Nsolute, [tuple(o) for o in seq], list(pre.occ),
                                                                                 [list(l) for l in pre.co], pre.clip),
                              dict(cfg=cfg.spec(), ops=[list(o) for o in seq], state_after=pre._asdict(), evaluator="Coq minvb"))
                continue
            if (k in badpost) == pyinv_post:
                col.violation("c28-invariant", "%s, Nsolute=%d: after %s the verified invariant checker %s the state, the Python evaluator %s it" %
                              (cfg.label, cfg.Nsolute, [tuple(o) for o in seq + [op]], "rejects" if k in badpost else "accepts",
                               "accepts" if pyinv_post else "rejects"),
                              dict(cfg=cfg.spec(), ops=[list(o) for o in seq + [op]], state_after=post._asdict(), evaluator="Coq minvb vs evaluator"))
                continue
            if k in dd:
                explained = (k not in ds)
                key = vkey(cfg, op, "model-mismatch") if explained else "c28-model-mismatch"
                msg = ("%s, Nsolute=%d, history %s: implementation and model (guard of the property) differ at the last operation; "
                       "%s" % (cfg.label, cfg.Nsolute, [tuple(o) for o in seq + [op]],
                               "the model with the guard of the pinned source reproduces the implementation" if explained
                               else "the model with the guard of the pinned source differs as well"))
                col.violation(key, msg, dict(cfg=cfg.spec(), ops=[list(o) for o in seq + [op]], outcome=CODES[code],
                                             state_before=pre._asdict(), state_after=post._asdict(), evaluator="correspondence"))
    return stats


# ---- random histories -----------------------------------------------------------------------------
def random_op(rng, cfg, impl, avoid_guard, wild):
    N, Nchem = cfg.N, cfg.Nchem
    r = rng.random()
    if r < 0.45:
        i = rng.randrange(N)
        c = rng.randrange(-1, Nchem) if rng.random() < 0.8 else rng.choice([-3, -2, Nchem, Nchem + 1])
        if wild and rng.random() < 0.3: i = rng.choice([-1, -N, -N - 1, N, rng.randrange(-N, 0)])
        if avoid_guard and cfg.guards_differ(c): c = -1
        return ("set", i, c, rng.random() < 0.3)
    if r < 0.52: return ("fill", rng.choice(list(cfg.fills)))
    if r < 0.54: return ("fillbad",)
    if r < 0.66:
        mp = []
        for l in impl.cur.chemorder:
            p = list(range(len(l))); rng.shuffle(p)
            k = rng.random()
            if k < 0.08 and p: p[rng.randrange(len(p))] = rng.randrange(len(p))        # maybe a duplicate
            elif k < 0.12 and p: p = p[:-1]                                              # too short
            elif k < 0.2 and p: p = [v - len(p) if rng.random() < 0.5 else v for v in p]   # negative Python indices
            elif k < 0.25: p = p + [0]                                                   # too long (ignored)
            mp.append(p)
        if wild and rng.random() < 0.3: mp = mp[:-1]
        return ("reorder", mp)
    if r < 0.80:
        if wild and rng.random() < 0.4:
            idx = [rng.randrange(-N, N + 1) for _ in range(rng.choice([N, N, N - 1, N + 1]))]
            return ("imulraw", idx)
        return ("imul", list(rng.choice(cfg.indexmaps)))
    if r < 0.86: return ("copy",)
    if r < 0.90: return ("swap",)
    if r < 0.95: return ("write",)
    return ("read",)


def random_trace(col, ci, cfg, rng, length, avoid_guard, wild=False):
    """one history from a fresh object; -> list of (op, observation after, outcome code)"""
    st0 = start_impl(col, cfg)
    if st0 is None: return []
    impl, pre = st0
    trace, seq = [], []
    for _ in range(length):
        op = random_op(rng, cfg, impl, avoid_guard, wild)
        if wild:
            code, exc = impl.apply(op)
            post, problems = impl.obs()
            col.nodes += 1
            col.ck.case(key=(ci, "wild", hash((pre, op_key(op)))), nontrivial=(post != pre) or code != 0, kind="wild-" + op[0])
            if post.clip is None or problems: break      # corrupted object wrote a text our reader cannot map: stop here
            ok = True
        else:
            post, code, ok = do_step(col, ci, cfg, impl, pre, op, seq, record=False)
            if post.clip is None: break
            if ok:
                # derived views of the live object (which has a history) against a fresh object with the same content
                try:
                    live = (impl.cur.defectindices(), impl.cur.KrogerVink(), impl.cur.stoichiometry())
                    fr = cfg.shell(np.array(post.occ, dtype=int), [list(l) for l in post.co])
                    fresh = (fr.defectindices(), fr.KrogerVink(), fr.stoichiometry())
                except Exception as e:
                    live, fresh = repr(e), None
                if live != fresh:
                    col.violation("c28-derived-views", "%s, Nsolute=%d: after %s defectindices()/KrogerVink()/stoichiometry() of the edited object "
                                  "(%r) differ from those of a fresh supercell with the same occupation and ordering (%r)" %
                                  (cfg.label, cfg.Nsolute, [o[0] for o in seq + [op]][-6:], live, fresh),
                                  dict(cfg=cfg.spec(), ops=[list(o) for o in seq + [op]], state_after=post._asdict(), evaluator="derived views"))
                    ok = False
        trace.append((op, post, code))
        seq = seq + [op]
        pre = post
        if not ok: break
    return trace


def traces_file(entries):
    """entries: (cfg, trace) -> cases file printing, per trace, the first differing step for both guards"""
    nm = Namer()
    names = []
    for k, (cfg, trace) in enumerate(entries):
        rows = ["(%s, %s, %d%%nat)" % (op_lit(cfg, op), nm.mach(post), code) for op, post, code in trace]
        names.append("t%d" % k)
        nm.defs.append("Definition t%d : list (op * mach * nat) := [\n%s]." % (k, ";\n".join(rows)))
    body = "\n".join(nm.defs) + "\n"
    body += "Eval vm_compute in [%s].\n" % "; ".join(
        "first_diff (guard_declared %d) (init %d %d) t%d 0" % (cfg.Nchem, cfg.N, cfg.Nchem, k) for k, (cfg, _) in enumerate(entries))
    body += "Eval vm_compute in [%s].\n" % "; ".join(
        "first_diff (guard_source %d) (init %d %d) t%d 0" % (cfg.crysNchem, cfg.N, cfg.Nchem, k) for k, (cfg, _) in enumerate(entries))
    return body


def run_traces(ck, name, entries, per_file=8):
    jobs = [(entries[a:a + per_file], "%s%d" % (name, a)) for a in range(0, len(entries), per_file)]

    def work(job):
        ents, nm = job
        ev = sclib.parse_evals(ck.coq_cases(nm, traces_file(ents), IMPORTS))
        if len(ev) != 2: raise CoqFailure("unexpected model output for " + nm)
        d, s_ = sclib.nats_of(ev[0]), sclib.nats_of(ev[1])
        if len(d) != len(ents) or len(s_) != len(ents): raise CoqFailure("unexpected model output for " + nm)
        return list(zip(d, s_))
    with ThreadPoolExecutor(max_workers=8) as ex:
        res = list(ex.map(work, jobs))
    return [x for r in res for x in r]


# ---- the guard, observed from outside --------------------------------------------------------------
def probe_guard(cfg):
    """for every species index around the declared range: is setocc(site holding species 0, c) accepted, rejected
    cleanly (IndexError, nothing changed), or something else"""
    table = {}
    for c in range(-4, cfg.Nchem + 4):
        impl = Impl(cfg)
        impl.cur.setocc(0, cfg.sup0.atomindices[0][0])
        pre, _ = impl.obs()
        code, exc = impl.apply(("set", 0, c))
        post, _ = impl.obs()
        if code == 0 and post.occ[0] == c: table[c] = "accepted"
        elif code == 1 and post == pre: table[c] = "rejected"
        else: table[c] = "%s, state %s" % (CODES[code], "unchanged" if post == pre else "changed")
    return table


def named_poscars(ck, col):
    """write a supercell with POSCAR(), rewrite the text with an element-name line and the species blocks in a permuted order (own
    writer working on the text), read it with POSCAR_occ into a differently occupied supercell: occupation and ordering must be the
    written ones; the Coq model poscar_read_named gets the name-line -> species map and the blocks (own reader) and must agree"""
    import itertools
    from onsager import crystal
    rng = ck.rng
    b2 = crystal.Crystal(np.eye(3), [[np.zeros(3)], [np.array([.5, .5, .5])]], chemistry=["A", "B"])
    hi = crystal.Crystal(np.diag([1., 1., 1.2]), [[np.zeros(3)], [np.array([.5, .5, .5])]], chemistry=["M", "O"])
    cfgs = [Cfg("B2 'A','B' + solute 'C' 2x1x1", b2, np.diag([2, 1, 1]), (), 1), Cfg("host 'M' + interstitial 'O' + solutes 'X','Y' 2x2x1", hi, np.diag([2, 2, 1]), (1,), 2)]
    cfgs[0].sup0.definesolute(2, "C"); cfgs[1].sup0.definesolute(2, "X"); cfgs[1].sup0.definesolute(3, "Y")
    rows, metas = [], []
    for cfg in cfgs:
        names = cfg.sup0.chemistry[:cfg.Nchem]
        for rep in range(ck.n(12, 60)):
            w = cfg.shell(cfg.sup0.occ.copy(), [[] for _ in range(cfg.Nchem)])
            for i in rng.sample(range(cfg.N), cfg.N):
                c = rng.choice([-1] + list(range(cfg.Nchem)) + [cfg.sup0.atomindices[i % cfg.sup0.N][0]] * 2)
                w.setocc(i, c)
            wocc, wco = [int(x) for x in w.occ], [list(map(int, l)) for l in w.chemorder]
            if py_inv(wocc, wco, cfg.N, cfg.Nchem) is not None: continue
            lines = w.POSCAR("named").split("\n")
            counts = [int(x) for x in lines[5].split()]
            if len(counts) != cfg.Nchem or lines[6].strip() != "Direct": continue       # (reported by the write checks)
            pos = lines[7:7 + sum(counts)]
            blocks, n = [], 0
            for k in counts: blocks.append(pos[n:n + k]); n += k
            present = [c for c in range(cfg.Nchem) if counts[c] > 0]
            listed = present + [c for c in range(cfg.Nchem) if counts[c] == 0 and rng.random() < 0.4]
            if not listed: continue
            orders = list(itertools.permutations(listed)) if len(listed) <= 3 else [tuple(rng.sample(listed, len(listed))) for _ in range(4)]
            for order in orders:
                text = "\n".join(lines[:5] + [" ".join(names[c] for c in order), " ".join(str(counts[c]) for c in order), "Direct"] +
                                 [l for c in order for l in blocks[c]]) + "\n"
                # the target starts from some other consistent occupation
                t = cfg.shell(cfg.sup0.occ.copy(), [[] for _ in range(cfg.Nchem)])
                for i in rng.sample(range(cfg.N), cfg.N // 2): t.setocc(i, rng.randrange(-1, cfg.Nchem))
                tocc0, tco0 = [int(x) for x in t.occ], [list(map(int, l)) for l in t.chemorder]
                try:
                    t.POSCAR_occ(text); exc = None
                except Exception as e:
                    exc = repr(e)
                rocc, rco = [int(x) for x in t.occ], [list(map(int, l)) for l in t.chemorder]
                col.nodes += 1
                ck.case(key=("named", cfg.label, wocc, wco, order), nontrivial=list(order) != sorted(order) or len(order) < cfg.Nchem, kind="named-poscar",
                        sample={"cell": cfg.label, "name_line": [names[c] for c in order], "counts": [counts[c] for c in order], "written_occ": wocc,
                                "read_occ": rocc} if len(rows) in (3, 40) else None)
                repd = dict(cfg=cfg.spec(), chemistry=names, name_line=[names[c] for c in order], counts=[counts[c] for c in order], poscar_text=text,
                            written=dict(occ=wocc, chemorder=wco), read=dict(occ=rocc, chemorder=rco), exception=exc, ops=[["read-named"]])
                if exc or rocc != wocc or rco != wco:
                    col.violation("c28-poscar-named", "%s: POSCAR with name line %r (counts %s) of a supercell with occ=%s chemorder=%s is read back as "
                                  "occ=%s chemorder=%s%s" % (cfg.label, " ".join(names[c] for c in order), [counts[c] for c in order], wocc, wco, rocc, rco,
                                                              " (%s)" % exc if exc else ""), repd)
                # the model: blocks as site lists (own reader of the block lines) + name line -> species map
                sites = []
                for c in order:
                    bl = []
                    for l in blocks[c]:
                        d = cfg.sup0.pos - np.array([float(x) for x in l.split()[:3]]); d -= np.round(d)
                        bl.append(int(np.argmin((d * d).sum(axis=1))))
                    sites.append(bl)
                rows.append("sc_eqb (fst (poscar_read_named (guard_declared %d) %s %s (mkSC %s %s))) (mkSC %s %s)" %
                            (cfg.Nchem, zl(order), zll(sites), zl(tocc0), zll(tco0), zl(rocc), zll(rco)))
                metas.append(repd)
    ck.extra["named_poscar_reads"] = len(rows)
    for a in range(0, len(rows), 400):
        out = ck.coq_cases("named%d" % a, "Eval vm_compute in (falses [%s] 0)." % ";\n ".join(rows[a:a + 400]), IMPORTS)
        ev = sclib.parse_evals(out)
        if len(ev) != 1: raise CoqFailure("unexpected model output: " + out[:300])
        for k in sclib.nats_of(ev[0]):
            m = metas[a + k]
            col.violation("c28-poscar-named-model", "%s: POSCAR_occ on a file with name line %r gives occ=%s chemorder=%s, the model poscar_read_named differs" %
                          (m["cfg"]["label"], " ".join(m["name_line"]), m["read"]["occ"], m["read"]["chemorder"]), m)


WITNESSES = [  # the histories of theorem C28_source_guard_refuted, replayed on the implementation
    ("undeclared species -2 is accepted and breaks the bookkeeping", 0, [("set", 0, -2)]),
    ("declared second solute is rejected", 2, [("set", 0, 2)]),
    ("rejection of species Nchem happens after the site was already unlisted", 0, [("set", 0, 0), ("set", 0, 1)]),
]


def run(ck):
    ck.rule = ("bounded-exhaustive: all operation sequences up to length L over the alphabet {setocc(site, c) for c in -2..Nchem, "
               "site out of range, fillperiodic, bad fillperiodic, 4 reorder mappings, every site map of the supercell group, copy, "
               "swap, POSCAR write, POSCAR read} on 2-site supercells (simple cubic 2x1x1, host+interstitial, two-atom cell; 0..2 "
               "solutes), L = %s for the full / reduced alphabet (quick: reduced alphabet on 4 of the 7 cells); random histories on supercells of the 3-D crystal pool; "
               "an evaluation = one operation executed on a real Supercell object and checked; distinct = distinct (cell, state "
               "before, operation); non-trivial = the operation changed the state or raised" % ("3/4" if ck.quick else "4/5"))
    ck.trusted += ["harness/c28.py, sclib.py: observation of occ/chemorder, own POSCAR reader (text -> site lists), Coq literal printing",
                   "position <-> site identification in POSCAR/POSCAR_occ (float formatting, nearest-site search) is exercised on real "
                   "text but modelled only at content level",
                   "fillperiodic's site list is recomputed by the harness from the object's own Wyckofflist/N/size tables"]
    ck.theorems()
    rng = ck.rng
    col = Collector(ck)
    cfgs = small_cfgs(not ck.quick)

    # 0. the guard seen from outside + the witnesses of the refutation theorem
    for cfg in cfgs[:6]:
        table = probe_guard(cfg)
        wrong = {c: r for c, r in table.items() if r != ("accepted" if cfg.declared(c) else "rejected")}
        ck.case(key=("probe", cfg.label, cfg.Nsolute), kind="guard-probe", nontrivial=True)
        if wrong:
            c0 = sorted(wrong)[0]
            col.violation("c28-setocc-guard" if all(cfg.guards_differ(c) for c in wrong) else "c28-guard-other",
                          "%s, Nsolute=%d (species -1..%d declared): setocc(0, c) -> %s" % (cfg.label, cfg.Nsolute, cfg.Nchem - 1,
                                                                                       {c: wrong[c] for c in sorted(wrong)}),
                          dict(cfg=cfg.spec(), ops=[["set", 0, cfg.sup0.atomindices[0][0]], ["set", 0, c0]], table={str(k): v for k, v in table.items()}))
    from onsager import crystal
    scx = crystal.Crystal(np.eye(3), [np.zeros(3)])
    for what, ns, ops in WITNESSES:
        cfg = Cfg("sc-2x1x1", scx, np.diag([2, 1, 1]), (), ns)
        st0 = start_impl(col, cfg)
        if st0 is None: continue
        (impl, pre), seq = st0, []
        for op in ops:
            pre, code, ok = do_step(col, 100 + ns, cfg, impl, pre, op, seq, record=False); seq.append(op)
            if not ok: break

    # 0b. POSCAR of a supercell of a crystal whose interstitial sublattice was added with Crystal.addbasis() (default names)
    from . import gen as _gen
    acrys, achem = _gen.named("fcc-oct-tet")
    ck.case(key="addbasis-names", kind="poscar-names", nontrivial=True)
    if not all(isinstance(nm, str) for nm in acrys.chemistry):
        probe = Cfg("fcc-oct-tet (Crystal.FCC(1.).addbasis(...))", acrys, np.eye(3, dtype=int), (achem,), 0)
        try:
            probe.sup0.POSCAR()
        except TypeError as e:
            col.violation("c28-poscar-int-chemistry", "POSCAR() of a supercell of a crystal made by addbasis() without species names raises %r "
                          "(chemistry=%r)" % (e, acrys.chemistry),
                          dict(cfg=probe.spec(), chemistry=[repr(x) for x in acrys.chemistry], ops=[["write"]], exception=repr(e)))

    # 0c. POSCAR files with a VASP5 element-name line: species blocks in every order, absent species left out or listed with 0
    try:
        named_poscars(ck, col)
    except CoqFailure as e:
        ck.broken_proof = "correspondence Model/Supercell.poscar_read_named: %s" % e
        ck.note("CORRESPONDENCE FAILED: " + str(e)[:1500])

    # 1. bounded-exhaustive sequences on real objects
    dfull, dred = (3, 4) if ck.quick else (4, 5)
    for ci, cfg in enumerate(cfgs):
        full, red = alphabets(cfg)
        st0 = start_impl(col, cfg)
        if st0 is None: continue
        impl, pre = st0
        n0 = col.nodes
        # every occupation of the first two sites written, then read into the other (empty) object: covers every pattern of
        # EMPTY species preceding occupied ones (empty interstitial sublattice + solute, only the second solute, vacated first sublattice)
        for a in range(-1, cfg.Nchem):
            for b in range(-1, cfg.Nchem):
                rt = impl.clone(); rpre = pre; rseq = []
                for op in [("set", 0, a), ("set", min(1, cfg.N - 1), b), ("write",), ("swap",), ("read",), ("write",)]:
                    rpre, code, ok = do_step(col, ci, cfg, rt, rpre, op, rseq); rseq = rseq + [op]
                    if not ok: break
                else:
                    if (rpre.occ, rpre.co) != (rpre.socc, rpre.sco):
                        col.violation("c28-poscar-roundtrip", "%s, Nsolute=%d: after %s the supercell that read the POSCAR differs from the one "
                                      "that wrote it" % (cfg.label, cfg.Nsolute, rseq), dict(cfg=cfg.spec(), ops=[list(o) for o in rseq], state_after=rpre._asdict()))
                col.roundtrips += 1
                # the same round trip evaluated directly (not stopped by an earlier finding): writer vs reader, occupation and ordering
                dr = impl.clone()
                ops = [("set", 0, a), ("set", min(1, cfg.N - 1), b), ("write",), ("swap",), ("read",)]
                codes = [dr.apply(op)[0] for op in ops]
                w_, r_ = dr.saved, dr.cur
                wocc, rocc = [int(x) for x in w_.occ], [int(x) for x in r_.occ]
                wco, rco = [list(map(int, l)) for l in w_.chemorder], [list(map(int, l)) for l in r_.chemorder]
                if py_inv(wocc, wco, cfg.N, cfg.Nchem) is None and (codes[2:] != [0, 0, 0] or wocc != rocc or wco != rco):
                    col.violation("c28-poscar-roundtrip", "%s, Nsolute=%d: supercell with occ=%s chemorder=%s (species counts %s) written with POSCAR() and "
                                  "read with POSCAR_occ() into an empty supercell gives occ=%s chemorder=%s%s" %
                                  (cfg.label, cfg.Nsolute, wocc, wco, [len(l) for l in wco], rocc, rco,
                                   "" if codes[2:] == [0, 0, 0] else " (outcomes %s)" % [CODES[c_] for c_ in codes[2:]]),
                                  dict(cfg=cfg.spec(), ops=[list(o) for o in ops], written=dict(occ=wocc, chemorder=wco), read=dict(occ=rocc, chemorder=rco),
                                       poscar_text=dr.clip, evaluator="direct POSCAR -> POSCAR_occ round trip"))
        dfs(col, ci, cfg, impl, pre, dfull, full, [])
        if cfg.N <= 2 and (not ck.quick or ci in (0, 2, 3, 4)): dfs(col, ci, cfg, impl, pre, dred, red, [])
        ck.note("%s Nsolute=%d: alphabet %d/%d, %d operations executed, %d distinct transitions" %
                (cfg.label, cfg.Nsolute, len(full), len(red), col.nodes - n0, len(col.triples.get(ci, {}))))
    ck.extra["exhaustive"] = True
    ck.extra["exhaustive_bound"] = "all sequences of length <= %d (full alphabet) and <= %d (reduced alphabet) from the empty supercell" % (dfull, dred)
    try:
        st = run_triples(ck, col, cfgs)
        ck.extra.update(transitions=st["transitions"], transitions_differing_from_property_model=st["differ_declared"],
                        transitions_differing_from_source_model=st["differ_source"])
    except CoqFailure as e:
        ck.broken_proof = "correspondence Model/Supercell.step (transitions): %s" % e
        ck.note("CORRESPONDENCE FAILED: " + str(e)[:1500])
    defect_seen = "c28-setocc-guard" in col.found

    # 2. random long histories on supercells of the 3-D pool
    entries, wild_entries = [], []
    ntr, length = ck.n(10, 60), ck.n(40, 120)
    pool = list(gen.pool(rng, ntr, dims=(3,), random_frac=0.5, maxatoms=2))
    for k, (label, crys, chem) in enumerate(pool):
        for _try in range(20):
            sl = sclib.random_superlatt(rng, maxdet=ck.n(3, 4))
            if crys.N * abs(int(round(np.linalg.det(sl)))) <= ck.n(12, 24): break
        else:
            sl = np.eye(3, dtype=int)
        inter = tuple(c for c in range(crys.Nchem) if c == chem and crys.Nchem > 1 and rng.random() < 0.6)
        if not all(isinstance(nm, str) for nm in crys.chemistry):      # reported once above (c28-poscar-int-chemistry); rename to go on
            crys = crystal.Crystal(crys.lattice, crys.basis, chemistry=[str(x) for x in crys.chemistry])
        cfg = Cfg("%s-det%d" % (label, abs(int(round(np.linalg.det(sl))))), crys, sl, inter, rng.choice([0, 1, 1, 2]))
        tr = random_trace(col, 1000 + k, cfg, rng, length, avoid_guard=defect_seen)
        defect_seen = defect_seen or "c28-setocc-guard" in col.found
        if tr: entries.append((cfg, tr))
        if k % 2 == 0:
            trw = random_trace(col, 2000 + k, cfg, rng, length // 2, avoid_guard=False, wild=True)
            if trw: wild_entries.append((cfg, trw))
    guard_kind = {}
    for cfg, _ in wild_entries:
        t = probe_guard(cfg)
        if all(r == ("accepted" if cfg.declared(c) else "rejected") for c, r in t.items()): guard_kind[id(cfg)] = 0
        else: guard_kind[id(cfg)] = 1
    try:
        res = run_traces(ck, "hist", entries)
        for (cfg, tr), (dd, ds) in zip(entries, res):
            if dd:
                op = tr[dd - 1][0]
                ops = [list(o) for o, _, _ in tr[:dd]]
                explained = (ds == 0 or ds > dd)
                col.violation(vkey(cfg, op, "model-mismatch") if explained else "c28-model-mismatch",
                              "%s, Nsolute=%d: implementation and model (guard of the property) differ at step %d (%s) of a random history" %
                              (cfg.label, cfg.Nsolute, dd, tuple(op)),
                              dict(cfg=cfg.spec(), ops=ops, state_after=tr[dd - 1][1]._asdict(), outcome=CODES[tr[dd - 1][2]], evaluator="correspondence"))
        resw = run_traces(ck, "wild", wild_entries)
        for (cfg, tr), r in zip(wild_entries, resw):
            d = r[guard_kind[id(cfg)]]
            if d:
                col.violation("c28-model-mismatch", "%s: model does not reproduce the implementation at step %d (%s) of a history with "
                              "out-of-domain arguments" % (cfg.label, d, tuple(tr[d - 1][0])),
                              dict(cfg=cfg.spec(), ops=[list(o) for o, _, _ in tr[:d]], state_after=tr[d - 1][1]._asdict(),
                                   outcome=CODES[tr[d - 1][2]], evaluator="wild correspondence"))
        ck.extra["traces_validated_against_impl"] = len(entries) + len(wild_entries)
        ck.extra["random_history_steps"] = sum(len(t) for _, t in entries) + sum(len(t) for _, t in wild_entries)
    except CoqFailure as e:
        ck.broken_proof = "correspondence Model/Supercell.step (histories): %s" % e
        ck.note("CORRESPONDENCE FAILED: " + str(e)[:1500])
    ck.extra["operations_executed"] = col.nodes
    ck.extra["poscar_roundtrips_all_occupations"] = col.roundtrips
    col.flush()
    if hasattr(ck, "broken_proof") and ck.violations:
        # finish() reports a broken obligation only when nothing else was found; do not let a finding mask it
        ck.violation("proof obligation / correspondence no longer checks: " + ck.broken_proof.split("\n")[0],
                     {"obligation": ck.broken_proof}, key="c28-broken-obligation", no_input=True)


def replay(ck, path):
    """re-run a recorded history on the implementation and print what the evaluator says"""
    doc = json.load(open(path))
    r = doc["replay"]
    cfg = Cfg.from_spec(r["cfg"])
    col = Collector(ck)
    st0 = start_impl(col, cfg)
    if st0 is None:
        for k, f in col.found.items(): print("VIOLATION reproduced [%s]: %s" % (k, f["msg"]))
        return 1
    impl, pre = st0
    seq = []
    for op in r["ops"]:
        op = tuple(op)
        post, code, ok = do_step(col, 0, cfg, impl, pre, op, seq, record=False)
        print("%-40s -> %-12s occ=%s chemorder=%s" % (op, CODES[code], list(post.occ), [list(l) for l in post.co]))
        seq.append(op); pre = post
        if not ok: break
    for k, f in col.found.items():
        print("VIOLATION reproduced [%s]: %s" % (k, f["msg"]))
    return 1 if col.found else 0
