"""C25  Vector-star bases are orthonormal, equivariant and complete; expansions = projections.

Coq (Model/VecStars.v, Proofs/VecStars_proofs.v):
  * fixed-space certificates: verified checker `fix_okb` deciding, over Z in lattice coordinates, that the
    space of vectors fixed by a list of integer matrices has dimension exactly m (free basis + spanning),
    run on the stabiliser of every star representative -- the COUNT of vector stars is compared with
    the sum of these certified dimensions;
  * projection lemma over an arbitrary ordered ring: for an orthonormal family Phi whose span is
    invariant under A (A Phi = Phi At) and contains b, the reduced solve At y = beta gives the full
    solve A (Phi y) = b and the same bilinear b.x = beta.y, and At = Phi^T A Phi.
Tie / evaluation (every run, floats 1e-10): orthonormality, equivariance under every g in G,
count per star, and GFexpansion / rateexpansions / biasexpansions / bareexpansions / outer contracted
with random rates against Phi^T A Phi for A assembled by brute force from the states and jumps.
History tier: StarSet.generate(N') on the same object followed by VectorStarSet.generate on the same object
(N' growing and shrinking), and VacancyMediated.generate(2)/generate(1): the regenerated object must equal a
freshly constructed one (Nvstars, vecpos, vecvec 1e-12, outer) and pass orthonormality/equivariance/count."""
META = dict(
    level="proof",
    text=("Theorems: (1) soundness of the fixed-space dimension certificate checker over Z (all integer matrix lists, 3-D "
          "with 2-D embedded): accepted => the fixed vectors are exactly the rational span of m independent fixed vectors; "
          "(2) projection lemma over any ordered ring and any sizes: orthonormal family spanning an A-invariant space "
          "containing b => reduced solve reproduces the full solve and b^T A^-1 b, and the reduced matrix is Phi^T A Phi. "
          "Tie: COUNT of vector stars = sum of Coq-certified stabiliser fixed dimensions; orthonormality, equivariance and "
          "the four expansions (random rates) against brute-force Phi^T A Phi in floats (1e-10) on the crystal pool, N=1..3."),
    note=("_partial: orthonormality/equivariance/expansion identities are float evaluations on the implementation (no Coq model "
          "of the float construction of perpendicular vectors); the invariance hypothesis A Phi = Phi At of the projection "
          "lemma is evaluated numerically (1e-9), not proved from equivariance+completeness. Certificates (basis vectors, "
          "minors) are found in Python with Fractions and only CHECKED in Coq. Trusted: harness conversion of crys.G to "
          "integer data, brute-force assembly of A in numpy. Convention (not derivable from the property text): in the omega2 "
          "bare reference the origin-state diagonal entry is -sum_x dimFix(Stab x) rate(x) (what the code computes), not the bare "
          "escape -sum_x rate(x); the bare value would make 1+G0.delta_omega singular, see design_notes/C25.md O1. "
          "crystalStars.zeroclean is replaced in-process by an equivalent vectorised statement (bitwise re-checked on small cases)."),
    technique="Coq proof (certificate checker over Z; generic finite-sum algebra) + float evaluation against brute force",
)

import itertools
from fractions import Fraction
import numpy as np
from . import gen, starcase as sc
from . import c26
from .lib import CoqFailure

TOL = 1e-10


# ---- exact linear algebra for the certificates ------------------------------------------------------
MAX_EXPANSION_ENTRIES = 2.5e7    # (Nvstars, Nvstars, Nclasses) float arrays: 200 MB each

def nullspace_int(rows, d=3):
    """integer basis of {v : rows . v = 0} (Fractions, Gauss-Jordan), and the pivot rows/cols"""
    M = [[Fraction(x) for x in r] for r in rows]
    piv = []
    r = 0
    used_rows = []
    idx = list(range(len(M)))
    for c in range(d):
        p = next((k for k in range(r, len(M)) if M[k][c] != 0), None)
        if p is None: continue
        M[r], M[p] = M[p], M[r]; idx[r], idx[p] = idx[p], idx[r]
        f = M[r][c]
        M[r] = [x / f for x in M[r]]
        for k in range(len(M)):
            if k != r and M[k][c] != 0:
                g = M[k][c]
                M[k] = [a - g * b for a, b in zip(M[k], M[r])]
        piv.append(c); used_rows.append(idx[r]); r += 1
        if r == len(M): break
    free = [c for c in range(d) if c not in piv]
    basis = []
    for fcol in free:
        v = [Fraction(0)] * d
        v[fcol] = Fraction(1)
        for k, c in enumerate(piv):
            v[c] = -M[k][fcol]
        den = 1
        for x in v: den = den * x.denominator // np.gcd(den, x.denominator)
        basis.append(tuple(int(x * den) for x in v))
    return basis, used_rows


def fixed_certificate(mats):
    """mats: 3x3 integer matrices (tuples of rows).  Returns (m, basis vectors, witness rows) where the rows are
    d-m rows of the stacked (S - I) that are linearly independent"""
    rows = []
    for S in mats:
        for a in range(3):
            rows.append(tuple(S[a][b] - (1 if a == b else 0) for b in range(3)))
    rows = [r for r in rows if any(r)]
    if not rows: return 3, [(1, 0, 0), (0, 1, 0), (0, 0, 1)], []
    basis, used = nullspace_int(rows)
    return len(basis), basis, [rows[k] for k in used]


def c_cert(mats, m, basis, wit):
    return "fix_okb [%s] %d%%nat [%s] [%s]" % ("; ".join("(%s, %s, %s)" % tuple(sc.c_vec(r) for r in S) for S in mats), m,
                                                 "; ".join(sc.c_vec(v) for v in basis), "; ".join(sc.c_vec(v) for v in wit))


VEC_IMPORTS = """From Coq Require Import List ZArith.
From Onsager Require Import Model.Stars Model.VecStars.
Import ListNotations.
Local Open Scope Z_scope.
Definition b2n (b : bool) : nat := if b then 0%nat else 1%nat.
"""


# ---- float evaluation ---------------------------------------------------------------------------------
def phi_matrix(S, V, dim):
    n = S.Nstates
    Phi = np.zeros((n * dim, V.Nvstars))
    for v, (pos, vec) in enumerate(zip(V.vecpos, V.vecvec)):
        for x, w in zip(pos, vec):
            Phi[x * dim:(x + 1) * dim, v] += w
    return Phi


def blockI(n, dim, entries):
    """scalar (n x n) -> kron with identity"""
    return np.kron(entries, np.eye(dim))



# ---- history tier: a regenerated VectorStarSet must equal a freshly constructed one --------------------
def basic_props(crys, chem, S, V, ops):
    """orthonormality error, equivariance error, (Nvstars, exact invariant dimension) of one vector-star object"""
    dim = crys.dim
    sts = [sc.ps_of(s) for s in S.states]
    pos = {s: x for x, s in enumerate(sts)}
    n = len(sts)
    if any(len(p) != len(v) for p, v in zip(V.vecpos, V.vecvec)) or len(V.vecpos) != V.Nvstars \
            or any(x >= n for p in V.vecpos for x in p):
        return None
    Phi = phi_matrix(S, V, dim)
    orth = float(np.abs(Phi.T @ Phi - np.eye(V.Nvstars)).max()) if V.Nvstars else 0.
    eq = 0.
    for g, gi in zip(crys.G, ops):
        perm = [pos.get(sc.gact(gi, s)) for s in sts]
        if any(x is None for x in perm): return None
        P = np.zeros_like(Phi)
        R = np.asarray(g.cartrot)
        for x in range(n):
            P[perm[x] * dim:(perm[x] + 1) * dim, :] = R @ Phi[x * dim:(x + 1) * dim, :]
        eq = max(eq, float(np.abs(P - Phi).max()) if Phi.size else 0.)
    total = 0
    for st in S.stars:
        rep = sts[st[0]]
        mats = sorted(set(gi[0] for gi in ops if sc.gact(gi, rep) == rep))
        total += fixed_certificate(mats)[0] - (3 - dim)
    return orth, eq, (V.Nvstars, total)


def same_vset(Vr, Sr, Vf, Sf):
    """regenerated (Vr on Sr) against fresh (Vf on Sf): list of (key, message); None if the two star sets list their
    states in a different order (then only the property checks apply)"""
    if [sc.ps_of(s) for s in Sr.states] != [sc.ps_of(s) for s in Sf.states] or \
            [list(map(int, st)) for st in Sr.stars] != [list(map(int, st)) for st in Sf.stars]:
        return None
    bad = []
    if Vr.Nvstars != Vf.Nvstars or len(Vr.vecpos) != len(Vf.vecpos) or len(Vr.vecvec) != len(Vf.vecvec):
        bad.append(("nvstars", "regenerated object has %d vector stars (lists %d/%d), a fresh one %d" %
                    (Vr.Nvstars, len(Vr.vecpos), len(Vr.vecvec), Vf.Nvstars)))
        return bad
    if [list(map(int, p)) for p in Vr.vecpos] != [list(map(int, p)) for p in Vf.vecpos]:
        bad.append(("vecpos", "vecpos of the regenerated object differs from a fresh one")); return bad
    e = max([float(np.abs(np.asarray(a) - np.asarray(b)).max()) for va, vb in zip(Vr.vecvec, Vf.vecvec) for a, b in zip(va, vb)] + [0.])
    if e > 1e-12: bad.append(("vecvec", "vecvec of the regenerated object differs from a fresh one by %.3g" % e))
    if Vr.outer.shape != Vf.outer.shape or np.abs(Vr.outer - Vf.outer).max(initial=0.) > 1e-12:
        bad.append(("outer", "outer of the regenerated object differs from a fresh one"))
    return bad


def history_tier(ck, violation, label, crys, chem, sl, jn, cut, ops, max_states, vm_max_states, stats):
    """StarSet / VectorStarSet objects regenerated in place over a history of ranges, and the VacancyMediated
    generate(2)/generate(1) route; every regenerated object must equal a fresh one and satisfy the basic properties"""
    from onsager import crystalStars, OnsagerCalc
    rng = ck.rng
    info0 = {"crystal": repr(crys), "label": label, "chem": chem, "cutoff": cut, "tier": "history"}
    fresh = {}

    def fresh_for(N, o=True):
        if (N, o) not in fresh:
            Sf = crystalStars.StarSet(jn, crys, chem, N, originstates=o)
            fresh[(N, o)] = (Sf, crystalStars.VectorStarSet(Sf) if Sf.Nstates <= max_states else None)
        return fresh[(N, o)]

    def queries(S_, V_):
        """everything a calculator asks of a vector-star object: expansions for the object's own omega1/omega2 networks"""
        out = {}
        if V_.Nvstars ** 2 * max(S_.Nstates, 1) > 4 * MAX_EXPANSION_ENTRIES: return out
        gf, gfs = V_.GFexpansion()
        out["GFexpansion"] = gf; out["GFstates"] = np.array([sc.ps_of(x)[:2] + sc.ps_of(x)[2] for x in gfs.states])
        for nm, fn, om2 in (("om1", S_.jumpnetwork_omega1, False), ("om2", S_.jumpnetwork_omega2, True)):
            if V_.Nvstars ** 2 * max(len(fn()[0]), 1) > MAX_EXPANSION_ENTRIES: continue
            r = fn()
            if not r: continue
            jn_, jt_, sp_ = r
            for k, a in enumerate(V_.rateexpansions(jn_, jt_, omega2=om2)): out["%s-rate%d" % (nm, k)] = a
            for k, a in enumerate(V_.biasexpansions(jn_, jt_, omega2=om2)): out["%s-bias%d" % (nm, k)] = a
        for et in ("solute", "vacancy"):
            osi, fd, osvb = V_.originstateVectorBasisfolddown(et)
            out["folddown-%s-idx" % et] = np.array(osi); out["folddown-%s" % et] = fd; out["OS_VB-%s" % et] = osvb
        return out

    def judge(Vr, Sr, N, info, what, o=True):
        Sf, Vf = fresh_for(N, o)
        if Vf is None: return
        cmpres = same_vset(Vr, Sr, Vf, Sf)
        if cmpres == [] and Vr.Nvstars > 0 and Sr.Nstates <= ck.n(80, 150):
            # the regenerated pair must answer every query like a fresh pair (nothing memoised from the earlier range/flag)
            try:
                qr, qf = queries(Sr, Vr), queries(Sf, Vf)
                for k in qf:
                    a, b = np.asarray(qr.get(k)), np.asarray(qf[k])
                    if a.shape != b.shape or (a.size and np.abs(a.astype(float) - b.astype(float)).max() > 1e-12):
                        violation("history-query", "%s: %s of the regenerated objects differs from fresh objects (shapes %s / %s)"
                                  % (what, k, a.shape, b.shape), info); break
                stats["query-comparisons"] += 1
            except Exception as e:
                violation("history-exception", "%s: query raised %s: %s" % (what, type(e).__name__, e), info)
        if cmpres is None: stats["order-differs"] += 1
        for key, msg in (cmpres or []):
            violation("history-" + key, "%s: %s" % (what, msg), info)
        pr = basic_props(crys, chem, Sr, Vr, ops)
        fr = basic_props(crys, chem, Sf, Vf, ops)
        if pr is None:
            violation("history-structure", "%s: regenerated vector stars are not consistent with the star set" % what, info)
        elif fr is not None:
            # demand of the regenerated object exactly what the fresh one satisfies (a defect of fresh objects is reported
            # by the main tier under its own key)
            if pr[0] > TOL and fr[0] <= TOL:
                violation("history-orthonormal", "%s: regenerated vector stars not orthonormal (%.3g)" % (what, pr[0]), info)
            if pr[1] > TOL and fr[1] <= TOL:
                violation("history-equivariant", "%s: regenerated vector stars not equivariant (%.3g)" % (what, pr[1]), info)
            if pr[2][0] != pr[2][1] and fr[2][0] == fr[2][1]:
                violation("history-count", "%s: regenerated object has %d vector stars, invariant dimension %d" % (what, pr[2][0], pr[2][1]), info)
        stats["regenerations"] += 1

    # (a) same StarSet and VectorStarSet objects, ranges growing and shrinking
    seqs = [[1, 2, 1], [2, 3, 2, 1, 3]] if fresh_for(3)[1] is not None else [[1, 2, 1, 2]]
    seqs.append([rng.choice([1, 2, 3] if fresh_for(3)[1] is not None else [1, 2]) for _ in range(4)])
    seqs = [[(N, True) for N in q] for q in seqs]
    # the origin-state flag switched at unchanged and at changed range (origin states carry vector stars on polar sites)
    seqs += [[(2, False), (2, True), (1, False), (1, True)], [(1, True), (2, False), (2, True)]]
    for seq in seqs:
        info = dict(info0, route="StarSet.generate + VectorStarSet.generate", history=seq)
        try:
            S = crystalStars.StarSet(jn, crys, chem, seq[0][0], originstates=seq[0][1])
            V = crystalStars.VectorStarSet(S)
            if S.Nstates <= ck.n(80, 150) and V.Nvstars > 0: queries(S, V)            # first round of queries (may be memoised by the objects)
            for k, (N, o) in enumerate(seq[1:], 1):
                S.generate(N, originstates=o)
                V.generate(S)
                judge(V, S, N, dict(info, step=k, N=N, originstates=o), "vset.generate after S.generate(%d, originstates=%s)" % (N, o), o)
        except Exception as e:
            violation("history-exception", "regeneration raised %s: %s" % (type(e).__name__, e), info)
        ck.case(key=(label, repr(crys), round(cut, 5), "hist", str(seq)), nontrivial=len(set(seq)) > 1,
                kind="history:%dD-starset" % crys.dim,
                sample={"tier": "history", "crystal": label, "history": seq} if stats["regenerations"] < 8 else None)
    # (b) the calculator: VacancyMediated(..., 1) then generate(2) then generate(1)  (kinetic range = Nthermo + 1)
    S3_, V3_ = fresh_for(3)
    if S3_.Nstates <= vm_max_states and V3_ is not None and \
            V3_.Nvstars ** 2 * max(len(S3_.jumpnetwork_omega1()[0]), 1) <= MAX_EXPANSION_ENTRIES:
        info = dict(info0, route="VacancyMediated.generate", history=[1, 2, 1])
        try:
            d = OnsagerCalc.VacancyMediated(crys, chem, sl, jn, 1)
            for k, Nth in enumerate((2, 1), 1):
                d.generate(Nth)
                judge(d.vkinetic, d.kinetic, Nth + 1, dict(info, step=k, Nthermo=Nth), "VacancyMediated.generate(%d)" % Nth)
                Sf, Vf = fresh_for(Nth + 1)
                if Vf is not None and Vf.Nvstars ** 2 * Sf.Nstates <= 4 * MAX_EXPANSION_ENTRIES and same_vset(d.vkinetic, d.kinetic, Vf, Sf) == []:
                    gf = Vf.GFexpansion()[0]
                    if d.GFexpansion.shape != gf.shape or np.abs(d.GFexpansion - gf).max(initial=0.) > 1e-12:
                        violation("history-gfexpansion", "GFexpansion after VacancyMediated.generate(%d) differs from a fresh one" % Nth, info)
        except Exception as e:
            violation("history-exception", "VacancyMediated regeneration raised %s: %s" % (type(e).__name__, e), info)
        ck.case(key=(label, repr(crys), round(cut, 5), "hist-vm"), nontrivial=True, kind="history:%dD-vacancymediated" % crys.dim)
    else:
        stats["vacancymediated-too-large"] += 1


def run(ck):
    ck.rule = ("crystal pool (named + random crystal systems, 2-D/3-D, 1-3 atoms of the mobile species, polar and non-polar "
               "sites) x percolating cutoff x N in {1,2,3} with origin states x jump-network form (Cartesian; also lattice form when the "
               "cell has several sites on a non-cubic lattice) x random rates per class (uniform in [0.5,2]); "
               "distinct = distinct (crystal, cutoff, N); non-trivial = at least 3 vector stars; history tier: the same StarSet/"
               "VectorStarSet objects regenerated over growing and shrinking ranges (fixed and random sequences) and "
               "VacancyMediated(...,1).generate(2).generate(1), each regenerated object compared with a fresh one")
    ck.trusted += ["harness/starcase.py, c25.py: integer view of crys.G, certificate search (Fractions), numpy assembly of A"]
    ck.theorems()
    from onsager import crystalStars
    # crystalStars.zeroclean (python-level nditer loop that sets |x|<1e-8 to 0 in the returned arrays) takes ~95% of the
    # run time of the expansion methods.  It is replaced in this process by the vectorised statement with the same
    # meaning; on every small case the ORIGINAL is also run and the returned arrays must be bitwise identical.
    orig_zeroclean = crystalStars.zeroclean
    def _fastclean(x, threshold=1e-8):
        x[np.abs(x) < threshold] = 0
        return x
    crystalStars.zeroclean = _fastclean
    ck.note("crystalStars.zeroclean replaced by its vectorised equivalent; equivalence re-checked bitwise on the small cases")
    zc = {"orig": orig_zeroclean, "fast": _fastclean, "checked": 0}
    rng = ck.rng
    ncrys = ck.n(10, 130)
    max_states = ck.n(200, 520)
    certs, certmeta, certseen = [], [], set()
    skipped = {"nonpercolating": 0, "construct-failed": 0, "geometry": 0, "too-large": 0}
    maxerr = {}
    nhist = 0
    hstats = {"regenerations": 0, "order-differs": 0, "vacancymediated-too-large": 0, "query-comparisons": 0}

    def violation(key, msg, info, detail=None):
        d = dict(info); d.update(detail or {})
        ck.violation(msg, d, key="c25-" + key)

    def err(name, e):
        maxerr[name] = max(maxerr.get(name, 0.), float(e))
        return float(e)

    # fixed corpus first (polar sites, two-fold pair stabilisers, 2-D polar), then the random pool
    corpus = [(nm,) + gen.named(nm) for nm in ("polar", "hcp-oct-tet", "rect-polar2d", "honeycomb", "hcp")] + \
             [("chiral-" + nm,) + sc.chiral_crystal(nm)[:2] for nm in ("p4", "P4/m", "P-3")]   # rotation axis without mirrors
    # moving species not the first chemistry (flat atom index != index within its sublattice), origin states on
    corpus += [("TiOH-chem2",) + sc.tioh(), ("polar2w",) + gen.named("polar2w")]
    corpus = [c + (None,) for c in corpus]
    # noisy positions analysed with a loosened symmetry threshold: judged with the crystal's own tolerance
    for nm in (("hcp",) if ck.quick else ("hcp", "polar", "honeycomb")):
        r = sc.noisy_crystal(nm, rng)
        if r is not None: corpus.append((r[0], r[1], r[2], gen.shells(r[3], r[2])[0] + 1e-2))
    for label, crys, chem, fixedcut in itertools.chain(corpus, ((a, b, c, None) for a, b, c in gen.pool(rng, ncrys, random_frac=0.55))):
        try:
            if fixedcut is not None:
                net = (fixedcut, crys.sitelist(chem), crys.jumpnetwork(chem, fixedcut))
            else:
                net = gen.percolating_network(crys, chem, rng, maxjumps=ck.n(30, 60))
        except Exception:
            skipped["construct-failed"] += 1; continue
        if net is None:
            skipped["nonpercolating"] += 1; continue
        cut, sl, jn = net
        tolc = max(TOL, crys.threshold) if crys.threshold > 1e-7 else TOL     # the crystal's own tolerance for noisy positions
        try:
            jumps = sc.latt_jumps(crys, chem, jn)
            ops = sc.ops_of(crys, chem)
        except sc.GeometryError:
            skipped["geometry"] += 1; continue
        dim = crys.dim
        nsites = len(crys.basis[chem])
        G = list(crys.G)
        u = crys.basis[chem]
        info0 = {"crystal": repr(crys), "label": label, "chem": chem, "cutoff": cut}
        if nhist < ck.n(6, 24):
            nhist += 1
            history_tier(ck, violation, label, crys, chem, sl, jn, cut, ops, max_states, ck.n(160, 330), hstats)
        # lattice-form jump networks (crys.jumpnetwork2lattice) as well, where the two forms can differ at all:
        # several sites of the diffusing species per cell on a lattice that is not the unit cube
        forms = [False] + ([True] if nsites >= 2 and not np.allclose(crys.lattice, np.eye(dim)) else [])
        for N, latform in itertools.product((1, 2, 3), forms):
            info = dict(info0, N=N, lattice_form=latform)
            try:
                if latform:
                    S = crystalStars.StarSet(crys.jumpnetwork2lattice(chem, jn), crys, chem, N, originstates=True, lattice=True)
                else:
                    S = crystalStars.StarSet(jn, crys, chem, N, originstates=True)
                if S.Nstates > max_states:
                    skipped["too-large"] += 1; continue
                V = crystalStars.VectorStarSet(S)
            except Exception as e:
                violation("exception", "VectorStarSet raised %s: %s" % (type(e).__name__, e), info); continue
            sts = [sc.ps_of(s) for s in S.states]
            pos = {s: x for x, s in enumerate(sts)}
            n = len(sts)
            stars = [list(st) for st in S.stars]
            nr = ck.nprng(rng.randrange(1 << 30))
            # -- structure: every vector star sits on exactly one complete star
            starof = {}
            ok = True
            for v, p in enumerate(V.vecpos):
                k = int(S.index[p[0]])
                if sorted(p) != sorted(stars[k]) or len(V.vecvec[v]) != len(p):
                    violation("structure", "vector star %d is not supported on a complete star" % v, info); ok = False
                starof[v] = k
            if not ok or V.Nvstars != len(V.vecpos): continue
            Phi = phi_matrix(S, V, dim)
            # -- orthonormality
            e = err("orthonormal", np.abs(Phi.T @ Phi - np.eye(V.Nvstars)).max())
            if e > tolc:
                violation("orthonormal", "vector stars not orthonormal: max |Phi^T Phi - 1| = %.3g" % e, info)
            # -- equivariance under every g
            emax = 0.
            for g, gi in zip(G, ops):
                perm = np.array([pos[sc.gact(gi, s)] for s in sts])
                P = np.zeros_like(Phi)
                # (g.Phi)(g x) = cartrot Phi(x)
                R = np.asarray(g.cartrot)
                for x in range(n):
                    P[perm[x] * dim:(perm[x] + 1) * dim, :] = R @ Phi[x * dim:(x + 1) * dim, :]
                emax = max(emax, np.abs(P - Phi).max())
            equiv_err = emax
            # -- count = sum of fixed dimensions of the stabilisers (certified in Coq)
            total = 0
            perstar = []
            fixdim = {}
            twofold = set()
            for k, st in enumerate(stars):
                rep = sts[st[0]]
                stab = [gi for gi in ops if sc.gact(gi, rep) == rep]
                mats = sorted(set(gi[0] for gi in stab))
                m3, basis, wit = fixed_certificate(mats)
                m = m3 - (3 - dim)         # 2-D crystals are embedded with a trivially fixed third axis
                for x in st: fixdim[x] = m
                if dim == 3 and len(mats) == 2 and all(round(np.linalg.det(np.array(M_, dtype=float))) == 1 for M_ in mats):
                    twofold.add(k)          # stabiliser = {1, two-fold rotation about the pair axis}
                ckey = tuple(mats)
                if ckey not in certseen:      # identical stabilisers are certified once
                    certseen.add(ckey)
                    certs.append("b2n (%s)" % c_cert(mats, m3, basis, wit))
                    certmeta.append(dict(info, star=k, rep=rep, fixed_dim=m))
                have = sum(1 for v in starof if starof[v] == k)
                perstar.append((k, have, m))
                total += m
            wrong = [(k, h, m) for k, h, m in perstar if h != m]
            # stable class of failing input: every miscounted star has a pure two-fold stabiliser (finding F1 of design_notes/C25.md)
            sfx = "-twofold-stabiliser" if wrong and all(k in twofold for k, h, m in wrong) else ""
            if V.Nvstars != total or wrong:
                violation("count" + sfx, "number of vector stars %d differs from the total invariant dimension %d" % (V.Nvstars, total),
                          info, {"per_star(have,expected)": wrong[:6], "stars_with_twofold_stabiliser": sorted(twofold)[:10]})
            if equiv_err > tolc:
                violation("equivariant" + sfx, "vector stars not invariant under the space group: %.3g" % equiv_err, info)
            else:
                err("equivariant", equiv_err)
            # -- outer
            out = np.zeros((dim, dim, V.Nvstars, V.Nvstars))
            for i in range(V.Nvstars):
                for j in range(V.Nvstars):
                    if starof[i] == starof[j]:
                        out[:, :, i, j] = sum(np.outer(Phi[x * dim:(x + 1) * dim, i], Phi[x * dim:(x + 1) * dim, j]) for x in stars[starof[i]])
            if err("outer", np.abs(out - V.outer).max()) > max(1e-8, tolc):      # zeroclean removes entries below 1e-8
                violation("outer", "outer differs from the sum of outer products by %.3g" % maxerr["outer"], info)
            # -- expansions
            try:
                bad = expansions(ck, crys, chem, S, V, Phi, sts, pos, jumps, ops, nsites, N, nr, err, zc, fixdim, tolc)
            except Exception as e2:
                violation("exception", "expansion raised %s: %s" % (type(e2).__name__, e2), info); bad = []
            for key, msg in bad:
                violation(key + sfx, msg, info)
            ck.case(key=(label, repr(crys), round(cut, 5), N, latform), nontrivial=V.Nvstars >= 3,
                    kind="%dD-N%d-%s%s" % (dim, N, "polar" if any(sc.iszero(sts[p[0]]) for p in V.vecpos) else "nonpolar",
                                           "-latticeform" if latform else ""),
                    sample={"crystal": label, "cutoff": cut, "N": N, "Nstates": n, "Nstars": len(stars), "Nvstars": V.Nvstars,
                            "count_expected": total} if N == 2 and len(ck.samples) < 5 else None)
    # ---- Coq: certificates
    codes = []
    try:
        codes = sc.run_chunks(ck, "fix", "", certs, VEC_IMPORTS, chunk=150)
    except CoqFailure as e:
        ck.broken_proof = "correspondence Model/VecStars.fix_okb: %s" % e
    nbad = 0
    for info, c in zip(certmeta, codes):
        if c != 0:
            nbad += 1
            if nbad <= 3:
                raise RuntimeError("harness certificate rejected by the verified checker: %r" % (info,))
    ck.extra["fixed_dim_certificates_checked_in_coq"] = len(codes)
    ck.extra["max_float_residuals"] = {k: float("%.3g" % v) for k, v in maxerr.items()}
    ck.extra["skipped"] = skipped
    ck.extra["history_tier"] = hstats
    ck.extra["zeroclean_equivalence_checks"] = zc["checked"]
    ck.extra["traces_validated_against_impl"] = len(codes)
    crystalStars.zeroclean = orig_zeroclean


def expansions(ck, crys, chem, S, V, Phi, sts, pos, jumps, ops, nsites, N, nr, err, zc, fixdim, tolc):
    """GF / rate / bias / bare expansions contracted with random rates vs Phi^T A Phi, A assembled by brute force"""
    bad = []
    dim = crys.dim
    n = len(sts)
    u = crys.basis[chem]
    nv = V.Nvstars
    latt = crys.lattice

    def cart(a, b, R):
        return np.dot(latt, np.array(R[:dim]) + u[b] - u[a])

    # GFexpansion has shape (Nvstars, Nvstars, N_GFstars) with N_GFstars of the order of the number of states: bound the memory
    if nv * nv * max(S.Nstates, 1) > 4 * MAX_EXPANSION_ENTRIES: return bad

    # ---- Green function: G[x,y] = g(class of (vac x -> vac y)) when the solute site agrees
    from onsager import crystalStars
    GFexp, GFS = V.GFexpansion()
    small = GFexp.size <= 150000

    def same_with_original(fn, got):
        """re-run fn with the implementation's own zeroclean; results must be bitwise identical"""
        crystalStars.zeroclean = zc["orig"]
        try:
            ref = fn()
        finally:
            crystalStars.zeroclean = zc["fast"]
        for a, b in zip(ref, got):
            if isinstance(a, np.ndarray) and not np.array_equal(a, b):
                raise RuntimeError("vectorised zeroclean is not equivalent to crystalStars.zeroclean")
        zc["checked"] += 1
    if small: same_with_original(lambda: V.GFexpansion(), (GFexp, GFS))
    gsts = [sc.ps_of(s) for s in GFS.states]
    gpos = {s: x for x, s in enumerate(gsts)}
    # random value per orbit under G and negation (the Green function of a reversible walk is symmetric)
    val = {}
    for s in gsts:
        if s in val: continue
        r = float(nr.uniform(0.5, 2.0))
        orb = set([s]); fr = [s]
        while fr:
            x = fr.pop()
            for y in [sc.gact(g, x) for g in ops] + [(x[1], x[0], sc.vneg(x[2]))]:
                if y not in orb: orb.add(y); fr.append(y)
        for y in orb: val[y] = r
    gimpl = np.array([val[gsts[st[0]]] for st in GFS.stars])
    A = np.zeros((n, n))
    for x, sx in enumerate(sts):
        for y, sy in enumerate(sts):
            if sx[0] != sy[0]: continue
            ds = (sx[1], sy[1], sc.vsub(sy[2], sx[2]))
            if ds not in val:
                bad.append(("gf", "GF star set does not contain the endpoint difference %r" % (ds,))); return bad
            A[x, y] = val[ds]
    want = Phi.T @ blockI(n, dim, A) @ Phi
    e = err("gf", np.abs(np.dot(GFexp, gimpl) - want).max() / max(1., float(np.abs(want).max())))
    if e > tolc: bad.append(("gf", "GFexpansion . g differs from Phi^T G Phi by %.3g" % e))
    # invariance of the span (hypothesis of the projection lemma), evaluated
    AF = blockI(n, dim, A) @ Phi
    e = err("gf-invariance", np.abs(AF - Phi @ (Phi.T @ AF)).max())
    if e > max(1e-9, tolc): bad.append(("invariance", "span of the vector stars is not invariant under the assembled G: %.3g" % e))

    if N < 2: return bad        # omega networks need a kinetic shell beyond the first
    # ---- jump networks of the implementation as the given input; transitions enumerated by brute force
    j1, t1, sp1 = S.jumpnetwork_omega1()
    j2, t2, sp2 = S.jumpnetwork_omega2()
    # the library's expansion arrays have shape (Nvstars, Nvstars, Nclasses): bound the memory of a case (a (714, 714, 1482) case
    # needs 5.6 GiB per array and got a thorough run OOM-killed); larger cases keep the structural checks above only
    if V.Nvstars ** 2 * max(len(j1), len(j2), 1) > MAX_EXPANSION_ENTRIES: return bad
    v1, v2, missing = c26.brute(sts, jumps, None)
    ntypes = len(S.jumpnetwork_index)
    for (name, jn_, jt_, valid, om2) in (("om1", j1, t1, v1, False), ("om2", j2, t2, v2, True)):
        cls = {}
        for k, cl in enumerate(jn_):
            for (i, f), dx in cl: cls[(i, f)] = k
        if set(cls) != set(valid):
            bad.append(("network", "%s network is not the set of transitions of the definition (see C26)" % name)); continue
        K = len(jn_)
        w1, e1, b1 = nr.uniform(0.5, 2, K), nr.uniform(0.5, 2, K), nr.uniform(0.5, 2, K)
        w0, e0, b0 = nr.uniform(0.5, 2, ntypes), nr.uniform(0.5, 2, ntypes), nr.uniform(0.5, 2, ntypes)
        W1 = np.zeros((n, n)); E1 = np.zeros(n); W0 = np.zeros((n, n)); E0 = np.zeros(n); E0bare = np.zeros(n)
        B1 = np.zeros((n, dim)); B0 = np.zeros((n, dim))
        D1 = np.zeros((dim, dim)); D0 = np.zeros((dim, dim))
        for (x, y), (R, t) in valid.items():
            k = cls[(x, y)]
            if int(jt_[k]) != t:
                bad.append(("network", "%s jump type wrong (see C26)" % name)); break
            a = sts[x][1]; b = sts[y][1]
            dx = cart(a, b, R)         # the vacancy's displacement, from integers
            W1[x, y] += w1[k]; E1[x] -= e1[k]
            B1[x] += b1[k] * dx; B0[x] += b0[t] * dx
            D1 += 0.5 * w1[k] * np.outer(dx, dx); D0 += 0.5 * w0[t] * np.outer(dx, dx)
            E0[x] -= e0[t]
            if not om2:
                W0[x, y] += w0[t]
            else:
                # bare reference of an exchange: the vacancy lands on the solute's site = origin state of that site
                o = pos.get((sts[x][0], sts[x][0], sc.Z3))
                if o is not None:
                    W0[x, o] += w0[t]; W0[o, x] += w0[t]
                    # CONVENTION of the implementation (not derivable from the property text, see design_notes/C25.md O1):
                    # the origin state's entry is  - sum over exchange states x of dimFix(Stab x) * rate, where the bare
                    # escape would be  - sum of rates.  The bare value would make 1 + G0.delta_omega singular (the origin
                    # state is cut off completely); any other value is a regularisation that Lij does not depend on.
                    E0[o] -= e0[t] * fixdim[x]
                    E0bare[o] -= e0[t]
                    B1[o] += -b1[k] * dx; B0[o] += -b0[t] * dx
        r0, r0e, r1, r1e = V.rateexpansions(jn_, jt_, omega2=om2)
        bb0, bb1 = V.biasexpansions(jn_, jt_, omega2=om2)
        d0, d1 = V.bareexpansions(jn_, jt_)
        if small:
            same_with_original(lambda: V.rateexpansions(jn_, jt_, omega2=om2), (r0, r0e, r1, r1e))
            same_with_original(lambda: V.biasexpansions(jn_, jt_, omega2=om2), (bb0, bb1))
            same_with_original(lambda: V.bareexpansions(jn_, jt_), (d0, d1))
        chk = [
            ("rate1", np.dot(r1, w1), Phi.T @ blockI(n, dim, W1) @ Phi),
            ("rate0", np.dot(r0, w0), Phi.T @ blockI(n, dim, W0) @ Phi),
            ("rate1escape", np.diag(np.dot(r1e, e1)), Phi.T @ blockI(n, dim, np.diag(E1)) @ Phi),
            ("rate0escape", np.diag(np.dot(r0e, e0)), Phi.T @ blockI(n, dim, np.diag(E0)) @ Phi),
            ("bias1", np.dot(bb1, b1), Phi.T @ B1.reshape(-1)),
            ("bias0", np.dot(bb0, b0), Phi.T @ B0.reshape(-1)),
            ("bare1", np.dot(d1, w1), D1),
            ("bare0", np.dot(d0, w0), D0),
        ]
        osrows = np.array([sc.iszero(sts[p[0]]) for p in V.vecpos])
        for what, got, want in chk:
            # tolerance relative to the size of the assembled quantity (sums over thousands of transitions)
            diff = np.abs(got - want) / max(1., float(np.abs(want).max()))
            if om2 and what == "rate0escape" and osrows.any():
                # rows/columns of origin-state vector stars are judged separately (stable key for that class of input)
                mask = np.logical_or.outer(osrows, osrows)
                eo = err("om2-rate0escape-originstate", diff[mask].max())
                if eo > tolc:
                    bad.append(("om2-rate0escape-originstate", "omega2 rate0escape: entry of the origin states differs from the "
                                "projection of -sum dimFix(Stab x) rate(x) by %.3g" % eo))
                bare = Phi.T @ blockI(n, dim, np.diag(E0bare)) @ Phi
                gap = float((np.diag(bare)[osrows] - np.diag(got)[osrows]).min())
                ck.extra["origin_state_min_gap_to_bare_value"] = min(ck.extra.get("origin_state_min_gap_to_bare_value", 1e300), gap)
                ck.extra["origin_state_cases"] = ck.extra.get("origin_state_cases", 0) + 1
                if gap <= 1e-10: ck.extra["origin_state_cases_at_bare_value"] = ck.extra.get("origin_state_cases_at_bare_value", 0) + 1
                diff = diff[~mask]
                if diff.size == 0: continue
            e = err("%s-%s" % (name, what), diff.max())
            if e > tolc:
                bad.append(("%s-%s" % (name, what), "%s %s expansion contracted with random rates differs from the projection of the "
                            "directly assembled quantity by %.3g" % (name, what, e)))
    return bad
