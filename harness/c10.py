"""C10  The lattice Green function solves the diffusion equation.

Equation (conventions of GFCrystalcalc.__call__: symmetrised GF, i.e. scaled by sqrt(rho_i/rho_j); dx points from i to j):

    sum_{jumps (i -> b, delta)}  symmrate_ib * G(b, j, dx - delta)  -  escape_i * G(i, j, dx)  =  [i = j and dx = 0]

with symmrate_ib = sqrt(rho_i) lambda_ib / sqrt(rho_b), escape_i = sum_b lambda_ib (verified numerically first, see design_notes).

Tie: the implementation's values on a patch (endpoints: origin shell, neighbours, random cells up to a quarter of the
k-mesh period) are passed as exact rationals (doubles are dyadic) to the Coq evaluator Model/GFeq.count_bad over Z, which
computes every residual exactly (C10_residual_sound) and counts those exceeding the tolerance; swap symmetry, space-group
images and lambda*G_lambda = G are compared inside Coq as well (count_far).  numpy evaluates the same and, in 3-D, the
far-field continuum pole  -sqrt(rho_i rho_j) V / (4 pi sqrt(det D) sqrt(x.D^-1.x))  with the exact D of C02.

Tolerances (the property holds only to Brillouin-zone integration accuracy): PER CASE the quadrature accuracy is MEASURED
as conv = max |G_Nmax - G_(Nmax+2)| * max escape rate over the patch (refining the k-mesh of the same calculator); the
residual tolerance is max(1e-6, RES_FACTOR * conv).  RES_FACTOR and the far-field constant K_CAP are calibrated on the
unchanged tree (`python -m harness.c10 calibrate`): see CALIBRATION below; nothing is a guessed tight constant."""
META = dict(
    level="proof",
    text=("Theorems: the exact residual evaluator computes the lattice-operator residual of any function extending the evaluated "
          "patch (so a zero count is the diffusion equation on the patch within tolerance); solutions scale inversely with a uniform "
          "rate factor; harmonic functions on a connected network are constant, hence the Green function of every finite (torus) "
          "network is unique up to the null vector (ordered rings with antisymmetry and no zero divisors). Tie: the implementation's "
          "G values on generated patches are evaluated exactly inside Coq (equation, swap symmetry, space-group images, 1/lambda "
          "scaling) and in numpy (same + 3-D far-field pole with the exact diffusivity)."),
    note=("PARTIAL: Brillouin-zone quadrature, pole subtraction, the special functions Fnl_u, the infinite-lattice limit and the 3-D "
          "continuum pole are analysis outside the model; the equation is established on the evaluated patch only, to the quadrature "
          "accuracy MEASURED per case by refining the k-mesh (tolerance max(1e-6, RES_FACTOR*conv); RES_FACTOR, K_CAP calibrated on the "
          "unchanged tree, values and date in the evidence). Far field: discrete-lattice corrections are O((l/|x|)^2) at the "
          "separations a k-mesh resolves (3-4 cells), so only |G/G_cont - 1| <= K_CAP (l/|x|)^2 can be demanded. Trusted: Coq "
          "kernel/vm_compute; harness construction of jumps/cells from the implementation's jumpnetwork; exact D from the C02 formula."),
    technique="Coq proof (residual evaluator soundness, harmonic functions, uniqueness) + exact residual evaluation in Coq of the implementation's values",
)

import itertools, math, re, sys, time
import numpy as np
from fractions import Fraction
from . import gen
from .lib import CoqFailure, coq_Z, coq_list, coq_nat

# CALIBRATION (unchanged tree f15b9ec + fix commits, 2026-09-22, `python -m harness.c10 calibrate`, 4 seeds, 122 cases):
#   residual/conv over 2-D (Nmax 4) and 3-D (Nmax 2, 3) cases: median 0.054, 90% 0.51, max 1.23.
#   20 x median = 1.1 would still alarm on ~3% of correct cases (heavy tail), so the factor is 5 x the largest ratio seen:
RES_FACTOR = 6.0
#   3-D far field K = |G/G_cont - 1| (|x|/l)^2, l = V^(1/3), at a quarter of the k-mesh period along one axis and along a
#   cell diagonal (4 samples, ~900 points): median 0.08-0.32, 90% 0.6-1.3, max 3.8 -- a heavy tail (max/median 20-40) for every
#   length normalisation tried (V^(1/3), cells, D-metric): these are genuine O((l/|x|)^2) lattice corrections, not quadrature
#   error.  20 x median (3-6) would alarm on correct code, so  K_CAP = 2 x the largest value seen:
K_CAP = 8.0
#   swap / space-group / scaling pairs (2928 pairs): enforced by construction in __call__ (explicit group average, maxrate
#   normalisation), independent of the quadrature: median 0, max 8.6e-15 relative to max|G|  ->  100 x max
PAIR_RTOL = 1e-12
ABS_FLOOR = 1e-6
#   a reused calculator (SetRates called before with other rates) vs a fresh one: same arithmetic on the same inputs; measured
#   differences 0 (bit-identical) on the unchanged tree  ->  1e-10 relative to max|G|
HIST_RTOL = 1e-10
ANISO_CAP = 2e-2
#   convergence under mesh refinement: worst residual on the (Nmax+2)-mesh / worst residual on the Nmax-mesh, over the cases where the
#   latter exceeds 1e-6 (unchanged tree 1525122, 2026-09-23, 190 cases 2-D 4->6, 3-D 2->4, 3->5): median 0.10-0.15, 90% 0.45, max 0.545
#   (slowest cases converge algebraically, (Nmax/(Nmax+2))^2 = 0.44); a residual that stagnates does not come from the quadrature.
#   RHO = 1.4 x the largest ratio seen
RHO = 0.75
#   pole-cutoff response: pmaxerror 1e-8 -> 1e-12 lowers a cutoff-limited residual by 7 .. 13 (measured 2.78e-5 -> 2.09e-6); require at least 2
CUTOFF_RHO = 0.5
#   sheared (non-reduced, noreduce=True) description vs the reduced description of the same crystal and rates, both on the refined
#   mesh Nmax+2 = 6: worst-residual ratio measured 0.5 .. 6.6 (fcc, bcc x demo shears, 9 data sets; absolute values 1e-10 .. 5e-9, far
#   below the 1e-6 floor, which is what decides) -> 4 x the largest ratio seen
SHEAR_FACTOR = 25.0


def pyrope():
    from onsager import crystal
    a0 = 1.
    alatt = a0 * np.array([[-0.5, 0.5, 0.5], [0.5, -0.5, 0.5], [0.5, 0.5, -0.5]])
    invl = np.array([[0, 1, 1], [1, 0, 1], [1, 1, 0]])
    uMg = ((1 / 8, 0, 1 / 4), (3 / 8, 0, 3 / 4), (1 / 4, 1 / 8, 0), (3 / 4, 3 / 8, 0), (0, 1 / 4, 1 / 8), (0, 3 / 4, 3 / 8),
           (7 / 8, 0, 3 / 4), (5 / 8, 0, 1 / 4), (3 / 4, 7 / 8, 0), (1 / 4, 5 / 8, 0), (0, 3 / 4, 7 / 8), (0, 1 / 4, 5 / 8))
    crys = crystal.Crystal(alatt, [[np.dot(invl, w) for w in uMg]], ['Mg'])
    return crys, 0, 0.31 * a0


# ------------------------------------------------------------------------------------------
class Case:
    """one crystal + network + thermodynamic data; lazily built calculators"""
    def __init__(self, label, crys, chem, cut, sl, jn, data, Nmax):
        self.label, self.crys, self.chem, self.cut, self.sl, self.jn, self.data, self.Nmax = label, crys, chem, cut, sl, jn, data, Nmax
        pre, bE, preT, bET = data
        self.N = len(crys.basis[chem])
        inv = [None] * self.N
        for w, sites in enumerate(sl):
            for i in sites: inv[i] = w
        self.w = np.array([pre[inv[a]] * math.exp(-bE[inv[a]]) for a in range(self.N)])
        self.rho = self.w / self.w.sum()
        basis = crys.basis[chem]
        self.jumps = [[] for _ in range(self.N)]   # per source site: (b, S (int cell), delta, symmrate)
        self.esc = np.zeros(self.N)
        self.rates = []
        for c, jl in enumerate(jn):
            cw = preT[c] * math.exp(-bET[c]); rl = []
            for (a, b), dx in jl:
                S = crys.invlatt @ dx - basis[b] + basis[a]
                Si = np.rint(S).astype(int)
                if np.abs(S - Si).max() > 1e-7: raise RuntimeError("jump does not connect lattice sites")
                self.jumps[a].append((b, tuple(int(x) for x in Si), np.asarray(dx), cw / math.sqrt(self.w[a] * self.w[b])))
                self.esc[a] += cw / self.w[a]; rl.append(cw / self.w[a])
            self.rates.append(rl)

    def calc(self, Nmax, scale=1.0):
        from onsager import GFcalc
        g = GFcalc.GFCrystalcalc(self.crys, self.chem, self.sl, self.jn, Nmax=Nmax)
        pre, bE, preT, bET = self.data
        g.SetRates(pre, bE, [scale * x for x in preT], bET)
        return g

    def dx(self, i, j, R):
        b = self.crys.basis[self.chem]
        return self.crys.lattice @ (np.asarray(R, dtype=float) + b[j] - b[i])

    def exactD(self):
        return gen.exact_unitcell_D(self.N, self.jn, self.rho, self.rates, self.crys.dim)


def network_components(case):
    comp = list(range(case.N))
    def find(a):
        while comp[a] != a: a = comp[a]
        return a
    for a in range(case.N):
        for (b, S, delta, sr) in case.jumps[a]: comp[find(a)] = find(b)
    return [find(a) for a in range(case.N)]


def patch(case, g, rng, nrand):
    """endpoint list (i, j, R): all site pairs at the origin cell, unit cells, the diagonal, plus random cells up to a
    quarter of the k-mesh period"""
    dim, N = case.crys.dim, case.N
    Rs = [(0,) * dim] + [tuple(int(k == a) for k in range(dim)) for a in range(dim)] + [(1,) * dim]
    pts = [(i, j, R) for i in range(N) for j in range(N) for R in Rs]
    if len(pts) > 60: pts = rng.sample(pts, 60)
    q = [max(1, int(p) // 4) for p in g.kptgrid]
    for _ in range(nrand):
        R = tuple(rng.randint(-q[k], q[k]) for k in range(dim))
        pts.append((rng.randrange(N), rng.randrange(N), R))
    return pts


def table_for(case, g, pts):
    """values needed by the equations at pts: {(i, j, R): G}; evaluated the way a user would (Cartesian dx - delta)"""
    tab = {}
    for (i, j, R) in pts:
        x = case.dx(i, j, R)
        if (i, j, R) not in tab: tab[(i, j, R)] = float(g(i, j, x))
        for (b, S, delta, sr) in case.jumps[i]:
            key = (b, j, tuple(r - s for r, s in zip(R, S)))
            if key not in tab: tab[key] = float(g(b, j, x - delta))
    return tab


def residuals(case, tab, pts):
    out = []
    for (i, j, R) in pts:
        s = sum(sr * tab[(b, j, tuple(r - s_ for r, s_ in zip(R, S)))] for (b, S, delta, sr) in case.jumps[i])
        out.append(s - case.esc[i] * tab[(i, j, R)] - (1.0 if (i == j and not any(R)) else 0.0))
    return np.array(out)


def conv_estimate(case, tab, g2):
    """quadrature accuracy of the calculator measured by refining its own k-mesh; also returns the refined values"""
    worst = 0.0; tab2 = {}
    for (i, j, R), v in tab.items():
        tab2[(i, j, R)] = float(g2(i, j, case.dx(i, j, R)))
        worst = max(worst, abs(v - tab2[(i, j, R)]))
    return worst * case.esc.max(), tab2


def pair_checks(case, g, gscaled, lam, pts, rng, npairs):
    """(kind, a, b) triples that must agree: swap, space-group image, inverse scaling"""
    out = []
    G = case.crys.G if isinstance(case.crys.G, (list, tuple)) else list(case.crys.G)
    for (i, j, R) in rng.sample(pts, min(npairs, len(pts))):
        x = case.dx(i, j, R)
        v = float(g(i, j, x))
        out.append(("swap", v, float(g(j, i, -x))))
        op = rng.choice(G)
        out.append(("group", v, float(g(op.indexmap[case.chem][i], op.indexmap[case.chem][j], op.cartrot @ x))))
        out.append(("scale", v, lam * float(gscaled(i, j, x))))
    return out


def far_field(case, g2, rng, D):
    """3-D: (i, j, R, value, continuum, (|x|/l)^2) at the largest separations the finer mesh resolves"""
    dim = case.crys.dim
    Dinv = np.linalg.inv(D); detD = np.linalg.det(D)
    ell = case.crys.volume ** (1.0 / dim)
    out = []
    q = [max(2, int(g2.kptgrid[k]) // 4) for k in range(dim)]
    Rs = [tuple(q[k] if a == k else 0 for a in range(dim)) for k in range(dim)]
    Rs += [tuple(rng.choice([-1, 1]) * q[a] for a in range(dim)) for _ in range(2)]
    for R in Rs:
        i, j = rng.randrange(case.N), rng.randrange(case.N)
        x = case.dx(i, j, R)
        cont = -math.sqrt(case.rho[i] * case.rho[j]) * case.crys.volume / (4 * math.pi * math.sqrt(detD) * math.sqrt(x @ Dinv @ x))
        out.append((i, j, R, float(g2(i, j, x)), cont, float(x @ x) / ell ** 2))
    return out


# ------------------------------------------------------------------------------------------ Coq side
def pow2(xs):
    m = 0
    for x in xs: m = max(m, Fraction(float(x)).denominator.bit_length() - 1)
    return m


def coq_term(case, tab, pts, tol, pairs, tolpair):
    kr = pow2([sr for a in range(case.N) for (_, _, _, sr) in case.jumps[a]] + list(case.esc))
    kg = pow2(list(tab.values()) + [v for _, a, b in pairs for v in (a, b)])
    sr_, sg_ = 1 << kr, 1 << kg
    def cell(R): return coq_list([coq_Z(r) for r in R])
    tb = coq_list(["mkG (K:=Zring) %s %s %s %s" % (coq_nat(i), coq_nat(j), cell(R), coq_Z(Fraction(v) * sg_)) for (i, j, R), v in tab.items()])
    jl = [coq_list(["mkJ (K:=Zring) %s %s %s" % (coq_nat(b), cell(S), coq_Z(Fraction(float(s)) * sr_)) for (b, S, _, s) in case.jumps[a]]) for a in range(case.N)]
    defs = coq_list(jl)
    eqs = coq_list(["(%s, %s, %s)" % (coq_nat(i), coq_nat(j), cell(R)) for (i, j, R) in pts])
    esc = coq_list([coq_Z(Fraction(float(e)) * sr_) for e in case.esc])
    one = sr_ * sg_
    prs = coq_list(["(%s, %s)" % (coq_Z(Fraction(a) * sg_), coq_Z(Fraction(b) * sg_)) for _, a, b in pairs])
    return "(%s, %s, %s, %s, (%s, %s), (%s, %s))" % (tb, defs, esc, eqs, coq_Z(one), coq_Z(int(Fraction(tol) * one)), prs, coq_Z(int(Fraction(tolpair) * sg_)))


IMPORTS = """From Coq Require Import List ZArith.
From Onsager Require Import Base.OrdRing Base.Instances Model.Net Model.GFeq.
Import ListNotations.
Local Open Scope Z_scope.
Definition run (c : list (gval Zring) * list (list (jmp Zring)) * list Z * list (nat * nat * list Z) * (Z * Z) * (list (Z * Z) * Z)) : nat * nat :=
  let '(tab, jumps, esc, pts, (one, tol), (pairs, tolp)) := c in
  (count_bad (K:=Zring) tab one tol (map (fun p => let '(i, j, R) := p in mkEqn (K:=Zring) i j R (nth i jumps []) (nth i esc 0)) pts),
   count_far (K:=Zring) tolp pairs).
"""


def run_cases(ck, name, terms, chunk=6):
    res = []
    for a in range(0, len(terms), chunk):
        body = "Eval vm_compute in (map run %s)." % coq_list(terms[a:a + chunk])
        out = ck.coq_cases("%s_%d" % (name, a), body, IMPORTS)
        txt = out[out.index("="):] if "=" in out else ""
        txt = txt[:txt.rindex(":")] if ":" in txt else txt
        got = [int(x) for x in re.findall(r"\d+", txt.replace("%nat", ""))]
        if len(got) != 2 * len(terms[a:a + chunk]):
            raise CoqFailure("could not parse model output: " + out[:300])
        res += [(got[2 * k], got[2 * k + 1]) for k in range(len(terms[a:a + chunk]))]
    return res


# ------------------------------------------------------------------------------------------
def lattice_index(case):
    """index in Z^d of the lattice generated by the closed walks of the jump network (1 = the network joins every cell to
    every other; > 1 = the infinite network falls apart into interpenetrating copies although the unit-cell graph is connected)."""
    N, dim = case.N, case.crys.dim
    off = {0: np.zeros(dim, dtype=int)}; todo = [0]
    while todo:
        a = todo.pop()
        for (b, S, _, _) in case.jumps[a]:
            if b not in off: off[b] = off[a] + np.array(S); todo.append(b)
    if len(off) < N: return None          # unit-cell graph itself disconnected (handled by the calculator: Ndiff > 1)
    cyc = {tuple(int(v) for v in (off[a] + np.array(S) - off[b])) for a in range(N) for (b, S, _, _) in case.jumps[a]}
    cyc = [c for c in cyc if any(c)]
    g = 0
    for rows in itertools.combinations(cyc, dim):
        g = math.gcd(g, int(round(abs(np.linalg.det(np.array(rows, dtype=float))))))
        if g == 1: break
    return g


def shear_crystal(crys, U):
    """the same crystal described with the primitive basis lattice.U (U unimodular), noreduce=True; atom order is kept"""
    from onsager import crystal
    Ui = np.rint(np.linalg.inv(U)).astype(int)
    basis = [[crystal.incell(Ui @ u) for u in atoms] for atoms in crys.basis]
    return crystal.Crystal(crys.lattice @ U, basis, chemistry=crys.chemistry, noreduce=True)


def random_shear(rng, dim):
    U = np.eye(dim, dtype=int)
    for _ in range(rng.choice([1, 1, 2])):
        a, b = rng.sample(range(dim), 2)
        E = np.eye(dim, dtype=int); E[a, b] = rng.choice([-1, 1, 1, 2] if dim == 2 else [-1, 1])
        U = U @ E
    return U


def group_is_subgroup(cs, crys):
    """Crystal(..., noreduce=True) on a skewed cell searches rotations with lattice entries in {-1,0,1} only (known finding
    c18-noreduce-skewed): the operations found may not form a group.  Accept the sheared description only when its rotations
    are closed under multiplication and all belong to the reduced description's point group."""
    rs = [np.round(g.cartrot, 6) for g in cs.G]
    def has(M, L): return any(np.allclose(M, X, atol=1e-5) for X in L)
    full = [np.round(g.cartrot, 6) for g in crys.G]
    return all(has(a, full) for a in rs) and all(has(a @ b, rs) for a in rs for b in rs)


SHEAR2 = ["square", "rect", "tria", "honeycomb", "sq2w"]
SHEAR3 = ["fcc", "bcc", "sc", "tet", "ortho", "diamond", "b2", "fcc", "bcc"]


FIXED_SHEARS = [("fcc", [[1, 1, 0], [0, 1, 0], [0, 0, 1]]), ("bcc", [[1, 0, 0], [0, 1, 0], [-1, 0, 1]]), ("fcc", [[1, 1, 1], [0, 1, 1], [0, 0, 1]])]


def gen_sheared_pair(rng, nprng, dim, Nmax, fixed=None):
    """(reduced case, sheared case, U) with identical physics, or a string naming why not"""
    if fixed is not None:
        nm, U = fixed[0], np.array(fixed[1])
    else:
        nm = rng.choice(SHEAR2 if dim == 2 else SHEAR3)
        U = random_shear(rng, dim)
    crys, chem = gen.named(nm)
    try:
        cs = shear_crystal(crys, U)
    except Exception:
        return "shear-construct-failed"
    if len(cs.basis[chem]) != len(crys.basis[chem]) or not group_is_subgroup(cs, crys):
        return "sheared-group-not-closed(c18-noreduce-skewed)"
    sh = gen.shells(crys, chem)
    cut = sh[rng.choice([0, 1, 1])] + 1e-4
    sl = crys.sitelist(chem); jn = crys.jumpnetwork(chem, cut)
    N = len(crys.basis[chem])
    rho = np.ones(N) / N
    Dt = gen.exact_unitcell_D(N, jn, rho, [[1.0] * len(t) for t in jn], dim)
    if np.linalg.eigvalsh(0.5 * (Dt + Dt.T)).min() < 1e-6: return "nonpercolating"
    bE = nprng.uniform(0, 2, len(sl))
    data = (nprng.uniform(.5, 2, len(sl)).tolist(), bE.tolist(), nprng.uniform(.5, 2, len(jn)).tolist(), (bE.max() + nprng.uniform(.2, 2, len(jn))).tolist())
    # the same physics in the sheared description: data follow the site / the jump (fewer operations found -> finer classes)
    inv = {i: w for w, sites in enumerate(sl) for i in sites}
    sl2 = cs.sitelist(chem); jn2 = cs.jumpnetwork(chem, cut)
    if sum(len(t) for t in jn2) != sum(len(t) for t in jn): return "sheared-jumpnetwork-differs"
    pre2 = [data[0][inv[w[0]]] for w in sl2]; bE2 = [data[1][inv[w[0]]] for w in sl2]
    preT2, bET2 = [], []
    for t in jn2:
        (i, j), dx = t[0]
        hit = [c for c, jl in enumerate(jn) for (ik, jk), dxk in jl if ik == i and jk == j and np.allclose(dxk, dx, atol=1e-7)]
        if len(hit) != 1: return "sheared-jumpnetwork-differs"
        preT2.append(data[2][hit[0]]); bET2.append(data[3][hit[0]])
    a = Case(nm, crys, chem, cut, sl, jn, data, Nmax)
    b = Case(nm + "~sheared", cs, chem, cut, sl2, jn2, (pre2, bE2, preT2, bET2), Nmax)
    if lattice_index(a) not in (None, 1): return "sublattice-network"
    return a, b, U


def gen_manyjumps(rng, nprng, dim, Nmax, nmin=12):
    """a low-symmetry Bravais (one-site) crystal with a cutoff admitting at least nmin jump types (more than ten, so that the
    numbered HDF5 sub-groups of a saved calculator do not sort alphabetically in numerical order), unequal rates"""
    from onsager import crystal
    if dim == 3:
        latt = np.array([[1., 0, 0], [rng.choice([.2, .15]), rng.choice([1.1, 1.15]), 0], [rng.choice([.3, .25]), .15, rng.choice([1.3, 1.25])]]).T
    else:
        latt = np.array([[1., 0], [rng.choice([.2, .3, .35]), rng.choice([1.1, 1.2, 1.3])]]).T
    crys = crystal.Crystal(latt, [[np.zeros(dim)]])
    sh = gen.shells(crys, 0, nmax=4)
    sl = crys.sitelist(0)
    for k in range(len(sh)):
        jn = crys.jumpnetwork(0, sh[k] + 1e-4)
        if len(jn) >= nmin: break
    else:
        return None
    cut = sh[k] + 1e-4
    data = ([1.0], [0.0], nprng.uniform(.3, 3, len(jn)).tolist(), nprng.uniform(.2, 2.5, len(jn)).tolist())
    return Case("tri%dD-J%d" % (dim, len(jn)), crys, 0, cut, sl, jn, data, Nmax)


def gen_aniso(rng, nprng, Nmax):
    """layered structures: tetragonal / orthorhombic / hexagonal cell with a long axis c (c/a 1.5 .. 3) and slow jumps along it, so
    that the diffusivity is strongly anisotropic (ratio of principal values 30 .. 1e4) with the slow axis along the SHORTEST
    reciprocal direction"""
    from onsager import crystal
    c = rng.choice([1.6, 1.9, 2.3, 2.7])
    kind = rng.choice(["tet", "ortho", "hex", "bct"])
    if kind == "tet": crys = crystal.Crystal(np.diag([1., 1., c]), [[np.zeros(3)]])
    elif kind == "ortho": crys = crystal.Crystal(np.diag([1., 1.12, c]), [[np.zeros(3)]])
    elif kind == "hex": crys = crystal.Crystal(np.array([[.5, -math.sqrt(3) / 2, 0], [.5, math.sqrt(3) / 2, 0], [0, 0, c]]).T, [[np.zeros(3)]])
    else: crys = crystal.Crystal(np.diag([1., 1., c]), [[np.zeros(3), np.array([.5, .5, .5])]])
    chem = 0
    sl = crys.sitelist(chem)
    sh = gen.shells(crys, chem, nmax=3)
    # smallest cutoff whose network has a jump with a component along the long axis and percolates
    jn = None
    for k in range(len(sh)):
        cut = sh[k] + 1e-4
        jn = crys.jumpnetwork(chem, cut)
        if any(abs(dx[2]) > 1e-6 for jl in jn for (_, dx) in jl): break
    if jn is None or sum(len(t) for t in jn) > 80: return None
    aniso = 10.0 ** nprng.uniform(1.5, 4.0)
    pre = [1.0] * len(sl); bE = [0.0] * len(sl)
    preT = nprng.uniform(.7, 1.5, len(jn)).tolist()
    bET = []
    for jl in jn:
        dz = max(abs(dx[2]) for (_, dx) in jl); dr = max(np.linalg.norm(dx[:2]) for (_, dx) in jl)
        # rate x dz^2 of the slow class = in-plane rate x a^2 / aniso
        bET.append(0.5 + (math.log(aniso * dz * dz) if dz > 1e-6 else 0.0) + nprng.uniform(0, .3))
    case = Case("%s-c%.1f-aniso" % (kind, c), crys, chem, cut, sl, jn, (pre, bE, preT, bET), Nmax)
    if lattice_index(case) not in (None, 1): return None
    D = case.exactD(); ev = np.linalg.eigvalsh(D)
    case.aniso = float(ev.max() / ev.min())
    return case


def reloaded(g, crys):
    """the calculator written to an (in-memory) HDF5 file and read back"""
    import h5py, os
    from onsager import GFcalc
    f = h5py.File("c10_reload_%d.h5" % os.getpid(), "w", driver="core", backing_store=False)
    try:
        g.addhdf5(f.create_group("GF"))
        return GFcalc.GFCrystalcalc.loadhdf5(crys, f["GF"])
    finally:
        f.close()


HIST2 = ["square", "rect", "tria", "honeycomb", "sq2w"]
HIST3 = ["sc", "fcc", "bcc", "tet", "ortho", "hcp", "diamond", "b2"]


def gen_case(rng, nprng, dim, Nmax, label=None):
    if label == "pyrope":
        crys, chem, cut = pyrope()
        sl = crys.sitelist(chem); jn = crys.jumpnetwork(chem, cut)
    elif label == "history":
        # a named lattice with at least two jump types (cutoff beyond the second shell)
        nm = rng.choice(HIST2 if dim == 2 else HIST3)
        crys, chem = gen.named(nm)
        if crys.N > 1 and rng.random() < 0.5: crys = gen.shuffled(crys, rng)
        sh = gen.shells(crys, chem)
        sl = crys.sitelist(chem); jn = None
        for k in (1, 2, 3):
            cut = sh[k] + 1e-4
            jn = crys.jumpnetwork(chem, cut)
            if len(jn) >= 2: break
        label = nm + "~hist"
    else:
        for _ in range(50):
            lab, crys, chem = next(gen.pool(rng, 1, dims=(dim,), random_frac=0.55, maxatoms=3))
            net = gen.percolating_network(crys, chem, rng, maxjumps=40)
            if net is not None: break
        else:
            return None
        label = lab; cut, sl, jn = net
    bE = nprng.uniform(0, 2, len(sl))
    data = (nprng.uniform(.5, 2, len(sl)).tolist(), bE.tolist(), nprng.uniform(.5, 2, len(jn)).tolist(), (bE.max() + nprng.uniform(.2, 2, len(jn))).tolist())
    case = Case(label, crys, chem, cut, sl, jn, data, Nmax)
    if lattice_index(case) not in (None, 1):
        return "sublattice"
    return case


def other_rates(case, rng, nprng):
    """a different rate set for the same network: NOT a uniform rescaling of case.data (every transition class gets its own
    random factor and barrier shift, site energies change as well)"""
    pre, bE, preT, bET = case.data
    bE2 = [x + nprng.uniform(-0.7, 0.7) for x in bE]
    return ([x * nprng.uniform(0.5, 2) for x in pre], bE2, [x * nprng.uniform(0.3, 3) for x in preT],
            [max(bE2) + nprng.uniform(0.2, 2.5) for _ in bET])


def evaluate(case, rng, nrand=6, npairs=8, history=0, nprng=None, reload=False):
    """everything measured on one case.  history = k > 0: the calculator under test is ONE object that has already been given
    k other (non-uniformly different) rate sets through SetRates before the rates of the case; everything (equation, pairs,
    Coq evaluation) is then measured on that reused calculator, and its values must equal those of a fresh calculator."""
    fresh = case.calc(case.Nmax); g2 = case.calc(case.Nmax + 2)
    g = fresh
    hist = None
    if history:
        from onsager import GFcalc
        g = GFcalc.GFCrystalcalc(case.crys, case.chem, case.sl, case.jn, Nmax=case.Nmax)
        for _ in range(history):
            g.SetRates(*other_rates(case, rng, nprng))
            g(0, 0, np.zeros(case.crys.dim))          # use it, as a caller would
        g.SetRates(*case.data)
    if reload:
        # the calculator under test is the SAVED AND RELOADED one (rates set after loading, as a user would)
        from onsager import GFcalc
        g0 = GFcalc.GFCrystalcalc(case.crys, case.chem, case.sl, case.jn, Nmax=case.Nmax)
        g = reloaded(g0, case.crys)
        g.SetRates(*case.data)
    lam = rng.choice([0.25, 3.0, 7.5])
    gs = case.calc(case.Nmax, scale=lam)
    pts = patch(case, g, rng, nrand)
    tab = table_for(case, g, pts)
    res = residuals(case, tab, pts)
    conv, tab2 = conv_estimate(case, tab, g2)
    res2 = residuals(case, tab2, pts)          # the same equations on the refined mesh: the residual must converge to zero
    pairs = pair_checks(case, g, gs, lam, pts, rng, npairs)
    gmax = max(abs(v) for v in tab.values())
    D = case.exactD()
    far = far_field(case, g2, rng, D) if case.crys.dim == 3 else []
    if history or reload:
        # the reused / reloaded calculator against a fresh one with the same rates, at every tested endpoint (incl. a far one)
        keys = list(tab.keys())
        q = [max(1, int(p_) // 4) for p_ in g.kptgrid]
        keys.append((0, case.N - 1, tuple(q)))
        hist = max(abs(float(g(i, j, case.dx(i, j, R))) - float(fresh(i, j, case.dx(i, j, R)))) for (i, j, R) in keys)
    return dict(g=g, g2=g2, pts=pts, tab=tab, res=res, res2=res2, conv=conv, pairs=pairs, gmax=gmax, D=D, far=far, lam=lam, hist=hist,
                Derr=float(np.abs(g.D - D).max() / np.abs(D).max()))


def run(ck):
    ck.rule = ("crystal pool (2-D and 3-D, named + random crystal systems, 1-3 Wyckoff sets, plus the two-network pyrope Mg sublattice) x "
               "percolating cutoff x random energies/prefactors (half of the multi-jump-type cases and a dedicated tier of named lattices with >= 2 jump types use ONE calculator object reused across 1-3 earlier, non-uniformly different rate sets, compared with a fresh calculator; a sheared tier describes named crystals with a non-reduced primitive basis = lattice x random unimodular shear, noreduce=True, and compares with the reduced description; a reload tier saves triclinic / oblique one-site calculators with more than ten jump types to HDF5 and evaluates the reloaded object; an anisotropic tier uses layered tetragonal / orthorhombic / hexagonal / body-centred cells with c/a 1.6-2.7 and jumps along c slowed so that D is anisotropic by 30..1e4) x patch of endpoints (all site pairs at the origin, unit cells, diagonal, "
               "random cells up to a quarter of the k-mesh period); per case: residual of the diffusion equation at every patch point "
               "(numpy and exact in Coq) and its convergence under k-mesh refinement, swap / random space-group image / rate-scaling pairs, 3-D far field; distinct = distinct "
               "(crystal, cutoff, data); non-trivial = more than one patch point")
    ck.trusted += ["harness/c10.py: jumps (target, cell shift, symmetrised rate) and escape rates built from the implementation's "
                   "jumpnetwork/sitelist; quadrature accuracy measured by refining the calculator's own k-mesh (Nmax+2)",
                   "exact diffusivity from the C02 corrector formula (gen.exact_unitcell_D)"]
    ck.theorems()
    rng = ck.rng
    plan = [(2, 4)] * ck.n(8, 90) + [(2, 6)] * ck.n(0, 15) + [(3, 2)] * ck.n(4, 40) + [(3, 3)] * ck.n(1, 20) + [(3, 4)] * ck.n(0, 5)
    plan += [("pyrope", 2)] * ck.n(1, 2)
    # history tier: one calculator object reused across several rate sets (named lattices with >= 2 jump types)
    plan += [("hist2", 4)] * ck.n(4, 30) + [("hist3", 2)] * ck.n(2, 16)
    terms, meta = [], []
    stats = {"ratio_res_conv": [], "K_far": [], "pair_rel": [], "conv": [], "res": [], "history_rel": [], "reload_rel": [], "anisotropy": [], "cutoff_limited": [], "ratio_refined": [], "ratio_sheared": [], "cross_description": []}
    skipped = {"no-network": 0, "sublattice-network": 0}
    nsample = 0
    # sheared tier: a named crystal in its reduced description and in a non-reduced (unimodular shear, noreduce=True) description
    plan += [("shear2", 4)] * ck.n(2, 16) + [("shear3", 4)] * ck.n(2, 12)
    # reload tier: calculators with more than ten jump types saved to HDF5 and read back
    plan += [("reload3", 2)] * ck.n(1, 4) + [("reload2", 4)] * ck.n(1, 4)
    # anisotropic tier: layered structures, slow axis = long axis
    plan += [("aniso", 3)] * ck.n(2, 14)
    work = []
    for spec, Nmax in plan:
        nr = ck.nprng(rng.randrange(1 << 30))
        if spec in ("shear2", "shear3"):
            nfixed = sum(1 for w_ in work if w_[4] is not None and w_[4][0] == "shear" and w_[0].crys.dim == 3)
            fixed = FIXED_SHEARS[nfixed] if (spec == "shear3" and nfixed < ck.n(2, 3) and skipped.get("fixed-shear-tried", 0) < 3) else None
            if fixed is not None: skipped["fixed-shear-tried"] = skipped.get("fixed-shear-tried", 0) + 1
            pr = gen_sheared_pair(rng, nr, 2 if spec == "shear2" else 3, Nmax, fixed=fixed)
            if isinstance(pr, str):
                skipped[pr] = skipped.get(pr, 0) + 1; continue
            work.append((pr[0], 0, Nmax, nr, ("shear-ref", None)))
            work.append((pr[1], 0, Nmax, nr, ("shear", pr[2])))
            continue
        if spec == "aniso":
            case = gen_aniso(rng, nr, Nmax)
            if case is None:
                skipped["no-network"] += 1; continue
            stats["anisotropy"].append(case.aniso)
            work.append((case, 0, Nmax, nr, None))
            continue
        if spec in ("reload2", "reload3"):
            case = gen_manyjumps(rng, nr, 2 if spec == "reload2" else 3, Nmax)
            if case is None:
                skipped["no-network"] += 1; continue
            work.append((case, 0, Nmax, nr, ("reload", None)))
            continue
        if spec in ("hist2", "hist3"):
            case = gen_case(rng, nr, 2 if spec == "hist2" else 3, Nmax, label="history")
            history = rng.choice([1, 2, 3])
        else:
            case = gen_case(rng, nr, 3 if spec == "pyrope" else spec, Nmax, label="pyrope" if spec == "pyrope" else None)
            history = 0
            if case not in (None, "sublattice") and len(case.jn) >= 2 and rng.random() < 0.5: history = rng.choice([1, 2])
        if case is None:
            skipped["no-network"] += 1; continue
        if case == "sublattice":
            # the jump vectors generate only a sublattice: the infinite network is disconnected although the unit-cell graph is
            # connected; omega(k) is singular at a zone-boundary k and SetRates raises LinAlgError -- outside the calculator's domain
            skipped["sublattice-network"] += 1; continue
        work.append((case, history, Nmax, nr, None))
    shear_ref = None
    for case, history, Nmax, nr, tag in work:
        rep = {"crystal": repr(case.crys), "chem": case.chem, "cutoff": case.cut, "Nmax": Nmax,
               "pre": case.data[0], "bE": case.data[1], "preT": case.data[2], "bET": case.data[3]}
        try:
            ev = evaluate(case, rng, nrand=ck.n(6, 12), npairs=ck.n(8, 16), history=history, nprng=nr, reload=(tag is not None and tag[0] == "reload"))
        except (ArithmeticError, ValueError, IndexError, ZeroDivisionError, np.linalg.LinAlgError) as e:
            ck.case(key=(case.label, round(case.cut, 5), case.data[0], case.data[3], Nmax), nontrivial=True, kind="exception:%dD-N%d" % (case.crys.dim, case.N))
            ck.violation("GFCrystalcalc raised %r for a valid crystal / network / rates (point group order %d)" % (e, len(case.crys.G)), rep,
                         key="c10-complex-ift-exception" if "complex IFT" in str(e) else "c10-exception"); continue
        tol = max(ABS_FLOOR, RES_FACTOR * ev["conv"])
        if getattr(case, "aniso", None) is not None:
            # strongly anisotropic D: G itself is large and drifts along the null vector between meshes, so conv is no useful bound;
            # residuals measured on the unchanged tree (Nmax 3, anisotropy 2e2 .. 9e4, 8 cases): 6e-4 .. 1.2e-3 -> 20 x median
            tol = min(tol, ANISO_CAP)
        worst = float(np.abs(ev["res"]).max())
        kind = "%s%dD-N%d-J%d-Nmax%d-nd%d-%s" % ("reused%d:" % history if history else "", case.crys.dim, case.N, len(case.jn), Nmax, ev["g"].Ndiff,
                                                case.label.split("-")[0])
        if tag is not None and tag[0] == "reload":
            kind = "reloaded:" + kind
            stats["reload_rel"].append(ev["hist"] / ev["gmax"])
            ck.case(key=(case.label, round(case.cut, 5), case.data[2], "reload"), nontrivial=len(case.jn) > 10, kind="reload:" + kind)
            if ev["hist"] > HIST_RTOL * ev["gmax"]:
                ck.violation("a calculator saved with addhdf5 and reloaded with loadhdf5 returns G differing by %.3g (max|G| %.3g) from the "
                             "original with the same rates (%d jump types)" % (ev["hist"], ev["gmax"], len(case.jn)), rep, key="c10-reload")
        if history:
            stats["history_rel"].append(ev["hist"] / ev["gmax"])
            ck.case(key=(case.label, round(case.cut, 5), case.data[0], case.data[3], "history", history), nontrivial=len(case.jn) >= 2, kind="history:" + kind)
            if ev["hist"] > HIST_RTOL * ev["gmax"]:
                ck.violation("history dependence: a calculator that was given %d other rate set(s) before returns G differing by %.3g (max|G| %.3g) "
                             "from a fresh calculator with the same rates (%d jump types)" % (history, ev["hist"], ev["gmax"], len(case.jn)),
                             {**rep, "history": history, "note": "earlier rate sets are drawn by other_rates(case, rng, nprng) from the run's seed"},
                             key="c10-history")
        nsample += 1
        ck.case(key=(case.label, round(case.cut, 5), case.data[0], case.data[3], Nmax), nontrivial=len(ev["pts"]) > 1, kind=kind,
                sample={"crystal": case.label, "Nmax": Nmax, "kptgrid": [int(x) for x in ev["g"].kptgrid], "points": len(ev["pts"]),
                        "max_residual": worst, "measured_quadrature_accuracy": ev["conv"], "tolerance": tol,
                        "example_point": list(ev["pts"][-1]), "input": {k: rep[k] for k in ("pre", "bE", "preT", "bET")}} if nsample <= 3 else None)
        stats["ratio_res_conv"].append(worst / max(ev["conv"], 1e-300)); stats["conv"].append(ev["conv"]); stats["res"].append(worst)
        if worst > tol:
            k = int(np.argmax(np.abs(ev["res"])))
            ck.violation("diffusion equation residual %.3g at (i,j,R)=%s exceeds max(1e-6, %g x measured quadrature accuracy %.3g)"
                         % (worst, ev["pts"][k], RES_FACTOR, ev["conv"]), {**rep, "point": list(ev["pts"][k]), "residual": worst, "tolerance": tol},
                         key="c10-equation")
        # convergence: the same equations on the refined mesh
        worst2 = float(np.abs(ev["res2"]).max())
        if worst > ABS_FLOOR: stats["ratio_refined"].append(worst2 / worst)
        stagnates = worst2 > max(ABS_FLOOR, RHO * worst)
        if stagnates:
            # the calculator has a SECOND integration-accuracy parameter, the pole cutoff (SetRates(pmaxerror=1e-8)): its error floor
            # can exceed the mesh error (2-D, 2 sites, point group 2: floor 2.6e-5 for every Nmax 6..16, 2.1e-6 at pmaxerror 1e-12).
            # A residual that stops responding to the mesh must then respond to the cutoff; only if it responds to neither it is
            # no integration error.
            from onsager import GFcalc
            g3 = GFcalc.GFCrystalcalc(case.crys, case.chem, case.sl, case.jn, Nmax=Nmax + 2)
            g3.SetRates(*case.data, pmaxerror=1e-12)
            tab3 = {key: float(g3(key[0], key[1], case.dx(*key))) for key in ev["tab"]}
            worst3 = float(np.abs(residuals(case, tab3, ev["pts"])).max())
            stats["cutoff_limited"].append(worst3 / worst2)
            stagnates = worst3 > max(ABS_FLOOR, CUTOFF_RHO * worst2)
            if not stagnates: skipped["residual-limited-by-pole-cutoff"] = skipped.get("residual-limited-by-pole-cutoff", 0) + 1
        if stagnates:
            k = int(np.argmax(np.abs(ev["res2"])))
            ck.violation("diffusion equation residual does not converge under k-mesh refinement: %.3g at Nmax=%d, %.3g at Nmax=%d (point %s; "
                         "quadrature error decays at least like (Nmax/(Nmax+2))^2, limit %.2f)" % (worst, Nmax, worst2, Nmax + 2, ev["pts"][k], RHO),
                         {**rep, "point": list(ev["pts"][k]), "residual_Nmax": worst, "residual_Nmax+2": worst2}, key="c10-equation-not-converging")
        if tag is not None and tag[0] == "shear-ref":
            shear_ref = (case, ev, worst, worst2)
        if tag is not None and tag[0] == "shear" and shear_ref is not None:
            rcase, rev, rworst, rworst2 = shear_ref
            rep["shear"] = np.asarray(tag[1]).tolist(); rep["reduced_crystal"] = repr(rcase.crys)
            # (a) same crystal, same rates, REFINED mesh (Nmax+2): residual of the sheared description vs that of the reduced one.
            #     (at Nmax itself a skewed cell can have a coarse, anisotropic mesh: bcc x shear gives 3e-5 at Nmax 4 and 1e-9 at Nmax 6)
            stats["ratio_sheared"].append(worst2 / max(rworst2, 1e-300))
            # floor 5e-6: a strongly sheared 2-D cell ([[2,1],[1,1]]) reached 1.4e-6 on the unchanged tree (seed 4); an incomplete zone
            # description gives 2e-5 .. 6e-4
            if worst2 > max(5 * ABS_FLOOR, SHEAR_FACTOR * rworst2):
                ck.violation("non-reduced description (lattice x %s, noreduce): diffusion equation residual %.3g at Nmax=%d, reduced description of "
                             "the same crystal and rates %.3g" % (np.asarray(tag[1]).tolist(), worst2, Nmax + 2, rworst2), rep, key="c10-sheared-description")
            # (b) the Green function itself: same Cartesian separation, same sites
            dmax = 0.0
            for (i, j, R) in rev["pts"]:
                x = rcase.dx(i, j, R)
                dmax = max(dmax, abs(float(rev["g2"](i, j, x)) - float(ev["g2"](i, j, x))))
            tolx = max(ABS_FLOOR, RES_FACTOR * (ev["conv"] + rev["conv"])) / case.esc.max()
            stats["cross_description"].append(dmax * case.esc.max())
            ck.case(key=(case.label, round(case.cut, 5), case.data[0], "cross", np.asarray(tag[1]).tolist()), nontrivial=True, kind="cross-description:" + kind)
            if dmax > tolx:
                ck.violation("Green function of the sheared description differs from the reduced description by %.3g (tolerance %.3g)" % (dmax, tolx),
                             rep, key="c10-sheared-description")
        if ev["Derr"] > 1e-8:
            ck.violation("GFCrystalcalc.D differs from the exact diffusivity by %.3g (rel)" % ev["Derr"], rep, key="c10-D")
        # rounding in SetRates grows with the condition number of D (isotropisation of the pole): measured 1e-11 at anisotropy 1e3
        tolpair = max(min(PAIR_RTOL * max(1.0, getattr(case, "aniso", 1.0)), 1e-8) * ev["gmax"], 1e-300)
        for knd, a, b in ev["pairs"]:
            stats["pair_rel"].append(abs(a - b) / ev["gmax"])
            if abs(a - b) > tolpair:
                ck.violation("%s: values %.12g and %.12g differ by %.3g (tolerance %.3g)" % (
                    {"swap": "swap symmetry G(i,j,dx) = G(j,i,-dx)", "group": "space-group invariance", "scale": "inverse scaling lambda*G_lambda = G (lambda=%g)" % ev["lam"]}[knd],
                    a, b, abs(a - b), tolpair), rep, key="c10-" + knd)
        comp = network_components(case)
        for (i, j, R, val, cont, x2) in ev["far"]:
            if getattr(case, "aniso", 1.0) > 10:
                # a quarter of the k-mesh period is far from asymptotic in the metric of a strongly anisotropic D (measured K 30 .. 9e4)
                skipped["far-field-anisotropic"] = skipped.get("far-field-anisotropic", 0) + 1; continue
            if ev["g"].Ndiff > 1:
                # several disconnected networks: no propagation between them; inside one network the pole carries that
                # network's own normalisation and diffusivity (not evaluated here)
                if comp[i] != comp[j]:
                    ck.case(key=(case.label, "far-disconnected", i, j, R), nontrivial=True, kind="far-disconnected:" + kind)
                    if abs(val) > max(ABS_FLOOR, RES_FACTOR * ev["conv"]) / case.esc.max():
                        ck.violation("Green function %.3g between disconnected networks (sites %d, %d)" % (val, i, j), {**rep, "point": [i, j, list(R)]},
                                     key="c10-disconnected")
                else:
                    skipped["far-same-network-of-disconnected"] = skipped.get("far-same-network-of-disconnected", 0) + 1
                continue
            K = (val / cont - 1) * x2
            stats["K_far"].append(abs(K))
            ck.case(key=(case.label, round(case.cut, 5), case.data[0], "far", i, j, R), nontrivial=True, kind="far:" + kind)
            if abs(val / cont - 1) > max(K_CAP / x2, 20 * ev["conv"] / max(abs(cont) * case.esc.max(), 1e-300)):
                ck.violation("3-D far field: G(%d,%d,R=%s) = %.6g vs continuum pole %.6g (relative deviation %.3g > %.3g)"
                             % (i, j, R, val, cont, val / cont - 1, K_CAP / x2), {**rep, "point": [i, j, list(R)], "value": val, "continuum": cont},
                             key="c10-farfield")
        if len(ev["tab"]) <= 1500:
            terms.append(coq_term(case, ev["tab"], ev["pts"], tol, ev["pairs"], tolpair))
            meta.append(dict(rep=rep, label=case.label, kind=kind, n=len(ev["pts"])))
    try:
        res = run_cases(ck, "gf", terms)
    except CoqFailure as e:
        ck.broken_proof = "correspondence Model/GFeq.count_bad: %s" % e
        res = []
    for m, (nb, nf) in zip(meta, res):
        ck.case(key=("coq", m["label"], m["rep"]["pre"], m["rep"]["bET"], m["rep"]["Nmax"]), nontrivial=m["n"] > 1, kind="coq:" + m["kind"])
        if nb: ck.violation("Coq evaluator: %d of %d patch equations have an exact residual above tolerance (or a missing value)" % (nb, m["n"]), m["rep"], key="c10-equation")
        if nf: ck.violation("Coq evaluator: %d swap/group/scaling pairs differ by more than the tolerance" % nf, m["rep"], key="c10-pairs")
    def q(v): return {"n": len(v), "median": float(np.median(v)) if v else None, "max": float(np.max(v)) if v else None}
    ck.extra["measured"] = {k: q(v) for k, v in stats.items()}
    ck.extra["calibration"] = {"RHO": RHO, "SHEAR_FACTOR": SHEAR_FACTOR, "HIST_RTOL": HIST_RTOL, "RES_FACTOR": RES_FACTOR, "K_CAP": K_CAP, "PAIR_RTOL": PAIR_RTOL, "ABS_FLOOR": ABS_FLOOR,
                               "rule": "residual tolerance = max(1e-6, RES_FACTOR x quadrature accuracy measured per case by k-mesh refinement); "
                                       "constants calibrated on the unchanged tree 2026-09-22 (see harness/c10.py CALIBRATION)"}
    ck.extra["coq_evaluator_cases"] = len(res)
    ck.extra["traces_validated_against_impl"] = len(res)
    ck.extra["skipped"] = skipped


def calibrate(seeds=(0, 1, 2, 3)):
    """measure, on the present tree, the statistics the constants above are derived from"""
    import random
    ratios, Ks, prs = [], [], []
    for seed in seeds:
        rng = random.Random(1000 + seed)
        for dim, Nmax in [(2, 4)] * 20 + [(3, 2)] * 8 + [(3, 3)] * 3:
            nr = np.random.default_rng(rng.randrange(1 << 30))
            case = gen_case(rng, nr, dim, Nmax)
            if case is None or case == "sublattice": continue
            try: ev = evaluate(case, rng)
            except Exception as e:
                print("exception", case.label, repr(e)[:80]); continue
            ratios.append(float(np.abs(ev["res"]).max()) / max(ev["conv"], 1e-300))
            Ks += [abs((v / c - 1) * x2) for (_, _, _, v, c, x2) in ev["far"]]
            prs += [abs(a - b) / ev["gmax"] for _, a, b in ev["pairs"]]
            print("%-14s %dD Nmax%d res %.2e conv %.2e ratio %.2f" % (case.label, dim, Nmax, np.abs(ev["res"]).max(), ev["conv"], ratios[-1]), flush=True)
    for name, v in (("residual/conv", ratios), ("K far-field", Ks), ("pair rel diff", prs)):
        v = np.array(v)
        print("%s: n=%d median %.3g 90%% %.3g max %.3g" % (name, len(v), np.median(v), np.quantile(v, 0.9), v.max()))


if __name__ == "__main__":
    if len(sys.argv) > 1 and sys.argv[1] == "calibrate": calibrate()
