"""Vacancy-mediated calculators: builders, random thermodynamic data, and the EXACT torus oracle.

torus_chain builds the one-solute/one-vacancy Markov chain on the torus Z_M^d in relative
coordinates (s; v, R) from the calculator's own symmetry classes (thermo stars, omega1/omega2
classes) -- the network of Model/Net.v with two displacement fields (solute, vacancy).
inject() writes the torus pseudo-inverse bare Green function into the calculator's public GF cache;
Lij with that cache must reproduce the chain exactly (DESIGN 5.1)."""
import itertools
import numpy as np
from onsager import OnsagerCalc
from onsager.crystalStars import PairState


INPUT_MUTATIONS = []   # (function name, argument position) whenever a library call changed one of the caller's arrays


def guard_inputs(obj, names):
    """wrap the named bound methods of obj: after every call the caller's array arguments must be bit-identical to what
    was passed in (a calculator must never write into its inputs; the first result would still look right)"""
    for nm in names:
        orig = getattr(obj, nm)
        def wrapped(*a, __orig=orig, __nm=nm, **k):
            snap = [np.array(x, copy=True) if isinstance(x, np.ndarray) else None for x in a]
            ksnap = {kk: np.array(v, copy=True) for kk, v in k.items() if isinstance(v, np.ndarray)}
            out = __orig(*a, **k)
            for i, (x, y) in enumerate(zip(a, snap)):
                if y is not None and not (x.shape == y.shape and np.array_equal(x, y, equal_nan=True)):
                    INPUT_MUTATIONS.append((__nm, i))
            for kk, y in ksnap.items():
                if not (k[kk].shape == y.shape and np.array_equal(k[kk], y, equal_nan=True)):
                    INPUT_MUTATIONS.append((__nm, kk))
            return out
        setattr(obj, nm, wrapped)
    return obj


STATE_GUARD = []   # (calculator, snapshot of its array attributes after construction)


def _snapshot(obj):
    snap = {}
    for k, v in vars(obj).items():
        if isinstance(v, np.ndarray) and v.dtype != object:
            snap[k] = v.copy()
    return snap


def state_mutations():
    """names of array attributes of guarded calculators (and of their vector-star / star-set objects) that no longer equal the
    snapshot taken right after construction: evaluating transport coefficients must not change the calculator"""
    bad = []
    for label, obj, snap in STATE_GUARD:
        for k, v0 in snap.items():
            v = getattr(obj, k, None)
            if not (isinstance(v, np.ndarray) and v.shape == v0.shape and np.array_equal(v, v0, equal_nan=True)):
                bad.append("%s.%s" % (label, k))
    return bad


def make(crys, chem, sl, jn, Nthermo, NGFmax=4):
    d = OnsagerCalc.VacancyMediated(crys, chem, sl, jn, Nthermo, NGFmax=NGFmax)
    if len(STATE_GUARD) < 400:
        for label, obj in (("VacancyMediated", d), ("vkinetic", d.vkinetic), ("kinetic", d.kinetic), ("thermo", d.thermo)):
            STATE_GUARD.append((label, obj, _snapshot(obj)))
    return guard_inputs(d, ["Lij", "preene2betafree", "makeLIMBpreene", "maketracerpreene"])


def exchange_mixes_stars(d):
    """True when some solute-vacancy exchange (omega2 jump) maps a pair-state star onto a DIFFERENT star: crystals with
    several Wyckoff sets, or single-site crystals without an operation reversing the jump vector (point group 3: p3, P3).
    Exactly the input class of the known finding c08-largeom2-exchange-mixes-stars (the omega2 block then has genuinely mixed
    even/odd eigenvectors and both omega2 algorithms lose accuracy like eps*f^2)"""
    ks = d.kinetic
    return any(ks.index[i] != ks.index[f] for jl in d.om2_jn for (i, f), dx in jl)


def random_thermo(d, rng, interact=True, site_energies=True, dyadic=False, tracer=False):
    """pre/ene dictionaries for preene2betafree.  dyadic: all energies 0, prefactors k/8 (exact rates)"""
    Nw = len(d.sitelist); nj = len(d.om0_jn)
    def u(lo, hi, n):
        return np.array([rng.uniform(lo, hi) for _ in range(n)])
    def dy(lo, hi, n):
        return np.array([rng.randint(int(lo * 8), int(hi * 8)) / 8. for _ in range(n)])
    if dyadic:
        th = dict(preV=dy(.5, 2, Nw) if site_energies else np.ones(Nw), eneV=np.zeros(Nw),
                  preS=dy(.5, 2, Nw) if site_energies else np.ones(Nw), eneS=np.zeros(Nw),
                  preSV=dy(.5, 2, d.thermo.Nstars) if interact else np.ones(d.thermo.Nstars), eneSV=np.zeros(d.thermo.Nstars),
                  preT0=dy(.25, 2, nj), eneT0=np.zeros(nj))
    else:
        th = dict(preV=u(.5, 2, Nw), eneV=u(0, .5, Nw) if (Nw > 1 and site_energies) else np.zeros(Nw),
                  preS=u(.5, 2, Nw), eneS=u(0, .5, Nw) if (Nw > 1 and site_energies) else np.zeros(Nw),
                  preSV=u(.5, 2, d.thermo.Nstars) if interact else np.ones(d.thermo.Nstars),
                  eneSV=u(-.5, .5, d.thermo.Nstars) * (1 if interact else 0),
                  preT0=u(.5, 2, nj), eneT0=u(.5, 1., nj))
    if tracer:
        th.update(d.maketracerpreene(preT0=th["preT0"], eneT0=th["eneT0"]))
        return th
    th.update(d.makeLIMBpreene(**th))
    if interact:
        n1, n2 = len(th["preT1"]), len(th["preT2"])
        if dyadic:
            th["preT1"] = th["preT1"] * dy(.5, 2, n1); th["preT2"] = th["preT2"] * dy(.5, 2, n2)
        else:
            th["eneT1"] = th["eneT1"] + u(-.3, .3, n1); th["eneT2"] = th["eneT2"] + u(-.3, .3, n2)
            th["preT1"] = th["preT1"] * u(.7, 1.4, n1); th["preT2"] = th["preT2"] * u(.7, 1.4, n2)
    return th


def min_torus(d):
    """smallest torus size that holds the kinetic shell without aliasing"""
    maxR = max(int(np.abs(PS.R).max()) for PS in d.kinetic.states) if d.kinetic.Nstates else 1
    return 2 * maxR + 1


class Chain:
    """the pair chain on the torus (float data); see torus_chain"""
    pass


def torus_chain(d, bFV, bFS, bFSV, bFT0, bFT1, bFT2, M, solute=True):
    crys, chem = d.crys, d.chem
    dim, N = crys.dim, d.N
    basis = crys.basis[chem]
    invmap = d.invmap
    kin, thermo = d.kinetic, d.thermo
    pV = np.array([np.exp(min(bFV) - bFV[invmap[i]]) for i in range(N)]); pV *= N / pV.sum()
    pS = np.array([np.exp(min(bFS) - bFS[invmap[i]]) for i in range(N)]); pS *= N / pS.sum()
    cells = list(itertools.product(range(M), repeat=dim))
    half = M // 2

    def center(R):
        R = np.array(R) % M
        return np.where(R > half, R - M, R)
    states, index = [], {}
    for s in range(N):
        for v in range(N):
            for R in cells:
                if solute and v == s and all(r == 0 for r in R): continue
                index[(s, v, R)] = len(states); states.append((s, v, R))
    n = len(states)
    bF = np.zeros(n); w = np.zeros(n); kidx = [None] * n
    for x, (s, v, R) in enumerate(states):
        e = bFS[invmap[s]] + bFV[invmap[v]]
        ww = pS[s] * pV[v]
        if solute:
            ps = PairState.fromcrys_latt(crys, chem, (s, v), center(R))
            ti = thermo.starindex(ps)
            if ti is not None:
                e += bFSV[ti]; ww *= np.exp(-bFSV[ti])
            kidx[x] = kin.stateindex(ps)
        bF[x] = e; w[x] = ww
    om1, om2 = {}, {}
    for k, jl in enumerate(d.om1_jn):
        for (i, f), dx in jl: om1[(i, f)] = k
    for k, jl in enumerate(d.om2_jn):
        for (i, f), dx in jl: om2[(i, f)] = k
    jumps = []
    for jt, jl in enumerate(d.om0_jn):
        for (i, j), dx in jl:
            dR = np.round(np.dot(crys.invlatt, dx) - basis[j] + basis[i]).astype(int)
            jumps.append((jt, i, j, dR, dx))
    edges = []  # directed: (x, y, rate, ds, dv, kind, class)
    for x, (s, v, R) in enumerate(states):
        for jt, i, j, dR, dx in jumps:
            if i != v: continue
            R2 = tuple((np.array(R) + dR) % M)
            if solute and j == s and all(r == 0 for r in R2):
                y = index[(v, s, tuple((-np.array(R)) % M))]
                k = om2.get((kidx[x], kidx[y])) if kidx[x] is not None and kidx[y] is not None else None
                if k is None: raise RuntimeError("exchange jump without omega2 class")
                rate = np.exp(-bFT2[k] + bF[x]); dv, ds = dx, -dx; kind = 2
            else:
                y = index[(s, j, R2)]
                k = None
                if solute and kidx[x] is not None and kidx[y] is not None:
                    k = om1.get((kidx[x], kidx[y]))
                if k is None:
                    rate = np.exp(-bFT0[jt] + bFV[invmap[v]]); kind = 0; k = jt
                else:
                    rate = np.exp(-bFT1[k] + bF[x]); kind = 1
                dv, ds = dx, 0 * dx
            edges.append((x, y, rate, ds, dv, kind, k))
    c = Chain()
    c.n, c.dim, c.N, c.M, c.states, c.w, c.edges = n, dim, N, M, states, w, edges
    return c


def chain_L(c):
    """float transport coefficients of the chain: dict ('s','s'),('s','v'),('v','v') -> dim x dim, normalised /N;
    also returns the detailed-balance asymmetry"""
    n, dim = c.n, c.dim
    W = np.zeros((n, n)); bs = np.zeros((n, dim)); bv = np.zeros((n, dim))
    D0 = {k: np.zeros((dim, dim)) for k in (("s", "s"), ("s", "v"), ("v", "v"))}
    for (x, y, rate, ds, dv, kind, k) in c.edges:
        W[x, y] += rate; W[x, x] -= rate
        bs[x] += rate * ds; bv[x] += rate * dv
        D0[("s", "s")] += 0.5 * c.w[x] * rate * np.outer(ds, ds)
        D0[("s", "v")] += 0.5 * c.w[x] * rate * np.outer(ds, dv)
        D0[("v", "v")] += 0.5 * c.w[x] * rate * np.outer(dv, dv)
    sw = np.sqrt(c.w)
    Om = (sw[:, None] * W) / sw[None, :]
    asym = np.abs(Om - Om.T).max() / max(np.abs(Om).max(), 1e-300)
    Om = 0.5 * (Om + Om.T)
    Op = np.linalg.pinv(Om, rcond=1e-11, hermitian=True)
    b = {"s": sw[:, None] * bs, "v": sw[:, None] * bv}
    L = {}
    for (A, B) in D0:
        L[(A, B)] = (D0[(A, B)] + b[A].T @ Op @ b[B]) / c.N
    return L, asym


def torus_GF(d, bFV, bFT0, M):
    """pseudo-inverse of the symmetrised bare vacancy rate matrix on the torus"""
    crys, chem = d.crys, d.chem
    dim, N = crys.dim, d.N
    basis = crys.basis[chem]; invmap = d.invmap
    cells = list(itertools.product(range(M), repeat=dim))
    idx = {(v, R): k for k, (v, R) in enumerate((v, R) for v in range(N) for R in cells)}
    n = len(idx)
    pV = np.array([np.exp(min(bFV) - bFV[invmap[i]]) for i in range(N)]); pV *= N / pV.sum()
    W = np.zeros((n, n))
    for (v, R), x in idx.items():
        for jt, jl in enumerate(d.om0_jn):
            for (i, j), dx in jl:
                if i != v: continue
                dR = np.round(np.dot(crys.invlatt, dx) - basis[j] + basis[i]).astype(int)
                y = idx[(j, tuple((np.array(R) + dR) % M))]
                rate = np.exp(-bFT0[jt] + bFV[invmap[v]])
                W[x, y] += rate; W[x, x] -= rate
    sw = np.sqrt(np.array([pV[v] for (v, R) in idx]))
    Om = sw[:, None] * W / sw[None, :]
    Om = 0.5 * (Om + Om.T)
    G = np.linalg.pinv(Om, rcond=1e-11, hermitian=True)
    return G, idx


def inject(d, args, M):
    """Lij with the torus Green function written into the public cache.  Returns (L0vv, Lss, Lsv, L1vv)
    of the injected run; restores nothing (use a fresh/cleared calculator for un-injected runs)."""
    bFV, bFS, bFSV, bFT0, bFT1, bFT2 = args
    d.clearcache()
    d.Lij(*args)
    key = list(d.GFvalues.keys())[0]
    G, idx = torus_GF(d, bFV, bFT0, M)
    zero = (0,) * d.crys.dim
    GF = np.array([G[idx[(PS.i, zero)], idx[(PS.j, tuple(np.array(PS.R) % M))]]
                   for PS in [d.GFstarset.states[s[0]] for s in d.GFstarset.stars]])
    d.GFvalues[key] = GF
    out = d.Lij(*args)
    d.clearcache()
    return [np.array(x) for x in out]


def oracle(d, args, M):
    """exact (float) torus values in the implementation's normalisation:
    Lss, Lsv, L1vv as the implementation defines it given its own L0vv:  L1vv = (Lvv~ - Lvv0~) + L0vv"""
    L, asym = chain_L(torus_chain(d, *args, M=M, solute=True))
    Lb, asymb = chain_L(torus_chain(d, *args, M=M, solute=False))
    nsites = d.N * M ** d.crys.dim
    # index convention of the implementation: Lsv[a, b] = <vacancy_a solute_b> (outer[a,b,i,j] contracted with biasV_i etaS_j),
    # i.e. the transpose of the chain's <solute_a vacancy_b>; the two coincide unless the point group leaves an antisymmetric
    # tensor invariant (oblique / monoclinic / triclinic ...; see C03 known finding c03-Lsv-asym-axialgroup)
    return dict(Lss=L[("s", "s")], Lsv=L[("s", "v")].T, Lvv=L[("v", "v")], Lvv0=Lb[("v", "v")],
                L0vv=Lb[("v", "v")] / nsites, asym=max(asym, asymb))
