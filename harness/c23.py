"""C23  Coordinate conversions and symmetry actions are mutually consistent.

Model: Model/Action.v (lattice coordinates over Z: g_pos, g_vect, cart2unit split, cart2pos, PairState.g,
ClusterSite.g) and Model/Cartesian.v (any ordered ring: unit2cart, g_cart, g_direc, g_tensor, cartrot = A S A^-1).
Theorems: round-trips, agreement of the routes, act_mul / inverse for positions, pair states, cluster sites,
orthogonality of cartrot from the lattice isometry (Properties/C23.v).

Tie (every run): on crystals of the pool, the implementation's integer outputs of g_pos, g_vect, cart2unit,
cart2pos, PairState.g, ClusterSite.g (also for products g1*g2) are compared INSIDE Coq with the model evaluated
on the same exact inputs; everything Cartesian is evaluated on the implementation in floats at 1e-10."""
META = dict(
    level="proof",
    text=("Theorems: (Z, all crystals/cells) g_pos returns the image atom and cell of the affine map for every valid "
          "operation; g_vect returns S(R+u)+t split with the unit-cell part in [0,1); g_vect on an atom's position = g_pos; "
          "the cell/unit-cell split and cart2pos invert unit2pos/pos2cart; g_pos, PairState.g compose for g1*g2 and invert "
          "for g.inv(); PairState.g commutes with + and -, its dx is S applied to dx; ClusterSite.g moves the site with the "
          "affine map and commutes with + vector. (Any ordered commutative ring) invlatt/lattice round-trips, g_cart on "
          "unit2cart = unit2cart of the lattice action, g_direc = linear part, g_tensor on dyads/additive, g_cart/g_direc/"
          "cartrot of a product compose, cartrot of a lattice isometry is orthogonal and cartrot^T, -S^-1 t is the inverse. "
          "Tie: integer outputs compared exactly inside Coq, Cartesian identities in floats (1e-10) on the implementation."),
    note=("incell/np.round are modelled exactly (floor / nearest integer); the 1e-8 threshold inside incell and cart2pos is not "
          "modelled, generated positions are rationals with denominators <= 5040 (exact tier) or at least 1e-3 away from cell "
          "boundaries (float tier). Float rounding is not modelled. Trusted: harness rationalisation, numpy."),
    technique="Coq proofs (ring identities over an arbitrary ordered ring + integer lattice model) + exact correspondence inside Coq",
)

import numpy as np
from fractions import Fraction as Fr
from . import latt
from .lib import CoqFailure, coq_list, coq_Z, coq_nat

FTOL = 1e-10

PRE = latt.IMPORTS + """From Onsager Require Import Model.Action.
Definition b2z (b : bool) : Z := if b then 0 else 1.
Definition tot (l : list Z) : Z := fold_right Z.add 0 l.
Definition eqv (d : nat) (f : vec) (l : list Z) : bool := veqb d f (vl l) && Nat.eqb (length l) d.
Definition opt_eqb (a b : option (nat * nat)) : bool :=
  match a, b with
  | Some (x, y), Some (x', y') => Nat.eqb x x' && Nat.eqb y y'
  | None, None => true
  | _, _ => false end.
Definition chk_gpos (C : crystal) (t : symop * list Z * nat * nat * list Z * nat) : Z :=
  let '(g, R, c, i, R2, i2) := t in let r := g_pos C g (vl R) c i in
  b2z (eqv (c_dim C) (fst r) R2 && Nat.eqb (fst (snd r)) c && Nat.eqb (snd (snd r)) i2).
Definition chk_gposmul (C : crystal) (t : symop * symop * list Z * nat * nat * list Z * nat) : Z :=
  let '(a, b, R, c, i, R2, i2) := t in let r := g_pos C (op_mul (c_dim C) a b) (vl R) c i in
  b2z (eqv (c_dim C) (fst r) R2 && Nat.eqb (snd (snd r)) i2).
Definition chk_gvect (C : crystal) (t : symop * list Z * list Z * list Z * list Z) : Z :=
  let '(g, R, u, R2, u2) := t in let r := g_vect C g (vl R) (vl u) in
  b2z (eqv (c_dim C) (fst r) R2 && eqv (c_dim C) (snd r) u2).
Definition chk_c2u (C : crystal) (t : list Z * list Z * list Z) : Z :=
  let '(p, R2, u2) := t in let r := cart2unit_l (c_den C) (vl p) in
  b2z (eqv (c_dim C) (fst r) R2 && eqv (c_dim C) (snd r) u2).
Definition chk_c2p (C : crystal) (t : list Z * list Z * option (nat * nat)) : Z :=
  let '(p, R2, ci) := t in let r := cart2pos_l C (vl p) in
  b2z (eqv (c_dim C) (fst r) R2 && opt_eqb (snd r) ci).
Definition chk_ps (C : crystal) (t : nat * symop * nat * nat * list Z * nat * nat * list Z) : Z :=
  let '(chem, g, i, j, R, i2, j2, R2) := t in let s := ps_g C chem g (mkPS i j (vl R)) in
  b2z (Nat.eqb (ps_i s) i2 && Nat.eqb (ps_j s) j2 && eqv (c_dim C) (ps_R s) R2).
Definition chk_cs (C : crystal) (t : symop * nat * nat * list Z * nat * nat * list Z) : Z :=
  let '(g, c, i, R, c2, i2, R2) := t in let s := cs_g C g (mkCS c i (vl R)) in
  b2z (Nat.eqb (cs_c s) c2 && Nat.eqb (cs_i s) i2 && eqv (c_dim C) (cs_R s) R2).
"""
NAMES = ["g_pos", "g_pos(g1*g2)", "g_vect", "cart2unit", "cart2pos", "PairState.g", "ClusterSite.g"]


def zl(v): return coq_list([coq_Z(int(x)) for x in v])


def numer(xs, D):
    out = []
    for x in xs:
        y = Fr(x) * D
        if y.denominator != 1: raise latt.Irrational("not a multiple of 1/%d: %s" % (D, x))
        out.append(int(y))
    return out


def rvec(rng, d, m=3): return np.array([rng.randint(-m, m) for _ in range(d)], dtype=int)


def float_checks(ck, rng, nr, crys, ops, replay, stats):
    """Cartesian identities on the implementation, tolerance FTOL * scale; returns list of failures (strings)"""
    from onsager import crystalStars, cluster
    d = crys.dim
    fails = []
    def close(a, b, what, scale=10.0):
        e = float(np.abs(np.asarray(a, dtype=float) - np.asarray(b, dtype=float)).max()) if np.size(a) else 0.0
        stats["maxerr"] = max(stats["maxerr"], e)
        if not e <= FTOL * scale: fails.append("%s (err %.3g)" % (what, e))
    glist = [o["g"] for o in ops]
    for rep in range(3):
        g = rng.choice(glist); g2 = rng.choice(glist); gi = g.inv(); g12 = g * g2
        R = rvec(rng, d); c = rng.randrange(crys.Nchem); i = rng.randrange(len(crys.basis[c])); ci = (c, i)
        u = nr.uniform(1e-3, 1 - 1e-3, d); x = nr.uniform(-4, 4, d); y = nr.uniform(-4, 4, d)
        # round trips
        R2, u2 = crys.cart2unit(crys.unit2cart(R, u))
        if not np.array_equal(R2, R): fails.append("cart2unit(unit2cart(R,u)) cell")
        close(u2, u, "cart2unit(unit2cart(R,u)) unit part", 1.0)
        close(crys.unit2cart(*crys.cart2unit(x)), x, "unit2cart(cart2unit(x))")
        R2, ci2 = crys.cart2pos(crys.pos2cart(R, ci))
        if not (np.array_equal(R2, R) and ci2 == ci): fails.append("cart2pos(pos2cart(R,ci)) = %s,%s for %s,%s" % (R2, ci2, R, ci))
        # routes agree
        gR, gu = crys.g_vect(g, R, u)
        close(crys.g_cart(g, crys.unit2cart(R, u)), crys.unit2cart(gR, gu), "g_cart(unit2cart) vs unit2cart(g_vect)")
        pR, pci = crys.g_pos(g, R, ci)
        close(crys.g_cart(g, crys.pos2cart(R, ci)), crys.pos2cart(pR, pci), "g_cart(pos2cart) vs pos2cart(g_pos)")
        vR, vu = crys.g_vect(g, R, crys.basis[c][i])
        if not np.array_equal(vR, pR): fails.append("g_vect on an atom position: cell differs from g_pos")
        close(vu, crys.basis[pci[0]][pci[1]], "g_vect on an atom position: unit part differs from the basis atom", 1.0)
        close(crys.g_direc(g, x - y), crys.g_cart(g, x) - crys.g_cart(g, y), "g_direc(x-y) vs g_cart(x)-g_cart(y)")
        T = nr.uniform(-1, 1, (d, d))
        close(crys.g_tensor(g, np.outer(x, y)), np.outer(crys.g_direc(g, x), crys.g_direc(g, y)), "g_tensor(dyad)", 100.0)
        close(crys.g_direc(g, x) @ crys.g_tensor(g, T) @ crys.g_direc(g, y), x @ T @ y, "g_tensor contraction invariant", 100.0)
        # composition / inversion
        close(crys.g_cart(g12, x), crys.g_cart(g, crys.g_cart(g2, x)), "g_cart(g1*g2)")
        close(crys.g_direc(g12, x), crys.g_direc(g, crys.g_direc(g2, x)), "g_direc(g1*g2)")
        close(crys.g_tensor(g12, T), crys.g_tensor(g, crys.g_tensor(g2, T)), "g_tensor(g1*g2)")
        close(crys.g_cart(gi, crys.g_cart(g, x)), x, "g_cart(g.inv())")
        a = crys.g_pos(g12, R, ci); b2 = crys.g_pos(g2, R, ci); b = crys.g_pos(g, b2[0], b2[1])
        if not (np.array_equal(a[0], b[0]) and a[1] == b[1]): fails.append("g_pos(g1*g2) != g_pos(g1, g_pos(g2))")
        a = crys.g_pos(gi, pR, pci)
        if not (np.array_equal(a[0], R) and a[1] == ci): fails.append("g_pos(g.inv(), g_pos(g)) != identity")
        a = crys.g_vect(g12, R, u); b2 = crys.g_vect(g2, R, u); b = crys.g_vect(g, b2[0], b2[1])
        close(crys.unit2cart(*a), crys.unit2cart(*b), "g_vect(g1*g2)")
        a = crys.g_vect(gi, gR, gu)
        close(crys.unit2cart(*a), crys.unit2cart(R, u), "g_vect(g.inv())")
        # pair states
        chem = c; n = len(crys.basis[chem])
        i1, j1, k1 = rng.randrange(n), rng.randrange(n), rng.randrange(n)
        Ra, Rb = rvec(rng, d, 2), rvec(rng, d, 2)
        pa = crystalStars.PairState.fromcrys_latt(crys, chem, (i1, j1), Ra)
        pb = crystalStars.PairState.fromcrys_latt(crys, chem, (j1, k1), Rb)
        ga = pa.g(crys, chem, g)
        if not ga.__sane__(crys, chem): fails.append("PairState.g: dx inconsistent with (i,j,R)")
        close(ga.dx, crys.g_direc(g, pa.dx), "PairState.g dx")
        e0 = crys.g_pos(g, np.zeros(d, dtype=int), (chem, i1)); e1 = crys.g_pos(g, Ra, (chem, j1))
        if not (ga.i == e0[1][1] and ga.j == e1[1][1] and np.array_equal(ga.R, e1[0] - e0[0])): fails.append("PairState.g endpoints vs g_pos")
        s1 = (pa + pb).g(crys, chem, g); s2 = pa.g(crys, chem, g) + pb.g(crys, chem, g)
        if not (s1 == s2): fails.append("PairState.g(a+b) != g(a)+g(b)")
        close(s1.dx, s2.dx, "PairState.g(a+b) dx")
        if not ((-pa).g(crys, chem, g) == -(pa.g(crys, chem, g))): fails.append("PairState.g(-a) != -g(a)")
        if not (pa.g(crys, chem, g12) == pa.g(crys, chem, g2).g(crys, chem, g)): fails.append("PairState.g(g1*g2)")
        if not (pa.g(crys, chem, g).g(crys, chem, gi) == pa): fails.append("PairState.g(g.inv())")
        # cluster sites
        cs = cluster.ClusterSite(ci=ci, R=R)
        gcs = cs.g(crys, g)
        close(crys.pos2cart(gcs.R, gcs.ci), crys.g_cart(g, crys.pos2cart(cs.R, cs.ci)), "ClusterSite.g position")
        v = rvec(rng, d, 2)
        if not ((cs + v).g(crys, g) == cs.g(crys, g) + np.dot(g.rot, v)): fails.append("ClusterSite.g(cs+v) != g(cs)+rot v")
        if not (cs.g(crys, g12) == cs.g(crys, g2).g(crys, g)): fails.append("ClusterSite.g(g1*g2)")
        if not (gcs.g(crys, gi) == cs): fails.append("ClusterSite.g(g.inv())")
        stats["float-evals"] += 1
    return fails


def all_ops_check(crys, stats):
    """for EVERY operation and EVERY atom: g_cart on the Cartesian position = Cartesian position of g_pos = of g_vect, and the image is the
    atom recorded in indexmap (cart2pos); also for g.inv()"""
    d = crys.dim; fails = []
    worst = 0.0
    for g in crys.G:
        gi = g.inv()
        for ind in crys.atomindices:
            R = np.array([(3 * ind[1] + 2 * k + ind[0]) % 5 - 2 for k in range(d)], dtype=int)
            x = crys.pos2cart(R, ind)
            gR, gind = crys.g_pos(g, R, ind)
            xp = crys.pos2cart(gR, gind); xc = crys.g_cart(g, x)
            xv = crys.unit2cart(*crys.g_vect(g, R, crys.basis[ind[0]][ind[1]]))
            e = max(float(np.abs(xp - xc).max()), float(np.abs(xp - xv).max()), float(np.abs(crys.g_cart(gi, xc) - x).max()))
            worst = max(worst, e)
            if e > FTOL * 10 and len(fails) < 3:
                fails.append("g_cart / g_pos / g_vect disagree by %.3g for rot %s trans %s atom %s" % (e, g.rot.tolist(), np.round(g.trans, 6).tolist(), ind))
            if gind[1] != g.indexmap[ind[0]][ind[1]] or crys.cart2pos(xc)[1] != gind:
                if len(fails) < 3: fails.append("image of atom %s under rot %s is not the atom recorded in indexmap" % (ind, g.rot.tolist()))
            stats["allops-evals"] += 1
    stats["maxerr"] = max(stats["maxerr"], worst)
    return fails


def exact_terms(ck, rng, crys, view, ops, stats):
    """one Coq line: the implementation's integer outputs vs the model on the same exact inputs"""
    from onsager import crystalStars, cluster
    d = crys.dim
    picks = [rng.choice(ops) for _ in range(3)]
    prods = []
    for _ in range(2):
        a, b = rng.choice(ops), rng.choice(ops)
        ab = a["g"] * b["g"]
        prods.append((a, b, ab))
    ugrid = [Fr(k, 24) for k in range(24)] + [Fr(37, 100), Fr(1, 7), Fr(5, 9)]
    us = [[rng.choice(ugrid) for _ in range(d)] for _ in range(3)]
    D = latt.lcm(latt.common_den(view, ops), latt.lcmden([x for u in us for x in u]))
    B = [[numer(u, D) for u in ul] for ul in view.basis]
    opq = lambda o: latt.coq_op(o, D)
    T = {k: [] for k in NAMES}
    for o in picks:
        g = o["g"]
        for _ in range(2):
            R = rvec(rng, d); c = rng.randrange(crys.Nchem); i = rng.randrange(len(crys.basis[c]))
            R2, (c2, i2) = crys.g_pos(g, R, (c, i))
            if c2 != c: raise RuntimeError("g_pos changed the species")
            T["g_pos"].append("(%s, %s, %s, %s, %s, %s)" % (opq(o), zl(R), coq_nat(c), coq_nat(i), zl(R2), coq_nat(i2)))
            cs2 = cluster.ClusterSite(ci=(c, i), R=R).g(crys, g)
            T["ClusterSite.g"].append("(%s, %s, %s, %s, %s, %s, %s)" % (opq(o), coq_nat(c), coq_nat(i), zl(R), coq_nat(cs2.ci[0]), coq_nat(cs2.ci[1]), zl(cs2.R)))
            # pair state
            n = len(crys.basis[c]); j = rng.randrange(n)
            ps = crystalStars.PairState.fromcrys_latt(crys, c, (i, j), R)
            ps2 = ps.g(crys, c, g)
            T["PairState.g"].append("(%s, %s, %s, %s, %s, %s, %s, %s)" % (coq_nat(c), opq(o), coq_nat(i), coq_nat(j), zl(R), coq_nat(ps2.i), coq_nat(ps2.j), zl(ps2.R)))
        for u in us[:2]:
            R = rvec(rng, d)
            R2, u2 = crys.g_vect(g, R, np.array([float(x) for x in u]))
            u2q = [latt.rat(x, 10 ** 5, 1e-9) for x in u2]
            try:
                T["g_vect"].append("(%s, %s, %s, %s, %s)" % (opq(o), zl(R), zl(numer(u, D)), zl(R2), zl(numer(u2q, D))))
            except latt.Irrational:
                T["g_vect"].append(None)
    for a, b, ab in prods:
        R = rvec(rng, d); c = rng.randrange(crys.Nchem); i = rng.randrange(len(crys.basis[c]))
        R2, (c2, i2) = crys.g_pos(ab, R, (c, i))
        T["g_pos(g1*g2)"].append("(%s, %s, %s, %s, %s, %s, %s)" % (opq(a), opq(b), zl(R), coq_nat(c), coq_nat(i), zl(R2), coq_nat(i2)))
    for u in us:
        R = rvec(rng, d)
        uf = np.array([float(x) for x in u])
        R2, u2 = crys.cart2unit(crys.unit2cart(R, uf))
        p = [D * int(r) + n for r, n in zip(R, numer(u, D))]
        try:
            T["cart2unit"].append("(%s, %s, %s)" % (zl(p), zl(R2), zl(numer([latt.rat(x, 10 ** 5, 1e-9) for x in u2], D))))
        except latt.Irrational:
            T["cart2unit"].append(None)
        R3, ci3 = crys.cart2pos(crys.unit2cart(R, uf))
        T["cart2pos"].append("(%s, %s, %s)" % (zl(p), zl(R3), "None" if ci3 is None else "Some (%s, %s)" % (coq_nat(ci3[0]), coq_nat(ci3[1]))))
    for _ in range(2):
        R = rvec(rng, d); c = rng.randrange(crys.Nchem); i = rng.randrange(len(crys.basis[c]))
        R3, ci3 = crys.cart2pos(crys.pos2cart(R, (c, i)))
        p = [D * int(r) + n for r, n in zip(R, B[c][i])]
        T["cart2pos"].append("(%s, %s, %s)" % (zl(p), zl(R3), "None" if ci3 is None else "Some (%s, %s)" % (coq_nat(ci3[0]), coq_nat(ci3[1]))))
    bad = [k for k in NAMES if any(t is None for t in T[k])]
    fn = {"g_pos": "chk_gpos", "g_pos(g1*g2)": "chk_gposmul", "g_vect": "chk_gvect", "cart2unit": "chk_c2u", "cart2pos": "chk_c2p",
          "PairState.g": "chk_ps", "ClusterSite.g": "chk_cs"}
    C = latt.coq_crystal(view, D)
    line = "Eval vm_compute in (let C := %s in %s)." % (
        C, coq_list(["tot (map (%s C) %s)" % (fn[k], coq_list([t for t in T[k] if t is not None])) for k in NAMES]))
    stats["exact-evals"] += sum(len(T[k]) for k in NAMES)
    return line, bad


def run(ck):
    ck.rule = ("named lattices + random crystals (all crystal systems, 2-D/3-D, 1-3 species, Wyckoff decorations) x random operations of "
               "crys.G and random products/inverses x random cells (|R_k| <= 3), atoms, rational general positions (exact tier) and "
               "uniform positions >= 1e-3 from cell boundaries (float tier), random pair states and cluster sites; distinct = distinct "
               "(crystal, sampled inputs); non-trivial = the crystal has more than one operation or more than one atom")
    ck.trusted += ["harness/latt.py, c23.py: rationalisation of the implementation's floats (verified, 1e-9) and printing of Coq literals",
                   "numpy for the float-side identities (tolerance 1e-10 x scale)"]
    ck.theorems()
    rng = ck.rng
    nr = ck.nprng(23)
    stats = {"crystals": 0, "float-evals": 0, "exact-evals": 0, "coq-lines": 0, "maxerr": 0.0, "skipped-irrational": 0}
    specs = list(latt.named_specs())
    if ck.quick:
        rng.shuffle(specs); specs = specs[:8]
    for k in range(ck.n(22, 400)):
        specs.append(latt.random_spec(rng, dim=(2 if k % 3 == 0 else 3), maxatoms=ck.n(8, 12), spin_mode="none"))
    # non-symmorphic crystals (2-D glide groups pg, pmg, pgg, p4g; Pnma-like; hcp; diamond; multi-chemistry screw/glide crystals) in their
    # own frame, in a rigidly rotated Cartesian frame (lattice matrix not symmetric) and in a sheared cell: every operation is checked
    ns = latt.glide_specs() + [x for x in latt.nonsymmorphic_specs() if x.label in ("ns-ortho-I", "ns-tet-I-reversed", "ns-rect-glide", "ns-ortho-C-4")]
    special = []
    for b in ns:
        special.append((b, {}))
        special.append((latt.rotate_frame(b, latt.random_rotation(rng, b.dim)), {}))
        if not ck.quick or rng.random() < 0.4:
            special.append((latt.rotate_frame(latt.skew(rng, b, 1)[0], latt.random_rotation(rng, b.dim), "+rot"), {"noreduce": True}))
    stats["allops-evals"] = 0; stats["nonsymmorphic-ops"] = 0
    for spec, kw in special:
        crys = latt.build(spec, **kw)
        stats["nonsymmorphic-ops"] += sum(1 for g in crys.G if not np.allclose(g.trans, 0))
        try:
            fails = all_ops_check(crys, stats)
        except Exception as e:
            fails = ["implementation raised %s: %s" % (type(e).__name__, e)]
        ck.case(key=(spec.describe(), "allops"), nontrivial=True, kind="%dD-allops-%s" % (crys.dim, "rotated" if "+rot" in spec.label else "aligned"),
                sample={"crystal": spec.label, "|G|": len(crys.G), "tier": "all operations"} if len(ck.samples) < 2 else None)
        if fails:
            ck.violation("g_cart / g_pos / g_vect / indexmap disagree: " + "; ".join(fails[:3]), {"spec": spec.describe(), "crystal": repr(crys), "failures": fails},
                         key="c23-float")
    lines = []
    for spec in specs:
        crys = latt.build(spec)
        replay = {"spec": spec.describe(), "crystal": repr(crys)}
        try:
            view = latt.exact_view(crys, spec)
            ops = latt.exact_ops(crys)
        except latt.Irrational as e:
            stats["skipped-irrational"] += 1; continue
        stats["crystals"] += 1
        nontriv = len(ops) > 1 or crys.N > 1
        try:
            fails = float_checks(ck, rng, nr, crys, ops, replay, stats)
        except Exception as e:
            fails = ["implementation raised %s: %s" % (type(e).__name__, e)]
        ck.case(key=(spec.describe(), "float", stats["float-evals"]), nontrivial=nontriv, kind="%dD-float" % crys.dim,
                sample={"crystal": spec.label, "|G|": len(ops), "natoms": crys.N, "tier": "float"} if len(ck.samples) < 3 else None)
        if fails:
            ck.violation("conversion / action identities fail on the implementation: " + "; ".join(fails[:4]), dict(replay, failures=fails),
                         key="c23-float")
        for rep in range(ck.n(1, 2)):
            try:
                line, bad = exact_terms(ck, rng, crys, view, ops, stats)
            except latt.Irrational:
                stats["skipped-irrational"] += 1; continue
            if bad:
                ck.violation("implementation returned a unit-cell position that is not the exact rational image: " + ", ".join(bad), replay, key="c23-irrational-output")
            lines.append((line, replay))
            ck.case(key=(spec.describe(), "exact", line), nontrivial=nontriv, kind="%dD-exact" % crys.dim,
                    sample={"crystal": spec.label, "|G|": len(ops), "natoms": crys.N, "tier": "exact"} if len(ck.samples) < 6 else None)
    # evaluate in Coq
    for a in range(0, len(lines), 40):
        ch = lines[a:a + 40]
        try:
            out = ck.coq_cases("act%d" % a, "\n".join(l for l, _ in ch), PRE)
        except CoqFailure as e:
            ck.broken_proof = "correspondence Model/Action: %s" % e
            break
        res = latt.parse_Zlist(out)
        if len(res) != len(ch):
            ck.broken_proof = "correspondence Model/Action: could not parse the model output"; break
        for (line, replay), r in zip(ch, res):
            stats["coq-lines"] += 1
            wrong = [NAMES[k] for k, v in enumerate(r) if v != 0]
            if wrong:
                ck.violation("implementation differs from the Coq model (exact integers): " + ", ".join(wrong), dict(replay, mismatches=dict(zip(NAMES, r))),
                             key="c23-exact-" + wrong[0].split("(")[0].replace(".", "-"))
    ck.extra["stats"] = stats
    ck.extra["skipped"] = {"irrational-view": stats["skipped-irrational"]}
    ck.extra["traces_validated_against_impl"] = stats["exact-evals"]
    ck.note("crystals=%d float-evals=%d exact-evals=%d coq-lines=%d max float err=%.2g" % (
        stats["crystals"], stats["float-evals"], stats["exact-evals"], stats["coq-lines"], stats["maxerr"]))
