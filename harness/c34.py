"""C34  Kinetic barriers obey detailed balance.

Proof: Proofs/JumpEval_proofs.v about Model/JumpEval.v, the semantic model of
ClusterSupercell.clusterevaluator / jumpnetworkevaluator / jumpnetworkevaluator_vacancy as read out by
MonteCarloSampler.E / transitions: for every supercell translation structure, cluster expansion, values,
KRA, TS clusters and occupation, the local +-1/2 bookkeeping gives
Q(forward) - Q(reverse from the final configuration) = E(final) - E(initial).
Tie: (a) the model, evaluated inside Coq on the implementation's raw geometry (invsuper, translist, cluster
sites, half values, jumps), must reproduce the implementation's E() and every transitions() barrier exactly
(integer data) on exhaustive / random occupations; (b) direct evaluation of detailed balance on the
implementation: every reported transition has exactly one reverse transition from the final configuration
with opposite displacement and barrier difference = energy difference (exact for integer data, 1e-9 for
float data); with a vacancy the final configuration lives in the sampler whose vacancy sits at the final site."""
META = dict(
    level="proof",
    text=("Theorems (all translation structures obeying the three laws of Supercell.index, all clusters/values/KRA/TS clusters, all "
          "occupations): Q_f - Q_r = E(final) - E(initial) for the jump evaluator without vacancy (KRA + TS clusters, full) and with "
          "a vacancy (KRA: full; with TS clusters: under the premise that the TS expansion is symmetric under reversal -- partial), "
          "given that no cluster is wrapped onto itself by the supercell (decidable; decided inside Coq for every system used; the "
          "finite check implies the condition for all translations). Tie: the Gallina model "
          "reproduces the implementation's energies and barriers exactly on the implementation's raw geometry; detailed balance, "
          "reverse transition and opposite displacement are evaluated on the implementation exhaustively on small supercells."),
    note=("Partial: with a vacancy AND TS clusters the equality of the forward and reverse TS terms is a premise "
          "(C34_detailed_balance_vacancy_partial); makeTSclusters builds both directions with one value, the derivation from that "
          "closure is not formalised; the model correspondence and the exhaustive evaluation cover that case on the implementation. "
          "Domain: supercells on which every cluster (incl. TS clusters with their end points, vacancy clusters with the vacancy) "
          "occupies distinct sites; on supercells that wrap a cluster onto itself the implementation does violate detailed balance "
          "(counted as out-of-domain, see design note). Trusted: lattice displacement dR of a jump taken from the implementation's "
          "cart2pos; the three translation laws of Supercell.index (checked on all vectors used); that the reverse jump is in the "
          "network (C21) -- its presence and displacement are checked on the implementation. Float rounding not modelled."),
    technique="Coq proof (finite-sum reindexing over translation classes + per-instance case analysis) + in-Coq model evaluation",
)

import numpy as np
from onsager import supercell
from . import mcsys
from .lib import CoqFailure

FTOL = 1e-9


# ---------------------------------------------------------------------------------------------
# raw geometry -> Coq terms
def vterm(R):
    return "(%s,%s,%s)" % tuple(mcsys.zz(int(x)) for x in R)


def cs_term(S, site):
    sup = S.sup
    if site.ci in sup.indexmobile:
        return "(mkCS true (N %d) %s)" % (sup.indexmobile[site.ci], vterm(site.R))
    return "(mkCS false (N %d) %s)" % (sup.indexspectator[site.ci], vterm(site.R))


def half(v, what):
    h = mcsys.intval(v, what)
    if h % 2: raise AssertionError("%s %r is not even" % (what, v))
    return h // 2


def geom_term(S, sup=None):
    sup = sup if sup is not None else S.sup
    return "(mkGeom [%s] %d [%s] [%s] (N %d) (N %d) %s)" % (
        ";".join(mcsys.zl(r) for r in sup.invsuper), sup.size, ";".join(vterm(t) for t in sup.translist),
        ";".join(vterm(R) for R in sup.Rveclist), sup.Nmobile, sup.Nspec, mcsys.zl(S.socc))


def jump_instances(S, sup, MC):
    """the (spec, Ri) of every entry of MC.jumps, in the order the evaluator creates them"""
    crys, chem = S.crys, S.chem
    KRA = S.KRA
    out = []
    zero = np.zeros(3, dtype=int)
    if sup.vacancy is not None:
        ci_vac, R_vac = sup.ciR(sup.vacancy)
    for jn, kra in zip(S.jumpnetwork, KRA):
        for (i0, j0), dx in jn:
            if sup.vacancy is not None and (chem, i0) != ci_vac: continue
            dR, cj = crys.cart2pos(crys.pos2cart(zero, (chem, i0)) + dx)
            for Ri in ([R_vac] if sup.vacancy is not None else sup.Rveclist):
                out.append((sup.indexmobile[(chem, i0)], sup.indexmobile[(chem, j0)], dR, mcsys.intval(kra, "KRA"), Ri))
    if len(out) != len(MC.jumps): raise RuntimeError("harness: jump enumeration differs from the evaluator's")
    terms = []
    for (c0, c1, dR, kra, Ri), ((i, j), dx) in zip(out, MC.jumps):
        terms.append("(mkJI (mkJS (K:=Zring) (N %d) (N %d) %s %s) %s (N %d) (N %d))" % (c0, c1, vterm(dR), mcsys.zz(kra), vterm(Ri), i, j))
    return terms


def sys_term(S, sup=None, MC=None):
    sup = sup if sup is not None else S.sup
    MC = MC if MC is not None else S.MC
    ncl = len(S.clusterexp)
    c0 = sup.size * mcsys.intval(S.values[-1], "constant") if len(S.values) > ncl else 0
    CE, VCE = [], []
    for clist, v in zip(S.clusterexp, S.values):
        hv = half(v, "cluster value")
        for cl in clist:
            if cl.__vacancy__:
                VCE.append("(mkVC (K:=Zring) (N %d) [%s] %s)" % (sup.indexmobile[cl.vacancy().ci], ";".join(cs_term(S, s) for s in cl), mcsys.zz(hv)))
            else:
                CE.append("([%s],%s)" % (";".join(cs_term(S, s) for s in cl), mcsys.zz(hv)))
    TSL = []
    for clist, w in zip(S.TSclusters, S.TSvalues):
        for cl in clist:
            t0, t1 = cl.transitionstate()
            TSL.append("(mkTS (K:=Zring) %s %s [%s] %s)" % (cs_term(S, t0), cs_term(S, t1), ";".join(cs_term(S, s) for s in cl),
                                                           mcsys.zz(mcsys.intval(w, "TS value"))))
    if sup.vacancy is None:
        vac = "None"
    else:
        ci, R = sup.ciR(sup.vacancy)
        vac = "(Some (%s, N %d))" % (vterm(R), sup.indexmobile[ci])
    return "(mkSys %s [%s] [%s] [%s] %s [%s])" % (mcsys.zz(c0), ";".join(CE), ";".join(VCE), ";".join(TSL), vac,
                                                   ";".join(jump_instances(S, sup, MC)))


def occase_term(MC, occ):
    MC.start(occ.copy())
    ij, Q, dx = MC.transitions()
    rows, n = [], 0
    for (i, j) in ij:
        while MC.jumps[n][0] != (i, j): n += 1
        rows.append("(N %d,%s)" % (n, mcsys.zz(mcsys.intval(Q[len(rows)], "barrier"))))
        n += 1
    return "(%s,%s,[%s])" % (mcsys.zl(occ), mcsys.zz(mcsys.intval(MC.E(), "E()")), ";".join(rows))


PRELUDE = """From Coq Require Import List ZArith.
From Onsager Require Import Base.OrdRing Base.Instances Model.JumpEval Model.JumpEvalCheck.
Import ListNotations.
Local Open Scope Z_scope.
Definition N := Z.to_nat.
"""


def run_model(ck, name, items):
    """items: list of (geom term, sys term, [occase terms]) -> list of (in_domain, code)"""
    import re
    res = []
    groups, group, size = [], [], 0
    for it in items:
        sz = len(it[0]) + len(it[1]) + sum(len(c) for c in it[2])
        if group and size + sz > 900000:
            groups.append(group); group, size = [], 0
        group.append(it); size += sz
    if group: groups.append(group)
    for gi, group in enumerate(groups):
        body = []
        for k, (g, s, cases) in enumerate(group):
            body.append("Definition g%d := %s." % (k, g))
            body.append("Definition s%d := %s." % (k, s))
            body.append("Definition c%d : list occase := [%s]." % (k, ";\n".join(cases)))
        body.append("Eval vm_compute in [%s]." % "; ".join("check_system g%d s%d c%d" % (k, k, k) for k in range(len(group))))
        out = ck.coq_cases("%s_%d" % (name, gi), "\n".join(body), PRELUDE)
        got = re.findall(r"\(\s*(true|false),\s*(\d+)(?:%nat)?\s*\)", out[out.index("="):] if "=" in out else "")
        if len(got) != len(group):
            raise CoqFailure("could not parse model output: " + out[-400:])
        res += [(b == "true", int(c)) for b, c in got]
    return res


# ---------------------------------------------------------------------------------------------
# direct evaluation of detailed balance on the implementation
class Violation(Exception):
    def __init__(self, what, key, detail):
        Exception.__init__(self, what)
        self.what, self.key, self.detail = what, key, detail


def close(a, b, exact, scale):
    return (a == b) if exact else (abs(a - b) <= FTOL * scale)


def db_novac(ck, S, occs, exact, kind):
    MC = S.MC
    scale = float(np.abs(MC.interactvalue).sum()) + 1.0
    n = 0
    for occ in occs:
        MC.start(occ.copy())
        ij, Q, dx = MC.transitions()
        E0 = MC.E()
        for (i, j), q, d in zip(list(ij), np.array(Q), np.array(dx)):
            if occ[i] != 1 or occ[j] != 0:
                raise Violation("transition (%d,%d) reported although occ[%d]=%d, occ[%d]=%d" % (i, j, i, occ[i], j, occ[j]), "c34-not-allowed",
                                dict(occ=occ.tolist(), transition=[int(i), int(j)]))
            MC.update((j,), (i,))
            E1 = MC.E()
            ij2, Q2, dx2 = MC.transitions()
            found = [m for m, ((a, b), dd) in enumerate(zip(ij2, dx2)) if (a, b) == (j, i) and np.allclose(dd, -d, atol=1e-8)]
            MC.update((i,), (j,))
            if len(found) != 1:
                raise Violation("transition (%d,%d) dx=%s has %d reverse transitions with opposite displacement from the final configuration"
                                % (i, j, np.round(d, 6).tolist(), len(found)), "c34-no-reverse", dict(occ=occ.tolist(), transition=[int(i), int(j)], dx=d.tolist()))
            if not close(q - Q2[found[0]], E1 - E0, exact, scale):
                raise Violation("Q_forward - Q_reverse = %r - %r but E_final - E_initial = %r for transition (%d,%d) at occ %s"
                                % (q, Q2[found[0]], E1 - E0, i, j, occ.tolist()), "c34-detailed-balance",
                                dict(occ=occ.tolist(), transition=[int(i), int(j)], dx=d.tolist(), Qf=float(q), Qr=float(Q2[found[0]]), dE=float(E1 - E0)))
            ck.case(key=(S.label, occ.tolist(), int(i), int(j), np.round(d, 6).tolist()), nontrivial=bool(E1 != E0 or q != 0), kind=kind)
            n += 1
    return n


def db_vac(ck, S, occs, exact, kind):
    """final configuration = the sampler whose vacancy sits at j, occupation with i and j exchanged"""
    MC = S.MC
    scale = float(np.abs(MC.interactvalue).sum()) + 1.0
    cache = {}
    n = 0
    for occ in occs:
        MC.start(occ.copy())
        ij, Q, dx = MC.transitions()
        E0 = MC.E()
        if len(ij) != len(MC.jumps):
            raise Violation("a vacancy jump is missing from transitions()", "c34-not-allowed", dict(occ=occ.tolist()))
        for (i, j), q, d in zip(list(ij), np.array(Q), np.array(dx)):
            if i != S.vacancy: raise Violation("transition (%d,%d) does not start at the vacancy %d" % (i, j, S.vacancy), "c34-not-allowed", dict(occ=occ.tolist()))
            if j not in cache:
                sup2 = supercell.ClusterSupercell(S.crys, S.superlatt, spectator=S.spect)
                sup2.addvacancy(j)
                cache[j] = (sup2, mcsys.sampler(S, sup2))
            MC2 = cache[j][1]
            occ2 = occ.copy(); occ2[i], occ2[j] = occ[j], occ[i]
            MC2.start(occ2.copy())
            E2 = MC2.E()
            found = [Q2 for (a, b), Q2, dd in zip(*MC2.transitions()) if (a, b) == (j, i) and np.allclose(dd, -d, atol=1e-8)]
            if len(found) != 1:
                raise Violation("vacancy transition (%d,%d) dx=%s has %d reverse transitions with opposite displacement from the final configuration"
                                % (i, j, np.round(d, 6).tolist(), len(found)), "c34-no-reverse", dict(occ=occ.tolist(), transition=[int(i), int(j)], dx=d.tolist()))
            if not close(q - found[0], E2 - E0, exact, scale):
                raise Violation("vacancy: Q_forward - Q_reverse = %r - %r but E_final - E_initial = %r for transition (%d,%d) at occ %s"
                                % (q, found[0], E2 - E0, i, j, occ.tolist()), "c34-detailed-balance",
                                dict(occ=occ.tolist(), transition=[int(i), int(j)], dx=d.tolist(), Qf=float(q), Qr=float(found[0]), dE=float(E2 - E0)))
            ck.case(key=(S.label, occ.tolist(), int(i), int(j), np.round(d, 6).tolist()), nontrivial=True, kind=kind)
            n += 1
    return n, cache


def sysinfo(S):
    return dict(system=S.label, crystal=repr(S.crys), superlatt=S.superlatt.tolist(), cutoff=S.cutoff, order=S.order,
                vacancy=S.vacancy, jump_cutoff=S.jcut, values=np.asarray(S.values).tolist(), KRA=np.asarray(S.KRA).tolist(),
                TSvalues=np.asarray(S.TSvalues).tolist(), spectator_occ=S.socc.tolist())


def occupations(ck, rng, S, nmax):
    nfree = S.Nsites - (S.vacancy >= 0)
    if 2 ** nfree <= nmax:
        return list(mcsys.all_occs(S)), True
    return [mcsys.random_occ(rng, S) for _ in range(nmax)], False


def run(ck):
    ck.rule = ("systems: crystal pool (chain, ladder, sc, fcc, bcc, hcp, 2-site chain, B2/chain with spectators, two mobile species) x "
               "(+ always: two-site chain, hcp, diamond, two-site cubic cell, whose jumps connect different basis sites; three-site chain and FCC/HCP hosts with octahedral+tetrahedral interstitials, whose mobile sites form two Wyckoff sets, vacancy on each kind of site, bare vacancy clusters with distinct values) x superlattice (diagonal and non-diagonal) x cluster cutoff/order x {KRA only, KRA + TS clusters} x {no vacancy, vacancy}; "
               "integer values (even cluster values, integer KRA/TS) for the exact tiers, random floats for the float tier. "
               "Occupations: all 2^n when n <= 8 (quick) / 11 (thorough) free sites, else random at several fillings. Systems on which a "
               "cluster is wrapped onto itself (decided by the Coq checker inj_okb) are outside the domain: evaluated, counted, not judged. "
               "distinct = (system, occupation, transition); non-trivial = energy changes or barrier non-zero")
    ck.trusted += ["harness/c34.py, mcsys.py (cluster geometry printed from Cluster.sites, jump enumeration order, dR from Crystal.cart2pos)",
                   "the three laws of the supercell translation index (periodicity, representatives, range): C27/C28; checked on all vectors used",
                   "Model/JumpEval.v is a hand-written semantic model of the evaluators (validated against E()/transitions() on every run)"]
    ck.theorems()
    rng = ck.rng
    plan = [(name, setup, sup) for name in mcsys.CRYSTALS for setup in mcsys.SETUPS[name] for sup in mcsys.SUPERS[name]]
    rng.shuffle(plan)
    maxocc = ck.n(256, 2048)
    items, meta = [], []
    nforced = 0
    nsys, skipped = 0, {"wrapped-cluster(out of domain)": 0, "too-large": 0, "no-jumps": 0}
    budget = ck.n(12, 100)
    outdom_viol = 0
    # crystals with several mobile sites per cell whose jumps connect DIFFERENT basis indices (the initial- and final-site
    # halves of the barrier expansion then use different cluster lists): always part of the run, every variant
    multi = [("chain2", (0.65, 2, 0.65), (4, 1, 1)), ("chain2", (1.1, 3, 0.65), (5, 1, 1)), ("hcp", (1.01, 2, 1.01), (2, 2, 2)),
             ("diamond", (0.45, 2, 0.45), (2, 2, 2)), ("diamond", (0.72, 3, 0.45), [[-1, 1, 1], [1, -1, 1], [1, 1, -1]]),
             ("cub2", (0.8, 2, 0.8), (2, 2, 2)), ("cub2", (1.01, 3, 0.8), (2, 2, 2)), ("hcp", (1.01, 3, 1.01), (2, 2, 1))]
    if not ck.quick:
        multi += [("hcp", (1.01, 2, 1.01), (3, 3, 1)), ("hcp", (1.01, 3, 1.01), (2, 2, 2)), ("diamond", (0.72, 3, 0.45), (2, 2, 2)),
                  ("cub2", (1.01, 3, 0.8), (3, 2, 2)), ("chain2", (1.1, 3, 0.65), (8, 1, 1)), ("diamond", (0.45, 2, 0.45), (3, 2, 2))]
    jobs = []
    for k, (name, setup, sup) in enumerate(multi):
        jobs.append((name, setup, sup, False, True, True))
        jobs.append((name, setup, sup, True, True, True))
        jobs.append((name, setup, sup, bool(k % 2), False, True))
    jobs = [j + (None,) for j in jobs]
    # mobile sites in two or more Wyckoff sets connected by the jump network, vacancy on every kind of site: the bare
    # (vacancy site only) vacancy clusters then have different values at the two ends of a jump and enter the barrier
    wyck = [("chain3", (0.45, 2, 0.35), (4, 1, 1), (0, 1, 2)), ("chain3", (0.75, 3, 0.45), (5, 1, 1), (1, 2)),
            ("fccot", (0.45, 2, 0.45), [[-1, 1, 1], [1, -1, 1], [1, 1, -1]], (0, 1)), ("fccot", (0.45, 2, 0.45), (2, 2, 2), (2, 0)),
            ("hcpot", (0.62, 2, 0.62), (2, 2, 1), (0, 3))]
    if not ck.quick:
        wyck += [("fccot", (0.51, 3, 0.45), (2, 2, 2), (0, 1, 2)), ("hcpot", (0.62, 2, 0.62), (2, 2, 2), (1, 2, 5)),
                 ("chain3", (0.75, 3, 0.45), (4, 1, 1), (0, 1, 2)), ("fccot", (0.51, 3, 0.45), [[-1, 1, 1], [1, -1, 1], [1, 1, -1]], (0, 2))]
    for k, (name, setup, sup, vis) in enumerate(wyck):
        for n, vi in enumerate(vis):
            jobs.append((name, setup, sup, True, (n + k) % 2 == 0, True, vi))
        jobs.append((name, setup, sup, False, True, True, None))
    for name, setup, sup in plan:
        jobs.append((name, setup, sup, rng.random() < 0.5, rng.random() < 0.6, False, None))
    for name, setup, sup, vac, ts, forced, vi in jobs:
        if not forced and nsys >= budget: break
        S = mcsys.build(rng, name, setup, sup, vacancy=vac, jumps=True, ts=ts, vac_index=vi)
        if S is None: skipped["no-jumps"] += 1; continue
        if len(S.MC.interactvalue) > (ck.n(5000, 9000) if forced else ck.n(2500, 7000)): skipped["too-large"] += 1; continue
        if forced: nforced += 1
        else: nsys += 1
        nint = len(S.MC.interactvalue)
        occs, exh = occupations(ck, rng, S, maxocc if nint < 1200 else (ck.n(24, 200) if nint < 3000 else ck.n(8, 48)))
        kind = "%s:%s%s%s" % ("exhaustive" if exh else "random", "vac" if vac else "novac", "+ts" if len(S.TSclusters) else "",
                              "+multisite" if S.sup.Nmobile > 1 else "")
        viol, cache = None, {}
        try:
            if vac: _, cache = db_vac(ck, S, occs, True, kind)
            else: db_novac(ck, S, occs, True, kind)
        except Violation as v:
            viol = v
        # the model on the same system (and, with a vacancy, on one final-site sampler too)
        mocc = occs if len(occs) <= ck.n(64, 256) else rng.sample(occs, ck.n(64, 256))
        try:
            its = [(geom_term(S), sys_term(S), [occase_term(S.MC, o) for o in mocc])]
            if vac and cache:
                j = sorted(cache)[0]
                sup2, MC2 = cache[j]
                occ2s = []
                for o in mocc[:ck.n(16, 64)]:
                    o2 = o.copy(); o2[S.vacancy], o2[j] = o[j], o[S.vacancy]
                    occ2s.append(o2)
                its.append((geom_term(S, sup2), sys_term(S, sup2, MC2), [occase_term(MC2, o) for o in occ2s]))
        except AssertionError as e:
            # integer KRA/TS values and even cluster values must give integer energies and barriers
            ck.violation("the implementation reports a value that cannot come from the given integer data: %s [%s]" % (e, S.label),
                         dict(sysinfo(S)), key="c34-model-correspondence")
            its = []
        for it in its:
            items.append(it); meta.append((S, viol, len(it[2]), exh))
    try:
        res = run_model(ck, "model", items)
    except CoqFailure as e:
        ck.broken_proof = "correspondence Model/JumpEval: %s" % e
        res = []
    seen = set()
    nmodel = 0
    for (S, viol, ncase, exh), (indom, code) in zip(meta, res):
        nmodel += ncase
        ck.case(key=("model", S.label, ncase), nontrivial=True, kind="model:" + ("in-domain" if indom else "wrapped") + ("+multisite" if S.sup.Nmobile > 1 else ""))
        if code != 0:
            what = {1: "geometry sanity (translation representatives / site indices of the jumps) fails", 2: "E() differs from the model",
                    3: "a transitions() barrier differs from the model", 4: "unknown jump"}.get(code, str(code))
            ck.violation("model and implementation disagree: %s [%s]" % (what, S.label), dict(sysinfo(S), code=code), key="c34-model-correspondence")
        if S.label in seen: continue
        seen.add(S.label)
        if viol is not None:
            if indom:
                ck.violation("%s [%s]" % (viol.what, S.label), dict(sysinfo(S), **viol.detail), key=viol.key)
            else:
                skipped["wrapped-cluster(out of domain)"] += 1
                outdom_viol += 1
                ck.note("outside the domain (a cluster is wrapped onto itself by the supercell): %s [%s]" % (viol.what[:160], S.label))
        elif not indom:
            skipped["wrapped-cluster(out of domain)"] += 1
    # ---- float tier (direct evaluation only) ------------------------------------------------------
    nfl = 0
    for name, setup, sup in plan[::-1]:
        if nfl >= ck.n(6, 30): break
        # stay inside the domain: every supercell dimension well above the cluster extent
        if name in ("hcp", "diamond", "cub2") and sup != (2, 2, 2): continue
        if name in ("chain", "chain2", "chainspec", "chain2chem") and (sup[0] if isinstance(sup, tuple) else 0) < 5: continue
        if name not in ("chain", "chain2", "chainspec", "chain2chem", "hcp", "diamond", "cub2") and not (isinstance(sup, tuple) and min(sup) >= 3): continue
        vac = nfl % 2 == 1
        S = mcsys.build(rng, name, setup, sup, vacancy=vac, jumps=True, ts=True, vals="float", kra="float")
        if S is None or len(S.MC.interactvalue) > ck.n(2500, 7000): continue
        occs, exh = occupations(ck, rng, S, ck.n(32, 128))
        try:
            if vac: db_vac(ck, S, occs, False, "float:vac")
            else: db_novac(ck, S, occs, False, "float:novac")
        except Violation as v:
            ck.violation("%s [%s] (float values)" % (v.what, S.label), dict(sysinfo(S), **v.detail), key=v.key)
        nfl += 1
    ck.extra["systems"] = nsys
    ck.extra["multisite_systems_always_run"] = nforced
    ck.extra["float_systems"] = nfl
    ck.extra["skipped"] = skipped
    ck.extra["out_of_domain_systems_violating"] = outdom_viol
    ck.extra["model_occupations_compared"] = nmodel
    ck.extra["traces_validated_against_impl"] = len(res)
    ck.extra["exhaustive"] = True
