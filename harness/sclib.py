"""Helpers shared by the supercell checks C27-C30: Coq literals for the Model/Supercell state,
small-output parsing, independent POSCAR parser, 3-D supercell generators."""
import re, itertools
import numpy as np
from .lib import CoqFailure


# ---- Coq literals (Z_scope is open in the cases files) -----------------------------------------
def z(n):
    n = int(n)
    return "(%d)" % n if n < 0 else "%d" % n


def zl(l):
    return "[" + ";".join(z(x) for x in l) + "]"


def zll(ll):
    return "[" + ";".join(zl(l) for l in ll) + "]"


def sc_lit(occ, chemorder):
    return "(mkSC %s %s)" % (zl(occ), zll(chemorder))


def parse_evals(out):
    """split coqc stdout into the texts of the successive `= ... : type` answers"""
    chunks = re.split(r"(?m)^\s*= ", "\n" + out)[1:]
    res = []
    for c in chunks:
        res.append(re.split(r"\n\s*: ", c)[0])
    return res


def nats_of(txt):
    return [int(x) for x in re.findall(r"\d+", txt.replace("%nat", ""))]


# ---- independent reading of a POSCAR text --------------------------------------------------------
def parse_poscar(text, sup):
    """-> (content, problems): content[c] = list of site indices of sup whose positions are listed for
    the c-th species, in file order (own parser, own nearest-site search)"""
    problems = []
    lines = text.split("\n")
    try:
        a0 = float(lines[1])
        latt = np.array([[float(x) for x in lines[2 + k].split()] for k in range(3)]).T * a0
        counts = [int(x) for x in lines[5].split()]
        if not lines[6].strip().lower().startswith("d"):
            problems.append("coordinate line is %r" % lines[6])
        npos = sum(counts)
        rows = [[float(x) for x in lines[7 + k].split()[:3]] for k in range(npos)]
    except Exception as e:  # malformed text written by the implementation
        return None, ["unparsable POSCAR: %r" % (e,)]
    if np.abs(latt - sup.lattice).max() > 1e-12 * max(1.0, np.abs(sup.lattice).max()):
        problems.append("lattice lines differ from the supercell lattice")
    rest = [l for l in lines[7 + npos:] if l.strip()]
    if rest:
        problems.append("trailing lines after the positions")
    content, k = [], 0
    for n in counts:
        cl = []
        for _ in range(n):
            d = sup.pos - np.array(rows[k]); k += 1
            d -= np.round(d)
            d2 = (d * d).sum(axis=1)
            i = int(np.argmin(d2))
            if d2[i] > 1e-20 or (np.sort(d2)[1] < 1e-12 if len(d2) > 1 else False):
                problems.append("position %r is not a unique site" % (rows[k - 1],))
            cl.append(i)
        content.append(cl)
    return content, problems


# ---- 3-D supercell matrices ------------------------------------------------------------------------
def random_superlatt(rng, maxdet=4):
    """random 3x3 integer matrix with 1 <= |det| <= maxdet (diagonal, sheared, or general small)"""
    for _ in range(200):
        kind = rng.random()
        if kind < 0.4:
            m = np.diag([rng.choice([1, 1, 2, 2, 3]) for _ in range(3)])
        elif kind < 0.7:
            m = np.diag([rng.choice([1, 2]) for _ in range(3)])
            i, j = rng.sample(range(3), 2)
            m[i, j] = rng.choice([-1, 1])
        else:
            m = np.array([[rng.choice([-1, 0, 0, 1, 1, 2]) for _ in range(3)] for _ in range(3)])
        d = int(round(abs(np.linalg.det(m))))
        if 1 <= d <= maxdet:
            return m.astype(int)
    return np.eye(3, dtype=int)


def g_list(sup):
    """the group of the supercell in a deterministic order"""
    return sorted(sup.G, key=lambda g: (g.indexmap[0], tuple(np.round(g.trans * 1e6).astype(int).tolist()),
                                        tuple(g.rot.flatten().tolist())))
