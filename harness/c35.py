"""C35  The compiled sampler (MonteCarloSampler_jit) behaves exactly like the reference sampler.

Proof: Proofs/SamplerJit_proofs.v -- refinement relation R between the Gallina transcriptions of the two
samplers (Model/Sampler.v, Model/SamplerJit.v); start establishes R, update preserves it, E / deltaE_trial /
transitions coincide under R, MCmoves is the fold of the Metropolis rule and refines the rule run on the
reference sampler.
Tie: (a) histories executed by the COMPILED implementation are replayed inside Coq by the compiled model
co-simulated with the reference model (Model/SamplerJitCheck.jcheck_trace: arrays, energies, transitions of the
implementation = compiled model; boolean R and equal observations between the two models after every call);
(b) direct evaluation: the compiled and the reference implementation run the same random / bounded-exhaustive
histories and must report the same energies, trial changes, transitions (forbidden = inf) and states; a batch of
MCmoves must equal move-by-move application and the Metropolis rule run on the reference sampler."""
META = dict(
    level="proof",
    text=("Theorems (every table, ring, occupation, move list): refinement relation R (same occ/clustercount, occupied_set[:Nocc] "
          "and unoccupied_set[:Nunocc] duplicate-free listings of the reference sets, index[] their inverse); start establishes R from "
          "any earlier state, update preserves R, E/deltaE_trial/transitions (forbidden = infinite, dropped) coincide, "
          "MCmoves(l1++l2) = MCmoves l2 after MCmoves l1, and MCmoves refines the Metropolis rule on the reference sampler. "
          "Tie: compiled-implementation histories replayed by both models inside Coq + direct compiled-vs-reference runs."),
    note=("Partial in one respect: numba compilation (machine integers, float64 arithmetic, jitclass semantics) is trusted, the "
          "model is the Python source of the jitclass. deltaE_trial equality needs every siteinteract row to list energy "
          "interactions first (rows_okb; decided on the real tables inside Coq on every run). MonteCarloSampler_param is "
          "covered by the correspondence (initial arrays are checked against R), not by a theorem. Energies are integers, "
          "thresholds quarter-integers (all scaled by 4 in Coq) so comparisons are exact; a float tier uses 1e-9 relative. "
          "The compiled class needs float64 energy values (integer arrays are rejected by numba's constructor): floats are passed."),
    technique="Coq proof (refinement between two state machines) + in-Coq co-simulated trace correspondence",
)

import numpy as np
from . import mcsys
from .lib import CoqFailure

SCALE = 4
FTOL = 1e-9


class Violation(Exception):
    def __init__(self, what, key, detail):
        Exception.__init__(self, what)
        self.what, self.key, self.detail = what, key, detail


def make_jit(MC):
    from onsager import cluster
    return cluster.MonteCarloSampler_jit(**cluster.MonteCarloSampler_param(MC))


def sysinfo(S):
    return dict(system=S.label, crystal=repr(S.crys), superlatt=S.superlatt.tolist(), cutoff=S.cutoff, order=S.order,
                vacancy=S.vacancy, jump_cutoff=S.jcut if S.jumpnetwork is not None else None,
                values=np.asarray(S.values).tolist(), KRA=np.asarray(S.KRA).tolist(), TSvalues=np.asarray(S.TSvalues).tolist(),
                spectator_occ=S.socc.tolist())


# ---------------------------------------------------------------------------------------------
def probe_np_inf(ck, rng):
    """the known defect: MonteCarloSampler_jit.transitions uses np.Inf (removed in numpy 2)"""
    S = mcsys.build(rng, "chain", (1.1, 2, 1.1), (4, 1, 1), jumps=True, ts=False)
    J = make_jit(S.MC)
    occ = np.array([1, 0, 1, 0])
    J.start(occ)
    try:
        J.transitions()
        return False
    except Exception as e:
        msg = "%s: %s" % (type(e).__name__, str(e).split("\n")[0][:200])
        key = "c35-np-inf" if "np.Inf" in str(e) or "Inf" in str(e) else "c35-exception"
        ck.violation("MonteCarloSampler_jit.transitions() raises %s" % msg,
                     dict(sysinfo(S), occ=occ.tolist(), call="MonteCarloSampler_jit(**MonteCarloSampler_param(MC)).start(occ); .transitions()",
                          numpy=np.__version__, proposed_patch="onsager/cluster.py MonteCarloSampler_jit.transitions: np.Inf -> np.inf"),
                     key=key)
        return True


def check_R(ref, J, exact=True):
    """the refinement relation on the two implementation objects; None or a description"""
    n = J.Nsites
    if not np.array_equal(np.asarray(ref.occ), J.occ): return "occ differs"
    if not np.array_equal(ref.clustercount, J.clustercount): return "clustercount differs"
    oc = [int(x) for x in J.occupied_set[:J.Nocc]]
    un = [int(x) for x in J.unoccupied_set[:J.Nunocc]]
    if len(set(oc)) != len(oc) or set(oc) != ref.occupied_set: return "occupied_set[:Nocc] is not a listing of the reference occupied_set"
    if len(set(un)) != len(un) or set(un) != ref.unoccupied_set: return "unoccupied_set[:Nunocc] is not a listing of the reference unoccupied_set"
    for k, x in enumerate(oc):
        if J.index[x] != k: return "index[%d] = %d but occupied_set[%d] = %d" % (x, J.index[x], k, x)
    for k, x in enumerate(un):
        if J.index[x] != k: return "index[%d] = %d but unoccupied_set[%d] = %d" % (x, J.index[x], k, x)
    e1, e2 = ref.E(), J.E()
    if (not mcsys.eqf(e1, e2)) if exact else (abs(e1 - e2) > FTOL * (1 + abs(e1))): return "E: reference %r, compiled %r" % (e1, e2)
    return None


def cmp_transitions(ref, J, exact=True):
    ijl, Ql, dxl = ref.transitions()
    ija, Qa, dxa = J.transitions()
    if len(ija) != len(ref.jumps) or len(Qa) != len(ref.jumps): return "compiled transitions() does not list every jump"
    fin = [n for n in range(len(Qa)) if Qa[n] != np.inf]
    if [(int(ija[n][0]), int(ija[n][1])) for n in fin] != [(int(i), int(j)) for i, j in ijl]:
        return "allowed transitions differ: reference %s, compiled (finite barrier) %s" % (ijl[:8], [(int(ija[n][0]), int(ija[n][1])) for n in fin][:8])
    for n in range(len(Qa)):
        if (int(ija[n][0]), int(ija[n][1])) != tuple(ref.jumps[n][0]): return "compiled jump %d is %s, reference jump list has %s" % (n, ija[n], ref.jumps[n][0])
    Qf = np.array([Qa[n] for n in fin])
    if len(fin):
        if exact and not np.array_equal(Qf, Ql): return "barriers differ: reference %s compiled %s" % (Ql[:6], Qf[:6])
        if not exact and not np.allclose(Qf, Ql, rtol=FTOL, atol=FTOL): return "barriers differ: reference %s compiled %s" % (Ql[:6], Qf[:6])
        if not np.array_equal(np.array([dxa[n] for n in fin]), np.asarray(dxl)): return "displacements differ"
    return None


MUTABLE = ("occ", "clustercount", "dcluster", "occupied_set", "unoccupied_set", "index", "jump_Q")


def check_param_aliasing(ref):
    """no array the compiled sampler WRITES may share memory with any array held by the reference sampler"""
    from onsager import cluster
    param = cluster.MonteCarloSampler_param(ref)
    for k in MUTABLE:
        a = param.get(k)
        if not isinstance(a, np.ndarray): continue
        for name, b in vars(ref).items():
            if isinstance(b, np.ndarray) and a.size and b.size and np.shares_memory(a, b):
                return "MonteCarloSampler_param(...)['%s'] shares memory with the reference sampler's .%s" % (k, name)
    return None


def snap_ref(ref):
    return (np.array(ref.occ).copy(), np.array(ref.clustercount).copy(), set(ref.occupied_set), set(ref.unoccupied_set), ref.E())


def snap_jit(J):
    return (np.array(J.occ).copy(), np.array(J.clustercount).copy(), int(J.Nocc), int(J.Nunocc),
            np.array(J.occupied_set[:J.Nocc]).copy(), np.array(J.unoccupied_set[:J.Nunocc]).copy(), np.array(J.index).copy(), J.E())


def same_snap(a, b):
    for x, y in zip(a, b):
        if isinstance(x, np.ndarray):
            if not np.array_equal(x, y): return False
        elif x != y: return False
    return True


def both(ref, J, fref, fjit, first, what, hist):
    """apply the same operation to both samplers in the given order; the one applied first must leave the other untouched"""
    if first == "ref":
        sj = snap_jit(J); fref()
        if not same_snap(sj, snap_jit(J)):
            raise Violation("%s on the reference sampler changed the observable state of the compiled sampler" % what, "c35-aliasing", dict(history=hist[-40:]))
        fjit()
    else:
        sr = snap_ref(ref); fjit()
        if not same_snap(sr, snap_ref(ref)):
            raise Violation("%s on the compiled sampler changed the observable state (occ / sets / clustercount / E) of the reference sampler it was built from"
                            % what, "c35-aliasing", dict(history=hist[-40:]))
        fref()


def jstate_term(J):
    return "(mkJ %s %s (N %d) (N %d) (NL %s) (NL %s) %s)" % (mcsys.zl(J.occ), mcsys.zl(J.clustercount), J.Nocc, J.Nunocc,
                                                            mcsys.zl(J.occupied_set), mcsys.zl(J.unoccupied_set), mcsys.zl(J.index))


def jobs_term(J):
    # E(): the exact (coded) energy of the interactions that are on, after checking that the float E() represents it
    ex = mcsys.exact_E(J, J.clustercount, SCALE)
    if not mcsys.consistent(J.E(), ex, SCALE):
        raise Violation("compiled E() = %r but the interactions that are switched on sum to %s" % (J.E(), "inf" if abs(ex) >= mcsys.INF_Z else ex / SCALE),
                        "c35-energy", dict(occ=np.asarray(J.occ).tolist()))
    return "(mkJobs (K:=Zring) %s %s (N %d) (N %d) (NL %s) (NL %s) %s %s)" % (
        mcsys.zl(J.occ), mcsys.zl(J.clustercount), J.Nocc, J.Nunocc, mcsys.zl(J.occupied_set[:J.Nocc]),
        mcsys.zl(J.unoccupied_set[:J.Nunocc]), mcsys.zl(J.index), mcsys.zz(ex))


def swap_exact(ref, i, j):
    """exact (coded, x SCALE) energy change of occupying i and unoccupying j, from the definition"""
    cc = np.array(ref.clustercount).copy()
    for m in ref.siteinteract[i][:ref.Ninteract[i]]: cc[m] -= 1
    for m in ref.siteinteract[j][:ref.Ninteract[j]]: cc[m] += 1
    return mcsys.exact_E(ref, cc, SCALE) - mcsys.exact_E(ref, ref.clustercount, SCALE)


def jtrans_term(J):
    ija, Qa, dxa = J.transitions()
    rows = []
    for n in range(len(Qa)):
        q = "None" if Qa[n] == np.inf else "(Some %s)" % mcsys.zz(mcsys.intval(SCALE * Qa[n], "barrier"))
        rows.append("(N %d,(N %d,N %d),%s)" % (n, ija[n][0], ija[n][1], q))
    return "(JTrans (K:=Zring) [%s])" % ";".join(rows)


def history(ck, rng, S, nops, trans_broken, exact=True, record=True, started=None, order="ref"):
    """drive the reference and the compiled implementation with the same history; compare; record Coq events.
    order: which sampler performs each state-changing call first ("ref", "jit", or "mixed" = drawn per call)"""
    ref = S.MC
    ev = []
    hist = []
    if started is not None:
        ref.start(started.copy())
    d = check_param_aliasing(ref)
    if d: raise Violation(d, "c35-aliasing", dict(history=hist, started=None if started is None else started.tolist()))
    J = make_jit(ref)

    def first():
        return order if order in ("ref", "jit") else rng.choice(("ref", "jit"))
    allocc = np.ones(S.Nsites, dtype=int)
    if S.vacancy >= 0: allocc[S.vacancy] = -1
    # (an un-started reference sampler: the constructor promises the all-occupied state)
    if record: ev.append("(JInit (K:=Zring) %s (Some %s))" % (jstate_term(J), mcsys.zl(allocc if started is None else started)))
    if started is not None:
        d = check_R(ref, J, exact)
        if d: raise Violation("MonteCarloSampler_param of a started sampler: " + d, "c35-state", dict(history=hist))
    else:
        ref.start(allocc.copy())
        d = check_R(ref, J, exact)
        if d: raise Violation("MonteCarloSampler_param of an un-started sampler is not the all-occupied state: " + d, "c35-state", dict(history=hist))
    ntrivial = 0
    probes = []          # trial moves asked before; asked again after every re-start / update for which they are still meaningful

    def trial_ij(i, j):
        hist.append(["trial", i, j])
        d1, d2 = ref.deltaE_trial((i,), (j,)), J.deltaE_trial(i, j)
        if (not mcsys.eqf(d1, d2)) if exact else (abs(d1 - d2) > FTOL * (1 + abs(d1))):
            raise Violation("deltaE_trial(%d,%d): reference %r, compiled %r" % (i, j, d1, d2), "c35-deltaE", dict(history=hist[-40:]))
        if record:
            if np.isfinite(d2):
                ev.append("(JTrial (K:=Zring) (N %d) (N %d) %s)" % (i, j, mcsys.zz(mcsys.intval(SCALE * d2, "deltaE"))))
            elif d2 == d2:        # +-inf: must be the sign of the exact change; the model gets the exact coded value
                d = swap_exact(ref, i, j)
                if not mcsys.consistent(d2, d, SCALE):
                    raise Violation("deltaE_trial(%d,%d) = %r but the energy from the definition changes by %s" % (i, j, d2, d / SCALE),
                                    "c35-deltaE", dict(history=hist[-40:]))
                ev.append("(JTrial (K:=Zring) (N %d) (N %d) %s)" % (i, j, mcsys.zz(d)))
            # (nan = inf - inf: an infinite interaction goes off while another comes on; nothing to tell the model)
        return d2

    def ask_probes():
        for (i, j) in probes:
            if J.occ[i] == 0 and J.occ[j] == 1: trial_ij(i, j)

    for k in range(nops):
        un = [int(x) for x in J.unoccupied_set[:J.Nunocc]]
        oc = [int(x) for x in J.occupied_set[:J.Nocc]]
        r = rng.random()
        try:
            if r < 0.12 or not un or not oc:
                ask_probes()
                for rep in range(rng.choice((1, 1, 2))):       # re-starts without any update in between
                    occ = mcsys.random_occ(rng, S)
                    hist.append(["start", occ.tolist()])
                    both(ref, J, lambda: ref.start(occ.copy()), lambda: J.start(occ), first(), "start()", hist)
                    if record: ev.append("(JStart (K:=Zring) %s %s)" % (mcsys.zl(occ), jobs_term(J)))
                    ask_probes()
                if not un or not oc:
                    if k > 3 and (S.Nsites - (S.vacancy >= 0)) < 2: break
            elif r < 0.30:
                i, j = rng.choice(un), rng.choice(oc)
                d2 = trial_ij(i, j)
                if (i, j) not in probes: probes.append((i, j))
                if len(probes) > 5: probes.pop(0)
                ntrivial += d2 != 0
            elif r < 0.60:
                i, j = rng.choice(un), rng.choice(oc)
                hist.append(["update", i, j])
                both(ref, J, lambda: ref.update((i,), (j,)), lambda: J.update(i, j), first(), "update(%d,%d)" % (i, j), hist)
                if record: ev.append("(JUpdate (K:=Zring) (N %d) (N %d) %s)" % (i, j, jobs_term(J)))
                ntrivial += 1
            elif r < 0.75 and ref.jumps is not None and not trans_broken:
                hist.append(["transitions"])
                d = cmp_transitions(ref, J, exact)
                if d: raise Violation("transitions(): " + d, "c35-transitions", dict(history=hist[-40:], occ=np.asarray(J.occ).tolist()))
                if record: ev.append(jtrans_term(J))
            else:
                nm = rng.randint(1, 12)
                occh = np.array([rng.randrange(J.Nunocc) for _ in range(nm)], dtype=np.int64)
                unch = np.array([rng.randrange(J.Nocc) for _ in range(nm)], dtype=np.int64)
                if exact:
                    kt = np.array([rng.randint(0, 40) / 4.0 for _ in range(nm)])
                else:
                    kt = np.array([rng.uniform(0, 3) for _ in range(nm)])
                hist.append(["MCmoves", occh.tolist(), unch.tolist(), kt.tolist()])
                Jb = J.copy()            # the batch
                ambiguous = False
                for n in range(nm):      # move by move: compiled single-move batches, and the rule on the reference sampler
                    i, j = int(J.unoccupied_set[occh[n]]), int(J.occupied_set[unch[n]])
                    if not exact and abs(J.deltaE_trial(i, j) - kt[n]) < 1e-7: ambiguous = True

                    def ref_move(i=i, j=j, n=n):
                        if ref.deltaE_trial((i,), (j,)) < kt[n]: ref.update((i,), (j,))
                    both(ref, J, ref_move, lambda n=n: J.MCmoves(occh[n:n + 1], unch[n:n + 1], kt[n:n + 1]), first(),
                         "MCmoves (one move: occupy %d, unoccupy %d)" % (i, j), hist)
                    if not ambiguous:
                        d = check_R(ref, J, exact)
                        if d: raise Violation("MCmoves move %d of %d vs the Metropolis rule on the reference sampler: %s" % (n, nm, d),
                                              "c35-mcmoves", dict(history=hist[-40:]))
                Jb.MCmoves(occh, unch, kt)
                for nmA, a, b in (("occ", Jb.occ, J.occ), ("clustercount", Jb.clustercount, J.clustercount), ("index", Jb.index, J.index),
                                  ("occupied_set", Jb.occupied_set[:Jb.Nocc], J.occupied_set[:J.Nocc]),
                                  ("unoccupied_set", Jb.unoccupied_set[:Jb.Nunocc], J.unoccupied_set[:J.Nunocc])):
                    if not np.array_equal(a, b):
                        raise Violation("a batch of %d MCmoves differs from move-by-move application in %s" % (nm, nmA), "c35-mcmoves",
                                        dict(history=hist[-40:]))
                if ambiguous:            # float tier only: a threshold within rounding of dE; resynchronise the reference
                    ref.start(np.array(J.occ).copy())
                if record and getattr(ref, "_verif_kind", "int") != "int":
                    # extended values: a nan trial change (inf - inf) rejects the move in the code but is a finite number in the exact
                    # arithmetic of the model; the batch is compared between the implementations only and the model is re-started
                    cur = np.array(J.occ).copy()
                    both(ref, J, lambda: ref.start(cur.copy()), lambda: J.start(cur), first(), "start()", hist)
                    ev.append("(JStart (K:=Zring) %s %s)" % (mcsys.zl(cur), jobs_term(J)))
                elif record:
                    ev.append("(JMC (K:=Zring) [%s] %s)" % (";".join("(N %d,N %d,%s)" % (occh[n], unch[n], mcsys.zz(mcsys.intval(SCALE * kt[n], "kTlogu")))
                                                                     for n in range(nm)), jobs_term(J)))
                ntrivial += 1
            d = check_R(ref, J, exact)
            if d: raise Violation("after %s: %s" % (hist[-1][0], d), "c35-state", dict(history=hist[-40:]))
        except Violation:
            raise
        except Exception as e:
            raise Violation("%s raised %s: %s" % (hist[-1][0] if hist else "constructor", type(e).__name__, str(e).split("\n")[0][:200]),
                            "c35-exception", dict(history=hist[-40:]))
    return ev, len(hist), ntrivial


def exhaustive(ck, rng, S, trans_broken):
    """every occupation x every (unoccupied, occupied) swap: trial, update, transitions, state; then swap back"""
    ref = S.MC
    ref.start(mcsys.random_occ(rng, S))          # the compiled sampler is built from a STARTED reference sampler
    d = check_param_aliasing(ref)
    if d: raise Violation(d, "c35-aliasing", {})
    J = make_jit(ref)
    n = 0
    for occ in mcsys.all_occs(S):
        both(ref, J, lambda: ref.start(occ.copy()), lambda: J.start(occ), "jit" if n % 2 else "ref", "start()", [occ.tolist()])
        d = check_R(ref, J)
        if d: raise Violation("after start(%s): %s" % (occ.tolist(), d), "c35-state", dict(occ=occ.tolist()))
        if ref.jumps is not None and not trans_broken:
            d = cmp_transitions(ref, J)
            if d: raise Violation("transitions() at %s: %s" % (occ.tolist(), d), "c35-transitions", dict(occ=occ.tolist()))
        un = [int(x) for x in J.unoccupied_set[:J.Nunocc]]
        oc = [int(x) for x in J.occupied_set[:J.Nocc]]
        for i in un:
            for j in oc:
                d1, d2 = ref.deltaE_trial((i,), (j,)), J.deltaE_trial(i, j)
                if not mcsys.eqf(d1, d2): raise Violation("deltaE_trial(%d,%d) at %s: reference %r, compiled %r" % (i, j, occ.tolist(), d1, d2),
                                             "c35-deltaE", dict(occ=occ.tolist(), i=i, j=j))
                both(ref, J, lambda: ref.update((i,), (j,)), lambda: J.update(i, j), "jit", "update(%d,%d)" % (i, j), [occ.tolist()])
                d = check_R(ref, J)
                if not d and ref.jumps is not None and not trans_broken: d = cmp_transitions(ref, J)
                if d: raise Violation("after update(%d,%d) from %s: %s" % (i, j, occ.tolist(), d), "c35-state", dict(occ=occ.tolist(), i=i, j=j))
                both(ref, J, lambda: ref.update((j,), (i,)), lambda: J.update(j, i), "ref", "update(%d,%d)" % (j, i), [occ.tolist()])
                d = check_R(ref, J)
                if d: raise Violation("after update(%d,%d);update(%d,%d) from %s: %s" % (i, j, j, i, occ.tolist(), d), "c35-state",
                                      dict(occ=occ.tolist(), i=i, j=j))
                ck.case(key=(S.label, occ.tolist(), i, j), nontrivial=True, kind="exhaustive:swap")
                n += 1
    return n


def run_traces(ck, name, items):
    codes = []
    groups, group, size = [], [], 0
    for S, ev in items:
        sz = sum(len(e) for e in ev)
        if group and size + sz > 1200000:
            groups.append(group); group, size = [], 0
        group.append((S, ev)); size += sz
    if group: groups.append(group)
    for gi, group in enumerate(groups):
        body = []
        for k, (S, ev) in enumerate(group):
            body.append("Definition sd%d := %s." % (k, mcsys.static_term(S.MC, scale=SCALE)))
            body.append("Definition ev%d : list (jevent Zring) := [%s]." % (k, ";\n".join(ev)))
        body.append("Eval vm_compute in [%s]." % "; ".join("jcheck_trace sd%d ev%d" % (k, k) for k in range(len(group))))
        out = ck.coq_cases("%s_%d" % (name, gi), "\n".join(body),
                           mcsys.PRELUDE.replace("Model.SamplerCheck.", "Model.SamplerCheck Model.SamplerJit Model.SamplerJitCheck."))
        got = mcsys.parse_nat_list(out)
        if got is None or len(got) != len(group):
            raise CoqFailure("could not parse model output: " + out[-300:])
        codes += got
    return codes


def run(ck):
    ck.rule = ("systems: crystal pool (chain, ladder, sc, fcc, bcc, hcp, 2-site chain, spectators, two mobile species) x superlattice x "
               "cluster cutoff/order x {plain, jump network + TS clusters, vacancy + jump network}; integer energies, quarter-integer "
               "Metropolis thresholds. Histories of start / deltaE_trial / update / transitions / MCmoves (1-12 moves) driven on the "
               "compiled and the reference implementation in three orders (reference first / compiled first / drawn per call; the sampler that moves "
               "first must leave the other's occ, sets, counts and E untouched), compiled sampler built from a started (3 of 4) or un-started reference "
               "sampler; bounded-exhaustive: all occupations x all swaps on supercells with <= 6 (quick) / 8 (thorough) free sites; "
               "a float-energy tier with 1e-9 tolerance. distinct = (system, history position / occupation, arguments)")
    ck.trusted += ["harness/c35.py, mcsys.py", "numba (jitclass compilation of MonteCarloSampler_jit)",
                   "Model/SamplerJit.v is a hand transcription of the jitclass source (validated by the trace correspondence on every run)"]
    ck.theorems()
    rng = ck.rng
    trans_broken = probe_np_inf(ck, rng)
    ck.extra["np_inf_defect_present"] = trans_broken
    if trans_broken:
        ck.note("transitions() of the compiled sampler is unusable (np.Inf); every other operation is still compared")
    combos = [(False, True, True), (True, True, True), (False, False, False), (False, True, False), (True, False, False)]
    plan = [(name, setup, sup) for name in mcsys.CRYSTALS for setup in mcsys.SETUPS[name] for sup in mcsys.SUPERS[name]]
    rng.shuffle(plan)

    def build(name, setup, sup, combo, vals="int"):
        vac, jn, ts = combo
        S = mcsys.build(rng, name, setup, sup, vacancy=vac, jumps=jn, ts=ts, vals=vals, kra=vals)
        if S is None: return None
        if S.values.dtype != float:
            S.values = S.values.astype(float); S.MC = mcsys.sampler(S)
        return S

    # ---- random histories, compiled vs reference, recorded for the model ---------------------------
    items = []
    nh, tries = ck.n(14, 60), 0
    nev_total = 0
    while len(items) < nh and tries < 6 * nh:
        tries += 1
        name, setup, sup = rng.choice(plan)
        S = build(name, setup, sup, combos[tries % len(combos)])
        if S is None or S.Nsites - (S.vacancy >= 0) < 2: continue
        nint = len(S.MC.interactvalue)
        if nint > ck.n(500, 900): continue
        nops = max(15, min(ck.n(120, 300), 30000 // (nint + 2 * S.Nsites + 20)))
        # compiled sampler built from a STARTED reference sampler in 3 of 4 histories; who moves first cycles
        started = mcsys.random_occ(rng, S) if len(items) % 4 != 3 else None
        order = ("jit", "ref", "mixed")[len(items) % 3]
        try:
            ev, nop, nt = history(ck, rng, S, nops, trans_broken, started=started, order=order)
        except Violation as v:
            ck.violation("%s [%s]" % (v.what, S.label), dict(sysinfo(S), **v.detail), key=v.key)
            continue
        items.append((S, ev))
        nev_total += len(ev)
        ck.case(key=("history", S.label, len(ev), hash(tuple(ev)) & 0xffffffff), nontrivial=nt > 0,
                kind="history:%s-first:%s" % (order, "started" if started is not None else "unstarted"),
                sample={"system": S.label, "events": len(ev), "first_events": [e[:200] for e in ev[:3]]} if len(ck.samples) < 3 else None)
    # ---- extended interaction values (+inf hard-core exclusion, 0): both samplers, and the model with +inf as a symbol ----------
    next_ = 0
    for name, setup, sup in [("chain", (2.1, 3, 1.1), (6, 1, 1)), ("fcc", (0.8, 3, 0.8), (2, 2, 2)), ("ladder", (1.6, 3, 1.2), (3, 2, 1)),
                             ("chain3", (0.75, 3, 0.45), (3, 1, 1))][:ck.n(3, 4)]:
        for vac in ((False,) if ck.quick else (False, True)):
            S = mcsys.build(rng, name, setup, sup, vacancy=vac, jumps=False, vals="ext")
            if S is None or S.Nsites - (S.vacancy >= 0) < 2: continue
            try:
                ev, nop, nt = history(ck, rng, S, ck.n(80, 250), trans_broken, started=mcsys.random_occ(rng, S),
                                      order=("jit", "ref", "mixed")[next_ % 3])
            except Violation as v:
                ck.violation("%s [%s] (extended values)" % (v.what, S.label), dict(sysinfo(S), **v.detail), key=v.key)
                continue
            next_ += 1
            items.append((S, ev)); nev_total += len(ev)
            ck.case(key=("ext-history", S.label, len(ev), hash(tuple(ev)) & 0xffffffff), nontrivial=nt > 0, kind="history:extended-values")
    ck.extra["extended_value_histories"] = next_
    # ---- bounded-exhaustive ------------------------------------------------------------------------
    nex, maxfree = 0, ck.n(6, 8)
    for name, setup, sup in plan:
        if nex >= ck.n(6, 24): break
        S = build(name, setup, sup, combos[nex % len(combos)])
        if S is None: continue
        nfree = S.Nsites - (S.vacancy >= 0)
        if nfree < 2 or nfree > maxfree or len(S.MC.interactvalue) > 3000: continue
        try:
            exhaustive(ck, rng, S, trans_broken)
        except Violation as v:
            ck.violation("%s [%s]" % (v.what, S.label), dict(sysinfo(S), **v.detail), key=v.key)
        nex += 1
    # ---- float energies ----------------------------------------------------------------------------
    nfl = 0
    for name, setup, sup in plan[::-1]:
        if nfl >= ck.n(4, 16): break
        S = build(name, setup, sup, combos[nfl % len(combos)], vals="float")
        if S is None or S.Nsites - (S.vacancy >= 0) < 2 or len(S.MC.interactvalue) > 3000: continue
        try:
            ev, nop, nt = history(ck, rng, S, ck.n(60, 200), trans_broken, exact=False, record=False,
                                  started=mcsys.random_occ(rng, S) if nfl % 2 else None, order=("mixed", "jit", "ref")[nfl % 3])
            ck.case(key=("float-history", S.label, nop), nontrivial=nt > 0, kind="float-history:%s" % S.name)
        except Violation as v:
            ck.violation("%s [%s] (float energies)" % (v.what, S.label), dict(sysinfo(S), **v.detail), key=v.key)
        nfl += 1
    ck.extra["exhaustive_systems"] = nex
    ck.extra["exhaustive"] = nex > 0
    ck.extra["float_histories"] = nfl
    # ---- the model, inside Coq ---------------------------------------------------------------------
    try:
        codes = run_traces(ck, "jtrace", items)
    except CoqFailure as e:
        ck.broken_proof = "correspondence Model/SamplerJitCheck.jcheck_trace: %s" % e
        codes = []
    for (S, ev), c in zip(items, codes):
        for k, e in enumerate(ev):
            ck.case(key=("event", S.label, k, e[:60]), nontrivial=not e.startswith("(JInit"), kind="event:" + e[1:e.index(" ")])
        if c != 0:
            what = ("a siteinteract row lists a jump interaction before an energy interaction (rows_okb fails)" if c == 4000 else
                    "compiled implementation, compiled model and reference model disagree at event %d: %s" % (c - 1, ev[c - 1][:300]))
            ck.violation("%s [%s]" % (what, S.label), dict(sysinfo(S), event_index=c - 1, events=ev[:c]), key="c35-model-correspondence")
    ck.extra["traces_validated_against_impl"] = len(codes)
    ck.extra["trace_events"] = nev_total
