"""C18  The crystal's symmetry group is a correct group of self-isometries.

Model: Model/Lattice.v -- crystals and space-group operations in lattice coordinates over Z with a
common denominator; `isSymOp` is the infinite statement (metric form preserved for all vectors,
integer inverse, every atom of EVERY cell onto the atom named by the index map, spins kept up to
one sign); `isSymOpb`/`is_groupb` are finite checkers with soundness theorems; GroupOp algebra
(__mul__, inv via argsort, ident) with mul_valid / inv_valid / inv_correct / act_mul.

Tie (every run): for every generated crystal the implementation's `crys.G` (rot, trans, indexmap),
basis, spins and the exact metric go through the Coq checkers (`first_bad`, `diagnose_group`), and
the implementation's `g1*g2`, `g.inv()` are compared with the model's op_mul / op_inv.
Direct evaluation on the implementation: same statements in exact Fractions (finds the failing
operation), cartrot orthogonal and = A S A^-1, g*g.inv() = identity, spins incl. vector spins."""
META = dict(
    level="proof",
    text=("Theorems (all crystals, all cells, all dimensions for the linear algebra; determinants d<=3): the finite "
          "operation checker is sound for the infinite statement (isometry of the metric form on all vectors, lattice "
          "onto itself, every atom of every cell onto the atom of the same species named by the index map, spins kept "
          "up to one sign) and the atom/unimodularity tests are complete; the group checker is sound (identity, closure, "
          "inverses modulo lattice translations); the GroupOp algebra as coded (product, argsort inverse, identity) maps "
          "valid operations to valid operations, the product acts as composition and the inverse as the inverse map. "
          "Tie: crys.G of every generated crystal (2-D/3-D, all crystal systems, 1-3 species, scalar/vector spins, "
          "strains, NOSYM, noreduce) is run through the Coq checkers with exact rational data; g1*g2 and g.inv() of the "
          "implementation are compared with the model inside Coq."),
    note=("Not proved: a model of the search loop of gengroup/maptranslation itself (the checker decides every returned "
          "group instead); completeness of G is not part of the property (an independent exact enumeration is reported "
          "in the evidence only). Vector spins and complex phases are evaluated in floats only (1e-8). Thresholded "
          "float comparisons of the implementation are exercised on separated inputs (exact rationals, denominators "
          "<= 5040). Trusted: harness rationalisation (verified against the floats at 1e-9), Coq kernel/vm_compute."),
    technique="Coq verified checker (soundness for all cells) + exact correspondence on the implementation's groups",
)

import itertools
import numpy as np
from fractions import Fraction as Fr
from . import latt
from .lib import CoqFailure, coq_list, coq_Z

FTOL = 1e-10
COQ_GROUP_MAX = 200

PRE = latt.IMPORTS + """
Definition op_same (d : nat) (a b : symop) : bool :=
  meqb d (rot a) (rot b) && veqb d (trn a) (trn b) && llnat_eqb (o_perm a) (o_perm b).
Definition b2z (b : bool) : Z := if b then 0 else 1.
(* crystal, operations, closure wanted?, triples (a, b, impl a*b), pairs (a, impl a.inv()) -> [first bad op; its diagnosis;
   group diagnosis; number of product mismatches; number of inverse mismatches] *)
Definition run (c : crystal * list symop * bool * list (symop * symop * symop) * list (symop * symop)) : list Z :=
  let '(C, ops, full, muls, invs) := c in
  let fb := first_bad C ops 0 in
  [Z.of_nat (fst fb); Z.of_nat (snd fb);
   (if full then Z.of_nat (diagnose_group C ops) else 0);
   fold_right Z.add 0 (map (fun t => let '(a, b, ab) := t in b2z (op_same (c_dim C) (op_mul (c_dim C) a b) ab)) muls);
   fold_right Z.add 0 (map (fun t => let '(a, ai) := t in b2z (op_same (c_dim C) (op_inv (c_dim C) a) ai)) invs)].
"""

OPDIAG = {1: "denominator", 2: "rot does not preserve the metric", 3: "rot is not unimodular", 4: "indexmap is not a permutation",
          5: "an atom is not mapped onto the atom recorded in indexmap", 6: "spins are not preserved (up to a sign)"}
GRDIAG = {1: "identity missing", 2: "not closed under the product", 3: "an inverse is missing",
          4: "two operations equal modulo lattice translations"}


def report(ck, stats, what, replay, key):
    """at most two replays per violation class; further ones are counted"""
    n = stats.setdefault("violations-by-key", {})
    n[key] = n.get(key, 0) + 1
    if n[key] <= 2: ck.violation(what, replay, key=key)


def impl_op_exact(g, dim):
    return {"rot": [[int(x) for x in r] for r in np.array(g.rot)], "trans": [latt.rat(x, 10 ** 6, 1e-9) for x in g.trans],
            "perm": [list(int(x) for x in p) for p in g.indexmap]}


def variants(ck, rng, spec):
    """construction modes for one spec: (name, kwargs, strain eps or None)"""
    out = [("sym", {}, None)]
    if rng.random() < 0.5: out.append(("NOSYM", {"NOSYM": True}, None))
    if rng.random() < 0.35: out.append(("noreduce", {"noreduce": True}, None))
    if not ck.quick and rng.random() < 0.1: out.append(("skew", {"noreduce": True}, None))
    if rng.random() < 0.4: out.append(("strain", {}, "eps"))
    return out


def random_strain(rng, spec):
    """small symmetric strain with dyadic entries; restricted so that the strained metric stays rational"""
    d = spec.dim
    vals = [Fr(0), Fr(1, 64), Fr(-1, 64), Fr(1, 32), Fr(-1, 32), Fr(3, 64)]
    eps = [[Fr(0)] * d for _ in range(d)]
    if spec.Aq is None:           # hexagonal: only strains keeping A^T (1+eps)^T (1+eps) A rational
        a = rng.choice(vals)
        for i in range(d - 1 if d == 3 else d): eps[i][i] = a
        if d == 3: eps[2][2] = rng.choice(vals)
    else:
        for i in range(d):
            for j in range(i, d):
                eps[i][j] = eps[j][i] = rng.choice(vals)
    if all(x == 0 for r in eps for x in r):
        if spec.Aq is None and d == 2: eps[0][0] = eps[1][1] = Fr(1, 32)
        else: eps[d - 1][d - 1] = Fr(1, 32)
    return eps


def strained_spec(spec, crys, view, eps):
    """exact spec of crys.strain(eps): lattice (1+eps) A_crys, same basis"""
    d = spec.dim
    I = [[Fr(int(i == j)) for j in range(d)] for i in range(d)]
    E1 = [[I[i][j] + eps[i][j] for j in range(d)] for i in range(d)]
    E = latt.fmat_mul(latt.fmat_T(E1), E1)
    if spec.Aq is not None:
        L = latt.fmat_mul(spec.Aq, view.U)
        g = latt.fmat_mul(latt.fmat_T(L), latt.fmat_mul(E, L))
        Aq = latt.fmat_mul(E1, L)
    else:
        # in-plane isotropic + axial strain of a hexagonal cell: the metric blocks scale
        g0 = spec.g
        sc = [[(E[0][0] if (i < 2 and j < 2) else E[d - 1][d - 1]) * g0[i][j] for j in range(d)] for i in range(d)] if d == 3 else \
             [[E[0][0] * g0[i][j] for j in range(d)] for i in range(d)]
        g = latt.fmat_mul(latt.fmat_T(view.U), latt.fmat_mul(sc, view.U))
        Aq = None
    epsf = np.array([[float(x) for x in r] for r in eps])
    A = np.dot(np.eye(d) + epsf, crys.lattice)
    s2 = latt.Spec(spec.label + "+strain", A, g, view.basis, None, Aq)
    return s2, epsf


def evaluate(ck, rng, spec, crys, mode, stats, coq_terms):
    """all checks for one constructed crystal; returns nothing, reports through ck"""
    d = crys.dim
    replay = {"spec": spec.describe(), "mode": mode, "crystal": repr(crys)}
    try:
        view = latt.exact_view(crys, spec)
    except latt.Irrational as e:
        stats["skipped-irrational"] += 1
        ck.note("exact view failed for %s/%s: %s" % (spec.label, mode, e))
        return None
    ops = latt.exact_ops(crys)
    nG = len(ops)
    spin_kind = "none" if crys.spins is None else ("vector" if view.vector_spins else "scalar")
    kind = "%dD-%s-%s-spin:%s-chem%d" % (d, spec.label.split("-")[-1].replace("+strain", "") if spec.label.startswith("rand") else spec.label,
                                          mode, spin_kind, crys.Nchem)
    ck.case(key=(spec.describe(), mode), nontrivial=(nG > 1 or crys.N > 1), kind="%dD-%s-spin:%s" % (d, mode, spin_kind),
            sample={"crystal": spec.label, "mode": mode, "natoms": crys.N, "nchem": crys.Nchem, "spins": spin_kind, "|G|": nG,
                    "basis": [[[str(x) for x in u] for u in ul] for ul in view.basis]} if (nG > 1 and len(ck.samples) < 6) else None)
    stats["crystals"] += 1; stats["ops"] += nG
    stats["kinds"][kind] = stats["kinds"].get(kind, 0) + 1
    bad_shape = [o for o in ops if "bad" in o]
    if bad_shape:
        report(ck, stats, "GroupOp of the wrong dimension in crys.G: " + bad_shape[0]["bad"], replay,
                     key="c18-nosym-2d" if (mode == "NOSYM" and d == 2) else "c18-op-shape")
        return view
    if nG == 0:
        report(ck, stats, "crys.G is empty", replay, key="c18-empty-group"); return view
    # ---- direct evaluation, exact (Python Fractions) ------------------------------------------
    for k, o in enumerate(ops):
        why = latt.py_check_op(view, o)
        if why:
            report(ck, stats, "operation %d of crys.G is not a symmetry: %s" % (k, why),
                         dict(replay, rot=o["rot"], trans=[str(x) for x in o["trans"]], indexmap=o["perm"]), key="c18-op-invalid")
            break
        if not latt.py_spin_ok(crys, o["g"]):
            report(ck, stats, "operation %d of crys.G does not keep the spins (no phase factor works)" % k,
                         dict(replay, rot=o["rot"], trans=[str(x) for x in o["trans"]], indexmap=o["perm"]), key="c18-spin")
            break
    klass = None
    if mode in ("noreduce", "skew"):
        # cells the code did not reduce itself: classify the input (not the outcome)
        if latt.pure_translations(view): klass = "c18-noreduce-nonprimitive"
        elif len(latt.holohedry(view.g, 2)) != len(latt.holohedry(view.g, 1)): klass = "c18-noreduce-skewed"
        if klass: stats[klass] = stats.get(klass, 0) + 1
    replay["input_class"] = klass
    why = latt.py_check_group(view, ops)
    if why:
        report(ck, stats, "crys.G is not a group modulo lattice translations: " + why +
               (" [cell given with noreduce=True is %s]" % klass.split("-")[-1] if klass else ""), replay, key=klass or "c18-not-group")
    # ---- direct evaluation, floats on the implementation --------------------------------------
    A, Ai = crys.lattice, crys.invlatt
    for o in ops:
        g = o["g"]
        e1 = np.abs(g.cartrot.T @ g.cartrot - np.eye(d)).max()
        e2 = np.abs(g.cartrot - A @ g.rot @ Ai).max()
        gi = g * g.inv()
        e3 = max(np.abs(gi.rot - np.eye(d, dtype=int)).max(), np.abs(gi.trans).max(), np.abs(gi.cartrot - np.eye(d)).max())
        idperm = tuple(tuple(range(len(ul))) for ul in crys.basis)
        if not (e1 <= FTOL and e2 <= FTOL and e3 <= FTOL and gi.indexmap == idperm and (g.inv() * g).indexmap == idperm):
            report(ck, stats, "cartrot not orthogonal / not A rot A^-1 / g*g.inv() not the identity (%.2g, %.2g, %.2g)" % (e1, e2, e3),
                         dict(replay, rot=o["rot"]), key="c18-float-algebra")
            break
    # ---- independent exact enumeration (evidence only: completeness is not part of the property) ----
    if not view.vector_spins and mode != "NOSYM" and crys.N <= 12:
        n_ind = latt.independent_group_order(view)
        stats["complete-checked"] += 1
        if n_ind != nG:
            stats["incomplete"] += 1
            ck.note("|G|=%d but independent enumeration (entries in -1..1) finds %d for %s/%s" % (nG, n_ind, spec.label, mode))
    # ---- Coq case ------------------------------------------------------------------------------
    muls, invs = [], []
    try:
        for _ in range(min(4, nG)):
            a, b = rng.choice(ops), rng.choice(ops)
            muls.append((a, b, impl_op_exact(a["g"] * b["g"], d)))
            invs.append((a, impl_op_exact(a["g"].inv(), d)))
    except latt.Irrational:
        muls, invs = [], []
    D = latt.common_den(view, list(ops) + [m[2] for m in muls] + [i[1] for i in invs])
    full = nG <= COQ_GROUP_MAX
    if not full: stats["closure-python-only"] += 1
    term = "(%s, %s, %s, %s, %s)" % (
        latt.coq_crystal(view, D), coq_list([latt.coq_op(o, D) for o in ops]), "true" if full else "false",
        coq_list(["(%s, %s, %s)" % (latt.coq_op(a, D), latt.coq_op(b, D), latt.coq_op(ab, D)) for a, b, ab in muls]),
        coq_list(["(%s, %s)" % (latt.coq_op(a, D), latt.coq_op(ai, D)) for a, ai in invs]))
    coq_terms.append((term, dict(replay, nG=nG, D=D), nG))
    return view


def noisy_check(ck, nr, spec, thr, amp, stats):
    """float evaluator for crystals with coordinate noise and a loosened threshold: every stored (rot, trans, indexmap) must map every atom
    onto its recorded image within the threshold, the set must be a group modulo lattice translations and as large as without noise"""
    from onsager import crystal
    d = spec.dim
    basis = [[u + nr.uniform(-amp, amp, d) for u in ul] for ul in spec.fbasis()]
    replay = {"spec": spec.describe(), "threshold": thr, "noise": amp, "basis": [[u.tolist() for u in ul] for ul in basis]}
    ck.case(key=(spec.describe(), "noisy", thr, amp), nontrivial=True, kind="%dD-noisy-thr%g" % (d, thr))
    try:
        crys = crystal.Crystal(spec.A, basis, threshold=thr, noreduce=True)
        ref = crystal.Crystal(spec.A, spec.fbasis(), noreduce=True)
    except Exception as e:
        report(ck, stats, "Crystal(noisy non-symmorphic crystal, threshold=%g) raised %s: %s" % (thr, type(e).__name__, e), replay, "c18-construct-exception")
        return
    stats["noisy-crystals"] = stats.get("noisy-crystals", 0) + 1
    tol = 4 * max(thr, amp)
    wrap = lambda v: v - np.round(v)
    worst = 0.0
    for g in crys.G:
        if len(g.indexmap) != crys.Nchem or any(sorted(p) != list(range(len(ul))) for p, ul in zip(g.indexmap, crys.basis)):
            report(ck, stats, "indexmap of an operation is not one permutation per chemistry", dict(replay, rot=g.rot.tolist()), "c18-op-invalid"); return
        for c, ul in enumerate(crys.basis):
            for i, u in enumerate(ul):
                e = float(np.abs(wrap(np.dot(g.rot, u) + g.trans - ul[g.indexmap[c][i]])).max())
                worst = max(worst, e)
                if e > tol:
                    report(ck, stats, "noisy crystal (noise %g, threshold %g): rot.u + trans misses the atom recorded in indexmap by %.3g (rot %s, trans %s)" % (
                        amp, thr, e, g.rot.tolist(), np.round(g.trans, 7).tolist()), dict(replay, rot=g.rot.tolist(), trans=g.trans.tolist()), "c18-noisy-op")
                    return
    stats["noisy-max-miss/thr"] = max(stats.get("noisy-max-miss/thr", 0.0), worst / thr)
    ops = list(crys.G)
    def find(rot, trans, perm):
        return any(np.array_equal(rot, h.rot) and perm == h.indexmap and np.abs(wrap(trans - h.trans)).max() <= tol for h in ops)
    for g in ops:
        gi = g.inv()
        if not find(gi.rot, gi.trans, gi.indexmap):
            report(ck, stats, "noisy crystal: inverse of an operation is missing", dict(replay, rot=g.rot.tolist()), "c18-not-group"); return
        for h in ops:
            gh = g * h
            if not find(gh.rot, gh.trans, gh.indexmap):
                report(ck, stats, "noisy crystal: product of two operations is missing", dict(replay, rot1=g.rot.tolist(), rot2=h.rot.tolist()), "c18-not-group"); return
    if len(crys.G) != len(ref.G):
        report(ck, stats, "noisy crystal (noise %g, threshold %g): |G| = %d, without noise %d" % (amp, thr, len(crys.G), len(ref.G)), replay, "c18-noisy-order")


def run_coq(ck, coq_terms, stats):
    # chunk by cost (closure is cubic in |G|)
    chunks, cur, cost = [], [], 0
    for t in coq_terms:
        c = 1 + t[2] ** 3
        if cur and (cost + c > 6e6 or len(cur) >= 60):
            chunks.append(cur); cur, cost = [], 0
        cur.append(t); cost += c
    if cur: chunks.append(cur)
    for n, ch in enumerate(chunks):
        body = "\n".join("Eval vm_compute in (run %s)." % t[0] for t in ch)
        try:
            out = ck.coq_cases("grp%d" % n, body, PRE)
        except CoqFailure as e:
            ck.broken_proof = "correspondence Model/Lattice (first_bad/diagnose_group): %s" % e
            return
        res = latt.parse_Zlist(out)
        if len(res) != len(ch):
            ck.broken_proof = "correspondence Model/Lattice: could not parse the model output (%d answers for %d cases)" % (len(res), len(ch))
            return
        for (term, replay, nG), r in zip(ch, res):
            stats["coq-cases"] += 1
            if r[0] != 0:
                report(ck, stats, "Coq checker rejects operation %d of crys.G: %s" % (r[0] - 1, OPDIAG.get(r[1], r[1])), replay, key="c18-coq-op-%d" % r[1])
            if r[2] != 0:
                report(ck, stats, "Coq group checker: %s" % GRDIAG.get(r[2], r[2]), replay, key=replay.get("input_class") or "c18-coq-group-%d" % r[2])
            if r[3] != 0 or r[4] != 0:
                report(ck, stats, "GroupOp.__mul__ / inv() differ from the model op_mul / op_inv (%d products, %d inverses)" % (r[3], r[4]),
                             replay, key="c18-coq-algebra")


def run(ck):
    ck.rule = ("named lattices (exact data) + random crystals: random crystal system (2-D: square/rect/centred rect/hex/oblique; "
               "3-D: cubic P/F/I, tetragonal P/I, orthorhombic P/C, hexagonal, monoclinic, triclinic, rhombohedral), 1-3 species, "
               "each a union of orbits of random grid points (Wyckoff decorations) or general points, no / scalar / vector spins; "
               "modes: symmetry search on, NOSYM, noreduce, random small strain (dyadic, via Crystal.strain); distinct = distinct "
               "(spec, mode); non-trivial = more than one atom or more than one operation")
    ck.trusted += ["harness/latt.py, c18.py: rationalisation of the implementation's floats (each verified to 1e-9, denominators <= 5040) "
                   "and printing of Coq literals", "numpy linear algebra for the float-side checks (tolerance 1e-10)"]
    ck.theorems()
    rng = ck.rng
    stats = {"crystals": 0, "ops": 0, "coq-cases": 0, "skipped-irrational": 0, "closure-python-only": 0, "complete-checked": 0,
             "incomplete": 0, "construct-exceptions": 0, "kinds": {}}
    coq_terms = []
    specs = list(latt.named_specs())
    if ck.quick:
        rng.shuffle(specs); specs = specs[:7]
    nrand = ck.n(18, 600)
    for k in range(nrand):
        dim = 2 if k % 3 == 0 else 3
        specs.append(latt.random_spec(rng, dim=dim, maxatoms=ck.n(8, 12)))
    # NOSYM in 2-D must be exercised on every run (DESIGN 5.5)
    forced = {"square": "NOSYM", "rect-polar2d": "NOSYM"}
    for nm, spec in [(s.label, s) for s in latt.named_specs() if s.label in forced]:
        specs.append(spec)
    seen_forced = set()
    # probes of the two classes of cells the code does not reduce itself (noreduce=True): non-primitive and sheared
    o, h, q, i = Fr(0), Fr(1, 2), Fr(1, 4), Fr(1)
    sq = [[i, o], [o, i]]
    probe1 = latt.Spec("probe-square-nonprimitive", np.eye(2), sq, [[(o, o), (o, h), (q, q), (q, 3 * q)]], None, sq)
    bcc = [s for s in latt.named_specs() if s.label == "bcc"][0]
    Ub = [[i, o, o], [i, i, o], [-i, o, i]]
    probe2 = latt.Spec("probe-bcc-sheared", bcc.A @ np.array([[float(x) for x in r] for r in Ub]),
                       latt.fmat_mul(latt.fmat_T(Ub), latt.fmat_mul(bcc.g, Ub)), [[(o, o, o)]], None, latt.fmat_mul(bcc.Aq, Ub))
    probes = {probe1.label, probe2.label}
    specs += [probe1, probe2]
    # magnetic supercells with an ANTI-translation (pure translation + spin reversal) on lattices with 3-, 4-, 6-fold axes:
    # G must contain {R|t} for every rotation R and the anti-translation t (needs the phase -1 for every rotation type)
    named = {s_.label: s_ for s_ in latt.named_specs()}
    afm = []
    for nm, w, vec in (("hcp", (0, 0, 1), None), ("hcp", (0, 0, 1), (0, 0, 1)), ("sc", (1, 1, 1), None), ("sc", (0, 0, 1), (0, 0, 1)),
                       ("fcc", (1, 1, 1), None), ("bcc", (1, 1, 1), None), ("square", (1, 1), None), ("tria", (1, 0), None)):
        b = named[nm]
        afm.append(latt.afm_supercell(b, w, [[vec for _ in ul] for ul in b.basis] if vec else None,
                                      label="%s+afm%s%s" % (nm, "".join(map(str, w)), "-vector" if vec else "")))
    if ck.quick:
        keep = [a for a in afm if a.label in ("hcp+afm001", "sc+afm111", "fcc+afm111")]
        rest = [a for a in afm if a not in keep]; rng.shuffle(rest)
        afm = keep + rest[:2]
    nafm = ck.n(4, 120)
    tries = 0
    while nafm > 0 and tries < 2000:
        tries += 1
        dim_ = rng.choice([2, 3, 3])
        sysm_ = rng.choice([None, "hex", "square"] if dim_ == 2 else [None, None, "hex", "cubic", "fcc", "bcc", "rhomb", "tet"])
        b = latt.random_spec(rng, dim=dim_, system=sysm_, maxatoms=3, nchem_max=2, spin_mode=rng.choice(["none", "scalar", "vector"]))
        w = tuple(rng.choice([0, 1]) for _ in range(b.dim))
        if not any(w): w = tuple(1 for _ in range(b.dim))
        if rng.random() < 0.4: w = tuple(1 for _ in range(b.dim))
        afm.append(latt.afm_supercell(b, w)); nafm -= 1
    # non-collinear vector-spin textures related by 3-, 4-, 6-fold rotations (kagome 120-degree both chiralities, square vortices,
    # pyrochlore all-in-all-out ...): the rotated spin cartrot.s_i must be (a phase times) the spin of the image atom
    tex = latt.texture_specs()
    if ck.quick:   # mixed scalar-0 / vector representations: all "scalar 0 listed first" crystals, the other two forms for two of them
        tex = [t for t in tex if not t.label.startswith("mixed") or t.label.endswith("scalar0-first")
               or t.label.startswith(("mixed-tet-moment-x", "mixed-tet-canted"))]
    afm += tex
    # multi-chemistry non-symmorphic crystals, the more symmetric sublattice listed first and last (indexmap must have one permutation
    # per chemistry, each matching rot.u + trans for EVERY chemistry)
    ns = latt.nonsymmorphic_specs(rng, ck.n(2, 60))
    if ck.quick:     # all equal-count crystals, the unequal-count / three-chemistry ones of two lattices, two random families
        ns = [x for x in ns if not ("-4" in x.label or "-3chem" in x.label) or x.label.startswith(("ns-ortho-I", "ns-rect-glide"))]
    afm += ns
    afmlabels = {a.label for a in afm}
    specs += afm
    for spec in specs:
        vs = variants(ck, rng, spec) if spec.label not in probes else [("noreduce", {"noreduce": True}, None)]
        if spec.label in afmlabels:
            vs = [("sym", {}, None)] + ([("noreduce", {"noreduce": True}, None)] if rng.random() < 0.5 else [])
        if spec.label in forced and spec.label not in seen_forced:
            seen_forced.add(spec.label)
            if not any(v[0] == "NOSYM" for v in vs): vs.append(("NOSYM", {"NOSYM": True}, None))
        base = None
        for mode, kw, strain in vs:
            if strain is None:
                if mode == "skew":
                    spec0 = spec
                    spec, _U = latt.skew(rng, spec0)
                try:
                    crys = latt.build(spec, **kw)
                except Exception as e:
                    stats["construct-exceptions"] += 1
                    ck.case(key=(spec.describe(), mode), nontrivial=True, kind="%dD-%s-exception" % (spec.dim, mode))
                    report(ck, stats, "Crystal(%s) raised %s: %s" % (", ".join("%s=%s" % kv for kv in kw.items()) or "default", type(e).__name__, e),
                                 {"spec": spec.describe(), "mode": mode, "kwargs": kw,
                                  "reproduce": "Crystal(np.array(%r), %r, spins=%r%s)" % (spec.A.tolist(), [[list(map(float, u)) for u in ul] for ul in spec.basis],
                                                                                          spec.spins, "".join(", %s=%s" % kv for kv in kw.items()))},
                                 key="c18-nosym-2d" if (mode == "NOSYM" and spec.dim == 2) else "c18-construct-exception")
                    if mode == "skew": spec = spec0
                    continue
                view = evaluate(ck, rng, spec, crys, mode, stats, coq_terms)
                if mode == "sym": base = (crys, view)
                if mode == "skew": spec = spec0
            else:
                if base is None or base[1] is None: continue
                crys0, view0 = base
                eps = random_strain(rng, spec)
                s2, epsf = strained_spec(spec, crys0, view0, eps)
                try:
                    crys = crys0.strain(epsf)
                except Exception as e:
                    stats["construct-exceptions"] += 1
                    report(ck, stats, "Crystal.strain raised %s: %s" % (type(e).__name__, e), {"spec": spec.describe(), "eps": epsf.tolist()},
                                 key="c18-construct-exception")
                    continue
                # strain() passes the crystal's own (possibly non-integer after reduction) spins on
                s2.spins = None
                evaluate(ck, rng, s2, crys, "strain", stats, coq_terms)
    # noisy non-symmorphic crystals with loosened thresholds (translations with components exactly 1/2: hcp 6_3, glides, 2_1 screws)
    nr = ck.nprng(18)
    noisy = latt.glide_specs() + [x for x in latt.nonsymmorphic_specs() if x.label in ("ns-ortho-I", "ns-tet-I", "ns-rect-glide", "ns-ortho-C-4", "ns-ortho-I-3chem-reversed")]
    for spec in noisy:
        for thr, amp in ((1e-4, 1e-6), (1e-5, 1e-7)) if not ck.quick else ((1e-4, 1e-6),):
            for rep in range(ck.n(1, 3)):
                noisy_check(ck, nr, spec, thr, amp, stats)
    run_coq(ck, coq_terms, stats)
    kinds = stats.pop("kinds")
    ck.extra["stats"] = stats
    ck.extra["skipped"] = {"irrational-view": stats["skipped-irrational"]}
    ck.extra["traces_validated_against_impl"] = stats["coq-cases"]
    ck.extra["crystal_kinds"] = len(kinds)
    ck.note("crystals=%d operations=%d coq-cases=%d closure-python-only=%d independent-enumeration mismatches=%d/%d" % (
        stats["crystals"], stats["ops"], stats["coq-cases"], stats["closure-python-only"], stats["incomplete"], stats["complete-checked"]))
