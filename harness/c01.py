"""C01  Vacancy-mediated transport coefficients are exact in the dilute limit.

Model: the one-solute/one-vacancy Markov chain on the torus Z_M^d (harness/vm.py builds it from the
calculator's own symmetry classes) is a network of Model/Net.v with 2*dim displacement components
(solute, vacancy).  Theorems (Properties/C01.v): the chain's coefficients are well defined (independent of
the corrector), the certificate checker is sound, the Dyson/resolvent identities behind the Green-function
formula hold in every ring.  Tie:
 (a) exact tier  - 2-D crystals (1-3 sites, incl. two Wyckoff sets with unequal site data), dyadic prefactors (all rates exact rationals): Lij with the torus
     Green function injected through its public cache must lie within 1e-9 of THE exact coefficients of the
     chain, decided by the Coq checker over Z;
 (b) float tier  - crystal pool (2-D/3-D, multi-site, several Wyckoff sets, Nthermo 1-2), random energies:
     injected Lij vs the chain solved in numpy (1e-8 relative);
 (c) real Green function - un-injected Lij vs the Richardson-extrapolated injected results at two torus
     sizes (Brillouin-zone accuracy: 0.5 x finite-size step + 2e-3 relative);  L0vv vs the exact unit-cell corrector formula.
Partial: the limit M -> infinity is not formalised (tier c samples it)."""
META = dict(
    level="proof",
    text=("Theorems for every ring/network: pair-chain coefficients are corrector-independent, certificate checker sound, "
          "Dyson resolvent identities; correspondence: Lij with the torus Green function injected through the public cache vs "
          "the exact one-solute/one-vacancy torus chain (Coq checker over Z on dyadic data; numpy on the crystal pool), plus "
          "un-injected Lij vs Richardson-extrapolated torus results at Brillouin-zone accuracy."),
    note=("Trusted: Coq kernel/vm_compute; harness/vm.py chain construction from the calculator's own stars/jump classes "
          "(those are C24/C26); L1vv convention (implementation omits the ghost-chain contribution of origin states); "
          "M->infinity limit sampled, not proved; float tolerances 1e-8 (injected) / calibrated finite-size bound (real GF)."),
    technique="Coq proof (Net.v, resolvent identities) + exact torus-chain oracle via Green-function cache injection",
)

import itertools, random
import numpy as np
from fractions import Fraction
from . import gen, vm, netcase
from .lib import CoqFailure

KEY_POLAR = "c01-originstate-vectorbasis"


def polar_projector(d):
    """projector Q onto the complement of the span of the unit-cell site vector basis of the vacancy sublattice"""
    dim = d.crys.dim
    VB, VV = d.crys.FullVectorBasis(d.chem)
    vecs = [v for f in VB for v in f if np.linalg.norm(v) > 1e-9]
    if not vecs: return np.eye(dim), 0
    U, S, Vt = np.linalg.svd(np.array(vecs), full_matrices=False)
    P = sum(np.outer(v, v) for v, s in zip(Vt, S) if s > 1e-8)
    return np.eye(dim) - P, int(round(np.trace(P)))


def site_contrib(d, bFV, bFT0):
    """per-site contributions c(s) to the bare vacancy coefficient: N*L0vv = sum_s pV[s] c(s)"""
    N = d.N; dim = d.crys.dim; invmap = d.invmap
    W = np.zeros((N, N)); b = np.zeros((N, dim)); c0 = np.zeros((N, dim, dim))
    for jt, jl in enumerate(d.om0_jn):
        for (i, j), dx in jl:
            r = np.exp(-bFT0[jt] + bFV[invmap[i]]); W[i, j] += r; W[i, i] -= r; b[i] += r * dx; c0[i] += 0.5 * r * np.outer(dx, dx)
    gam = np.linalg.lstsq(W, -b, rcond=None)[0]
    # gauge of GFcalc.biascorrection (sum_v pV[v] gamma[v] = 0): only matters for truly polar crystals (a vector invariant under
    # the whole point group), where the origin-state ghost term depends on the additive constant of the unit-cell corrector
    pV = np.array([np.exp(min(bFV) - bFV[invmap[i]]) for i in range(N)]); pV *= N / pV.sum()
    gam = gam - (pV[:, None] * gam).sum(0) / N
    return np.array([c0[i] - 0.5 * (np.outer(b[i], gam[i]) + np.outer(gam[i], b[i])) for i in range(N)])


def probs(d, bFV, bFS):
    N = d.N; invmap = d.invmap
    pV = np.array([np.exp(min(bFV) - bFV[invmap[i]]) for i in range(N)]); pV *= N / pV.sum()
    pS = np.array([np.exp(min(bFS) - bFS[invmap[i]]) for i in range(N)]); pS *= N / pS.sum()
    return pV, pS


def targets(d, args, M, I):
    """chain-normalised targets implied by the implementation's results I=(L0vv,Lss,Lsv,L1vv):
    Lvv(chain) = L1vv - X + N M^d L0vv, X = ghost-chain contribution of the origin states"""
    pV, pS = probs(d, args[0], args[1])
    c = site_contrib(d, args[0], args[3])
    X = sum(pS[s] * pV[s] * c[s] for s in range(d.N)) / d.N
    return I[1], I[2], I[3] - X + d.N * M ** d.crys.dim * I[0], X


def compare_injected(ck, d, args, M, label, info):
    """float tier: injected Lij vs numpy chain.  Returns dict of relative errors"""
    I = vm.inject(d, args, M)
    o = vm.oracle(d, args, M)
    Lss, Lsv, Lvv, X = targets(d, args, M, I)
    Q, npolar = polar_projector(d)
    scale = max(np.abs(I[0]).max(), 1e-300)
    errs = {}
    for nm, a, b in (("Lss", Lss, o["Lss"]), ("Lsv", Lsv, o["Lsv"]), ("L1vv", Lvv, o["Lvv"]), ("L0vv", I[0], o["L0vv"])):
        sc = scale * (d.N * M ** d.crys.dim if nm == "L1vv" else 1.0)
        dq = Q @ (a - b) @ Q
        errs[nm] = np.abs(dq).max() / sc
        errs[nm + "_polar"] = np.abs((a - b) - dq).max() / sc
    return I, o, errs, npolar


def exact_case(ck, d, th, M, label):
    """integer certificate for the Coq checker (dyadic prefactors, zero energies)"""
    crys = d.crys; dim = crys.dim; N = d.N; invmap = d.invmap
    args = d.preene2betafree(1.0, **th)
    I = vm.inject(d, args, M)
    c = vm.torus_chain(d, *args, M=M, solute=True)
    F = lambda x: Fraction(float(x))
    ZV = sum(F(th["preV"][invmap[i]]) for i in range(N)); ZS = sum(F(th["preS"][invmap[i]]) for i in range(N))
    conds, jumps = [], []
    cidx = {}
    for (x, y, rate, ds, dv, kind, k) in c.edges:
        s = c.states[x][0]
        if kind == 0: cf = F(th["preS"][invmap[s]]) * F(th["preT0"][k])
        elif kind == 1: cf = F(th["preT1"][k])
        else: cf = F(th["preT2"][k])
        # self-check of the exact formula against the float chain
        fl = c.w[x] * rate
        ex = float(cf) * N * N / float(ZV * ZS)
        if abs(fl - ex) > 1e-11 * max(abs(fl), 1e-300):
            raise RuntimeError("exact conductance formula disagrees with float chain: %r vs %r" % (fl, ex))
        dl = [gen.rationalize(v) for v in np.dot(crys.invlatt, ds)] + [gen.rationalize(v) for v in np.dot(crys.invlatt, dv)]
        if any(v is None for v in dl): return None
        if cf not in cidx: cidx[cf] = len(conds); conds.append(cf)
        jumps.append((x, y, cidx[cf], dl))
    Lss, Lsv, Lvv, X = targets(d, args, M, I)
    A = crys.invlatt
    T = np.zeros((2 * dim, 2 * dim))
    T[:dim, :dim] = A @ Lss @ A.T; T[:dim, dim:] = (A @ Lsv @ A.T).T; T[dim:, :dim] = A @ Lsv @ A.T;   # implementation: Lsv[a, b] = <vacancy_a solute_b>
    T[dim:, dim:] = A @ Lvv @ A.T
    tol = 1e-9 * max(np.abs(T).max(), 1e-300)
    factor = 2 * ZS * ZV / N     # Bform(directed, integer conds) = factor * L(chain, implementation normalisation)
    term, info = netcase.integer_case(c.n, 2 * dim, conds, jumps, T, tol, factor)
    if term is None: return None
    return dict(term=term, info=info, label=label, M=M, n=c.n, nedges=len(jumps), th={k: np.asarray(v).tolist() for k, v in th.items()},
                L=[np.asarray(x).tolist() for x in I], target=T.tolist())


def network_for(crys, chem, rng):
    net = gen.percolating_network(crys, chem, rng, maxshell=1, maxjumps=30)
    return net


def run(ck):
    ck.rule = ("crystal pool x first percolating shell x Nthermo x random data (site, binding, omega0/1/2 TS energies and "
               "prefactors); exact tier: 1-site 2-D crystals with dyadic prefactors decided by the Coq checker over Z; float tier: "
               "injected Lij vs numpy torus chain; real-GF tier: Richardson extrapolation in torus size; distinct = (crystal, "
               "Nthermo, data); non-trivial = interaction present (some binding or TS change)")
    ck.trusted += ["harness/vm.py (torus chain from the calculator's own classes), netcase.py/exact.py (certificate)",
                   "L1vv convention: implementation value = chain difference + ghost-chain contribution of origin states"]
    ck.theorems()
    rng = ck.rng
    skipped = {"nonpercolating": 0, "too-large": 0, "irrational-geometry": 0}
    polar_seen = 0
    # ---------------- (a) exact tier --------------------------------------------------------------
    exact_cases = []
    # sq2w: two Wyckoff sets with unequal site data; oblique1: point group 2, the exact Lsv has an antisymmetric part
    # rect-polar2d / tria-disp: non-empty site vector basis (origin-state correction, fix b4a4433) - decided exactly as well
    names_exact = ["square", "rect-polar2d", "sq2w", "oblique1", "honeycomb", "rect", "tria-disp", "tria"]
    if not ck.quick: names_exact += ["sc", "tet"]                   # 3-D: 124 states, 744 edges, 6 correctors
    for rep in range(ck.n(8, 16)):
        nm = names_exact[rep % len(names_exact)]
        crys, chem = gen.named(nm)
        net = network_for(crys, chem, rng)
        cut, sl, jn = net
        d = vm.make(crys, chem, sl, jn, 1)
        th = vm.random_thermo(d, rng, interact=True, dyadic=True)
        ec = exact_case(ck, d, th, vm.min_torus(d), nm)
        if ec is None: skipped["irrational-geometry"] += 1; continue
        if ec["info"]["bits"] > 8000: skipped["too-large"] += 1; continue
        exact_cases.append(ec)
    try:
        codes = netcase.run_cases(ck, "exact", [e["term"] for e in exact_cases], chunk=4)
    except CoqFailure as e:
        ck.broken_proof = "correspondence Model/Interstitial.diagnose on the pair chain: %s" % e
        codes = []
    for e, c in zip(exact_cases, codes):
        ck.case(key=("exact", e["label"], e["th"]), nontrivial=True, kind="exact:%s-M%d-n%d" % (e["label"], e["M"], e["n"]),
                sample={"tier": "exact", "crystal": e["label"], "M": e["M"], "states": e["n"], "edges": e["nedges"],
                        "thermo": e["th"], "Lij(injected)": e["L"], "bits": e["info"]["bits"]})
        if c == 4: raise RuntimeError("harness certificate rejected by the model")
        if c != 0:
            ck.violation("exact correspondence (Coq checker code %d): injected Lij outside 1e-9 of the exact torus chain" % c,
                         {"crystal": e["label"], "M": e["M"], "thermo": e["th"], "Lij_injected": e["L"],
                          "target_lattice_coords": e["target"],
                          "exact_lattice_coords": [[str(x) for x in r] for r in e["info"]["exactL"]]}, key="c01-exact-%d" % c)
    ck.extra["exact_cases"] = len(codes)
    # ---------------- (b) float tier + (c) real GF -------------------------------------------------
    names = gen.SMALL + ["ortho", "oblique1", "mono"] + (["fcc", "bcc", "hcp", "re3", "diamond", "tric"] if not ck.quick else ["fcc", "re3"])
    ncr = ck.n(9, 40)
    nfloat = 0; nreal = 0
    pool = list(gen.pool(rng, ncr, names=names, random_frac=0.35, nchem_max=2, maxatoms=2))
    # crystals with a non-empty site vector basis always run first (origin-state theory of Lij: every component is compared)
    osn = ["rect-polar2d", "oblique2d", "tria-disp", "polar3w2d"] + ([] if ck.quick else ["pg4", "p1-2d", "polar", "rect-polar2d", "oblique2d"])
    pool = [(nm,) + gen.named(nm) for nm in osn] + pool
    for label, crys, chem in pool:
        try:
            net = network_for(crys, chem, rng)
        except Exception:
            net = None
        if net is None: skipped["nonpercolating"] += 1; continue
        cut, sl, jn = net
        Nth = 1 if (ck.quick or crys.dim == 3 and len(crys.basis[chem]) > 1) else rng.choice([1, 1, 2])
        if crys.dim == 2 and rng.random() < (0.25 if ck.quick else 0.5): Nth = 2
        try:
            d = vm.make(crys, chem, sl, jn, Nth)
        except Exception as e:
            ck.violation("VacancyMediated construction failed: %r" % e, {"crystal": repr(crys), "chem": chem, "cutoff": cut, "Nthermo": Nth},
                         key="c01-construct")
            continue
        M = vm.min_torus(d)
        nst = d.N * d.N * M ** crys.dim
        if nst > (700 if ck.quick else 2600): skipped["too-large"] += 1; continue
        for rep in range(ck.n(2, 3)):
            interact = rep > 0 or rng.random() < 0.5
            th = vm.random_thermo(d, rng, interact=interact, site_energies=True)
            args = d.preene2betafree(rng.choice([1.0, 0.7, 1.3]), **th)
            try:
                I, o, errs, npolar = compare_injected(ck, d, args, M, label, None)
            except Exception as e:
                ck.violation("Lij raised %r" % e, {"crystal": repr(crys), "chem": chem, "cutoff": cut, "Nthermo": Nth,
                                                   "thermo": {k: np.asarray(v).tolist() for k, v in th.items()}}, key="c01-raise")
                continue
            nfloat += 1
            kind = "float:%dD-N%d-W%d-Nth%d-%s" % (crys.dim, d.N, len(sl), Nth, "polar" if npolar else "nonpolar")
            ck.case(key=("float", label, round(cut, 5), Nth, [np.asarray(a).round(12).tolist() for a in args]), nontrivial=interact, kind=kind,
                    sample={"tier": "float", "crystal": label, "Nthermo": Nth, "M": M, "states": nst, "errors": {k: float(v) for k, v in errs.items()}} if nfloat <= 3 else None)
            rep_doc = {"crystal": repr(crys), "chem": chem, "cutoff": cut, "Nthermo": Nth, "M": M,
                       "thermo": {k: np.asarray(v).tolist() for k, v in th.items()}, "betaF": [np.asarray(a).tolist() for a in args],
                       "Lij_injected": [x.tolist() for x in I], "chain": {k: np.asarray(v).tolist() for k, v in o.items() if k != "asym"},
                       "relative_errors": {k: float(v) for k, v in errs.items()}}
            if o["asym"] > 1e-9:
                ck.violation("torus chain violates detailed balance (asym %.2g): omega classes inconsistent" % o["asym"], rep_doc, key="c01-detailed-balance")
            for nm in ("Lss", "Lsv", "L1vv", "L0vv"):
                if not errs[nm] <= 1e-8:
                    ck.violation("%s (injected) differs from the exact torus chain by %.3g relative" % (nm, errs[nm]), rep_doc, key="c01-float-" + nm)
                # components in the span of a site vector basis: since fix b4a4433 the origin-state correction is invariant
                # under the additive constant of the Green function, so the injected torus pseudo-inverse is a valid oracle
                # for them too (before, this was the known finding c01-originstate-vectorbasis)
                if not errs[nm + "_polar"] <= 1e-8:
                    ck.violation("%s (injected) differs from the exact torus chain by %.3g relative in the span of the site vector basis"
                                 % (nm, errs[nm + "_polar"]), rep_doc, key="c01-float-polar-" + nm)
        # (b') the same comparison with the large-omega2 algorithm forced (large_om2 = 0) and inequivalent exchange classes
        # given different rates: for ordinary energies both algorithms must reproduce the exact chain
        # (multi-Wyckoff crystals are the C08 known finding c08-largeom2-exchange-mixes-stars and are not compared here)
        if not vm.exchange_mixes_stars(d):
            th = vm.random_thermo(d, rng, interact=True, site_energies=True)
            th["preT2"] = th["preT2"] * np.array([10.0 ** rng.uniform(0, 1.5) for _ in th["preT2"]])
            args = d.preene2betafree(1.0, **th)
            orig = d.Lij
            try:
                d.Lij = lambda *a, **kw: orig(*a, large_om2=0.)
                I, o, errs, npolar = compare_injected(ck, d, args, M, label, None)
            except Exception as e:
                errs = None
                ck.violation("Lij(large_om2=0) raised %r" % e, {"crystal": repr(crys), "chem": chem, "cutoff": cut, "Nthermo": Nth}, key="c01-raise")
            finally:
                d.Lij = orig
            if errs is not None:
                nfloat += 1
                ck.case(key=("float-large", label, round(cut, 5), Nth, [np.asarray(a).round(12).tolist() for a in args]), nontrivial=True,
                        kind="float-forced-large:%dD-N%d-om2cls%d" % (crys.dim, d.N, len(d.om2_jn)))
                for nm in ("Lss", "Lsv", "L1vv"):
                    errs[nm] = max(errs[nm], errs[nm + "_polar"])
                    if not errs[nm] <= 1e-7:
                        ck.violation("%s (injected, large-omega2 algorithm forced) differs from the exact torus chain by %.3g relative" % (nm, errs[nm]),
                                     {"crystal": repr(crys), "chem": chem, "cutoff": cut, "Nthermo": Nth, "M": M,
                                      "thermo": {k: np.asarray(v).tolist() for k, v in th.items()}, "Lij_injected": [x.tolist() for x in I],
                                      "relative_errors": {k: float(v) for k, v in errs.items()}}, key="c01-float-large-" + nm)
        # (c) real Green function on a subset
        if (nreal < ck.n(3, 12)) and crys.dim * 1 >= 2 and nst <= 1400:
            nreal += 1
            th = vm.random_thermo(d, rng, interact=True, site_energies=True)
            args = d.preene2betafree(1.0, **th)
            d.clearcache()
            R = [np.array(x) for x in d.Lij(*args)]
            # the same input evaluated again after another vacancy data set was evaluated (Green-function cache hit) must
            # give the same answer: everything Lij uses for input A must come from A's cache entry
            th_b = vm.random_thermo(d, rng, interact=True, site_energies=True)
            d.Lij(*d.preene2betafree(0.8, **th_b))
            R3 = [np.array(x) for x in d.Lij(*args)]
            e3 = max(np.abs(a - b).max() for a, b in zip(R, R3)) / max(np.abs(R[0]).max(), 1e-300)
            if e3 > 1e-10:
                ck.violation("Lij(A) after Lij(B) differs from the first Lij(A) by %.3g relative (stale per-input state on a cache hit)" % e3,
                             {"crystal": repr(crys), "chem": chem, "cutoff": cut, "Nthermo": Nth,
                              "thermo_A": {k: np.asarray(v).tolist() for k, v in th.items()}, "thermo_B": {k: np.asarray(v).tolist() for k, v in th_b.items()},
                              "first": [x.tolist() for x in R], "third": [x.tolist() for x in R3]}, key="c01-cache-hit")
            # refining the Green-function mesh on the SAME calculator (documented: calc.GFcalc = calc.GFcalculator(N)) must give what a
            # calculator constructed with that mesh gives - nothing cached for the old mesh may survive (first real-GF cases only)
            if nreal <= 2 and d.N * d.N * M ** crys.dim <= 400:
                try:
                    d.GFcalc = d.GFcalculator(5)
                    R5 = [np.array(x) for x in d.Lij(*args)]
                    dfresh = vm.make(crys, chem, sl, jn, Nth, NGFmax=5)
                    R5f = [np.array(x) for x in dfresh.Lij(*args)]
                    e5 = max(np.abs(a - b).max() for a, b in zip(R5, R5f)) / max(np.abs(R5f[0]).max(), 1e-300)
                    ck.case(key=("ngfmax", label, Nth), nontrivial=True, kind="GF-mesh-refined-on-same-calculator")
                    if e5 > 1e-10:
                        ck.violation("after calc.GFcalc = calc.GFcalculator(5) Lij differs from a calculator constructed with NGFmax=5 by %.3g relative" % e5,
                                     {"crystal": repr(crys), "chem": chem, "cutoff": cut, "Nthermo": Nth, "thermo": {k: np.asarray(v).tolist() for k, v in th.items()},
                                      "refined": [x.tolist() for x in R5], "fresh": [x.tolist() for x in R5f]}, key="c01-GFmesh-refined")
                finally:
                    d.GFcalc = d.GFcalculator(4); d.clearcache()
            dd = crys.dim
            M1, M2 = (M, M + 2) if dd == 3 else (M + 2, M + 6)
            if d.N * d.N * M2 ** dd > 6000: M1, M2 = M, M + 2
            Q, npolar = polar_projector(d)
            if npolar == 0:
                I1 = vm.inject(d, args, M1); I2 = vm.inject(d, args, M2)
            else:
                # polar crystal: compare ALL components with the torus chain itself (no injection), implementation normalisation
                def chainvals(Mx):
                    o = vm.oracle(d, args, Mx)
                    pV, pS = probs(d, args[0], args[1]); cc = site_contrib(d, args[0], args[3])
                    X = sum(pS[s_] * pV[s_] * cc[s_] for s_ in range(d.N)) / d.N
                    return [o["L0vv"], o["Lss"], o["Lsv"], o["Lvv"] - o["Lvv0"] + X]
                I1 = chainvals(M1); I2 = chainvals(M2)
            scale = np.abs(R[0]).max()
            worst = 0.0; step = 0.0; worstp = 0.0
            for a in range(4):
                ext = (M2 ** dd * I2[a] - M1 ** dd * I1[a]) / (M2 ** dd - M1 ** dd)
                dq = Q @ (R[a] - ext) @ Q
                worst = max(worst, np.abs(dq).max() / scale)
                worstp = max(worstp, np.abs((R[a] - ext) - dq).max() / scale)
                step = max(step, np.abs(I2[a] - I1[a]).max() / scale)
            # tolerance: the extrapolation removes the leading 1/M^d term; what is left is bounded by a fraction of the
            # finite-size step itself (calibrated on the unchanged tree: ratio <= 0.3 over the named pool) plus BZ accuracy
            tolreal = 0.5 * step + 2e-3
            ck.case(key=("real", label, Nth, [np.asarray(a).round(12).tolist() for a in args]), nontrivial=True, kind="realGF:%dD" % dd,
                    sample={"tier": "real-GF", "crystal": label, "M1": M1, "M2": M2, "rel_error_vs_extrapolation": float(worst), "tolerance": float(tolreal)} if nreal <= 2 else None)
            if npolar and not worstp <= tolreal:
                polar_seen += 1
                ck.violation("real GF: components in the span of the site vector basis differ from the extrapolated exact chain by %.3g relative" % worstp,
                             {"crystal": repr(crys), "chem": chem, "cutoff": cut, "Nthermo": Nth, "M1": M1, "M2": M2,
                              "thermo": {k: np.asarray(v).tolist() for k, v in th.items()}, "Lij": [x.tolist() for x in R],
                              "chain_M1": [np.asarray(x).tolist() for x in I1], "chain_M2": [np.asarray(x).tolist() for x in I2]}, key="c01-realGF-polar")
            if not worst <= tolreal:
                ck.violation("un-injected Lij differs from the Richardson-extrapolated torus limit by %.3g relative" % worst,
                             {"crystal": repr(crys), "chem": chem, "cutoff": cut, "Nthermo": Nth, "M1": M1, "M2": M2,
                              "thermo": {k: np.asarray(v).tolist() for k, v in th.items()}, "Lij": [x.tolist() for x in R],
                              "ref_M1": [np.asarray(x).tolist() for x in I1], "ref_M2": [np.asarray(x).tolist() for x in I2]}, key="c01-realGF")
    ck.extra["float_cases"] = nfloat
    ck.extra["realGF_cases"] = nreal
    ck.extra["skipped"] = skipped
    ck.extra["polar_component_mismatches"] = polar_seen
    ck.extra["traces_validated_against_impl"] = len(codes) + nfloat
